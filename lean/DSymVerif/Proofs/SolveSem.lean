/-
`solve_sound`, `solve_complete`, generically for a `Sem` back-end:
`solve` returns `X` with `A·X = B`, or `None`; `None` is returned only when the system is
inconsistent or `can_divide` refused a non-zero divisor (never over a field).
-/
import Mathlib.Tactic.LinearCombination
import DSymVerif.Proofs.EchelonSem

namespace DSymVerif.LA

open DSymVerif Matrix

section loops
variable {σ : Type}

theorem forLoop_idx_np (f : Nat → σ → Outcome σ) (I : Nat → σ → Prop) (Bad : Prop) :
    ∀ (n k : Nat) (s : σ), I k s →
      (∀ j s, k ≤ j → j < k + n → I j s →
        (∃ s', f j s = .ok s' ∧ I (j + 1) s') ∨ (f j s = .err ∧ Bad)) →
      (∃ s', forLoop f n k s = .ok s' ∧ I (k + n) s') ∨ (forLoop f n k s = .err ∧ Bad) := by
  intro n
  induction n with
  | zero => intro k s hs _; exact Or.inl ⟨s, rfl, hs⟩
  | succ n ih =>
    intro k s hs hstep
    unfold forLoop
    rcases hstep k s (Nat.le_refl _) (by omega) hs with ⟨s1, h1, hI1⟩ | ⟨h1, hb⟩
    · rw [h1]
      have := ih (k + 1) s1 hI1 (fun j s hj hj' => hstep j s (by omega) (by omega))
      rw [show k + (n + 1) = k + 1 + n by omega]
      exact this
    · rw [h1]; exact Or.inr ⟨rfl, hb⟩

theorem forRange_idx_np (lo hi : Nat) (hle : lo ≤ hi) (init : σ) (f : Nat → σ → Outcome σ)
    (I : Nat → σ → Prop) (Bad : Prop) (h0 : I lo init)
    (hstep : ∀ j s, lo ≤ j → j < hi → I j s →
      (∃ s', f j s = .ok s' ∧ I (j + 1) s') ∨ (f j s = .err ∧ Bad)) :
    (∃ s', forRange lo hi init f = .ok s' ∧ I hi s') ∨ (forRange lo hi init f = .err ∧ Bad) := by
  unfold forRange
  have := forLoop_idx_np f I Bad (hi - lo) lo init h0 (fun j s hj hj' => hstep j s hj (by omega))
  rw [show lo + (hi - lo) = hi by omega] at this
  exact this

theorem forDown_idx_np (f : Nat → σ → Outcome σ) (I : Nat → σ → Prop) (Bad : Prop) :
    ∀ (n : Nat) (s : σ), I n s →
      (∀ j s, j < n → I (j + 1) s → (∃ s', f j s = .ok s' ∧ I j s') ∨ (f j s = .err ∧ Bad)) →
      (∃ s', forDown f n s = .ok s' ∧ I 0 s') ∨ (forDown f n s = .err ∧ Bad) := by
  intro n
  induction n with
  | zero => intro s hs _; exact Or.inl ⟨s, rfl, hs⟩
  | succ n ih =>
    intro s hs hstep
    unfold forDown
    rcases hstep n s (by omega) hs with ⟨s1, h1, hI1⟩ | ⟨h1, hb⟩
    · rw [h1]
      exact ih s1 hI1 (fun j s hj => hstep j s (by omega))
    · rw [h1]; exact Or.inr ⟨rfl, hb⟩

end loops

section solve
variable {α : Type} {B : Backend α} {E : α → Prop} {R : Type} [Field R] {val : α → R}

theorem mul_update_row {nr nc k : Nat} (U : Matrix (Fin nr) (Fin nc) R)
    (X X' : Matrix (Fin nc) (Fin k) R) (c : Fin nc) (h : ∀ l j, l ≠ c → X' l j = X l j)
    (i : Fin nr) (j : Fin k) : (U * X') i j = (U * X) i j + U i c * (X' c j - X c j) := by
  have : (U * X') i j - (U * X) i j = U i c * (X' c j - X c j) := by
    simp only [Matrix.mul_apply, ← Finset.sum_sub_distrib, ← mul_sub]
    exact Finset.sum_eq_single c (fun l _ hl => by rw [h l j hl, sub_self, mul_zero]) (by simp)
  linear_combination this

/-- the reason `solve` may give up on a consistent system: `can_divide` said no although the
    divisor is not zero (machine integers only) -/
def CanDivideRefused (B : Backend α) (E : α → Prop) (val : α → R) : Prop :=
  ∃ t x, E t ∧ E x ∧ val x ≠ 0 ∧ B.canDivide t x = .ok false

theorem solve_sem (hs : Sem B E val) {nr nc k : Nat} (a : Mat α nr nc) (rhs : Mat α nr k)
    (ha : AllE E a) (hb : AllE E rhs) :
    (∃ x, solve B a rhs = .ok x ∧ AllE E x ∧
      toMatrix val a * toMatrix val x = toMatrix val rhs) ∨
    (solve B a rhs = .err ∧
      ((∀ X : Matrix (Fin nc) (Fin k) R, toMatrix val a * X ≠ toMatrix val rhs) ∨
        CanDivideRefused B E val)) := by
  unfold solve
  obtain ⟨re, h1, hmul, hres, hprod, hdet, hech⟩ := echelon_sem hs a ha
  rw [h1]; simp only [bind_ok]
  obtain ⟨y, h2, hy, hyv⟩ := matMul_sem hs.safe hs.scalar re.multiplier rhs hmul hb
  rw [h2]; simp only [bind_ok]
  have hrank := hech.rank_le
  -- the multiplier is invertible
  have hunit : IsUnit (toMatrix val re.multiplier).det := by
    rw [hdet]; exact isUnit_iff_ne_zero.2 (pow_ne_zero _ (by norm_num))
  -- the consistency check
  obtain ⟨cons, h3, hcons⟩ := forRange_idx re.rank nr hrank true
    (fun i acc => forRange 0 k acc fun j acc =>
      (y.get i j).bind fun v => Outcome.ok (acc && B.isZero v))
    (fun i acc => (acc = true ↔ ∀ (i' j' : Nat) (hi' : i' < nr) (hj' : j' < k), re.rank ≤ i' →
      i' < i → val ((y[i'])[j']) = 0))
    (by simp only [true_iff]; intro i' j' _ _ h1 h2; omega)
    (by
      intro i acc hi1 hi2 hI
      obtain ⟨acc', hr, hJ⟩ := forRange_idx 0 k (Nat.zero_le _) acc
        (fun j acc => (y.get i j).bind fun v => Outcome.ok (acc && B.isZero v))
        (fun j acc' => (acc' = true ↔
          (∀ (i' j' : Nat) (hi' : i' < nr) (hj' : j' < k), re.rank ≤ i' → i' < i →
            val ((y[i'])[j']) = 0) ∧
          ∀ (j' : Nat) (hj' : j' < k), j' < j → val ((y[i])[j']) = 0))
        (by rw [hI]; exact ⟨fun h => ⟨h, fun j' _ h' => by omega⟩, fun h => h.1⟩)
        (by
          intro j acc' _ hj hJ
          rw [Mat.get_ok y hi2 hj]
          refine ⟨_, rfl, ?_⟩
          rw [Bool.and_eq_true, hJ, hs.scalar.isZero _ (hy i j hi2 hj)]
          constructor
          · rintro ⟨⟨h1, h2⟩, h3⟩
            refine ⟨h1, fun j' hj' hlt => ?_⟩
            by_cases e : j' = j
            · subst e; exact h3
            · exact h2 j' hj' (by omega)
          · rintro ⟨h1, h2⟩
            exact ⟨⟨h1, fun j' hj' hlt => h2 j' hj' (by omega)⟩, h2 j hj (by omega)⟩)
      refine ⟨acc', hr, ?_⟩
      rw [hJ]
      constructor
      · rintro ⟨h1, h2⟩ i' j' hi' hj' hr1 hr2
        by_cases e : i' = i
        · subst e; exact h2 j' hj' hj'
        · exact h1 i' j' hi' hj' hr1 (by omega)
      · intro h
        exact ⟨fun i' j' hi' hj' hr1 hr2 => h i' j' hi' hj' hr1 (by omega),
          fun j' hj' _ => h i j' hi2 hj' hi1 (by omega)⟩)
  rw [h3]; simp only [bind_ok]
  have hUzero : ∀ (i : Fin nr), re.rank ≤ i.1 → ∀ j : Fin nc, toMatrix val re.result i j = 0 :=
    fun i hi j => hech.zero i.1 j.1 i.2 j.2 hi
  cases cons with
  | false =>
    rw [show (!false) = true from rfl, if_pos rfl]
    refine Or.inr ⟨rfl, Or.inl ?_⟩
    intro X hX
    have hne : ¬ (∀ (i' j' : Nat) (hi' : i' < nr) (hj' : j' < k), re.rank ≤ i' → i' < nr →
        val ((y[i'])[j']) = 0) := fun h => by simpa using hcons.2 h
    apply hne
    intro i' j' hi' hj' hr1 _
    have : toMatrix val y = toMatrix val re.result * X := by
      rw [hyv, ← hX, ← Matrix.mul_assoc, hprod]
    have e := congrFun (congrFun this ⟨i', hi'⟩) ⟨j', hj'⟩
    rw [toMatrix_apply] at e
    rw [e, Matrix.mul_apply]
    exact Finset.sum_eq_zero (fun l _ => by rw [hUzero ⟨i', hi'⟩ hr1 l, zero_mul])
  | true =>
    rw [show (!true) = false from rfl, if_neg (by simp)]
    have hYzero : ∀ (i' j' : Nat) (hi' : i' < nr) (hj' : j' < k), re.rank ≤ i' →
        val ((y[i'])[j']) = 0 :=
      fun i' j' hi' hj' hr1 => hcons.1 rfl i' j' hi' hj' hr1 hi'
    -- back substitution
    rcases forDown_idx_np
      (fun row result =>
        (rowTimes B re.result row result).bind fun av =>
        (if h : row < nr then Outcome.ok re.columns[row] else Outcome.panic).bind fun c =>
        (re.result.get row c).bind fun x =>
        forRange 0 k result fun kk result =>
          (y.get row kk).bind fun b => (av.get 0 kk).bind fun ak =>
          (B.sub b ak).bind fun t =>
          (B.canDivide t x).bind fun cd =>
          if cd then (B.div t x).bind fun q => result.set c kk q else .err)
      (fun r (X : Mat α nc k) => AllE E X ∧
        (∀ (l j : Nat) (hl : l < nc) (hj : j < k),
          (¬ ∃ (i' : Nat) (hi' : i' < nr), r ≤ i' ∧ i' < re.rank ∧ l = re.columns[i']) →
          val ((X[l])[j]) = 0) ∧
        (∀ (i' j : Nat) (hi' : i' < nr) (hj : j < k), r ≤ i' → i' < re.rank →
          (toMatrix val re.result * toMatrix val X) ⟨i', hi'⟩ ⟨j, hj⟩ = val ((y[i'])[j])))
      (CanDivideRefused B E val) re.rank (Mat.fill B.zero : Mat α nc k)
      ⟨AllE.fill hs.safe.zero,
        fun l j hl hj _ => by rw [fill_entry]; exact hs.scalar.zero,
        fun i' j hi' hj h1 h2 => by omega⟩
      (by
        intro row X hrow ⟨hXE, hXz, hXs⟩
        have hrow' : row < nr := by omega
        -- av = row `row` of U times X
        have hav : ∃ av, rowTimes B re.result row X = .ok av ∧ AllE E av ∧
            ∀ (kk : Nat) (hkk : kk < k), val ((av[0])[kk]) =
              (toMatrix val re.result * toMatrix val X) ⟨row, hrow'⟩ ⟨kk, hkk⟩ := by
          unfold rowTimes
          obtain ⟨rm, hrm, hrmE, hrmv⟩ := forRange_idx 0 nc (Nat.zero_le _)
            (Mat.fill B.zero : Mat α 1 nc)
            (fun j r => (re.result.get row j).bind fun v => r.set 0 j v)
            (fun j r => AllE E r ∧ ∀ (l : Nat) (hl : l < nc), l < j →
              (r[0])[l] = (re.result[row])[l])
            ⟨AllE.fill hs.safe.zero, fun l _ h => by omega⟩
            (by
              intro j r _ hj ⟨hrE, hrv⟩
              rw [Mat.get_ok re.result hrow' hj]
              simp only [bind_ok]
              refine ⟨_, Mat.set_ok r (by omega) hj _, hrE.set _ hj (hres row j hrow' hj), ?_⟩
              intro l hl hlt
              rw [entry_set r (by omega) hj _ (by omega) hl]
              by_cases e : j = l
              · subst e; simp
              · rw [if_neg (fun h => e h.2)]; exact hrv l hl (by omega))
          rw [hrm]; simp only [bind_ok]
          obtain ⟨av, hav, havE, havv⟩ := matMul_sem hs.safe hs.scalar rm X hrmE hXE
          refine ⟨av, hav, havE, ?_⟩
          intro kk hkk
          have e := congrFun (congrFun havv ⟨0, by omega⟩) ⟨kk, hkk⟩
          rw [toMatrix_apply] at e
          rw [e, Matrix.mul_apply, Matrix.mul_apply]
          apply Finset.sum_congr rfl
          intro l _
          rw [toMatrix_apply, toMatrix_apply, toMatrix_apply, hrmv l.1 l.2 l.2]
        obtain ⟨av, h4, havE, havv⟩ := hav
        rw [h4]; simp only [bind_ok, hrow', dite_true]
        have hc := hech.cols_lt row hrow' hrow
        rw [Mat.get_ok re.result hrow' hc]; simp only [bind_ok]
        have hxne : val ((re.result[row])[re.columns[row]]) ≠ 0 :=
          hech.pivot row _ hrow' hc hrow rfl
        -- the pivot column of this row has not been assigned yet
        have hcfresh : ¬ ∃ (i' : Nat) (hi' : i' < nr), row + 1 ≤ i' ∧ i' < re.rank ∧
            re.columns[row] = re.columns[i'] := by
          rintro ⟨i', hi', h1, h2, h3⟩
          have := hech.mono row i' hrow' hi' (by omega) h2
          omega
        -- the inner loop over the right-hand-side columns
        rcases forRange_idx_np 0 k (Nat.zero_le _) X
          (fun kk result =>
            (y.get row kk).bind fun b => (av.get 0 kk).bind fun ak =>
            (B.sub b ak).bind fun t =>
            (B.canDivide t ((re.result[row])[re.columns[row]])).bind fun cd =>
            if cd then (B.div t ((re.result[row])[re.columns[row]])).bind fun q =>
              result.set re.columns[row] kk q else .err)
          (fun kk (X' : Mat α nc k) => AllE E X' ∧
            (∀ (l j : Nat) (hl : l < nc) (hj : j < k), ¬ (l = re.columns[row] ∧ j < kk) →
              (X'[l])[j] = (X[l])[j]) ∧
            (∀ (j : Nat) (hj : j < k), j < kk →
              val ((X'[re.columns[row]])[j]) * val ((re.result[row])[re.columns[row]]) =
                val ((y[row])[j]) - val ((av[0])[j])))
          (CanDivideRefused B E val)
          ⟨hXE, fun _ _ _ _ _ => rfl, fun j _ h => by omega⟩
          (by
            intro kk X' _ hkk ⟨hX'E, hX'1, hX'2⟩
            rw [Mat.get_ok y hrow' hkk, Mat.get_ok av (by omega) hkk]
            simp only [bind_ok]
            obtain ⟨t, ht, htE⟩ := hs.safe.sub _ _ (hy row kk hrow' hkk) (havE 0 kk (by omega) hkk)
            rw [ht]; simp only [bind_ok]
            obtain ⟨cd, hcd, hdiv⟩ := hs.safe.canDivide t _ htE (hres row _ hrow' hc)
            rw [hcd]; simp only [bind_ok]
            cases cd with
            | false =>
              exact Or.inr ⟨rfl, t, _, htE, hres row _ hrow' hc, hxne, hcd⟩
            | true =>
              obtain ⟨q, hq, hqE⟩ := hdiv rfl
              simp only [if_true]
              rw [hq]; simp only [bind_ok]
              refine Or.inl ⟨_, Mat.set_ok X' hc hkk q, hX'E.set hc hkk hqE, ?_, ?_⟩
              · intro l j hl hj hn
                rw [entry_set X' hc hkk q hl hj]
                have : ¬ (re.columns[row] = l ∧ kk = j) := by
                  rintro ⟨e1, e2⟩; exact hn ⟨e1.symm, by omega⟩
                rw [if_neg this]
                exact hX'1 l j hl hj (fun h => hn ⟨h.1, by omega⟩)
              · intro j hj hlt
                rw [entry_set X' hc hkk q hc hj]
                by_cases e : kk = j
                · subst e
                  rw [if_pos ⟨rfl, rfl⟩,
                    hs.scalar.div t _ q htE (hres row _ hrow' hc) hcd hq,
                    hs.scalar.sub _ _ t (hy row kk hrow' hkk) (havE 0 kk (by omega) hkk) ht]
                · rw [if_neg (fun h => e h.2)]
                  exact hX'2 j hj (by omega))
          with ⟨X', hX', hX'E, hX'1, hX'2⟩ | ⟨herr, hbad⟩
        · refine Or.inl ⟨X', hX', hX'E, ?_, ?_⟩
          · -- rows of X' that are no assigned pivot column are zero
            intro l j hl hj hn
            have hlc : l ≠ re.columns[row] := by
              intro e; exact hn ⟨row, hrow', Nat.le_refl _, hrow, e⟩
            rw [hX'1 l j hl hj (fun h => hlc h.1)]
            apply hXz l j hl hj
            rintro ⟨i', hi', h1, h2, h3⟩
            exact hn ⟨i', hi', by omega, h2, h3⟩
          · -- U·X' agrees with Y on the rows `row..rank`
            intro i' j hi' hj hri hir
            have hupd := mul_update_row (toMatrix val re.result) (toMatrix val X)
              (toMatrix val X') ⟨re.columns[row], hc⟩
              (by
                intro l j' hl
                rw [toMatrix_apply, toMatrix_apply]
                rw [hX'1 l.1 j'.1 l.2 j'.2 (fun h => hl (Fin.ext h.1))])
              ⟨i', hi'⟩ ⟨j, hj⟩
            rw [hupd]
            have hXc : toMatrix val X ⟨re.columns[row], hc⟩ ⟨j, hj⟩ = 0 := by
              rw [toMatrix_apply]
              exact hXz _ j hc hj hcfresh
            rw [hXc, sub_zero]
            by_cases e : i' = row
            · subst e
              rw [toMatrix_apply, toMatrix_apply]
              have h5 := hX'2 j hj hj
              rw [havv j hj] at h5
              simp only at h5 ⊢
              linear_combination h5
            · have hlt : row < i' := by omega
              have hz : toMatrix val re.result ⟨i', hi'⟩ ⟨re.columns[row], hc⟩ = 0 := by
                rw [toMatrix_apply]
                exact hech.lead i' _ hi' hc hir (hech.mono row i' hrow' hi' hlt hir)
              rw [hz, zero_mul, add_zero]
              exact hXs i' j hi' hj (by omega) hir
        · exact Or.inr ⟨herr, hbad⟩)
      with ⟨X, hX, hXE, _, hXs⟩ | ⟨herr, hbad⟩
    · refine Or.inl ⟨X, hX, hXE, ?_⟩
      -- U·X = Y, hence A·X = B
      have hUX : toMatrix val re.result * toMatrix val X = toMatrix val y := by
        ext i j
        by_cases hi : i.1 < re.rank
        · rw [toMatrix_apply]
          exact hXs i.1 j.1 i.2 j.2 (Nat.zero_le _) hi
        · rw [toMatrix_apply, hYzero i.1 j.1 i.2 j.2 (by omega), Matrix.mul_apply]
          exact Finset.sum_eq_zero (fun l _ => by rw [hUzero i (by omega) l, zero_mul])
      have h6 : toMatrix val re.multiplier * (toMatrix val a * toMatrix val X) =
          toMatrix val re.multiplier * toMatrix val rhs := by
        rw [← Matrix.mul_assoc, hprod, hUX, hyv]
      have := congrArg (fun Z => (toMatrix val re.multiplier)⁻¹ * Z) h6
      simp only [← Matrix.mul_assoc, Matrix.nonsing_inv_mul _ hunit, Matrix.one_mul] at this
      exact this
    · exact Or.inr ⟨herr, Or.inr hbad⟩

/-- `solve_sound` -/
theorem solve_sound (hs : Sem B E val) {nr nc k : Nat} (a : Mat α nr nc) (rhs : Mat α nr k)
    (ha : AllE E a) (hb : AllE E rhs) (x : Mat α nc k) (h : solve B a rhs = .ok x) :
    toMatrix val a * toMatrix val x = toMatrix val rhs := by
  rcases solve_sem hs a rhs ha hb with ⟨x', h', _, hx'⟩ | ⟨h', _⟩
  · rw [h] at h'
    have : x = x' := Outcome.ok.inj h'
    subst this; exact hx'
  · rw [h] at h'; cases h'

/-- what a returned `None` means -/
theorem solve_err (hs : Sem B E val) {nr nc k : Nat} (a : Mat α nr nc) (rhs : Mat α nr k)
    (ha : AllE E a) (hb : AllE E rhs) (h : solve B a rhs = .err) :
    (∀ X : Matrix (Fin nc) (Fin k) R, toMatrix val a * X ≠ toMatrix val rhs) ∨
      CanDivideRefused B E val := by
  rcases solve_sem hs a rhs ha hb with ⟨x', h', _, _⟩ | ⟨_, h'⟩
  · rw [h] at h'; cases h'
  · exact h'

/-- `inverse = solve(identity)` -/
theorem inverse_sem (hs : Sem B E val) {n : Nat} (a : Mat α n n) (ha : AllE E a) :
    (∃ x, inverse B a = .ok x ∧ AllE E x ∧ toMatrix val a * toMatrix val x = 1) ∨
    (inverse B a = .err ∧
      ((∀ X : Matrix (Fin n) (Fin n) R, toMatrix val a * X ≠ 1) ∨ CanDivideRefused B E val)) := by
  unfold inverse
  obtain ⟨i, hi, hiE, hiv⟩ := identity_sem hs.safe hs.scalar (val := val) n
  rw [hi]; simp only [bind_ok]
  have := solve_sem hs a i ha hiE
  rw [hiv] at this
  exact this

end solve

end DSymVerif.LA
