/-
C01, part 10: the round trip assembled — for every well-formed symbol s,
`fromSpec (display s) = ok t` with t equal to s as a symbol (same D-set, same orbit
tables, same branching number for every chamber and adjacent index pair).
-/
import DSymVerif.Proofs.TextRoundDeg
import Mathlib.Data.List.Nodup

namespace DSymVerif.Text
open DSymVerif DSymVerif.DS

/-! ### list bookkeeping -/

theorem filterMap_ite_length {α β : Type} (q : α → Prop) [DecidablePred q] (f : α → β) (l : List α) :
    (l.filterMap fun x => if q x then some (f x) else none).length =
      (l.filter fun x => decide (q x)).length := by
  induction l with
  | nil => rfl
  | cons a l ih =>
    by_cases h : q a
    · simp [List.filterMap_cons, List.filter_cons, h, ih]
    · simp [List.filterMap_cons, List.filter_cons, h, ih]

theorem map_filter_eq_filterMap {α β : Type} (p : α → Bool) (f : α → β) (l : List α) :
    (l.filter p).map f = l.filterMap fun x => if p x then some (f x) else none := by
  induction l with
  | nil => rfl
  | cons a l ih =>
    by_cases h : p a = true
    · simp [List.filterMap_cons, List.filter_cons, h, ih]
    · simp [List.filterMap_cons, List.filter_cons, h, ih]

theorem mapO_ok {α β : Type} (f : α → Outcome β) (g : α → β) :
    ∀ (l : List α), (∀ x ∈ l, f x = .ok (g x)) → mapO f l = .ok (l.map g) := by
  intro l
  induction l with
  | nil => intro _; rfl
  | cons a l ih =>
    intro h
    rw [mapO, h a (by simp), ih (fun x hx => h x (by simp [hx]))]
    rfl

/-! ### `Display` prints enough images for the early size check of `FromStr` -/

/-- an involution has at least as many chambers with `op(d) ≥ d` as with `op(d) < d` -/
theorem restFrom_length {T : DSetData} (hT : ValidSet T) {i : Nat} (hi : i ≤ T.dim) :
    T.size ≤ 2 * (restFrom T i 1 T.size).length := by
  unfold restFrom
  rw [filterMap_ite_length (fun x => T.opU i x ≥ x)]
  have hlen := List.length_eq_countP_add_countP (fun x => decide (T.opU i x ≥ x)) (l := List.range' 1 T.size)
  rw [List.length_range', List.countP_eq_length_filter, List.countP_eq_length_filter] at hlen
  have hnd : (List.range' 1 T.size).Nodup := List.nodup_range' 1
  have hA := List.toFinset_card_of_nodup (hnd.filter (fun x => decide (T.opU i x ≥ x)))
  have hB := List.toFinset_card_of_nodup
    (hnd.filter (fun a => decide (¬ (decide (T.opU i a ≥ a)) = true)))
  have hle : ((List.range' 1 T.size).filter (fun a => decide (¬ (decide (T.opU i a ≥ a)) = true))).toFinset.card ≤
      ((List.range' 1 T.size).filter (fun x => decide (T.opU i x ≥ x))).toFinset.card := by
    apply Finset.card_le_card_of_injOn (fun x => T.opU i x)
    · intro x hx
      simp only [Finset.mem_coe, List.mem_toFinset, List.mem_filter, List.mem_range'_1,
        decide_eq_true_eq, decide_not, Bool.not_eq_eq_eq_not, Bool.not_true, decide_eq_false_iff_not] at hx ⊢
      obtain ⟨⟨h1, h2⟩, h3⟩ := hx
      have hr := hT.range i x hi h1 (by omega)
      have hinv := hT.invol i x hi h1 (by omega)
      refine ⟨⟨hr.1, by omega⟩, ?_⟩
      rw [hinv]; omega
    · intro x hx y hy hxy
      simp only [Finset.mem_coe, List.mem_toFinset, List.mem_filter, List.mem_range'_1] at hx hy
      exact opU_inj hT hi hx.1.1 (by omega) hy.1.1 (by omega) hxy
  omega

theorem divCeil2_le_of_le_two_mul {n k : Nat} (h : n ≤ 2 * k) : divCeil2 n ≤ k := by
  unfold divCeil2
  split <;> omega

/-! ### what `display` returns for a `PartialDSym` -/

theorem opRow_eq_restFrom (s : DSymData) (c c' : Nat) {i : Nat} (hi : i ≤ s.dim) (hs : ValidSet s.dset) :
    (opRow (Printable.ofSimpleDSym s c c') i).map (·.2) = restFrom s.dset i 1 s.size := by
  unfold opRow restFrom
  rw [List.map_filterMap, List.range'_eq_map_range, List.filterMap_map]
  apply List.filterMap_congr
  intro d0 hd0
  have hd0' : d0 < s.dset.size := List.mem_range.mp hd0
  have hop : (Printable.ofSimpleDSym s c c').op i (d0 + 1) = some (s.dset.opU i (d0 + 1)) :=
    opSimple_in_range s.dset hi (by omega) (by omega)
  have hr := hs.range i (d0 + 1) hi (by omega) (by omega)
  simp only [Function.comp, hop, Option.getD_some, Nat.add_comm 1 d0]
  by_cases hge : s.dset.opU i (d0 + 1) ≥ d0 + 1
  · have : (s.dset.opU i (d0 + 1) = 0 || decide (s.dset.opU i (d0 + 1) ≥ d0 + 1)) = true := by simp [hge]
    rw [if_pos this, if_pos hge]; rfl
  · have : ¬ (s.dset.opU i (d0 + 1) = 0 || decide (s.dset.opU i (d0 + 1) ≥ d0 + 1)) = true := by
      simp only [Bool.or_eq_true, decide_eq_true_eq, not_or]
      exact ⟨by omega, hge⟩
    rw [if_neg this, if_neg hge]; rfl

theorem degRow_eq (s : DSymData) (c c' : Nat) (h : SymInv s)
    (N : Numbering s.dset s.view (collectOrbits s.dset)) {i : Nat} (hi : i < s.dim) :
    degRow (Printable.ofSimpleDSym s c c') i =
      .ok (((List.range' 1 s.size).filter fun x => firstB (s.orbitIndex.getD i #[]) x).map
        fun d => (d, degOf s i d)) := by
  unfold degRow
  have hreps : (Printable.ofSimpleDSym s c c').reps i =
      (List.range' 1 s.size).filter fun x => firstB (s.orbitIndex.getD i #[]) x := by
    show s.view.orbitReps2d i (i + 1) = _
    rw [N.reps i hi, h.index_eq]; rfl
  rw [hreps]
  apply mapO_ok
  intro d hd
  simp only [List.mem_filter, List.mem_range'_1] at hd
  have hd1 : 1 ≤ d := hd.1.1
  have hd2 : d ≤ s.size := by omega
  have hm : (Printable.ofSimpleDSym s c c').m i d = .ok (some (degOf s i d)) := by
    show s.mPartial i (i + 1) d = _
    exact DSymData.mOf_some (rPartial_val h hi hd1 hd2).1 (vPartial_val h hi hd1 hd2)
  rw [hm]; rfl

/-- the specification `display` returns for a `SimpleDSym` with counters c, c' (and, with c' = 1,
    for a `PartialDSym`: `Printable.ofPartialDSym s c = Printable.ofSimpleDSym s c 1` by `rfl`) -/
def displaySpec (s : DSymData) (c c' : Nat) : DSymSpec :=
  { setCount := c, symCount := c', size := s.size, dim := s.dim,
    opSpec := (List.range (s.dim + 1)).map fun i => restFrom s.dset i 1 s.size,
    mSpec := (List.range s.dim).map fun i => degRest s i 1 s.size }

theorem display_eq (s : DSymData) (c c' : Nat) (h : SymInv s)
    (N : Numbering s.dset s.view (collectOrbits s.dset)) :
    display (Printable.ofSimpleDSym s c c') = .ok (displaySpec s c c') := by
  unfold display degRows
  have hrows := mapO_ok (degRow (Printable.ofSimpleDSym s c c'))
    (fun i => ((List.range' 1 s.size).filter fun x => firstB (s.orbitIndex.getD i #[]) x).map
      fun d => (d, degOf s i d)) (List.range s.dim)
    (by intro i hi; exact degRow_eq s c c' h N (by simpa using hi))
  have hdim : (Printable.ofSimpleDSym s c c').dim = s.dim := rfl
  rw [hdim, hrows]
  dsimp only
  unfold displaySpec
  congr 2
  · apply List.map_congr_left
    intro i hi
    exact opRow_eq_restFrom s c c' (by simp at hi; omega) h.set
  · rw [List.map_map]
    apply List.map_congr_left
    intro i _
    simp only [Function.comp, List.map_map]
    unfold degRest
    rw [← map_filter_eq_filterMap]
    rfl

/-! ### the round trip -/

/-- equality of symbols (DESIGN §5.1): same D-set, same orbit tables, same branching numbers -/
structure SameSym (s t : DSymData) : Prop where
  dset_eq : t.dset = s.dset
  index_eq : t.orbitIndex = s.orbitIndex
  rs_eq : t.orbitRs = s.orbitRs
  v_eq : ∀ i d, i < s.dim → 1 ≤ d → d ≤ s.size → t.vPartial i (i + 1) d = s.vPartial i (i + 1) d

theorem view_op_in_range (s : DSymData) {j e : Nat} (hj : j ≤ s.dset.dim) (h1 : 1 ≤ e) (h2 : e ≤ s.dset.size) :
    s.view.op j e = some (s.dset.opU j e) := opSimple_in_range s.dset hj h1 h2

theorem displaySpec_admitted (s : DSymData) (c c' : Nat) (h : SymInv s) (h1 : 1 ≤ s.size) (h2 : 1 ≤ s.dim)
    (hu : s.dim + 1 < usizeLimit) : Admitted (displaySpec s c c') := by
  refine ⟨h1, h2, hu, by simp [displaySpec], by simp [displaySpec], ?_⟩
  intro l hl
  simp only [displaySpec, List.mem_map, List.mem_range] at hl
  obtain ⟨i, hi, rfl⟩ := hl
  exact divCeil2_le_of_le_two_mul (restFrom_length h.set (by show i ≤ s.dset.dim; unfold DSymData.dim at hi; omega))

theorem fromSpec_displaySpec (s : DSymData) (c c' : Nat) (h : SymInv s) (h1 : 1 ≤ s.size) (h2 : 1 ≤ s.dim)
    (hu : s.dim + 1 < usizeLimit) (hb : s.size * (s.dim + 1) < allocLimit) :
    ∃ t, fromSpec (displaySpec s c c') = .ok t ∧ SameSym s t := by
  have N := collectOrbits_numbering h.set s.view rfl (fun j e hj he1 he2 => view_op_in_range s hj he1 he2)
  have hadm := displaySpec_admitted s c c' h h1 h2 hu
  rw [fromSpec_admitted _ hadm]
  have hops : ∀ i, i ≤ s.dset.dim → (displaySpec s c c').opSpec[i]? = some (restFrom s.dset i 1 s.dset.size) := by
    intro i hi
    simp only [displaySpec, List.getElem?_map]
    rw [List.getElem?_range (by unfold DSymData.dim; omega)]
    rfl
  obtain ⟨ds0, hnew, hout⟩ := ops_round_trip h.set (displaySpec s c c') rfl rfl h1 h2 hb hops
  rw [hnew]
  dsimp only
  rw [hout]
  dsimp only
  have hsz2 : s.dset.size * 2 ≤ s.dset.size * (s.dset.dim + 1) :=
    Nat.mul_le_mul_left _ (by have : 1 ≤ s.dset.dim := h2; omega)
  have hof : ofPartialC s.dset = .ok (DSymData.ofSimple s.dset) := by
    unfold ofPartialC
    have hb' : s.dset.size * (s.dset.dim + 1) < allocLimit := hb
    have h1' : 1 ≤ s.dset.size := h1
    rw [if_neg (by omega)]
    unfold DSymData.ofPartial DSetData.toSimple
    rw [isCompletePartial_of_validSet h.set]
    rfl
  rw [hof]
  dsimp only
  have hms : ∀ i, i < s.dim → (displaySpec s c c').mSpec[i]? = some (degRest s i 1 s.size) := by
    intro i hi
    simp only [displaySpec, List.getElem?_map]
    rw [List.getElem?_range hi]
    rfl
  have hrep : ∀ n x, (Array.replicate n false).getD x false = false := by
    intro n x
    rw [Array.getD_eq_getD_getElem?, Array.getElem?_replicate]
    split <;> rfl
  have hinit : DegInv s 0 1 (DSymData.ofSimple s.dset)
      (Array.replicate (DSymData.ofSimple s.dset).orbitRs.size false) := by
    refine ⟨rfl, h.index_eq.symm, h.rs_eq.symm, ?_, ?_, ?_, ?_⟩
    · show (Array.replicate _ 0).size = _
      rw [Array.size_replicate, h.rs_eq]
    · rw [Array.size_replicate, h.rs_eq]; rfl
    · intro k _
      rw [hrep]
      constructor
      · intro hh; cases hh
      · rintro (⟨j, _, hj, _⟩ | ⟨x, hx1, hx2, _⟩) <;> omega
    · intro j x hjx
      rcases hjx with ⟨hj, _⟩ | ⟨_, hx1, hx2⟩ <;> omega
  obtain ⟨t, ht, e1, e2, e3, e4⟩ := degOuter_display h N (displaySpec s c c') rfl hms s.dim 0
    (DSymData.ofSimple s.dset) _ (by omega) hinit
  refine ⟨t, ht, e1, e2, e3, ?_⟩
  intro i d hi hd1 hd2
  have hT : SymInv t := ⟨e1 ▸ h.set, by rw [e2, e1]; exact h.index_eq, by rw [e3, e1]; exact h.rs_eq,
    by
      have := (degOuter_spec (displaySpec s c c') s.dim 0 (DSymData.ofSimple s.dset)
        (Array.replicate (DSymData.ofSimple s.dset).orbitRs.size false) (SymInv.ofSimple h.set) rfl
        (by show 0 + s.dim = s.dset.dim; unfold DSymData.dim; omega) (by simp)
        (by intro j hj; rw [hms j hj]; rfl)).2 t ht
      exact this.1.vs_size⟩
  have hti : t.dim = s.dim := by unfold DSymData.dim; rw [e1]
  have hts : t.size = s.size := by unfold DSymData.size; rw [e1]
  rw [vPartial_val hT (by omega) hd1 (by omega), vPartial_val h hi hd1 hd2]
  have : ixf t i d = ixf s i d := by unfold ixf; rw [e2]
  rw [this, e4 i d hi hd1 hd2]

end DSymVerif.Text
