/-
`diagonalize_in_place`: shape invariants and termination.

* all routines keep an `n × m` matrix rectangular (so every index expression of the Rust code is
  in range: no panic other than arithmetic overflow is reachable),
* `find_pivot` answers a position inside the matrix, `move_pivot_in_place` brings that entry to
  `(i, i)`,
* in the `loop { rows; if cols == 0 { break } }` the absolute value of the pivot `mat[i][i]` never
  grows and strictly decreases whenever the column pass counts a gcd step; hence the fuel
  `|pivot| + 1` of the model is never exhausted: the Rust loop terminates on every matrix.
-/
import DSymVerif.Proofs.InvariantsChain
import DSymVerif.Proofs.InvariantsVector

namespace DSymVerif.Inv

/-! ### plumbing -/

theorem getD_set_gen {α : Type} (l : List α) (i k : Nat) (x d : α) :
    (List.set l i x).getD k d = if i = k ∧ i < l.length then x else l.getD k d := by
  simp only [List.getD_eq_getElem?_getD, List.getElem?_set]
  by_cases h : i = k
  · subst h
    by_cases h2 : i < l.length
    · simp [h2]
    · simp [h2, List.getElem?_eq_none (Nat.le_of_not_lt h2)]
  · simp [h]

theorem getD_default {α : Type} (l : List α) (i : Nat) (d : α) (h : l.length ≤ i) : l.getD i d = d := by
  simp [List.getD_eq_getElem?_getD, List.getElem?_eq_none h]

def Rect (mat : Mat) (n m : Nat) : Prop := mat.length = n ∧ ∀ row ∈ mat, row.length = m

theorem Rect.row_length {mat : Mat} {n m : Nat} (h : Rect mat n m) {r : Nat} (hr : r < n) :
    (mat.getD r []).length = m := by
  have hr' : r < mat.length := by rw [h.1]; exact hr
  have : mat.getD r [] = mat[r] := by
    simp [List.getD_eq_getElem?_getD, List.getElem?_eq_getElem hr']
  rw [this]; exact h.2 _ (List.getElem_mem hr')

theorem Rect.set_row {mat : Mat} {n m : Nat} (h : Rect mat n m) (r : Nat) (v : List Int)
    (hv : v.length = m) : Rect (List.set mat r v) n m := by
  refine ⟨by rw [List.length_set]; exact h.1, ?_⟩
  intro row hrow
  rcases List.mem_or_eq_of_mem_set hrow with h1 | h1
  · exact h.2 row h1
  · rw [h1]; exact hv

theorem Rect.nrows {mat : Mat} {n m : Nat} (h : Rect mat n m) : nrows mat = n := h.1

theorem Rect.ncols {mat : Mat} {n m : Nat} (h : Rect mat n m) (hn : 0 < n) : ncols mat = m := by
  unfold Inv.ncols
  have : mat.headD [] = mat.getD 0 [] := by
    cases mat <;> rfl
  rw [this]; exact h.row_length hn

theorem get_set_row (mat : Mat) (r r' c : Nat) (v : List Int) :
    get (List.set mat r v) r' c = if r = r' ∧ r < mat.length then v.getD c 0 else get mat r' c := by
  unfold get
  rw [getD_set_gen]
  split <;> rfl

theorem combine_length (i : Nat) (p q : Int) (u w : List Int) :
    (combine i p q u w).length = u.length := by
  unfold combine; exact List.length_mapIdx

theorem combine_getD (i : Nat) (p q : Int) (u w : List Int) (col : Nat) (h : col < u.length) :
    (combine i p q u w).getD col 0 =
      if i ≤ col then u.getD col 0 * p + w.getD col 0 * q else u.getD col 0 := by
  unfold combine
  simp only [List.getD_eq_getElem?_getD, List.getElem?_mapIdx, List.getElem?_eq_getElem h,
    Option.map_some, Option.getD_some]

theorem colOp_length (i col : Nat) (p q r s : Int) (rowv : List Int) :
    (colOp i col p q r s rowv).length = rowv.length := by
  unfold colOp; simp

theorem colOp_getD_i (i col : Nat) (p q r s : Int) (rowv : List Int) (hic : i ≠ col)
    (hi : i < rowv.length) :
    (colOp i col p q r s rowv).getD i 0 = rowv.getD i 0 * p + rowv.getD col 0 * q := by
  unfold colOp
  rw [getD_set', getD_set']
  have h1 : ¬ (col = i ∧ col < (List.set rowv i (rowv.getD i 0 * p + rowv.getD col 0 * q)).length) := by
    omega
  simp only [h1, if_false, hi, and_self, if_true]

/-! ### `gcdx` on a pivot -/

theorem gcdx_pivot (e f : Int) (he : e ≠ 0) :
    e * (gcdx e f).2.1 + f * (gcdx e f).2.2.1 ≠ 0 ∧
    (e * (gcdx e f).2.1 + f * (gcdx e f).2.2.1).natAbs ≤ e.natAbs ∧
    (f.tmod e ≠ 0 → (e * (gcdx e f).2.1 + f * (gcdx e f).2.2.1).natAbs < e.natAbs) := by
  have hs := gcdx_spec' e f
  have hg : e * (gcdx e f).2.1 + f * (gcdx e f).2.2.1 = (gcdx e f).1 := by
    rw [← hs.1]; ring
  rw [hg]
  have habs : (gcdx e f).1.natAbs = Int.gcd e f := hs.2.2.2
  have hpos : 0 < e.natAbs := Int.natAbs_pos.mpr he
  have hle : Int.gcd e f ≤ e.natAbs := by
    unfold Int.gcd; exact Nat.gcd_le_left _ hpos
  refine ⟨gcdx_fst_ne_zero e f (Or.inl he), by rw [habs]; exact hle, ?_⟩
  intro hne
  rw [habs]
  rcases Nat.lt_or_ge (Int.gcd e f) e.natAbs with h | h
  · exact h
  · exfalso
    have heq : Int.gcd e f = e.natAbs := Nat.le_antisymm hle h
    apply hne
    apply Int.tmod_eq_zero_of_dvd
    have h1 : ((Int.gcd e f : Nat) : Int) ∣ f := Int.gcd_dvd_right e f
    rw [heq] at h1
    exact Int.natAbs_dvd.mp h1

/-! ### one row step -/

theorem clearRowStep_spec (i n m : Nat) (mat : Mat) (cnt row : Nat) (hR : Rect mat n m)
    (him : i < m) (hir : i < row) (hrn : row < n) :
    Rect (clearRowStep i (mat, cnt) row).1 n m ∧
    (get mat i i ≠ 0 → get (clearRowStep i (mat, cnt) row).1 i i ≠ 0 ∧
      (get (clearRowStep i (mat, cnt) row).1 i i).natAbs ≤ (get mat i i).natAbs) := by
  have hin : i < n := by omega
  have hli : (mat.getD i []).length = m := hR.row_length hin
  have hlr : (mat.getD row []).length = m := hR.row_length hrn
  unfold clearRowStep
  simp only
  by_cases hA : get mat i i ≠ 0 ∧ (get mat row i).tmod (get mat i i) = 0
  · rw [if_pos hA]
    refine ⟨hR.set_row _ _ (by rw [combine_length]; exact hlr), ?_⟩
    intro he
    rw [get_set_row]
    have : ¬ (row = i ∧ row < mat.length) := by omega
    rw [if_neg this]
    exact ⟨he, Nat.le_refl _⟩
  · rw [if_neg hA]
    by_cases hB : get mat row i ≠ 0
    · rw [if_pos hB]
      refine ⟨(hR.set_row _ _ (by rw [combine_length]; exact hli)).set_row _ _
        (by rw [combine_length]; exact hlr), ?_⟩
      intro he
      rw [get_set_row]
      have h1 : ¬ (row = i ∧ row < (List.set mat i (combine i (gcdx (get mat i i) (get mat row i)).2.1
          (gcdx (get mat i i) (get mat row i)).2.2.1 (mat.getD i []) (mat.getD row []))).length) := by
        omega
      rw [if_neg h1, get_set_row]
      have h2 : i = i ∧ i < mat.length := ⟨rfl, by rw [hR.1]; exact hin⟩
      rw [if_pos h2, combine_getD _ _ _ _ _ _ (by rw [hli]; exact him)]
      simp only [Nat.le_refl, if_true]
      have hp := gcdx_pivot (get mat i i) (get mat row i) he
      exact ⟨hp.1, hp.2.1⟩
    · rw [if_neg hB]
      exact ⟨hR, fun he => ⟨he, Nat.le_refl _⟩⟩

theorem clearLaterRows_spec (i n m : Nat) (mat : Mat) (hR : Rect mat n m) (him : i < m)
    (he : get mat i i ≠ 0) :
    Rect (clearLaterRows mat i).1 n m ∧ get (clearLaterRows mat i).1 i i ≠ 0 ∧
      (get (clearLaterRows mat i).1 i i).natAbs ≤ (get mat i i).natAbs := by
  unfold clearLaterRows
  rw [hR.nrows]
  apply foldl_preserves
    (fun (st : Mat × Nat) => Rect st.1 n m ∧ get st.1 i i ≠ 0 ∧
      (get st.1 i i).natAbs ≤ (get mat i i).natAbs)
    (clearRowStep i) (fun row => i < row ∧ row < n)
  · intro st row ⟨h1, h2⟩ ⟨hr, he', hle⟩
    obtain ⟨a, b⟩ := clearRowStep_spec i n m st.1 st.2 row hr him h1 h2
    obtain ⟨b1, b2⟩ := b he'
    exact ⟨a, b1, Nat.le_trans b2 hle⟩
  · intro row hrow
    rw [List.mem_range'_1] at hrow
    omega
  · exact ⟨hR, he, Nat.le_refl _⟩

/-! ### one column step -/

theorem rect_mapIdx_colOp (i col n m : Nat) (p q r s : Int) (mat : Mat) (hR : Rect mat n m) :
    Rect (mat.mapIdx (fun rw rowv => if i ≤ rw then colOp i col p q r s rowv else rowv)) n m := by
  refine ⟨by rw [List.length_mapIdx]; exact hR.1, ?_⟩
  intro row hrow
  rw [List.mem_mapIdx] at hrow
  obtain ⟨k, hk, rfl⟩ := hrow
  split
  · rw [colOp_length]; exact hR.2 _ (List.getElem_mem hk)
  · exact hR.2 _ (List.getElem_mem hk)

theorem get_mapIdx_colOp_pivot (i col n m : Nat) (p q r s : Int) (mat : Mat) (hR : Rect mat n m)
    (hin : i < n) (him : i < m) (hic : i ≠ col) :
    get (mat.mapIdx (fun rw rowv => if i ≤ rw then colOp i col p q r s rowv else rowv)) i i
      = get mat i i * p + get mat i col * q := by
  have hi' : i < mat.length := by rw [hR.1]; exact hin
  unfold get
  have e1 : (mat.mapIdx (fun rw rowv => if i ≤ rw then colOp i col p q r s rowv else rowv)).getD i []
      = colOp i col p q r s (mat.getD i []) := by
    simp only [List.getD_eq_getElem?_getD, List.getElem?_mapIdx, List.getElem?_eq_getElem hi',
      Option.map_some, Option.getD_some, Nat.le_refl, if_true]
  rw [e1, colOp_getD_i _ _ _ _ _ _ _ hic (by rw [hR.row_length hin]; exact him)]

theorem clearColStep_spec (i n m : Nat) (mat : Mat) (cnt col : Nat) (hR : Rect mat n m)
    (hin : i < n) (hic : i < col) (hcm : col < m) :
    Rect (clearColStep i (mat, cnt) col).1 n m ∧ cnt ≤ (clearColStep i (mat, cnt) col).2 ∧
    (get mat i i ≠ 0 → get (clearColStep i (mat, cnt) col).1 i i ≠ 0 ∧
      (get (clearColStep i (mat, cnt) col).1 i i).natAbs ≤ (get mat i i).natAbs ∧
      ((clearColStep i (mat, cnt) col).2 ≠ cnt →
        (get (clearColStep i (mat, cnt) col).1 i i).natAbs < (get mat i i).natAbs)) := by
  have him : i < m := by omega
  unfold clearColStep
  simp only
  by_cases hA : get mat i i ≠ 0 ∧ (get mat i col).tmod (get mat i i) = 0
  · rw [if_pos hA]
    refine ⟨rect_mapIdx_colOp _ _ _ _ _ _ _ _ _ hR, Nat.le_refl _, ?_⟩
    intro he
    rw [get_mapIdx_colOp_pivot i col n m _ _ _ _ mat hR hin him (by omega)]
    have : get mat i i * 1 + get mat i col * 0 = get mat i i := by ring
    rw [this]
    exact ⟨he, Nat.le_refl _, fun h => absurd rfl h⟩
  · rw [if_neg hA]
    by_cases hB : get mat i col ≠ 0
    · rw [if_pos hB]
      refine ⟨rect_mapIdx_colOp _ _ _ _ _ _ _ _ _ hR, Nat.le_succ _, ?_⟩
      intro he
      rw [get_mapIdx_colOp_pivot i col n m _ _ _ _ mat hR hin him (by omega)]
      have hp := gcdx_pivot (get mat i i) (get mat i col) he
      have hne : (get mat i col).tmod (get mat i i) ≠ 0 := fun h => hA ⟨he, h⟩
      exact ⟨hp.1, hp.2.1, fun _ => hp.2.2 hne⟩
    · rw [if_neg hB]
      exact ⟨hR, Nat.le_refl _, fun he => ⟨he, Nat.le_refl _, fun h => absurd rfl h⟩⟩

theorem clearLaterCols_spec (i n m : Nat) (mat : Mat) (hR : Rect mat n m) (hin : i < n)
    (he : get mat i i ≠ 0) :
    Rect (clearLaterCols mat i).1 n m ∧ get (clearLaterCols mat i).1 i i ≠ 0 ∧
      (get (clearLaterCols mat i).1 i i).natAbs ≤ (get mat i i).natAbs ∧
      ((clearLaterCols mat i).2 ≠ 0 →
        (get (clearLaterCols mat i).1 i i).natAbs < (get mat i i).natAbs) := by
  unfold clearLaterCols
  rw [hR.ncols (by omega)]
  apply foldl_preserves
    (fun (st : Mat × Nat) => Rect st.1 n m ∧ get st.1 i i ≠ 0 ∧
      (get st.1 i i).natAbs ≤ (get mat i i).natAbs ∧
      (st.2 ≠ 0 → (get st.1 i i).natAbs < (get mat i i).natAbs))
    (clearColStep i) (fun col => i < col ∧ col < m)
  · intro st col ⟨h1, h2⟩ ⟨hr, he', hle, hlt⟩
    obtain ⟨a, hc, b⟩ := clearColStep_spec i n m st.1 st.2 col hr hin h1 h2
    obtain ⟨b1, b2, b3⟩ := b he'
    refine ⟨a, b1, Nat.le_trans b2 hle, ?_⟩
    intro hcnt
    by_cases h0 : st.2 = 0
    · have : (clearColStep i (st.1, st.2) col).2 ≠ st.2 := fun h => hcnt (h.trans h0)
      exact Nat.lt_of_lt_of_le (b3 this) hle
    · exact Nat.lt_of_le_of_lt b2 (hlt h0)
  · intro col hcol
    rw [List.mem_range'_1] at hcol
    omega
  · exact ⟨hR, he, Nat.le_refl _, fun h => absurd rfl h⟩

/-! ### the inner loop terminates within `|pivot| + 1` rounds -/

theorem innerLoop_fuel (i n m : Nat) (hin : i < n) (him : i < m) (fuel : Nat) (mat : Mat)
    (hR : Rect mat n m) (he : get mat i i ≠ 0) (hf : (get mat i i).natAbs < fuel) :
    ∃ mat', innerLoop fuel mat i = some mat' ∧ Rect mat' n m := by
  induction fuel generalizing mat with
  | zero => omega
  | succ fuel ih =>
    unfold innerLoop
    simp only
    obtain ⟨r1, e1, l1⟩ := clearLaterRows_spec i n m mat hR him he
    obtain ⟨r2, e2, l2, s2⟩ := clearLaterCols_spec i n m (clearLaterRows mat i).1 r1 hin e1
    by_cases hc : (clearLaterCols (clearLaterRows mat i).1 i).2 = 0
    · rw [if_pos hc]; exact ⟨_, rfl, r2⟩
    · rw [if_neg hc]
      apply ih _ r2 e2
      have := s2 hc
      omega

/-! ### `find_pivot` and `move_pivot_in_place` -/

theorem findPivot_bounds (mat : Mat) (start n m : Nat) (hn : nrows mat = n) (hm : ncols mat = m)
    (hsn : start < n) (hsm : start < m) :
    (findPivot mat start).1 < n ∧ (findPivot mat start).2 < m := by
  unfold findPivot
  simp only [hn, hm]
  have key : ∀ st : Nat × Nat × Option Int, (st.1 < n ∧ st.2.1 < m) →
      (((List.range' start (n - start)).foldl
        (fun st r => (List.range' start (m - start)).foldl (pivotStep mat r) st) st).1 < n ∧
       ((List.range' start (n - start)).foldl
        (fun st r => (List.range' start (m - start)).foldl (pivotStep mat r) st) st).2.1 < m) := by
    intro st hst
    apply foldl_preserves (fun (st : Nat × Nat × Option Int) => st.1 < n ∧ st.2.1 < m) _
      (fun r => r < n) _ _ _ st hst
    · intro st r hr hst
      apply foldl_preserves (fun (st : Nat × Nat × Option Int) => st.1 < n ∧ st.2.1 < m) _
        (fun c => c < m) _ _ _ st hst
      · intro st c hc hst
        unfold pivotStep
        simp only
        split
        · exact ⟨hr, hc⟩
        · exact hst
      · intro c hc; rw [List.mem_range'_1] at hc; omega
    · intro r hr; rw [List.mem_range'_1] at hr; omega
  exact key (start, start, none) ⟨hsn, hsm⟩

theorem rect_swapRows (mat : Mat) (n m a b : Nat) (hR : Rect mat n m) (ha : a < n) (hb : b < n) :
    Rect (swapRows mat a b) n m := by
  unfold swapRows
  exact (hR.set_row _ _ (hR.row_length hb)).set_row _ _ (hR.row_length ha)

theorem rect_swapCols (mat : Mat) (n m a b : Nat) (hR : Rect mat n m) :
    Rect (swapCols mat a b) n m := by
  unfold swapCols
  refine ⟨by rw [List.length_map]; exact hR.1, ?_⟩
  intro row hrow
  rw [List.mem_map] at hrow
  obtain ⟨r, hr, rfl⟩ := hrow
  simp only [List.length_set]
  exact hR.2 r hr

theorem get_swapRows (mat : Mat) (n m a b c : Nat) (hR : Rect mat n m) (_ha : a < n) (hb : b < n) :
    get (swapRows mat a b) b c = get mat a c := by
  unfold swapRows
  rw [get_set_row]
  have : b = b ∧ b < (List.set mat a (mat.getD b [])).length := by
    refine ⟨rfl, ?_⟩; rw [List.length_set, hR.1]; exact hb
  rw [if_pos this]
  rfl

theorem get_swapCols (mat : Mat) (n m a b r : Nat) (hR : Rect mat n m) (hr : r < n) (hb : b < m) :
    get (swapCols mat a b) r b = get mat r a := by
  have hr' : r < mat.length := by rw [hR.1]; exact hr
  unfold swapCols get
  have e : (mat.map (fun row => List.set (List.set row a (row.getD b 0)) b (row.getD a 0))).getD r []
      = List.set (List.set (mat.getD r []) a ((mat.getD r []).getD b 0)) b ((mat.getD r []).getD a 0) := by
    simp only [List.getD_eq_getElem?_getD, List.getElem?_map, List.getElem?_eq_getElem hr',
      Option.map_some, Option.getD_some]
  rw [e, getD_set']
  have : b = b ∧ b < (List.set (mat.getD r []) a ((mat.getD r []).getD b 0)).length := by
    refine ⟨rfl, ?_⟩; rw [List.length_set, hR.row_length hr]; exact hb
  rw [if_pos this]

theorem movePivot_spec (mat : Mat) (n m t r c : Nat) (hR : Rect mat n m) (htn : t < n) (htm : t < m)
    (hr : r < n) (_hc : c < m) :
    Rect (movePivot mat t (r, c)) n m ∧ get (movePivot mat t (r, c)) t t = get mat r c := by
  unfold movePivot
  simp only
  by_cases h1 : r ≠ t
  · rw [if_pos h1]
    have hR1 := rect_swapRows mat n m r t hR hr htn
    by_cases h2 : c ≠ t
    · rw [if_pos h2]
      refine ⟨rect_swapCols _ n m c t hR1, ?_⟩
      rw [get_swapCols _ n m c t t hR1 htn htm, get_swapRows mat n m r t c hR hr htn]
    · rw [if_neg h2]
      have : c = t := by omega
      subst this
      exact ⟨hR1, get_swapRows mat n m r c c hR hr htn⟩
  · rw [if_neg h1]
    have : r = t := by omega
    subst this
    by_cases h2 : c ≠ r
    · rw [if_pos h2]
      exact ⟨rect_swapCols _ n m c r hR, get_swapCols mat n m c r r hR hr htm⟩
    · rw [if_neg h2]
      have : c = r := by omega
      subst this
      exact ⟨hR, rfl⟩

/-! ### `diagonalize_in_place` never runs out of fuel -/

theorem rect_set (mat : Mat) (n m r c : Nat) (v : Int) (hR : Rect mat n m) (hr : r < n) :
    Rect (set mat r c v) n m := by
  unfold Inv.set
  exact hR.set_row _ _ (by rw [List.length_set]; exact hR.row_length hr)

theorem diagStep_some (mat : Mat) (n m i : Nat) (hR : Rect mat n m) (hin : i < n) (him : i < m) :
    ∃ mat', diagStep mat i = some mat' ∧ Rect mat' n m := by
  unfold diagStep
  simp only
  obtain ⟨hb1, hb2⟩ := findPivot_bounds mat i n m hR.nrows (hR.ncols (by omega)) hin him
  by_cases hp : get mat (findPivot mat i).1 (findPivot mat i).2 ≠ 0
  · rw [if_pos hp]
    obtain ⟨hR', hg⟩ := movePivot_spec mat n m i (findPivot mat i).1 (findPivot mat i).2 hR hin him hb1 hb2
    have he : get (movePivot mat i (findPivot mat i)) i i ≠ 0 := by
      rw [show (findPivot mat i) = ((findPivot mat i).1, (findPivot mat i).2) from rfl, hg]; exact hp
    obtain ⟨mat', hl, hr'⟩ := innerLoop_fuel i n m hin him _ _ hR' he (Nat.lt_succ_self _)
    rw [show (findPivot mat i) = ((findPivot mat i).1, (findPivot mat i).2) from rfl] at hl ⊢
    rw [hl]
    exact ⟨_, rfl, rect_set _ n m i i _ hr' hin⟩
  · rw [if_neg hp]
    exact ⟨_, rfl, rect_set _ n m i i _ hR hin⟩

theorem diagFrom_some (is : List Nat) (mat : Mat) (n m : Nat) (hR : Rect mat n m)
    (his : ∀ i ∈ is, i < n ∧ i < m) :
    ∃ mat', diagFrom is mat = some mat' ∧ Rect mat' n m := by
  induction is generalizing mat with
  | nil => exact ⟨mat, rfl, hR⟩
  | cons i is ih =>
    obtain ⟨h1, h2⟩ := his i List.mem_cons_self
    obtain ⟨mat', hs, hR'⟩ := diagStep_some mat n m i hR h1 h2
    unfold diagFrom
    rw [hs]
    exact ih mat' hR' (fun j hj => his j (List.mem_cons_of_mem _ hj))

/-- `diagonalize_in_place` terminates on every non-empty rectangular matrix and keeps its shape -/
theorem diagonalize_some (mat : Mat) (n m : Nat) (hR : Rect mat n m) (hn : 0 < n) :
    ∃ mat', diagonalize mat = some mat' ∧ Rect mat' n m := by
  unfold diagonalize
  rw [hR.nrows, hR.ncols hn]
  apply diagFrom_some _ _ n m hR
  intro i hi
  rw [List.mem_range] at hi
  omega

/-! ### rows built by `relator_as_vector` are rectangular -/

theorem bump_length {row row' : List Int} {g : Int} (h : bump row g = .ok row') :
    row'.length = row.length := by
  by_cases hg : InRange row.length g
  · obtain ⟨r, hb, hl, _⟩ := bump_ok row g [] hg
    rw [hb] at h; injection h with h; rw [← h]; exact hl
  · rw [bump_panic row g hg] at h; cases h

theorem bump_ne_err (row : List Int) (g : Int) : bump row g ≠ .err := by
  by_cases hg : InRange row.length g
  · obtain ⟨r, hb, _, _⟩ := bump_ok row g [] hg
    rw [hb]; intro h; cases h
  · rw [bump_panic row g hg]; intro h; cases h

theorem bumpAll_length {w row row' : List Int} (h : bumpAll row w = .ok row') :
    row'.length = row.length := by
  induction w generalizing row with
  | nil => unfold bumpAll at h; injection h with h; rw [h]
  | cons g w ih =>
    unfold bumpAll at h
    split at h
    · rename_i r hr
      rw [ih h, bump_length hr]
    · cases h
    · cases h

theorem relatorAsVector_length {n : Nat} {w row : List Int} (h : relatorAsVector n w = .ok row) :
    row.length = n := by
  unfold relatorAsVector at h
  rw [bumpAll_length h]; simp

theorem rowsOf_rect {n : Nat} {rels : List (List Int)} {mat : Mat} (h : rowsOf n rels = .ok mat) :
    Rect mat rels.length n := by
  induction rels generalizing mat with
  | nil => unfold rowsOf at h; injection h with h; subst h; exact ⟨rfl, by simp⟩
  | cons w ws ih =>
    unfold rowsOf at h
    split at h
    · rename_i row hrow
      split at h
      · rename_i rows hrows
        injection h with h; subst h
        obtain ⟨h1, h2⟩ := ih hrows
        refine ⟨by simp [h1], ?_⟩
        intro r hr
        rcases List.mem_cons.mp hr with rfl | hr
        · exact relatorAsVector_length hrow
        · exact h2 r hr
      · cases h
      · cases h
    · cases h
    · cases h

theorem rowsOf_ne_err (n : Nat) (rels : List (List Int)) : rowsOf n rels ≠ .err := by
  induction rels with
  | nil => unfold rowsOf; intro h; cases h
  | cons w ws ih =>
    unfold rowsOf
    have hb : ∀ (w row : List Int), bumpAll row w ≠ .err := by
      intro w
      induction w with
      | nil => intro row h; unfold bumpAll at h; cases h
      | cons g w ihw =>
        intro row h
        unfold bumpAll at h
        split at h
        · exact ihw _ h
        · rename_i he
          exact absurd he (bump_ne_err _ _)
        · cases h
    split
    · split
      · intro h; cases h
      · rename_i he; exact absurd he ih
      · intro h; cases h
    · rename_i he; exact absurd he (hb _ _)
    · intro h; cases h

/-- the model never reports exhausted fuel: the Rust loops terminate on every input -/
theorem abelianInvariants_ne_err (n : Nat) (rels : List (List Int)) :
    abelianInvariants n rels ≠ .err := by
  unfold abelianInvariants
  split
  · rename_i he; exact absurd he (rowsOf_ne_err n rels)
  · intro h; cases h
  · rename_i mat hmat
    by_cases h0 : n = 0
    · rw [if_pos h0]; intro h; cases h
    · rw [if_neg h0]
      by_cases h1 : mat.length = 0
      · rw [if_pos h1]; intro h; cases h
      · rw [if_neg h1]
        have hR := rowsOf_rect hmat
        have hpos : 0 < rels.length := by
          have := hR.1; omega
        obtain ⟨mat', hd, _⟩ := diagonalize_some mat rels.length n hR hpos
        rw [hd]
        intro h; cases h

end DSymVerif.Inv

namespace DSymVerif.Inv
open DSymVerif.SpecC14

/-! ### invariance of the result under rotation and conjugation of relators -/

theorem inRange_neg {n : Nat} {g : Int} (h : InRange n g) : InRange n (-g) := by
  unfold InRange at *; constructor <;> omega

/-- words over `±1…±n` with the same exponent sums give the same row -/
theorem relatorAsVector_congr {n : Nat} {w w' : List Int} (hw : ∀ g ∈ w, InRange n g)
    (hw' : ∀ g ∈ w', InRange n g) (h : ∀ k, expSum k w' = expSum k w) :
    relatorAsVector n w' = relatorAsVector n w := by
  rw [relatorAsVector_ok n w hw, relatorAsVector_ok n w' hw']
  unfold expVec
  simp only [h]

theorem rotated_inRange {n : Nat} {w : List Int} (i : Int) (hw : ∀ g ∈ w, InRange n g) :
    ∀ g ∈ FW.rotated w i, InRange n g := by
  intro g hg
  unfold FW.rotated at hg
  by_cases h : (w.length : Int) = 0
  · simp only [h, if_true] at hg; exact hw g hg
  · simp only [h, if_false] at hg
    unfold FW.new at hg
    have := mem_normalized hg
    rcases List.mem_append.mp this with h1 | h1
    · exact hw g (List.mem_of_mem_drop h1)
    · exact hw g (List.mem_of_mem_take h1)

theorem mul_inRange {n : Nat} {a b : List Int} (ha : ∀ g ∈ a, InRange n g)
    (hb : ∀ g ∈ b, InRange n g) : ∀ g ∈ FW.mul a b, InRange n g := by
  intro g hg
  unfold FW.mul FW.new FW.rawMul at hg
  rcases List.mem_append.mp (mem_normalized hg) with h | h
  · exact ha g h
  · exact hb g h

theorem inverse_inRange {n : Nat} {a : List Int} (ha : ∀ g ∈ a, InRange n g) :
    ∀ g ∈ FW.inverse a, InRange n g := by
  intro g hg
  unfold FW.inverse FW.new at hg
  obtain ⟨x, hx, rfl⟩ := List.mem_map.mp (mem_normalized hg)
  exact inRange_neg (ha x (List.mem_reverse.mp hx))

theorem relatorAsVector_rotated {n : Nat} {w : List Int} (i : Int) (hw : ∀ g ∈ w, InRange n g) :
    relatorAsVector n (FW.rotated w i) = relatorAsVector n w :=
  relatorAsVector_congr hw (rotated_inRange i hw) (fun k => expSum_rotated k w i)

theorem relatorAsVector_conj {n : Nat} {u w : List Int} (hu : ∀ g ∈ u, InRange n g)
    (hw : ∀ g ∈ w, InRange n g) :
    relatorAsVector n (FW.mul (FW.mul u w) (FW.inverse u)) = relatorAsVector n w :=
  relatorAsVector_congr hw (mul_inRange (mul_inRange hu hw) (inverse_inRange hu))
    (fun k => expSum_conj k u w)

theorem rowsOf_congr {n : Nat} {rels rels' : List (List Int)}
    (h : rels.map (relatorAsVector n) = rels'.map (relatorAsVector n)) :
    rowsOf n rels = rowsOf n rels' := by
  induction rels generalizing rels' with
  | nil =>
    cases rels' with
    | nil => rfl
    | cons _ _ => simp at h
  | cons w ws ih =>
    cases rels' with
    | nil => simp at h
    | cons w' ws' =>
      simp only [List.map_cons, List.cons.injEq] at h
      unfold rowsOf
      rw [h.1, ih h.2]

/-- `abelian_invariants` only sees the rows -/
theorem abelianInvariants_congr {n : Nat} {rels rels' : List (List Int)}
    (h : rels.map (relatorAsVector n) = rels'.map (relatorAsVector n)) :
    abelianInvariants n rels = abelianInvariants n rels' := by
  unfold abelianInvariants
  rw [rowsOf_congr h]

/-! ### shape of the output -/

theorem abelianInvariants_sorted {n : Nat} {rels : List (List Int)} {out : List Nat}
    (h : abelianInvariants n rels = .ok out) : List.Pairwise (fun a b => a ≤ b) out := by
  unfold abelianInvariants at h
  split at h
  · cases h
  · cases h
  · rename_i mat _
    by_cases h0 : n = 0
    · rw [if_pos h0] at h; injection h with h; subst h; exact List.Pairwise.nil
    · rw [if_neg h0] at h
      by_cases h1 : mat.length = 0
      · rw [if_pos h1] at h; injection h with h; subst h
        rw [List.pairwise_replicate]; right; exact Nat.le_refl 0
      · rw [if_neg h1] at h
        split at h
        · cases h
        · injection h with h; subst h; exact finish_sorted _ _ _

theorem abelianInvariants_no_relators (n : Nat) :
    abelianInvariants n [] = .ok (List.replicate n 0) := by
  unfold abelianInvariants rowsOf
  by_cases h : n = 0
  · subst h; rfl
  · simp [h]

theorem abelianInvariants_ok {n : Nat} {rels : List (List Int)}
    (h : ∀ w ∈ rels, ∀ g ∈ w, InRange n g) : ∃ out, abelianInvariants n rels = .ok out := by
  have hrows : ∃ mat, rowsOf n rels = .ok mat := by
    induction rels with
    | nil => exact ⟨[], rfl⟩
    | cons w ws ih =>
      obtain ⟨rows, hr⟩ := ih (fun w' hw' => h w' (List.mem_cons_of_mem _ hw'))
      unfold rowsOf
      rw [relatorAsVector_ok n w (h w List.mem_cons_self), hr]
      exact ⟨_, rfl⟩
  obtain ⟨mat, hmat⟩ := hrows
  have hne := abelianInvariants_ne_err n rels
  unfold abelianInvariants at hne ⊢
  rw [hmat] at hne ⊢
  simp only at hne ⊢
  by_cases h0 : n = 0
  · rw [if_pos h0]; exact ⟨_, rfl⟩
  · rw [if_neg h0] at hne ⊢
    by_cases h1 : mat.length = 0
    · rw [if_pos h1]; exact ⟨_, rfl⟩
    · rw [if_neg h1] at hne ⊢
      cases hd : diagonalize mat with
      | none => rw [hd] at hne; exact absurd rfl hne
      | some D => exact ⟨_, rfl⟩

end DSymVerif.Inv
