/-
Helper lemmas for property C08, part 20: invariance of the census (cones, corners, Euler
characteristic, orientability) under morphisms of 2D symbols.
-/
import DSymVerif.Proofs.Delaney2dInvariance

namespace DSymVerif.D2
open DSymVerif.DS

/-- the weighted census of one index pair -/
def pairU (y : DSymData) (i j : Nat) (F : Nat → ℚ) : ℚ :=
  ((y.view.orbitReps2d i j).map fun d => (if looplessB y i j d = true then (2 : ℚ) else 1) * F (vN y i j d)).sum

theorem pairU_symm {y : DSymData} (h : ValidSym y) {i j : Nat} (hi : i ≤ y.dim) (hj : j ≤ y.dim) (F : Nat → ℚ) :
    pairU y i j F = pairU y j i F := by
  unfold pairU
  rw [pair_sum_gen h hi hj F, pair_sum_gen h hj hi F]
  apply Finset.sum_congr rfl
  intro x hx
  rw [Finset.mem_Icc] at hx
  have hr : rN y i j x = rN y j i x := by
    apply rN_unique h hi hj ⟨hx.1, hx.2⟩
    exact IsLeastPeriod.inv h.set hj hi ⟨hx.1, hx.2⟩ (rN_least h hj hi ⟨hx.1, hx.2⟩)
  have hv : vN y i j x = vN y j i x := by unfold vN; rw [DSymData.vPartial_symm]
  rw [hr, hv]

namespace Mor
variable {g f : Nat → Nat} {a b : DSymData} (m : Mor g f a b)
include m

theorem map_rN {i j x : Nat} (hi : i ≤ 2) (hj : j ≤ 2) (hx : 1 ≤ x ∧ x ≤ a.size) :
    rN b (g i) (g j) (f x) = rN a i j x := by
  have hia : i ≤ a.dim := by have := m.dima; omega
  have hja : j ≤ a.dim := by have := m.dima; omega
  have hfx := m.f_range x hx.1 hx.2
  apply rN_unique m.vb (by have := m.dimb; have := m.g_range i hi; omega)
    (by have := m.dimb; have := m.g_range j hj; omega) ⟨hfx.1, by rw [m.size]; exact hfx.2⟩
  exact leastPeriod_map (f := f) (i := i) (j := j) (i' := g i) (j' := g j) m.va.set hia hja
    (fun d h1 h2 => m.op i d hi h1 h2) (fun d h1 h2 => m.op j d hj h1 h2) m.f_inj hx
    (rN_least m.va hia hja hx)

theorem sum_reindex (G : Nat → ℚ) :
    ∑ x ∈ Finset.Icc 1 b.size, G x = ∑ x ∈ Finset.Icc 1 a.size, G (f x) := by
  symm
  apply Finset.sum_nbij f
  · intro d hd
    rw [Finset.mem_Icc] at hd ⊢
    rw [m.size]; exact m.f_range d hd.1 hd.2
  · intro d hd e he hde
    simp only [Finset.coe_Icc, Set.mem_Icc] at hd he
    exact m.f_inj d e hd.1 hd.2 he.1 he.2 hde
  · intro e he
    simp only [Finset.coe_Icc, Set.mem_Icc] at he
    obtain ⟨d, h1, h2, rfl⟩ := CanonP.surj_of_inj m.f_range m.f_inj e he.1 (by rw [← m.size]; exact he.2)
    exact ⟨d, by simp only [Finset.coe_Icc, Set.mem_Icc]; exact ⟨h1, h2⟩, rfl⟩
  · intro d _; rfl

theorem map_pairU {i j : Nat} (hi : i ≤ 2) (hj : j ≤ 2) (hij : i ≠ j) (F : Nat → ℚ) :
    pairU b (g i) (g j) F = pairU a i j F := by
  unfold pairU
  rw [pair_sum_gen m.vb (by have := m.dimb; have := m.g_range i hi; omega)
      (by have := m.dimb; have := m.g_range j hj; omega) F,
    pair_sum_gen m.va (by have := m.dima; omega) (by have := m.dima; omega) F, m.sum_reindex]
  apply Finset.sum_congr rfl
  intro x hx
  rw [Finset.mem_Icc] at hx
  rw [m.map_rN hi hj ⟨hx.1, hx.2⟩, m.v i j x hi hj hij hx.1 hx.2]

/-- the total weighted census is invariant -/
theorem map_total (F : Nat → ℚ) :
    pairU b 0 1 F + pairU b 0 2 F + pairU b 1 2 F = pairU a 0 1 F + pairU a 0 2 F + pairU a 1 2 F := by
  have h01 := m.map_pairU (i := 0) (j := 1) (by omega) (by omega) (by omega) F
  have h02 := m.map_pairU (i := 0) (j := 2) (by omega) (by omega) (by omega) F
  have h12 := m.map_pairU (i := 1) (j := 2) (by omega) (by omega) (by omega) F
  rw [← h01, ← h02, ← h12]
  have r0 := m.g_range 0 (by omega)
  have r1 := m.g_range 1 (by omega)
  have r2 := m.g_range 2 (by omega)
  have n01 : g 0 ≠ g 1 := fun e => by have := m.g_inj 0 1 (by omega) (by omega) e; omega
  have n02 : g 0 ≠ g 2 := fun e => by have := m.g_inj 0 2 (by omega) (by omega) e; omega
  have n12 : g 1 ≠ g 2 := fun e => by have := m.g_inj 1 2 (by omega) (by omega) e; omega
  have hb : b.dim = 2 := m.dimb
  have sy : ∀ i j, i ≤ 2 → j ≤ 2 → pairU b i j F = pairU b j i F :=
    fun i j hi hj => pairU_symm m.vb (by omega) (by omega) F
  have cases6 : (g 0 = 0 ∧ g 1 = 1 ∧ g 2 = 2) ∨ (g 0 = 0 ∧ g 1 = 2 ∧ g 2 = 1) ∨
      (g 0 = 1 ∧ g 1 = 0 ∧ g 2 = 2) ∨ (g 0 = 1 ∧ g 1 = 2 ∧ g 2 = 0) ∨
      (g 0 = 2 ∧ g 1 = 0 ∧ g 2 = 1) ∨ (g 0 = 2 ∧ g 1 = 1 ∧ g 2 = 0) := by omega
  rcases cases6 with ⟨e0, e1, e2⟩ | ⟨e0, e1, e2⟩ | ⟨e0, e1, e2⟩ | ⟨e0, e1, e2⟩ | ⟨e0, e1, e2⟩ | ⟨e0, e1, e2⟩ <;>
    rw [e0, e1, e2]
  · rw [sy 2 1 (by omega) (by omega)]; ring
  · rw [sy 1 0 (by omega) (by omega)]; ring
  · rw [sy 1 0 (by omega) (by omega), sy 2 0 (by omega) (by omega)]; ring
  · rw [sy 2 0 (by omega) (by omega), sy 2 1 (by omega) (by omega)]; ring
  · rw [sy 2 1 (by omega) (by omega), sy 2 0 (by omega) (by omega), sy 1 0 (by omega) (by omega)]; ring

end Mor

/-- the weighted census as a sum over `typesOf` -/
theorem types_total (y : DSymData) (F : Nat → ℚ) :
    ((typesOf y).map fun t => (if t.2 = true then (2 : ℚ) else 1) * F t.1).sum =
      pairU y 0 1 F + pairU y 0 2 F + pairU y 1 2 F := by
  unfold typesOf pairU
  simp only [List.map_append, List.sum_append, List.map_map]
  rw [add_assoc]
  rfl

theorem types_count (ts : List (Nat × Bool)) (w : Nat) (hw : 1 < w) :
    (ts.map fun t => (if t.2 = true then (2 : ℚ) else 1) * (if t.1 = w then (1 : ℚ) else 0)).sum =
      2 * ((conesOf ts).count w : ℚ) + ((cornersOf ts).count w : ℚ) := by
  induction ts with
  | nil => simp [conesOf, cornersOf]
  | cons t ts ih =>
    obtain ⟨v, l⟩ := t
    simp only [List.map_cons, List.sum_cons, ih]
    unfold conesOf cornersOf
    by_cases hv : v = w
    · subst hv
      cases l <;> simp [hw] <;> ring
    · have hv' : ¬ (v == w) = true := by simpa using hv
      cases l <;> by_cases h1 : v > 1 <;> simp [hv, h1]

/-! ### the invariance of the orbifold symbol's ingredients -/

section
variable {g f : Nat → Nat} {a b : DSymData} (m : Mor g f a b)
include m

/-- corners: through the boundary tracing -/
theorem Mor.corners_perm : (cornersOf (typesOf a)).Perm (cornersOf (typesOf b)) := by
  obtain ⟨bndsA, startsA, htA, TA⟩ := traceRecord_exists m.va m.dima .partialSym
  obtain ⟨bndsB, startsB, htB, TB⟩ := traceRecord_exists m.vb m.dimb .partialSym
  obtain ⟨bA, hbA, hpA⟩ := traceBoundary_corners m.va m.dima .partialSym
  obtain ⟨bB, hbB, hpB⟩ := traceBoundary_corners m.vb m.dimb .partialSym
  rw [htA] at hbA; cases hbA
  rw [htB] at hbB; cases hbB
  exact hpA.symm.trans ((bnds_count_eq m TA TB).2.2.trans hpB)

/-- cones: the weighted census is invariant and the corners are -/
theorem Mor.cones_perm : (conesOf (typesOf a)).Perm (conesOf (typesOf b)) := by
  rw [List.perm_iff_count]
  intro w
  by_cases hw : 1 < w
  · have hF := m.map_total (fun v => if v = w then (1 : ℚ) else 0)
    rw [← types_total, ← types_total, types_count _ w hw, types_count _ w hw] at hF
    have hc := (List.perm_iff_count.1 m.corners_perm) w
    have : (2 : ℚ) * ((conesOf (typesOf a)).count w : ℚ) = 2 * ((conesOf (typesOf b)).count w : ℚ) := by
      rw [hc] at hF; linarith
    have h2 : ((conesOf (typesOf a)).count w : ℚ) = ((conesOf (typesOf b)).count w : ℚ) := by linarith
    exact_mod_cast h2
  · -- no cone of order ≤ 1
    have z : ∀ ts : List (Nat × Bool), (conesOf ts).count w = 0 := by
      intro ts
      apply List.count_eq_zero.2
      intro hmem
      have := mem_conesOf_gt hmem
      omega
    rw [z, z]

/-- the 2-colourability of the chamber graph -/
theorem Mor.weaklyOriented : a.view.isWeaklyOriented = b.view.isWeaklyOriented := by
  have hpa : a.view.PInvol := by rw [a.view_eq]; exact m.va.set.pinvol
  have hpb : b.view.PInvol := by rw [b.view_eq]; exact m.vb.set.pinvol
  have ia := (C02.isWeaklyOriented_iff_bipartite a.view hpa).1
  have ib := (C02.isWeaklyOriented_iff_bipartite b.view hpb).1
  have hda : a.view.dim = 2 := m.dima
  have hdb : b.view.dim = 2 := m.dimb
  have key : a.view.isWeaklyOriented = true ↔ b.view.isWeaklyOriented = true := by
    rw [ia, ib]
    constructor
    · rintro ⟨c, hc⟩
      -- colour a chamber of b like its preimage
      classical
      let finv : Nat → Nat := fun x => if hx : ∃ d, 1 ≤ d ∧ d ≤ a.size ∧ f d = x then Classical.choose hx else 0
      have hfinv : ∀ d, 1 ≤ d → d ≤ a.size → finv (f d) = d := by
        intro d h1 h2
        have hx : ∃ d', 1 ≤ d' ∧ d' ≤ a.size ∧ f d' = f d := ⟨d, h1, h2, rfl⟩
        simp only [finv, dif_pos hx]
        have := Classical.choose_spec hx
        exact m.f_inj _ _ this.1 this.2.1 h1 h2 this.2.2
      refine ⟨fun x => c (finv x), ?_⟩
      intro i x e hi h1 h2 hop hne
      rw [hdb] at hi
      obtain ⟨i0, hi0, rfl⟩ := m.g_surj hi
      obtain ⟨d, hd1, hd2, rfl⟩ := CanonP.surj_of_inj m.f_range m.f_inj x h1 (by
        have : b.view.size = b.size := rfl
        rw [this, m.size] at h2; exact h2)
      have hop' : b.dset.opSimple (g i0) (f d) = some e := hop
      have he := (opSimple_eq_some.1 hop').2.2.2
      rw [m.op i0 d hi0 hd1 hd2] at he
      subst he
      have hr := m.va.set.range i0 d (by have := m.dima; show i0 ≤ a.dim; omega) hd1 hd2
      show c (finv (f (a.dset.opU i0 d))) ≠ c (finv (f d))
      rw [hfinv _ hr.1 hr.2, hfinv d hd1 hd2]
      apply hc i0 d _ (by rw [hda]; exact hi0) hd1 hd2
      · exact opSimple_eq_some.2 ⟨by have := m.dima; show i0 ≤ a.dim; omega, hd1, hd2, rfl⟩
      · intro e; apply hne; rw [e]
    · rintro ⟨c, hc⟩
      refine ⟨fun d => c (f d), ?_⟩
      intro i d e hi h1 h2 hop hne
      rw [hda] at hi
      have hop' : a.dset.opSimple i d = some e := hop
      have he := (opSimple_eq_some.1 hop').2.2.2
      subst he
      have hfd := m.f_range d h1 h2
      apply hc (g i) (f d) _ (by rw [hdb]; exact m.g_range i hi) hfd.1
        (by show f d ≤ b.size; rw [m.size]; exact hfd.2)
      · show b.dset.opSimple (g i) (f d) = some _
        exact opSimple_eq_some.2 ⟨by have := m.dimb; have := m.g_range i hi; show g i ≤ b.dim; omega,
          hfd.1, by show f d ≤ b.size; rw [m.size]; exact hfd.2, m.op i d hi h1 h2⟩
      · intro e
        apply hne
        have hr := m.va.set.range i d (by have := m.dima; show i ≤ a.dim; omega) h1 h2
        exact m.f_inj _ _ hr.1 hr.2 h1 h2 e
  cases ha : a.view.isWeaklyOriented <;> cases hb : b.view.isWeaklyOriented
  · rfl
  · exact absurd (key.2 hb) (by rw [ha]; simp)
  · exact absurd (key.1 ha) (by rw [hb]; simp)
  · rfl

end

end DSymVerif.D2
