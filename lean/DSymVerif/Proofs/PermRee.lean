/-
Ree's inequality for two generators (the genus of a connected oriented map is non-negative):
if no proper equivalence relation is invariant under the permutations φ and α of a finite set of
n points, then z(φ) + z(α) + z(φα) ≤ n + 2, z the number of cycles (fixed points included).
Elementary proof: multiplying by a transposition changes the number of cycles by exactly one
(`z_swap`: the cycle relations of π and π·(a b) generate the same relation once a ~ b is added,
which costs at most one class, and the sign fixes the parity); every permutation is a product of
n − z transpositions (`exists_swaps`); along a product of transpositions equal to 1 the potential
`n + z(partial product) ≤ factors + 2·components of the transposition graph` holds (`potential`).
Used for property C08 (`orbifold_symbol` does not panic, closed without cross-cap ⇔ oriented).
-/
import DSymVerif.Proofs.PermSign
import Mathlib.SetTheory.Cardinal.Finite
import Mathlib.SetTheory.Cardinal.NatCard

namespace DSymVerif.PermRee
open Equiv Equiv.Perm

variable {β : Type}

set_option linter.unusedSectionVars false

/-- the equivalence relation `r` with the classes of `a` and `b` joined -/
def joinP (r : Setoid β) (a b : β) : Setoid β where
  r x y := r x y ∨ (r x a ∧ r b y) ∨ (r x b ∧ r a y)
  iseqv := by
    have S := @r.iseqv.symm
    have T := @r.iseqv.trans
    refine ⟨fun x => Or.inl (r.iseqv.refl x), ?_, ?_⟩
    · rintro x y (h | ⟨h1, h2⟩ | ⟨h1, h2⟩)
      · exact Or.inl (S h)
      · exact Or.inr (Or.inr ⟨S h2, S h1⟩)
      · exact Or.inr (Or.inl ⟨S h2, S h1⟩)
    · rintro x y z (h | ⟨h1, h2⟩ | ⟨h1, h2⟩) (k | ⟨k1, k2⟩ | ⟨k1, k2⟩)
      · exact Or.inl (T h k)
      · exact Or.inr (Or.inl ⟨T h k1, k2⟩)
      · exact Or.inr (Or.inr ⟨T h k1, k2⟩)
      · exact Or.inr (Or.inl ⟨h1, T h2 k⟩)
      · exact Or.inl (T h1 (T (S k1) (T (S h2) k2)))
      · exact Or.inl (T h1 k2)
      · exact Or.inr (Or.inr ⟨h1, T h2 k⟩)
      · exact Or.inl (T h1 k2)
      · exact Or.inl (T h1 (T (S k1) (T (S h2) k2)))

theorem le_joinP (r : Setoid β) (a b : β) {x y : β} (h : r x y) : joinP r a b x y := Or.inl h

theorem joinP_pair (r : Setoid β) (a b : β) : joinP r a b a b :=
  Or.inr (Or.inl ⟨r.iseqv.refl a, r.iseqv.refl b⟩)

theorem joinP_min {r t : Setoid β} {a b : β} (hrt : ∀ x y, r x y → t x y) (hab : t a b) {x y : β}
    (h : joinP r a b x y) : t x y := by
  rcases h with h | ⟨h1, h2⟩ | ⟨h1, h2⟩
  · exact hrt x y h
  · exact t.iseqv.trans (hrt _ _ h1) (t.iseqv.trans hab (hrt _ _ h2))
  · exact t.iseqv.trans (hrt _ _ h1) (t.iseqv.trans (t.iseqv.symm hab) (hrt _ _ h2))

/-- the number of classes -/
noncomputable def nc (r : Setoid β) : Nat := Nat.card (Quotient r)

section
variable [Finite β]

theorem nc_mono {r t : Setoid β} (hrt : ∀ x y, r x y → t x y) : nc t ≤ nc r := by
  unfold nc
  apply Nat.card_le_card_of_surjective (Quotient.map' id hrt)
  intro q
  induction q using Quotient.inductionOn' with
  | h x => exact ⟨Quotient.mk'' x, rfl⟩

theorem nc_joinP_le (r : Setoid β) (a b : β) : nc (joinP r a b) ≤ nc r := nc_mono fun _ _ h => Or.inl h

theorem nc_joinP_eq {r : Setoid β} {a b : β} (h : r a b) : nc (joinP r a b) = nc r :=
  Nat.le_antisymm (nc_joinP_le r a b) (nc_mono fun _ _ hh => joinP_min (fun _ _ k => k) h hh)

theorem nc_joinP_lt {r : Setoid β} {a b : β} (h : ¬ r a b) : nc (joinP r a b) < nc r := by
  classical
  unfold nc
  have : Fintype (Quotient r) := Fintype.ofFinite _
  have : Fintype (Quotient (joinP r a b)) := Fintype.ofFinite _
  rw [Nat.card_eq_fintype_card, Nat.card_eq_fintype_card]
  apply Fintype.card_lt_of_surjective_not_injective
    (Quotient.map' id (fun _ _ hh => Or.inl hh) : Quotient r → Quotient (joinP r a b))
  · intro q
    induction q using Quotient.inductionOn' with
    | h x => exact ⟨Quotient.mk'' x, rfl⟩
  · intro hinj
    have : (Quotient.mk'' a : Quotient r) = Quotient.mk'' b := by
      apply hinj
      show (Quotient.mk'' a : Quotient (joinP r a b)) = Quotient.mk'' b
      exact Quotient.sound' (joinP_pair r a b)
    exact h (Quotient.exact' this)

theorem nc_le_joinP_succ (r : Setoid β) (a b : β) : nc r ≤ nc (joinP r a b) + 1 := by
  classical
  unfold nc
  rw [← Finite.card_option]
  apply Nat.card_le_card_of_injective
    (fun q : Quotient r => if q = Quotient.mk'' b then (none : Option (Quotient (joinP r a b)))
      else some (Quotient.map' id (fun _ _ hh => Or.inl hh) q))
  intro q q' hqq
  induction q using Quotient.inductionOn' with
  | h x =>
  induction q' using Quotient.inductionOn' with
  | h x' =>
  simp only at hqq
  by_cases hx : (Quotient.mk'' x : Quotient r) = Quotient.mk'' b
  · by_cases hx' : (Quotient.mk'' x' : Quotient r) = Quotient.mk'' b
    · rw [hx, hx']
    · rw [if_pos hx, if_neg hx'] at hqq; cases hqq
  · by_cases hx' : (Quotient.mk'' x' : Quotient r) = Quotient.mk'' b
    · rw [if_neg hx, if_pos hx'] at hqq; cases hqq
    · rw [if_neg hx, if_neg hx'] at hqq
      have hj : joinP r a b x x' := Quotient.exact' (Option.some.inj hqq)
      have nb : ¬ r x b := fun k => hx (Quotient.sound' k)
      have nb' : ¬ r x' b := fun k => hx' (Quotient.sound' k)
      rcases hj with k | ⟨_, k2⟩ | ⟨k1, _⟩
      · exact Quotient.sound' k
      · exact absurd (r.iseqv.symm k2) nb'
      · exact absurd k1 nb

theorem nc_le_card (r : Setoid β) : nc r ≤ Nat.card β := by
  unfold nc
  apply Nat.card_le_card_of_surjective (Quotient.mk'' : β → Quotient r)
  intro q
  induction q using Quotient.inductionOn' with
  | h x => exact ⟨x, rfl⟩

/-! ### the number of cycles of a permutation -/

/-- the number of cycles, fixed points included -/
noncomputable def z (π : Perm β) : Nat := nc (SameCycle.setoid π)

/-- a relation that contains the graph of `π` contains its cycles -/
theorem sameCycle_le {π : Perm β} {t : Setoid β} (h : ∀ x, t x (π x)) {x y : β} (hs : π.SameCycle x y) :
    t x y := by
  obtain ⟨n, rfl⟩ := hs.exists_nat_pow_eq
  clear hs
  induction n with
  | zero => exact t.iseqv.refl x
  | succ n ih => rw [pow_succ', Equiv.Perm.mul_apply]; exact t.iseqv.trans ih (h _)

theorem z_inv (π : Perm β) : z π⁻¹ = z π := by
  apply Nat.le_antisymm
  · exact nc_mono fun x y h => (sameCycle_inv.2 h : π⁻¹.SameCycle x y)
  · exact nc_mono fun x y h => (sameCycle_inv.1 h : π.SameCycle x y)

end

section
variable [Fintype β] [DecidableEq β]

theorem zQ_eq_z (π : Perm β) : PermSign.zQ π = (z π : ℚ) := by
  classical
  have : Fintype (Quotient (SameCycle.setoid π)) := Fintype.ofFinite _
  rw [PermSign.zQ_fibres π (fun x => (Quotient.mk'' x : Quotient (SameCycle.setoid π)))]
  · congr 1
    unfold z nc
    rw [Nat.card_eq_fintype_card, ← Finset.card_univ]
    congr 1
    ext q
    simp only [Finset.mem_image, Finset.mem_univ, true_and, iff_true]
    induction q using Quotient.inductionOn' with
    | h x => exact ⟨x, rfl⟩
  · intro v hv
    obtain ⟨x0, _, rfl⟩ := Finset.mem_image.1 hv
    apply PermSign.single_cycle_sum π _ x0
    · intro k
      rw [Finset.mem_filter]
      refine ⟨Finset.mem_univ _, Quotient.sound' ?_⟩
      show π.SameCycle (π^[k] x0) x0
      rw [Equiv.Perm.iterate_eq_pow]
      exact Equiv.Perm.SameCycle.symm (⟨(k : ℤ), by simp⟩ : π.SameCycle x0 ((π ^ k) x0))
    · intro x hx
      have hs : π.SameCycle x x0 := Quotient.exact' (Finset.mem_filter.1 hx).2
      obtain ⟨n, hn⟩ := hs.symm.exists_nat_pow_eq
      exact ⟨n, by rw [Equiv.Perm.iterate_eq_pow]; exact hn⟩

omit [DecidableEq β] in
theorem z_le_card (π : Perm β) : z π ≤ Fintype.card β := by
  have := nc_le_card (SameCycle.setoid π)
  rwa [Nat.card_eq_fintype_card] at this

theorem sign_eq_z (π : Perm β) : sign π = (-1 : ℤˣ) ^ (Fintype.card β - z π) := by
  apply PermSign.sign_eq_of_zQ
  rw [zQ_eq_z, Nat.cast_sub (z_le_card π)]

/-- multiplying by a transposition changes the parity of the number of cycles -/
theorem z_parity_swap (π : Perm β) {a b : β} (hab : a ≠ b) : (z (π * swap a b) + z π) % 2 = 1 := by
  have h1 := sign_eq_z (π * swap a b)
  rw [sign_mul, sign_swap hab, sign_eq_z π] at h1
  have l1 := z_le_card π
  have l2 := z_le_card (π * swap a b)
  by_contra hne
  have hev : Even ((Fintype.card β - z (π * swap a b)) + (Fintype.card β - z π)) := by
    rw [Nat.even_iff]; omega
  have h2 : ((-1 : ℤˣ) ^ (Fintype.card β - z π) * -1) * (-1 : ℤˣ) ^ (Fintype.card β - z π) =
      (-1 : ℤˣ) ^ (Fintype.card β - z (π * swap a b)) * (-1 : ℤˣ) ^ (Fintype.card β - z π) := by rw [h1]
  rw [← pow_add, Even.neg_one_pow hev, mul_comm _ (-1 : ℤˣ), mul_assoc, ← pow_add, ← two_mul, pow_mul] at h2
  simp at h2

/-! ### multiplying by a transposition -/

theorem sameCycle_swap_le (π : Perm β) (a b : β) {x y : β} (h : (π * swap a b).SameCycle x y) :
    joinP (SameCycle.setoid π) a b x y := by
  refine sameCycle_le (t := joinP (SameCycle.setoid π) a b) ?_ h
  intro x
  have hstep : ∀ u, joinP (SameCycle.setoid π) a b u (π u) := fun u =>
    Or.inl (Equiv.Perm.sameCycle_apply_right.2 (Equiv.Perm.SameCycle.refl π u))
  rw [Equiv.Perm.mul_apply]
  by_cases hxa : x = a
  · subst hxa
    rw [Equiv.swap_apply_left]
    exact (joinP _ x b).iseqv.trans (joinP_pair _ x b) (hstep b)
  · by_cases hxb : x = b
    · subst hxb
      rw [Equiv.swap_apply_right]
      exact (joinP _ a x).iseqv.trans ((joinP _ a x).iseqv.symm (joinP_pair _ a x)) (hstep a)
    · rw [Equiv.swap_apply_of_ne_of_ne hxa hxb]
      exact hstep x

theorem joinP_swap_le (π : Perm β) (a b : β) {x y : β}
    (h : joinP (SameCycle.setoid (π * swap a b)) a b x y) : joinP (SameCycle.setoid π) a b x y :=
  joinP_min (fun _ _ k => sameCycle_swap_le π a b k) (joinP_pair _ a b) h

theorem joinP_swap_ge (π : Perm β) (a b : β) {x y : β}
    (h : joinP (SameCycle.setoid π) a b x y) : joinP (SameCycle.setoid (π * swap a b)) a b x y := by
  have e : π * swap a b * swap a b = π := by rw [mul_assoc, Equiv.swap_mul_self, mul_one]
  have := joinP_swap_le (π * swap a b) a b (x := x) (y := y)
  rw [e] at this
  exact this h

theorem z_swap_le (π : Perm β) {a b : β} : z (π * swap a b) ≤ z π + 1 := by
  have h1 := nc_le_joinP_succ (SameCycle.setoid (π * swap a b)) a b
  have h2 : nc (joinP (SameCycle.setoid (π * swap a b)) a b) ≤ nc (joinP (SameCycle.setoid π) a b) :=
    nc_mono fun _ _ k => joinP_swap_ge π a b k
  have h3 := nc_joinP_le (SameCycle.setoid π) a b
  unfold z
  omega

/-- joining two cycles -/
theorem z_swap_join (π : Perm β) {a b : β} (hab : ¬ π.SameCycle a b) : z (π * swap a b) + 1 = z π := by
  have hne : a ≠ b := fun e => hab (e ▸ Equiv.Perm.SameCycle.refl π a)
  have h1 := nc_le_joinP_succ (SameCycle.setoid (π * swap a b)) a b
  have h2 : nc (joinP (SameCycle.setoid (π * swap a b)) a b) ≤ nc (joinP (SameCycle.setoid π) a b) :=
    nc_mono fun _ _ k => joinP_swap_ge π a b k
  have h3 : nc (joinP (SameCycle.setoid π) a b) < nc (SameCycle.setoid π) := nc_joinP_lt hab
  have h4 := z_parity_swap π hne
  have e : π * swap a b * swap a b = π := by rw [mul_assoc, Equiv.swap_mul_self, mul_one]
  have h5 := z_swap_le (π * swap a b) (a := a) (b := b)
  rw [e] at h5
  unfold z at h4 h5 ⊢
  omega

/-- splitting a cycle -/
theorem z_swap_split (π : Perm β) {a b : β} (hne : a ≠ b) (hab : π.SameCycle a b) :
    z (π * swap a b) = z π + 1 := by
  have h1 : nc (joinP (SameCycle.setoid (π * swap a b)) a b) ≤ nc (SameCycle.setoid (π * swap a b)) :=
    nc_joinP_le _ a b
  have h2 : nc (joinP (SameCycle.setoid π) a b) ≤ nc (joinP (SameCycle.setoid (π * swap a b)) a b) :=
    nc_mono fun _ _ k => joinP_swap_le π a b k
  have h3 : nc (joinP (SameCycle.setoid π) a b) = nc (SameCycle.setoid π) := nc_joinP_eq hab
  have h4 := z_parity_swap π hne
  have h5 := z_swap_le π (a := a) (b := b)
  unfold z at h4 h5 ⊢
  omega

/-- **multiplying by a transposition changes the number of cycles by exactly one** -/
theorem z_swap (π : Perm β) {a b : β} (hne : a ≠ b) :
    z (π * swap a b) = z π + 1 ∨ z (π * swap a b) + 1 = z π := by
  by_cases hab : π.SameCycle a b
  · exact Or.inl (z_swap_split π hne hab)
  · exact Or.inr (z_swap_join π hab)

omit [DecidableEq β] in
theorem z_one : z (1 : Perm β) = Fintype.card β := by
  apply Nat.le_antisymm (z_le_card 1)
  unfold z nc
  rw [← Nat.card_eq_fintype_card]
  apply Nat.card_le_card_of_injective (Quotient.mk'' : β → Quotient (SameCycle.setoid (1 : Perm β)))
  intro x y hxy
  have : (1 : Perm β).SameCycle x y := Quotient.exact' hxy
  exact sameCycle_one.1 this

/-! ### products of transpositions -/

/-- one factor: the partial product and the components of the transposition graph -/
def step (s : Perm β × Setoid β) (e : β × β) : Perm β × Setoid β :=
  (s.1 * swap e.1 e.2, joinP s.2 e.1 e.2)

def prodL (L : List (β × β)) : Perm β := (L.map fun e => swap e.1 e.2).prod

theorem foldl_step_fst (L : List (β × β)) (s : Perm β × Setoid β) :
    (L.foldl step s).1 = s.1 * prodL L := by
  induction L generalizing s with
  | nil => simp [prodL]
  | cons e L ih =>
    rw [List.foldl_cons, ih]
    simp only [step, prodL, List.map_cons, List.prod_cons, mul_assoc]

theorem foldl_step_le (L : List (β × β)) (s : Perm β × Setoid β) {x y : β} (h : s.2 x y) :
    (L.foldl step s).2 x y := by
  induction L generalizing s with
  | nil => exact h
  | cons e L ih => rw [List.foldl_cons]; exact ih _ (Or.inl h)

/-- the potential: cycles of the partial product refine the components, and
    `n + cycles ≤ factors + 2·components` -/
theorem potential (L : List (β × β)) (p : Perm β) (E : Setoid β) (k : Nat)
    (href : ∀ x y, p.SameCycle x y → E x y) (hk : Fintype.card β + z p ≤ k + 2 * nc E) :
    (∀ x y, (L.foldl step (p, E)).1.SameCycle x y → (L.foldl step (p, E)).2 x y) ∧
      Fintype.card β + z (L.foldl step (p, E)).1 ≤ k + L.length + 2 * nc (L.foldl step (p, E)).2 := by
  induction L generalizing p E k with
  | nil => exact ⟨href, by simpa using hk⟩
  | cons e L ih =>
    rw [List.foldl_cons, List.length_cons]
    have href' : ∀ x y, (p * swap e.1 e.2).SameCycle x y → joinP E e.1 e.2 x y := fun x y h =>
      joinP_min (fun _ _ k => Or.inl (href _ _ k)) (joinP_pair E e.1 e.2) (sameCycle_swap_le p e.1 e.2 h)
    have hk' : Fintype.card β + z (p * swap e.1 e.2) ≤ (k + 1) + 2 * nc (joinP E e.1 e.2) := by
      by_cases hE : E e.1 e.2
      · have := nc_joinP_eq hE
        have := z_swap_le p (a := e.1) (b := e.2)
        omega
      · have hR : ¬ p.SameCycle e.1 e.2 := fun h => hE (href _ _ h)
        have := z_swap_join p hR
        have := nc_le_joinP_succ E e.1 e.2
        omega
    have := ih (p * swap e.1 e.2) (joinP E e.1 e.2) (k + 1) href' hk'
    refine ⟨this.1, ?_⟩
    have h2 := this.2
    show _ ≤ k + (L.length + 1) + _
    have : k + (L.length + 1) = k + 1 + L.length := by omega
    rw [this]
    exact h2

/-- every permutation is a product of `n − cycles` transpositions -/
theorem exists_swaps (g : Perm β) : ∃ L : List (β × β), prodL L = g ∧ L.length + z g ≤ Fintype.card β := by
  generalize hm : Fintype.card β - z g = m
  induction m using Nat.strong_induction_on generalizing g with
  | _ m ih =>
    by_cases hg : g = 1
    · exact ⟨[], by simp [prodL, hg], by rw [hg, z_one]; simp⟩
    · obtain ⟨a, ha⟩ : ∃ a, g a ≠ a := by
        by_contra hcon
        push Not at hcon
        exact hg (Equiv.Perm.ext hcon)
      have hsplit := z_swap_split g (Ne.symm ha)
        (Equiv.Perm.sameCycle_apply_right.2 (Equiv.Perm.SameCycle.refl g a))
      have hle := z_le_card (g * swap a (g a))
      obtain ⟨L, hL, hlen⟩ := ih (Fintype.card β - z (g * swap a (g a))) (by omega) (g * swap a (g a)) rfl
      refine ⟨L ++ [(a, g a)], ?_, ?_⟩
      · unfold prodL at hL ⊢
        rw [List.map_append, List.prod_append, hL]
        simp [mul_assoc]
      · rw [List.length_append, List.length_singleton]; omega

/-- **Ree's inequality for two generators** (genus ≥ 0): if no proper equivalence relation is
    invariant under `φ` and `α`, then `z φ + z α + z (φ α) ≤ n + 2` -/
theorem ree (φ α : Perm β)
    (hconn : ∀ t : Setoid β, (∀ x, t x (φ x)) → (∀ x, t x (α x)) → ∀ x y, t x y) :
    z φ + z α + z (φ * α) ≤ Fintype.card β + 2 := by
  obtain ⟨L1, hL1, hl1⟩ := exists_swaps φ
  obtain ⟨L2, hL2, hl2⟩ := exists_swaps α
  obtain ⟨L3, hL3, hl3⟩ := exists_swaps (φ * α)⁻¹
  rw [z_inv] at hl3
  set s0 : Perm β × Setoid β := (1, SameCycle.setoid 1) with hs0
  have P1 := potential L1 1 (SameCycle.setoid 1) 0 (fun _ _ h => h) (by have := z_one (β := β); unfold z at this ⊢; omega)
  set s1 := L1.foldl step (1, SameCycle.setoid 1) with hs1
  have e1 : s1.1 = φ := by rw [hs1, foldl_step_fst, hL1, one_mul]
  have P2 := potential L2 s1.1 s1.2 (0 + L1.length) P1.1 P1.2
  set s2 := L2.foldl step (s1.1, s1.2) with hs2
  have e2 : s2.1 = φ * α := by rw [hs2, foldl_step_fst, hL2, e1]
  have P3 := potential L3 s2.1 s2.2 (0 + L1.length + L2.length) P2.1 P2.2
  set s3 := L3.foldl step (s2.1, s2.2) with hs3
  have e3 : s3.1 = 1 := by rw [hs3, foldl_step_fst, hL3, e2, mul_inv_cancel]
  -- the final relation is total
  have g1 : ∀ x, s3.2 x (φ x) := fun x =>
    foldl_step_le L3 _ (foldl_step_le L2 _ (P1.1 _ _ (by
      rw [e1]; exact Equiv.Perm.sameCycle_apply_right.2 (Equiv.Perm.SameCycle.refl φ x))))
  have g2 : ∀ x, s3.2 x ((φ * α) x) := fun x =>
    foldl_step_le L3 _ (P2.1 _ _ (by
      rw [e2]; exact Equiv.Perm.sameCycle_apply_right.2 (Equiv.Perm.SameCycle.refl (φ * α) x)))
  have g3 : ∀ x, s3.2 x (α x) := fun x =>
    s3.2.iseqv.trans (g2 x) (s3.2.iseqv.symm (g1 (α x)))
  have htot := hconn s3.2 g1 g3
  have hnc : nc s3.2 ≤ 1 := by
    unfold nc
    have : Subsingleton (Quotient s3.2) := by
      constructor
      intro q q'
      induction q using Quotient.inductionOn' with
      | h x =>
      induction q' using Quotient.inductionOn' with
      | h x' => exact Quotient.sound' (htot x x')
    exact Finite.card_le_one_iff_subsingleton.2 this
  have hfin := P3.2
  rw [e3, z_one] at hfin
  omega

end

end DSymVerif.PermRee
