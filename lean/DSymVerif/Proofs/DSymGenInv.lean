/-
Lemmas about the model of the D-symbol generator, part 2: the closed form `scaled` of the
integer curvature bookkeeping, the value of `is_minimally_hyperbolic`, the panic-free pure
version of the `for v` loop of `children`, and the invariant of all reachable search states
(in particular: no reachable state makes `children` panic).   Core Lean only.
-/
import DSymVerif.Proofs.DSymGen

namespace DSymVerif.SymGen
open DSymVerif.DS

/-! ### list helpers -/

theorem getElem?_of_lt {α} (l : List α) (i : Nat) (d : α) (h : i < l.length) :
    l[i]? = some (l.getD i d) := by
  simp [List.getD, List.getElem?_eq_getElem h]

theorem getD_set (l : List Nat) (n v i : Nat) (hn : n < l.length) :
    (l.set n v).getD i 0 = if i = n then v else l.getD i 0 := by
  simp only [List.getD, List.getElem?_set]
  by_cases h : n = i
  · subst h; simp [hn]
  · have h' : ¬ i = n := fun e => h e.symm
    simp [h, h']

theorem sum_map_range_congr (f g : Nat → Int) (N : Nat) (h : ∀ i, i < N → f i = g i) :
    ((List.range N).map f).sum = ((List.range N).map g).sum := by
  congr 1
  apply List.map_congr_left
  intro i hi
  exact h i (List.mem_range.mp hi)

theorem sum_map_range_update (f g : Nat → Int) (N n : Nat) (hn : n < N)
    (h : ∀ i, i ≠ n → f i = g i) :
    ((List.range N).map f).sum = ((List.range N).map g).sum - g n + f n := by
  induction N with
  | zero => omega
  | succ N ih =>
    rw [List.range_succ, List.map_append, List.map_append, List.sum_append, List.sum_append]
    simp only [List.map_cons, List.map_nil, List.sum_cons, List.sum_nil, Int.add_zero]
    by_cases hN : n = N
    · subst hN
      rw [sum_map_range_congr f g n (fun i hi => h i (by omega))]
      omega
    · rw [ih (by omega), h N (fun e => hN e.symm)]
      omega

/-! ### the closed form of the bookkeeping -/

/-- `k` of orbit `i` -/
def kAt (c : Ctx) (i : Nat) : Int := kOf (c.isChain.getD i false)

/-- `k * CURV_FAC / v` -/
def termZ (c : Ctx) (i v : Nat) : Int := Int.tdiv (kAt c i * curvFac) (v : Int)

/-- `-CURV_FAC / 2 * size + Σ_i k_i * CURV_FAC / vs[i]` (the 2 is `Tables.chamberDivisor`) — what `new`, `root` and `children`
    maintain incrementally -/
def scaled (c : Ctx) (vs : List Nat) : Int :=
  Int.tdiv (-curvFac) Tables.chamberDivisor * (c.dset.size : Int) + ((List.range c.count).map fun i => termZ c i (vs.getD i 0)).sum

theorem scaled_set (c : Ctx) (vs : List Nat) (n v : Nat) (hn : n < c.count) (hl : vs.length = c.count) :
    scaled c (vs.set n v) = scaled c vs - termZ c n (vs.getD n 0) + termZ c n v := by
  unfold scaled
  rw [sum_map_range_update (fun i => termZ c i ((vs.set n v).getD i 0))
        (fun i => termZ c i (vs.getD i 0)) c.count n hn]
  · simp only [getD_set vs n v n (by omega), if_true]
    omega
  · intro i hi
    simp only [getD_set vs n v i (by omega), if_neg hi]

/-! ### well-formed contexts -/

structure WF (c : Ctx) : Prop where
  chainLen : c.isChain.length = c.count
  vminPos : ∀ i, i < c.count → 1 ≤ c.vmins.getD i 0
  vminLe : ∀ i, i < c.count → c.vmins.getD i 0 ≤ Tables.genVMax
  base : c.baseCurv = scaled c c.vmins

/-! ### `is_minimally_hyperbolic` -/

/-- `curv - k * CURV_FAC / v + k * CURV_FAC / (v - 1)` for orbit `i` -/
def loweredCurv (c : Ctx) (vs : List Nat) (curv : Int) (i : Nat) : Int :=
  curv - Int.tdiv (kAt c i * curvFac) (vs.getD i 0 : Int)
       + Int.tdiv (kAt c i * curvFac) ((vs.getD i 0 : Int) - 1)

/-- the test of the loop body for orbit `i` -/
def minHypAt (c : Ctx) (vs : List Nat) (curv : Int) (i : Nat) : Bool :=
  decide (vs.getD i 0 > c.vmins.getD i 0 → 0 ≤ loweredCurv c vs curv i)

theorem minHypLoop_eq {c : Ctx} (hw : WF c) {vs : List Nat} (hl : vs.length = c.count) (curv : Int) :
    ∀ (l : List Nat), (∀ i, i ∈ l → i < c.count) →
      minHypLoop c vs curv l = .ok (l.all (minHypAt c vs curv)) := by
  intro l
  induction l with
  | nil => intro _; simp [minHypLoop]
  | cons i is ih =>
    intro hmem
    have hi : i < c.count := hmem i (by simp)
    have ih' := ih (fun j hj => hmem j (by simp [hj]))
    have h1 : vs[i]? = some (vs.getD i 0) := getElem?_of_lt vs i 0 (by omega)
    have h2 : c.vmins[i]? = some (c.vmins.getD i 0) := getElem?_of_lt c.vmins i 0 hi
    have h3 : c.isChain[i]? = some (c.isChain.getD i false) :=
      getElem?_of_lt c.isChain i false (by rw [hw.chainLen]; exact hi)
    simp only [minHypLoop, h1, h2, h3, List.all_cons]
    by_cases hgt : vs.getD i 0 > c.vmins.getD i 0
    · have hpos := hw.vminPos i hi
      have hv0 : ((vs.getD i 0 : Nat) : Int) ≠ 0 := by omega
      have hv1 : ((vs.getD i 0 : Nat) : Int) - 1 ≠ 0 := by omega
      rw [if_pos hgt, idiv_of_ne hv0, idiv_of_ne hv1]
      simp only
      by_cases hneg : curv - Int.tdiv (kOf (c.isChain.getD i false) * curvFac) (vs.getD i 0 : Int)
          + Int.tdiv (kOf (c.isChain.getD i false) * curvFac) ((vs.getD i 0 : Int) - 1) < 0
      · rw [if_pos hneg]
        have : minHypAt c vs curv i = false := by
          unfold minHypAt loweredCurv kAt
          exact decide_eq_false (fun h => by have := h hgt; omega)
        rw [this, Bool.false_and]
      · rw [if_neg hneg, ih']
        have : minHypAt c vs curv i = true := by
          unfold minHypAt loweredCurv kAt
          exact decide_eq_true (fun _ => by omega)
        rw [this, Bool.true_and]
    · rw [if_neg hgt, ih']
      have : minHypAt c vs curv i = true := by
        unfold minHypAt
        exact decide_eq_true (fun h => absurd h hgt)
      rw [this, Bool.true_and]

/-- the value of `is_minimally_hyperbolic` (it never panics on vectors of the right length) -/
def minHypPure (c : Ctx) (vs : List Nat) (curv : Int) : Bool :=
  decide (curv < 0) && (List.range c.count).all (minHypAt c vs curv)

theorem isMinimallyHyperbolic_eq {c : Ctx} (hw : WF c) {vs : List Nat} (hl : vs.length = c.count)
    (curv : Int) : isMinimallyHyperbolic c vs curv = .ok (minHypPure c vs curv) := by
  unfold isMinimallyHyperbolic minHypPure
  by_cases h : curv < 0
  · rw [if_pos h, minHypLoop_eq hw hl curv _ (fun i hi => List.mem_range.mp hi)]
    simp [h]
  · rw [if_neg h]
    simp [h]

/-! ### the `for v` loop without panics -/

/-- `children`'s loop, given that nothing panics -/
def childPure (c : Ctx) (s : State) (n vmin : Nat) : List Nat → List State
  | [] => []
  | v :: rest =>
    let vs := s.vs.set n v
    let curv := s.curv - termZ c n vmin + termZ c n v
    if curv ≥ c.minCurv then
      if curv < 0 then
        (if minHypPure c vs curv then [{ vs := vs, curv := curv, next := c.count }] else [])
      else { vs := vs, curv := curv, next := s.next + 1 } :: childPure c s n vmin rest
    else childPure c s n vmin rest

theorem childLoop_body_eq {c : Ctx} (hw : WF c) {s : State} {n vmin v : Nat} {rest : List Nat}
    (hlen' : (s.vs.set n v).length = c.count)
    (ih' : childLoop c s n vmin rest = .ok (childPure c s n vmin rest)) (cv : Int) :
    (if cv ≥ c.minCurv then
        if cv < 0 then
          match isMinimallyHyperbolic c (s.vs.set n v) cv with
          | .ok true => Outcome.ok [{ vs := s.vs.set n v, curv := cv, next := c.count }]
          | .ok false => .ok []
          | .err => .err
          | .panic => .panic
        else
          match childLoop c s n vmin rest with
          | .ok r => .ok ({ vs := s.vs.set n v, curv := cv, next := s.next + 1 } :: r)
          | .err => .err
          | .panic => .panic
      else childLoop c s n vmin rest) =
      Outcome.ok
        (if cv ≥ c.minCurv then
          if cv < 0 then
            (if minHypPure c (s.vs.set n v) cv then [{ vs := s.vs.set n v, curv := cv, next := c.count }] else [])
          else { vs := s.vs.set n v, curv := cv, next := s.next + 1 } :: childPure c s n vmin rest
        else childPure c s n vmin rest) := by
  by_cases h1 : cv ≥ c.minCurv
  · simp only [if_pos h1]
    by_cases h2 : cv < 0
    · simp only [if_pos h2]
      rw [isMinimallyHyperbolic_eq hw hlen']
      by_cases h3 : minHypPure c (s.vs.set n v) cv = true
      · simp [h3]
      · simp only [Bool.not_eq_true] at h3
        simp [h3]
    · simp only [if_neg h2]
      rw [ih']
  · simp only [if_neg h1]
    exact ih'

theorem childLoop_eq_pure {c : Ctx} (hw : WF c) {s : State} (hl : s.vs.length = c.count) {n vmin : Nat}
    (hn : n < c.count) (hvm : vmin ≠ 0) :
    ∀ (l : List Nat), (∀ v, v ∈ l → v ≠ 0) → childLoop c s n vmin l = .ok (childPure c s n vmin l) := by
  intro l
  induction l with
  | nil => intro _; simp [childLoop, childPure]
  | cons v rest ih =>
    intro hmem
    have hv : v ≠ 0 := hmem v (by simp)
    have ih' := ih (fun w hw' => hmem w (by simp [hw']))
    have h3 : c.isChain[n]? = some (c.isChain.getD n false) :=
      getElem?_of_lt c.isChain n false (by rw [hw.chainLen]; exact hn)
    have hv0 : ((v : Nat) : Int) ≠ 0 := by omega
    have hvm0 : ((vmin : Nat) : Int) ≠ 0 := by omega
    have hlen' : (s.vs.set n v).length = c.count := by simp [hl]
    simp only [childLoop, childPure, h3, if_pos (show n < s.vs.length by omega),
      idiv_of_ne hv0, idiv_of_ne hvm0, termZ, kAt]
    exact childLoop_body_eq hw hlen' ih' _

/-! ### the invariant of reachable states -/

structure Inv (c : Ctx) (s : State) : Prop where
  len : s.vs.length = c.count
  lo : ∀ i, i < c.count → c.vmins.getD i 0 ≤ s.vs.getD i 0
  hi : ∀ i, i < c.count → s.vs.getD i 0 ≤ Tables.genVMax
  tail : ∀ i, s.next ≤ i → i < c.count → s.vs.getD i 0 = c.vmins.getD i 0
  curv : s.curv = scaled c s.vs
  next : s.next ≤ c.count

theorem inv_root {c : Ctx} (hw : WF c) :
    Inv c { vs := c.vmins, curv := c.baseCurv, next := if c.baseCurv < 0 then c.count else 0 } where
  len := rfl
  lo := fun _ _ => Nat.le_refl _
  hi := hw.vminLe
  tail := fun _ _ _ => rfl
  curv := hw.base
  next := by simp only; split <;> omega

theorem isChild_inv {c : Ctx} {s s' : State} (hi : Inv c s) {v : Nat}
    (hv : v ∈ List.range' (s.vs.getD s.next 0) (Tables.genVMax + 1 - s.vs.getD s.next 0))
    (hn : s.next < c.count) (hc : IsChild c s s.next (s.vs.getD s.next 0) v s') : Inv c s' := by
  obtain ⟨hv1, hv2⟩ := List.mem_range'_1.mp hv
  have hlo := hi.lo s.next hn
  refine ⟨by rw [hc.vs]; simp [hi.len], ?_, ?_, ?_, ?_, ?_⟩
  · intro i hic
    rw [hc.vs, getD_set _ _ _ _ (by rw [hi.len]; exact hn)]
    split
    · rename_i e; subst e; omega
    · exact hi.lo i hic
  · intro i hic
    rw [hc.vs, getD_set _ _ _ _ (by rw [hi.len]; exact hn)]
    split
    · omega
    · exact hi.hi i hic
  · intro i h1 h2
    rcases hc.kind with ⟨_, h, _⟩ | ⟨_, h⟩
    · omega
    · rw [hc.vs, getD_set _ _ _ _ (by rw [hi.len]; exact hn), if_neg (by omega)]
      exact hi.tail i (by omega) h2
  · rw [hc.curv, hc.vs, scaled_set c s.vs s.next v hn hi.len, hi.curv]
    simp only [termZ, kAt]
  · rcases hc.kind with ⟨_, h, _⟩ | ⟨_, h⟩ <;> omega

/-- every child of a state satisfying the invariant is a state (no panic) satisfying it -/
theorem children_inv {c : Ctx} (hw : WF c) {s : State} (hi : Inv c s) {x : Node}
    (hx : x ∈ children c (.st s)) : ∃ s', x = .st s' ∧ Inv c s' := by
  have hn : s.next < c.count := (children_st hx).1
  have hnb : ¬ c.baseCurv < 0 := (children_st hx).2.1
  have hget : s.vs[s.next]? = some (s.vs.getD s.next 0) := getElem?_of_lt _ _ 0 (by rw [hi.len]; exact hn)
  have hvm : s.vs.getD s.next 0 ≠ 0 := by
    have := hw.vminPos s.next hn
    have := hi.lo s.next hn
    omega
  have hloop := childLoop_eq_pure hw hi.len hn hvm
    (List.range' (s.vs.getD s.next 0) (Tables.genVMax + 1 - s.vs.getD s.next 0))
    (fun v hv => by have := (List.mem_range'_1.mp hv).1; omega)
  simp only [children] at hx
  rw [if_neg (by simp only [Bool.or_eq_true, decide_eq_true_eq, not_or]; exact ⟨by omega, hnb⟩)] at hx
  simp only [hget, hloop] at hx
  obtain ⟨s', hs', rfl⟩ := List.mem_map.mp hx
  refine ⟨s', rfl, ?_⟩
  obtain ⟨v, hv, hc⟩ := childLoop_spec _ _ hloop s' hs'
  exact isChild_inv hi hv hn hc

/-- **reachable states**: every node of the search tree is a state (never `panicked`) that
    satisfies the invariant -/
theorem reach_inv {c : Ctx} (hw : WF c) :
    ∀ x y, BT.Reach (problem c) x y → (∃ s, x = .st s ∧ Inv c s) → ∃ s, y = .st s ∧ Inv c s := by
  intro x y h
  induction h with
  | refl _ => exact id
  | step hc _ ih =>
    rintro ⟨s, rfl, hi⟩
    exact ih (children_inv hw hi hc)

theorem reach_root_inv {c : Ctx} (hw : WF c) (y : Node) (h : BT.Reach (problem c) (root c) y) :
    ∃ s, y = .st s ∧ Inv c s :=
  reach_inv hw _ _ h ⟨_, rfl, inv_root hw⟩

end DSymVerif.SymGen
