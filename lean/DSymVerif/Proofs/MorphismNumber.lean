/-
Helper lemmas for property C04, part 9: the class tables produced by `fold` / `foldAll` have
idempotent, range-preserving `find`, and the numbering loop of `minimal_image`
(`for d in 1..=size { let e = p.find(&d); … }`) numbers the classes 1..K in order of first
occurrence: `src2img` is constant exactly on classes, `img2src` picks a member of each class.
-/
import DSymVerif.Proofs.MorphismCoarsest

namespace DSymVerif.Mor

/-! ### `find` of the tables built by `fold` -/

structure PInv (s : MV) (p : Part) : Prop where
  range : ∀ x, InR s x → InR s (p.find x)
  idem : ∀ x, p.find (p.find x) = p.find x

theorem PInv.new (s : MV) : PInv s Part.new := ⟨fun _ h => h, fun _ => rfl⟩

theorem PInv.unite {s : MV} {p : Part} (h : PInv s p) {d e : Nat} (hd : InR s d) :
    PInv s (p.unite d e) := by
  refine ⟨fun x hx => ?_, fun x => ?_⟩
  · rw [find_unite]
    split
    · exact h.range d hd
    · exact h.range x hx
  · rw [find_unite, find_unite]
    by_cases hx : p.find x = p.find e
    · simp only [hx, if_true, h.idem]
      split <;> rfl
    · simp only [hx, if_false, h.idem]

structure QInv (s : MV) (Q : Queue) (p : Part) : Prop where
  pinv : PInv s p
  qin : ∀ pr, pr ∈ Q → InR s pr.1 ∧ InR s pr.2

theorem fold_pinv (s : MV) (hr : OpRange s) (p0 q : Part) (d e : Nat) (hd : InR s d) (he : InR s e)
    (hp : PInv s p0) (h : fold s p0 d e = .ok q) : PInv s q := by
  unfold fold at h
  split at h
  · cases h
  · have init : QInv s [(d, e)] p0 := ⟨hp, fun pr hpr => by
      simp only [List.mem_singleton] at hpr; subst hpr; exact ⟨hd, he⟩⟩
    refine (foldLoop_ind s (QInv s)
      (fun d' e' Q p hI _ => ⟨hI.pinv, fun pr hpr => hI.qin pr (by simp [hpr])⟩)
      (fun d' e' Q p Q' hI _ hin => ?_) _ _ _ _ init h).pinv
    have sp := foldInner_spec s d' e' _ _ _ hin
    have hde := hI.qin (d', e') (by simp)
    refine ⟨hI.pinv.unite hde.1, fun pr hpr => ?_⟩
    rcases (sp.1 pr).1 hpr with h1 | ⟨i, _, h1, h2⟩
    · exact hI.qin pr (by simp [h1])
    · exact ⟨hr _ _ _ h1, hr _ _ _ h2⟩

theorem foldAll_pinv (s : MV) (hr : OpRange s) (h1 : 1 ≤ s.size) :
    ∀ (ds : List Nat) (p q : Part), (∀ d, d ∈ ds → InR s d) → PInv s p →
      foldAll s ds p = .ok q → PInv s q := by
  intro ds
  induction ds with
  | nil => intro p q _ hp h; simp only [foldAll, Outcome.ok.injEq] at h; subst h; exact hp
  | cons d ds ih =>
    intro p q hds hp h
    have hd := hds d (by simp)
    have hds' : ∀ x, x ∈ ds → InR s x := fun x hx => hds x (by simp [hx])
    unfold foldAll at h
    split at h
    · rename_i p' hfold
      exact ih p' q hds' (fold_pinv s hr p p' 1 d ⟨Nat.le_refl 1, h1⟩ hd hp hfold) h
    · exact ih p q hds' hp h
    · cases h

/-! ### the numbering loop -/

theorem getD_setIfInBounds (a : Array Nat) (i v j : Nat) :
    (a.setIfInBounds i v).getD j 0 = if j = i ∧ i < a.size then v else a.getD j 0 := by
  simp only [Array.getD_eq_getD_getElem?, Array.getElem?_setIfInBounds]
  by_cases hji : i = j
  · subst hji
    by_cases hlt : i < a.size
    · simp [hlt]
    · simp [hlt]
  · have : ¬ j = i := fun h => hji h.symm
    simp [hji, this]

/-- invariant of the numbering loop after the chambers 1..t -/
structure NInv (n : Nat) (p : Part) (t : Nat) (st : NumState) : Prop where
  sz1 : st.src2img.size = n + 1
  sz2 : st.img2src.size = n + 1
  nx : 1 ≤ st.next ∧ st.next ≤ t + 1
  cls : ∀ x, st.src2img.getD x 0 ≠ 0 →
    st.src2img.getD (p.find x) 0 = st.src2img.getD x 0 ∧
    1 ≤ st.src2img.getD x 0 ∧ st.src2img.getD x 0 < st.next
  inj : ∀ x y, st.src2img.getD x 0 ≠ 0 → st.src2img.getD y 0 ≠ 0 →
    st.src2img.getD x 0 = st.src2img.getD y 0 → p.find x = p.find y
  rep : ∀ k, 1 ≤ k → k < st.next →
    (1 ≤ st.img2src.getD k 0 ∧ st.img2src.getD k 0 ≤ n) ∧
    p.find (st.img2src.getD k 0) = st.img2src.getD k 0 ∧
    st.src2img.getD (st.img2src.getD k 0) 0 = k
  done : ∀ d, 1 ≤ d → d ≤ t → st.src2img.getD d 0 ≠ 0
  first : 1 ≤ t → st.src2img.getD 1 0 = 1

theorem NInv.init (n : Nat) (p : Part) :
    NInv n p 0 { src2img := Array.replicate (n + 1) 0, img2src := Array.replicate (n + 1) 0, next := 1 } := by
  have z : ∀ x, (Array.replicate (n + 1) 0).getD x 0 = 0 := by
    intro x
    simp only [Array.getD_eq_getD_getElem?, Array.getElem?_replicate]
    split <;> rfl
  refine ⟨by simp, by simp, ⟨Nat.le_refl 1, Nat.le_refl 1⟩, ?_, ?_, ?_, ?_, ?_⟩
  · intro x hx; exact absurd (z x) hx
  · intro x y hx; exact absurd (z x) hx
  · intro k h1 h2
    have h2' : k < 1 := h2
    omega
  · intro d h1 h2; omega
  · intro h; omega

/-- one iteration of the numbering loop -/
theorem numberLoop_step (n : Nat) (p : Part)
    (hrange : ∀ x, 1 ≤ x → x ≤ n → 1 ≤ p.find x ∧ p.find x ≤ n)
    (hidem : ∀ x, p.find (p.find x) = p.find x)
    (t : Nat) (ht : t < n) (st : NumState) (inv : NInv n p t st) (rest : List Nat) :
    ∃ st', NInv n p (t + 1) st' ∧ numberLoop p ((t + 1) :: rest) st = numberLoop p rest st' := by
  have hd1 : 1 ≤ t + 1 := by omega
  have hd2 : t + 1 ≤ n := by omega
  have he := hrange (t + 1) hd1 hd2
  have helt : p.find (t + 1) < st.src2img.size := by rw [inv.sz1]; omega
  have hdlt : t + 1 < st.src2img.size := by rw [inv.sz1]; omega
  have hget : st.src2img[p.find (t + 1)]? = some (st.src2img.getD (p.find (t + 1)) 0) := by
    simp [Array.getD_eq_getD_getElem?, Array.getElem?_eq_getElem helt]
  by_cases hz : st.src2img.getD (p.find (t + 1)) 0 = 0
  · -- a new class
    have hnlt : st.next < st.img2src.size := by rw [inv.sz2]; have := inv.nx; omega
    let st1 : NumState :=
      { src2img := st.src2img.setIfInBounds (p.find (t + 1)) st.next,
        img2src := st.img2src.setIfInBounds st.next (p.find (t + 1)), next := st.next + 1 }
    let st' : NumState := { st1 with src2img := st1.src2img.setIfInBounds (t + 1) st.next }
    have hS : ∀ x, st'.src2img.getD x 0 =
        if x = t + 1 ∨ x = p.find (t + 1) then st.next else st.src2img.getD x 0 := by
      intro x
      show ((st.src2img.setIfInBounds (p.find (t + 1)) st.next).setIfInBounds (t + 1) st.next).getD x 0 = _
      rw [getD_setIfInBounds, getD_setIfInBounds, Array.size_setIfInBounds]
      by_cases h1 : x = t + 1
      · simp [h1, hdlt]
      · by_cases h2 : x = p.find (t + 1)
        · simp [h1, h2, helt]
        · simp [h1, h2]
    have hG : ∀ k, st'.img2src.getD k 0 = if k = st.next then p.find (t + 1) else st.img2src.getD k 0 := by
      intro k
      show (st.img2src.setIfInBounds st.next (p.find (t + 1))).getD k 0 = _
      rw [getD_setIfInBounds]
      by_cases h1 : k = st.next
      · simp [h1, hnlt]
      · simp [h1]
    -- members of the new class were unassigned
    have hnew : ∀ x, st.src2img.getD x 0 ≠ 0 → x ≠ t + 1 ∧ x ≠ p.find (t + 1) ∧
        p.find x ≠ t + 1 ∧ p.find x ≠ p.find (t + 1) := by
      intro x hx
      have c := inv.cls x hx
      have hfe : p.find x ≠ p.find (t + 1) := fun h => by
        rw [h] at c; rw [hz] at c; exact hx c.1.symm
      have hfd : p.find x ≠ t + 1 := fun h => by
        apply hfe
        rw [← h, hidem]
      refine ⟨fun h => ?_, fun h => ?_, hfd, hfe⟩
      · subst h; exact hfe rfl
      · apply hfe; rw [h, hidem]
    refine ⟨st', ⟨?_, ?_, ?_, ?_, ?_, ?_, ?_, ?_⟩, ?_⟩
    · show ((st.src2img.setIfInBounds _ _).setIfInBounds _ _).size = n + 1
      simp [inv.sz1]
    · show (st.img2src.setIfInBounds _ _).size = n + 1
      simp [inv.sz2]
    · show 1 ≤ st.next + 1 ∧ st.next + 1 ≤ t + 1 + 1
      have := inv.nx; omega
    · intro x hx
      rw [hS] at hx ⊢
      rw [hS]
      show _ ∧ _ ∧ _ < st.next + 1
      by_cases hx' : x = t + 1 ∨ x = p.find (t + 1)
      · have hf : p.find x = p.find (t + 1) := by
          rcases hx' with h | h
          · rw [h]
          · rw [h, hidem]
        have hor : p.find (t + 1) = t + 1 ∨ p.find (t + 1) = p.find (t + 1) := Or.inr rfl
        rw [hf, if_pos hor, if_pos hx']
        have := inv.nx
        exact ⟨rfl, this.1, Nat.lt_succ_self _⟩
      · simp only [hx', if_false] at hx ⊢
        have hn := hnew x hx
        have : ¬ (p.find x = t + 1 ∨ p.find x = p.find (t + 1)) := fun h => by
          rcases h with h | h
          · exact hn.2.2.1 h
          · exact hn.2.2.2 h
        simp only [this, if_false]
        have c := inv.cls x hx
        exact ⟨c.1, c.2.1, by omega⟩
    · intro x y hx hy hxy
      rw [hS] at hx hxy
      rw [hS] at hy hxy
      by_cases hx' : x = t + 1 ∨ x = p.find (t + 1) <;> by_cases hy' : y = t + 1 ∨ y = p.find (t + 1)
      · have hfx : p.find x = p.find (t + 1) := by
          rcases hx' with h | h
          · rw [h]
          · rw [h, hidem]
        have hfy : p.find y = p.find (t + 1) := by
          rcases hy' with h | h
          · rw [h]
          · rw [h, hidem]
        rw [hfx, hfy]
      · simp only [hx', hy', if_true, if_false] at hxy hy
        have := (inv.cls y hy).2.2
        omega
      · simp only [hx', hy', if_true, if_false] at hxy hx
        have := (inv.cls x hx).2.2
        omega
      · simp only [hx', hy', if_false] at hxy hx hy
        exact inv.inj x y hx hy hxy
    · intro k hk1 hk2
      have hk2' : k < st.next + 1 := hk2
      rw [hG]
      by_cases hk : k = st.next
      · simp only [hk, if_true]
        refine ⟨⟨he.1, he.2⟩, hidem _, ?_⟩
        rw [hS]; simp
      · simp only [hk, if_false]
        have r := inv.rep k hk1 (by omega)
        refine ⟨r.1, r.2.1, ?_⟩
        rw [hS]
        have hne : st.src2img.getD (st.img2src.getD k 0) 0 ≠ 0 := by rw [r.2.2]; omega
        have hn := hnew _ hne
        have : ¬ (st.img2src.getD k 0 = t + 1 ∨ st.img2src.getD k 0 = p.find (t + 1)) := fun h => by
          rcases h with h | h
          · exact hn.1 h
          · exact hn.2.1 h
        simp only [this, if_false]
        exact r.2.2
    · intro d hd1' hd2'
      rw [hS]
      by_cases hd' : d = t + 1 ∨ d = p.find (t + 1)
      · simp only [hd', if_true]; have := inv.nx; omega
      · simp only [hd', if_false]
        exact inv.done d hd1' (by
          have : d ≠ t + 1 := fun h => hd' (Or.inl h)
          omega)
    · intro _
      rw [hS]
      by_cases ht0 : t = 0
      · subst ht0
        have := inv.nx
        simp only [true_or, if_true]
        omega
      · have h1 := inv.first (by omega)
        have hne : st.src2img.getD 1 0 ≠ 0 := by rw [h1]; omega
        have hn := hnew 1 hne
        have : ¬ (1 = t + 1 ∨ 1 = p.find (t + 1)) := fun h => by
          rcases h with h | h
          · exact hn.1 h
          · exact hn.2.1 h
        simp only [this, if_false]
        exact h1
    · -- the code takes this path
      rw [numberLoop]
      simp only [hget, hz, if_true, hnlt]
      have hget1 : (st.src2img.setIfInBounds (p.find (t + 1)) st.next)[p.find (t + 1)]? = some st.next := by
        rw [Array.getElem?_setIfInBounds_self_of_lt helt]
      simp only [hget1]
      have : t + 1 < (st.src2img.setIfInBounds (p.find (t + 1)) st.next).size := by
        rw [Array.size_setIfInBounds]; exact hdlt
      simp only [this, if_true]
      rfl
  · -- a class met before
    let st' : NumState := { st with src2img := st.src2img.setIfInBounds (t + 1) (st.src2img.getD (p.find (t + 1)) 0) }
    have hS : ∀ x, st'.src2img.getD x 0 =
        if x = t + 1 then st.src2img.getD (p.find (t + 1)) 0 else st.src2img.getD x 0 := by
      intro x
      show (st.src2img.setIfInBounds (t + 1) _).getD x 0 = _
      rw [getD_setIfInBounds]
      by_cases h1 : x = t + 1
      · simp [h1, hdlt]
      · simp [h1]
    have ce := inv.cls _ hz
    rw [hidem] at ce
    -- if t+1 is a label it labels its own class
    have hlab : ∀ x, p.find x = t + 1 → p.find (t + 1) = t + 1 := fun x h => by rw [← h, hidem]
    refine ⟨st', ⟨?_, inv.sz2, ?_, ?_, ?_, ?_, ?_, ?_⟩, ?_⟩
    · show (st.src2img.setIfInBounds _ _).size = n + 1
      simp [inv.sz1]
    · show 1 ≤ st.next ∧ st.next ≤ t + 1 + 1
      have := inv.nx; omega
    · intro x hx
      show _ ∧ _ ∧ _ < st.next
      rw [hS] at hx ⊢
      rw [hS]
      by_cases hx' : x = t + 1
      · simp only [hx', if_true]
        refine ⟨?_, ce.2.1, ce.2.2⟩
        split
        · rfl
        · rfl
      · simp only [hx', if_false] at hx ⊢
        have c := inv.cls x hx
        by_cases hf : p.find x = t + 1
        · simp only [hf, if_true]
          have := hlab x hf
          rw [this]
          rw [hf] at c
          exact ⟨c.1, c.2⟩
        · simp only [hf, if_false]
          exact c
    · intro x y hx hy hxy
      rw [hS] at hx hxy
      rw [hS] at hy hxy
      by_cases hx' : x = t + 1 <;> by_cases hy' : y = t + 1
      · rw [hx', hy']
      · simp only [hx', hy', if_true, if_false] at hxy hy
        have := inv.inj _ y hz hy hxy
        rw [hidem] at this
        rw [hx']; exact this
      · simp only [hx', hy', if_true, if_false] at hxy hx
        have := inv.inj x _ hx hz hxy
        rw [hidem] at this
        rw [hy']; exact this
      · simp only [hx', hy', if_false] at hxy hx hy
        exact inv.inj x y hx hy hxy
    · intro k hk1 hk2
      have r := inv.rep k hk1 hk2
      refine ⟨r.1, r.2.1, ?_⟩
      show st'.src2img.getD (st.img2src.getD k 0) 0 = k
      rw [hS]
      by_cases hg : st.img2src.getD k 0 = t + 1
      · simp only [hg, if_true]
        have : p.find (t + 1) = t + 1 := by rw [← hg]; exact r.2.1
        rw [this, ← hg]; exact r.2.2
      · simp only [hg, if_false]; exact r.2.2
    · intro d hd1' hd2'
      rw [hS]
      by_cases hd' : d = t + 1
      · simp only [hd', if_true]; exact hz
      · simp only [hd', if_false]
        exact inv.done d hd1' (by omega)
    · intro _
      rw [hS]
      by_cases ht0 : t = 0
      · subst ht0
        -- nothing is assigned before the first chamber
        exfalso
        have c := inv.cls _ hz
        have := inv.nx
        omega
      · have : ¬ (1 = t + 1) := by omega
        simp only [this, if_false]
        exact inv.first (by omega)
    · rw [numberLoop]
      simp only [hget, hz, if_false, hdlt, if_true]
      rfl

/-- the whole loop over `range' (t+1) k` -/
theorem numberLoop_range (n : Nat) (p : Part)
    (hrange : ∀ x, 1 ≤ x → x ≤ n → 1 ≤ p.find x ∧ p.find x ≤ n)
    (hidem : ∀ x, p.find (p.find x) = p.find x) :
    ∀ (k t : Nat) (st : NumState), t + k = n → NInv n p t st →
      ∃ st', numberLoop p (List.range' (t + 1) k) st = .ok st' ∧ NInv n p n st' := by
  intro k
  induction k with
  | zero =>
    intro t st htk inv
    have : t = n := by omega
    subst this
    exact ⟨st, rfl, inv⟩
  | succ k ih =>
    intro t st htk inv
    rw [List.range'_succ]
    obtain ⟨st1, inv1, heq⟩ := numberLoop_step n p hrange hidem t (by omega) st inv (List.range' (t + 1 + 1) k)
    rw [heq]
    exact ih (t + 1) st1 (by omega) inv1

theorem elements_eq_range' (s : MV) : s.elements = List.range' 1 s.size := by
  unfold MV.elements
  generalize s.size = n
  induction n with
  | zero => rfl
  | succ n ih => rw [List.range_succ, List.map_append, ih, List.range'_concat]; simp; omega

/-- **the numbering loop**: it returns, `src2img` maps 1..size onto 1..K (K = next − 1) and is
    constant exactly on the classes of `p`, and `img2src` picks a member of every class -/
theorem numberLoop_spec (s : MV) (p : Part) (hp : PInv s p) :
    ∃ st, numberLoop p s.elements
        { src2img := Array.replicate (s.size + 1) 0, img2src := Array.replicate (s.size + 1) 0, next := 1 }
        = .ok st ∧ NInv s.size p s.size st := by
  rw [elements_eq_range']
  exact numberLoop_range s.size p (fun x h1 h2 => hp.range x ⟨h1, h2⟩) hp.idem s.size 0 _ (by omega)
    (NInv.init s.size p)

end DSymVerif.Mor
