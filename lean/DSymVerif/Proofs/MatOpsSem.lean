/-
Semantics of the generic matrix helpers of the model: `identity`, `transpose`, `matMul`
(hence `rowTimes`) compute the Mathlib identity, transpose and product of the values.
-/
import DSymVerif.Proofs.MatSem

namespace DSymVerif.LA

open DSymVerif Matrix

/-- the scalar operations of a back-end mean the field operations of `R` under `val` -/
structure ScalarSem {α : Type} (B : Backend α) (E : α → Prop) {R : Type} [Field R]
    (val : α → R) : Prop where
  zero : val B.zero = 0
  one : val B.one = 1
  isZero : ∀ a, E a → (B.isZero a = true ↔ val a = 0)
  add : ∀ a b c, E a → E b → B.add a b = .ok c → val c = val a + val b
  sub : ∀ a b c, E a → E b → B.sub a b = .ok c → val c = val a - val b
  mul : ∀ a b c, E a → E b → B.mul a b = .ok c → val c = val a * val b
  neg : ∀ a c, E a → B.neg a = .ok c → val c = -val a
  /-- where `can_divide` says yes, the quotient times the divisor is the dividend -/
  div : ∀ a b c, E a → E b → B.canDivide a b = .ok true → B.div a b = .ok c →
    val c * val b = val a

section ops
variable {α : Type} {B : Backend α} {E Q : α → Prop} {R : Type} [Field R] {val : α → R}

theorem fill_entry {nr nc : Nat} (x : α) {i j : Nat} (hi : i < nr) (hj : j < nc) :
    (((Mat.fill x : Mat α nr nc)[i])[j]) = x := by
  simp [Mat.fill]

theorem identity_sem (hs : Safe B E Q) (hv : ScalarSem B E val) (n : Nat) :
    ∃ m, identity B n = .ok m ∧ AllE E m ∧ toMatrix val m = (1 : Matrix (Fin n) (Fin n) R) := by
  unfold identity
  obtain ⟨m, hm, hE, hI⟩ := forRange_idx 0 n (Nat.zero_le _) (Mat.fill B.zero : Mat α n n)
    (fun i m => m.set i i B.one)
    (fun i m => AllE E m ∧ ∀ (i' j' : Nat) (hi' : i' < n) (hj' : j' < n),
      val ((m[i'])[j']) = if i' = j' ∧ i' < i then 1 else 0)
    ⟨AllE.fill hs.zero, by intro i' j' hi' hj'; rw [fill_entry]; simp [hv.zero]⟩
    (by
      intro j m _ hj ⟨hE, hI⟩
      refine ⟨_, Mat.set_ok m hj hj _, hE.set hj hj hs.one, ?_⟩
      intro i' j' hi' hj'
      rw [entry_set m hj hj _ hi' hj']
      by_cases h1 : j = i' ∧ j = j'
      · obtain ⟨rfl, rfl⟩ := h1
        simp [hv.one]
      · rw [if_neg h1, hI i' j' hi' hj']
        by_cases h2 : i' = j'
        · subst h2
          have : j ≠ i' := fun e => h1 ⟨e, e⟩
          have h3 : (i' < j + 1) ↔ (i' < j) := by omega
          simp [h3]
        · simp [h2])
  refine ⟨m, hm, hE, ?_⟩
  ext i j
  rw [toMatrix_apply, hI i.1 j.1 i.2 j.2, Matrix.one_apply]
  by_cases h : i = j
  · subst h; simp
  · have : i.1 ≠ j.1 := fun e => h (Fin.ext e)
    simp [h, this]

theorem transpose_sem (hs : Safe B E Q) {nr nc : Nat} (m : Mat α nr nc) (hm : AllE E m) :
    ∃ t, transpose B m = .ok t ∧ AllE E t ∧
      ∀ (i j : Nat) (hi : i < nc) (hj : j < nr), (t[i])[j] = (m[j])[i] := by
  unfold transpose
  obtain ⟨t, ht, hE, hI⟩ := forRange_idx 0 nc (Nat.zero_le _) (Mat.fill B.zero : Mat α nc nr)
    (fun i res => forRange 0 nr res fun j res => (m.get j i).bind fun x => res.set i j x)
    (fun i res => AllE E res ∧ ∀ (i' j' : Nat) (hi' : i' < nc) (hj' : j' < nr), i' < i →
      (res[i'])[j'] = (m[j'])[i'])
    ⟨AllE.fill hs.zero, by intro i' j' _ _ h; omega⟩
    (by
      intro i res _ hi ⟨hE, hI⟩
      obtain ⟨res', hr, hE', hI1, hI2⟩ := forRange_idx 0 nr (Nat.zero_le _) res
        (fun j res => (m.get j i).bind fun x => res.set i j x)
        (fun j res' => AllE E res' ∧
          (∀ (i' j' : Nat) (hi' : i' < nc) (hj' : j' < nr), i' < i → (res'[i'])[j'] = (m[j'])[i']) ∧
          ∀ (j' : Nat) (hj' : j' < nr), j' < j → (res'[i])[j'] = (m[j'])[i])
        ⟨hE, hI, by intro j' _ h; omega⟩
        (by
          intro j res' _ hj ⟨hE', hI1, hI2⟩
          rw [Mat.get_ok m hj hi]
          simp only [bind_ok]
          refine ⟨_, Mat.set_ok res' hi hj _, hE'.set hi hj (hm j i hj hi), ?_, ?_⟩
          · intro i' j' hi' hj' hlt
            rw [entry_set res' hi hj _ hi' hj', if_neg (by omega)]
            exact hI1 i' j' hi' hj' hlt
          · intro j' hj' hlt
            rw [entry_set res' hi hj _ hi hj']
            by_cases h : j = j'
            · subst h; simp
            · rw [if_neg (by omega)]; exact hI2 j' hj' (by omega))
      refine ⟨res', hr, hE', ?_⟩
      intro i' j' hi' hj' hlt
      by_cases h : i' = i
      · subst h; exact hI2 j' hj' hj'
      · exact hI1 i' j' hi' hj' (by omega))
  exact ⟨t, ht, hE, fun i j hi hj => hI i j hi hj hi⟩

theorem transpose_toMatrix {nr nc : Nat} (m : Mat α nr nc) (t : Mat α nc nr)
    (h : ∀ (i j : Nat) (hi : i < nc) (hj : j < nr), (t[i])[j] = (m[j])[i]) :
    toMatrix val t = (toMatrix val m)ᵀ := by
  ext i j
  simp [h i.1 j.1 i.2 j.2]

theorem matMul_sem (hs : Safe B E Q) (hv : ScalarSem B E val) {n m k : Nat} (a : Mat α n m)
    (b : Mat α m k) (ha : AllE E a) (hb : AllE E b) :
    ∃ c, matMul B a b = .ok c ∧ AllE E c ∧ toMatrix val c = toMatrix val a * toMatrix val b := by
  unfold matMul
  obtain ⟨c, hc, hE, hI⟩ := forRange_idx 0 n (Nat.zero_le _) (Mat.fill B.zero : Mat α n k)
    (fun i res => forRange 0 k res fun j res =>
      (forRange 0 m B.zero fun l x =>
        (a.get i l).bind fun ail => (b.get l j).bind fun blj =>
        (B.mul ail blj).bind fun p => B.add x p).bind fun x =>
      res.set i j x)
    (fun i res => AllE E res ∧ ∀ (i' j' : Nat) (hi' : i' < n) (hj' : j' < k), i' < i →
      val ((res[i'])[j']) = (toMatrix val a * toMatrix val b) ⟨i', hi'⟩ ⟨j', hj'⟩)
    ⟨AllE.fill hs.zero, by intro i' j' _ _ h; omega⟩
    (by
      intro i res _ hi ⟨hE, hI⟩
      obtain ⟨res', hr, hE', hI1, hI2⟩ := forRange_idx 0 k (Nat.zero_le _) res
        (fun j res =>
          (forRange 0 m B.zero fun l x =>
            (a.get i l).bind fun ail => (b.get l j).bind fun blj =>
            (B.mul ail blj).bind fun p => B.add x p).bind fun x =>
          res.set i j x)
        (fun j res' => AllE E res' ∧
          (∀ (i' j' : Nat) (hi' : i' < n) (hj' : j' < k), i' < i →
            val ((res'[i'])[j']) = (toMatrix val a * toMatrix val b) ⟨i', hi'⟩ ⟨j', hj'⟩) ∧
          ∀ (j' : Nat) (hj' : j' < k), j' < j →
            val ((res'[i])[j']) = (toMatrix val a * toMatrix val b) ⟨i, hi⟩ ⟨j', hj'⟩)
        ⟨hE, hI, by intro j' _ h; omega⟩
        (by
          intro j res' _ hj ⟨hE', hI1, hI2⟩
          obtain ⟨x, hx, hxE, hxv⟩ := forRange_idx 0 m (Nat.zero_le _) B.zero
            (fun l x => (a.get i l).bind fun ail => (b.get l j).bind fun blj =>
              (B.mul ail blj).bind fun p => B.add x p)
            (fun l x => E x ∧ val x = ∑ l' : Fin m,
              if l'.1 < l then toMatrix val a ⟨i, hi⟩ l' * toMatrix val b l' ⟨j, hj⟩ else 0)
            ⟨hs.zero, by simp [hv.zero]⟩
            (by
              intro l x _ hl ⟨hxE, hxv⟩
              rw [Mat.get_ok a hi hl, Mat.get_ok b hl hj]
              simp only [bind_ok]
              obtain ⟨p, hp, hpE⟩ := hs.mul _ _ (ha i l hi hl) (hb l j hl hj)
              rw [hp]
              simp only [bind_ok]
              obtain ⟨y, hy, hyE⟩ := hs.add x p hxE hpE
              refine ⟨y, hy, hyE, ?_⟩
              rw [hv.add x p y hxE hpE hy, hv.mul _ _ p (ha i l hi hl) (hb l j hl hj) hp, hxv,
                sum_lt_succ _ l hl]
              rfl)
          rw [hx]
          simp only [bind_ok]
          refine ⟨_, Mat.set_ok res' hi hj _, hE'.set hi hj hxE, ?_, ?_⟩
          · intro i' j' hi' hj' hlt
            rw [entry_set res' hi hj _ hi' hj', if_neg (by omega)]
            exact hI1 i' j' hi' hj' hlt
          · intro j' hj' hlt
            rw [entry_set res' hi hj _ hi hj']
            by_cases h : j = j'
            · subst h
              simp only [and_self, if_true]
              rw [hxv, sum_lt_full, Matrix.mul_apply]
            · rw [if_neg (by omega)]; exact hI2 j' hj' (by omega))
      refine ⟨res', hr, hE', ?_⟩
      intro i' j' hi' hj' hlt
      by_cases h : i' = i
      · subst h; exact hI2 j' hj' hj'
      · exact hI1 i' j' hi' hj' (by omega))
  refine ⟨c, hc, hE, ?_⟩
  ext i j
  rw [toMatrix_apply]
  exact hI i.1 j.1 i.2 j.2 i.2

end ops

end DSymVerif.LA
