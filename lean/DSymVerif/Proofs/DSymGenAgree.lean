/-
Lemmas for property C07, phase 2, part 13: **the private key is on the list iff delaney2d's
orbifold is** — for positive curvature, unconditionally (C08's genus theorems — Ree's inequality and the orientation cover — give that
delaney2d's symbol is defined and that a symbol which is not weakly oriented has a cross-cap; these concern the handle / cross-cap bookkeeping of `delaney2d::orbifold_symbol`, i.e. surface topology, not the
generator).  Assembles the census agreement, the private orientation test, the shape of a
positive-curvature symbol and the two readings of the generator's list.
-/
import DSymVerif.Proofs.DSymGenShape
import DSymVerif.Proofs.DSymGenSame
import DSymVerif.Proofs.Delaney2dMapVertices
import DSymVerif.Proofs.Delaney2dGenus
import DSymVerif.Proofs.Delaney2dLiftGenus

set_option linter.unusedSectionVars false

namespace DSymVerif.SymGen
open DSymVerif.DS DSymVerif.D2 DSymVerif.SpecC08

theorem insertDescNat_eq (x : Nat) (l : List Nat) : D2.insertDescNat x l = insertDesc x l := by
  induction l with
  | nil => rfl
  | cons y ys ih => simp only [D2.insertDescNat, insertDesc, ih]

theorem sortDescNat_eq (l : List Nat) : D2.sortDescNat l = sortDesc l := by
  unfold D2.sortDescNat sortDesc
  induction l with
  | nil => rfl
  | cons x xs ih => simp only [List.foldr_cons, ih, insertDescNat_eq]

theorem sortDesc_idem (l : List Nat) : sortDesc (sortDesc l) = sortDesc l := by
  apply sortDesc_perm
  rw [sortDesc_eq]
  exact List.perm_insertionSort _ l

theorem sortDesc_perm' (l : List Nat) : (sortDesc l).Perm l := by
  rw [sortDesc_eq]; exact List.perm_insertionSort _ l

theorem mem_points02 (ds : DSetData) (x : Nat) :
    (x ∈ (points02 ds).1 → x = 2) ∧ (x ∈ (points02 ds).2 → x = 2) := by
  rw [points02_eq]
  constructor
  · intro hx
    obtain ⟨d, _, hd⟩ := List.mem_filterMap.mp hx
    unfold cone02 at hd
    split at hd
    · exact (Option.some.inj hd).symm
    · cases hd
  · intro hx
    obtain ⟨d, _, hd⟩ := List.mem_filterMap.mp hx
    unfold corner02 at hd
    split at hd
    · exact (Option.some.inj hd).symm
    · cases hd

theorem flag_strings (a b : Bool) (X Y : String) :
    X ++ (if a then "" else "*") ++ Y ++ (if b then "" else "x") =
      X ++ (if (!a) then "*" else "") ++ Y ++ (if (!b) then "x" else "") := by
  cases a <;> cases b <;> rfl

/-- the comparison of an orbifold of one of the three shapes with a listed key -/
theorem same_iff_key {o : OrbSym} {loopless wo : Bool} (sh : Shape o loopless wo)
    {C B : List Nat} (hC : o.cones = C) (hCd : Digits C) (hCs : sortDesc C = C)
    (hB : o.bnds.flatten.Perm B) (hBd : Digits B) (hBs : sortDesc B = B)
    {t : PKey} (ht : t ∈ goodKeys) :
    sameOrbifold (orbOf o) t.orb = true ↔ (⟨C, !loopless, B, !wo⟩ : PKey) = t := by
  obtain ⟨tv, tlen, tcs, tbs⟩ := goodKeys_valid ht
  have hpc : proper (orbOf o).cones = C := by
    show proper o.cones = C
    rw [hC]; exact proper_of_ge C (fun v hv => (hCd v hv).1)
  have hpt : proper t.orb.cones = t.cones := proper_of_ge t.cones (fun v hv => (tv.cones v hv).1)
  have hptb : proper t.corners = t.corners := proper_of_ge t.corners (fun v hv => (tv.corners v hv).1)
  have hconesIff : multisetEq (· == ·) (proper (orbOf o).cones) (proper t.orb.cones) = true ↔ C = t.cones := by
    rw [hpc, hpt, multisetEq_iff_perm]
    constructor
    · intro hp; rw [← hCs, ← tcs]; exact sortDesc_perm hp
    · intro e; rw [e]
  unfold sameOrbifold
  simp only [Bool.and_eq_true, beq_iff_eq]
  rw [hconesIff]
  obtain ⟨tc, ts, tb, tx⟩ := t
  simp only at tcs tbs hptb tlen
  have tns := tv.nostar
  simp only at tns
  cases sh with
  | closedOrientable hl hw hbn hcp hh =>
    have hBnil : B = [] := by rw [hbn] at hB; exact List.perm_nil.mp hB.symm
    subst hl hw
    have e1 : (orbOf o).bnds = [] := hbn
    simp only [e1, hh, hcp, PKey.orb, List.map_nil, Bool.not_true, PKey.mk.injEq]
    constructor
    · rintro ⟨⟨⟨hc, hb⟩, _⟩, hx⟩
      have hstar : ts = false := by
        cases ts
        · rfl
        · have := multisetEq_cyc_length hb; simp at this
      have hcross : tx = false := by
        cases tx
        · rfl
        · simp at hx
      exact ⟨hc, hstar.symm, by rw [hBnil, tns hstar], hcross.symm⟩
    · rintro ⟨hc, hs, hb, hx⟩
      subst hs hx
      exact ⟨⟨⟨hc, by simp only [Bool.false_eq_true, if_false, List.map_nil]; exact multisetEq_cyc_nil_nil⟩,
        trivial⟩, by simp⟩
  | closedCrossCap hl hw hbn hcp hh =>
    have hBnil : B = [] := by rw [hbn] at hB; exact List.perm_nil.mp hB.symm
    subst hl hw
    have e1 : (orbOf o).bnds = [] := hbn
    simp only [e1, hh, hcp, PKey.orb, List.map_nil, Bool.not_true, Bool.not_false, PKey.mk.injEq]
    constructor
    · rintro ⟨⟨⟨hc, hb⟩, _⟩, hx⟩
      have hstar : ts = false := by
        cases ts
        · rfl
        · have := multisetEq_cyc_length hb; simp at this
      have hcross : tx = true := by
        cases tx
        · simp at hx
        · rfl
      exact ⟨hc, hstar.symm, by rw [hBnil, tns hstar], hcross.symm⟩
    · rintro ⟨hc, hs, hb, hx⟩
      subst hs hx
      exact ⟨⟨⟨hc, by simp only [Bool.false_eq_true, if_false, List.map_nil]; exact multisetEq_cyc_nil_nil⟩,
        trivial⟩, by simp⟩
  | disc Bo hl hw hbn hcp hh =>
    have hBo : Bo.Perm B := by rw [hbn] at hB; simpa using hB
    have hBod : ∀ v, v ∈ Bo → 2 ≤ v := fun v hv => (hBd v (hBo.mem_iff.mp hv)).1
    have hpBo : proper Bo = Bo := proper_of_ge Bo hBod
    subst hl hw
    have e1 : (orbOf o).bnds = [Bo] := hbn
    simp only [e1, hh, hcp, PKey.orb, List.map_cons, List.map_nil, hpBo, Bool.not_true, Bool.not_false,
      PKey.mk.injEq]
    constructor
    · rintro ⟨⟨⟨hc, hb⟩, _⟩, hx⟩
      have hstar : ts = true := by
        cases ts
        · have := multisetEq_cyc_length hb; simp at this
        · rfl
      have hcross : tx = false := by
        cases tx
        · rfl
        · simp at hx
      subst hstar
      simp only [if_true, List.map_cons, List.map_nil, hptb] at hb
      rw [multisetEq_cyc_single] at hb
      have hp := cycEquiv_perm hb
      refine ⟨hc, rfl, ?_, hcross.symm⟩
      rw [← hBs, ← tbs]
      exact sortDesc_perm (hBo.symm.trans hp)
    · rintro ⟨hc, hs, hb, hx⟩
      subst hs hx hb
      refine ⟨⟨⟨hc, ?_⟩, trivial⟩, by simp⟩
      simp only [if_true, List.map_cons, List.map_nil, hptb]
      rw [multisetEq_cyc_single]
      have hlen : Bo.length ≤ 3 := by rw [hBo.length_eq]; exact tlen
      have := cycEquiv_sortDesc Bo hlen
      rw [sortDesc_perm hBo, hBs] at this
      exact this

/-- the cone / corner lists of the private routine -/
def privCones (c : Ctx) (vs : List Nat) : List Nat :=
  (points02 c.dset).1 ++ (List.range c.count).filterMap (coneAt c vs)
def privCorners (c : Ctx) (vs : List Nat) : List Nat :=
  (points02 c.dset).2 ++ (List.range c.count).filterMap (cornerAt c vs)

/-- the key of the private routine -/
def privKey (c : Ctx) (vs : List Nat) : PKey :=
  ⟨sortDesc (privCones c vs), !c.dset.viewSimple.isLoopless, sortDesc (privCorners c vs),
   !c.dset.viewSimple.isWeaklyOriented⟩

/-- the string of the private routine -/
def privString (c : Ctx) (vs : List Nat) : String :=
  degreeListAsString (sortDesc (privCones c vs)) ++ (if c.dset.viewSimple.isLoopless then "" else "*") ++
    degreeListAsString (sortDesc (privCorners c vs)) ++
    (if c.dset.viewSimple.isWeaklyOriented then "" else "x")

theorem priv_digits {c : Ctx} (hw : WF c) {vs : List Nat} (ha : Adm c vs) :
    Digits (sortDesc (privCones c vs)) ∧ Digits (sortDesc (privCorners c vs)) := by
  have hb := adm_bounds hw ha
  have h7 : Tables.genVMax = 7 := rfl
  constructor
  · intro v hvm
    have hvm' := (sortDesc_perm' _).mem_iff.mp hvm
    rcases List.mem_append.mp hvm' with h2 | h2
    · rw [(mem_points02 c.dset v).1 h2]; exact ⟨by omega, by omega⟩
    · obtain ⟨i, hi, hci⟩ := List.mem_filterMap.mp h2
      unfold coneAt at hci
      split at hci
      · rename_i hgt
        have := Option.some.inj hci
        have hbi := (hb i (List.mem_range.mp hi)).2
        omega
      · cases hci
  · intro v hvm
    have hvm' := (sortDesc_perm' _).mem_iff.mp hvm
    rcases List.mem_append.mp hvm' with h2 | h2
    · rw [(mem_points02 c.dset v).2 h2]; exact ⟨by omega, by omega⟩
    · obtain ⟨i, hi, hci⟩ := List.mem_filterMap.mp h2
      unfold cornerAt at hci
      split at hci
      · rename_i hgt
        have := Option.some.inj hci
        have hbi := (hb i (List.mem_range.mp hi)).2
        omega
      · cases hci

theorem priv_string_eq {ds : DSetData} {g : Geom} {c : Ctx} (h : mkCtx ds g = .ok c) (hds : ValidSet ds)
    (hconn : ds.viewSimple.isConnected = true) (h1 : 1 ≤ ds.size) {vs : List Nat} (hl : vs.length = c.count) :
    orbifoldSymbol c vs = .ok (privString c vs) := by
  obtain ⟨hdd, _⟩ := mkCtx_fields h
  have hwo : isWeaklyOriented c.dset = .ok c.dset.viewSimple.isWeaklyOriented := by
    rw [hdd]; exact isWeaklyOriented_private hds hconn h1
  unfold orbifoldSymbol
  rw [pointsVs_eq (mkCtx_wf h) hl _ (fun i hi => List.mem_range.mp hi), hwo]
  rfl

theorem priv_string_chars (c : Ctx) (vs : List Nat) (hkv : (privKey c vs).Valid) :
    (privString c vs).toList = (privKey c vs).chars := by
  rw [← key_toList _ hkv]
  unfold privString privKey
  simp only
  rw [flag_strings]

theorem good2d_emitted {ds : DSetData} {g : Geom} {c : Ctx} (h : mkCtx ds g = .ok c) (hds : ValidSet ds)
    (hdim : ds.dim = 2) (hfar : FarCommute ds) {vs : List Nat} (ha : Adm c vs) (rep : Rep) :
    Good2d ⟨emittedSym c vs, rep⟩ := by
  have hw := mkCtx_wf h
  obtain ⟨hdd, _⟩ := mkCtx_fields h
  have hb := adm_bounds hw ha
  refine ⟨emitted_valid h hds hdim hfar ha.1, emitted_dim h hds hdim hfar ha.1, ?_⟩
  unfold DSymData.isCompletePartial
  rw [Bool.and_eq_true]
  constructor
  · show c.dset.isCompletePartial = true
    rw [hdd]
    unfold DSetData.isCompletePartial
    simp only [List.all_eq_true, List.mem_range, bne_iff_ne, ne_eq]
    intro i hi d hdlt
    have := (hds.range i (d + 1) (by omega) (by omega) (by omega)).1
    omega
  · show vs.toArray.all (· > 0) = true
    rw [Array.all_eq_true]
    intro i hi
    have hi' : i < vs.length := by simpa using hi
    have := (hb i (by have := ha.1; omega)).1
    simp only [List.getD, List.getElem?_eq_getElem hi', Option.getD_some] at this
    have : 0 < vs[i] := this
    simpa using this

section final
variable {ds : DSetData} {g : Geom} {c : Ctx} (h : mkCtx ds g = .ok c) (hds : ValidSet ds)
  (hdim : ds.dim = 2) (hfar : FarCommute ds) (hconn : ds.viewSimple.isConnected = true)
  (h1 : 1 ≤ ds.size) {vs : List Nat} (ha : Adm c vs) (hpos : 0 < scaled c vs) (rep : Rep)
include h hds hdim hfar hconn h1 ha hpos

/-- **the private key is on the list iff delaney2d's orbifold is** (K > 0, under the two
    decidable monitors) -/
theorem private_key_agrees :
    ∃ o, orbifoldSymbol c vs = .ok (privString c vs) ∧
      D2.orbifoldSymbol ⟨emittedSym c vs, rep⟩ = .ok o ∧
      (Tables.goodSphericalOrbifolds.contains (privString c vs) = true ↔
        SpecC07.onGoodList (orbOf o) = true) ∧
      isGood c vs (scaled c vs) = .ok (SpecC07.onGoodList (orbOf o)) := by
  have hw := mkCtx_wf h
  have hl := ha.1
  have hb := adm_bounds hw ha
  have hgood := good2d_emitted h hds hdim hfar ha rep
  obtain ⟨hcurv, _⟩ := curvature_emitted h hds hdim hfar vs hl (fun i hi => (hb i hi).1) rep
  obtain ⟨hdd, _⟩ := mkCtx_fields h
  have hsz : 1 ≤ (⟨emittedSym c vs, rep⟩ : Sym).size := by show 1 ≤ c.dset.size; rw [hdd]; exact h1
  have hcn : (⟨emittedSym c vs, rep⟩ : Sym).view.isConnected = true := by
    show c.dset.viewSimple.isConnected = true; rw [hdd]; exact hconn
  -- delaney2d's symbol is defined, and a symbol that is not weakly oriented has a cross-cap
  obtain ⟨o', ho'⟩ := orbifoldSymbol_total hgood hcn
  have hmon := parityMonitor_holds hgood ho'
  obtain ⟨o, hx⟩ := symbolCensus_of_parity hgood hmon
  have hcap : ∀ o, D2.orbifoldSymbol ⟨emittedSym c vs, rep⟩ = .ok o → o.orientable = false → 1 ≤ o.count := by
    intro o2 ho2 hor
    obtain ⟨_, _, _, hori, _⟩ := orbSym_fields hgood ho2
    have hwo : (⟨emittedSym c vs, rep⟩ : Sym).view.isWeaklyOriented = false := by
      rw [hor] at hori; exact hori.symm
    exact (crosscap_of_not_weaklyOriented hgood hcn hwo ho2).2
  obtain ⟨K, hK, hKv⟩ := gauss_bonnet_census hgood hx
  rw [hcurv] at hK
  have hKq : K.toRat = curvQ c vs := by rw [← Outcome.ok.inj hK, Frac.toRat_ofRat]
  have hqpos : 0 < curvQ c vs := ((scaled_sign c vs hb).2.2).mp hpos
  have hchi : 0 < chiQ (orbOf o) := by rw [hKq] at hKv; linarith
  have sh : Shape o c.dset.viewSimple.isLoopless c.dset.viewSimple.isWeaklyOriented :=
    shape_of_positive hgood rfl rfl hx (hcap o hx.sym) hchi
  obtain ⟨pc, pk⟩ := private_census h hds hdim hfar hl
  obtain ⟨bnds, _, _, _, hocones⟩ := orbSym_fields hgood hx.sym
  obtain ⟨hdigC, hdigB⟩ := priv_digits hw ha
  have hkey := priv_string_eq h hds hconn h1 hl
  have hC : o.cones = sortDesc (privCones c vs) := by
    rw [hocones, sortDescNat_eq]; exact (sortDesc_perm pc).symm
  have hB : o.bnds.flatten.Perm (sortDesc (privCorners c vs)) :=
    hx.corners.trans (pk.symm.trans (sortDesc_perm' _).symm)
  have hkv : (privKey c vs).Valid := by
    refine ⟨hdigC, hdigB, fun hs => ?_⟩
    have hloop : c.dset.viewSimple.isLoopless = true := by
      cases hb' : c.dset.viewSimple.isLoopless
      · unfold privKey at hs; simp only [hb'] at hs; cases hs
      · rfl
    have : o.bnds = [] := by
      cases sh with
      | closedOrientable _ _ hbn _ _ => exact hbn
      | closedCrossCap _ _ hbn _ _ => exact hbn
      | disc _ hl' _ _ _ _ => rw [hloop] at hl'; cases hl'
    rw [this] at hB
    exact List.perm_nil.mp hB.symm
  have hstr := priv_string_chars c vs hkv
  have hiff : Tables.goodSphericalOrbifolds.contains (privString c vs) = true ↔
      SpecC07.onGoodList (orbOf o) = true := by
    rw [contains_iff_goodKeys _ hkv _ hstr]
    unfold SpecC07.onGoodList
    rw [goodKeys_orbs, List.any_map, List.any_eq_true]
    constructor
    · intro hm
      exact ⟨_, hm, (same_iff_key sh hC hdigC (sortDesc_idem _) hB hdigB (sortDesc_idem _) hm).mpr rfl⟩
    · rintro ⟨t, ht, hs⟩
      have e : privKey c vs = t :=
        (same_iff_key sh hC hdigC (sortDesc_idem _) hB hdigB (sortDesc_idem _) ht).mp hs
      rw [e]
      exact ht
  refine ⟨o, hkey, hx.sym, hiff, ?_⟩
  unfold isGood
  rw [if_neg (by omega), hkey]
  simp only
  exact congrArg Outcome.ok (Bool.eq_iff_iff.mpr hiff)

end final

end DSymVerif.SymGen
