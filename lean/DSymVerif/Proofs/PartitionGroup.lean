/-
Helper lemmas for property C20, part 6: what the Spec's naive first-occurrence grouping
`groupFO` is.  For the relation "same value of ρ" it returns a partition of the queried list
(same multiset, duplicates kept), no empty class, members of a class share their ρ, different
classes have different ρ, every class lists its members in the order they occur in the query,
and the classes are ordered by the occurrence of their first members.
-/
import DSymVerif.Proofs.PartitionClasses

namespace DSymVerif.PartP
open DSymVerif DSymVerif.Part DSymVerif.SpecC20

theorem insertFO_decomp (ρ : Nat → Nat) (e : Nat) :
    ∀ cls : List (List Nat), (∀ c ∈ cls, c ≠ []) →
      (∃ l c r, cls = l ++ c :: r ∧ ρ (c.headD 0) = ρ e ∧
          insertFO (relOf ρ) e cls = l ++ (c ++ [e]) :: r) ∨
      ((∀ c ∈ cls, ρ (c.headD 0) ≠ ρ e) ∧ insertFO (relOf ρ) e cls = cls ++ [[e]]) := by
  intro cls
  induction cls with
  | nil => intro _; right; exact ⟨fun c h => (by cases h), rfl⟩
  | cons c cs ih =>
    intro hne
    cases c with
    | nil => exact absurd rfl (hne [] (List.mem_cons_self ..))
    | cons h t =>
      by_cases hr : ρ h = ρ e
      · left
        refine ⟨[], h :: t, cs, rfl, hr, ?_⟩
        have : relOf ρ h e = true := by simp [relOf, hr]
        simp [insertFO, this]
      · have hrel : relOf ρ h e = false := by simp [relOf, hr]
        rcases ih (fun c hc => hne c (List.mem_cons_of_mem _ hc)) with ⟨l, c, r, h1, h2, h3⟩ | ⟨h1, h2⟩
        · left
          refine ⟨(h :: t) :: l, c, r, by rw [h1]; rfl, h2, ?_⟩
          simp only [insertFO, hrel, h3]; rfl
        · right
          refine ⟨?_, by simp only [insertFO, hrel, h2]; rfl⟩
          intro c hc
          rcases List.mem_cons.1 hc with rfl | hc
          · exact hr
          · exact h1 c hc

/-- the invariant of the grouping fold after the prefix `pre` of the query -/
structure GroupInv (ρ : Nat → Nat) (pre : List Nat) (acc : List (List Nat)) : Prop where
  count : ∀ x, acc.flatten.count x = pre.count x
  mem : ∀ c ∈ acc, c ≠ [] ∧ (∀ x ∈ c, ρ x = ρ (c.headD 0)) ∧ c.Sublist pre
  nodup : (headReps ρ acc).Nodup
  heads : (acc.map (fun c => c.headD 0)).Sublist pre

theorem headD_append_singleton {c : List Nat} (h : c ≠ []) (e : Nat) :
    (c ++ [e]).headD 0 = c.headD 0 := by
  cases c with
  | nil => exact absurd rfl h
  | cons x t => rfl

theorem groupInv_step {ρ : Nat → Nat} {pre : List Nat} {acc : List (List Nat)} (e : Nat)
    (inv : GroupInv ρ pre acc) : GroupInv ρ (pre ++ [e]) (insertFO (relOf ρ) e acc) := by
  have hsub : ∀ {l : List Nat}, l.Sublist pre → l.Sublist (pre ++ [e]) :=
    fun h => h.trans (List.sublist_append_left _ _)
  rcases insertFO_decomp ρ e acc (fun c hc => (inv.mem c hc).1) with ⟨l, c, r, h1, h2, h3⟩ | ⟨h1, h2⟩
  · have hc : c ∈ acc := by rw [h1]; simp
    obtain ⟨cne, cmem, csub⟩ := inv.mem c hc
    rw [h3]
    refine ⟨?_, ?_, ?_, ?_⟩
    · intro x
      have := inv.count x
      rw [h1] at this
      simp only [List.flatten_append, List.flatten_cons, List.count_append, List.count_cons,
        List.count_nil] at this ⊢
      omega
    · intro d hd
      rcases List.mem_append.1 hd with hd | hd
      · obtain ⟨a, b, c'⟩ := inv.mem d (by rw [h1]; exact List.mem_append_left _ hd)
        exact ⟨a, b, hsub c'⟩
      · rcases List.mem_cons.1 hd with rfl | hd
        · refine ⟨by simp, ?_, csub.append (List.Sublist.refl _)⟩
          intro x hx
          rw [headD_append_singleton cne]
          rcases List.mem_append.1 hx with hx | hx
          · exact cmem x hx
          · simp at hx; subst hx; exact h2.symm
        · obtain ⟨a, b, c'⟩ := inv.mem d (by rw [h1]; simp [hd])
          exact ⟨a, b, hsub c'⟩
    · have : headReps ρ (l ++ (c ++ [e]) :: r) = headReps ρ acc := by
        rw [h1]; simp only [headReps, List.map_append, List.map_cons, headD_append_singleton cne]
      rw [this]; exact inv.nodup
    · have : (l ++ (c ++ [e]) :: r).map (fun c => c.headD 0) = acc.map (fun c => c.headD 0) := by
        rw [h1]; simp only [List.map_append, List.map_cons, headD_append_singleton cne]
      rw [this]; exact hsub inv.heads
  · rw [h2]
    refine ⟨?_, ?_, ?_, ?_⟩
    · intro x
      have := inv.count x
      simp only [List.flatten_append, List.flatten_cons, List.flatten_nil, List.count_append,
        List.count_cons, List.count_nil, List.append_nil] at this ⊢
      omega
    · intro d hd
      rcases List.mem_append.1 hd with hd | hd
      · obtain ⟨a, b, c'⟩ := inv.mem d hd
        exact ⟨a, b, hsub c'⟩
      · simp at hd; subst hd
        refine ⟨by simp, by simp, ?_⟩
        exact List.sublist_append_right _ _
    · have : headReps ρ (acc ++ [[e]]) = headReps ρ acc ++ [ρ e] := by simp [headReps]
      rw [this, List.nodup_append]
      refine ⟨inv.nodup, by simp, ?_⟩
      intro a ha b hb
      simp at hb; subst hb
      simp only [headReps, List.mem_map] at ha
      obtain ⟨c, hc, rfl⟩ := ha
      exact h1 c hc
    · have : (acc ++ [[e]]).map (fun c => c.headD 0) = acc.map (fun c => c.headD 0) ++ [e] := by
        simp
      rw [this]
      exact inv.heads.append (List.Sublist.refl _)

theorem groupInv_foldl (ρ : Nat → Nat) :
    ∀ (es pre : List Nat) (acc : List (List Nat)), GroupInv ρ pre acc →
      GroupInv ρ (pre ++ es) (es.foldl (fun acc e => insertFO (relOf ρ) e acc) acc) := by
  intro es
  induction es with
  | nil => intro pre acc h; simpa using h
  | cons e es ih =>
    intro pre acc h
    have := ih (pre ++ [e]) _ (groupInv_step e h)
    simpa using this

/-- what `groupFO` under "same ρ" returns -/
theorem groupFO_inv (ρ : Nat → Nat) (es : List Nat) : GroupInv ρ es (groupFO (relOf ρ) es) := by
  have h0 : GroupInv ρ [] [] :=
    ⟨fun _ => rfl, fun c h => (by cases h), (by simp [headReps]), (by simp)⟩
  simpa [groupFO] using groupInv_foldl ρ es [] [] h0

end DSymVerif.PartP
