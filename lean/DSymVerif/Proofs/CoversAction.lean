/-
Property C05, part 11: a valid coset table of the fundamental group is a monodromy
representation of the textbook group, and `cover_for_table` is the cover of that representation.

* `rhoM`  : a table valid for ⟨1..n | rels⟩ (C11 `Valid`) gives a homomorphism from the C09
            presentation `PresentedGroup (MRel n rels)` to the permutations of its rows, with
            `c·w = d` in the table ⇒ `rhoM(w)⁻¹ c = d`;
* `rhoT`  : composed with the C09 isomorphism `TGroup ds ≃* MGroup f` it is a representation of the
            textbook group with `rhoT(x(d,i))⁻¹ k = k·edge_to_word(d,i)`;
* for a model table `t` whose `get` shows the entries of the valid table, no `unwrap` of
  `trace_word` fails, and the sheet map of `cover_for_table` agrees with `rhoT`.
-/
import DSymVerif.Model.CoversWired
import DSymVerif.Proofs.CoversConn
import DSymVerif.Proofs.CosetAction
import DSymVerif.Proofs.CosetReps
import DSymVerif.Proofs.FundGroupLetters

namespace DSymVerif.CoversP
open DSymVerif DSymVerif.DS DSymVerif.FG DSymVerif.FGP DSymVerif.FWP DSymVerif.Cosets DSymVerif.SpecC11
open DSymVerif.CosetP DSymVerif.Covers

section rho
variable {tab : Tab} {n : Nat} {rels subs : List (List Int)} (hv : Valid tab n rels subs)

/-- generator `k ∈ 1..n` acts as in C11 (`genImg`), every other number trivially -/
noncomputable def rho0 (k : ℕ) : Equiv.Perm (Fin tab.size) :=
  if h : 1 ≤ k ∧ k ≤ n then genImg hv ⟨k - 1, by omega⟩ else 1

theorem lift_rho0_letter (g : Int) :
    FreeGroup.lift (rho0 hv) (den [g]) = FreeGroup.lift (genImg hv) (letterElt n g) := by
  rcases Int.lt_trichotomy g 0 with hneg | hzero | hpos
  · obtain ⟨m, hm⟩ : ∃ m : ℕ, g = -(m : Int) := ⟨g.natAbs, by omega⟩
    have hm0 : 0 < m := by omega
    subst hm
    rw [den_neg m hm0, map_inv, FreeGroup.lift_apply_of]
    unfold letterElt rho0
    have h1 : ¬ (1 ≤ -(m : Int) ∧ -(m : Int) ≤ n) := by omega
    rw [dif_neg h1]
    by_cases h2 : 1 ≤ m ∧ m ≤ n
    · have h2' : 1 ≤ - -(m : Int) ∧ - -(m : Int) ≤ n := by omega
      rw [dif_pos h2, dif_pos h2', map_inv, FreeGroup.lift_apply_of]
      congr 2
      apply Fin.ext
      show m - 1 = (- -(m : Int)).toNat - 1
      omega
    · have h2' : ¬ (1 ≤ - -(m : Int) ∧ - -(m : Int) ≤ n) := by omega
      rw [dif_neg h2, dif_neg h2', map_one, inv_one]
  · subst hzero
    rw [den_zero, map_one]
    unfold letterElt
    rw [dif_neg (by omega), dif_neg (by omega), map_one]
  · obtain ⟨m, hm⟩ : ∃ m : ℕ, g = (m : Int) := ⟨g.toNat, by omega⟩
    have hm0 : 0 < m := by omega
    subst hm
    rw [den_pos m hm0, FreeGroup.lift_apply_of]
    unfold letterElt rho0
    by_cases h2 : 1 ≤ m ∧ m ≤ n
    · have h2' : 1 ≤ (m : Int) ∧ (m : Int) ≤ n := by omega
      rw [dif_pos h2, dif_pos h2', FreeGroup.lift_apply_of]
      congr 1
    · have h2' : ¬ (1 ≤ (m : Int) ∧ (m : Int) ≤ n) := by omega
      have h3 : ¬ (1 ≤ -(m : Int) ∧ -(m : Int) ≤ n) := by omega
      rw [dif_neg h2, dif_neg h2', dif_neg h3, map_one]

theorem lift_rho0_den : ∀ w : List Int,
    FreeGroup.lift (rho0 hv) (den w) = FreeGroup.lift (genImg hv) (wordElt n w)
  | [] => by rw [den_nil, map_one, wordElt_nil, map_one]
  | g :: w => by
    have : g :: w = [g] ++ w := rfl
    rw [this, den_append, map_mul, lift_rho0_letter, lift_rho0_den w, wordElt_append, map_mul]
    congr 1
    rw [wordElt_cons, wordElt_nil, mul_one]

theorem rho0_rel : ∀ r ∈ MRel n rels, FreeGroup.lift (rho0 hv) r = 1 := by
  rintro r (⟨w, hw, rfl⟩ | ⟨k, hk, rfl⟩)
  · rw [lift_rho0_den]
    exact lift_rel hv _ ⟨w, hw, rfl⟩
  · rw [FreeGroup.lift_apply_of]
    unfold rho0
    rw [dif_neg (by omega)]

/-- the action of the C09 presentation on the rows of a valid table -/
noncomputable def rhoM : PresentedGroup (MRel n rels) →* Equiv.Perm (Fin tab.size) :=
  PresentedGroup.toGroup (rho0_rel hv)

theorem rhoM_mk (x : FreeGroup ℕ) : rhoM hv (PresentedGroup.mk _ x) = FreeGroup.lift (rho0 hv) x := rfl

/-- `c·w = d` in the table ⇒ the inverse of the permutation of `w` carries `c` to `d` -/
theorem rhoM_trace (w : List Int) (c : Fin tab.size) (d : Nat)
    (h : SpecC11.traceWord tab n c.val w = some d) :
    ((rhoM hv (PresentedGroup.mk _ (den w)))⁻¹ c).val = d := by
  rw [rhoM_mk, lift_rho0_den]
  exact lift_trace hv w c d h

end rho

/-! ### the model table shows the entries of the valid table -/

/-- `t.get` on rows `< len` and letters `±1..±n` returns the entries of `tab` -/
def Shows (t : Cosets.Table) (tab : Tab) (n : Nat) : Prop :=
  tab.size = t.len ∧
  ∀ j, j < t.len → ∀ g ∈ allGensOf n, ∃ d, t.get j g = .ok (some d) ∧ entry tab n j g = some d

theorem traceC_cons_ok {t : Cosets.Table} {k r : Nat} {g : Int} (w : List Int)
    (h : t.get k g = .ok (some r)) : traceC t k (g :: w) = traceC t r w := by
  unfold traceC
  rw [List.foldl_cons]
  simp only
  rw [h]

/-- with letters in range every trace is defined in the model and is the trace of the Spec table -/
theorem traceC_shows {t : Cosets.Table} {tab : Tab} {n : Nat} (hsh : Shows t tab n) :
    ∀ (w : List Int), (∀ x ∈ w, x ∈ allGensOf n) → ∀ k, k < t.len →
      ∃ r, traceC t k w = .ok r ∧ SpecC11.traceWord tab n k w = some r ∧ r < t.len
  | [], _, k, hk => ⟨k, rfl, rfl, hk⟩
  | g :: w, hw, k, hk => by
    obtain ⟨d, hget, hent⟩ := hsh.2 k hk g (hw g (List.mem_cons_self ..))
    have hd : d < t.len := by rw [← hsh.1]; exact (entry_some hent).1
    obtain ⟨r, h1, h2, h3⟩ := traceC_shows hsh w (fun x hx => hw x (List.mem_cons_of_mem _ hx)) d hd
    refine ⟨r, by rw [traceC_cons_ok w hget]; exact h1, ?_, h3⟩
    simp only [SpecC11.traceWord, hent]
    exact h2

/-! ### the representation of the textbook group -/

section rhoT
variable {ds : DSymData} (hs : ValidSym ds) (hdim : 1 ≤ ds.dim) {f : FundGroup}
  (hf : fundamentalGroup ds = .ok f) {tab : Tab} {subs : List (List Int)}
  (hv : Valid tab f.nrGenerators f.relators subs)

/-- the monodromy representation of the textbook group on the rows of a valid table of the
    returned presentation -/
noncomputable def rhoT : TGroup ds →* Equiv.Perm (Fin tab.size) :=
  (rhoM hv).comp (presIso hs hdim hf).toMonoidHom

theorem presIso_xT {c a : Nat} (h1 : 1 ≤ c) (h2 : c ≤ ds.size) (h3 : a ≤ ds.dim) :
    presIso hs hdim hf (xT ds c a) = PresentedGroup.mk _ (den (e2wGet f.edgeToWord (c, a))) := by
  unfold xT
  rw [presIso_apply, phi_xg, valM_of_facet ⟨h1, h2, h3⟩]
  rfl

/-- crossing facet `(d,i)` moves row `k` to `k · edge_to_word(d,i)` -/
theorem tau_rhoT {i d : Nat} (hi : i ≤ ds.dim) (h1 : 1 ≤ d) (h2 : d ≤ ds.size) (k : Fin tab.size)
    {r : Nat} (htr : SpecC11.traceWord tab f.nrGenerators k.val (e2wGet f.edgeToWord (d, i)) = some r) :
    (tau (rhoT hs hdim hf hv) d i k).val = r := by
  unfold tau rhoT
  rw [MonoidHom.comp_apply]
  show ((rhoM hv (presIso hs hdim hf (xT ds d i)))⁻¹ k).val = r
  rw [presIso_xT hs hdim hf h1 h2 hi]
  exact rhoM_trace hv _ k r htr

/-- the representation is transitive -/
theorem rhoT_transitive (k : Fin tab.size) : ∃ g, rhoT hs hdim hf hv g ⟨0, hv.pos⟩ = k := by
  obtain ⟨w, hw⟩ := hv.conn k.val k.isLt
  refine ⟨(presIso hs hdim hf).symm (PresentedGroup.mk _ (den w))⁻¹, ?_⟩
  unfold rhoT
  rw [MonoidHom.comp_apply]
  show rhoM hv (presIso hs hdim hf ((presIso hs hdim hf).symm (PresentedGroup.mk _ (den w))⁻¹)) ⟨0, hv.pos⟩ = k
  rw [MulEquiv.apply_symm_apply, map_inv]
  exact Fin.ext (rhoM_trace hv w ⟨0, hv.pos⟩ k.val hw)

variable {t : Cosets.Table} (hsh : Shows t tab f.nrGenerators)
include hsh

include hf in
/-- no `unwrap` of `trace_word` fails -/
theorem allTracesDefinedC_of_shows : allTracesDefinedC ds t f.edgeToWord = true := by
  have hlet := (fundamentalGroup_letters ds f hf).2.2.1
  unfold allTracesDefinedC
  simp only [List.all_eq_true, List.mem_range, Bool.or_eq_true]
  intro k hk i _ d0 _
  right
  obtain ⟨r, hr, _⟩ := traceC_shows hsh _ (hlet (d0 + 1, i)) k hk
  unfold sheetTraceC
  rw [hr]
  rfl

/-- the sheet map of `cover_for_table` agrees with the monodromy representation -/
theorem sheetMapC_agrees :
    Agrees (rhoT hs hdim hf hv) (sheetMapC t f.edgeToWord) := by
  have hlet := (fundamentalGroup_letters ds f hf).2.2.1
  intro k i d hk hi h1 h2
  have hk' : k < t.len := by rw [← hsh.1]; exact hk
  obtain ⟨r, hr, hsp, _⟩ := traceC_shows hsh _ (hlet (d, i)) k hk'
  have : sheetMapC t f.edgeToWord k i d = r := by
    unfold sheetMapC sheetTraceC
    rw [hr]
  rw [this]
  exact (tau_rhoT hs hdim hf hv hi h1 h2 ⟨k, hk⟩ hsp).symm

end rhoT

end DSymVerif.CoversP
