/-
C12 completeness, part 7: the model table `Table.ofView n u` of a valid Spec table `u` in
standard form satisfies the invariants of the search states, is complete, standard, and closed
under all expanded relators (via the action of the presented group).
-/
import DSymVerif.Proofs.CosetSound
import DSymVerif.Proofs.LowIndexStd2

namespace DSymVerif.CanonP
open DSymVerif DSymVerif.Cosets DSymVerif.SpecC11 DSymVerif.CosetP DSymVerif.RebaseP
open DSymVerif.LowIndexP DSymVerif.CosetInvP DSymVerif.CosetPartP

section
variable {u : Tab} {n : Nat} {rels : List (List Int)}

theorem ofView_len (n : Nat) (u : Tab) : (Table.ofView n u).len = u.size := by
  simp [Table.len, Table.ofView]

theorem ofView_allGens (n : Nat) (u : Tab) : (Table.ofView n u).allGens = allGensOf n := rfl

theorem ofView_clean (n : Nat) (u : Tab) : Clean (Table.ofView n u) := rfl

theorem entry_of_get_ofView (hv : Valid u n rels []) {c d : Nat} {g : Int} (hg : g ∈ allGensOf n)
    (h : (Table.ofView n u).get c g = .ok (some d)) : entry u n c g = some d := by
  by_cases hc : c < u.size
  · obtain ⟨d', hd'⟩ := hv.total c hc g (by rw [← allGensOf_eq_letters]; exact hg)
    rw [get_ofView hd'] at h
    simp only [Outcome.ok.injEq, Option.some.injEq] at h
    rw [← h]; exact hd'
  · rw [get_ge_len g (by rw [ofView_len]; omega)] at h
    cases h

theorem ofView_shape (hv : Valid u n rels []) : Shape (Table.ofView n u) := by
  refine ⟨wfp_new, by simp [Table.ofView, Part.new], by rw [ofView_len]; exact hv.pos, ?_, ?_⟩
  · intro c row hx
    simp only [Table.ofView, Array.getElem?_map, Option.map_eq_some_iff] at hx
    obtain ⟨r, _, rfl⟩ := hx
    show _ = n * 2 + 1
    simp
    omega
  · intro c g d hg h
    rw [ofView_len]
    exact (entry_some (entry_of_get_ofView hv hg h)).1

theorem ofView_tcq (hv : Valid u n rels []) (hstd : StdTab u n) : TCq (Table.ofView n u) [] := by
  refine ⟨ofView_shape hv, ?_, ?_, fun p hp => by cases hp⟩
  · intro x g d hg h
    have he := entry_of_get_ofView hv hg h
    exact ⟨x, get_ofView (hv.inv x g d he), fun _ _ => rfl⟩
  · intro m h0 hm
    rw [ofView_len] at hm
    obtain ⟨k, g, pre, post, hk, hs, he, _⟩ := hstd m h0 hm
    have hg : g ∈ letters n := by rw [hs]; simp
    have hg' : g ∈ allGensOf n := by rw [allGensOf_eq_letters]; exact hg
    refine ⟨-g, neg_mem_allGensOf hg', k, hk, ?_⟩
    rw [canon_ofView]
    exact get_ofView (hv.inv k g m he)

theorem ofView_complete (hv : Valid u n rels []) : AllComplete (Table.ofView n u) := by
  intro c hc _ g hg
  rw [ofView_len] at hc
  obtain ⟨d, hd⟩ := hv.total c hc g (by rw [← allGensOf_eq_letters]; exact hg)
  exact (get_some_iff _ c g).mp ⟨d, get_ofView hd⟩

theorem mtrace_ofView : ∀ (w : List Int) (r z : Nat), traceWord u n r w = some z →
    mtrace (Table.ofView n u) r w = some z
  | [], r, z, h => h
  | g :: w, r, z, h => by
    simp only [traceWord] at h
    cases he : entry u n r g with
    | none => simp [he] at h
    | some d =>
      simp only [he] at h
      simp only [mtrace, get_ofView he]
      exact mtrace_ofView w d z h

theorem ofView_cs (hstd : StdTab u n) : CS (Table.ofView n u) := by
  intro j h0 hj
  rw [ofView_len] at hj
  obtain ⟨k, g, pre, post, hk, hs, he, hb⟩ := hstd j h0 hj
  refine ⟨k, g, pre, post, hk, by rw [ofView_allGens, allGensOf_eq_letters]; exact hs, get_ofView he, ?_⟩
  intro k' g' hg' hbef
  obtain ⟨v, hv', hvj⟩ := hb k' g' (by rw [← allGensOf_eq_letters]; exact hg') hbef
  exact ⟨v, get_ofView hv', hvj⟩

/-- every expanded relator closes at every row of a valid table -/
theorem expanded_close (hv : Valid u n rels []) (hlet : ∀ w ∈ rels, ∀ x ∈ w, x ∈ allGensOf n)
    {v : List Int} (hmem : v ∈ expandedRelatorSet rels) (r : Nat) (hr : r < u.size) :
    traceWord u n r v = some r := by
  have hvl : ∀ g ∈ v, g ∈ letters n := by
    intro g hg
    rw [← allGensOf_eq_letters]
    exact expandedRelatorSet_letters (S := fun y => y ∈ allGensOf n) (fun y hy => neg_mem_allGensOf hy) hlet v hmem g hg
  obtain ⟨d, hd⟩ := traceWord_total hv v r hr hvl
  have hdl : d < u.size := traceWord_lt hr hd
  have h1 := actionHom_trace hv v ⟨r, hr⟩ ⟨d, hdl⟩ hd
  have h2 : (PresentedGroup.mk (relSet n rels)) (wordElt n v) = 1 := CosetSoundP.wbar_expanded hmem
  rw [h2, map_one] at h1
  have : d = r := by
    have := congrArg Fin.val h1
    simpa using this
  rw [this] at hd
  exact hd

end

end DSymVerif.CanonP
