/-
Helper lemmas for property C08, part 32: symbols that are not connected — what `orbifold_symbol`
does on a disjoint union, and the exact condition under which it answers.

`cappedChi s` = `euler_characteristic(s) + #trace_boundary(s)`: the Euler characteristic of the
surface of `s` with a disc glued into every boundary component.  It is additive over disjoint
unions, at most 2 on a connected symbol, and `orbifold_symbol` panics (`vec!["o"; x as usize]` with
`x = 2 − cappedChi < 0`) exactly when it exceeds 2.
-/
import DSymVerif.Proofs.Delaney2dUnionTrace
import DSymVerif.Proofs.Delaney2dLiftGenus
import DSymVerif.Proofs.CoversMonitors

namespace DSymVerif.D2
open DSymVerif.DS

/-- `euler_characteristic(ds) + trace_boundary(ds).len()` — the `chi` of `orbifold_symbol` -/
def cappedChi (s : Sym) : Int :=
  match traceBoundary s with
  | .ok bnds => eulerCharacteristic s + (bnds.length : Int)
  | _ => 0

/-- `2·handles` resp. `cross-caps` of an answer of `orbifold_symbol` -/
def eulerGenus (o : OrbSym) : Nat := if o.orientable then 2 * o.count else o.count

theorem cappedChi_eq {s : Sym} {bnds : List (List Nat)} (hb : traceBoundary s = .ok bnds) :
    cappedChi s = eulerCharacteristic s + (bnds.length : Int) := by
  unfold cappedChi; rw [hb]

/-- **the exact condition**: on a good 2D symbol (connected or not) `orbifold_symbol` either answers
    or panics; it answers exactly when `cappedChi ≤ 2`, and then with the cone census, the traced
    boundary components, orientable = weakly oriented and Euler genus `2 − cappedChi`. -/
theorem orbifoldSymbol_iff {s : Sym} (g : Good2d s) :
    ((∃ o, orbifoldSymbol s = .ok o) ↔ cappedChi s ≤ 2) ∧
    (orbifoldSymbol s = .panic ↔ 2 < cappedChi s) ∧
    (∀ o, orbifoldSymbol s = .ok o →
      o.cones = sortDescNat (conesOf (typesOf s.data)) ∧ traceBoundary s = .ok o.bnds ∧
      o.orientable = s.view.isWeaklyOriented ∧ (eulerGenus o : Int) = 2 - cappedChi s) := by
  obtain ⟨bnds, htb, _⟩ := traceBoundary_corners g.valid g.dim s.rep
  have htb' : traceBoundary s = .ok bnds := htb
  have hun := orbifoldSymbol_unfold' g htb'
  rw [cappedChi_eq htb']
  by_cases hneg : 2 - (eulerCharacteristic s + (bnds.length : Int)) < 0
  · rw [if_pos hneg] at hun
    refine ⟨⟨?_, ?_⟩, ⟨fun _ => by omega, fun _ => hun⟩, ?_⟩
    · rintro ⟨o, ho⟩; rw [hun] at ho; cases ho
    · intro h; omega
    · intro o ho; rw [hun] at ho; cases ho
  · rw [if_neg hneg] at hun
    refine ⟨⟨fun _ => by omega, fun _ => ⟨_, hun⟩⟩, ⟨?_, fun h => by omega⟩, ?_⟩
    · intro h; rw [hun] at h; cases h
    · intro o ho
      rw [hun] at ho
      have ho' := (Outcome.ok.inj ho).symm
      have hpar := parityMonitor_holds g hun
      refine ⟨by rw [ho'], by rw [ho']; exact htb', by rw [ho'], ?_⟩
      unfold parityMonitor at hpar
      rw [htb', hun] at hpar
      simp only [Bool.or_eq_true, Bool.not_eq_eq_eq_not, Bool.not_true, beq_iff_eq] at hpar
      rw [ho']
      unfold eulerGenus
      simp only
      by_cases hw : s.view.isWeaklyOriented = true
      · simp only [hw, if_true]
        have hp : (2 - (eulerCharacteristic s + (bnds.length : Int))) % 2 = 0 := by
          rcases hpar with hp | hp
          · rw [hw] at hp; cases hp
          · exact hp
        omega
      · simp only [hw, Bool.false_eq_true, if_false]
        omega

/-- a connected good 2D symbol has `cappedChi ≤ 2`, and `≤ 1` if it is not weakly oriented -/
theorem cappedChi_connected {s : Sym} (g : Good2d s) (hc : s.view.isConnected = true) :
    cappedChi s ≤ 2 ∧ (s.view.isWeaklyOriented = false → cappedChi s ≤ 1) := by
  obtain ⟨y, rep⟩ := s
  obtain ⟨bnds, htb, _⟩ := traceBoundary_corners g.valid g.dim rep
  rw [cappedChi_eq htb]
  have hc' : y.view.isConnected = true := hc
  cases hw : y.view.isWeaklyOriented with
  | true =>
    have := chi_plus_boundaries_le_two g.valid g.dim hw hc' rep htb
    exact ⟨this, fun h => by have h' : y.view.isWeaklyOriented = false := h; rw [hw] at h'; cases h'⟩
  | false =>
    have := chi_plus_boundaries_le_one g.valid g.dim hc' hw rep htb
    exact ⟨by omega, fun _ => this⟩

namespace IsUnion
variable {f g : Nat → Nat} {a b s : DSymData} (u : IsUnion f g a b s)
include u

/-- a union is complete iff both parts are -/
theorem complete_parts (hc : s.isCompletePartial = true) :
    a.isCompletePartial = true ∧ b.isCompletePartial = true := by
  constructor
  · apply complete_of_vN u.ea.va.toValidTables
    intro i d hi h1 h2
    have hi2 : i < 2 := by have := u.ea.dima; omega
    rw [← vN_adj_eq u.ea.va.toValidTables hi ⟨h1, h2⟩,
      ← u.ea.v (j := i) (k := i + 1) (by omega) (by omega) (by omega) h1 h2]
    exact adj_v_ne u.ea.vs hc (by have := u.ea.dims; omega) (u.ea.range d h1 h2)
  · apply complete_of_vN u.eb.va.toValidTables
    intro i d hi h1 h2
    have hi2 : i < 2 := by have := u.eb.dima; omega
    rw [← vN_adj_eq u.eb.va.toValidTables hi ⟨h1, h2⟩,
      ← u.eb.v (j := i) (k := i + 1) (by omega) (by omega) (by omega) h1 h2]
    exact adj_v_ne u.eb.vs hc (by have := u.eb.dims; omega) (u.eb.range d h1 h2)

theorem good_parts {rs : Rep} (gs : Good2d ⟨s, rs⟩) (ra rb : Rep) :
    Good2d ⟨a, ra⟩ ∧ Good2d ⟨b, rb⟩ :=
  ⟨⟨u.ea.va, u.ea.dima, (u.complete_parts gs.complete).1⟩,
   ⟨u.eb.va, u.eb.dima, (u.complete_parts gs.complete).2⟩⟩

/-- a union is weakly oriented iff both parts are -/
theorem weaklyOriented :
    s.view.isWeaklyOriented = (a.view.isWeaklyOriented && b.view.isWeaklyOriented) := by
  have hpa : a.view.PInvol := by rw [a.view_eq]; exact u.ea.va.set.pinvol
  have hpb : b.view.PInvol := by rw [b.view_eq]; exact u.eb.va.set.pinvol
  have hps : s.view.PInvol := by rw [s.view_eq]; exact u.ea.vs.set.pinvol
  have ia := (C02.isWeaklyOriented_iff_bipartite a.view hpa).1
  have ib := (C02.isWeaklyOriented_iff_bipartite b.view hpb).1
  have is' := (C02.isWeaklyOriented_iff_bipartite s.view hps).1
  have hda : a.view.dim = 2 := u.ea.dima
  have hdb : b.view.dim = 2 := u.eb.dima
  have hds : s.view.dim = 2 := u.ea.dims
  -- a colouring of `s` restricts to a part
  have restrict : ∀ {h : Nat → Nat} {p : DSymData}, Emb h p s →
      (∃ c : Nat → Bool, ∀ i d e, i ≤ s.view.dim → 1 ≤ d → d ≤ s.view.size → s.view.op i d = some e →
        e ≠ d → c e ≠ c d) →
      ∃ c : Nat → Bool, ∀ i d e, i ≤ p.view.dim → 1 ≤ d → d ≤ p.view.size → p.view.op i d = some e →
        e ≠ d → c e ≠ c d := by
    intro h p m
    rintro ⟨c, hc⟩
    refine ⟨fun d => c (h d), ?_⟩
    intro i d e hi h1 h2 hop hne
    have hdp : p.view.dim = 2 := m.dima
    rw [hdp] at hi
    have hop' : p.dset.opSimple i d = some e := hop
    have he := (opSimple_eq_some.1 hop').2.2.2
    subst he
    have hfd := m.range d h1 h2
    apply hc i (h d) _ (by rw [hds]; exact hi) hfd.1 hfd.2
    · show s.dset.opSimple i (h d) = some _
      exact opSimple_eq_some.2 ⟨by have := m.dims; show i ≤ s.dim; omega, hfd.1, hfd.2, m.op i d hi h1 h2⟩
    · intro e
      apply hne
      have hr := m.va.set.range i d (by have := m.dima; show i ≤ p.dim; omega) h1 h2
      exact m.inj _ _ hr.1 hr.2 h1 h2 e
  have key : s.view.isWeaklyOriented = true ↔
      (a.view.isWeaklyOriented = true ∧ b.view.isWeaklyOriented = true) := by
    rw [is', ia, ib]
    constructor
    · intro h
      exact ⟨restrict u.ea h, restrict u.eb h⟩
    · rintro ⟨⟨ca, hca⟩, ⟨cb, hcb⟩⟩
      classical
      let finv : Nat → Nat := fun x => if hx : ∃ d, 1 ≤ d ∧ d ≤ a.size ∧ f d = x then Classical.choose hx else 0
      let ginv : Nat → Nat := fun x => if hx : ∃ d, 1 ≤ d ∧ d ≤ b.size ∧ g d = x then Classical.choose hx else 0
      have hfinv : ∀ d, 1 ≤ d → d ≤ a.size → finv (f d) = d := by
        intro d h1 h2
        have hx : ∃ d', 1 ≤ d' ∧ d' ≤ a.size ∧ f d' = f d := ⟨d, h1, h2, rfl⟩
        simp only [finv, dif_pos hx]
        have := Classical.choose_spec hx
        exact u.ea.inj _ _ this.1 this.2.1 h1 h2 this.2.2
      have hginv : ∀ d, 1 ≤ d → d ≤ b.size → ginv (g d) = d := by
        intro d h1 h2
        have hx : ∃ d', 1 ≤ d' ∧ d' ≤ b.size ∧ g d' = g d := ⟨d, h1, h2, rfl⟩
        simp only [ginv, dif_pos hx]
        have := Classical.choose_spec hx
        exact u.eb.inj _ _ this.1 this.2.1 h1 h2 this.2.2
      let c : Nat → Bool := fun x =>
        if ∃ d, 1 ≤ d ∧ d ≤ a.size ∧ f d = x then ca (finv x) else cb (ginv x)
      have hcf : ∀ d, 1 ≤ d → d ≤ a.size → c (f d) = ca d := by
        intro d h1 h2
        have hx : ∃ d', 1 ≤ d' ∧ d' ≤ a.size ∧ f d' = f d := ⟨d, h1, h2, rfl⟩
        simp only [c, if_pos hx, hfinv d h1 h2]
      have hcg : ∀ d, 1 ≤ d → d ≤ b.size → c (g d) = cb d := by
        intro d h1 h2
        have hx : ¬ ∃ d', 1 ≤ d' ∧ d' ≤ a.size ∧ f d' = g d := by
          rintro ⟨d', h1', h2', e⟩
          exact u.disj d' d h1' h2' h1 h2 e
        simp only [c, if_neg hx, hginv d h1 h2]
      refine ⟨c, ?_⟩
      intro i x e hi h1 h2 hop hne
      rw [hds] at hi
      have hop' : s.dset.opSimple i x = some e := hop
      have he := (opSimple_eq_some.1 hop').2.2.2
      subst he
      rcases u.cover x h1 h2 with ⟨d, hd1, hd2, rfl⟩ | ⟨d, hd1, hd2, rfl⟩
      · rw [u.ea.op i d hi hd1 hd2] at hne ⊢
        have hr := u.ea.va.set.range i d (by have := u.ea.dima; show i ≤ a.dim; omega) hd1 hd2
        rw [hcf _ hr.1 hr.2, hcf d hd1 hd2]
        apply hca i d _ (by rw [hda]; exact hi) hd1 hd2
        · exact opSimple_eq_some.2 ⟨by have := u.ea.dima; show i ≤ a.dim; omega, hd1, hd2, rfl⟩
        · intro e; apply hne; rw [e]
      · rw [u.eb.op i d hi hd1 hd2] at hne ⊢
        have hr := u.eb.va.set.range i d (by have := u.eb.dima; show i ≤ b.dim; omega) hd1 hd2
        rw [hcg _ hr.1 hr.2, hcg d hd1 hd2]
        apply hcb i d _ (by rw [hdb]; exact hi) hd1 hd2
        · exact opSimple_eq_some.2 ⟨by have := u.eb.dima; show i ≤ b.dim; omega, hd1, hd2, rfl⟩
        · intro e; apply hne; rw [e]
  cases hs : s.view.isWeaklyOriented <;> cases ha : a.view.isWeaklyOriented <;>
    cases hb : b.view.isWeaklyOriented <;> simp_all

/-- the boundary components, traced by `trace_boundary`, of a union -/
theorem bnds (rs ra rb : Rep) :
    ∃ bndsS bndsA bndsB, traceBoundary ⟨s, rs⟩ = .ok bndsS ∧ traceBoundary ⟨a, ra⟩ = .ok bndsA ∧
      traceBoundary ⟨b, rb⟩ = .ok bndsB ∧ bndsS.length = bndsA.length + bndsB.length ∧
      (∀ (P : List Nat → Bool), (∀ x y, CycEq x y → P x = P y) →
        bndsS.countP P = bndsA.countP P + bndsB.countP P) ∧
      bndsS.flatten.Perm (bndsA.flatten ++ bndsB.flatten) := by
  obtain ⟨bndsS, startsS, htS, TS⟩ := traceRecord_exists u.ea.vs u.ea.dims rs
  obtain ⟨bndsA, startsA, htA, TA⟩ := traceRecord_exists u.ea.va u.ea.dima ra
  obtain ⟨bndsB, startsB, htB, TB⟩ := traceRecord_exists u.eb.va u.eb.dima rb
  obtain ⟨h1, h2, h3⟩ := bnds_union u TA TB TS
  exact ⟨bndsS, bndsA, bndsB, htS, htA, htB, h1, h2, h3⟩

/-- **`cappedChi` is additive over disjoint unions** -/
theorem cappedChi_add (rs ra rb : Rep) :
    cappedChi ⟨s, rs⟩ = cappedChi ⟨a, ra⟩ + cappedChi ⟨b, rb⟩ := by
  obtain ⟨bndsS, bndsA, bndsB, htS, htA, htB, hlen, _, _⟩ := u.bnds rs ra rb
  rw [cappedChi_eq htS, cappedChi_eq htA, cappedChi_eq htB, u.euler_add rs ra rb, hlen]
  push_cast
  ring

/-- the corner census of a union -/
theorem corners_perm :
    (cornersOf (typesOf s)).Perm (cornersOf (typesOf a) ++ cornersOf (typesOf b)) := by
  obtain ⟨bndsS, bndsA, bndsB, htS, htA, htB, _, _, hflat⟩ := u.bnds .partialSym .partialSym .partialSym
  obtain ⟨bS, hbS, hpS⟩ := traceBoundary_corners u.ea.vs u.ea.dims .partialSym
  obtain ⟨bA, hbA, hpA⟩ := traceBoundary_corners u.ea.va u.ea.dima .partialSym
  obtain ⟨bB, hbB, hpB⟩ := traceBoundary_corners u.eb.va u.eb.dima .partialSym
  rw [htS] at hbS; cases hbS
  rw [htA] at hbA; cases hbA
  rw [htB] at hbB; cases hbB
  exact hpS.symm.trans (hflat.trans (hpA.append hpB))

/-- the cone census of a union -/
theorem cones_perm :
    (conesOf (typesOf s)).Perm (conesOf (typesOf a) ++ conesOf (typesOf b)) := by
  rw [List.perm_iff_count]
  intro w
  rw [List.count_append]
  by_cases hw : 1 < w
  · have hF := u.total_add (fun v => if v = w then (1 : ℚ) else 0)
    rw [types_count _ w hw, types_count _ w hw, types_count _ w hw] at hF
    have hc := (List.perm_iff_count.1 u.corners_perm) w
    rw [List.count_append] at hc
    rw [hc] at hF
    push_cast at hF
    have h2 : ((conesOf (typesOf s)).count w : ℚ) =
        ((conesOf (typesOf a)).count w : ℚ) + ((conesOf (typesOf b)).count w : ℚ) := by linarith
    exact_mod_cast h2
  · have z : ∀ ts : List (Nat × Bool), (conesOf ts).count w = 0 := by
      intro ts
      apply List.count_eq_zero.2
      intro hmem
      have := mem_conesOf_gt hmem
      omega
    rw [z, z, z]

/-- **the curvature of a union is the sum of the curvatures of the parts** -/
theorem curvature_add {rs : Rep} (gs : Good2d ⟨s, rs⟩) (ra rb : Rep) :
    ∃ K Ka Kb, curvature ⟨s, rs⟩ = .ok K ∧ curvature ⟨a, ra⟩ = .ok Ka ∧ curvature ⟨b, rb⟩ = .ok Kb ∧
      K.toRat = Ka.toRat + Kb.toRat := by
  obtain ⟨ga, gb⟩ := u.good_parts gs ra rb
  refine ⟨_, _, _, curvature_eq_chamberSum gs, curvature_eq_chamberSum ga, curvature_eq_chamberSum gb, ?_⟩
  rw [Frac.toRat_ofRat, Frac.toRat_ofRat, Frac.toRat_ofRat]
  exact u.chamberSum_add

/-- **`orbifold_symbol` on a union**: it answers exactly when the capped Euler characteristics of
    the parts add up to at most 2; the answer then has the cones of both parts, their boundary
    components (as a multiset modulo rotation and reversal), is orientable iff both parts are
    weakly oriented, and its Euler genus is `2 − cappedChi a − cappedChi b`. -/
theorem orbifoldSymbol_union {rs : Rep} (gs : Good2d ⟨s, rs⟩) (ra rb : Rep) :
    ((∃ o, orbifoldSymbol ⟨s, rs⟩ = .ok o) ↔ cappedChi ⟨a, ra⟩ + cappedChi ⟨b, rb⟩ ≤ 2) ∧
    (orbifoldSymbol ⟨s, rs⟩ = .panic ↔ 2 < cappedChi ⟨a, ra⟩ + cappedChi ⟨b, rb⟩) ∧
    (∀ o, orbifoldSymbol ⟨s, rs⟩ = .ok o →
      o.cones.Perm (conesOf (typesOf a) ++ conesOf (typesOf b)) ∧
      (∃ bndsA bndsB, traceBoundary ⟨a, ra⟩ = .ok bndsA ∧ traceBoundary ⟨b, rb⟩ = .ok bndsB ∧
        o.bnds.length = bndsA.length + bndsB.length ∧
        (∀ (P : List Nat → Bool), (∀ x y, CycEq x y → P x = P y) →
          o.bnds.countP P = bndsA.countP P + bndsB.countP P)) ∧
      o.orientable = (a.view.isWeaklyOriented && b.view.isWeaklyOriented) ∧
      (eulerGenus o : Int) = 2 - (cappedChi ⟨a, ra⟩ + cappedChi ⟨b, rb⟩)) := by
  obtain ⟨h1, h2, h3⟩ := orbifoldSymbol_iff gs
  rw [u.cappedChi_add rs ra rb] at h1 h2 h3
  refine ⟨h1, h2, ?_⟩
  intro o ho
  obtain ⟨hc, hb, hor, hg⟩ := h3 o ho
  obtain ⟨bndsS, bndsA, bndsB, htS, htA, htB, hlen, hcount, _⟩ := u.bnds rs ra rb
  rw [htS] at hb
  cases hb
  refine ⟨?_, ⟨bndsA, bndsB, htA, htB, hlen, hcount⟩, ?_, hg⟩
  · rw [hc]; exact (sortDescNat_perm _).trans u.cones_perm
  · rw [hor]; exact u.weaklyOriented

end IsUnion

/-- the Euler genus of an answer is `2 − cappedChi` -/
theorem eulerGenus_of_answer {s : Sym} (g : Good2d s) {o : OrbSym} (ho : orbifoldSymbol s = .ok o) :
    cappedChi s = 2 - (eulerGenus o : Int) := by
  have := ((orbifoldSymbol_iff g).2.2 o ho).2.2.2
  omega

/-- **the genus monitor without connectedness**: on a good 2D symbol on which `orbifold_symbol`
    answers `o`, the monitor (even `2 − cappedChi` for orientable answers; closed without cross-cap
    ⇔ the D-symbol is oriented) fails exactly when the answer is a bare cone list — no boundary
    component, non-orientable, zero cross-caps — i.e. a sphere symbol printed for a symbol that is
    not weakly oriented.  (On a connected symbol this never happens: `cappedChi ≤ 1`.) -/
theorem genusMonitor_iff {s : Sym} (g : Good2d s) {o : OrbSym} (hos : orbifoldSymbol s = .ok o) :
    genusMonitor s = true ↔ ¬ (o.orientable = false ∧ o.bnds = [] ∧ o.count = 0) := by
  have hpar := parityMonitor_holds g hos
  obtain ⟨y, rep⟩ := s
  have hval : ValidSym y := g.valid
  have hdim : y.dim = 2 := g.dim
  obtain ⟨bnds, htb, _⟩ := traceBoundary_corners hval hdim rep
  have hos' := hos
  rw [orbifoldSymbol_unfold' g htb] at hos'
  split at hos'
  · cases hos'
  · rename_i hx
    have ho := (Outcome.ok.inj hos').symm
    unfold parityMonitor at hpar
    rw [htb, hos] at hpar
    simp only at hpar
    unfold genusMonitor
    rw [htb, hos]
    simp only [Bool.and_eq_true]
    have hview : (⟨y, rep⟩ : Sym).view = y.view := rfl
    rw [hview]
    have hor : o.orientable = y.view.isWeaklyOriented := by rw [ho]; rfl
    have hbn : o.bnds = bnds := by rw [ho]
    have hpin : y.view.PInvol := by rw [y.view_eq]; exact hval.set.pinvol
    subst hbn
    cases hori : y.view.isOriented with
    | true =>
      have hl := (((C02.isWeaklyOriented_iff_bipartite y.view hpin).2).1 hori).1
      have hlp : ∀ i d, i ≤ 2 → 1 ≤ d → d ≤ y.size → y.dset.opU i d ≠ d := by
        intro i d hi h1 h2 e
        have hop : y.view.op i d = some (y.dset.opU i d) :=
          opSimple_eq_some.2 ⟨by show i ≤ y.dim; omega, h1, h2, rfl⟩
        exact hl i d (by show i ≤ y.dim; omega) h1 h2 (by rw [hop, e])
      have hnil := traceBoundary_nil_of_loopless hval hdim rep hlp
      rw [htb] at hnil
      have hnil' : o.bnds = [] := Outcome.ok.inj hnil
      have hw : y.view.isWeaklyOriented = true := by
        unfold View.isOriented at hori
        simp only [Bool.and_eq_true] at hori
        exact hori.2
      constructor
      · rintro _ ⟨h1, _, _⟩
        rw [hor, hw] at h1; cases h1
      · intro _
        refine ⟨hpar, ?_⟩
        rw [hnil', hor, hw]; rfl
    | false =>
      cases hw : y.view.isWeaklyOriented with
      | true =>
        -- a mirror, hence a boundary component
        have hnl : ¬ y.view.isLoopless = true := by
          intro hl
          unfold View.isOriented at hori
          rw [hl, hw] at hori
          cases hori
        rw [(C02.isComplete_isLoopless_iff y.view y.dset).2.1] at hnl
        push Not at hnl
        obtain ⟨i, d, hi, h1, h2, hop⟩ := hnl
        have hi2 : i ≤ 2 := by have : i ≤ y.dim := hi; omega
        have hl : y.dset.opU i d = d := (opSimple_eq_some.1 hop).2.2.2
        have hne := traceBoundary_ne_nil_of_loop hval hdim rep hi2 ⟨h1, h2⟩ hl htb
        constructor
        · rintro _ ⟨h1, _, _⟩
          rw [hor, hw] at h1; cases h1
        · intro _
          refine ⟨hpar, ?_⟩
          cases hb : o.bnds with
          | nil => exact absurd hb hne
          | cons b bs => rfl
      | false =>
        rw [hor, hw]
        cases hb : o.bnds with
        | nil =>
          by_cases hcz : o.count = 0
          · constructor
            · rintro ⟨_, h2⟩
              rw [hcz] at h2
              simp at h2
            · intro h; exact absurd ⟨rfl, rfl, hcz⟩ h
          · constructor
            · rintro _ ⟨_, _, h3⟩; exact hcz h3
            · intro _
              refine ⟨by simp, ?_⟩
              simp [hcz]
        | cons b bs =>
          constructor
          · rintro _ ⟨_, h2, _⟩; cases h2
          · intro _
            exact ⟨by simp, rfl⟩

/-! ### a decidable check of `IsUnion` for concrete symbols -/

def embB (f : Nat → Nat) (a s : DSymData) : Bool :=
  Covers.validSymB a && Covers.validSymB s && a.dim == 2 && s.dim == 2 &&
  ((List.range a.size).all fun d0 =>
    let d := d0 + 1
    1 ≤ f d && f d ≤ s.size &&
    ((List.range a.size).all fun e0 => d0 == e0 || f d != f (e0 + 1)) &&
    ((List.range 3).all fun i => s.dset.opU i (f d) == f (a.dset.opU i d)) &&
    ((List.range 2).all fun i => s.vAdj i (f d) == a.vAdj i d))

theorem embB_sound {f : Nat → Nat} {a s : DSymData} (h : embB f a s = true) : Emb f a s := by
  unfold embB at h
  simp only [Bool.and_eq_true, beq_iff_eq, List.all_eq_true, List.mem_range, Bool.or_eq_true,
    bne_iff_ne, decide_eq_true_eq] at h
  obtain ⟨⟨⟨⟨hva, hvs⟩, hda⟩, hds⟩, hall⟩ := h
  have hpt : ∀ d, 1 ≤ d → d ≤ a.size → _ := fun d h1 h2 => by
    have := hall (d - 1) (by omega)
    rwa [Nat.sub_add_cancel h1] at this
  refine ⟨Covers.validSymB_sound hva, Covers.validSymB_sound hvs, hda, hds, ?_, ?_, ?_, ?_⟩
  · intro d h1 h2
    exact ⟨(hpt d h1 h2).1.1.1.1, (hpt d h1 h2).1.1.1.2⟩
  · intro d e h1 h2 h3 h4 hfe
    have := (hpt d h1 h2).1.1.2 (e - 1) (by omega)
    rw [Nat.sub_add_cancel h3] at this
    rcases this with h | h
    · omega
    · exact absurd hfe h
  · intro i d hi h1 h2
    exact (hpt d h1 h2).1.2 i (by omega)
  · intro i d hi h1 h2
    exact (hpt d h1 h2).2 i hi

def isUnionB (f g : Nat → Nat) (a b s : DSymData) : Bool :=
  embB f a s && embB g b s &&
  ((List.range a.size).all fun d0 => (List.range b.size).all fun e0 => f (d0 + 1) != g (e0 + 1)) &&
  ((List.range s.size).all fun x0 =>
    ((List.range a.size).any fun d0 => f (d0 + 1) == x0 + 1) ||
    ((List.range b.size).any fun e0 => g (e0 + 1) == x0 + 1))

theorem isUnionB_sound {f g : Nat → Nat} {a b s : DSymData} (h : isUnionB f g a b s = true) :
    IsUnion f g a b s := by
  unfold isUnionB at h
  simp only [Bool.and_eq_true, List.all_eq_true, List.mem_range, bne_iff_ne, Bool.or_eq_true,
    List.any_eq_true, beq_iff_eq] at h
  obtain ⟨⟨⟨hea, heb⟩, hdisj⟩, hcov⟩ := h
  refine ⟨embB_sound hea, embB_sound heb, ?_, ?_⟩
  · intro d e h1 h2 h3 h4
    have := hdisj (d - 1) (by omega) (e - 1) (by omega)
    rwa [Nat.sub_add_cancel h1, Nat.sub_add_cancel h3] at this
  · intro x h1 h2
    have := hcov (x - 1) (by omega)
    rw [Nat.sub_add_cancel h1] at this
    rcases this with ⟨d0, hd0, e⟩ | ⟨e0, he0, e⟩
    · exact Or.inl ⟨d0 + 1, by omega, by omega, e⟩
    · exact Or.inr ⟨e0 + 1, by omega, by omega, e⟩

end DSymVerif.D2
