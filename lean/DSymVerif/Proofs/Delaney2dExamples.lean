/-
Small concrete symbols used as witnesses in the non-vacuity examples of Props/C08.lean.
-/
import DSymVerif.Proofs.Delaney2dSum

namespace DSymVerif.C08
open DSymVerif.DS DSymVerif.D2

/-- one chamber, all three operations fix it, v01 = 3, v12 = 6: the symbol `*632` -/
def exData : DSymData :=
  match ofTables 1 2 (fun _ _ => 1) (fun i _ => if i = 0 then 3 else 6) with
  | .ok y => y
  | _ => default

def ex632 : Sym := ⟨exData, .partialSym⟩
/-- v01 = 3, v12 = 3: `*332`, spherical -/
def ex332 : Sym :=
  ⟨match ofTables 1 2 (fun _ _ => 1) (fun _ _ => 3) with | .ok y => y | _ => default, .simpleSym⟩

theorem exData_size : exData.dset.size = 1 ∧ exData.dset.dim = 2 := by decide +kernel

theorem exData_valid : ValidSym exData := by
  obtain ⟨hs, hd⟩ := exData_size
  have hop : ∀ i, i ≤ 2 → exData.dset.opU i 1 = 1 := by
    intro i hi
    have : i = 0 ∨ i = 1 ∨ i = 2 := by omega
    rcases this with rfl | rfl | rfl <;> decide +kernel
  refine { set := ⟨by decide +kernel, ?_, ?_⟩, index_eq := by decide +kernel, rs_eq := by decide +kernel,
           vs_size := by decide +kernel, far := ?_ }
  · intro i d hi h1 h2
    rw [hs] at h2; rw [hd] at hi
    have : d = 1 := by omega
    subst this
    rw [hop i hi, hs]; omega
  · intro i d hi h1 h2
    rw [hs] at h2; rw [hd] at hi
    have : d = 1 := by omega
    subst this
    rw [hop i hi, hop i hi]
  · intro i j d hij hj h1 h2
    rw [hs] at h2; rw [hd] at hj
    have : d = 1 := by omega
    subst this
    rw [hop i (by omega), hop j hj, hop i (by omega)]

theorem ex632_good : Good2d ex632 := ⟨exData_valid, by decide +kernel, by decide +kernel⟩

end DSymVerif.C08

namespace DSymVerif.C08
open DSymVerif.DS DSymVerif.D2

/-- two chambers exchanged by all three operations, v01 = v12 = 3: the oriented symbol `332`…
    (a closed orientable witness) -/
def exOriData : DSymData :=
  match ofTables 2 2 (fun _ d => 3 - d) (fun _ _ => 3) with
  | .ok y => y
  | _ => default

def exOri : Sym := ⟨exOriData, .partialSym⟩

theorem exOriData_valid : ValidSym exOriData := by
  have hs : exOriData.dset.size = 2 ∧ exOriData.dset.dim = 2 := by decide +kernel
  have hop : ∀ i d, i ≤ 2 → 1 ≤ d → d ≤ 2 → exOriData.dset.opU i d = 3 - d := by
    intro i d hi h1 h2
    have : (i = 0 ∨ i = 1 ∨ i = 2) ∧ (d = 1 ∨ d = 2) := by omega
    rcases this with ⟨rfl | rfl | rfl, rfl | rfl⟩ <;> decide +kernel
  refine { set := ⟨by decide +kernel, ?_, ?_⟩, index_eq := by decide +kernel, rs_eq := by decide +kernel,
           vs_size := by decide +kernel, far := ?_ }
  · intro i d hi h1 h2
    rw [hs.1] at h2; rw [hs.2] at hi
    rw [hop i d hi h1 h2, hs.1]; omega
  · intro i d hi h1 h2
    rw [hs.1] at h2; rw [hs.2] at hi
    rw [hop i d hi h1 h2, hop i (3 - d) hi (by omega) (by omega)]; omega
  · intro i j d hij hj h1 h2
    rw [hs.1] at h2; rw [hs.2] at hj
    rw [hop i d (by omega) h1 h2, hop j d hj h1 h2, hop j (3 - d) hj (by omega) (by omega),
      hop i (3 - d) (by omega) (by omega) (by omega)]

theorem exOri_good : Good2d exOri := ⟨exOriData_valid, by decide +kernel, by decide +kernel⟩

end DSymVerif.C08
