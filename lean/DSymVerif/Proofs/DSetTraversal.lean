/-
Helper lemmas for property C02, part 7: the `Traversal` iterator — work-list invariant.
`travNext` is decomposed into micro steps (pop an entry; skip it if seen, else report);
`TInv` is the invariant relating the reported items, the `seen` set, the queues and the
remaining seeds.  It holds for every `View`, without any assumption on `op`.
-/
import DSymVerif.Proofs.DSetTodo

namespace DSymVerif.DS
open View

/-! ### micro steps -/

inductive Micro where
  | done
  | skip (st : TravState)
  | report (item : TravItem) (st : TravState)

/-- the pop at the head of the inner `loop`: first non-empty queue, else next seed -/
def travPop (st : TravState) : Option (Option Nat × Nat × TravState) :=
  match todoPop st.todo with
  | some (i, d, todo') => some (some i, d, { st with todo := todo' })
  | none =>
    match st.seeds with
    | d :: rest => some (none, d, { st with seeds := rest })
    | [] => none

def travTarget (s : View) (mi : Option Nat) (d : Nat) : Nat :=
  match mi with
  | some i => (s.op i d).getD d
  | none => d

def View.micro (s : View) (indices : List Nat) (st : TravState) : Micro :=
  match travPop st with
  | none => .done
  | some (mi, d, st1) =>
    if st1.seen.contains (d, mi) then .skip st1
    else .report (mi, d, travTarget s mi d)
      { st1 with seen := (d, mi) :: (travTarget s mi d, mi) :: (travTarget s mi d, none) :: st1.seen,
                 todo := pushAll st1.todo indices (travTarget s mi d) }

theorem travNext_zero (s : View) (indices : List Nat) (st : TravState) : travNext s indices 0 st = none := rfl

theorem travNext_succ (s : View) (indices : List Nat) (fuel : Nat) (st : TravState) :
    travNext s indices (fuel + 1) st =
      match s.micro indices st with
      | .done => none
      | .skip st' => travNext s indices fuel st'
      | .report item st' => some (item, st') := by
  rw [travNext]
  unfold View.micro travPop
  cases h1 : todoPop st.todo with
  | some x =>
    obtain ⟨i, d, todo'⟩ := x
    simp only
    split <;> rfl
  | none =>
    cases h2 : st.seeds with
    | nil => rfl
    | cons d rest =>
      simp only
      split <;> rfl

/-- all queues empty and no seeds left -/
def Exhausted (st : TravState) : Prop := (∀ p ∈ st.todo, p.2 = []) ∧ st.seeds = []

/-- number of entries the inner loop can still consume -/
def pending (st : TravState) : Nat := todoTotal st.todo + st.seeds.length

/-- what one pop does to the state -/
structure PopRes (st : TravState) (mi : Option Nat) (d : Nat) (st1 : TravState) : Prop where
  seen : st1.seen = st.seen
  keys : todoKeys st1.todo = todoKeys st.todo
  total : pending st1 + 1 = pending st
  back : ∀ k q', (k, q') ∈ st1.todo → ∃ q, (k, q) ∈ st.todo ∧ ∀ e ∈ q', e ∈ q
  fwd : ∀ k q, (k, q) ∈ st.todo → ∀ e ∈ q, (mi = some k ∧ e = d) ∨ ∃ q', (k, q') ∈ st1.todo ∧ e ∈ q'
  src : ∀ i, mi = some i → (∃ q, (i, q) ∈ st.todo ∧ d ∈ q) ∧ st1.seeds = st.seeds
  seed : mi = none → st.seeds = d :: st1.seeds ∧ st1.todo = st.todo ∧ ∀ p ∈ st.todo, p.2 = []

theorem travPop_none {st : TravState} (h : travPop st = none) : Exhausted st := by
  unfold travPop at h
  cases h1 : todoPop st.todo with
  | some x => rw [h1] at h; obtain ⟨i, d, t'⟩ := x; cases h
  | none =>
    rw [h1] at h
    cases h2 : st.seeds with
    | nil => exact ⟨(todoPop_none _).1 h1, h2⟩
    | cons d rest => rw [h2] at h; cases h

theorem travPop_some {st : TravState} {mi : Option Nat} {d : Nat} {st1 : TravState}
    (h : travPop st = some (mi, d, st1)) : PopRes st mi d st1 := by
  unfold travPop at h
  cases h1 : todoPop st.todo with
  | some x =>
    obtain ⟨i, d', t'⟩ := x
    rw [h1] at h
    simp only [Option.some.injEq, Prod.mk.injEq] at h
    obtain ⟨rfl, rfl, rfl⟩ := h
    have ps := todoPop_some _ _ _ _ h1
    refine ⟨rfl, ps.keys, ?_, ps.back, ?_, ?_, ?_⟩
    · show todoTotal t' + st.seeds.length + 1 = todoTotal st.todo + st.seeds.length
      have := ps.total; omega
    · intro k q hm e he
      rcases ps.fwd k q hm e he with ⟨rfl, rfl⟩ | h2
      · exact Or.inl ⟨rfl, rfl⟩
      · exact Or.inr h2
    · intro i' hi'; cases hi'; exact ⟨ps.mem, rfl⟩
    · intro hc; cases hc
  | none =>
    rw [h1] at h
    cases h2 : st.seeds with
    | nil => rw [h2] at h; cases h
    | cons d' rest =>
      rw [h2] at h
      simp only [Option.some.injEq, Prod.mk.injEq] at h
      obtain ⟨rfl, rfl, rfl⟩ := h
      refine ⟨rfl, rfl, ?_, fun k q' hm => ⟨q', hm, fun e he => he⟩, ?_, ?_, ?_⟩
      · show todoTotal st.todo + rest.length + 1 = todoTotal st.todo + st.seeds.length
        rw [h2]; simp only [List.length_cons]; omega
      · intro k q hm e he; exact Or.inr ⟨q, hm, he⟩
      · intro i hi; cases hi
      · intro _; exact ⟨h2, rfl, (todoPop_none _).1 h1⟩

/-! ### reported items -/

/-- the `seen` entries one report inserts -/
def seenOf (t : TravItem) : List (Nat × Option Nat) := [(t.2.1, t.1), (t.2.2, t.1), (t.2.2, none)]

def SeenIn (acc : List TravItem) (p : Nat × Option Nat) : Prop := ∃ t ∈ acc, p ∈ seenOf t
/-- `e` was reported as the target (third component) of some item -/
def IsTarget (acc : List TravItem) (e : Nat) : Prop := ∃ t ∈ acc, t.2.2 = e
/-- an item with index `k` touching chamber `e` has been reported -/
def EdgeDone (acc : List TravItem) (k e : Nat) : Prop := ∃ w ∈ acc, w.1 = some k ∧ (w.2.1 = e ∨ w.2.2 = e)

theorem SeenIn.mono {acc : List TravItem} {p : Nat × Option Nat} (t : TravItem) (h : SeenIn acc p) :
    SeenIn (t :: acc) p := by
  obtain ⟨u, hu, hp⟩ := h; exact ⟨u, List.mem_cons_of_mem _ hu, hp⟩

theorem IsTarget.mono {acc : List TravItem} {e : Nat} (t : TravItem) (h : IsTarget acc e) :
    IsTarget (t :: acc) e := by
  obtain ⟨u, hu, hp⟩ := h; exact ⟨u, List.mem_cons_of_mem _ hu, hp⟩

theorem EdgeDone.mono {acc : List TravItem} {k e : Nat} (t : TravItem) (h : EdgeDone acc k e) :
    EdgeDone (t :: acc) k e := by
  obtain ⟨u, hu, hp⟩ := h; exact ⟨u, List.mem_cons_of_mem _ hu, hp⟩

theorem seenIn_some_iff (acc : List TravItem) (e k : Nat) : SeenIn acc (e, some k) ↔ EdgeDone acc k e := by
  constructor
  · rintro ⟨t, ht, hp⟩
    simp only [seenOf, List.mem_cons, Prod.mk.injEq, List.not_mem_nil, or_false] at hp
    rcases hp with ⟨h1, h2⟩ | ⟨h1, h2⟩ | ⟨_, h2⟩
    · exact ⟨t, ht, h2.symm, Or.inl h1.symm⟩
    · exact ⟨t, ht, h2.symm, Or.inr h1.symm⟩
    · cases h2
  · rintro ⟨t, ht, h1, h2 | h2⟩
    · exact ⟨t, ht, by simp [seenOf, h1, h2]⟩
    · exact ⟨t, ht, by simp [seenOf, h1, h2]⟩

/-- the facts known about an item at the moment it is reported, `pre` = earlier items -/
structure ItemOK (s : View) (indices seeds : List Nat) (pre : List TravItem) (t : TravItem) : Prop where
  fresh : ¬ SeenIn pre (t.2.1, t.1)
  edge : ∀ i, t.1 = some i → i ∈ indices ∧ t.2.2 = (s.op i t.2.1).getD t.2.1 ∧ IsTarget pre t.2.1
  start : t.1 = none → t.2.2 = t.2.1 ∧ t.2.1 ∈ seeds ∧
    (∀ e, IsTarget pre e → ∀ k ∈ indices, EdgeDone pre k e) ∧
    ∃ l1 l2, seeds = l1 ++ t.2.1 :: l2 ∧ ∀ x ∈ l1, IsTarget pre x

def AllOK (s : View) (indices seeds : List Nat) : List TravItem → Prop
  | [] => True
  | t :: acc => ItemOK s indices seeds acc t ∧ AllOK s indices seeds acc

theorem seenIn_none_iff {s : View} {indices seeds : List Nat} :
    ∀ {acc : List TravItem}, AllOK s indices seeds acc → ∀ e, SeenIn acc (e, none) ↔ IsTarget acc e
  | [], _, e => by
    constructor
    · rintro ⟨t, ht, _⟩; cases ht
    · rintro ⟨t, ht, _⟩; cases ht
  | t :: acc, h, e => by
    have ih := seenIn_none_iff h.2 e
    constructor
    · rintro ⟨u, hu, hp⟩
      rcases List.mem_cons.1 hu with rfl | hu
      · simp only [seenOf, List.mem_cons, Prod.mk.injEq, List.not_mem_nil, or_false] at hp
        rcases hp with ⟨h1, h2⟩ | ⟨h1, _⟩ | ⟨h1, _⟩
        · have := (h.1.start h2.symm).1
          exact ⟨u, by simp, by rw [this, h1]⟩
        · exact ⟨u, by simp, h1.symm⟩
        · exact ⟨u, by simp, h1.symm⟩
      · exact (ih.1 ⟨u, hu, hp⟩).mono t
    · rintro ⟨u, hu, hp⟩
      exact ⟨u, hu, by simp [seenOf, hp]⟩

/-! ### the invariant -/

structure TInv (s : View) (indices seeds : List Nat) (acc : List TravItem) (st : TravState) : Prop where
  seen_iff : ∀ p, p ∈ st.seen ↔ SeenIn acc p
  keys_nodup : (todoKeys st.todo).Nodup
  keys_iff : ∀ k, k ∈ todoKeys st.todo ↔ k ∈ indices
  queued : ∀ k q, (k, q) ∈ st.todo → ∀ e ∈ q, IsTarget acc e
  seeds_suffix : ∃ pre, seeds = pre ++ st.seeds ∧ ∀ d ∈ pre, SeenIn acc (d, none)
  allOK : AllOK s indices seeds acc
  frontier : ∀ e, IsTarget acc e → ∀ k ∈ indices, EdgeDone acc k e ∨ ∃ q, (k, q) ∈ st.todo ∧ e ∈ q
  pending_le : pending st ≤ acc.length * indices.length + seeds.length

theorem mem_todoKeys {t : Todo} {k : Nat} : k ∈ todoKeys t ↔ ∃ q, (k, q) ∈ t := by
  unfold todoKeys
  constructor
  · intro h
    obtain ⟨⟨k', q⟩, hm, rfl⟩ := List.mem_map.1 h
    exact ⟨q, hm⟩
  · rintro ⟨q, hm⟩
    exact List.mem_map.2 ⟨(k, q), hm, rfl⟩

theorem TInv.init (s : View) (indices seeds : List Nat) :
    TInv s indices seeds [] { seeds := seeds, seen := [], todo := todoInit indices } := by
  refine ⟨?_, todoInit_nodup indices, todoInit_mem indices, ?_, ⟨[], rfl, fun d hd => by cases hd⟩, trivial, ?_, ?_⟩
  · intro p
    constructor
    · intro h; cases h
    · rintro ⟨t, ht, _⟩; cases ht
  · intro k q hm e he
    have := todoInit_empty indices (k, q) hm
    simp only at this; rw [this] at he; cases he
  · rintro e ⟨t, ht, _⟩; cases ht
  · show todoTotal (todoInit indices) + seeds.length ≤ _
    rw [todoTotal_of_empty _ (todoInit_empty indices)]; simp

theorem TInv.skip {s : View} {indices seeds : List Nat} {acc : List TravItem} {st st1 : TravState}
    {mi : Option Nat} {d : Nat} (inv : TInv s indices seeds acc st) (pr : PopRes st mi d st1)
    (hseen : (d, mi) ∈ st1.seen) : TInv s indices seeds acc st1 := by
  have hs : SeenIn acc (d, mi) := (inv.seen_iff _).1 (by rw [← pr.seen]; exact hseen)
  refine ⟨by rw [pr.seen]; exact inv.seen_iff, by rw [pr.keys]; exact inv.keys_nodup,
    by rw [pr.keys]; exact inv.keys_iff, ?_, ?_, inv.allOK, ?_, ?_⟩
  · intro k q' hm e he
    obtain ⟨q, hq, hsub⟩ := pr.back k q' hm
    exact inv.queued k q hq e (hsub e he)
  · obtain ⟨pre, hpre, hall⟩ := inv.seeds_suffix
    cases hmi : mi with
    | some i => rw [(pr.src i hmi).2]; exact ⟨pre, hpre, hall⟩
    | none =>
      obtain ⟨h1, _, _⟩ := pr.seed hmi
      refine ⟨pre ++ [d], by rw [hpre, h1]; simp, ?_⟩
      intro x hx
      rcases List.mem_append.1 hx with hx | hx
      · exact hall x hx
      · simp only [List.mem_singleton] at hx; rw [hx, ← hmi]; exact hs
  · intro e he k hk
    rcases inv.frontier e he k hk with h1 | ⟨q, hq, heq⟩
    · exact Or.inl h1
    · rcases pr.fwd k q hq e heq with ⟨h2, h3⟩ | h2
      · left; rw [h3]; exact (seenIn_some_iff acc d k).1 (h2 ▸ hs)
      · exact Or.inr h2
  · have := pr.total; have := inv.pending_le; omega

theorem TInv.report {s : View} {indices seeds : List Nat} {acc : List TravItem} {st st1 : TravState}
    {mi : Option Nat} {d : Nat} (inv : TInv s indices seeds acc st) (pr : PopRes st mi d st1)
    (hseen : (d, mi) ∉ st1.seen) :
    TInv s indices seeds ((mi, d, travTarget s mi d) :: acc)
      { st1 with seen := (d, mi) :: (travTarget s mi d, mi) :: (travTarget s mi d, none) :: st1.seen,
                 todo := pushAll st1.todo indices (travTarget s mi d) } := by
  have hs : ¬ SeenIn acc (d, mi) := fun h => hseen (by rw [pr.seen]; exact (inv.seen_iff _).2 h)
  have hkeys1 : ∀ k, k ∈ indices → ∃ q, (k, q) ∈ st1.todo := by
    intro k hk
    have : k ∈ todoKeys st1.todo := by rw [pr.keys]; exact (inv.keys_iff k).2 hk
    exact mem_todoKeys.1 this
  refine ⟨?_, ?_, ?_, ?_, ?_, ⟨⟨hs, ?_, ?_⟩, inv.allOK⟩, ?_, ?_⟩
  · intro p
    show p ∈ (d, mi) :: (travTarget s mi d, mi) :: (travTarget s mi d, none) :: st1.seen ↔ _
    rw [pr.seen]
    constructor
    · intro h
      simp only [List.mem_cons] at h
      rcases h with h | h | h | h
      · exact ⟨_, List.mem_cons_self, by simp [seenOf, h]⟩
      · exact ⟨_, List.mem_cons_self, by simp [seenOf, h]⟩
      · exact ⟨_, List.mem_cons_self, by simp [seenOf, h]⟩
      · exact ((inv.seen_iff p).1 h).mono _
    · rintro ⟨t, ht, hp⟩
      rcases List.mem_cons.1 ht with rfl | ht
      · simp only [seenOf, List.mem_cons, List.not_mem_nil, or_false] at hp
        simp only [List.mem_cons]
        rcases hp with h | h | h
        · exact Or.inl h
        · exact Or.inr (Or.inl h)
        · exact Or.inr (Or.inr (Or.inl h))
      · simp only [List.mem_cons]
        exact Or.inr (Or.inr (Or.inr ((inv.seen_iff p).2 ⟨t, ht, hp⟩)))
  · show (todoKeys (pushAll st1.todo indices _)).Nodup
    rw [pushAll_keys, pr.keys]; exact inv.keys_nodup
  · intro k
    show k ∈ todoKeys (pushAll st1.todo indices _) ↔ _
    rw [pushAll_keys, pr.keys]; exact inv.keys_iff k
  · intro k q' hm e he
    obtain ⟨q1, hq1, hsub1⟩ := pushAll_back indices st1.todo _ k q' hm
    rcases hsub1 e he with h1 | h1
    · obtain ⟨q, hq, hsub⟩ := pr.back k q1 hq1
      exact (inv.queued k q hq e (hsub e h1)).mono _
    · exact ⟨_, List.mem_cons_self, h1.symm⟩
  · obtain ⟨pre, hpre, hall⟩ := inv.seeds_suffix
    show ∃ pre, seeds = pre ++ st1.seeds ∧ _
    cases hmi : mi with
    | some i => rw [(pr.src i hmi).2]; exact ⟨pre, hpre, fun x hx => (hall x hx).mono _⟩
    | none =>
      obtain ⟨h1, _, _⟩ := pr.seed hmi
      refine ⟨pre ++ [d], by rw [hpre, h1]; simp, ?_⟩
      intro x hx
      rcases List.mem_append.1 hx with hx | hx
      · exact (hall x hx).mono _
      · simp only [List.mem_singleton] at hx
        exact ⟨_, List.mem_cons_self, by simp [seenOf, hx]⟩
  · intro i hi
    have hi : mi = some i := hi
    obtain ⟨⟨q, hq, hd⟩, _⟩ := pr.src i hi
    refine ⟨(inv.keys_iff i).1 (mem_todoKeys.2 ⟨q, hq⟩), ?_, inv.queued i q hq d hd⟩
    show travTarget s mi d = _
    rw [hi]; rfl
  · intro hmi
    have hmi : mi = none := hmi
    obtain ⟨h1, h2, h3⟩ := pr.seed hmi
    refine ⟨by show travTarget s mi d = d; rw [hmi]; rfl, ?_, ?_, ?_⟩
    · obtain ⟨pre, hpre, _⟩ := inv.seeds_suffix
      show d ∈ seeds
      rw [hpre, h1]; simp
    · intro e he k hk
      rcases inv.frontier e he k hk with h4 | ⟨q, hq, heq⟩
      · exact h4
      · have := h3 (k, q) hq
        simp only at this; rw [this] at heq; cases heq
    · obtain ⟨pre, hpre, hall⟩ := inv.seeds_suffix
      exact ⟨pre, st1.seeds, by rw [hpre, h1], fun x hx => (seenIn_none_iff inv.allOK x).1 (hall x hx)⟩
  · intro e he k hk
    show _ ∨ ∃ q, (k, q) ∈ pushAll st1.todo indices _ ∧ e ∈ q
    obtain ⟨t, ht, hte⟩ := he
    rcases List.mem_cons.1 ht with rfl | ht
    · obtain ⟨q1, hq1⟩ := hkeys1 k hk
      obtain ⟨q', hq', _, hdi⟩ := pushAll_fwd indices st1.todo (travTarget s mi d) k q1 hq1
      exact Or.inr ⟨q', hq', by rw [← hte]; exact hdi hk⟩
    · rcases inv.frontier e ⟨t, ht, hte⟩ k hk with h4 | ⟨q, hq, heq⟩
      · exact Or.inl (h4.mono _)
      · rcases pr.fwd k q hq e heq with ⟨h5, h6⟩ | ⟨q1, hq1, he1⟩
        · exact Or.inl ⟨_, List.mem_cons_self, h5, Or.inl h6.symm⟩
        · obtain ⟨q', hq', hsub, _⟩ := pushAll_fwd indices st1.todo (travTarget s mi d) k q1 hq1
          exact Or.inr ⟨q', hq', hsub e he1⟩
  · show todoTotal (pushAll st1.todo indices _) + st1.seeds.length ≤ (acc.length + 1) * indices.length + seeds.length
    have h1 := pushAll_total indices st1.todo (travTarget s mi d) (by rw [pr.keys]; exact inv.keys_nodup)
    have h2 := pr.total
    have h3 := inv.pending_le
    unfold pending at h2 h3
    rw [Nat.add_mul]; omega

/-! ### `travNext`, `travCollect` -/

theorem micro_cases (s : View) (indices : List Nat) (st : TravState) :
    (s.micro indices st = .done ∧ Exhausted st) ∨
    (∃ mi d st1, PopRes st mi d st1 ∧ (d, mi) ∈ st1.seen ∧ s.micro indices st = .skip st1) ∨
    (∃ mi d st1, PopRes st mi d st1 ∧ (d, mi) ∉ st1.seen ∧
      s.micro indices st = .report (mi, d, travTarget s mi d)
        { st1 with seen := (d, mi) :: (travTarget s mi d, mi) :: (travTarget s mi d, none) :: st1.seen,
                   todo := pushAll st1.todo indices (travTarget s mi d) }) := by
  unfold View.micro
  cases h : travPop st with
  | none => exact Or.inl ⟨rfl, travPop_none h⟩
  | some x =>
    obtain ⟨mi, d, st1⟩ := x
    have pr := travPop_some h
    simp only
    by_cases hc : st1.seen.contains (d, mi) = true
    · rw [if_pos hc]
      exact Or.inr (Or.inl ⟨mi, d, st1, pr, by simpa using hc, rfl⟩)
    · rw [if_neg hc]
      exact Or.inr (Or.inr ⟨mi, d, st1, pr, by simpa using hc, rfl⟩)

/-- a call of `next` that returns an item preserves the invariant (any fuel) -/
theorem travNext_some {s : View} {indices seeds : List Nat} {acc : List TravItem} :
    ∀ (fuel : Nat) (st : TravState) (item : TravItem) (st' : TravState), TInv s indices seeds acc st →
      travNext s indices fuel st = some (item, st') → TInv s indices seeds (item :: acc) st'
  | 0, _, _, _, _, h => by cases h
  | fuel + 1, st, item, st', inv, h => by
    rw [travNext_succ] at h
    rcases micro_cases s indices st with ⟨hm, _⟩ | ⟨mi, d, st1, pr, hs, hm⟩ | ⟨mi, d, st1, pr, hs, hm⟩
    · rw [hm] at h; cases h
    · rw [hm] at h
      exact travNext_some fuel st1 item st' (inv.skip pr hs) h
    · rw [hm] at h
      simp only [Option.some.injEq, Prod.mk.injEq] at h
      obtain ⟨rfl, rfl⟩ := h
      exact inv.report pr hs

/-- with enough fuel, `next` returns `None` only when nothing is left -/
theorem travNext_none {s : View} {indices seeds : List Nat} {acc : List TravItem} :
    ∀ (fuel : Nat) (st : TravState), TInv s indices seeds acc st → pending st < fuel →
      travNext s indices fuel st = none → ∃ st', TInv s indices seeds acc st' ∧ Exhausted st'
  | 0, _, _, hp, _ => by omega
  | fuel + 1, st, inv, hp, h => by
    rw [travNext_succ] at h
    rcases micro_cases s indices st with ⟨_, hex⟩ | ⟨mi, d, st1, pr, hs, hm⟩ | ⟨mi, d, st1, pr, hs, hm⟩
    · exact ⟨st, inv, hex⟩
    · rw [hm] at h
      exact travNext_none fuel st1 (inv.skip pr hs) (by have := pr.total; omega) h
    · rw [hm] at h; cases h

/-- beyond `pending st` the fuel of `next` is irrelevant -/
theorem travNext_fuel (s : View) (indices : List Nat) :
    ∀ (fuel : Nat) (st : TravState), pending st < fuel →
      travNext s indices (fuel + 1) st = travNext s indices fuel st
  | 0, _, hp => by omega
  | fuel + 1, st, hp => by
    rw [travNext_succ s indices (fuel + 1), travNext_succ s indices fuel]
    rcases micro_cases s indices st with ⟨hm, _⟩ | ⟨mi, d, st1, pr, hs, hm⟩ | ⟨mi, d, st1, pr, hs, hm⟩
    · rw [hm]
    · rw [hm]
      exact travNext_fuel s indices fuel st1 (by have := pr.total; omega)
    · rw [hm]

theorem travNext_fuel_le (s : View) (indices : List Nat) (st : TravState) (f : Nat) (hp : pending st < f) :
    ∀ f', f ≤ f' → travNext s indices f' st = travNext s indices f st := by
  intro f' hle
  induction f' with
  | zero => have : f = 0 := by omega
            subst this; rfl
  | succ n ih =>
    by_cases h : f = n + 1
    · subst h; rfl
    · rw [travNext_fuel s indices n st (by omega)]
      exact ih (by omega)

/-- the collected output always satisfies the invariant for some final state (any fuel) -/
theorem travCollect_inv {s : View} {indices seeds : List Nat} (f : Nat) :
    ∀ (n : Nat) (st : TravState) (acc : List TravItem), TInv s indices seeds acc st →
      ∃ acc' st', travCollect s indices f n st acc = acc'.reverse ∧ TInv s indices seeds acc' st'
  | 0, st, acc, inv => ⟨acc, st, rfl, inv⟩
  | n + 1, st, acc, inv => by
    rw [travCollect]
    cases h : travNext s indices f st with
    | none => exact ⟨acc, st, rfl, inv⟩
    | some x =>
      obtain ⟨item, st'⟩ := x
      exact travCollect_inv f n st' (item :: acc) (travNext_some f st item st' inv h)

/-- with enough fuel of both kinds the collection stops only when nothing is left -/
theorem travCollect_exhausted {s : View} {indices seeds : List Nat} {B : Nat}
    (hB : ∀ acc st, TInv s indices seeds acc st → acc.length ≤ B) {f : Nat}
    (hf : B * indices.length + seeds.length < f) :
    ∀ (n : Nat) (st : TravState) (acc : List TravItem), TInv s indices seeds acc st → B < acc.length + n →
      ∃ acc' st', travCollect s indices f n st acc = acc'.reverse ∧ TInv s indices seeds acc' st' ∧ Exhausted st'
  | 0, st, acc, inv, hn => by have := hB acc st inv; omega
  | n + 1, st, acc, inv, hn => by
    rw [travCollect]
    have hpend : pending st < f := by
      have h1 := inv.pending_le
      have h2 := hB acc st inv
      have : acc.length * indices.length ≤ B * indices.length := Nat.mul_le_mul_right _ h2
      omega
    cases h : travNext s indices f st with
    | none =>
      obtain ⟨st', inv', hex⟩ := travNext_none f st inv hpend h
      exact ⟨acc, st', rfl, inv', hex⟩
    | some x =>
      obtain ⟨item, st'⟩ := x
      exact travCollect_exhausted hB hf n st' (item :: acc) (travNext_some f st item st' inv h)
        (by simp only [List.length_cons]; omega)

/-- beyond the bounds both fuels of the collection are irrelevant -/
theorem travCollect_fuel {s : View} {indices seeds : List Nat} {B : Nat}
    (hB : ∀ acc st, TInv s indices seeds acc st → acc.length ≤ B) {f f' : Nat}
    (hf : B * indices.length + seeds.length < f) (hff : f ≤ f') :
    ∀ (n n' : Nat) (st : TravState) (acc : List TravItem), TInv s indices seeds acc st →
      B < acc.length + n → B < acc.length + n' →
      travCollect s indices f' n' st acc = travCollect s indices f n st acc
  | 0, _, st, acc, inv, hn, _ => by have := hB acc st inv; omega
  | _ + 1, 0, st, acc, inv, _, hn' => by have := hB acc st inv; omega
  | n + 1, n' + 1, st, acc, inv, hn, hn' => by
    rw [travCollect, travCollect]
    have hpend : pending st < f := by
      have h1 := inv.pending_le
      have h2 := hB acc st inv
      have : acc.length * indices.length ≤ B * indices.length := Nat.mul_le_mul_right _ h2
      omega
    rw [travNext_fuel_le s indices st f hpend f' hff]
    cases h : travNext s indices f st with
    | none => rfl
    | some x =>
      obtain ⟨item, st'⟩ := x
      exact travCollect_fuel hB hf hff n n' st' (item :: acc) (travNext_some f st item st' inv h)
        (by simp only [List.length_cons]; omega) (by simp only [List.length_cons]; omega)

end DSymVerif.DS
