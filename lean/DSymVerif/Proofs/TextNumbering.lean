/-
C01, part 8: how `collect_orbits` numbers the 2-orbits, in terms `FromStr` and `Display` can
share.  For every index i the chambers `orbit_reps_2d(i, i+1)` returns (those `Display`
prints a degree for) are exactly the chambers at which the orbit number `orbit_index[i][d]`
occurs for the first time in row i (those at which the repaired `FromStr` consumes a
degree), in the same ascending order; orbit numbers of later rows are larger than those of
earlier rows.
-/
import DSymVerif.Proofs.TextPeriod

namespace DSymVerif.Text
open DSymVerif DSymVerif.DS

/-- the orbit number of chamber x occurs at no smaller chamber of the row -/
def firstB (row : Array Nat) (x : Nat) : Bool :=
  (List.range' 1 (x - 1)).all fun x' => row.getD x' 0 != row.getD x 0

theorem firstB_iff (row : Array Nat) (x : Nat) :
    firstB row x = true ↔ ∀ x', 1 ≤ x' → x' < x → row.getD x' 0 ≠ row.getD x 0 := by
  unfold firstB
  simp only [List.all_eq_true, List.mem_range'_1, bne_iff_ne, ne_eq]
  constructor
  · intro h x' h1 h2; exact h x' ⟨h1, by omega⟩
  · intro h x' ⟨h1, h2⟩; exact h x' h1 (by omega)

theorem firstB_congr {row row' : Array Nat} {x : Nat}
    (h : ∀ x', 1 ≤ x' → x' ≤ x → row'.getD x' 0 = row.getD x' 0) : firstB row' x = firstB row x := by
  rw [Bool.eq_iff_iff, firstB_iff, firstB_iff]
  constructor
  · intro hh x' h1 h2
    rw [← h x' h1 (by omega), ← h x (by omega) (Nat.le_refl _)]
    exact hh x' h1 h2
  · intro hh x' h1 h2
    rw [h x' h1 (by omega), h x (by omega) (Nat.le_refl _)]
    exact hh x' h1 h2

/-! ### one step of each fold, described through `walkList` -/

theorem innerStep_seen {ds : DSetData} {i d0 : Nat} {st : CollectState}
    (h : st.seen.getD (d0 + 1) false = true) : innerStep ds i st d0 = st := by
  unfold innerStep; rw [if_pos h]

structure StepDesc (ds : DSetData) (i d0 : Nat) (st st' : CollectState) : Prop where
  rs_size : st'.rs.size = st.rs.size + 1
  seen_iff : ∀ x, st'.seen.getD x false = true ↔ st.seen.getD x false = true ∨
    (x ∈ walkList ds i (d0 + 1) (ds.size + 1) (d0 + 1) ∧ x < st.seen.size)
  row_eq : ∀ x, (st'.index.getD i #[]).getD x 0 =
    if x ∈ walkList ds i (d0 + 1) (ds.size + 1) (d0 + 1) ∧ x < (st.index.getD i #[]).size then st.rs.size
    else (st.index.getD i #[]).getD x 0
  others : ∀ j, j ≠ i → st'.index.getD j #[] = st.index.getD j #[]
  rs_get : ∀ k, st'.rs.getD k 0 =
    if k = st.rs.size then
      (collectLoop ds i (d0 + 1) st.rs.size (ds.size + 1) (d0 + 1) 0 false (st.index.getD i #[]) st.seen).1
    else st.rs.getD k 0

theorem innerStep_unseen {ds : DSetData} {i d0 : Nat} {st : CollectState}
    (h : ¬ st.seen.getD (d0 + 1) false = true) (hi : i < st.index.size) :
    StepDesc ds i d0 st (innerStep ds i st d0) := by
  unfold innerStep
  rw [if_neg h]
  refine ⟨?_, ?_, ?_, ?_, ?_⟩
  · dsimp only; rw [Array.size_push]
  · intro x; dsimp only; exact collectLoop_seen_iff ds i _ _ _ _ _ _ _ _ x
  · intro x
    dsimp only
    rw [getD_setG, if_pos ⟨rfl, hi⟩]
    exact collectLoop_ix_eq ds i _ _ _ _ _ _ _ _ x
  · intro j hj
    dsimp only
    rw [getD_setG, if_neg (by intro hh; exact hj hh.1.symm)]
  · intro k
    dsimp only
    exact getD_push _ _ _

/-- the step of the fold in `orbit_reps_2d(i, i + 1)` -/
def repsStep (v : View) (i : Nat) (acc : List Nat × Array Bool) (d0 : Nat) : List Nat × Array Bool :=
  if acc.2.getD (d0 + 1) false then acc
  else ((d0 + 1) :: acc.1,
    v.reps2dLoop i (i + 1) (d0 + 1) (v.size + 1) (d0 + 1) (acc.2.setIfInBounds (d0 + 1) true))

theorem orbitReps2d_eq (v : View) (i : Nat) :
    v.orbitReps2d i (i + 1) =
      ((List.range v.size).foldl (repsStep v i) ([], Array.replicate (v.size + 1) false)).1.reverse := by
  unfold View.orbitReps2d View.elements
  rw [List.foldl_map]
  rfl

/-! ### the joint invariant of the two folds in round i -/

structure Joint (ds : DSetData) (i N0 : Nat) (idx0 : Array (Array Nat)) (rs0 : Array Nat) (d0 : Nat)
    (acc : List Nat × Array Bool) (st : CollectState) : Prop where
  inner : InnerInv ds i d0 st
  accSize : acc.2.size = ds.size + 1
  ext : ∀ x, acc.2.getD x false = st.seen.getD x false
  clo : ∀ x, 1 ≤ x → x ≤ ds.size → st.seen.getD x false = true →
    st.seen.getD (ds.opU i x) false = true ∧ st.seen.getD (ds.opU (i + 1) x) false = true
  num : ∀ x, 1 ≤ x → x ≤ ds.size → st.seen.getD x false = true → N0 ≤ (st.index.getD i #[]).getD x 0
  lnk : ∀ x, 1 ≤ x → x ≤ ds.size → d0 < x → st.seen.getD x false = true →
    ∃ c, 1 ≤ c ∧ c ≤ d0 ∧ (st.index.getD i #[]).getD c 0 = (st.index.getD i #[]).getD x 0
  fst : acc.1.reverse = (List.range' 1 d0).filter fun x => firstB (st.index.getD i #[]) x
  N0_le : N0 ≤ st.rs.size
  others : ∀ j, j ≠ i → st.index.getD j #[] = idx0.getD j #[]
  per : ∀ x, 1 ≤ x → x ≤ ds.size → st.seen.getD x false = true →
    IsPeriod (stepF ds i) x (st.rs.getD ((st.index.getD i #[]).getD x 0) 0)
  rs_low : ∀ k, k < N0 → st.rs.getD k 0 = rs0.getD k 0

theorem joint_step {ds : DSetData} (h : ValidSet ds) {i : Nat} (hi : i < ds.dim) (v : View)
    (hvs : v.size = ds.size)
    (hv : ∀ j e, j ≤ ds.dim → 1 ≤ e → e ≤ ds.size → v.op j e = some (ds.opU j e))
    {N0 : Nat} {idx0 : Array (Array Nat)} {rs0 : Array Nat} {d0 : Nat} (hd0 : d0 < ds.size)
    {acc : List Nat × Array Bool} {st : CollectState} (J : Joint ds i N0 idx0 rs0 d0 acc st) :
    Joint ds i N0 idx0 rs0 (d0 + 1) (repsStep v i acc d0) (innerStep ds i st d0) := by
  have hinner' := innerStep_inv h hi hd0 J.inner
  have hrange : List.range' 1 (d0 + 1) = List.range' 1 d0 ++ [d0 + 1] := by
    rw [List.range'_concat]; simp [Nat.add_comm]
  by_cases hs : st.seen.getD (d0 + 1) false = true
  · -- chamber d0+1 was marked by an earlier walk
    have hsR : acc.2.getD (d0 + 1) false = true := by rw [J.ext]; exact hs
    have e1 : innerStep ds i st d0 = st := innerStep_seen hs
    have e2 : repsStep v i acc d0 = acc := by unfold repsStep; rw [if_pos hsR]
    rw [e1] at hinner' ⊢
    rw [e2]
    refine { J with inner := hinner', lnk := ?_, fst := ?_ }
    · intro x hx1 hx2 hx3 hx
      obtain ⟨c, hc1, hc2, hc⟩ := J.lnk x hx1 hx2 (by omega) hx
      exact ⟨c, hc1, by omega, hc⟩
    · rw [J.fst, hrange, List.filter_append]
      obtain ⟨c, hc1, hc2, hc⟩ := J.lnk (d0 + 1) (by omega) (by omega) (by omega) hs
      have : firstB (st.index.getD i #[]) (d0 + 1) = false := by
        rw [Bool.eq_false_iff]
        intro hf
        exact (firstB_iff _ _).mp hf c hc1 (by omega) hc
      rw [List.filter_cons_of_neg (by rw [this]; simp)]
      exact (List.append_nil _).symm
  · -- a new orbit starts at chamber d0+1
    have hsR : ¬ acc.2.getD (d0 + 1) false = true := by rw [J.ext]; exact hs
    have hiidx : i < st.index.size := by rw [J.inner.index_size]; exact hi
    have D := innerStep_unseen (ds := ds) (d0 := d0) hs hiidx
    have hrowsz : (st.index.getD i #[]).size = ds.size + 1 := J.inner.row_size i hi
    have hseensz : st.seen.size = ds.size + 1 := J.inner.seen_size
    obtain ⟨k, hk1, hk2, hk⟩ := exists_return (stepF_range h hi) (stepF_inj h hi)
      (show 1 ≤ d0 + 1 by omega) (show d0 + 1 ≤ ds.size by omega)
    have hWr := walkList_range h hi (d0 + 1) (ds.size + 1) (d0 + 1) (by omega) (by omega)
    have hdW := walkList_mem_return ds i (d0 + 1) (ds.size + 1) (d0 + 1) k hk1 (by omega) hk
    have hWclo := walkList_closed_start h hi (show 1 ≤ d0 + 1 by omega) (show d0 + 1 ≤ ds.size by omega)
      hk1 (show k ≤ ds.size + 1 by omega) hk
    -- the walk stays among the unmarked chambers
    have hWun : ∀ x ∈ walkList ds i (d0 + 1) (ds.size + 1) (d0 + 1), ¬ st.seen.getD x false = true := by
      have := walkList_subset (ds := ds) (i := i) (d0 + 1)
        (fun x => 1 ≤ x ∧ x ≤ ds.size ∧ ¬ st.seen.getD x false = true)
        (by
          intro x ⟨hx1, hx2, hx⟩
          have ra := h.range i x (by omega) hx1 hx2
          have rb := h.range (i + 1) x (by omega) hx1 hx2
          refine ⟨⟨ra.1, ra.2, ?_⟩, ⟨rb.1, rb.2, ?_⟩⟩
          · intro hh
            have := (J.clo _ ra.1 ra.2 hh).1
            rw [h.invol i x (by omega) hx1 hx2] at this
            exact hx this
          · intro hh
            have := (J.clo _ rb.1 rb.2 hh).2
            rw [h.invol (i + 1) x (by omega) hx1 hx2] at this
            exact hx this)
        (ds.size + 1) (d0 + 1) ⟨by omega, by omega, hs⟩
      intro x hx; exact (this x hx).2.2
    have hWgt : ∀ x ∈ walkList ds i (d0 + 1) (ds.size + 1) (d0 + 1), d0 < x := by
      intro x hx
      by_contra hle
      exact hWun x hx (J.inner.seen_low x (hWr x hx).1 (by omega))
    -- description of the new `orbit_reps_2d` state
    have e2 : repsStep v i acc d0 = ((d0 + 1) :: acc.1,
        v.reps2dLoop i (i + 1) (d0 + 1) (v.size + 1) (d0 + 1) (acc.2.setIfInBounds (d0 + 1) true)) := by
      unfold repsStep; rw [if_neg hsR]
    have hR : ∀ x, (repsStep v i acc d0).2.getD x false = true ↔
        st.seen.getD x false = true ∨ (x ∈ walkList ds i (d0 + 1) (ds.size + 1) (d0 + 1) ∧ x < st.seen.size) := by
      intro x
      rw [e2]
      dsimp only
      rw [hvs, reps2dLoop_seen_iff h hi v hv (d0 + 1) (ds.size + 1) (d0 + 1) _ x (by omega) (by omega),
        getDb_set, Array.size_setIfInBounds, J.accSize, hseensz]
      constructor
      · rintro (hx | hx)
        · split at hx
          · rename_i hc; exact Or.inr ⟨hc.1 ▸ hdW, by omega⟩
          · rw [J.ext] at hx; exact Or.inl hx
        · exact Or.inr hx
      · rintro (hx | hx)
        · left
          split
          · rfl
          · rw [J.ext]; exact hx
        · exact Or.inr hx
    -- the orbit length of the start chamber is what the walk counts
    obtain ⟨K, hKk, hKp⟩ := exists_firstHit (f := stepF ds i) hk1 hk
    have hsteps := collectLoop_steps ds i (d0 + 1) st.rs.size (ds.size + 1) (d0 + 1) 0 false
      (st.index.getD i #[]) st.seen K (by omega) hKp
    have hWper := walkList_period h hi (d0 + 1) K (ds.size + 1) (d0 + 1) (by omega) (by omega) hKp
    refine ⟨hinner', ?_, ?_, ?_, ?_, ?_, ?_, ?_, ?_, ?_, ?_⟩
    · rw [e2]; dsimp only; rw [reps2dLoop_size, Array.size_setIfInBounds]; exact J.accSize
    · intro x
      rw [Bool.eq_iff_iff, hR, D.seen_iff]
    · -- closure of the marked set
      intro x hx1 hx2 hx
      rw [D.seen_iff] at hx
      rw [D.seen_iff, D.seen_iff]
      rcases hx with hx | ⟨hx, _⟩
      · exact ⟨Or.inl (J.clo x hx1 hx2 hx).1, Or.inl (J.clo x hx1 hx2 hx).2⟩
      · obtain ⟨a, b⟩ := hWclo x hx
        exact ⟨Or.inr ⟨b, by have := (hWr _ b).2; omega⟩, Or.inr ⟨a, by have := (hWr _ a).2; omega⟩⟩
    · intro x hx1 hx2 hx
      rw [D.seen_iff] at hx
      rw [D.row_eq]
      by_cases hc : x ∈ walkList ds i (d0 + 1) (ds.size + 1) (d0 + 1) ∧ x < (st.index.getD i #[]).size
      · rw [if_pos hc]; exact J.N0_le
      · rw [if_neg hc]
        rcases hx with hx | ⟨hx, _⟩
        · exact J.num x hx1 hx2 hx
        · exact absurd ⟨hx, by omega⟩ hc
    · intro x hx1 hx2 hx3 hx
      rw [D.seen_iff] at hx
      rcases hx with hx | ⟨hx, _⟩
      · obtain ⟨c, hc1, hc2, hc⟩ := J.lnk x hx1 hx2 (by omega) hx
        refine ⟨c, hc1, by omega, ?_⟩
        rw [D.row_eq, D.row_eq, if_neg, if_neg, hc]
        · intro hh; exact hWun x hh.1 hx
        · intro hh; exact hWun c hh.1 (J.inner.seen_low c hc1 hc2)
      · refine ⟨d0 + 1, by omega, Nat.le_refl _, ?_⟩
        rw [D.row_eq, D.row_eq, if_pos ⟨hdW, by omega⟩, if_pos ⟨hx, by omega⟩]
    · -- the representative list
      rw [e2]
      dsimp only
      rw [List.reverse_cons, J.fst, hrange, List.filter_append]
      have hstable : ∀ x', 1 ≤ x' → x' ≤ d0 →
          ((innerStep ds i st d0).index.getD i #[]).getD x' 0 = (st.index.getD i #[]).getD x' 0 := by
        intro x' h1 h2
        rw [D.row_eq, if_neg]
        intro hh
        have := hWgt x' hh.1
        omega
      have hnew : firstB ((innerStep ds i st d0).index.getD i #[]) (d0 + 1) = true := by
        rw [firstB_iff]
        intro x' h1 h2
        rw [hstable x' h1 (by omega), D.row_eq, if_pos ⟨hdW, by omega⟩]
        have := J.inner.seen_lt x' h1 (by omega) (J.inner.seen_low x' h1 (by omega))
        omega
      have hold : (List.range' 1 d0).filter (fun x => firstB ((innerStep ds i st d0).index.getD i #[]) x) =
          (List.range' 1 d0).filter (fun x => firstB (st.index.getD i #[]) x) := by
        apply List.filter_congr
        intro x hx
        simp only [List.mem_range'_1] at hx
        exact firstB_congr (fun x' h1 h2 => hstable x' h1 (by omega))
      rw [hold, List.filter_cons_of_pos hnew]
      rfl
    · rw [D.rs_size]; have := J.N0_le; omega
    · intro j hj
      rw [D.others j hj]; exact J.others j hj
    · intro x hx1 hx2 hx
      rw [D.seen_iff] at hx
      rw [D.row_eq, D.rs_get]
      by_cases hc : x ∈ walkList ds i (d0 + 1) (ds.size + 1) (d0 + 1) ∧ x < (st.index.getD i #[]).size
      · rw [if_pos hc, if_pos rfl, hsteps, Nat.zero_add]
        exact hWper x hc.1
      · rw [if_neg hc]
        rcases hx with hx | ⟨hx, _⟩
        · have := J.inner.seen_lt x hx1 hx2 hx
          rw [if_neg (by omega)]
          exact J.per x hx1 hx2 hx
        · exact absurd ⟨hx, by omega⟩ hc
    · intro k hk
      rw [D.rs_get, if_neg (by have := J.N0_le; omega)]
      exact J.rs_low k hk

/-! ### the rounds -/

/-- what is known about the rows of the indices already handled -/
structure RowsDone (ds : DSetData) (v : View) (i : Nat) (st : CollectState) : Prop where
  outer : OuterInv ds i st
  reps : ∀ j, j < i → v.orbitReps2d j (j + 1) =
    (List.range' 1 ds.size).filter fun x => firstB (st.index.getD j #[]) x
  mono : ∀ j j', j < j' → j' < i → ∀ x y, 1 ≤ x → x ≤ ds.size → 1 ≤ y → y ≤ ds.size →
    (st.index.getD j #[]).getD x 0 < (st.index.getD j' #[]).getD y 0
  per : ∀ j, j < i → ∀ x, 1 ≤ x → x ≤ ds.size →
    IsPeriod (stepF ds j) x (st.rs.getD ((st.index.getD j #[]).getD x 0) 0)

theorem rowsDone_step {ds : DSetData} (h : ValidSet ds) {i : Nat} (hi : i < ds.dim) (v : View)
    (hvs : v.size = ds.size)
    (hv : ∀ j e, j ≤ ds.dim → 1 ≤ e → e ≤ ds.size → v.op j e = some (ds.opU j e))
    {st : CollectState} (R : RowsDone ds v i st) : RowsDone ds v (i + 1) (outerStep ds st i) := by
  have hout := outerStep_inv h hi R.outer
  -- run both folds together
  have hJ := foldl_range_inv
    (fun (p : (List Nat × Array Bool) × CollectState) d0 => (repsStep v i p.1 d0, innerStep ds i p.2 d0))
    (fun d0 p => Joint ds i st.rs.size st.index st.rs d0 p.1 p.2) ds.size
    (([], Array.replicate (v.size + 1) false), { st with seen := Array.replicate (ds.size + 1) false })
    (by
      have hrep : ∀ x, (Array.replicate (ds.size + 1) false).getD x false = false := by
        intro x
        rw [Array.getD_eq_getD_getElem?, Array.getElem?_replicate]
        split <;> rfl
      refine ⟨⟨⟨R.outer.index_size, R.outer.row_size, R.outer.done, R.outer.rs_pos⟩, by simp, ?_, ?_⟩,
        by simp [hvs], ?_, ?_, ?_, ?_, by simp, Nat.le_refl _, fun j _ => rfl, ?_, fun k _ => rfl⟩
      · intro x _ _ hx; dsimp only at hx; rw [hrep] at hx; cases hx
      · intro x h1 h2; omega
      · intro x; dsimp only; rw [hvs]
      · intro x _ _ hx; dsimp only at hx; rw [hrep] at hx; cases hx
      · intro x _ _ hx; dsimp only at hx; rw [hrep] at hx; cases hx
      · intro x _ _ _ hx; dsimp only at hx; rw [hrep] at hx; cases hx
      · intro x _ _ hx; dsimp only at hx; rw [hrep] at hx; cases hx)
    (fun k p hk hp => joint_step h hi v hvs hv hk hp)
  -- split the paired fold into its two components
  have hpair : ∀ (l : List Nat) (a : List Nat × Array Bool) (s : CollectState),
      l.foldl (fun (p : (List Nat × Array Bool) × CollectState) d0 =>
        (repsStep v i p.1 d0, innerStep ds i p.2 d0)) (a, s) =
      (l.foldl (repsStep v i) a, l.foldl (innerStep ds i) s) := by
    intro l
    induction l with
    | nil => intro a s; rfl
    | cons x l ih => intro a s; simp only [List.foldl_cons]; rw [ih]
  rw [hpair] at hJ
  dsimp only at hJ
  have hrepsi : v.orbitReps2d i (i + 1) =
      (List.range' 1 ds.size).filter fun x => firstB ((outerStep ds st i).index.getD i #[]) x := by
    rw [orbitReps2d_eq, hvs]
    rw [hvs] at hJ
    exact hJ.fst
  refine ⟨hout, ?_, ?_, ?_⟩
  · intro j hj
    by_cases c : j = i
    · subst c; exact hrepsi
    · have : (outerStep ds st i).index.getD j #[] = st.index.getD j #[] := hJ.others j c
      rw [this]; exact R.reps j (by omega)
  · intro j j' hjj hj' x y hx1 hx2 hy1 hy2
    by_cases c : j' = i
    · subst c
      have e1 : (outerStep ds st j').index.getD j #[] = st.index.getD j #[] := hJ.others j (by omega)
      rw [e1]
      have a := R.outer.done j x hjj hx1 hx2
      have b := hJ.num y hy1 hy2 (hJ.inner.seen_low y hy1 hy2)
      exact Nat.lt_of_lt_of_le a b
    · have e1 : (outerStep ds st i).index.getD j #[] = st.index.getD j #[] := hJ.others j (by omega)
      have e2 : (outerStep ds st i).index.getD j' #[] = st.index.getD j' #[] := hJ.others j' c
      rw [e1, e2]
      exact R.mono j j' hjj (by omega) x y hx1 hx2 hy1 hy2
  · intro j hj x hx1 hx2
    by_cases c : j = i
    · subst c
      exact hJ.per x hx1 hx2 (hJ.inner.seen_low x hx1 hx2)
    · have e1 : (outerStep ds st i).index.getD j #[] = st.index.getD j #[] := hJ.others j c
      have hlt := R.outer.done j x (by omega) hx1 hx2
      have e2 : (outerStep ds st i).rs.getD ((st.index.getD j #[]).getD x 0) 0 =
          st.rs.getD ((st.index.getD j #[]).getD x 0) 0 := hJ.rs_low _ hlt
      rw [e1, e2]
      exact R.per j (by omega) x hx1 hx2

/-- the numbering facts about the result of `collect_orbits` -/
structure Numbering (ds : DSetData) (v : View) (o : Orbits) : Prop where
  reps : ∀ i, i < ds.dim → v.orbitReps2d i (i + 1) =
    (List.range' 1 ds.size).filter fun x => firstB (o.index.getD i #[]) x
  mono : ∀ j i, j < i → i < ds.dim → ∀ x y, 1 ≤ x → x ≤ ds.size → 1 ≤ y → y ≤ ds.size →
    (o.index.getD j #[]).getD x 0 < (o.index.getD i #[]).getD y 0
  per : ∀ i, i < ds.dim → ∀ x, 1 ≤ x → x ≤ ds.size →
    IsPeriod (stepF ds i) x (o.rs.getD ((o.index.getD i #[]).getD x 0) 0)

theorem collectOrbits_numbering {ds : DSetData} (h : ValidSet ds) (v : View) (hvs : v.size = ds.size)
    (hv : ∀ j e, j ≤ ds.dim → 1 ≤ e → e ≤ ds.size → v.op j e = some (ds.opU j e)) :
    Numbering ds v (collectOrbits ds) := by
  rw [collectOrbits_eq]
  have hfin := foldl_range_inv (outerStep ds) (fun i s => RowsDone ds v i s) ds.dim (collectInit ds)
    ⟨{ index_size := by simp [collectInit]
       row_size := by
         intro j hj
         simp [collectInit, Array.getD_eq_getD_getElem?, hj]
       done := by intro j d hj; omega
       rs_pos := by intro k hk; simp [collectInit] at hk },
     by intro j hj; omega, by intro j j' _ hj'; omega, by intro j hj; omega⟩
    (fun k s hk hp => rowsDone_step h hk v hvs hv hp)
  exact ⟨fun i hi => hfin.reps i hi, fun j i hji hi => hfin.mono j i hji hi, fun i hi => hfin.per i hi⟩

end DSymVerif.Text
