/-
Helper lemmas for property C09, part 20: independence of the spanning tree.

An *ordered tree* `OTree ds root L` is a list of facets in which every facet starts in a chamber
already reached (the root or the far side of an earlier facet) and leads to a new chamber — what a
graph search produces.  For two ordered spanning trees the textbook presentations
`GRel ds (· ∈ L₁) B` and `GRel ds (· ∈ L₂) B` present isomorphic groups: the map
`x(c,a) ↦ q(c)·x(c,a)·q(s_a c)⁻¹` (`q(c)` = product of the generators along the tree path from the
root to `c`) is a homomorphism in both directions, and the two composites are inner automorphisms.
-/
import DSymVerif.Proofs.FundGroupSpecA
import DSymVerif.Proofs.FundGroupTree

namespace DSymVerif.FGP
open DSymVerif DSymVerif.DS DSymVerif.FG

section qof
variable {H : Type} [Group H] (ds : DSymData) (y : Nat → Nat → H)

/-- the product of the `y`'s along the tree path from the root -/
def qOf (L : List Edge) : Nat → H :=
  L.foldl (fun q e => Function.update q (ds.dset.opU e.2 e.1) (q e.1 * y e.1 e.2)) (fun _ => 1)

theorem qOf_snoc (L : List Edge) (d i : Nat) :
    qOf ds y (L ++ [(d, i)]) =
      Function.update (qOf ds y L) (ds.dset.opU i d) (qOf ds y L d * y d i) := by
  unfold qOf
  rw [List.foldl_append]
  rfl

theorem qOf_not_reached {root : Nat} {L : List Edge} (h : OTree ds root L) :
    ∀ c, ¬ Reached ds root L c → qOf ds y L c = 1 := by
  induction h with
  | nil => intro c _; rfl
  | @snoc L d i _ _ _ _ ih =>
    intro c hc
    rw [qOf_snoc]
    have hne : c ≠ ds.dset.opU i d := by
      intro e
      exact hc (Or.inr ⟨(d, i), by simp, e.symm⟩)
    rw [Function.update_of_ne hne]
    exact ih c (fun h => hc (h.mono (fun x hx => List.mem_append_left _ hx)))

theorem qOf_root {root : Nat} {L : List Edge} (h : OTree ds root L) : qOf ds y L root = 1 := by
  induction h with
  | nil => rfl
  | @snoc L d i _ _ _ hn ih =>
    rw [qOf_snoc]
    have hne : root ≠ ds.dset.opU i d := fun e => hn (Or.inl e.symm)
    rw [Function.update_of_ne hne]
    exact ih

/-- along every tree facet the path product grows by the generator of the facet -/
theorem qOf_edge {root : Nat} {L : List Edge} (h : OTree ds root L) :
    ∀ e ∈ L, qOf ds y L (ds.dset.opU e.2 e.1) = qOf ds y L e.1 * y e.1 e.2 := by
  induction h with
  | nil => intro e he; cases he
  | @snoc L d i hL _ hr hn ih =>
    intro e he
    rw [qOf_snoc]
    have hdne : d ≠ ds.dset.opU i d := fun e' => hn (e' ▸ hr)
    rcases List.mem_append.1 he with h | h
    · have h1 : ds.dset.opU e.2 e.1 ≠ ds.dset.opU i d := fun e' => hn (Or.inr ⟨e, h, e'⟩)
      have h2 : e.1 ≠ ds.dset.opU i d := fun e' => hn (e' ▸ (hL.source_reached e h).2)
      rw [Function.update_of_ne h1, Function.update_of_ne h2]
      exact ih e h
    · simp only [List.mem_singleton] at h
      subst h
      simp only
      rw [Function.update_self, Function.update_of_ne hdne]

end qof

/-! ### the homomorphism induced by the path products -/

section hom
variable {ds : DSymData} (hs : ValidSym ds) {B : Nat → Nat → Nat → Prop} {root : Nat} {L : List Edge}
  (hL : OTree ds root L) (Tr' : Edge → Prop)

/-- conjugating every facet generator by the path products -/
noncomputable def thetaVal (ds : DSymData) (B : Nat → Nat → Nat → Prop) (L : List Edge)
    (Tr' : Edge → Prop) (c a : Nat) : PresentedGroup (GRel ds Tr' B) :=
  qOf ds (xQ ds Tr' B) L c * xQ ds Tr' B c a * (qOf ds (xQ ds Tr' B) L (opT ds a c))⁻¹

noncomputable def theta0 (ds : DSymData) (B : Nat → Nat → Nat → Prop) (L : List Edge)
    (Tr' : Edge → Prop) (k : ℕ) : PresentedGroup (GRel ds Tr' B) :=
  if isCode ds k then thetaVal ds B L Tr' (decD ds k) (decI ds k) else 1

theorem xQ_oor {Tr : Edge → Prop} {c a : Nat} (h : ¬ FacetR ds c a) : xQ ds Tr B c a = 1 := by
  unfold xQ xg; rw [if_neg h, map_one]

theorem lift_theta_xg (c a : Nat) :
    FreeGroup.lift (theta0 ds B L Tr') (xg ds c a) = thetaVal ds B L Tr' c a := by
  unfold xg
  by_cases h : FacetR ds c a
  · rw [if_pos h, FreeGroup.lift_apply_of]
    unfold theta0
    rw [if_pos (isCode_code h), (dec_code h).1, (dec_code h).2]
  · rw [if_neg h, map_one]
    unfold thetaVal
    rw [opT_oor (fun h' => h ⟨h'.2.1, h'.2.2, h'.1⟩), xQ_oor h]
    simp

/-- telescoping along a walk -/
theorem Wf_theta : ∀ (n a b c : Nat),
    Wf (opT ds) (thetaVal ds B L Tr') a b n c =
      qOf ds (xQ ds Tr' B) L c * Wf (opT ds) (xQ ds Tr' B) a b n c *
        (qOf ds (xQ ds Tr' B) L (wk (opT ds) a b n c))⁻¹
  | 0, _, _, c => by simp [Wf, wk]
  | n + 1, a, b, c => by
    show thetaVal ds B L Tr' c a * Wf (opT ds) (thetaVal ds B L Tr') b a n (opT ds a c) = _
    rw [Wf_theta n b a (opT ds a c)]
    show _ = qOf ds (xQ ds Tr' B) L c * (xQ ds Tr' B c a * Wf (opT ds) (xQ ds Tr' B) b a n (opT ds a c)) *
      (qOf ds (xQ ds Tr' B) L (wk (opT ds) b a n (opT ds a c)))⁻¹
    unfold thetaVal
    group

include hs hL in
theorem theta_rels : ∀ r ∈ GRel ds (fun e => e ∈ L) B, FreeGroup.lift (theta0 ds B L Tr') r = 1 := by
  intro r hr
  rcases hr with ((hr | hr) | hr) | hr
  · obtain ⟨d, i, hd, rfl⟩ := hr
    rw [map_mul, lift_theta_xg, lift_theta_xg]
    unfold thetaVal
    have h1 : opT ds i d = ds.dset.opU i d := opT_eq hd.2.2 hd.1 hd.2.1
    have h2 : opT ds i (ds.dset.opU i d) = d := by rw [← h1, opT_invol hs.set]
    rw [h1, h2]
    have := xQ_pair (ds := ds) (Tr := Tr') (B := B) i d
    rw [h1] at this
    rw [this]
    group
  · obtain ⟨d, i, hd, rfl⟩ := hr
    rw [lift_theta_xg]
    unfold thetaVal
    have hf := (hL.source_reached (d, i) hd).1
    rw [opT_eq hf.2.2 hf.1 hf.2.1, qOf_edge ds _ hL (d, i) hd]
    simp only
    group
  · obtain ⟨i, j, d, hij, hj, h1, h2, hb, rfl⟩ := hr
    have hi : i ≤ ds.dim := by omega
    rw [map_pow]
    unfold OW
    rw [map_Wf]
    have : (fun c a => FreeGroup.lift (theta0 ds B L Tr') (xg ds c a)) = thetaVal ds B L Tr' := by
      funext c a; exact lift_theta_xg Tr' c a
    rw [this, Wf_theta, (orbR_period hs hi hj h1 h2).2, conj_pow]
    have hrel : OW ds (xQ ds Tr' B) i j d ^ orbV ds i j d = 1 := by
      rw [← mk_OW_xQ]
      exact PresentedGroup.one_of_mem (Or.inl (Or.inr ⟨i, j, d, hij, hj, h1, h2, hb, rfl⟩))
    unfold OW at hrel
    rw [hrel]
    group
  · obtain ⟨k, hk, rfl⟩ := hr
    rw [FreeGroup.lift_apply_of]
    unfold theta0
    rw [if_neg hk]

/-- the homomorphism `⟨X | pairing, L, orbits⟩ → ⟨X | pairing, Tr', orbits⟩` -/
noncomputable def treeHom : PresentedGroup (GRel ds (fun e => e ∈ L) B) →* PresentedGroup (GRel ds Tr' B) :=
  PresentedGroup.toGroup (theta_rels hs hL Tr')

theorem treeHom_xg (c a : Nat) :
    treeHom hs hL Tr' (PresentedGroup.mk _ (xg ds c a)) = thetaVal ds B L Tr' c a := by
  unfold treeHom
  show FreeGroup.lift (theta0 ds B L Tr') (xg ds c a) = _
  exact lift_theta_xg Tr' c a

end hom

/-! ### the two composites are inner automorphisms -/

section iso
variable {ds : DSymData} (hs : ValidSym ds) {B : Nat → Nat → Nat → Prop} {r1 r2 : Nat}
  {L1 L2 : List Edge} (hL1 : OTree ds r1 L1) (hL2 : OTree ds r2 L2)

theorem xQ_tree {Tr : Edge → Prop} {d i : Nat} (h : Tr (d, i)) : xQ ds Tr B d i = 1 := by
  unfold xQ
  exact PresentedGroup.one_of_mem (Or.inl (Or.inl (Or.inr ⟨d, i, h, rfl⟩)))

include hs hL2 in
/-- the image of a path product of the first tree under the homomorphism of the second tree -/
theorem treeHom_qOf : ∀ (L0 : List Edge), OTree ds r1 L0 → (∀ e ∈ L0, e ∈ L1) →
    ∀ c, Reached ds r1 L0 c →
      treeHom hs hL2 (fun e => e ∈ L1) (qOf ds (xQ ds (fun e => e ∈ L2) B) L0 c) =
        qOf ds (xQ ds (fun e => e ∈ L1) B) L2 r1 * (qOf ds (xQ ds (fun e => e ∈ L1) B) L2 c)⁻¹ := by
  intro L0 h0
  induction h0 with
  | nil =>
    intro _ c hc
    rcases hc with rfl | ⟨e, he, _⟩
    · show treeHom hs hL2 _ 1 = _
      rw [map_one]; group
    · cases he
  | @snoc L d i hL hf hr hn ih =>
    intro hsub c hc
    have hsub' : ∀ e ∈ L, e ∈ L1 := fun e he => hsub e (List.mem_append_left _ he)
    rw [qOf_snoc]
    by_cases hct : c = ds.dset.opU i d
    · subst hct
      rw [Function.update_self, map_mul, ih hsub' d hr]
      have : treeHom hs hL2 (fun e => e ∈ L1) (xQ ds (fun e => e ∈ L2) B d i) =
          thetaVal ds B L2 (fun e => e ∈ L1) d i := treeHom_xg hs hL2 _ d i
      rw [this]
      unfold thetaVal
      rw [opT_eq hf.2.2 hf.1 hf.2.1, xQ_tree (hsub (d, i) (by simp))]
      group
    · rw [Function.update_of_ne hct]
      apply ih hsub'
      rcases hc with h | ⟨e, he, h⟩
      · exact Or.inl h
      · rcases List.mem_append.1 he with he | he
        · exact Or.inr ⟨e, he, h⟩
        · simp only [List.mem_singleton] at he
          subst he
          exact absurd h.symm hct

/-- conjugation as a monoid homomorphism -/
def conjHom {G : Type} [Group G] (κ : G) : G →* G where
  toFun x := κ * x * κ⁻¹
  map_one' := by group
  map_mul' x y := by group

include hs hL1 hL2 in
/-- on a facet generator `g ∘ f` is conjugation by the path product of the root of the first tree -/
theorem treeHom_comp_gen (hsp1 : ∀ c, 1 ≤ c → c ≤ ds.size → Reached ds r1 L1 c) {c a : Nat}
    (hf : FacetR ds c a) :
    treeHom hs hL2 (fun e => e ∈ L1) (treeHom hs hL1 (fun e => e ∈ L2)
        (PresentedGroup.mk _ (xg ds c a))) =
      qOf ds (xQ ds (fun e => e ∈ L1) B) L2 r1 * xQ ds (fun e => e ∈ L1) B c a *
        (qOf ds (xQ ds (fun e => e ∈ L1) B) L2 r1)⁻¹ := by
  rw [treeHom_xg]
  unfold thetaVal
  have hc' := hs.set.range _ _ hf.2.2 hf.1 hf.2.1
  rw [opT_eq hf.2.2 hf.1 hf.2.1, map_mul, map_mul, map_inv,
    treeHom_qOf hs hL2 L1 hL1 (fun e he => he) _ (hsp1 _ hf.1 hf.2.1),
    treeHom_qOf hs hL2 L1 hL1 (fun e he => he) _ (hsp1 _ hc'.1 hc'.2)]
  have : treeHom hs hL2 (fun e => e ∈ L1) (xQ ds (fun e => e ∈ L2) B c a) =
      thetaVal ds B L2 (fun e => e ∈ L1) c a := treeHom_xg hs hL2 _ _ _
  rw [this]
  unfold thetaVal
  rw [opT_eq hf.2.2 hf.1 hf.2.1]
  group

include hs hL1 hL2 in
/-- `g ∘ f` is conjugation by the path product of the root of the first tree -/
theorem treeHom_comp (hsp1 : ∀ c, 1 ≤ c → c ≤ ds.size → Reached ds r1 L1 c)
    (x : PresentedGroup (GRel ds (fun e => e ∈ L1) B)) :
    treeHom hs hL2 (fun e => e ∈ L1) (treeHom hs hL1 (fun e => e ∈ L2) x) =
      qOf ds (xQ ds (fun e => e ∈ L1) B) L2 r1 * x *
        (qOf ds (xQ ds (fun e => e ∈ L1) B) L2 r1)⁻¹ := by
  have key : ((treeHom hs hL2 (fun e => e ∈ L1)).comp (treeHom hs hL1 (fun e => e ∈ L2)) :
      PresentedGroup (GRel ds (fun e => e ∈ L1) B) →* PresentedGroup (GRel ds (fun e => e ∈ L1) B)) =
      conjHom (qOf ds (xQ ds (fun e => e ∈ L1) B) L2 r1) := by
    refine PresentedGroup.ext (fun k => ?_)
    rw [MonoidHom.comp_apply]
    by_cases hk : isCode ds k
    · have hx : (PresentedGroup.of k : PresentedGroup (GRel ds (fun e => e ∈ L1) B)) =
          PresentedGroup.mk _ (xg ds (decD ds k) (decI ds k)) := by
        unfold xg
        rw [if_pos hk.1, hk.2]
        rfl
      rw [hx, treeHom_comp_gen hs hL1 hL2 hsp1 hk.1]
      rfl
    · have h1 : (PresentedGroup.of k : PresentedGroup (GRel ds (fun e => e ∈ L1) B)) = 1 :=
        PresentedGroup.one_of_mem (Or.inr ⟨k, hk, rfl⟩)
      rw [h1, map_one, map_one, map_one]
  have := DFunLike.congr_fun key x
  rw [MonoidHom.comp_apply] at this
  exact this

include hs hL1 hL2 in
/-- **tree independence**: the presentations with two ordered spanning trees present isomorphic
    groups -/
theorem treeHom_bijective (hsp1 : ∀ c, 1 ≤ c → c ≤ ds.size → Reached ds r1 L1 c)
    (hsp2 : ∀ c, 1 ≤ c → c ≤ ds.size → Reached ds r2 L2 c) :
    Function.Bijective (treeHom (B := B) hs hL1 (fun e => e ∈ L2)) := by
  constructor
  · intro x y hxy
    have hx := treeHom_comp (B := B) hs hL1 hL2 hsp1 x
    have hy := treeHom_comp (B := B) hs hL1 hL2 hsp1 y
    rw [hxy, hy] at hx
    exact (mul_left_cancel (mul_right_cancel hx)).symm
  · intro y
    have h := treeHom_comp (B := B) hs hL2 hL1 hsp2
    refine ⟨treeHom hs hL2 (fun e => e ∈ L1)
      ((qOf ds (xQ ds (fun e => e ∈ L2) B) L1 r2)⁻¹ * y * qOf ds (xQ ds (fun e => e ∈ L2) B) L1 r2), ?_⟩
    rw [h]
    group

/-- the isomorphism of tree independence -/
noncomputable def treeIso (hsp1 : ∀ c, 1 ≤ c → c ≤ ds.size → Reached ds r1 L1 c)
    (hsp2 : ∀ c, 1 ≤ c → c ≤ ds.size → Reached ds r2 L2 c) :
    PresentedGroup (GRel ds (fun e => e ∈ L1) B) ≃* PresentedGroup (GRel ds (fun e => e ∈ L2) B) :=
  MulEquiv.ofBijective (treeHom hs hL1 (fun e => e ∈ L2)) (treeHom_bijective hs hL1 hL2 hsp1 hsp2)

end iso

end DSymVerif.FGP
