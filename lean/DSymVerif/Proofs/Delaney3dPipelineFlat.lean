/-
Property C15, phase 2: every candidate of `construct_candidates` flattens all cones — both loops
push a table only behind the test `flattens_all(table, &cones)`.
-/
import DSymVerif.Proofs.Delaney3dPipelineReg

namespace DSymVerif.D3
open DSymVerif DSymVerif.Cosets

section
variable {n : Nat} {cones : List (List Int × Nat)}

theorem firstLoop_flat :
    ∀ (ts : List Tab) (c c' : Candidates), AllCands (fun t => flattensAll n t cones = .ok true) c →
      firstLoop n cones ts c = .ok c' → AllCands (fun t => flattensAll n t cones = .ok true) c'
  | [], c, c', hc, h => by simp only [firstLoop] at h; cases h; exact hc
  | t :: rest, c, c', hc, h => by
    unfold firstLoop at h
    split at h
    · rename_i hflat
      split at h
      · split at h
        · rename_i c1 hc1
          exact firstLoop_flat rest c1 c' (candPush_all hc1 hc hflat) h
        · cases h
        · cases h
      · cases h
      · cases h
    · exact firstLoop_flat rest c c' hc h
    · cases h
    · cases h

theorem pairStep_flat {cones2 : List (List Int × Nat)} {ta tb : Tab} {c c' : Candidates}
    (hc : AllCands (fun t => flattensAll n t cones = .ok true) c)
    (h : pairStep n cones cones2 ta tb c = .ok c') :
    AllCands (fun t => flattensAll n t cones = .ok true) c' := by
  unfold pairStep at h
  split at h
  · rename_i tx htx
    split at h
    · rename_i hflat
      split at h
      · split at h
        · exact candPush_all h hc hflat
        · cases h; exact hc
        · cases h
        · cases h
      · split at h
        · split at h
          · cases h; exact hc
          · exact candPush_all h hc hflat
          · cases h
          · cases h
        · cases h; exact hc
    · cases h; exact hc
    · cases h
    · cases h
  · cases h
  · cases h

theorem innerLoop_flat {cones2 : List (List Int × Nat)} {ta : Tab} :
    ∀ (tbs : List Tab) (c c' : Candidates), AllCands (fun t => flattensAll n t cones = .ok true) c →
      innerLoop n cones cones2 ta tbs c = .ok c' → AllCands (fun t => flattensAll n t cones = .ok true) c'
  | [], c, c', hc, h => by simp only [innerLoop] at h; cases h; exact hc
  | tb :: rest, c, c', hc, h => by
    unfold innerLoop at h
    split at h
    · split at h
      · rename_i c1 hc1
        exact innerLoop_flat rest c1 c' (pairStep_flat hc hc1) h
      · cases h
      · cases h
    · exact innerLoop_flat rest c c' hc h

theorem secondLoop_flat {cones2 cones3 : List (List Int × Nat)} {all : List Tab} :
    ∀ (tas : List Tab) (c c' : Candidates), AllCands (fun t => flattensAll n t cones = .ok true) c →
      secondLoop n cones cones2 cones3 all tas c = .ok c' →
      AllCands (fun t => flattensAll n t cones = .ok true) c'
  | [], c, c', hc, h => by simp only [secondLoop] at h; cases h; exact hc
  | ta :: rest, c, c', hc, h => by
    unfold secondLoop at h
    split at h
    · split at h
      · rename_i c1 hc1
        exact secondLoop_flat rest c1 c' (innerLoop_flat all c c1 hc hc1) h
      · cases h
      · cases h
    · exact secondLoop_flat rest c c' hc h
    · cases h
    · cases h

end

/-- **every candidate flattens all cones** -/
theorem constructCandidates_flat (fg : FG.FundGroup) (cands : Candidates)
    (h : constructCandidates fg = .ok cands) :
    AllCands (fun t => flattensAll fg.genToEdge.length t fg.cones = .ok true) cands := by
  unfold constructCandidates at h
  simp only at h
  split at h
  · rename_i cts hcts
    split at h
    · rename_i c1 hc1
      have h1 := firstLoop_flat cts _ c1
        (fun e he t ht => by
          obtain ⟨p, _, rfl⟩ := List.mem_map.mp he
          cases ht) hc1
      exact secondLoop_flat cts c1 cands h1 h
    · cases h
    · cases h
  · cases h
  · cases h

end DSymVerif.D3
