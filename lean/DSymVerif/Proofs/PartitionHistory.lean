/-
Helper lemmas for property C20, part 7: the history-level statements, as `Prop`-valued
definitions over an arbitrary implementation `I`, each proved from the contract `Refines`.
`Props/C20.lean` instantiates them for the models of `IntPartition` and `Partition<T>`.
-/
import DSymVerif.Proofs.PartitionRefine
import DSymVerif.Proofs.PartitionGroup

namespace DSymVerif.PartP
open DSymVerif DSymVerif.Part DSymVerif.SpecC20

/-- the unions applied to instance `k` by the history `ops` (clone-inherited ones included) -/
def unionsOf (ops : List Op) (k : Nat) : List (Nat × Nat) := unions ops (fun _ => []) k

section statements
variable {S : Type} (I : Impl S)

/-- a history never panics and never exhausts the loop fuel -/
def TotalStmt : Prop :=
  ∀ ops : List Op, ∃ st obs, run I Store.init ops = .ok (st, obs)

/-- after any history, on any instance: two elements get the same answer from `find` (asked one
    after the other, as the API forces) exactly when they are connected by the unions applied to
    that instance -/
def RefinementStmt : Prop :=
  ∀ (ops : List Op) (k a b : Nat), ∃ st obs, run I Store.init ops = .ok (st, obs) ∧
    ∃ s1 ra s2 rb, I.find (st.get I k) a = .ok (s1, ra) ∧ I.find s1 b = .ok (s2, rb) ∧
      (ra = rb ↔ Conn (unionsOf ops k) a b)

/-- the representative is a member of the class -/
def RepMemberStmt : Prop :=
  ∀ (ops : List Op) (k a : Nat), ∃ st obs, run I Store.init ops = .ok (st, obs) ∧
    ∃ s1 r, I.find (st.get I k) a = .ok (s1, r) ∧ Conn (unionsOf ops k) a r

/-- after any history, any further operation `op` that is not a union on instance `k` involving
    the class of `a` (and does not overwrite slot `k` by a clone) leaves `find a` on `k` unchanged -/
def RepStableStmt : Prop :=
  ∀ (ops : List Op) (op : Op) (k a : Nat), ∃ st obs, run I Store.init ops = .ok (st, obs) ∧
    ∃ st' o, step I st op = .ok (st', o) ∧
      (¬ Disturbs op (unions ops (fun _ => [])) k a →
        ∃ s1 s1' r, I.find (st.get I k) a = .ok (s1, r) ∧ I.find (st'.get I k) a = .ok (s1', r))

/-- `find` is observationally pure: after `find a`, every `find z` answers as it would have before -/
def FindPureStmt : Prop :=
  ∀ (ops : List Op) (k a z : Nat), ∃ st obs, run I Store.init ops = .ok (st, obs) ∧
    ∃ s1 r s2 rz s3 rz', I.find (st.get I k) a = .ok (s1, r) ∧ I.find s1 z = .ok (s2, rz) ∧
      I.find (st.get I k) z = .ok (s3, rz') ∧ rz = rz'

/-- the class listing: a partition of the queried elements (same multiset, duplicates kept, no
    empty class), members of a class connected, members of different classes not connected, every
    class a subsequence of the query (members in occurrence order), classes ordered by their first
    members' occurrence; and it is the Spec's naive grouping for every Boolean relation deciding
    connectivity -/
def ClassesStmt : Prop :=
  ∀ (ops : List Op) (k : Nat) (es : List Nat), ∃ st obs, run I Store.init ops = .ok (st, obs) ∧
    ∃ s' css, classes I (st.get I k) es = .ok (s', css) ∧
      css.flatten.Perm es ∧ (∀ c ∈ css, c ≠ []) ∧
      (∀ c ∈ css, ∀ x ∈ c, ∀ y ∈ c, Conn (unionsOf ops k) x y) ∧
      css.Pairwise (fun c d => ∀ x ∈ c, ∀ y ∈ d, ¬ Conn (unionsOf ops k) x y) ∧
      (∀ c ∈ css, c.Sublist es) ∧ (css.map (fun c => c.headD 0)).Sublist es ∧
      ∀ rel : Nat → Nat → Bool, (∀ x y, rel x y = true ↔ Conn (unionsOf ops k) x y) →
        css = groupFO rel es

end statements

section proofs
variable {S : Type} {I : Impl S} {Inv : S → List (Nat × Nat) → Prop} {rep : S → Nat → Nat}

theorem reach (R : Refines I Inv rep) (ops : List Op) :
    ∃ st obs, run I Store.init ops = .ok (st, obs) ∧
      StoreInv I Inv st (unions ops (fun _ => [])) :=
  run_ok R ops Store.init _ (storeInv_init R)

theorem total_of (R : Refines I Inv rep) : TotalStmt I := by
  intro ops
  obtain ⟨st, obs, h, _⟩ := reach R ops
  exact ⟨st, obs, h⟩

theorem refinement_of (R : Refines I Inv rep) : RefinementStmt I := by
  intro ops k a b
  obtain ⟨st, obs, h, inv⟩ := reach R ops
  obtain ⟨s1, h1, inv1, hr1⟩ := R.find (inv k) a
  obtain ⟨s2, h2, _, _⟩ := R.find inv1 b
  refine ⟨st, obs, h, s1, _, s2, _, h1, h2, ?_⟩
  rw [hr1]; exact R.rep_conn (inv k) a b

theorem rep_member_of (R : Refines I Inv rep) : RepMemberStmt I := by
  intro ops k a
  obtain ⟨st, obs, h, inv⟩ := reach R ops
  obtain ⟨s1, h1, _, _⟩ := R.find (inv k) a
  refine ⟨st, obs, h, s1, _, h1, ?_⟩
  exact (R.rep_conn (inv k) _ _).1 (R.rep_idem (inv k) a).symm

theorem rep_stable_of (R : Refines I Inv rep) : RepStableStmt I := by
  intro ops op k a
  obtain ⟨st, obs, h, inv⟩ := reach R ops
  obtain ⟨st', o, hs, inv', _, hrep⟩ := step_spec R inv op
  refine ⟨st, obs, h, st', o, hs, fun hd => ?_⟩
  obtain ⟨s1, h1, _, _⟩ := R.find (inv k) a
  obtain ⟨s1', h1', _, _⟩ := R.find (inv' k) a
  rw [hrep k a hd] at h1'
  exact ⟨s1, s1', _, h1, h1'⟩

theorem find_pure_of (R : Refines I Inv rep) : FindPureStmt I := by
  intro ops k a z
  obtain ⟨st, obs, h, inv⟩ := reach R ops
  obtain ⟨s1, h1, inv1, hr1⟩ := R.find (inv k) a
  obtain ⟨s2, h2, _, _⟩ := R.find inv1 z
  obtain ⟨s3, h3, _, _⟩ := R.find (inv k) z
  exact ⟨st, obs, h, s1, _, s2, _, s3, _, h1, h2, h3, hr1 z⟩

theorem relOf_eq {ρ : Nat → Nat} {us : List (Nat × Nat)}
    (hρ : ∀ u v, ρ u = ρ v ↔ Conn us u v) {rel : Nat → Nat → Bool}
    (hrel : ∀ x y, rel x y = true ↔ Conn us x y) : rel = relOf ρ := by
  funext x y
  rw [Bool.eq_iff_iff, hrel, ← hρ]
  simp [relOf]

theorem classes_of (R : Refines I Inv rep) : ClassesStmt I := by
  intro ops k es
  obtain ⟨st, obs, h, inv⟩ := reach R ops
  obtain ⟨s', hc, _, _⟩ := classes_ok R (inv k) es
  have hρ := R.rep_conn (inv k)
  have g := groupFO_inv (rep (st.get I k)) es
  refine ⟨st, obs, h, s', _, hc, List.perm_iff_count.2 g.count, fun c hc => (g.mem c hc).1,
    ?_, ?_, fun c hc => (g.mem c hc).2.2, g.heads, ?_⟩
  · intro c hc x hx y hy
    have h1 := (g.mem c hc).2.1
    exact (hρ x y).1 ((h1 x hx).trans (h1 y hy).symm)
  · have := g.nodup
    unfold headReps at this
    rw [List.Nodup, List.pairwise_map] at this
    refine this.imp_of_mem ?_
    intro c d hc hd hne x hx y hy hxy
    apply hne
    have h1 := (g.mem c hc).2.1 x hx
    have h2 := (g.mem d hd).2.1 y hy
    rw [← h1, ← h2]; exact (hρ x y).2 hxy
  · intro rel hrel
    rw [relOf_eq hρ hrel]

end proofs

end DSymVerif.PartP
