/-
`CosetTable::compact` (C11 `compact_valid`, first part): the numbering of the classes is a
bijection between the canonical rows and `0..m-1` sending the class of row 0 to 0 (the D12
repair), and the compacted table has an empty union-find, `m` rows and exactly the images
of the entries of the canonical rows.
-/
import DSymVerif.Proofs.CosetFinal

namespace DSymVerif.CosetInvP
open DSymVerif DSymVerif.Cosets DSymVerif.LowIndexP DSymVerif.CosetPartP

/-! ### the numbering of the classes (first loop of `compact`) -/

structure Numbering (t : Table) (o2n : Array (Option Nat)) (n : Nat) (P : Nat → Prop) : Prop where
  size : o2n.size = t.len
  sound : ∀ (c j : Nat), o2n[c]? = some (some j) → t.canon c = c ∧ j < n
  total : ∀ x, P x → ∃ j, o2n[t.canon x]? = some (some j)
  inj : ∀ (c c' j : Nat), o2n[c]? = some (some j) → o2n[c']? = some (some j) → c = c'
  surj : ∀ j, j < n → ∃ c : Nat, o2n[c]? = some (some j)

theorem oldToNewGo_spec {t : Table} (s : Shape t) : ∀ (ks : List Nat) (o2n : Array (Option Nat)) (n : Nat)
    (P : Nat → Prop) (res : Array (Option Nat)), (∀ k ∈ ks, k < t.len) → Numbering t o2n n P →
    t.oldToNewGo ks (o2n, n) = .ok res →
    ∃ n', Numbering t res n' (fun x => P x ∨ x ∈ ks) ∧
      (∀ (c j : Nat), o2n[c]? = some (some j) → res[c]? = some (some j))
  | [], o2n, n, P, res, _, num, h => by
    simp only [Table.oldToNewGo, Outcome.ok.injEq] at h
    subst h
    exact ⟨n, ⟨num.size, num.sound, fun x hx => num.total x (by simpa using hx), num.inj, num.surj⟩,
      fun _ _ h => h⟩
  | k :: ks, o2n, n, P, res, hks, num, h => by
    simp only [Table.oldToNewGo] at h
    have hk : k < t.len := hks k (by simp)
    have hc : t.canon k < t.len := canon_lt s hk
    have hks' : ∀ k' ∈ ks, k' < t.len := fun k' h' => hks k' (by simp [h'])
    cases ho : o2n[t.canon k]? with
    | none => simp [ho] at h
    | some v =>
      cases v with
      | some j0 =>
        simp only [ho] at h
        obtain ⟨n', a1, a2⟩ := oldToNewGo_spec s ks o2n n (fun x => P x ∨ x = k) res hks'
          ⟨num.size, num.sound, fun x hx => by
            rcases hx with hx | rfl
            · exact num.total x hx
            · exact ⟨j0, ho⟩, num.inj, num.surj⟩ h
        refine ⟨n', ⟨a1.size, a1.sound, fun x hx => a1.total x ?_, a1.inj, a1.surj⟩, a2⟩
        rcases hx with hx | hx
        · exact Or.inl (Or.inl hx)
        · rcases List.mem_cons.mp hx with rfl | hx
          · exact Or.inl (Or.inr rfl)
          · exact Or.inr hx
      | none =>
        simp only [ho] at h
        have hcs : t.canon k < o2n.size := by rw [num.size]; exact hc
        have hset : ∀ c, (o2n.setIfInBounds (t.canon k) (some n))[c]? =
            if t.canon k = c then some (some n) else o2n[c]? := by
          intro c
          rw [Array.getElem?_setIfInBounds]
          by_cases e : t.canon k = c
          · subst e; simp [hcs]
          · simp [e]
        have num' : Numbering t (o2n.setIfInBounds (t.canon k) (some n)) (n + 1) (fun x => P x ∨ x = k) := by
          refine ⟨by simpa using num.size, ?_, ?_, ?_, ?_⟩
          · intro c j hcj
            rw [hset] at hcj
            by_cases e : t.canon k = c
            · simp only [e, if_true, Option.some.injEq] at hcj
              subst hcj
              exact ⟨by rw [← e]; exact canon_idem s k, by omega⟩
            · simp only [e, if_false] at hcj
              have := num.sound c j hcj
              exact ⟨this.1, by omega⟩
          · intro x hx
            rcases hx with hx | rfl
            · obtain ⟨j, hj⟩ := num.total x hx
              refine ⟨j, ?_⟩
              rw [hset]
              by_cases e : t.canon k = t.canon x
              · rw [← e, ho] at hj; cases hj
              · simp [e, hj]
            · exact ⟨n, by rw [hset]; simp⟩
          · intro c c' j h1 h2
            rw [hset] at h1 h2
            by_cases e1 : t.canon k = c <;> by_cases e2 : t.canon k = c'
            · exact e1.symm.trans e2
            · simp only [e1, if_true, Option.some.injEq] at h1
              simp only [e2, if_false] at h2
              have := (num.sound c' j h2).2
              omega
            · simp only [e2, if_true, Option.some.injEq] at h2
              simp only [e1, if_false] at h1
              have := (num.sound c j h1).2
              omega
            · simp only [e1, if_false] at h1
              simp only [e2, if_false] at h2
              exact num.inj c c' j h1 h2
          · intro j hj
            by_cases e : j = n
            · exact ⟨t.canon k, by rw [hset, e]; simp⟩
            · obtain ⟨c, hcj⟩ := num.surj j (by omega)
              refine ⟨c, ?_⟩
              rw [hset]
              by_cases e2 : t.canon k = c
              · rw [← e2, ho] at hcj; cases hcj
              · simp [e2, hcj]
        obtain ⟨n', a1, a2⟩ := oldToNewGo_spec s ks (o2n.setIfInBounds (t.canon k) (some n)) (n + 1)
          (fun x => P x ∨ x = k) res hks' num' h
        refine ⟨n', ⟨a1.size, a1.sound, fun x hx => a1.total x ?_, a1.inj, a1.surj⟩, ?_⟩
        · rcases hx with hx | hx
          · exact Or.inl (Or.inl hx)
          · rcases List.mem_cons.mp hx with rfl | hx
            · exact Or.inl (Or.inr rfl)
            · exact Or.inr hx
        · intro c j hcj
          apply a2
          rw [hset]
          by_cases e : t.canon k = c
          · rw [← e, ho] at hcj; cases hcj
          · simp [e, hcj]

/-- the result of the first loop: a bijection between the canonical rows and `0..m-1` that
    numbers the class of row 0 with 0 -/
theorem oldToNew_spec {t : Table} (s : Shape t) {o2n : Array (Option Nat)} (h : t.oldToNew = .ok o2n) :
    ∃ m, Numbering t o2n m (fun x => x < t.len) ∧ o2n[t.canon 0]? = some (some 0) := by
  unfold Table.oldToNew at h
  have hpos := s.pos
  have hr : List.range t.len = 0 :: List.range' 1 (t.len - 1) := by
    rw [List.range_eq_range']
    have : t.len = (t.len - 1) + 1 := by omega
    conv_lhs => rw [this]
    rw [List.range'_succ]
  rw [hr] at h
  simp only [Table.oldToNewGo] at h
  have hc0 : t.canon 0 < t.len := canon_lt s hpos
  have h0 : (Array.replicate t.len (none : Option Nat))[t.canon 0]? = some none := by
    rw [Array.getElem?_replicate]; simp [hc0]
  simp only [h0] at h
  have hset : ∀ c, ((Array.replicate t.len (none : Option Nat)).setIfInBounds (t.canon 0) (some 0))[c]? =
      if t.canon 0 = c then some (some 0) else if c < t.len then some none else none := by
    intro c
    rw [Array.getElem?_setIfInBounds, Array.getElem?_replicate]
    by_cases e : t.canon 0 = c
    · subst e; simp [hc0]
    · simp [e]
  have num0 : Numbering t ((Array.replicate t.len (none : Option Nat)).setIfInBounds (t.canon 0) (some 0)) 1
      (fun x => x = 0) := by
    refine ⟨by simp, ?_, ?_, ?_, ?_⟩
    · intro c j hcj
      rw [hset] at hcj
      by_cases e : t.canon 0 = c
      · simp only [e, if_true, Option.some.injEq] at hcj
        subst hcj
        exact ⟨by rw [← e]; exact canon_idem s 0, by omega⟩
      · simp only [e, if_false] at hcj
        split at hcj <;> cases hcj
    · intro x hx
      subst hx
      exact ⟨0, by rw [hset]; simp⟩
    · intro c c' j h1 h2
      rw [hset] at h1 h2
      by_cases e1 : t.canon 0 = c
      · by_cases e2 : t.canon 0 = c'
        · exact e1.symm.trans e2
        · simp only [e2, if_false] at h2
          split at h2 <;> cases h2
      · simp only [e1, if_false] at h1
        split at h1 <;> cases h1
    · intro j hj
      have : j = 0 := by omega
      subst this
      exact ⟨t.canon 0, by rw [hset]; simp⟩
  obtain ⟨m, a1, a2⟩ := oldToNewGo_spec s (List.range' 1 (t.len - 1)) _ 1 (fun x => x = 0) o2n
    (fun k hk => by rw [List.mem_range'_1] at hk; omega) num0 h
  refine ⟨m, ⟨a1.size, a1.sound, fun x hx => a1.total x ?_, a1.inj, a1.surj⟩, ?_⟩
  · by_cases e : x = 0
    · exact Or.inl e
    · right; rw [List.mem_range'_1]; omega
  · apply a2; rw [hset]; simp


/-! ### the second loop of `compact` -/

/-- state of the table under construction: exactly the slots `Wr` have been written -/
structure CInv (t : Table) (o2n : Array (Option Nat)) (m : Nat) (res : Table) (Wr : Nat → Int → Prop) : Prop where
  nr : res.nrGens = t.nrGens
  part : res.part = Part.new
  width : ∀ (x : Nat) (row : Array Int), res.rows[x]? = some row → row.size = res.nrGens * 2 + 1
  wr : ∀ (k : Nat) (g : Int) (c j jc : Nat), g ∈ t.allGens → Wr k g → t.get k g = .ok (some c) →
    o2n[k]? = some (some j) → o2n[c]? = some (some jc) → res.get j g = .ok (some jc)
  unwr : ∀ (j : Nat) (g : Int), g ∈ t.allGens → (∀ k : Nat, o2n[k]? = some (some j) → ¬ Wr k g) →
    res.get j g = .ok none
  lenub : res.len ≤ max 1 m
  lenpos : 1 ≤ res.len
  lenlb : ∀ (k : Nat) (g : Int) (j : Nat), Wr k g → o2n[k]? = some (some j) → j < res.len

theorem cinv_new (t : Table) (o2n : Array (Option Nat)) (m : Nat) :
    CInv t o2n m (Table.new t.nrGens) (fun _ _ => False) := by
  refine ⟨rfl, rfl, ?_, fun _ _ _ _ _ _ h => h.elim, ?_, by simp [Table.len, Table.new]; omega,
    by simp [Table.len, Table.new], fun _ _ _ h => h.elim⟩
  · intro x row hx
    simp only [Table.new] at hx
    by_cases h0 : x = 0
    · subst h0
      simp at hx
      rw [← hx]; simp [blankRow, Table.new]
    · have : (#[blankRow t.nrGens] : Array (Array Int))[x]? = none := by
        apply Array.getElem?_eq_none; simp; omega
      rw [this] at hx; cases hx
  · intro j g hg _
    by_cases h0 : j = 0
    · subst h0
      exact get_blank (t := Table.new t.nrGens) hg (by simp [Table.new])
    · exact get_ge_len g (by simp [Table.len, Table.new]; omega)

theorem compactRow_spec {t : Table} (inv : TCq t []) {o2n : Array (Option Nat)} {m : Nat}
    (num : Numbering t o2n m (fun x => x < t.len)) (k : Nat) (hk : t.canon k = k) (hkl : k < t.len) :
    ∀ (gs : List Int) (res res' : Table) (Wr : Nat → Int → Prop), (∀ g ∈ gs, g ∈ t.allGens) →
      (∀ g ∈ gs, ∃ c, t.get k g = .ok (some c)) →
      CInv t o2n m res Wr → t.compactRow o2n k gs res = .ok res' →
      CInv t o2n m res' (fun k' g' => Wr k' g' ∨ (k' = k ∧ g' ∈ gs))
  | [], res, res', Wr, _, _, ci, h => by
    simp only [Table.compactRow, Outcome.ok.injEq] at h
    subst h
    refine ⟨ci.nr, ci.part, ci.width, fun k' g c j jc hg hw => ci.wr k' g c j jc hg ?_, ?_, ci.lenub,
      ci.lenpos, fun k' g j hw => ci.lenlb k' g j ?_⟩
    · rcases hw with hw | ⟨_, hw⟩
      · exact hw
      · cases hw
    · intro j g hg hn
      exact ci.unwr j g hg (fun k' hk' hw => hn k' hk' (Or.inl hw))
    · rcases hw with hw | ⟨_, hw⟩
      · exact hw
      · cases hw
  | g0 :: gs, res, res', Wr, hgs, hdef, ci, h => by
    have hg0 : g0 ∈ t.allGens := hgs g0 (by simp)
    obtain ⟨c0, hc0⟩ := hdef g0 (by simp)
    simp only [Table.compactRow, hc0] at h
    obtain ⟨j0, hj0⟩ := num.total k hkl
    rw [hk] at hj0
    have hc0l : c0 < t.len := inv.shape.range k g0 c0 hg0 hc0
    obtain ⟨jc0, hjc0⟩ := num.total c0 hc0l
    rw [get_canon inv.shape hc0] at hjc0
    simp only [hj0, hjc0] at h
    cases hs : res.set j0 g0 jc0 with
    | ok res1 =>
      simp only [hs] at h
      have hgr : ∀ g, g ∈ t.allGens → g ∈ res.allGens := fun g hg => by
        unfold Table.allGens at hg ⊢; rw [ci.nr]; exact hg
      have hpart1 : res1.part = Part.new := by rw [(set_ok hs).2.1, ci.part]
      have hcan1 : ∀ x, res1.canon x = x := fun x => canon_clean (by unfold Clean; rw [hpart1]; rfl) x
      have ci1 : CInv t o2n m res1 (fun k' g' => Wr k' g' ∨ (k' = k ∧ g' = g0)) := by
        refine ⟨(set_ok hs).1.trans ci.nr, hpart1, set_width hs ci.width, ?_, ?_, ?_,
          by rw [set_len hs]; have := ci.lenpos; omega, ?_⟩
        · intro k' g c j jc hg hw hget hj hjc
          by_cases e : j = j0 ∧ g = g0
          · obtain ⟨rfl, rfl⟩ := e
            have hkk : k' = k := num.inj k' k j hj hj0
            subst hkk
            rw [hc0] at hget
            injection hget with hget; injection hget with hget
            subst hget
            rw [hjc0] at hjc
            injection hjc with hjc; injection hjc with hjc
            subst hjc
            rw [set_get_self hs, hcan1]
          · rw [set_get_frame hs (hgr g hg) (by tauto)]
            rcases hw with hw | ⟨rfl, rfl⟩
            · exact ci.wr k' g c j jc hg hw hget hj hjc
            · rw [hj0] at hj
              injection hj with hj; injection hj with hj
              exact absurd ⟨hj.symm, rfl⟩ e
        · intro j g hg hn
          have hne : j ≠ j0 ∨ g ≠ g0 := by
            by_contra hcon
            have hcon' : j = j0 ∧ g = g0 := by tauto
            obtain ⟨rfl, rfl⟩ := hcon'
            exact hn k hj0 (Or.inr ⟨rfl, rfl⟩)
          rw [set_get_frame hs (hgr g hg) hne]
          exact ci.unwr j g hg (fun k' hk' hw => hn k' hk' (Or.inl hw))
        · rw [set_len hs]
          have := ci.lenub
          have := (num.sound k j0 hj0).2
          omega
        · intro k' g j hw hj
          rw [set_len hs]
          rcases hw with hw | ⟨rfl, rfl⟩
          · have := ci.lenlb k' g j hw hj; omega
          · rw [hj0] at hj
            injection hj with hj; injection hj with hj
            omega
      have := compactRow_spec inv num k hk hkl gs res1 res' _ (fun g hg => hgs g (by simp [hg]))
        (fun g hg => hdef g (by simp [hg])) ci1 h
      refine ⟨this.nr, this.part, this.width, fun k' g c j jc hg hw => this.wr k' g c j jc hg ?_, ?_,
        this.lenub, this.lenpos, fun k' g j hw => this.lenlb k' g j ?_⟩
      · rcases hw with hw | ⟨e1, e2⟩
        · exact Or.inl (Or.inl hw)
        · rcases List.mem_cons.mp e2 with rfl | e2
          · exact Or.inl (Or.inr ⟨e1, rfl⟩)
          · exact Or.inr ⟨e1, e2⟩
      · intro j g hg hn
        apply this.unwr j g hg
        intro k' hk' hw
        apply hn k' hk'
        rcases hw with (hw | ⟨e1, e2⟩) | ⟨e1, e2⟩
        · exact Or.inl hw
        · exact Or.inr ⟨e1, by simp [e2]⟩
        · exact Or.inr ⟨e1, by simp [e2]⟩
      · rcases hw with hw | ⟨e1, e2⟩
        · exact Or.inl (Or.inl hw)
        · rcases List.mem_cons.mp e2 with rfl | e2
          · exact Or.inl (Or.inr ⟨e1, rfl⟩)
          · exact Or.inr ⟨e1, e2⟩
    | err => simp [hs] at h
    | panic => simp [hs] at h


theorem CInv.weaken {t : Table} {o2n : Array (Option Nat)} {m : Nat} {res : Table}
    {Wr Wr' : Nat → Int → Prop} (ci : CInv t o2n m res Wr) (h : ∀ k g, Wr' k g ↔ Wr k g) :
    CInv t o2n m res Wr' :=
  ⟨ci.nr, ci.part, ci.width, fun k g c j jc hg hw => ci.wr k g c j jc hg ((h k g).mp hw),
    fun j g hg hn => ci.unwr j g hg (fun k hk hw => hn k hk ((h k g).mpr hw)), ci.lenub, ci.lenpos,
    fun k g j hw => ci.lenlb k g j ((h k g).mp hw)⟩

theorem compactRows_spec {t : Table} (inv : TCq t []) (hcomp : AllComplete t) {o2n : Array (Option Nat)}
    {m : Nat} (num : Numbering t o2n m (fun x => x < t.len)) :
    ∀ (ks : List Nat) (res res' : Table) (Wr : Nat → Int → Prop), (∀ k ∈ ks, k < t.len) →
      CInv t o2n m res Wr → t.compactRows o2n ks res = .ok res' →
      CInv t o2n m res' (fun k g => Wr k g ∨ (k ∈ ks ∧ t.canon k = k ∧ g ∈ t.allGens))
  | [], res, res', Wr, _, ci, h => by
    simp only [Table.compactRows, Outcome.ok.injEq] at h
    subst h
    exact ci.weaken (fun k g => by simp)
  | k :: ks, res, res', Wr, hks, ci, h => by
    simp only [Table.compactRows] at h
    have hkl : k < t.len := hks k (by simp)
    have hks' : ∀ k' ∈ ks, k' < t.len := fun k' h' => hks k' (by simp [h'])
    by_cases hk : t.canon k = k
    · simp only [hk, if_true] at h
      cases hr : t.compactRow o2n k t.allGens res with
      | ok res1 =>
        simp only [hr] at h
        have c1 := compactRow_spec inv num k hk hkl t.allGens res res1 Wr (fun g hg => hg)
          (fun g hg => (get_some_iff t k g).mpr (hcomp k hkl hk g hg)) ci hr
        have c2 := compactRows_spec inv hcomp num ks res1 res' _ hks' c1 h
        refine c2.weaken (fun k' g => ?_)
        constructor
        · rintro (hw | ⟨e1, e2, e3⟩)
          · exact Or.inl (Or.inl hw)
          · rcases List.mem_cons.mp e1 with rfl | e1
            · exact Or.inl (Or.inr ⟨rfl, e3⟩)
            · exact Or.inr ⟨e1, e2, e3⟩
        · rintro ((hw | ⟨rfl, e3⟩) | ⟨e1, e2, e3⟩)
          · exact Or.inl hw
          · exact Or.inr ⟨by simp, hk, e3⟩
          · exact Or.inr ⟨by simp [e1], e2, e3⟩
      | err => simp [hr] at h
      | panic => simp [hr] at h
    · simp only [hk, if_false] at h
      have c2 := compactRows_spec inv hcomp num ks res res' Wr hks' ci h
      refine c2.weaken (fun k' g => ?_)
      constructor
      · rintro (hw | ⟨e1, e2, e3⟩)
        · exact Or.inl hw
        · rcases List.mem_cons.mp e1 with rfl | e1
          · exact absurd e2 hk
          · exact Or.inr ⟨e1, e2, e3⟩
      · rintro (hw | ⟨e1, e2, e3⟩)
        · exact Or.inl hw
        · exact Or.inr ⟨by simp [e1], e2, e3⟩

/-- `compact()` of a complete table without pending coincidences: a table with an empty
    union-find whose rows are the classes, numbered by a bijection that sends the class of
    row 0 to 0, and whose entries are the images of the entries of the canonical rows -/
theorem compact_spec' {t t' : Table} (inv : TCq t []) (hcomp : AllComplete t) (h : t.compact = .ok t') :
    ∃ (o2n : Array (Option Nat)) (m : Nat), t.oldToNew = .ok o2n ∧ Numbering t o2n m (fun x => x < t.len) ∧
      o2n[t.canon 0]? = some (some 0) ∧ t'.nrGens = t.nrGens ∧ t'.part = Part.new ∧
      (∀ (x : Nat) (row : Array Int), t'.rows[x]? = some row → row.size = t'.nrGens * 2 + 1) ∧
      t'.len = m ∧
      ∀ (k : Nat) (g : Int) (c j jc : Nat), g ∈ t.allGens → t.canon k = k → k < t.len →
        t.get k g = .ok (some c) → o2n[k]? = some (some j) → o2n[c]? = some (some jc) →
        t'.get j g = .ok (some jc) := by
  unfold Table.compact at h
  cases ho : t.oldToNew with
  | ok o2n =>
    simp only [ho] at h
    obtain ⟨m, num, h0⟩ := oldToNew_spec inv.shape ho
    have ci := compactRows_spec inv hcomp num (List.range t.len) _ t' _
      (fun k hk => List.mem_range.mp hk) (cinv_new t o2n m) h
    have hm1 : 1 ≤ m := by have := (num.sound _ _ h0).2; omega
    refine ⟨o2n, m, rfl, num, h0, ci.nr, ci.part, ci.width, ?_, ?_⟩
    · have hub := ci.lenub
      have hlb := ci.lenpos
      by_cases hn : t.allGens = []
      · -- no generators: a single row
        have hlen1 : t.len = 1 := by
          by_contra hne
          obtain ⟨g, hg, _⟩ := inv.creation 1 (by omega) (by have := inv.shape.pos; omega)
          rw [hn] at hg; cases hg
        have : m ≤ 1 := by
          by_contra hgt
          obtain ⟨c0, hc0⟩ := num.surj 0 (by omega)
          obtain ⟨c1, hc1⟩ := num.surj 1 (by omega)
          have l0 : c0 < t.len := by
            by_contra hx
            rw [Array.getElem?_eq_none (by rw [num.size]; omega)] at hc0; cases hc0
          have l1 : c1 < t.len := by
            by_contra hx
            rw [Array.getElem?_eq_none (by rw [num.size]; omega)] at hc1; cases hc1
          have : c0 = c1 := by omega
          subst this
          rw [hc0] at hc1
          injection hc1 with hc1; injection hc1 with hc1
          omega
        omega
      · obtain ⟨g, hg⟩ := List.exists_mem_of_ne_nil _ hn
        obtain ⟨c, hc⟩ := num.surj (m - 1) (by omega)
        have hcl : c < t.len := by
          by_contra hx
          rw [Array.getElem?_eq_none (by rw [num.size]; omega)] at hc; cases hc
        have := ci.lenlb c g (m - 1) (Or.inr ⟨List.mem_range.mpr hcl, (num.sound c _ hc).1, hg⟩) hc
        omega
    · intro k g c j jc hg hk hkl hget hj hjc
      exact ci.wr k g c j jc hg (Or.inr ⟨List.mem_range.mpr hkl, hk, hg⟩) hget hj hjc
  | err => simp [ho] at h
  | panic => simp [ho] at h


theorem compact_spec {t t' : Table} (inv : TCq t []) (hcomp : AllComplete t) (h : t.compact = .ok t') :
    ∃ (o2n : Array (Option Nat)) (m : Nat), Numbering t o2n m (fun x => x < t.len) ∧
      o2n[t.canon 0]? = some (some 0) ∧ t'.nrGens = t.nrGens ∧ t'.part = Part.new ∧
      (∀ (x : Nat) (row : Array Int), t'.rows[x]? = some row → row.size = t'.nrGens * 2 + 1) ∧
      t'.len = m ∧
      ∀ (k : Nat) (g : Int) (c j jc : Nat), g ∈ t.allGens → t.canon k = k → k < t.len →
        t.get k g = .ok (some c) → o2n[k]? = some (some j) → o2n[c]? = some (some jc) →
        t'.get j g = .ok (some jc) := by
  obtain ⟨o2n, m, _, rest⟩ := compact_spec' inv hcomp h
  exact ⟨o2n, m, rest⟩

end DSymVerif.CosetInvP
