/-
Helper lemmas for property C02, part 4: `collect_orbits` — the nested-loop invariant.
For a complete involutive D-set, row `i` of the computed index table is constant exactly
on the ⟨op i, op (i+1)⟩-orbits and `rs[index[i][d]]` is the least period of `d` under
`op (i+1) ∘ op i`.
-/
import DSymVerif.Proofs.DSetOrb2

namespace DSymVerif.DS

/-! ### array reading lemmas -/

theorem getD_setIfInBounds {α} (a : Array α) (p x : Nat) (v dflt : α) :
    (a.setIfInBounds p v).getD x dflt = if p = x ∧ p < a.size then v else a.getD x dflt := by
  simp only [Array.getD_eq_getD_getElem?, Array.getElem?_setIfInBounds]
  by_cases h1 : p = x
  · subst h1
    by_cases h2 : p < a.size
    · simp [h2]
    · simp [h2]
  · simp [h1]

theorem getD_set2 {α} (a : Array α) (p q x : Nat) (v dflt : α) (hp : p < a.size) (hq : q < a.size) :
    ((a.setIfInBounds p v).setIfInBounds q v).getD x dflt = if x = p ∨ x = q then v else a.getD x dflt := by
  rw [getD_setIfInBounds, getD_setIfInBounds, Array.size_setIfInBounds]
  by_cases h1 : q = x
  · subst h1; simp [hq]
  · by_cases h2 : p = x
    · subst h2; simp [hp]
    · have h1' : ¬ x = q := fun h => h1 h.symm
      have h2' : ¬ x = p := fun h => h2 h.symm
      simp [h1, h2, h1', h2']

theorem getD_push_lt {α} (a : Array α) (x : Nat) (v dflt : α) (h : x < a.size) :
    (a.push v).getD x dflt = a.getD x dflt := by
  simp only [Array.getD_eq_getD_getElem?, Array.getElem?_push]
  rw [if_neg (by omega)]

theorem getD_push_eq {α} (a : Array α) (v dflt : α) : (a.push v).getD a.size dflt = v := by
  simp only [Array.getD_eq_getD_getElem?, Array.getElem?_push]
  simp

theorem getD_replicate {α} (n x : Nat) (v : α) : (Array.replicate n v).getD x v = v := by
  simp only [Array.getD_eq_getD_getElem?, Array.getElem?_replicate]
  split <;> rfl

theorem getD_setIfInBounds_self {α} (a : Array α) (p : Nat) (v dflt : α) (h : p < a.size) :
    (a.setIfInBounds p v).getD p dflt = v := by
  rw [getD_setIfInBounds]; simp [h]

theorem getD_setIfInBounds_ne {α} (a : Array α) (p x : Nat) (v dflt : α) (h : p ≠ x) :
    (a.setIfInBounds p v).getD x dflt = a.getD x dflt := by
  rw [getD_setIfInBounds]; simp [h]

/-! ### the inner `loop` -/

/-- chambers written by the iterations `lo ≤ t < hi` of the inner loop started at `d` -/
def Marked (s : DSetData) (i d lo hi x : Nat) : Prop :=
  ∃ t, lo ≤ t ∧ t < hi ∧
    (x = s.opU i ((s.comp i (i + 1))^[t] d) ∨ x = (s.comp i (i + 1))^[t + 1] d)

theorem collectLoop_spec {s : DSetData} (h : ValidSet s) {i : Nat} (hi : i + 1 ≤ s.dim) {d : Nat}
    (hd : 1 ≤ d ∧ d ≤ s.size) {k : Nat} (hk : IsLeastPeriod s i (i + 1) d k) (nr : Nat) :
    ∀ fuel steps ch ix seen, steps < k → k - steps ≤ fuel → ix.size = s.size + 1 → seen.size = s.size + 1 →
      ∃ ch' ix' seen',
        collectLoop s i d nr fuel ((s.comp i (i + 1))^[steps] d) steps ch ix seen = (k, ch', ix', seen') ∧
        ix'.size = s.size + 1 ∧ seen'.size = s.size + 1 ∧
        (∀ x, Marked s i d steps k x → ix'.getD x 0 = nr ∧ seen'.getD x false = true) ∧
        (∀ x, ¬ Marked s i d steps k x → ix'.getD x 0 = ix.getD x 0 ∧ seen'.getD x false = seen.getD x false)
  | 0, steps, ch, ix, seen, h1, h2, _, _ => by omega
  | fuel + 1, steps, ch, ix, seen, h1, h2, hix, hseen => by
    have hi0 : i ≤ s.dim := by omega
    have he := h.comp_range hi0 hi hd.1 hd.2 steps
    generalize hE : (s.comp i (i + 1))^[steps] d = e at he
    have hei := h.range i e hi0 he.1 he.2
    have he' := h.range (i + 1) _ hi hei.1 hei.2
    have hiter : (s.comp i (i + 1))^[steps + 1] d = s.opU (i + 1) (s.opU i e) := by
      rw [Function.iterate_succ_apply', hE]; rfl
    unfold collectLoop
    simp only
    have hgx : ∀ x, (((ix.setIfInBounds (s.opU i e) nr).setIfInBounds (s.opU (i + 1) (s.opU i e)) nr).getD x 0 =
        if x = s.opU i e ∨ x = s.opU (i + 1) (s.opU i e) then nr else ix.getD x 0) :=
      fun x => getD_set2 ix _ _ x nr 0 (by omega) (by omega)
    have hgs : ∀ x, (((seen.setIfInBounds (s.opU i e) true).setIfInBounds (s.opU (i + 1) (s.opU i e)) true).getD x false =
        if x = s.opU i e ∨ x = s.opU (i + 1) (s.opU i e) then true else seen.getD x false) :=
      fun x => getD_set2 seen _ _ x true false (by omega) (by omega)
    by_cases hc : s.opU (i + 1) (s.opU i e) = d
    · rw [if_pos hc]
      have hk' : steps + 1 = k := by
        by_cases hlt : steps + 1 < k
        · exact absurd (show IsPeriod s i (i + 1) (steps + 1) d from hiter.trans hc) (hk.2.2 _ (by omega) hlt)
        · omega
      refine ⟨_, _, _, by rw [hk'], by simp [hix], by simp [hseen], ?_, ?_⟩
      · rintro x ⟨t, ht1, ht2, hx⟩
        have : t = steps := by omega
        subst this
        rw [hE, hiter] at hx
        rw [hgx, hgs, if_pos hx, if_pos hx]; exact ⟨rfl, rfl⟩
      · intro x hx
        have : ¬ (x = s.opU i e ∨ x = s.opU (i + 1) (s.opU i e)) := by
          intro hor
          exact hx ⟨steps, Nat.le_refl _, h1, by rw [hE, hiter]; exact hor⟩
        rw [hgx, hgs, if_neg this, if_neg this]; exact ⟨rfl, rfl⟩
    · rw [if_neg hc]
      have hk' : steps + 1 < k := by
        by_cases heq : steps + 1 = k
        · exfalso; apply hc; rw [← hiter, heq]; exact hk.2.1
        · omega
      obtain ⟨ch', ix', seen', heq, hs1, hs2, hm, hn⟩ :=
        collectLoop_spec h hi hd hk nr fuel (steps + 1) (ch || s.opU i e == e || s.opU (i + 1) (s.opU i e) == s.opU i e)
          ((ix.setIfInBounds (s.opU i e) nr).setIfInBounds (s.opU (i + 1) (s.opU i e)) nr)
          ((seen.setIfInBounds (s.opU i e) true).setIfInBounds (s.opU (i + 1) (s.opU i e)) true)
          hk' (by omega) (by simp [hix]) (by simp [hseen])
      rw [hiter] at heq
      refine ⟨ch', ix', seen', heq, hs1, hs2, ?_, ?_⟩
      · rintro x ⟨t, ht1, ht2, hx⟩
        by_cases hts : t = steps
        · subst hts
          rw [hE, hiter] at hx
          by_cases hM : Marked s i d (t + 1) k x
          · exact hm x hM
          · have := hn x hM
            rw [hgx, hgs, if_pos hx, if_pos hx] at this; exact this
        · exact hm x ⟨t, by omega, ht2, hx⟩
      · intro x hx
        have hM : ¬ Marked s i d (steps + 1) k x := by
          rintro ⟨t, ht1, ht2, hx'⟩; exact hx ⟨t, by omega, ht2, hx'⟩
        have : ¬ (x = s.opU i e ∨ x = s.opU (i + 1) (s.opU i e)) := by
          intro hor
          exact hx ⟨steps, Nat.le_refl _, h1, by rw [hE, hiter]; exact hor⟩
        have := hn x hM
        rw [hgx, hgs, if_neg ‹_›, if_neg ‹_›] at this; exact this

/-- one full run of the inner loop marks exactly the ⟨op i, op (i+1)⟩-orbit of `d` -/
theorem marked_iff_orb {s : DSetData} (h : ValidSet s) {i : Nat} (hi : i + 1 ≤ s.dim) {d : Nat}
    (hd : 1 ≤ d ∧ d ≤ s.size) {k : Nat} (hk : IsLeastPeriod s i (i + 1) d k) (x : Nat) :
    Marked s i d 0 k x ↔ Orb2 s i (i + 1) d x := by
  have hi0 : i ≤ s.dim := by omega
  constructor
  · rintro ⟨t, _, _, hx | hx⟩
    · rw [hx]; exact Orb2.stepI (Orb2.iter d t)
    · rw [hx]; exact Orb2.iter d (t + 1)
  · intro ho
    induction ho with
    | refl =>
      exact ⟨k - 1, Nat.zero_le _, by have := hk.1; omega,
        Or.inr (by rw [Nat.sub_add_cancel hk.1]; exact hk.2.1.symm)⟩
    | @stepI e _ ih =>
      obtain ⟨t, _, ht, hx | hx⟩ := ih
      · -- e = op i (g^t d)
        have hr := h.comp_range hi0 hi hd.1 hd.2 t
        rw [hx, h.invol i _ hi0 hr.1 hr.2]
        cases t with
        | zero =>
          exact ⟨k - 1, Nat.zero_le _, by have := hk.1; omega,
            Or.inr (by rw [Nat.sub_add_cancel hk.1]; exact hk.2.1.symm)⟩
        | succ t' => exact ⟨t', Nat.zero_le _, by omega, Or.inr rfl⟩
      · by_cases hlt : t + 1 < k
        · exact ⟨t + 1, Nat.zero_le _, hlt, Or.inl (by rw [hx])⟩
        · have : t + 1 = k := by omega
          refine ⟨0, Nat.zero_le _, by omega, Or.inl ?_⟩
          rw [hx, this, hk.2.1]; rfl
    | @stepJ e _ ih =>
      obtain ⟨t, _, ht, hx | hx⟩ := ih
      · refine ⟨t, Nat.zero_le _, ht, Or.inr ?_⟩
        rw [hx, Function.iterate_succ_apply']; rfl
      · refine ⟨t, Nat.zero_le _, ht, Or.inl ?_⟩
        have hr := h.comp_range hi0 hi hd.1 hd.2 t
        have hr' := h.range i _ hi0 hr.1 hr.2
        rw [hx, Function.iterate_succ_apply']
        show s.opU (i + 1) (s.opU (i + 1) (s.opU i _)) = _
        rw [h.invol (i + 1) _ hi hr'.1 hr'.2]

/-! ### the two `for` loops -/

/-- body of `for d in 1..=size` -/
def collectStep (ds : DSetData) (i : Nat) (st : CollectState) (d0 : Nat) : CollectState :=
  let d := d0 + 1
  if st.seen.getD d false then st
  else
    let nr := st.rs.size
    let (steps, ch, ix, seen) :=
      collectLoop ds i d nr (ds.size + 1) d 0 false (st.index.getD i #[]) st.seen
    { rs := st.rs.push steps, chain := st.chain.push ch,
      index := st.index.setIfInBounds i ix, seen := seen }

/-- body of `for i in 0..dim` -/
def collectRow (ds : DSetData) (st : CollectState) (i : Nat) : CollectState :=
  (List.range ds.size).foldl (collectStep ds i)
    { st with seen := Array.replicate (ds.size + 1) false }

def collectInit (ds : DSetData) : CollectState :=
  { rs := #[], chain := #[], index := Array.replicate ds.dim (Array.replicate (ds.size + 1) 0),
    seen := Array.replicate (ds.size + 1) false }

def collectFinal (ds : DSetData) : CollectState := (List.range ds.dim).foldl (collectRow ds) (collectInit ds)

theorem collectOrbits_eq (ds : DSetData) :
    collectOrbits ds =
      { rs := (collectFinal ds).rs, isChain := (collectFinal ds).chain, index := (collectFinal ds).index } := rfl

/-- a finished row of the index table -/
structure RowOK (s : DSetData) (rs : Array Nat) (row : Array Nat) (i : Nat) : Prop where
  size : row.size = s.size + 1
  lt : ∀ x, 1 ≤ x → x ≤ s.size → row.getD x 0 < rs.size
  per : ∀ x, 1 ≤ x → x ≤ s.size → IsLeastPeriod s i (i + 1) x (rs.getD (row.getD x 0) 0)
  iff : ∀ x y, 1 ≤ x → x ≤ s.size → 1 ≤ y → y ≤ s.size →
    (row.getD x 0 = row.getD y 0 ↔ Orb2 s i (i + 1) x y)

theorem RowOK.push {s : DSetData} {rs row : Array Nat} {i : Nat} (h : RowOK s rs row i) (v : Nat) :
    RowOK s (rs.push v) row i := by
  refine ⟨h.size, ?_, ?_, h.iff⟩
  · intro x h1 h2; rw [Array.size_push]; exact Nat.lt_succ_of_lt (h.lt x h1 h2)
  · intro x h1 h2; rw [getD_push_lt _ _ _ _ (h.lt x h1 h2)]; exact h.per x h1 h2

/-- invariant of `for d in 1..=size` after the chambers `1..n` -/
structure InnerInv (s : DSetData) (i lo n : Nat) (st : CollectState) : Prop where
  seenSize : st.seen.size = s.size + 1
  indexSize : st.index.size = s.dim
  rowSize : ∀ i', i' < s.dim → (st.index.getD i' #[]).size = s.size + 1
  done : ∀ x, 1 ≤ x → x ≤ n → x ≤ s.size → st.seen.getD x false = true
  closed : ∀ x y, 1 ≤ x → x ≤ s.size → st.seen.getD x false = true → Orb2 s i (i + 1) x y →
    st.seen.getD y false = true
  lt : ∀ x, 1 ≤ x → x ≤ s.size → st.seen.getD x false = true → (st.index.getD i #[]).getD x 0 < st.rs.size
  per : ∀ x, 1 ≤ x → x ≤ s.size → st.seen.getD x false = true →
    IsLeastPeriod s i (i + 1) x (st.rs.getD ((st.index.getD i #[]).getD x 0) 0)
  iff : ∀ x y, 1 ≤ x → x ≤ s.size → 1 ≤ y → y ≤ s.size →
    st.seen.getD x false = true → st.seen.getD y false = true →
    ((st.index.getD i #[]).getD x 0 = (st.index.getD i #[]).getD y 0 ↔ Orb2 s i (i + 1) x y)
  prev : ∀ i', i' < i → RowOK s st.rs (st.index.getD i' #[]) i'
  loLe : lo ≤ st.rs.size
  geLo : ∀ x, 1 ≤ x → x ≤ s.size → st.seen.getD x false = true → lo ≤ (st.index.getD i #[]).getD x 0
  prevLt : ∀ i', i' < i → ∀ x, 1 ≤ x → x ≤ s.size → (st.index.getD i' #[]).getD x 0 < lo
  sep : ∀ i' i'', i' < i'' → i'' < i → ∀ x y, 1 ≤ x → x ≤ s.size → 1 ≤ y → y ≤ s.size →
    (st.index.getD i' #[]).getD x 0 < (st.index.getD i'' #[]).getD y 0
  surj : ∀ k, k < st.rs.size →
    (∃ i' x, i' < i ∧ 1 ≤ x ∧ x ≤ s.size ∧ (st.index.getD i' #[]).getD x 0 = k) ∨
    (∃ x, 1 ≤ x ∧ x ≤ s.size ∧ st.seen.getD x false = true ∧ (st.index.getD i #[]).getD x 0 = k)

theorem InnerInv.step {s : DSetData} (h : ValidSet s) {i : Nat} (hi : i + 1 ≤ s.dim) {lo n : Nat} (hn : n < s.size)
    {st : CollectState} (inv : InnerInv s i lo n st) : InnerInv s i lo (n + 1) (collectStep s i st n) := by
  have hi0 : i ≤ s.dim := by omega
  unfold collectStep
  simp only
  by_cases hseen : st.seen.getD (n + 1) false = true
  · rw [if_pos hseen]
    refine ⟨inv.seenSize, inv.indexSize, inv.rowSize, ?_, inv.closed, inv.lt, inv.per, inv.iff, inv.prev,
      inv.loLe, inv.geLo, inv.prevLt, inv.sep, inv.surj⟩
    intro x h1 h2 h3
    by_cases hx : x = n + 1
    · rw [hx]; exact hseen
    · exact inv.done x h1 (by omega) h3
  · rw [if_neg hseen]
    have hd : 1 ≤ n + 1 ∧ n + 1 ≤ s.size := ⟨by omega, by omega⟩
    obtain ⟨k, hks, hk, _⟩ := r_generic_least h hi0 hi hd
    obtain ⟨ch', ix', seen', heq, hs1, hs2, hm, hnm⟩ :=
      collectLoop_spec h hi hd hk st.rs.size (s.size + 1) 0 false (st.index.getD i #[]) st.seen
        hk.1 (by omega) (inv.rowSize i (by omega)) inv.seenSize
    have heq' : collectLoop s i (n + 1) st.rs.size (s.size + 1) (n + 1) 0 false (st.index.getD i #[]) st.seen
        = (k, ch', ix', seen') := heq
    rw [heq']
    simp only
    -- abbreviations
    have hM : ∀ x, Marked s i (n + 1) 0 k x ↔ Orb2 s i (i + 1) (n + 1) x := marked_iff_orb h hi hd hk
    have hrow : (st.index.setIfInBounds i ix').getD i #[] = ix' :=
      getD_setIfInBounds_self _ _ _ _ (by rw [inv.indexSize]; omega)
    have hrow' : ∀ i', i' ≠ i → (st.index.setIfInBounds i ix').getD i' #[] = st.index.getD i' #[] :=
      fun i' hne => getD_setIfInBounds_ne _ _ _ _ _ (fun h => hne h.symm)
    -- marked chambers were unseen
    have hunseen : ∀ x, 1 ≤ x → x ≤ s.size → Marked s i (n + 1) 0 k x → st.seen.getD x false = true → False := by
      intro x h1 h2 hmx hsx
      apply hseen
      exact inv.closed x (n + 1) h1 h2 hsx (Orb2.symm h hi0 hi hd ((hM x).1 hmx))
    have hmono : ∀ x, st.seen.getD x false = true → seen'.getD x false = true := by
      intro x hx
      by_cases hmx : Marked s i (n + 1) 0 k x
      · exact (hm x hmx).2
      · rw [(hnm x hmx).2]; exact hx
    have hold : ∀ x, ¬ Marked s i (n + 1) 0 k x → seen'.getD x false = true → st.seen.getD x false = true := by
      intro x hmx hx; rw [(hnm x hmx).2] at hx; exact hx
    refine ⟨hs2, by simp [inv.indexSize], ?_, ?_, ?_, ?_, ?_, ?_, ?_, ?_, ?_, ?_, ?_, ?_⟩
    · intro i' hi'
      by_cases he : i' = i
      · subst he; show ((st.index.setIfInBounds i' ix').getD i' #[]).size = _; rw [hrow]; exact hs1
      · show ((st.index.setIfInBounds i ix').getD i' #[]).size = _; rw [hrow' i' he]; exact inv.rowSize i' hi'
    · intro x h1 h2 h3
      show seen'.getD x false = true
      by_cases hx : x = n + 1
      · rw [hx]; exact (hm _ ((hM _).2 (Orb2.refl _))).2
      · exact hmono x (inv.done x h1 (by omega) h3)
    · intro x y h1 h2 hsx hxy
      show seen'.getD y false = true
      by_cases hmx : Marked s i (n + 1) 0 k x
      · exact (hm y ((hM y).2 (((hM x).1 hmx).trans hxy))).2
      · exact hmono y (inv.closed x y h1 h2 (hold x hmx hsx) hxy)
    · intro x h1 h2 hsx
      show ((st.index.setIfInBounds i ix').getD i #[]).getD x 0 < (st.rs.push k).size
      rw [hrow, Array.size_push]
      by_cases hmx : Marked s i (n + 1) 0 k x
      · rw [(hm x hmx).1]; omega
      · rw [(hnm x hmx).1]; exact Nat.lt_succ_of_lt (inv.lt x h1 h2 (hold x hmx hsx))
    · intro x h1 h2 hsx
      show IsLeastPeriod s i (i + 1) x ((st.rs.push k).getD (((st.index.setIfInBounds i ix').getD i #[]).getD x 0) 0)
      rw [hrow]
      by_cases hmx : Marked s i (n + 1) 0 k x
      · rw [(hm x hmx).1, getD_push_eq]
        exact IsLeastPeriod.orb h hi0 hi hd ((hM x).1 hmx) hk
      · rw [(hnm x hmx).1, getD_push_lt _ _ _ _ (inv.lt x h1 h2 (hold x hmx hsx))]
        exact inv.per x h1 h2 (hold x hmx hsx)
    · intro x y hx1 hx2 hy1 hy2 hsx hsy
      show (((st.index.setIfInBounds i ix').getD i #[]).getD x 0 = ((st.index.setIfInBounds i ix').getD i #[]).getD y 0) ↔ _
      rw [hrow]
      by_cases hmx : Marked s i (n + 1) 0 k x
      · by_cases hmy : Marked s i (n + 1) 0 k y
        · rw [(hm x hmx).1, (hm y hmy).1]
          exact ⟨fun _ => (Orb2.symm h hi0 hi hd ((hM x).1 hmx)).trans ((hM y).1 hmy), fun _ => rfl⟩
        · rw [(hm x hmx).1, (hnm y hmy).1]
          have := inv.lt y hy1 hy2 (hold y hmy hsy)
          constructor
          · intro he; omega
          · intro ho; exact absurd ((hM y).2 (((hM x).1 hmx).trans ho)) hmy
      · by_cases hmy : Marked s i (n + 1) 0 k y
        · rw [(hnm x hmx).1, (hm y hmy).1]
          have := inv.lt x hx1 hx2 (hold x hmx hsx)
          constructor
          · intro he; omega
          · intro ho
            exact absurd ((hM x).2 (((hM y).1 hmy).trans (Orb2.symm h hi0 hi ⟨hx1, hx2⟩ ho))) hmx
        · rw [(hnm x hmx).1, (hnm y hmy).1]
          exact inv.iff x y hx1 hx2 hy1 hy2 (hold x hmx hsx) (hold y hmy hsy)
    · intro i' hi'
      show RowOK s (st.rs.push k) ((st.index.setIfInBounds i ix').getD i' #[]) i'
      rw [hrow' i' (by omega)]
      exact (inv.prev i' hi').push k
    · show lo ≤ (st.rs.push k).size
      rw [Array.size_push]; exact Nat.le_succ_of_le inv.loLe
    · intro x h1 h2 hsx
      show lo ≤ ((st.index.setIfInBounds i ix').getD i #[]).getD x 0
      rw [hrow]
      by_cases hmx : Marked s i (n + 1) 0 k x
      · rw [(hm x hmx).1]; exact inv.loLe
      · rw [(hnm x hmx).1]; exact inv.geLo x h1 h2 (hold x hmx hsx)
    · intro i' hi' x h1 h2
      show ((st.index.setIfInBounds i ix').getD i' #[]).getD x 0 < lo
      rw [hrow' i' (by omega)]; exact inv.prevLt i' hi' x h1 h2
    · intro i' i'' h12 h2i x y hx1 hx2 hy1 hy2
      show ((st.index.setIfInBounds i ix').getD i' #[]).getD x 0 < ((st.index.setIfInBounds i ix').getD i'' #[]).getD y 0
      rw [hrow' i' (by omega), hrow' i'' (by omega)]; exact inv.sep i' i'' h12 h2i x y hx1 hx2 hy1 hy2
    · intro k' hk'
      show (∃ i' x, i' < i ∧ 1 ≤ x ∧ x ≤ s.size ∧ ((st.index.setIfInBounds i ix').getD i' #[]).getD x 0 = k') ∨
        (∃ x, 1 ≤ x ∧ x ≤ s.size ∧ seen'.getD x false = true ∧ ((st.index.setIfInBounds i ix').getD i #[]).getD x 0 = k')
      rw [hrow]
      have hk'' : k' < st.rs.size + 1 := by simpa [Array.size_push] using hk'
      by_cases hnew : k' = st.rs.size
      · right
        have hmd : Marked s i (n + 1) 0 k (n + 1) := (hM _).2 (Orb2.refl _)
        exact ⟨n + 1, hd.1, hd.2, (hm _ hmd).2, by rw [(hm _ hmd).1, hnew]⟩
      · rcases inv.surj k' (by omega) with ⟨i', x, hi', hx1, hx2, hx⟩ | ⟨x, hx1, hx2, hsx, hx⟩
        · left; exact ⟨i', x, hi', hx1, hx2, by rw [hrow' i' (by omega)]; exact hx⟩
        · right
          have hmx : ¬ Marked s i (n + 1) 0 k x := fun hc => hunseen x hx1 hx2 hc hsx
          exact ⟨x, hx1, hx2, hmono x hsx, by rw [(hnm x hmx).1]; exact hx⟩

theorem InnerInv.fold {s : DSetData} (h : ValidSet s) {i : Nat} (hi : i + 1 ≤ s.dim) {lo : Nat}
    {st : CollectState} (inv : InnerInv s i lo 0 st) :
    ∀ n, n ≤ s.size → InnerInv s i lo n ((List.range n).foldl (collectStep s i) st)
  | 0, _ => inv
  | n + 1, hn => by
    rw [List.range_succ, List.foldl_append]
    exact (InnerInv.fold h hi inv n (by omega)).step h hi (by omega)

/-- invariant of `for i in 0..dim` -/
structure OuterInv (s : DSetData) (i : Nat) (st : CollectState) : Prop where
  indexSize : st.index.size = s.dim
  rowSize : ∀ i', i' < s.dim → (st.index.getD i' #[]).size = s.size + 1
  prev : ∀ i', i' < i → RowOK s st.rs (st.index.getD i' #[]) i'
  sep : ∀ i' i'', i' < i'' → i'' < i → ∀ x y, 1 ≤ x → x ≤ s.size → 1 ≤ y → y ≤ s.size →
    (st.index.getD i' #[]).getD x 0 < (st.index.getD i'' #[]).getD y 0
  surj : ∀ k, k < st.rs.size → ∃ i' x, i' < i ∧ 1 ≤ x ∧ x ≤ s.size ∧ (st.index.getD i' #[]).getD x 0 = k

theorem OuterInv.step {s : DSetData} (h : ValidSet s) {i : Nat} (hi : i + 1 ≤ s.dim)
    {st : CollectState} (inv : OuterInv s i st) : OuterInv s (i + 1) (collectRow s st i) := by
  have h0 : InnerInv s i st.rs.size 0 { st with seen := Array.replicate (s.size + 1) false } := by
    have hf : ∀ x, (Array.replicate (s.size + 1) false).getD x false = true → False := by
      intro x hx; rw [getD_replicate] at hx; cases hx
    refine ⟨by simp, inv.indexSize, inv.rowSize, ?_, ?_, ?_, ?_, ?_, inv.prev, Nat.le_refl _, ?_, ?_, inv.sep,
      fun k hk => Or.inl (inv.surj k hk)⟩
    · intro x h1 h2; omega
    · intro x y _ _ hx; exact (hf x hx).elim
    · intro x _ _ hx; exact (hf x hx).elim
    · intro x _ _ hx; exact (hf x hx).elim
    · intro x y _ _ _ _ hx; exact (hf x hx).elim
    · intro x _ _ hx; exact (hf x hx).elim
    · intro i' hi' x h1 h2; exact (inv.prev i' hi').lt x h1 h2
  have hfin := InnerInv.fold h hi h0 s.size (Nat.le_refl _)
  refine ⟨hfin.indexSize, hfin.rowSize, ?_, ?_, ?_⟩
  · intro i' hi'
    by_cases he : i' = i
    · subst he
      exact ⟨hfin.rowSize i' (by omega),
        fun x h1 h2 => hfin.lt x h1 h2 (hfin.done x h1 h2 h2),
        fun x h1 h2 => hfin.per x h1 h2 (hfin.done x h1 h2 h2),
        fun x y hx1 hx2 hy1 hy2 => hfin.iff x y hx1 hx2 hy1 hy2 (hfin.done x hx1 hx2 hx2) (hfin.done y hy1 hy2 hy2)⟩
    · exact hfin.prev i' (by omega)
  · intro i' i'' h12 h2i x y hx1 hx2 hy1 hy2
    by_cases he : i'' = i
    · subst he
      exact Nat.lt_of_lt_of_le (hfin.prevLt i' h12 x hx1 hx2) (hfin.geLo y hy1 hy2 (hfin.done y hy1 hy2 hy2))
    · exact hfin.sep i' i'' h12 (by omega) x y hx1 hx2 hy1 hy2
  · intro k hk
    rcases hfin.surj k hk with ⟨i', x, hi', hx1, hx2, hx⟩ | ⟨x, hx1, hx2, _, hx⟩
    · exact ⟨i', x, by omega, hx1, hx2, hx⟩
    · exact ⟨i, x, by omega, hx1, hx2, hx⟩

theorem OuterInv.fold {s : DSetData} (h : ValidSet s) :
    ∀ n, n ≤ s.dim → OuterInv s n ((List.range n).foldl (collectRow s) (collectInit s))
  | 0, _ => by
    refine ⟨by simp [collectInit], ?_, fun i' hi' => by omega, fun i' i'' _ hi'' => by omega,
      fun k hk => by simp [collectInit] at hk⟩
    intro i' hi'
    show ((Array.replicate s.dim (Array.replicate (s.size + 1) 0)).getD i' #[]).size = s.size + 1
    rw [Array.getD_eq_getD_getElem?, Array.getElem?_replicate, if_pos hi']
    simp
  | n + 1, hn => by
    rw [List.range_succ, List.foldl_append]
    exact (OuterInv.fold h n (by omega)).step h hn

/-- **`collect_orbits` is correct** on every complete involutive D-set -/
theorem collectOrbits_rows {s : DSetData} (h : ValidSet s) :
    (collectOrbits s).index.size = s.dim ∧
    ∀ i, i < s.dim → RowOK s (collectOrbits s).rs ((collectOrbits s).index.getD i #[]) i := by
  have := OuterInv.fold h s.dim (Nat.le_refl _)
  rw [collectOrbits_eq]
  exact ⟨this.indexSize, this.prev⟩

/-- orbit numbers of different rows are different: row `i'` is numbered before row `i` -/
theorem collectOrbits_rows_lt {s : DSetData} (h : ValidSet s) {i' i : Nat} (h1 : i' < i) (h2 : i < s.dim)
    {x y : Nat} (hx1 : 1 ≤ x) (hx2 : x ≤ s.size) (hy1 : 1 ≤ y) (hy2 : y ≤ s.size) :
    ((collectOrbits s).index.getD i' #[]).getD x 0 < ((collectOrbits s).index.getD i #[]).getD y 0 := by
  have := OuterInv.fold h s.dim (Nat.le_refl _)
  rw [collectOrbits_eq]
  exact this.sep i' i h1 h2 x y hx1 hx2 hy1 hy2

/-- every orbit number is used: each entry of `rs` belongs to the orbit of some chamber -/
theorem collectOrbits_surj {s : DSetData} (h : ValidSet s) {k : Nat} (hk : k < (collectOrbits s).rs.size) :
    ∃ i x, i < s.dim ∧ 1 ≤ x ∧ x ≤ s.size ∧ ((collectOrbits s).index.getD i #[]).getD x 0 = k := by
  have := OuterInv.fold h s.dim (Nat.le_refl _)
  rw [collectOrbits_eq] at hk ⊢
  exact this.surj k hk

end DSymVerif.DS
