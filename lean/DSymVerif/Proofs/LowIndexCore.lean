/-
C12, arbitrary relators: every word has a cyclically reduced core (a conjugate that is empty or
cyclically reduced) each of whose rotations is among the freely reduced rotations that
`relator_permutations` lists.
-/
import Mathlib.Tactic.Group
import DSymVerif.Proofs.FreeWordCyclic

namespace DSymVerif.FWP
open DSymVerif.FW DSymVerif.SpecC10 FreeGroup

/-- the free-group element of the `k`-th rotation, as a conjugate -/
theorem den_rot (ρ : List Int) (k : Nat) :
    den (ρ.drop k ++ ρ.take k) = (den (ρ.take k))⁻¹ * den ρ * den (ρ.take k) := by
  have h : den ρ = den (ρ.take k) * den (ρ.drop k) := by rw [← den_append, List.take_append_drop]
  rw [den_append, h]
  group

theorem den_pair_cancel (x : Int) : den [-x, x] = 1 := by
  have h := den_invRaw [x]
  simp only [List.reverse_cons, List.reverse_nil, List.nil_append, List.map_cons, List.map_nil] at h
  have : ([-x, x] : List Int) = [-x] ++ [x] := rfl
  rw [this, den_append, h]
  group

theorem den_pair_cancel' (x : Int) : den [x, -x] = 1 := by
  have := den_pair_cancel (-x)
  rwa [Int.neg_neg] at this

theorem not_chain_split {R : Int → Int → Prop} : ∀ (w : List Int), ¬ w.IsChain R →
    ∃ u x y v, w = u ++ x :: y :: v ∧ ¬ R x y
  | [], h => absurd List.IsChain.nil h
  | [x], h => absurd (List.IsChain.singleton x) h
  | x :: y :: r, h => by
    by_cases hxy : R x y
    · have : ¬ (y :: r).IsChain R := fun hc => h (List.IsChain.cons_cons hxy hc)
      obtain ⟨u, a, b, v, e, hn⟩ := not_chain_split (y :: r) this
      exact ⟨x :: u, a, b, v, by rw [e]; rfl, hn⟩
    · exact ⟨[], x, y, r, rfl, hxy⟩

/-- `c` is a cyclically reduced core of `ρ`: a conjugate of `ρ` that is empty or cyclically
    reduced, each of whose rotations is the free-group element of a rotation of `ρ` -/
def CoreOf (ρ c : List Int) : Prop :=
  ∃ pw : List Int, (∀ x ∈ pw, x ∈ ρ) ∧ (∀ x ∈ c, x ∈ ρ) ∧ den ρ = den (pw ++ c ++ invW pw) ∧
    (c = [] ∨ CR c) ∧
    ∀ a b, c = b ++ a → ∃ k, k < max ρ.length 1 ∧
      (den (ρ.take k))⁻¹ * den ρ * den (ρ.take k) = den (a ++ b)

theorem core_exists : ∀ (m : Nat) (ρ : List Int), ρ.length ≤ m → NZ ρ → ∃ c, CoreOf ρ c := by
  intro m
  induction m with
  | zero =>
    intro ρ hl _
    have : ρ = [] := List.eq_nil_of_length_eq_zero (by omega)
    subst this
    refine ⟨[], [], (fun _ h => h), (fun _ h => h), by simp [invW], Or.inl rfl, ?_⟩
    intro a b hab
    have ha : a = [] := by
      cases a with
      | nil => rfl
      | cons x a => cases b <;> simp at hab
    have hb : b = [] := by
      cases b with
      | nil => rfl
      | cons x b => simp at hab
    subst ha; subst hb
    exact ⟨0, by simp, by simp⟩
  | succ m ih =>
    intro ρ hl hnz
    by_cases hcr : CR ρ
    · -- already cyclically reduced
      refine ⟨ρ, [], (fun _ h => by cases h), (fun _ h => h), by simp [invW], Or.inr hcr, ?_⟩
      intro a b hab
      by_cases ha : a = []
      · subst ha
        refine ⟨0, by omega, ?_⟩
        simp only [List.take_zero, den_nil, inv_one, one_mul, mul_one, List.nil_append]
        rw [hab]; simp
      · refine ⟨b.length, ?_, ?_⟩
        · have : ρ.length = b.length + a.length := by rw [hab]; simp
          have : 0 < a.length := List.length_pos_iff.mpr ha
          omega
        · rw [← den_rot, hab]
          simp
    · by_cases hne : ρ = []
      · subst hne
        exact ih [] (by simp) hnz
      -- not cyclically reduced: a cancelling pair, inside or around the end
      by_cases hred : isReduced ρ = true
      · -- last letter inverse to the first
        have hex : ∃ bl x, ρ.getLast? = some bl ∧ ρ.head? = some x ∧ bl = -x := by
          by_contra hno
          apply hcr
          refine ⟨hred, ?_⟩
          intro bl hbl x hx hbx
          exact hno ⟨bl, x, hbl, hx, hbx⟩
        obtain ⟨bl, x, hbl, hx, hbx⟩ := hex
        cases ρ with
        | nil => exact absurd rfl hne
        | cons y t =>
          simp only [List.head?_cons, Option.some.injEq] at hx
          subst hx
          have hy0 : y ≠ 0 := hnz y (by simp)
          have htne : t ≠ [] := by
            intro ht
            subst ht
            simp only [List.getLast?_singleton, Option.some.injEq] at hbl
            omega
          have hlast : t.getLast? = some bl := by
            cases t with
            | nil => exact absurd rfl htne
            | cons z t' => rw [← hbl]; simp [List.getLast?_cons_cons]
          have ht : t = t.dropLast ++ [bl] := by
            have := List.dropLast_append_getLast? bl hlast
            exact this.symm
          set u := t.dropLast with hu
          have hρ : y :: t = [y] ++ u ++ [-y] := by rw [ht, hbx]; simp
          have hul : u.length ≤ m := by
            have : t.length = u.length + 1 := by rw [ht]; simp
            simp only [List.length_cons] at hl
            omega
          have hunz : NZ u := fun z hz => hnz z (by rw [hρ]; simp [hz])
          obtain ⟨c, pw, h1, h2, h3, h4, h5⟩ := ih u hul hunz
          rw [hρ]
          have hden : den ([y] ++ u ++ [-y]) = den [y] * den u * (den [y])⁻¹ := by
            rw [den_append, den_append]
            have := den_invRaw [y]
            simp only [List.reverse_cons, List.reverse_nil, List.nil_append, List.map_cons, List.map_nil] at this
            rw [this]
          refine ⟨c, y :: pw, ?_, ?_, ?_, h4, ?_⟩
          · intro z hz
            rcases List.mem_cons.mp hz with rfl | hz
            · simp
            · have := h1 z hz; simp [this]
          · intro z hz
            have := h2 z hz; simp [this]
          · rw [hden, h3]
            have : invW (y :: pw) = invW pw ++ [-y] := by simp [invW]
            rw [this]
            have hy : den [-y] = (den [y])⁻¹ := by
              have := den_invRaw [y]
              simpa using this
            have hc2 : (y :: pw ++ c ++ (invW pw ++ [-y])) = [y] ++ (pw ++ c ++ invW pw) ++ [-y] := by simp
            rw [hc2]
            simp only [den_append, hy, mul_assoc]
          · intro a b hab
            obtain ⟨k1, hk1, hrot⟩ := h5 a b hab
            have hk1u : k1 ≤ u.length := by omega
            refine ⟨k1 + 1, ?_, ?_⟩
            · simp; omega
            · have htake : ([y] ++ u ++ [-y]).take (k1 + 1) = [y] ++ u.take k1 := by
                simp [List.take_append, hk1u]
              rw [htake, hden, den_append, ← hrot]
              group
      · -- an adjacent cancelling pair
        have hchain : ¬ ρ.IsChain (fun x y => x ≠ -y) := by
          intro hc
          exact hred ((isReduced_iff_chain ρ).mpr ⟨hnz, hc⟩)
        obtain ⟨u, x, y, v, hρ, hxy⟩ := not_chain_split ρ hchain
        have hxy' : x = -y := by
          by_contra h; exact hxy h
        subst hxy'
        have hlen : ρ.length = u.length + v.length + 2 := by rw [hρ]; simp; omega
        have h1nz : NZ (u ++ v) := fun z hz => hnz z (by
          rw [hρ]
          rcases List.mem_append.mp hz with h | h
          · simp [h]
          · simp [h])
        obtain ⟨c, pw, h1, h2, h3, h4, h5⟩ := ih (u ++ v) (by simp; omega) h1nz
        have hsub : ∀ z, z ∈ u ++ v → z ∈ ρ := fun z hz => by
          rw [hρ]
          rcases List.mem_append.mp hz with h | h
          · simp [h]
          · simp [h]
        have hden : den ρ = den (u ++ v) := by
          rw [hρ]
          have : u ++ -y :: y :: v = u ++ ([-y, y] ++ v) := rfl
          rw [this, den_append, den_append, den_pair_cancel, one_mul, ← den_append]
        refine ⟨c, pw, fun z hz => hsub z (h1 z hz), fun z hz => hsub z (h2 z hz), hden.trans h3, h4, ?_⟩
        intro a b hab
        obtain ⟨k1, hk1, hrot⟩ := h5 a b hab
        by_cases hk : k1 ≤ u.length
        · refine ⟨k1, by omega, ?_⟩
          have htake : ρ.take k1 = (u ++ v).take k1 := by
            rw [hρ, List.take_append_of_le_length hk, List.take_append_of_le_length hk]
          rw [htake, hden, hrot]
        · refine ⟨k1 + 2, ?_, ?_⟩
          · simp only [List.length_append] at hk1; omega
          · have hk' : u.length < k1 := by omega
            have htake : ρ.take (k1 + 2) = u ++ [-y, y] ++ v.take (k1 - u.length) := by
              rw [hρ]
              have : u ++ -y :: y :: v = u ++ ([-y, y] ++ v) := rfl
              rw [this, List.take_append, List.take_of_length_le (by omega), List.take_append,
                List.take_of_length_le (by simp; omega)]
              simp only [List.length_cons, List.length_nil, List.append_assoc]
              congr 3
              omega
            have htake1 : (u ++ v).take k1 = u ++ v.take (k1 - u.length) := by
              rw [List.take_append, List.take_of_length_le (by omega)]
            have hd2 : den (ρ.take (k1 + 2)) = den ((u ++ v).take k1) := by
              rw [htake, htake1, den_append, den_append, den_pair_cancel, mul_one, ← den_append]
            rw [hd2, hden, hrot]

/-- every rotation of a core of `ρ` is one of the words `relator_permutations(ρ)` lists -/
theorem CoreOf.rot_mem {ρ c : List Int} (h : CoreOf ρ c) {a b : List Int} (hab : c = b ++ a) :
    a ++ b ∈ FW.relatorPermutations ρ := by
  obtain ⟨pw, _, h2, _, h4, h5⟩ := h
  by_cases hn : ρ = []
  · subst hn
    have hc : c = [] := by
      cases c with
      | nil => rfl
      | cons x c => exact absurd (h2 x (by simp)) (by simp)
    subst hc
    have ha : a = [] := by
      cases a with
      | nil => rfl
      | cons x a => cases b <;> simp at hab
    have hb : b = [] := by
      cases b with
      | nil => rfl
      | cons x b => simp at hab
    subst ha; subst hb
    simp [relPerms_nil]
  · obtain ⟨k, hk, hrot⟩ := h5 a b hab
    have hpos : 0 < ρ.length := List.length_pos_iff.mpr hn
    have hk' : k < ρ.length := by omega
    have hred : isReduced (a ++ b) = true := by
      rcases h4 with hc | hc
      · subst hc
        have ha : a = [] := by
          cases a with
          | nil => rfl
          | cons x a => cases b <;> simp at hab
        have hb : b = [] := by
          cases b with
          | nil => rfl
          | cons x b => simp at hab
        subst ha; subst hb; rfl
      · have := hc.rotate b.length
        rw [hab, List.rotate_append_length_eq] at this
        exact this.1
    rw [← den_rot] at hrot
    have e : a ++ b = FW.rotated ρ (k : Int) := by
      rw [rotated_natCast hn hk']
      exact eq_normalized_of_den hred hrot.symm
    rw [mem_relPerms hn, e]
    simp only [rotInvList, List.mem_flatMap, List.mem_range]
    exact ⟨k, hk', by simp⟩

end DSymVerif.FWP
