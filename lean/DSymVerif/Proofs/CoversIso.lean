/-
Property C05, part 13: covers that are isomorphic over the base come from isomorphic tables.

An isomorphism over `ds` of two table covers is, fibre by fibre, a permutation `ψ_b` of the
sheets; commuting with the operations means `ψ_{op_i b}(k·w) = ψ_b(k)·w` for the edge word
`w` of facet `(b,i)`.  Tree facets act trivially, so on a connected base all `ψ_b` coincide with
one `Ψ`, which therefore commutes with the action of every facet word — in particular with
every generator letter (C09 `generator_facet_pairs`: generator `g` sits on a facet whose word is
`[g]` or `[-g]`), hence with its inverse: `Ψ` is an isomorphism of the two tables (`TabIso`).
With C12 (`stab_conj_of_iso`, non-conjugate stabilisers at different positions) the entries of
`covers(ds,k)` are pairwise non-isomorphic over `ds`.
-/
import DSymVerif.Proofs.CoversWired
import DSymVerif.Proofs.FundGroupGens
import DSymVerif.Proofs.LowIndexConj

namespace DSymVerif.CoversP
open DSymVerif DSymVerif.DS DSymVerif.FG DSymVerif.FGP DSymVerif.Cosets DSymVerif.SpecC11
open DSymVerif.CosetP DSymVerif.Covers DSymVerif.LowIndexP DSymVerif.CosetInvP DSymVerif.RebaseP

/-- an isomorphism of covers over `ds`: a map of the chambers `1..N` into themselves, injective,
    commuting with the projection and with every operation -/
structure CoverIso (ds c1 c2 : DSymData) (N : Nat) (φ : Nat → Nat) : Prop where
  maps : ∀ d, 1 ≤ d → d ≤ N → 1 ≤ φ d ∧ φ d ≤ N
  inj : ∀ a b, 1 ≤ a → a ≤ N → 1 ≤ b → b ≤ N → φ a = φ b → a = b
  proj : ∀ d, 1 ≤ d → d ≤ N → cproj ds.size (φ d) = cproj ds.size d
  comm : ∀ i d, i ≤ ds.dim → 1 ≤ d → d ≤ N → φ (c1.dset.opU i d) = c2.dset.opU i (φ d)

/-- tracing one letter is reading one entry -/
theorem traceWord_single (tab : Tab) (n k : Nat) (g : Int) :
    SpecC11.traceWord tab n k [g] = entry tab n k g := by
  simp only [SpecC11.traceWord]
  cases entry tab n k g <;> rfl

section
variable {ds : DSymData} (hs : ValidSym ds) (hsz : 1 ≤ ds.size) (hdim : 1 ≤ ds.dim) {f : FundGroup}
  (hf : fundamentalGroup ds = .ok f)

include hs hdim hf in
/-- the word of a facet of the spanning tree acts trivially on every valid table -/
theorem tree_word_trivial {tab : Tab} (hv : Valid tab f.nrGenerators f.relators [])
    {d i : Nat} (hmem : (d, i, none) ∈ spanningTree ds) (h1 : 1 ≤ d) (h2 : d ≤ ds.size) (hi : i ≤ ds.dim)
    {k r : Nat} (hk : k < tab.size)
    (htr : SpecC11.traceWord tab f.nrGenerators k (e2wGet f.edgeToWord (d, i)) = some r) : r = k := by
  have := tau_rhoT hs hdim hf hv hi h1 h2 ⟨k, hk⟩ htr
  have ht1 : tau (rhoT hs hdim hf hv) d i = 1 := by unfold tau; rw [xT_tree hmem, map_one, inv_one]
  rw [ht1] at this
  exact this.symm

variable {tab1 tab2 : Tab} (hv1 : Valid tab1 f.nrGenerators f.relators [])
  (hv2 : Valid tab2 f.nrGenerators f.relators []) (hsame : tab2.size = tab1.size)
  {c1 c2 : DSymData} (ho1 : TableOps ds c1 f.edgeToWord tab1 f.nrGenerators)
  (ho2 : TableOps ds c2 f.edgeToWord tab2 f.nrGenerators)
  {φ : Nat → Nat} (iso : CoverIso ds c1 c2 (tab1.size * ds.size) φ)

/-- the sheet permutation of the isomorphism over base chamber `b` -/
def psi (ds : DSymData) (φ : Nat → Nat) (b k : Nat) : Nat := csheet ds.size (φ (ds.size * k + b))

include hsz iso in
theorem phi_mk {b k : Nat} (h1 : 1 ≤ b) (h2 : b ≤ ds.size) (hk : k < tab1.size) :
    φ (ds.size * k + b) = ds.size * psi ds φ b k + b ∧ psi ds φ b k < tab1.size := by
  have hd := cmk_range (sz := ds.size) (n := tab1.size) hk h1 h2
  have hm := iso.maps _ hd.1 hd.2
  have hp := iso.proj _ hd.1 hd.2
  rw [cproj_mk h1 h2] at hp
  have hdec := cdecomp hsz hm.1
  rw [hp] at hdec
  exact ⟨hdec.symm, csheet_lt hsz hm.1 hm.2⟩

include hs hsz hsame ho1 ho2 iso in
/-- the sheet permutations intertwine the two table actions along every facet -/
theorem psi_equivariant {i b k r1 : Nat} (hi : i ≤ ds.dim) (h1 : 1 ≤ b) (h2 : b ≤ ds.size)
    (hk : k < tab1.size)
    (htr : SpecC11.traceWord tab1 f.nrGenerators k (e2wGet f.edgeToWord (b, i)) = some r1) :
    SpecC11.traceWord tab2 f.nrGenerators (psi ds φ b k) (e2wGet f.edgeToWord (b, i)) =
      some (psi ds φ (ds.dset.opU i b) r1) := by
  obtain ⟨r1', htr', hop1⟩ := ho1 i b k hi h1 h2 hk
  rw [htr] at htr'
  cases htr'
  obtain ⟨hφ, hψ⟩ := phi_mk hsz iso h1 h2 hk
  obtain ⟨r2, htr2, hop2⟩ := ho2 i b (psi ds φ b k) hi h1 h2 (by rw [hsame]; exact hψ)
  have hd := cmk_range (sz := ds.size) (n := tab1.size) hk h1 h2
  have hc := iso.comm i _ hi hd.1 hd.2
  rw [hop1, hφ, hop2] at hc
  have hb' := hs.set.range i b hi h1 h2
  have hr1 : r1 < tab1.size := by
    have : ∀ (w : List Int) (k r : Nat), k < tab1.size →
        SpecC11.traceWord tab1 f.nrGenerators k w = some r → r < tab1.size := by
      intro w
      induction w with
      | nil => intro k r hk h; simp only [SpecC11.traceWord, Option.some.injEq] at h; omega
      | cons g w ih =>
        intro k r hk h
        simp only [SpecC11.traceWord] at h
        cases he : entry tab1 f.nrGenerators k g with
        | none => rw [he] at h; cases h
        | some e => rw [he] at h; exact ih e r (entry_some he).1 h
    exact this _ k r1 hk htr
  obtain ⟨hφ', _⟩ := phi_mk hsz iso hb'.1 hb'.2 hr1
  rw [hφ'] at hc
  have : psi ds φ (ds.dset.opU i b) r1 = r2 := by
    have h3 : ds.size * psi ds φ (ds.dset.opU i b) r1 = ds.size * r2 := by omega
    exact Nat.eq_of_mul_eq_mul_left (show 0 < ds.size by omega) h3
  rw [this]
  exact htr2

include hs hsz hdim hf hv1 hv2 hsame ho1 ho2 iso in
/-- along the spanning tree the sheet permutation does not change -/
theorem psi_tree {root x : Nat} (hr1 : 1 ≤ root) (hr2 : root ≤ ds.size)
    (hitems : ∀ it ∈ spanningTree ds, 1 ≤ it.1 ∧ it.1 ≤ ds.size ∧ it.2.1 ≤ ds.dim)
    (ht : TreeReach ds (spanningTree ds) root x) :
    (1 ≤ x ∧ x ≤ ds.size) ∧ ∀ k, k < tab1.size → psi ds φ x k = psi ds φ root k := by
  induction ht with
  | root => exact ⟨⟨hr1, hr2⟩, fun _ _ => rfl⟩
  | @step d i _ hmem ih =>
    obtain ⟨hd, hconst⟩ := ih
    have hi : i ≤ ds.dim := (hitems _ hmem).2.2
    refine ⟨hs.set.range i d hi hd.1 hd.2, ?_⟩
    intro k hk
    obtain ⟨r1, htr1, _⟩ := ho1 i d k hi hd.1 hd.2 hk
    have e1 := tree_word_trivial hs hdim hf hv1 hmem hd.1 hd.2 hi hk htr1
    subst e1
    have h2 := psi_equivariant hs hsz hsame ho1 ho2 iso hi hd.1 hd.2 hk htr1
    have hψ := (phi_mk hsz iso hd.1 hd.2 hk).2
    have e2 := tree_word_trivial hs hdim hf hv2 hmem hd.1 hd.2 hi (by rw [hsame]; exact hψ) h2
    rw [e2]
    exact hconst r1 hk

end

/-! ### from letters to their inverses, and to `TabIso` -/

theorem entry_flip {tab1 tab2 : Tab} {n : Nat} {rels : List (List Int)}
    (hv1 : Valid tab1 n rels []) (hv2 : Valid tab2 n rels []) {Ψ : Nat → Nat} {g : Int}
    (h : ∀ k r, k < tab1.size → entry tab1 n k g = some r → entry tab2 n (Ψ k) g = some (Ψ r)) :
    ∀ k r, k < tab1.size → entry tab1 n k (-g) = some r → entry tab2 n (Ψ k) (-g) = some (Ψ r) := by
  intro k r hk he
  have hr := (entry_some he).1
  have hback := hv1.inv _ _ _ he
  rw [neg_neg] at hback
  have := h r k hr hback
  exact hv2.inv _ _ _ this

/-- **covers isomorphic over a connected base come from isomorphic tables** -/
theorem tabIso_of_coverIso {ds : DSymData} (hs : ValidSym ds) (hsz : 1 ≤ ds.size) (hdim : 1 ≤ ds.dim)
    (hconn : ds.view.isConnected = true) {f : FundGroup} (hf : fundamentalGroup ds = .ok f)
    {tab1 tab2 : Tab} (hv1 : Valid tab1 f.nrGenerators f.relators [])
    (hv2 : Valid tab2 f.nrGenerators f.relators []) (hsame : tab2.size = tab1.size)
    {c1 c2 : DSymData} (ho1 : TableOps ds c1 f.edgeToWord tab1 f.nrGenerators)
    (ho2 : TableOps ds c2 f.edgeToWord tab2 f.nrGenerators)
    {φ : Nat → Nat} (iso : CoverIso ds c1 c2 (tab1.size * ds.size) φ) :
    ∃ σ, TabIso tab1 tab2 f.nrGenerators σ := by
  obtain ⟨hitems0, _, root, hr1, hr2, htree⟩ := C09_spanning hs.set hsz hconn
  have hitems : ∀ it ∈ spanningTree ds, 1 ≤ it.1 ∧ it.1 ≤ ds.size ∧ it.2.1 ≤ ds.dim :=
    fun it hit => (hitems0 it hit).2
  have hconst : ∀ x, 1 ≤ x → x ≤ ds.size → ∀ k, k < tab1.size → psi ds φ x k = psi ds φ root k :=
    fun x hx1 hx2 => (psi_tree hs hsz hdim hf hv1 hv2 hsame ho1 ho2 iso hr1 hr2 hitems (htree x hx1 hx2)).2
  -- the common sheet permutation
  let Ψ : Nat → Nat := psi ds φ root
  have hΨlt : ∀ k, k < tab1.size → Ψ k < tab1.size := fun k hk => (phi_mk hsz iso hr1 hr2 hk).2
  have hΨlt2 : ∀ k, k < tab1.size → Ψ k < tab2.size := fun k hk => by rw [hsame]; exact hΨlt k hk
  have hrow : ∀ (w : List Int) (k r : Nat), k < tab1.size →
      SpecC11.traceWord tab1 f.nrGenerators k w = some r → r < tab1.size := by
    intro w
    induction w with
    | nil => intro k r hk h; simp only [SpecC11.traceWord, Option.some.injEq] at h; omega
    | cons g w ih =>
      intro k r hk h
      simp only [SpecC11.traceWord] at h
      cases he : entry tab1 f.nrGenerators k g with
      | none => rw [he] at h; cases h
      | some e => rw [he] at h; exact ih e r (entry_some he).1 h
  -- Ψ intertwines the action of every facet word
  have hfacet : ∀ i b k r1, i ≤ ds.dim → 1 ≤ b → b ≤ ds.size → k < tab1.size →
      SpecC11.traceWord tab1 f.nrGenerators k (e2wGet f.edgeToWord (b, i)) = some r1 →
      SpecC11.traceWord tab2 f.nrGenerators (Ψ k) (e2wGet f.edgeToWord (b, i)) = some (Ψ r1) := by
    intro i b k r1 hi h1 h2 hk htr
    have h := psi_equivariant hs hsz hsame ho1 ho2 iso hi h1 h2 hk htr
    have hb' := hs.set.range i b hi h1 h2
    rw [hconst b h1 h2 k hk, hconst _ hb'.1 hb'.2 r1 (hrow _ k r1 hk htr)] at h
    exact h
  -- every generator letter
  obtain ⟨bnd, gi⟩ := findGenerators_ginv hs (fundamentalGroup_e2w hf)
  have hkeys := (findGenerators_genInv ds _ _ (fundamentalGroup_e2w hf)).1
  have hpos : ∀ m : Nat, 1 ≤ m → m ≤ f.nrGenerators →
      ∃ ε : Int, (ε = (m : Int) ∨ ε = -(m : Int)) ∧
        ∀ k r, k < tab1.size → entry tab1 f.nrGenerators k ε = some r →
          entry tab2 f.nrGenerators (Ψ k) ε = some (Ψ r) := by
    intro m hm1 hm2
    have hmem : m ∈ f.genToEdge.map Prod.fst := by
      rw [hkeys]
      exact List.mem_range'_1.2 ⟨hm1, by unfold FundGroup.nrGenerators at hm2; omega⟩
    obtain ⟨p, hp, hpm⟩ := List.mem_map.1 hmem
    obtain ⟨hfac, _, hw⟩ := gi.gens p hp
    by_cases hmir : ds.dset.opU p.2.2 p.2.1 = p.2.1
    · refine ⟨-(m : Int), Or.inr rfl, ?_⟩
      intro k r hk he
      have hword : e2wGet f.edgeToWord (p.2.1, p.2.2) = [-(m : Int)] := by rw [← hpm]; exact hw.2 hmir
      have := hfacet p.2.2 p.2.1 k r hfac.2.2 hfac.1 hfac.2.1 hk (by rw [hword, traceWord_single]; exact he)
      rw [hword, traceWord_single] at this
      exact this
    · refine ⟨(m : Int), Or.inl rfl, ?_⟩
      intro k r hk he
      have hword : e2wGet f.edgeToWord (p.2.1, p.2.2) = [(m : Int)] := by rw [← hpm]; exact (hw.1 hmir).1
      have := hfacet p.2.2 p.2.1 k r hfac.2.2 hfac.1 hfac.2.1 hk (by rw [hword, traceWord_single]; exact he)
      rw [hword, traceWord_single] at this
      exact this
  have hletter : ∀ g, g ∈ letters f.nrGenerators → ∀ k r, k < tab1.size →
      entry tab1 f.nrGenerators k g = some r → entry tab2 f.nrGenerators (Ψ k) g = some (Ψ r) := by
    intro g hg
    rw [mem_letters] at hg
    rcases hg with hg | hg
    · obtain ⟨ε, hε, h⟩ := hpos g.toNat (by omega) (by omega)
      have hgm : ((g.toNat : Nat) : Int) = g := by omega
      rcases hε with rfl | rfl
      · rw [hgm] at h; exact h
      · have := entry_flip hv1 hv2 h
        rw [neg_neg, hgm] at this; exact this
    · obtain ⟨ε, hε, h⟩ := hpos (-g).toNat (by omega) (by omega)
      have hgm : (((-g).toNat : Nat) : Int) = -g := by omega
      rcases hε with rfl | rfl
      · have := entry_flip hv1 hv2 h
        rw [hgm, neg_neg] at this; exact this
      · rw [hgm, neg_neg] at h; exact h
  refine ⟨Ψ, hsame, hΨlt, ?_, ?_⟩
  · intro a b ha hb hab
    have ea := (phi_mk hsz iso hr1 hr2 ha).1
    have eb := (phi_mk hsz iso hr1 hr2 hb).1
    have hda := cmk_range (sz := ds.size) (n := tab1.size) ha hr1 hr2
    have hdb := cmk_range (sz := ds.size) (n := tab1.size) hb hr1 hr2
    have : φ (ds.size * a + root) = φ (ds.size * b + root) := by
      rw [ea, eb]; show ds.size * Ψ a + root = ds.size * Ψ b + root; rw [hab]
    have := iso.inj _ _ hda.1 hda.2 hdb.1 hdb.2 this
    have h3 : ds.size * a = ds.size * b := by omega
    exact Nat.eq_of_mul_eq_mul_left (show 0 < ds.size by omega) h3
  · intro c g hc
    cases he : entry tab1 f.nrGenerators c g with
    | some r =>
      rw [hletter g (entry_some he).2.2 c r hc he]; rfl
    | none =>
      cases he2 : entry tab2 f.nrGenerators (Ψ c) g with
      | none => rfl
      | some r2 =>
        exfalso
        have hg := (entry_some he2).2.2
        obtain ⟨d, hd⟩ := hv1.total c hc g hg
        rw [hd] at he; cases he

/-! ### the entries of `covers(ds,k)` are pairwise non-isomorphic over `ds` -/

theorem forall₂_pairwise {α β : Type} {R : α → β → Prop} {P : α → α → Prop} {Q : β → β → Prop}
    (hPQ : ∀ x c x' c', R x c → R x' c' → P x x' → Q c c') :
    ∀ {xs : List α} {cs : List β}, List.Forall₂ R xs cs → xs.Pairwise P → cs.Pairwise Q
  | _, _, .nil, _ => List.Pairwise.nil
  | _, _, .cons (a := x) (b := c) (l₁ := xs) (l₂ := cs) h hall, hp => by
    rw [List.pairwise_cons] at hp ⊢
    refine ⟨?_, forall₂_pairwise hPQ hall hp.2⟩
    intro c' hc'
    obtain ⟨x', hx', hR'⟩ : ∃ x' ∈ xs, R x' c' := by
      clear hp
      induction hall with
      | nil => cases hc'
      | cons h1 _ ih =>
        rcases List.mem_cons.1 hc' with rfl | hmem
        · exact ⟨_, List.mem_cons_self .., h1⟩
        · obtain ⟨x', hx', hr⟩ := ih hmem
          exact ⟨x', List.mem_cons_of_mem _ hx', hr⟩
    exact hPQ x c x' c' h hR' (hp.1 x' hx')

/-- **no duplicates**: on a connected valid symbol no two entries of `covers(ds,k)` at different
    positions are isomorphic over `ds` -/
theorem covers_pairwise_nonisomorphic {ds : DSymData} (hs : ValidSym ds) (hsz : 1 ≤ ds.size)
    (hdim : 1 ≤ ds.dim) (hconn : ds.view.isConnected = true) (k fuel : Nat) :
    ∃ f, fundamentalGroup ds = .ok f ∧
      ((BT.dfs (btProblem f.nrGenerators (expandedRelatorSet f.relators) k) (height k)
          (.ok (Table.new f.nrGenerators))).length ≤ fuel →
        ∃ cs, Covers.covers ds k fuel = .ok cs ∧
          cs.Pairwise (fun c1 c2 => ∀ φ, ¬ (c2.size = c1.size ∧ CoverIso ds c1 c2 c1.size φ))) := by
  obtain ⟨f, hf, h⟩ := covers_classes hs hsz hdim k fuel
  refine ⟨f, hf, ?_⟩
  intro hfuel
  obtain ⟨cs, hcs, hall, hpair, _⟩ := h hfuel
  refine ⟨cs, hcs, forall₂_pairwise ?_ hall hpair⟩
  rintro x c1 x' c2 ⟨t1, v1, hv1, hx1, hview1, _, hcov1, hops1, _, _⟩
    ⟨t2, v2, hv2, hx2, hview2, _, hcov2, hops2, _, _⟩ hP φ ⟨hsize, iso⟩
  have hs1 := hcov1.size
  have hs2 := hcov2.size
  have hsame : (viewTab v2).size = (viewTab v1).size := by
    have : (viewTab v2).size * ds.size = (viewTab v1).size * ds.size := by rw [← hs1, ← hs2]; exact hsize
    exact Nat.eq_of_mul_eq_mul_right (show 0 < ds.size by omega) this
  rw [hs1] at iso
  obtain ⟨σ, hσ⟩ := tabIso_of_coverIso hs hsz hdim hconn hf hv1 hv2 hsame hops1 hops2 iso
  exact hP t1 t2 v1 v2 hv1 hv2 hx1 hx2 hview1 hview2 (CanonP.stab_conj_of_iso hσ hv1 hv2)

end DSymVerif.CoversP
