/-
Lemmas about the model of the D-set generator, part 11: every emitted set is `Orderly`
(chambers numbered in order of first occurrence) and `Canonical` (every start chamber
≥ 2 compares ≥ 0) — the converse of `canonical_emitted`.  Core Lean only.
-/
import DSymVerif.Proofs.DSetGenOrderly

namespace DSymVerif.DSG
open DSymVerif.DS

/-! ### order facts -/

theorem Before.trans {p q r : Nat × Nat} (h1 : Before p q) (h2 : Before q r) : Before p r := by
  unfold Before at *; omega

theorem Before.tri (p q : Nat × Nat) : Before p q ∨ p = q ∨ Before q p := by
  obtain ⟨a, b⟩ := p
  obtain ⟨c, d⟩ := q
  unfold Before
  simp only [Prod.mk.injEq]
  omega

/-! ### parts -/

theorem Ext.partOf {a b : DSetData} (h : Ext a b) : PartOf a b :=
  ⟨h.dim_eq, by rw [h.size_eq]; exact Nat.le_refl _, fun _ _ _ _ _ hne => h.opU_keep hne⟩

theorem PartOf.trans {a b c : DSetData} (h1 : PartOf a b) (h2 : PartOf b c) : PartOf a c := by
  refine ⟨h2.dim_eq.trans h1.dim_eq, Nat.le_trans h1.size_le h2.size_le, ?_⟩
  intro i d hi hd1 hd2 hne
  have e1 := h1.agree i d hi hd1 hd2 hne
  rw [← e1]
  exact h2.agree i d (by rw [h1.dim_eq]; exact hi) hd1 (Nat.le_trans hd2 h1.size_le)
    (by rw [e1]; exact hne)

/-- what one step of the search does to the set -/
theorem childFor_facts {dim maxSize : Nat} {s c : GenState} {i d e : Nat}
    (hs : GInv dim maxSize s) (h : childFor maxSize s i d e = .ok (some c)) :
    PartOf s.dset c.dset ∧ c.dset.opU i d = e ∧ 1 ≤ e ∧
    (c.dset.size = s.dset.size ∨ (c.dset.size = s.dset.size + 1 ∧ e = s.dset.size + 1)) := by
  obtain ⟨ds0, irs0, ds1, hg, hset, himpl, _, _⟩ := childFor_ok h
  have hx1 := setC_ext hset
  have hx2 := checkImpl_ext himpl
  obtain ⟨hi0, hd01, _, he1, he2, _, _, _, _, _⟩ := setC_ok hset
  have hnew : c.dset.opU i d = e := by
    have h1 : ds1.opU i d = e := by
      rw [setC_opU hset hi0 hd01]
      by_cases hde : d = e
      · subst hde; simp
      · simp [hde]
    rw [hx2.opU_keep (by rw [h1]; omega), h1]
  have hsz : c.dset.size = ds0.size := (hx1.trans hx2).size_eq
  rcases hg with ⟨hlt, _, rfl, _⟩ | ⟨hlt, rfl, _⟩
  · have hgrow : PartOf s.dset (s.dset.grow 1) := by
      refine ⟨rfl, by show s.dset.size ≤ s.dset.size + 1; omega, ?_⟩
      intro i' d' hi' h1 h2 _
      rw [grow_opU hs.valid hi' h1, if_pos h2]
    have hee : e = s.dset.size + 1 := by
      have : (s.dset.grow 1).size = s.dset.size + 1 := rfl
      omega
    exact ⟨hgrow.trans (hx1.trans hx2).partOf, hnew, he1,
      Or.inr ⟨hsz, hee⟩⟩
  · exact ⟨(hx1.trans hx2).partOf, hnew, he1, Or.inl hsz⟩

/-! ### Orderly -/

/-- every chamber ≥ 2 occurs at a position before the next undefined one -/
def Created (s : GenState) : Prop :=
  ∀ v, 2 ≤ v → v ≤ s.dset.size → ∃ i' d', i' ≤ s.dset.dim ∧ 1 ≤ d' ∧ d' ≤ s.dset.size ∧
    s.dset.opU i' d' = v ∧ ∀ i d, s.next = some (i, d) → Before (i', d') (i, d)

/-- `Orderly` for the defined entries of a partial set -/
def OrdP (ds : DSetData) : Prop :=
  ∀ i d, i ≤ ds.dim → 1 ≤ d → d ≤ ds.size → ∀ v, 2 ≤ v → v < ds.opU i d →
    ∃ i' d', i' ≤ ds.dim ∧ 1 ≤ d' ∧ d' ≤ ds.size ∧ Before (i', d') (i, d) ∧ ds.opU i' d' = v

theorem childFor_orderly {dim maxSize : Nat} {s c : GenState} {i d e : Nat}
    (hs : GInv dim maxSize s) (hc : GInv dim maxSize c) (hnext : s.next = some (i, d))
    (hcr : Created s) (ho : OrdP s.dset)
    (h : childFor maxSize s i d e = .ok (some c)) : Created c ∧ OrdP c.dset := by
  obtain ⟨hpo, hnew, he1, hsz⟩ := childFor_facts hs h
  obtain ⟨hi, hd1, hd2, hzd, hpre⟩ := hs.next_some i d hnext
  have hdimc : c.dset.dim = s.dset.dim := hpo.dim_eq
  have hsle : s.dset.size ≤ c.dset.size := hpo.size_le
  -- an entry of s is the same entry of c
  have keep : ∀ i' d', i' ≤ s.dset.dim → 1 ≤ d' → d' ≤ s.dset.size → s.dset.opU i' d' ≠ 0 →
      c.dset.opU i' d' = s.dset.opU i' d' := hpo.agree
  -- every old chamber occurs in c before (i, d)
  have oldCh : ∀ v, 2 ≤ v → v ≤ s.dset.size → ∃ i' d', i' ≤ c.dset.dim ∧ 1 ≤ d' ∧
      d' ≤ c.dset.size ∧ c.dset.opU i' d' = v ∧ Before (i', d') (i, d) := by
    intro v hv2 hvs
    obtain ⟨i', d', a1, a2, a3, a4, a5⟩ := hcr v hv2 hvs
    exact ⟨i', d', by rw [hdimc]; exact a1, a2, by omega,
      by rw [keep i' d' a1 a2 a3 (by omega)]; exact a4, a5 i d hnext⟩
  -- a position holding 0 in s is not before (i, d)
  have notBefore : ∀ a x, a ≤ s.dset.dim → 1 ≤ x → x ≤ c.dset.size →
      (s.dset.size < x ∨ s.dset.opU a x = 0) → ¬ Before (a, x) (i, d) := by
    intro a x ha hx1 _ hcase hb
    have hxd : x ≤ d := by unfold Before at hb; simp only at hb; omega
    rcases hcase with h1 | h1
    · omega
    · exact hpre a x ha hx1 (by omega) hb h1
  constructor
  · -- Created c
    intro v hv2 hvc
    by_cases hvs : v ≤ s.dset.size
    · obtain ⟨i', d', a1, a2, a3, a4, a5⟩ := oldCh v hv2 hvs
      refine ⟨i', d', a1, a2, a3, a4, ?_⟩
      intro i2 d2 hn2
      obtain ⟨_, b2, b3, b4, _⟩ := hc.next_some i2 d2 hn2
      rcases Before.tri (i, d) (i2, d2) with hb | hb | hb
      · exact a5.trans hb
      · injection hb with hb1 hb2
        subst hb1 hb2
        rw [hnew] at b4; omega
      · exfalso
        have hd2' : d2 ≤ s.dset.size := by unfold Before at hb; simp only at hb; omega
        have hi2 : i2 ≤ s.dset.dim := by
          have := (hc.next_some i2 d2 hn2).1
          rw [hs.dim_eq]; exact this
        have hne := hpre i2 d2 hi2 b2 hd2' hb
        rw [keep i2 d2 hi2 b2 hd2' hne] at b4
        exact hne b4
    · -- the new chamber sits at (i, d)
      have hve : v = e := by
        rcases hsz with h1 | ⟨h1, h2⟩ <;> omega
      refine ⟨i, d, by rw [hdimc, hs.dim_eq]; exact hi, hd1, by omega, by rw [hnew, hve], ?_⟩
      intro i2 d2 hn2
      obtain ⟨_, b2, b3, b4, _⟩ := hc.next_some i2 d2 hn2
      rcases Before.tri (i, d) (i2, d2) with hb | hb | hb
      · exact hb
      · injection hb with hb1 hb2
        subst hb1 hb2
        rw [hnew] at b4; omega
      · exfalso
        have hd2' : d2 ≤ s.dset.size := by unfold Before at hb; simp only at hb; omega
        have hi2 : i2 ≤ s.dset.dim := by
          have := (hc.next_some i2 d2 hn2).1
          rw [hs.dim_eq]; exact this
        have hne := hpre i2 d2 hi2 b2 hd2' hb
        rw [keep i2 d2 hi2 b2 hd2' hne] at b4
        exact hne b4
  · -- OrdP c
    intro a x ha hx1 hx2 v hv2 hvw
    have ha' : a ≤ s.dset.dim := by rw [← hdimc]; exact ha
    by_cases hold : x ≤ s.dset.size ∧ s.dset.opU a x ≠ 0
    · -- an entry of s
      rw [keep a x ha' hx1 hold.1 hold.2] at hvw
      obtain ⟨i', d', a1, a2, a3, a4, a5⟩ := ho a x ha' hx1 hold.1 v hv2 hvw
      exact ⟨i', d', by rw [hdimc]; exact a1, a2, by omega, a4,
        by rw [keep i' d' a1 a2 a3 (by omega)]; exact a5⟩
    · have hcase : s.dset.size < x ∨ s.dset.opU a x = 0 := by
        by_cases h1 : x ≤ s.dset.size
        · right
          exact Classical.byContradiction fun h2 => hold ⟨h1, h2⟩
        · left; omega
      have hnb := notBefore a x ha' hx1 hx2 hcase
      have hr := hc.valid.range a x ha hx1 hx2
      -- v is an old chamber
      have hvs : v ≤ s.dset.size := by
        rcases Before.tri (a, x) (i, d) with hb | hb | hb
        · exact absurd hb hnb
        · injection hb with hb1 hb2
          subst hb1 hb2
          rw [hnew] at hvw
          rcases hsz with h1 | ⟨h1, h2⟩ <;> omega
        · rcases hsz with h1 | ⟨h1, h2⟩ <;> omega
      obtain ⟨i', d', a1, a2, a3, a4, a5⟩ := oldCh v hv2 hvs
      refine ⟨i', d', a1, a2, a3, ?_, a4⟩
      rcases Before.tri (a, x) (i, d) with hb | hb | hb
      · exact absurd hb hnb
      · rw [hb]; exact a5
      · exact a5.trans hb

/-! ### Canonical -/

theorem getD_of_getC {a : Array Bool} {k : Nat} {b : Bool} (h : getC a k = .ok b) :
    a.getD k false = b := by
  obtain ⟨hk, hv⟩ := getC_ok h
  simp [Array.getD, hk, hv]

theorem getD_set_false (a : Array Bool) (x d : Nat) (hx : x < a.size) :
    (a.setIfInBounds x false).getD d false = if x = d then false else a.getD d false := by
  simp only [Array.getD_eq_getD_getElem?, Array.getElem?_setIfInBounds]
  by_cases h : x = d
  · subst h; simp [hx]
  · simp [h]

/-- what a successful `check_canonicity` loop says about every chamber -/
theorem canonLoop_spec (ds : DSetData) (maxSize : Nat) :
    ∀ (l : List Nat) (irs0 irs : Array Bool), canonLoop ds maxSize l irs0 = .ok (some irs) →
    ∀ d,
      (irs.getD d false = true → irs0.getD d false = true ∧
        (d ∈ l → compareRenumberedFrom ds d maxSize = .ok 0)) ∧
      (irs.getD d false = false → irs0.getD d false = false ∨
        ∃ v, 0 < v ∧ compareRenumberedFrom ds d maxSize = .ok v) := by
  intro l
  induction l with
  | nil =>
    intro irs0 irs h d
    simp only [canonLoop] at h
    cases h
    exact ⟨fun h => ⟨h, fun hd => by cases hd⟩, fun h => Or.inl h⟩
  | cons x l ih =>
    intro irs0 irs h d
    simp only [canonLoop] at h
    split at h
    · rename_i hfalse
      have hx := getD_of_getC hfalse
      obtain ⟨i1, i2⟩ := ih _ _ h d
      refine ⟨fun hd => ⟨(i1 hd).1, fun hm => ?_⟩, i2⟩
      rcases List.mem_cons.1 hm with rfl | hm
      · rw [hx] at i1; exact absurd (i1 hd).1 (by simp)
      · exact (i1 hd).2 hm
    · rename_i htrue
      have hx := getD_of_getC htrue
      split at h
      · rename_i diff hdiff
        split at h
        · cases h
        · rename_i hnn
          split at h
          · rename_i hpos
            split at h
            · rename_i irs1 hput
              obtain ⟨hxlt, rfl⟩ := putC_ok hput
              obtain ⟨i1, i2⟩ := ih _ _ h d
              rw [getD_set_false _ _ _ hxlt] at i1 i2
              constructor
              · intro hd
                obtain ⟨j1, j2⟩ := i1 hd
                split at j1
                · cases j1
                · rename_i hne
                  refine ⟨j1, fun hm => ?_⟩
                  rcases List.mem_cons.1 hm with rfl | hm
                  · exact absurd rfl hne
                  · exact j2 hm
              · intro hd
                rcases i2 hd with j | j
                · split at j
                  · rename_i heq
                    subst heq
                    exact Or.inr ⟨diff, hpos, hdiff⟩
                  · exact Or.inl j
                · exact Or.inr j
            · cases h
          · rename_i hnp
            have hz : diff = 0 := by omega
            subst hz
            obtain ⟨i1, i2⟩ := ih _ _ h d
            refine ⟨fun hd => ⟨(i1 hd).1, fun hm => ?_⟩, i2⟩
            rcases List.mem_cons.1 hm with rfl | hm
            · exact hdiff
            · exact (i1 hd).2 hm
      · cases h
    · cases h

/-- for every start chamber ≥ 2 the comparison has been decided: ≥ 0, and > 0 where the
    `is_remap_start` flag has been cleared -/
def IrsInv (maxSize : Nat) (s : GenState) : Prop :=
  ∀ d0, 2 ≤ d0 → d0 ≤ s.dset.size → ∃ v, compareRenumberedFrom s.dset d0 maxSize = .ok v ∧
    0 ≤ v ∧ (s.isRemapStart.getD d0 false = false → 0 < v)

theorem childFor_irs {dim maxSize : Nat} {s c : GenState} {i d e : Nat}
    (hs : GInv dim maxSize s) (hc : GInv dim maxSize c) (hirs : IrsInv maxSize s)
    (h : childFor maxSize s i d e = .ok (some c)) : IrsInv maxSize c := by
  obtain ⟨hpo, _, _, hsz⟩ := childFor_facts hs h
  obtain ⟨ds0, irs0, ds1, hg, hset, _, hcan, _⟩ := childFor_ok h
  intro d0 h2 hle
  have hspec := canonLoop_spec c.dset maxSize _ irs0 c.isRemapStart hcan d0
  have hmem : d0 ∈ (List.range c.dset.size).map (· + 1) := by
    simp only [List.mem_map, List.mem_range]
    exact ⟨d0 - 1, by omega, by omega⟩
  -- the flag before the check: true for the new chamber, the parent's flag otherwise
  have hirs0 : irs0.getD d0 false = false → d0 ≤ s.dset.size ∧ s.isRemapStart.getD d0 false = false := by
    intro hf
    rcases hg with ⟨hlt, hb, _, rfl⟩ | ⟨_, _, rfl⟩
    · simp only [Array.getD_eq_getD_getElem?, Array.getElem?_setIfInBounds] at hf
      by_cases hed : e = d0
      · subst hed; simp [hb] at hf
      · rw [if_neg hed] at hf
        refine ⟨?_, by simpa [Array.getD_eq_getD_getElem?] using hf⟩
        rcases hsz with h1 | ⟨h1, h3⟩ <;> omega
    · exact ⟨by rcases hsz with h1 | ⟨h1, h3⟩ <;> omega, hf⟩
  -- a verdict > 0 of the parent is the verdict of the child
  have hmono : irs0.getD d0 false = false → ∃ v, 0 < v ∧
      compareRenumberedFrom c.dset d0 maxSize = .ok v := by
    intro hf
    obtain ⟨hd0, hpf⟩ := hirs0 hf
    obtain ⟨v, hv, _, hpos⟩ := hirs d0 h2 hd0
    have hp := hpos hpf
    exact ⟨v, hp, compare_mono hs.valid hc.valid hpo hv (by omega)⟩
  by_cases hfin : c.isRemapStart.getD d0 false = true
  · obtain ⟨_, hz⟩ := hspec.1 hfin
    exact ⟨0, hz hmem, by omega, fun hf => by rw [hfin] at hf; cases hf⟩
  · have hfin' : c.isRemapStart.getD d0 false = false := by
      cases hb : c.isRemapStart.getD d0 false with
      | true => exact absurd hb hfin
      | false => rfl
    rcases hspec.2 hfin' with h0 | ⟨v, hv, hcmp⟩
    · obtain ⟨v, hv, hcmp⟩ := hmono h0
      exact ⟨v, hcmp, by omega, fun _ => hv⟩
    · exact ⟨v, hcmp, by omega, fun _ => hv⟩

/-! ### along the tree -/

/-- the invariants of part 11 together with `GInv` -/
def HInv (dim maxSize : Nat) (s : GenState) : Prop :=
  GInv dim maxSize s ∧ Created s ∧ OrdP s.dset ∧ IrsInv maxSize s

theorem rootState_hinv (dim maxSize : Nat) : HInv dim maxSize (rootState dim maxSize) := by
  have hsz : (rootState dim maxSize).dset.size = 1 := rfl
  have hop : ∀ i d, (rootState dim maxSize).dset.opU i d = 0 :=
    fun i d => getD_replicate_zero _ _
  refine ⟨rootState_inv dim maxSize, ?_, ?_, ?_⟩
  · intro v h2 h1; rw [hsz] at h1; omega
  · intro i d _ _ _ v _ hv; rw [hop] at hv; omega
  · intro d0 h2 h1; rw [hsz] at h1; omega

theorem reach_hinv {dim maxSize : Nat} {n m : Node} (hr : BT.Reach (problem dim maxSize) n m) :
    (∀ s, n = .st s → HInv dim maxSize s) → (∀ t, m = .st t → HInv dim maxSize t) := by
  induction hr with
  | refl => exact id
  | @step s c t hc _ ih =>
    intro hn
    apply ih
    intro c' hcc
    subst hcc
    cases s with
    | panicked =>
      have : Node.st c' ∈ children maxSize .panicked := hc
      simp [children] at this
    | st s' =>
      obtain ⟨hs', hcr, hop, hirs⟩ := hn s' rfl
      have hc' : Node.st c' ∈ children maxSize (.st s') := hc
      have hinv : GInv dim maxSize c' := by
        rcases children_inv hs' hc' with h | ⟨c'', h, hinv⟩
        · cases h
        · injection h with h; subst h; exact hinv
      -- the step that made c'
      have hstep : ∃ i d e, s'.next = some (i, d) ∧ childFor maxSize s' i d e = .ok (some c') := by
        unfold children at hc'
        simp only at hc'
        split at hc'
        · cases hc'
        · rename_i i d hnext
          split at hc'
          · simp at hc'
          · split at hc'
            · rename_i cs hcs
              obtain ⟨c2, hc2, hcc⟩ := List.mem_map.1 hc'
              injection hcc with hcc
              subst hcc
              obtain ⟨e, _, _, hfor⟩ := childLoop_mem _ _ hcs c2 hc2
              exact ⟨i, d, e, hnext, hfor⟩
            · simp at hc'
      obtain ⟨i, d, e, hnext, hfor⟩ := hstep
      obtain ⟨h1, h2⟩ := childFor_orderly hs' hinv hnext hcr hop hfor
      exact ⟨hinv, h1, h2, childFor_irs hs' hinv hirs hfor⟩

/-- **Every emitted set is orderly and canonical** -/
theorem emitted_orderly_canonical {dim maxSize : Nat} {T : DSetData}
    (h : Outcome.ok T ∈ dsets dim maxSize) : Orderly T ∧ Canonical T maxSize := by
  obtain ⟨t, hreach, _, rfl⟩ := mem_dsets h
  have hroot : ∀ s, root dim maxSize = .st s → HInv dim maxSize s := by
    intro s hs
    rw [root_eq] at hs
    split at hs
    · cases hs
    · injection hs with hs; subst hs; exact rootState_hinv dim maxSize
  obtain ⟨_, _, hop, hirs⟩ := reach_hinv hreach hroot t rfl
  refine ⟨hop, ?_⟩
  intro d0 h2 hle v hv
  obtain ⟨v', hv', hpos, _⟩ := hirs d0 h2 hle
  rw [hv] at hv'
  injection hv' with hv'
  omega

end DSymVerif.DSG
