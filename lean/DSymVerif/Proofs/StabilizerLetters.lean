/-
C13: the letters of what `stabilizer` returns — relators are words over `±1..±gens.length`,
generators are words over `±1..±n`, none with a zero letter (used by C17).
-/
import DSymVerif.Proofs.StabilizerInjective

set_option linter.unusedSectionVars false
set_option linter.unusedVariables false

namespace DSymVerif.StabP
open DSymVerif DSymVerif.SpecC11 DSymVerif.CosetP DSymVerif.FWP DSymVerif.Cosets
open DSymVerif.Stab hiding traceWord
open DSymVerif.SpecC10 (isReduced)

/-! ### the letters of edge words and returned relators -/

section Letters
variable {t : Tab} {n : Nat} {rels : List (List Int)} {u : Nat → List Int} {gens : List (List Int)}

theorem mem_letters_iff {K : Nat} {g : Int} : g ∈ letters K ↔ g ≠ 0 ∧ g.natAbs ≤ K := by
  rw [mem_letters]; omega

/-- every stored edge word is a word over the new letters `±1..±K` -/
def WInv (K : Nat) (e : EMap) : Prop := ∀ c g W, e.get c g = some W → ∀ x ∈ W, x ∈ letters K

def QW (K : Nat) (q : Queue) : Prop := ∀ y ∈ q, ∀ x ∈ y.2.2, x ∈ letters K

theorem model_traceWord_letters {K : Nat} {ct : Table} {e : EMap} (he : WInv K e) :
    ∀ (w : List Int) (p : Nat) (res W : List Int), (∀ x ∈ res, x ∈ letters K) →
      Stab.traceWord ct e p w res = .ok W → ∀ x ∈ W, x ∈ letters K
  | [], p, res, W, hr, h => by
    simp only [Stab.traceWord, Outcome.ok.injEq] at h; subst h; exact hr
  | g :: w, p, res, W, hr, h => by
    simp only [Stab.traceWord] at h
    cases hg : ct.get p g with
    | err => simp [hg] at h
    | panic => simp [hg] at h
    | ok o =>
      cases o with
      | none => simp [hg] at h
      | some q =>
        simp only [hg] at h
        refine model_traceWord_letters he w q _ W ?_ h
        intro x hx
        have := mem_normalized hx
        rcases List.mem_append.mp this with h1 | h1
        · exact hr x h1
        · cases hW : e.get p g with
          | none => simp [hW, empty_eq] at h1
          | some W' => simp only [hW, Option.getD_some] at h1; exact he p g W' hW x h1

theorem scanRel_letters {K : Nat} {ct : Table} {e : EMap} (he : WInv K e) {point : Nat} {r : List Int}
    {q q' : Queue} (h : scanRel ct e point r q = .ok q') (hq : QW K q) : QW K q' := by
  unfold scanRel at h
  cases hc : cutsGo ct e r 0 point [] with
  | err => simp [hc] at h
  | panic => simp [hc] at h
  | ok l =>
    simp only [hc] at h
    match l, h with
    | [], h => simp only [Outcome.ok.injEq] at h; subst h; exact hq
    | [(p, g, i)], h =>
      simp only at h
      cases hT : Stab.traceWord ct e p (cutWord r i g) FW.empty with
      | err => simp [hT] at h
      | panic => simp [hT] at h
      | ok W =>
        simp only [hT, Outcome.ok.injEq] at h
        subst h
        intro y hy
        rcases List.mem_append.mp hy with hy | hy
        · exact hq y hy
        · simp only [List.mem_singleton] at hy
          subst hy
          exact model_traceWord_letters he _ p FW.empty W (by simp [empty_eq]) hT
    | a :: b :: l, h => simp only [Outcome.ok.injEq] at h; subst h; exact hq

theorem scanRels_letters {K : Nat} {ct : Table} {e : EMap} (he : WInv K e) {point : Nat} :
    ∀ (rs : List (List Int)) (q q' : Queue), scanRels ct e point rs q = .ok q' → QW K q → QW K q'
  | [], q, q', h, hq => by simp only [scanRels, Outcome.ok.injEq] at h; subst h; exact hq
  | r :: rs, q, q', h, hq => by
    simp only [scanRels] at h
    cases h1 : scanRel ct e point r q with
    | err => simp [h1] at h
    | panic => simp [h1] at h
    | ok q1 =>
      simp only [h1] at h
      exact scanRels_letters he rs q1 q' h (scanRel_letters he h1 hq)

theorem closeLoop_letters (hcomp : complete t n = true) (hinv : InvConsistent t n) {rbg : RelMap}
    (hrbg : RbgOk t n rels rbg) {K : Nat} :
    ∀ (fuel : Nat) (q : Queue) (e e' : EMap), EInv t n rels u gens e → QInv t n rels u gens q →
      WInv K e → QW K q → Stab.closeLoop (Table.ofView n t) rbg fuel q e = .ok e' → WInv K e'
  | _, [], e, e', _, _, hw, _, h => by
    simp only [Stab.closeLoop, Outcome.ok.injEq] at h; subst h; exact hw
  | 0, _ :: _, _, _, _, _, _, _, h => by simp [Stab.closeLoop] at h
  | f + 1, (point, gen, w) :: q, e, e', he, hq, hw, hqw, h => by
    obtain ⟨tgt, hent, hwv⟩ := hq (point, gen, w) (by simp)
    simp only at hent hwv
    obtain ⟨he2, hget⟩ := EInv_insert hinv he hent hwv
    have hq' : QInv t n rels u gens q := fun x hm => hq x (by simp [hm])
    have hrs : ∀ r ∈ (rbgLookup gen rbg).getD [], RelOk t n rels r := by
      cases hl : rbgLookup gen rbg with
      | none => simp
      | some rs => simpa using hrbg gen rs hl
    obtain ⟨ext, hs, hqe, _, _⟩ := scanRels_inv hcomp hinv he2 (entry_some hent).2.1 _ q hrs hq'
    simp only [Stab.closeLoop, get_ofView hent, hs] at h
    have hwl : ∀ x ∈ w, x ∈ letters K := hqw (point, gen, w) (by simp)
    have hw2 : WInv K ((e.insert tgt (-gen) (FW.inverse w)).insert point gen w) := by
      intro c g W hW
      rw [hget] at hW
      split at hW
      · injection hW with hW; subst hW; exact hwl
      · split at hW
        · injection hW with hW; subst hW; exact lettersOk_inverse hwl
        · exact hw c g W hW
    have hqw2 : QW K (q ++ ext) := scanRels_letters hw2 _ q _ hs (fun y hy => hqw y (by simp [hy]))
    exact closeLoop_letters hcomp hinv hrbg f (q ++ ext) _ e' he2 hqe hw2 hqw2 h

theorem closeRelations_letters (hcomp : complete t n = true) (hinv : InvConsistent t n) {rbg : RelMap}
    (hrbg : RbgOk t n rels rbg) {K : Nat} {e e' : EMap} (he : EInv t n rels u gens e) (hw : WInv K e)
    {p : Nat} {g : Int} {w : List Int} {d : Nat} (hent : entry t n p g = some d)
    (hpsi : psi n rels gens w = sch n rels u t p g) (hwl : ∀ x ∈ w, x ∈ letters K)
    (h : closeRelations (Table.ofView n t) rbg e (p, g) w = .ok e') : WInv K e' := by
  unfold closeRelations at h
  exact closeLoop_letters hcomp hinv hrbg _ [(p, g, w)] e e' he
    (by intro x hx; simp only [List.mem_singleton] at hx; subst hx; exact ⟨d, hent, hpsi⟩) hw
    (by intro y hy; simp only [List.mem_singleton] at hy; subst hy; exact hwl) h

theorem treeFold_letters (hcomp : complete t n = true) (hinv : InvConsistent t n) {rbg : RelMap}
    (hrbg : RbgOk t n rels rbg) {K : Nat} :
    ∀ (es : List (Nat × Int)) (e : EMap) (p : PMap) (e' : EMap) (p' : PMap),
      (∀ pt gen, (pt, gen) ∈ es → ∃ tgt, entry t n pt gen = some tgt ∧ sch n rels u t pt gen = 1) →
      EInv t n rels u gens e → WInv K e → treeFold (Table.ofView n t) rbg es e p = .ok (e', p') → WInv K e'
  | [], e, p, e', p', _, _, hw, h => by
    simp only [treeFold, Outcome.ok.injEq, Prod.mk.injEq] at h
    rw [← h.1]; exact hw
  | (pt, gen) :: es, e, p, e', p', htree, he, hw, h => by
    obtain ⟨tgt, hent, hone⟩ := htree pt gen (by simp)
    simp only [treeFold] at h
    cases hcl : closeRelations (Table.ofView n t) rbg e (pt, gen) FW.empty with
    | err => simp [hcl] at h
    | panic => simp [hcl] at h
    | ok e1 =>
      simp only [hcl, get_ofView hent] at h
      cases hl : pLookup pt p with
      | none => simp [hl] at h
      | some w =>
        simp only [hl] at h
        obtain ⟨h1, _, _⟩ := closeRelations_inv hcomp hinv hrbg he hent (by rw [psi_empty, hone]) hcl
        have hw1 := closeRelations_letters hcomp hinv hrbg he hw hent (by rw [psi_empty, hone])
          (by simp [empty_eq]) hcl
        exact treeFold_letters hcomp hinv hrbg es e1 _ e' p'
          (fun pt' gen' hm => htree pt' gen' (by simp [hm])) h1 hw1 h

theorem genFold_letters (hcomp : complete t n = true) (hinv : InvConsistent t n) {rbg : RelMap}
    (hrbg : RbgOk t n rels rbg) {p2w : PMap} (hu : ∀ x w, pLookup x p2w = some w → u x = w)
    {G : List (List Int)} :
    ∀ (ps : List (Nat × Int)) (e : EMap) (gs : List (List Int)) (e' : EMap),
      (∀ px g, (px, g) ∈ ps → ∃ d, entry t n px g = some d) →
      EInv t n rels u G e → WInv G.length e →
      genFold (Table.ofView n t) rbg p2w ps e gs = .ok (e', G) → WInv G.length e'
  | [], e, gs, e', _, _, hw, h => by
    simp only [genFold, Outcome.ok.injEq, Prod.mk.injEq] at h
    rw [← h.1]; exact hw
  | (px, g) :: r, e, gs, e', hps, he, hw, h => by
    obtain ⟨d, hent⟩ := hps px g (by simp)
    have hps' : ∀ px' g', (px', g') ∈ r → ∃ d, entry t n px' g' = some d :=
      fun px' g' hm => hps px' g' (by simp [hm])
    simp only [genFold] at h
    cases hk : e.get px g with
    | some W =>
      simp only [hk] at h
      exact genFold_letters hcomp hinv hrbg hu r e gs e' hps' he hw h
    | none =>
      simp only [hk] at h
      cases hx : pLookup px p2w with
      | none => simp [hx] at h
      | some wx =>
        simp only [hx, get_ofView hent] at h
        cases hy : pLookup d p2w with
        | none => simp [hy] at h
        | some wy =>
          simp only [hy] at h
          generalize hc : closeRelations (Table.ofView n t) rbg e (px, g) _ = cr at h
          cases cr with
          | err => simp at h
          | panic => simp at h
          | ok e1 =>
            simp only at h
            obtain ⟨rest, hrest⟩ := genFold_prefix r e1 _ e' G h
            have hword : psi n rels G (FW.new [((gs ++ [schreierGen wx g wy]).length : Int)]) =
                sch n rels u t px g := by
              rw [psi_letter G _ (by simp)]
              have : G.getD ((gs ++ [schreierGen wx g wy]).length - 1) [] = schreierGen wx g wy := by
                rw [hrest]
                simp
              rw [this, mkG_schreierGen]
              simp only [sch, hent, hu px wx hx, hu d wy hy]
            have hlet : ∀ x ∈ FW.new [((gs ++ [schreierGen wx g wy]).length : Int)], x ∈ letters G.length := by
              intro x hx'
              have := mem_normalized hx'
              simp only [List.mem_singleton] at this
              subst this
              rw [mem_letters]
              left
              have : (gs ++ [schreierGen wx g wy]).length ≤ G.length := by rw [hrest]; simp
              simp only [List.length_append, List.length_cons, List.length_nil] at this ⊢
              omega
            obtain ⟨a1, _, _⟩ := closeRelations_inv hcomp hinv hrbg he hent hword hc
            have hw1 := closeRelations_letters hcomp hinv hrbg he hw hent hword hlet hc
            exact genFold_letters hcomp hinv hrbg hu r e1 _ e' hps' a1 hw1 h

theorem subrelFold_letters {K : Nat} {ct : Table} {e2 : EMap} (he : WInv K e2) :
    ∀ (ps : List (Nat × List Int)) (acc res : List (List Int)),
      (∀ w ∈ acc, ∀ x ∈ w, x ∈ letters K) → subrelFold ct e2 ps acc = .ok res →
      ∀ w ∈ res, ∀ x ∈ w, x ∈ letters K
  | [], acc, res, hacc, h => by
    simp only [subrelFold, Outcome.ok.injEq] at h; subst h; exact hacc
  | (p, r) :: rest, acc, res, hacc, h => by
    simp only [subrelFold] at h
    cases hT : Stab.traceWord ct e2 p r FW.empty with
    | err => simp [hT] at h
    | panic => simp [hT] at h
    | ok T =>
      simp only [hT] at h
      have hTl := model_traceWord_letters he r p FW.empty T (by simp [empty_eq]) hT
      have hred : isReduced T = true := model_traceWord_isReduced ct e2 r p FW.empty T (by rfl) hT
      have hrep : ∀ x ∈ FW.relatorRepresentative T, x ∈ letters K := by
        by_cases hn : T = []
        · subst hn; rw [relRep_nil]; simp
        · have hm := relRep_mem hred hn
          simp only [rotInvList, List.mem_flatMap, List.mem_range, List.mem_cons, List.not_mem_nil, or_false] at hm
          obtain ⟨i, _, hr | hr⟩ := hm
          · rw [hr]; exact lettersOk_rotated hTl _
          · rw [hr]; exact lettersOk_inverse (lettersOk_rotated hTl _)
      split at h
      · refine subrelFold_letters he rest _ res ?_ h
        intro w hw
        rcases List.mem_append.mp hw with hw | hw
        · exact hacc w hw
        · simp only [List.mem_singleton] at hw; subst hw; exact hrep
      · exact subrelFold_letters he rest acc res hacc h

end Letters

section LettersFinal
variable {t : Tab} {n : Nat} {rels : List (List Int)}

/-- the returned relators are words over `±1..±gens.length` without a zero letter -/
theorem relators_letters (hcomp : complete t n = true) {subs : List (List Int)} (hv : Valid t n rels subs)
    {base : Nat} (hb : base < t.size) {gens srels : List (List Int)}
    (h : stabilizer base rels (Table.ofView n t) = .ok (gens, srels)) :
    ∀ w ∈ srels, ∀ g ∈ w, g ≠ 0 ∧ g.natAbs ≤ gens.length := by
  have hinv : InvConsistent t n := hv.inv
  have hl : ∀ rel ∈ rels, ∀ g ∈ rel, g ∈ letters n :=
    fun rel hrel => trace_letters (hv.rel rel hrel 0 hv.pos)
  unfold stabilizer at h
  cases h1 : relatorsByStartGen rels with
  | err => simp [h1] at h
  | panic => simp [h1] at h
  | ok rbg =>
    simp only [h1] at h
    have hrbg := rbgOk_of_start hv hl h1
    obtain ⟨edges, R, hsp, hwalk, hbR, hRlt, hRcl⟩ := spanningTree_spec hcomp hb
    simp only [hsp] at h
    cases h3 : treeFold (Table.ofView n t) rbg edges (EMap.new (Table.ofView n t).nrGens) [(base, FW.empty)] with
    | err => simp [h3] at h
    | panic => simp [h3] at h
    | ok ep =>
      obtain ⟨e1, p2w⟩ := ep
      simp only [h3] at h
      cases h4 : genFold (Table.ofView n t) rbg p2w (genPairs (Table.ofView n t)) e1 [] with
      | err => simp [h4] at h
      | panic => simp [h4] at h
      | ok eg =>
        obtain ⟨e2, gens'⟩ := eg
        simp only [h4] at h
        cases h5 : subrelFold (Table.ofView n t) e2 (subrelPairs (Table.ofView n t) rels) [] with
        | err => simp [h5] at h
        | panic => simp [h5] at h
        | ok sub =>
          simp only [h5, Outcome.ok.injEq, Prod.mk.injEq] at h
          obtain ⟨rfl, hsr⟩ := h
          have hk0 : PKeys [(base, FW.empty)] [base] := by
            intro k
            simp only [pLookup, List.mem_singleton]
            by_cases e : base = k
            · simp [e]
            · simp only [e, if_false]
              constructor
              · intro hh; cases hh
              · intro hh; exact absurd hh.symm e
          obtain ⟨hkeys, hmono, hedge⟩ := treeFold_p2w hcomp edges [base] R _ _ e1 p2w hwalk hk0 h3
          have hu : ∀ x w, pLookup x p2w = some w → (fun x => (pLookup x p2w).getD []) x = w := by
            intro x w hx; simp [hx]
          have htree : ∀ pt gen, (pt, gen) ∈ edges → ∃ tgt, entry t n pt gen = some tgt ∧
              sch n rels (fun x => (pLookup x p2w).getD []) t pt gen = 1 := by
            intro pt gen hm
            obtain ⟨tgt, w, hent, hw1, hw2⟩ := hedge pt gen hm
            refine ⟨tgt, hent, ?_⟩
            simp only [sch, hent, hw1, hw2, Option.getD_some, mkG_mulLetter]
            simp [mul_assoc]
          have he0 : EInv t n rels (fun x => (pLookup x p2w).getD []) gens'
              (EMap.new (Table.ofView n t).nrGens) :=
            ⟨rfl, fun c g d W _ hW => by rw [EMap.get_new] at hW; cases hW⟩
          have hw0 : WInv gens'.length (EMap.new (Table.ofView n t).nrGens) :=
            fun c g W hW => by rw [EMap.get_new] at hW; cases hW
          obtain ⟨he1, _⟩ := treeFold_einv hcomp hinv hrbg edges _ _ e1 p2w htree he0 h3
          have hw1 := treeFold_letters hcomp hinv hrbg edges _ _ e1 p2w htree he0 hw0 h3
          have hpairs : ∀ px g, (px, g) ∈ genPairs (Table.ofView n t) → ∃ d, entry t n px g = some d :=
            fun px g hm => complete_spec hcomp (mem_genPairs.mp hm).1 (mem_genPairs.mp hm).2
          have hw2 := genFold_letters hcomp hinv hrbg hu (genPairs (Table.ofView n t)) e1 [] e2 hpairs he1 hw1 h4
          intro w hw g hg
          rw [← hsr] at hw
          exact mem_letters_iff.mp (subrelFold_letters hw2 _ [] sub (by simp) h5 w (mem_sortDescending hw) g hg)

/-- the returned generators are words over `±1..±n` without a zero letter -/
theorem generators_letters (hcomp : complete t n = true) {subs : List (List Int)} (hv : Valid t n rels subs)
    {base : Nat} {gens srels : List (List Int)}
    (h : stabilizer base rels (Table.ofView n t) = .ok (gens, srels)) :
    ∀ w ∈ gens, ∀ g ∈ w, g ≠ 0 ∧ g.natAbs ≤ n := by
  intro w hw g hg
  exact mem_letters_iff.mp (trace_letters (stabilizer_gens_fix hcomp hv.inv h w hw) g hg)

end LettersFinal

end DSymVerif.StabP
