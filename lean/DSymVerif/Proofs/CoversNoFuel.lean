/-
Property C05, part 21: the statements about `covers` without a fuel hypothesis — the model
`Covers.coversAll` runs `coset_tables` with the budget `searchFuel`, which is adequate
(C12 `fuelOK_of_ge_searchFuel`, w-c11).
-/
import DSymVerif.Model.CoversAll
import DSymVerif.Proofs.CoversComplete
import DSymVerif.Proofs.CoversPi1Table
import DSymVerif.Proofs.LowIndexFuel

namespace DSymVerif.CoversP
open DSymVerif DSymVerif.DS DSymVerif.FG DSymVerif.FGP DSymVerif.Cosets DSymVerif.SpecC11
open DSymVerif.CosetP DSymVerif.Covers DSymVerif.LowIndexP

theorem coversAll_eq {ds : DSymData} {f : FundGroup} (hf : fundamentalGroup ds = .ok f) (k : Nat) :
    coversAll ds k = Covers.covers ds k (searchFuel f.nrGenerators k) := by
  unfold coversAll Covers.covers
  rw [hf]

/-- more fuel than `searchFuel` does not change `covers` -/
theorem covers_more_fuel_same {ds : DSymData} {f : FundGroup} (hf : fundamentalGroup ds = .ok f)
    (k fuel : Nat) (h : searchFuel f.nrGenerators k ≤ fuel) :
    Covers.covers ds k fuel = coversAll ds k := by
  unfold coversAll Covers.covers
  rw [hf]
  simp only
  rw [CanonP.cosetTables_more_fuel_same f.nrGenerators f.relators k fuel h]

/-- every entry of `covers(ds,k)` is a covering with at most `max k 1` sheets — no fuel -/
theorem coversAll_covering {ds : DSymData} (hs : ValidSym ds) (hsz : 1 ≤ ds.size) (hdim : 1 ≤ ds.dim)
    (k : Nat) :
    ∃ cs, coversAll ds k = .ok cs ∧ ∀ c ∈ cs, ∃ n, IsCoverOf ds c n ∧ n ≤ max k 1 := by
  obtain ⟨f0, hf0⟩ := fundamentalGroup_ok hs
  obtain ⟨f, hf, h⟩ := covers_covering hs hsz hdim k (searchFuel f0.nrGenerators k)
  rw [hf0] at hf
  cases hf
  obtain ⟨cs, hcs, hall⟩ := h (CanonP.fuelOK_of_ge_searchFuel _ _ k _ (Nat.le_refl _))
  refine ⟨cs, by rw [coversAll_eq hf0]; exact hcs, ?_⟩
  intro c hc
  obtain ⟨x, _, t, _, _, hcov, hle⟩ := forall₂_mem_right hall c hc
  exact ⟨t.len, hcov, hle⟩

/-- the classification of coverings by `covers(ds,k)` — no fuel -/
theorem coversAll_exactly {ds : DSymData} (hs : ValidSym ds) (hsz : 1 ≤ ds.size) (hdim : 1 ≤ ds.dim)
    (hconn : ds.view.isConnected = true) (k : Nat) :
    ∃ cs, coversAll ds k = .ok cs ∧
      (∀ c' ∈ cs, ∃ n, IsCoverOf ds c' n ∧ n ≤ max k 1 ∧ c'.view.isConnected = true) ∧
      cs.Pairwise (fun c1 c2 => ∀ φ, ¬ (c2.size = c1.size ∧ CoverIso ds c1 c2 c1.size φ)) ∧
      (∀ c j, IsCoverOf ds c j → j ≤ k →
        ∃ c' ∈ cs, ∃ φ, c'.size = c.size ∧ CoverIso ds c c' c.size φ) := by
  obtain ⟨f0, hf0⟩ := fundamentalGroup_ok hs
  obtain ⟨f, hf, h⟩ := covers_exactly hs hsz hdim hconn k (searchFuel f0.nrGenerators k)
  rw [hf0] at hf
  cases hf
  obtain ⟨cs, hcs, h1, h2, h3⟩ := h (CanonP.fuelOK_of_ge_searchFuel _ _ k _ (Nat.le_refl _))
  exact ⟨cs, by rw [coversAll_eq hf0]; exact hcs, h1, h2, h3⟩

/-- the view of a yielded table (`[]` if there is none) -/
def viewOf (x : Outcome Cosets.Table) : List (List Int) :=
  match x with
  | .ok t => (match t.view with
    | .ok v => v
    | _ => [])
  | _ => []

/-- one entry per conjugacy class, each with fundamental group the stabiliser of row 0 of its
    table — no fuel: `vs` lists the (views of the) coset tables the entries were built from -/
theorem coversAll_classes_groups {ds : DSymData} (hs : ValidSym ds) (hsz : 1 ≤ ds.size)
    (hdim : 1 ≤ ds.dim) (hconn : ds.view.isConnected = true) (k : Nat) :
    ∃ (f : FundGroup) (hf : fundamentalGroup ds = .ok f) (cs : List DSymData)
      (vs : List (List (List Int))),
      coversAll ds k = .ok cs ∧
      List.Forall₂ (fun v c => ∃ (hv : Valid (CosetInvP.viewTab v) f.nrGenerators f.relators []),
          IsCoverOf ds c (CosetInvP.viewTab v).size ∧
          TableOps ds c f.edgeToWord (CosetInvP.viewTab v) f.nrGenerators ∧
          (stab0 hv).index = (CosetInvP.viewTab v).size ∧ (CosetInvP.viewTab v).size ≤ max k 1 ∧
          ∃ φ : TGroup c →* TGroup ds, Function.Injective φ ∧
            φ.range = (MulAction.stabilizer (Equiv.Perm (Fin (CosetInvP.viewTab v).size))
                (⟨0, hv.pos⟩ : Fin (CosetInvP.viewTab v).size)).comap (rhoT hs hdim hf hv)) vs cs ∧
      vs.Pairwise (fun v1 v2 =>
        ∀ (hv1 : Valid (CosetInvP.viewTab v1) f.nrGenerators f.relators [])
          (hv2 : Valid (CosetInvP.viewTab v2) f.nrGenerators f.relators []),
          ¬ CanonP.SubConj (stab0 hv1) (stab0 hv2)) ∧
      (∀ H : Subgroup (PresentedGroup (relSet f.nrGenerators f.relators)), H.index ≠ 0 → H.index ≤ k →
        ∃ v ∈ vs, ∃ (hv : Valid (CosetInvP.viewTab v) f.nrGenerators f.relators []),
          CanonP.SubConj H (stab0 hv)) := by
  obtain ⟨f0, hf0⟩ := fundamentalGroup_ok hs
  obtain ⟨f, hf, h⟩ := covers_classes hs hsz hdim k (searchFuel f0.nrGenerators k)
  rw [hf0] at hf
  cases hf
  obtain ⟨cs, hcs, hall, hpw, hcomp⟩ := h (CanonP.fuelOK_of_ge_searchFuel _ _ k _ (Nat.le_refl _))
  refine ⟨f0, hf0, cs,
    (cosetTables f0.nrGenerators f0.relators k (searchFuel f0.nrGenerators k)).map viewOf,
    by rw [coversAll_eq hf0]; exact hcs, ?_, ?_, ?_⟩
  · rw [List.forall₂_map_left_iff]
    refine hall.imp ?_
    rintro x c ⟨t, v, hv, hx, hview, _, hcov, hops, hidx, hle⟩
    have hvo : viewOf x = v := by rw [hx]; unfold viewOf; simp only [hview]
    rw [hvo]
    obtain ⟨φ, _, _, hinj, hrange⟩ := cover_group_iso_stabiliser hs hsz hdim hconn hf0 hv hcov hops
    exact ⟨hv, hcov, hops, hidx, hle, φ, hinj, hrange⟩
  · rw [List.pairwise_map]
    refine List.Pairwise.imp_of_mem ?_ hpw
    intro x y hx hy hxy hv1 hv2
    obtain ⟨_, _, t1, v1, _, hx1, hview1, _⟩ := forall₂_mem_left hall x hx
    obtain ⟨_, _, t2, v2, _, hx2, hview2, _⟩ := forall₂_mem_left hall y hy
    have e1 : viewOf x = v1 := by rw [hx1]; unfold viewOf; simp only [hview1]
    have e2 : viewOf y = v2 := by rw [hx2]; unfold viewOf; simp only [hview2]
    revert hv1 hv2
    rw [e1, e2]
    intro hv1 hv2
    exact hxy t1 t2 v1 v2 hv1 hv2 hx1 hx2 hview1 hview2
  · intro H h0 hk
    obtain ⟨t, v, hv, hmem, hview, hconj⟩ := hcomp H h0 hk
    refine ⟨v, List.mem_map.2 ⟨_, hmem, ?_⟩, hv, hconj⟩
    unfold viewOf
    simp only [hview]

end DSymVerif.CoversP
