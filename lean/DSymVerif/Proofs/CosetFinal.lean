/-
Consequences of the table invariant once no coincidence is pending (C11): inverse
consistency on canonical rows, dead rows agree with their canonical row, every canonical
row is reached from the base row (transitivity), and in a complete table a scan that finds
nothing to merge means the word closes.
-/
import DSymVerif.Proofs.CosetScan

namespace DSymVerif.CosetInvP
open DSymVerif DSymVerif.Cosets DSymVerif.LowIndexP DSymVerif.CosetPartP

/-! ### consequences of the invariant with an empty queue -/

/-- inverse consistency on canonical rows -/
theorem invCan_of_tcq {t : Table} (inv : TCq t []) {c d : Nat} {g : Int} (hg : g ∈ t.allGens)
    (hc : t.canon c = c) (h : t.get c g = .ok (some d)) : t.get d (-g) = .ok (some c) := by
  obtain ⟨e, he, hs⟩ := inv.uinv c g d hg h
  have := hs.eq_of_nil inv.shape
  rw [get_canon inv.shape he, hc] at this
  rw [← this]; exact he

/-- a dead row's entry is also an entry of its canonical row -/
theorem get_canon_row {t : Table} (inv : TCq t []) {x d : Nat} {g : Int} (hg : g ∈ t.allGens)
    (h : t.get x g = .ok (some d)) : t.get (t.canon x) g = .ok (some d) := by
  obtain ⟨e, he, hs⟩ := inv.uinv x g d hg h
  have h1 := hs.eq_of_nil inv.shape
  rw [get_canon inv.shape he] at h1
  rw [h1] at he
  have := invCan_of_tcq inv (neg_mem_allGensOf hg) (get_canon inv.shape h) he
  rw [Int.neg_neg] at this
  exact this

theorem mtrace_append (t : Table) : ∀ (a b : List Int) (c : Nat),
    mtrace t c (a ++ b) = (mtrace t c a).bind (fun d => mtrace t d b)
  | [], b, c => by simp [mtrace]
  | g :: a, b, c => by
    simp only [List.cons_append, mtrace]
    cases hg : t.get c g with
    | ok o =>
      cases o with
      | none => simp
      | some d => simpa using mtrace_append t a b d
    | err => simp
    | panic => simp

/-- a traced path can be walked back -/
theorem mtrace_reverse {t : Table} (inv : TCq t []) : ∀ (w : List Int) (c d : Nat),
    WordOK t w → t.canon c = c → mtrace t c w = some d →
    mtrace t d (w.reverse.map (fun x => -x)) = some c ∧ t.canon d = d
  | [], c, d, _, hc, h => by
    simp only [mtrace, Option.some.injEq] at h
    subst h; exact ⟨rfl, hc⟩
  | g :: w, c, d, hw, hc, h => by
    simp only [mtrace] at h
    cases hg : t.get c g with
    | ok o =>
      cases o with
      | none => simp [hg] at h
      | some e =>
        simp only [hg] at h
        have hgm : g ∈ t.allGens := hw g (by simp)
        obtain ⟨ih, hd⟩ := mtrace_reverse inv w e d (fun x hx => hw x (by simp [hx]))
          (get_canon inv.shape hg) h
        refine ⟨?_, hd⟩
        rw [List.reverse_cons, List.map_append, mtrace_append, ih]
        simp [mtrace, invCan_of_tcq inv hgm hc hg]
    | err => simp [hg] at h
    | panic => simp [hg] at h

/-- every class is connected to the class of row 0 -/
theorem path_to_base {t : Table} (inv : TCq t []) : ∀ (m : Nat), m < t.len →
    ∃ w, WordOK t w ∧ mtrace t (t.canon m) w = some (t.canon 0) := by
  intro m
  induction m using Nat.strongRecOn with
  | _ m ih =>
    intro hm
    by_cases h0 : m = 0
    · subst h0; exact ⟨[], (fun _ h => by cases h), rfl⟩
    · obtain ⟨g, hg, i, hi, hget⟩ := inv.creation m (by omega) hm
      have h1 := get_canon_row inv hg hget
      obtain ⟨w, hw, hp⟩ := ih i hi (by omega)
      refine ⟨g :: w, ?_, ?_⟩
      · intro x hx
        rcases List.mem_cons.mp hx with rfl | hx
        · exact hg
        · exact hw x hx
      · simp [mtrace, h1, hp]

/-- transitivity: every live row is reached from the base row -/
theorem reach_of_tcq {t : Table} (inv : TCq t []) {c : Nat} (hc : t.canon c = c) (hl : c < t.len) :
    ∃ w, WordOK t w ∧ mtrace t (t.canon 0) w = some c := by
  obtain ⟨w, hw, hp⟩ := path_to_base inv c hl
  rw [hc] at hp
  obtain ⟨h1, _⟩ := mtrace_reverse inv w c (t.canon 0) hw hc hp
  refine ⟨w.reverse.map (fun x => -x), ?_, h1⟩
  intro x hx
  simp only [List.mem_map, List.mem_reverse] at hx
  obtain ⟨y, hy, rfl⟩ := hx
  exact neg_mem_allGensOf (hw y hy)

/-! ### in a complete table a scan runs through the whole word -/

theorem scanGo_complete {t : Table} (s : Shape t) (hcomp : AllComplete t) (limit : Nat) :
    ∀ (xs : List Int) (row idx r i : Nat), (∀ x ∈ xs, x ∈ t.allGens) → t.canon row = row →
      row < t.len → idx + xs.length = limit → scanGo t limit xs row idx = .ok (r, i) →
      i = limit ∧ mtrace t row xs = some r
  | [], row, idx, r, i, _, _, _, hl, h => by
    simp only [List.length_nil, Nat.add_zero] at hl
    simp only [scanGo, hl, if_true, Outcome.ok.injEq, Prod.mk.injEq] at h
    exact ⟨h.2.symm, by rw [h.1]; rfl⟩
  | x :: xs, row, idx, r, i, hxs, hc, hrl, hl, h => by
    simp only [scanGo] at h
    have hx : x ∈ t.allGens := hxs x (by simp)
    obtain ⟨d, hd⟩ := (get_some_iff t row x).mpr (hcomp row hrl hc x hx)
    simp only [hd] at h
    simp only [List.length_cons] at hl
    obtain ⟨a, b⟩ := scanGo_complete s hcomp limit xs d (idx + 1) r i
      (fun y hy => hxs y (by simp [hy])) (get_canon s hd) (s.range row x d hx hd) (by omega) h
    exact ⟨a, by simp [mtrace, hd, b]⟩

/-- a scan that finds nothing to merge in a complete table: the word closes -/
theorem closed_word {t : Table} (inv : TCq t []) (hcomp : AllComplete t) {w : List Int}
    (hw : WordOK t w) {c : Nat} (hc : t.canon c = c) (hl : c < t.len)
    (h : scanAndMerge t w c = .ok (t, false)) : mtrace t c w = some c := by
  unfold scanAndMerge at h
  rw [hc] at h
  cases hsb : scanBothWays t w c with
  | ok r =>
    obtain ⟨head, tail, gap, x⟩ := r
    simp only [hsb] at h
    unfold scanBothWays at hsb
    simp only [] at hsb
    cases h1 : scan t w c w.length with
    | ok p1 =>
      obtain ⟨hd, i⟩ := p1
      simp only [h1] at hsb
      unfold scan at h1
      rw [List.take_length] at h1
      obtain ⟨e1, e2⟩ := scanGo_complete inv.shape hcomp w.length w c 0 hd i hw hc hl (by simp) h1
      subst e1
      have h2 : scanInverse t w c (w.length - w.length) = .ok (c, 0) := by
        unfold scanInverse
        simp [scanGo]
      simp only [h2, Outcome.ok.injEq, Prod.mk.injEq] at hsb
      obtain ⟨e3, e4, e5, _⟩ := hsb
      by_cases hm : gap = 0 ∧ head ≠ tail
      · rw [if_pos hm] at h
        cases hmg : t.merge head tail with
        | ok t1 => simp [hmg] at h
        | err => simp [hmg] at h
        | panic => simp [hmg] at h
      · have : head = tail := by
          by_contra hne
          exact hm ⟨by omega, hne⟩
        rw [e2, e3, this, ← e4]
    | err => simp [h1] at hsb
    | panic => simp [h1] at hsb
  | err => simp [hsb] at h
  | panic => simp [hsb] at h

end DSymVerif.CosetInvP
