/-
Lemmas for property C07, phase 2, part 3: **the orbit maps are the action of the automorphism
group of the D-set on its (i,i+1)-orbits**.  From C04's `automorphisms_spec` (the list returned by
`automorphisms()` on a connected complete D-set is exactly the operation-commuting self-maps, all
of them bijections) and C02's `collect_orbits` correctness (the index table is constant exactly on
orbits, rows are numbered apart, every number is used): `orbit_maps` does not panic, each of its
entries is the permutation of orbit numbers induced by an automorphism, every automorphism induces
one, and the set of maps is a group (`GroupMaps`) — the hypothesis of `canonical_one_per_class`.
-/
import DSymVerif.Proofs.MorphismBij
import DSymVerif.Proofs.MorphismConn
import DSymVerif.Proofs.DSymGenCanon
import DSymVerif.Proofs.DSymGenCtx

namespace DSymVerif.SymGen
open DSymVerif.DS DSymVerif.Mor

/-- an automorphism of a complete D-set: chambers to chambers, commuting with every operation
    (bijectivity follows on a connected D-set) -/
structure IsAut (ds : DSetData) (f : Nat → Nat) : Prop where
  range : ∀ d, 1 ≤ d → d ≤ ds.size → 1 ≤ f d ∧ f d ≤ ds.size
  comm : ∀ i d, i ≤ ds.dim → 1 ≤ d → d ≤ ds.size → f (ds.opU i d) = ds.opU i (f d)

/-! ### the view `automorphisms()` sees -/

theorem mvSimple_struct {ds : DSetData} (h : ValidSet ds) :
    OpRange (mvSimple ds) ∧ OpPos (mvSimple ds) ∧ Complete (mvSimple ds) (mvSimple ds).dim ∧
    Invol (mvSimple ds) :=
  ofSym_validSet (DSymData.ofSimple ds) h

theorem mvSimple_connected {ds : DSetData} (h : ValidSet ds) (hc : ds.viewSimple.isConnected = true) :
    Connected (mvSimple ds) :=
  (connected_iff_isConnected (DSymData.ofSimple ds) h).mpr hc

theorem mvSimple_m {ds : DSetData} {i d : Nat} (hi : i < ds.dim) (h1 : 1 ≤ d) (h2 : d ≤ ds.size) :
    (mvSimple ds).m i d = some 0 := by
  show ds.viewSimple.m i (i + 1) d = some 0
  unfold View.m
  have e1 : ds.viewSimple.dim = ds.dim := rfl
  have e2 : ds.viewSimple.size = ds.size := rfl
  rw [e1, e2, if_neg (by simp only [Bool.or_eq_true, decide_eq_true_eq]; omega), if_neg (by omega),
    if_pos (by simp)]

theorem isMor_of_isAut {ds : DSetData} {f : Nat → Nat} (hf : IsAut ds f) :
    IsMor (mvSimple ds) (mvSimple ds) f ∧ InRange (mvSimple ds) (mvSimple ds) f := by
  refine ⟨⟨fun d h1 h2 => ?_, fun d h1 h2 i hi di ei hdi hei => ?_⟩, fun d h1 h2 => hf.range d h1 h2⟩
  · unfold degreesMatch2
    rw [List.all_eq_true]
    intro i hi
    have hi' : i < ds.dim := List.mem_range.mp hi
    have r := hf.range d h1 h2
    rw [mvSimple_m hi' h1 h2, mvSimple_m hi' r.1 r.2]
    rfl
  · obtain ⟨_, _, _, rfl⟩ := opSimple_some (t := ds) hdi
    obtain ⟨_, _, _, rfl⟩ := opSimple_some (t := ds) hei
    exact hf.comm i d hi h1 h2

theorem isAut_of_isMor {ds : DSetData} {f : Nat → Nat} (hm : IsMor (mvSimple ds) (mvSimple ds) f)
    (hr : InRange (mvSimple ds) (mvSimple ds) f) : IsAut ds f := by
  refine ⟨fun d h1 h2 => hr d h1 h2, fun i d hi h1 h2 => ?_⟩
  have r := hr d h1 h2
  exact hm.op d h1 h2 i hi _ _ (opSimple_of_range (t := ds) hi h1 h2)
    (opSimple_of_range (t := ds) hi r.1 r.2)

/-- what `dset.automorphisms()` returns on a connected complete D-set -/
theorem aut_list {ds : DSetData} (h : ValidSet ds) (hc : ds.viewSimple.isConnected = true)
    (h1 : 1 ≤ ds.size) :
    ∃ L, automorphisms (mvSimple ds) = .ok L ∧
      (∀ f, f ∈ L → f.size = ds.size + 1 ∧ IsAut ds (gv f)) ∧
      (∀ g, IsAut ds g → ∃ f, f ∈ L ∧ ∀ d, 1 ≤ d → d ≤ ds.size → gv f d = g d) := by
  obtain ⟨hR, _, hC, _⟩ := mvSimple_struct h
  obtain ⟨L, hL, ha, hb, _⟩ := automorphisms_spec (mvSimple ds) hR hC (mvSimple_connected h hc) h1
  refine ⟨L, hL, fun f hf => ?_, fun g hg => ?_⟩
  · obtain ⟨hs, hr, hm⟩ := ha f hf
    exact ⟨hs, isAut_of_isMor hm hr⟩
  · obtain ⟨hm, hr⟩ := isMor_of_isAut hg
    exact hb g hm hr

theorem aut_bijective {ds : DSetData} (h : ValidSet ds) (hc : ds.viewSimple.isConnected = true)
    (h1 : 1 ≤ ds.size) {f : Nat → Nat} (hf : IsAut ds f) :
    (∀ x y, 1 ≤ x → x ≤ ds.size → 1 ≤ y → y ≤ ds.size → f x = f y → x = y) ∧
    (∀ d, 1 ≤ d → d ≤ ds.size → ∃ x, 1 ≤ x ∧ x ≤ ds.size ∧ f x = d) := by
  obtain ⟨hR, _, hC, hI⟩ := mvSimple_struct h
  obtain ⟨hm, hr⟩ := isMor_of_isAut hf
  exact ⟨endo_injective (mvSimple ds) hR hC hI (mvSimple_connected h hc) h1 f hm hr,
    endo_surjective (mvSimple ds) hR hC hI (mvSimple_connected h hc) h1 f hm hr⟩

/-! ### automorphisms and orbits -/

theorem aut_orb2 {ds : DSetData} (h : ValidSet ds) {f : Nat → Nat} (hf : IsAut ds f) {i j : Nat}
    (hi : i ≤ ds.dim) (hj : j ≤ ds.dim) {d x : Nat} (hd : 1 ≤ d ∧ d ≤ ds.size)
    (ho : Orb2 ds i j d x) : Orb2 ds i j (f d) (f x) := by
  induction ho with
  | refl => exact Orb2.refl _
  | @stepI e ho' ih =>
    have he := Orb2.range h hi hj hd ho'
    rw [hf.comm i e hi he.1 he.2]
    exact Orb2.stepI ih
  | @stepJ e ho' ih =>
    have he := Orb2.range h hi hj hd ho'
    rw [hf.comm j e hj he.1 he.2]
    exact Orb2.stepJ ih

/-- the orbit number of chamber `d` in row `i` -/
def ixOf (index : Array (Array Nat)) (i d : Nat) : Nat := (index.getD i #[]).getD d 0

/-- the facts about `collect_orbits`' index table used below -/
structure IndexOK (ds : DSetData) (index : Array (Array Nat)) (count : Nat) : Prop where
  size : index.size = ds.dim
  rowSize : ∀ i, i < ds.dim → (index.getD i #[]).size = ds.size + 1
  lt : ∀ i d, i < ds.dim → 1 ≤ d → d ≤ ds.size → ixOf index i d < count
  iff : ∀ i d e, i < ds.dim → 1 ≤ d → d ≤ ds.size → 1 ≤ e → e ≤ ds.size →
    (ixOf index i d = ixOf index i e ↔ Orb2 ds i (i + 1) d e)
  apart : ∀ i i' d e, i < i' → i' < ds.dim → 1 ≤ d → d ≤ ds.size → 1 ≤ e → e ≤ ds.size →
    ixOf index i d < ixOf index i' e
  surj : ∀ k, k < count → ∃ i d, i < ds.dim ∧ 1 ≤ d ∧ d ≤ ds.size ∧ ixOf index i d = k

theorem indexOK_collect {ds : DSetData} (h : ValidSet ds) :
    IndexOK ds (collectOrbits ds).index (collectOrbits ds).rs.size := by
  have hrows := collectOrbits_rows h
  refine ⟨hrows.1, fun i hi => (hrows.2 i hi).size, fun i d hi h1 h2 => (hrows.2 i hi).lt d h1 h2,
    fun i d e hi h1 h2 h3 h4 => (hrows.2 i hi).iff d e h1 h2 h3 h4, ?_, fun k hk => collectOrbits_surj h hk⟩
  intro i i' d e hii hi' h1 h2 h3 h4
  exact collectOrbits_rows_lt h hii hi' h1 h2 h3 h4

/-- orbit numbers in different rows differ; equal numbers mean same row and same orbit -/
theorem IndexOK.eq_imp {ds : DSetData} {index : Array (Array Nat)} {count : Nat} (ok : IndexOK ds index count)
    {i i' d e : Nat} (hi : i < ds.dim) (hi' : i' < ds.dim) (hd : 1 ≤ d ∧ d ≤ ds.size)
    (he : 1 ≤ e ∧ e ≤ ds.size) (heq : ixOf index i d = ixOf index i' e) :
    i = i' ∧ Orb2 ds i (i + 1) d e := by
  have hii : i = i' := by
    rcases Nat.lt_trichotomy i i' with hlt | he' | hgt
    · have := ok.apart i i' d e hlt hi' hd.1 hd.2 he.1 he.2; omega
    · exact he'
    · have := ok.apart i' i e d hgt hi he.1 he.2 hd.1 hd.2; omega
  subst hii
  exact ⟨rfl, (ok.iff i d e hi hd.1 hd.2 he.1 he.2).mp heq⟩

/-- the permutation of orbit numbers induced by `f` -/
def Induces (ds : DSetData) (index : Array (Array Nat)) (count : Nat) (f : Nat → Nat) (m : List Nat) : Prop :=
  m.length = count ∧
  ∀ i d, i < ds.dim → 1 ≤ d → d ≤ ds.size → m.getD (ixOf index i d) 0 = ixOf index i (f d)

/-! ### `orbit_maps` for one automorphism -/

theorem orbitMapStep_ok {ds : DSetData} {index : Array (Array Nat)} {count : Nat}
    (ok : IndexOK ds index count) {map : Array Nat} (hms : map.size = ds.size + 1)
    {f : Nat → Nat} (hf : IsAut ds f) (hmf : ∀ d, 1 ≤ d → d ≤ ds.size → map.getD d 0 = f d)
    (m : Array Nat) (hm : m.size = count) {i d : Nat} (hi : i < ds.dim) (h1 : 1 ≤ d) (h2 : d ≤ ds.size) :
    orbitMapStep index map m i d = .ok (m.setIfInBounds (ixOf index i d) (ixOf index i (f d))) := by
  have r := hf.range d h1 h2
  unfold orbitMapStep
  rw [getElem?_eq_some_getD index i #[] (by rw [ok.size]; exact hi)]
  simp only
  rw [getElem?_eq_some_getD (index.getD i #[]) d 0 (by rw [ok.rowSize i hi]; omega),
    getElem?_eq_some_getD map d 0 (by omega)]
  simp only
  rw [hmf d h1 h2, getElem?_eq_some_getD (index.getD i #[]) (f d) 0 (by rw [ok.rowSize i hi]; omega)]
  simp only
  have := ok.lt i d hi h1 h2
  unfold ixOf at this ⊢
  rw [if_pos (by omega)]

/-- keys processed so far carry the induced value -/
def Written (_ds : DSetData) (index : Array (Array Nat)) (f : Nat → Nat) (m : Array Nat)
    (done : List (Nat × Nat)) : Prop :=
  ∀ k, k ∈ done → m.getD (ixOf index k.1 k.2) 0 = ixOf index k.1 (f k.2)

theorem orbitMap_fold {ds : DSetData} (h : ValidSet ds) {index : Array (Array Nat)} {count : Nat}
    (ok : IndexOK ds index count) {map : Array Nat} (hms : map.size = ds.size + 1)
    {f : Nat → Nat} (hf : IsAut ds f) (hmf : ∀ d, 1 ≤ d → d ≤ ds.size → map.getD d 0 = f d) :
    ∀ (keys done : List (Nat × Nat)) (m : Array Nat), m.size = count →
      (∀ k, k ∈ keys → k.1 < ds.dim ∧ 1 ≤ k.2 ∧ k.2 ≤ ds.size) →
      (∀ k, k ∈ done → k.1 < ds.dim ∧ 1 ≤ k.2 ∧ k.2 ≤ ds.size) →
      Written ds index f m done →
      ∃ m', keys.foldl (orbitMapFoldStep index map) (.ok m) = .ok m' ∧ m'.size = count ∧
        Written ds index f m' (done ++ keys) := by
  intro keys
  induction keys with
  | nil => intro done m hm _ _ hw; exact ⟨m, rfl, hm, by simpa using hw⟩
  | cons k rest ih =>
    intro done m hm hk hd hw
    obtain ⟨hk1, hk2, hk3⟩ := hk k (by simp)
    simp only [List.foldl_cons, orbitMapFoldStep]
    rw [orbitMapStep_ok ok hms hf hmf m hm hk1 hk2 hk3]
    have hlt := ok.lt k.1 k.2 hk1 hk2 hk3
    have hw' : Written ds index f (m.setIfInBounds (ixOf index k.1 k.2) (ixOf index k.1 (f k.2)))
        (done ++ [k]) := by
      intro k' hk'
      rcases List.mem_append.mp hk' with hin | hin
      · obtain ⟨hd1, hd2, hd3⟩ := hd k' hin
        by_cases heq : ixOf index k.1 k.2 = ixOf index k'.1 k'.2
        · -- same orbit: the value written now is the value required for k'
          obtain ⟨hrow, horb⟩ := ok.eq_imp hk1 hd1 ⟨hk2, hk3⟩ ⟨hd2, hd3⟩ heq
          rw [← heq, getD_setIfInBounds_self _ _ _ _ (by omega)]
          have hi0 : k.1 ≤ ds.dim := by omega
          have ho' := aut_orb2 h hf hi0 (show k.1 + 1 ≤ ds.dim by omega) ⟨hk2, hk3⟩ horb
          have r1 := hf.range k.2 hk2 hk3
          have r2 := hf.range k'.2 hd2 hd3
          rw [← hrow]
          exact (ok.iff k.1 _ _ hk1 r1.1 r1.2 r2.1 r2.2).mpr ho'
        · rw [getD_setIfInBounds_ne _ _ _ _ _ heq]
          exact hw k' hin
      · rw [List.mem_singleton.mp hin, getD_setIfInBounds_self _ _ _ _ (by omega)]
    obtain ⟨m', e, hs, hw''⟩ := ih (done ++ [k]) _ (by simp [hm])
      (fun k' hk' => hk k' (by simp [hk']))
      (fun k' hk' => by
        rcases List.mem_append.mp hk' with hin | hin
        · exact hd k' hin
        · rw [List.mem_singleton.mp hin]; exact ⟨hk1, hk2, hk3⟩) hw'
    exact ⟨m', e, hs, by simpa using hw''⟩

/-- `orbit_maps`' inner loops for one automorphism: no panic, and the result is the induced
    permutation of the orbit numbers -/
theorem orbitMapOf_spec {ds : DSetData} (h : ValidSet ds) {index : Array (Array Nat)} {count : Nat}
    (ok : IndexOK ds index count) {map : Array Nat} (hms : map.size = ds.size + 1)
    (hf : IsAut ds (gv map)) :
    ∃ m, orbitMapOf ds count index map = .ok m ∧ Induces ds index count (gv map) m := by
  obtain ⟨m', e, hs, hw⟩ := orbitMap_fold h ok hms hf (fun d _ _ => rfl)
    ((List.range ds.dim).flatMap fun i => (List.range ds.size).map fun d0 => (i, d0 + 1)) []
    (Array.replicate count 0) (by simp)
    (fun k hk => by
      obtain ⟨i, hi, hk'⟩ := List.mem_flatMap.mp hk
      obtain ⟨d0, hd0, rfl⟩ := List.mem_map.mp hk'
      have := List.mem_range.mp hi
      have := List.mem_range.mp hd0
      exact ⟨by simpa, by simp, by simp; omega⟩)
    (fun k hk => by cases hk) (fun k hk => by cases hk)
  refine ⟨m'.toList, ?_, by simpa using hs, fun i d hi h1 h2 => ?_⟩
  · unfold orbitMapOf
    simp only
    rw [e]
  · have hmem : (i, d) ∈ ([] : List (Nat × Nat)) ++
        ((List.range ds.dim).flatMap fun i => (List.range ds.size).map fun d0 => (i, d0 + 1)) := by
      simp only [List.nil_append, List.mem_flatMap, List.mem_range, List.mem_map]
      exact ⟨i, hi, d - 1, by omega, by congr 1; omega⟩
    have := hw (i, d) hmem
    simp only at this
    simpa [List.getD, Array.getD_eq_getD_getElem?] using this

theorem mapO_spec {α β : Type} (f : α → Outcome β) (P : α → β → Prop) :
    ∀ l : List α, (∀ a, a ∈ l → ∃ b, f a = .ok b ∧ P a b) →
      ∃ bs, mapO f l = .ok bs ∧ List.Forall₂ P l bs := by
  intro l
  induction l with
  | nil => intro _; exact ⟨[], rfl, List.Forall₂.nil⟩
  | cons a t ih =>
    intro h
    obtain ⟨b, hb, hp⟩ := h a (by simp)
    obtain ⟨bs, hbs, hf⟩ := ih (fun x hx => h x (by simp [hx]))
    exact ⟨b :: bs, by simp only [mapO, hb, hbs], List.Forall₂.cons hp hf⟩

/-- **`orbit_maps` = the action of the automorphisms on the orbit numbers** -/
theorem orbitMaps_spec {ds : DSetData} (h : ValidSet ds) (hc : ds.viewSimple.isConnected = true)
    (h1 : 1 ≤ ds.size) {index : Array (Array Nat)} {count : Nat} (ok : IndexOK ds index count) :
    ∃ ms, orbitMaps ds count index = .ok ms ∧
      (∀ m, m ∈ ms → ∃ f, IsAut ds f ∧ Induces ds index count f m) ∧
      (∀ f, IsAut ds f → ∃ m, m ∈ ms ∧ Induces ds index count f m) := by
  obtain ⟨L, hL, ha, hb⟩ := aut_list h hc h1
  obtain ⟨ms, hms, hf2⟩ := mapO_spec (orbitMapOf ds count index)
    (fun map m => Induces ds index count (gv map) m) L
    (fun map hmap => orbitMapOf_spec h ok (ha map hmap).1 (ha map hmap).2)
  refine ⟨ms, by unfold orbitMaps; rw [hL]; exact hms, ?_, ?_⟩
  · intro m hm
    obtain ⟨map, hmap, hind⟩ := forall₂_right hf2 m hm
    exact ⟨gv map, (ha map hmap).2, hind⟩
  · intro f hf
    obtain ⟨map, hmap, hagree⟩ := hb f hf
    obtain ⟨m, hm, hind⟩ := forall₂_left hf2 map hmap
    refine ⟨m, hm, hind.1, fun i d hi hd1 hd2 => ?_⟩
    rw [hind.2 i d hi hd1 hd2, hagree d hd1 hd2]
where
  forall₂_right {α β : Type} {P : α → β → Prop} {l : List α} {bs : List β}
      (h : List.Forall₂ P l bs) (b : β) (hb : b ∈ bs) : ∃ a, a ∈ l ∧ P a b := by
    induction h with
    | nil => cases hb
    | cons hp _ ih =>
      rcases List.mem_cons.mp hb with e | e
      · exact ⟨_, by simp, e ▸ hp⟩
      · obtain ⟨a, ha, hpa⟩ := ih e
        exact ⟨a, by simp [ha], hpa⟩
  forall₂_left {α β : Type} {P : α → β → Prop} {l : List α} {bs : List β}
      (h : List.Forall₂ P l bs) (a : α) (ha : a ∈ l) : ∃ b, b ∈ bs ∧ P a b := by
    induction h with
    | nil => cases ha
    | cons hp _ ih =>
      rcases List.mem_cons.mp ha with e | e
      · exact ⟨_, by simp, e ▸ hp⟩
      · obtain ⟨b, hb, hpb⟩ := ih e
        exact ⟨b, by simp [hb], hpb⟩

end DSymVerif.SymGen
