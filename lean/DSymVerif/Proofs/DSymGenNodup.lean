/-
Lemmas about the model of the D-symbol generator, part 7: no branching vector is emitted
twice (the subtrees below two children of a state differ in the entry the state branches on),
the meaning of `is_canonical`, and the numbering done by `DSyms::next`.
-/
import DSymVerif.Proofs.DSymGenTree

namespace DSymVerif.SymGen
open DSymVerif.DS

/-! ### the leaves of the tree carry pairwise different vectors -/

/-- the vector of a terminal state (`next ≥ count`) -/
def leafOf (c : Ctx) : Node → Option (List Nat)
  | .st s => if s.next ≥ c.count then some s.vs else none
  | .panicked => none

theorem childPure_pairwise (c : Ctx) (s : State) (n vmin : Nat) (hn : n < s.vs.length) :
    ∀ (k a : Nat), (childPure c s n vmin (List.range' a k)).Pairwise
      (fun x y => x.vs.getD n 0 ≠ y.vs.getD n 0) := by
  intro k
  induction k with
  | zero => intro a; simp [childPure]
  | succ k ih =>
    intro a
    have hlater : ∀ y, y ∈ childPure c s n vmin (List.range' (a + 1) k) → y.vs.getD n 0 ≠ a := by
      intro y hy
      obtain ⟨v, hv1, _, _, hp⟩ := (childPure_mem c s n vmin y k (a + 1)).mp hy
      have hvs : y.vs = s.vs.set n v := by
        rcases hp.2 with ⟨_, hx⟩ | ⟨_, _, hx⟩ <;> rw [hx]
      rw [hvs, getD_set s.vs n v n hn, if_pos rfl]
      omega
    rw [List.range'_succ]
    simp only [childPure]
    split
    · split
      · split
        · exact List.pairwise_singleton _ _
        · exact List.Pairwise.nil
      · rw [List.pairwise_cons]
        refine ⟨fun y hy => ?_, ih (a + 1)⟩
        simp only
        rw [getD_set s.vs n a n hn, if_pos rfl]
        exact fun e => hlater y hy e.symm
    · exact ih (a + 1)

theorem childPure_vs (c : Ctx) (s : State) (n vmin : Nat) (l : List Nat) (x : State)
    (hx : x ∈ childPure c s n vmin l) :
    (∃ v, x.vs = s.vs.set n v) ∧ (x.next = c.count ∨ x.next = s.next + 1) := by
  induction l with
  | nil => simp [childPure] at hx
  | cons v rest ih =>
    simp only [childPure] at hx
    split at hx
    · split at hx
      · split at hx
        · simp only [List.mem_singleton] at hx
          rw [hx]; exact ⟨⟨v, rfl⟩, Or.inl rfl⟩
        · cases hx
      · rcases List.mem_cons.mp hx with e | e
        · rw [e]; exact ⟨⟨v, rfl⟩, Or.inr rfl⟩
        · exact ih e
    · exact ih hx

/-- in the subtree below a state satisfying the invariant the terminal states carry pairwise
    different vectors, all agreeing with the state's vector before its `next` -/
theorem leaves_nodup {c : Ctx} (hw : WF c) :
    ∀ (n : Nat) (s : State), Inv c s → height c (.st s) ≤ n →
      ((BT.dfs (problem c) (height c) (.st s)).filterMap (leafOf c)).Nodup ∧
      ∀ ws, ws ∈ (BT.dfs (problem c) (height c) (.st s)).filterMap (leafOf c) →
        ∀ i, i < s.next → i < c.count → ws.getD i 0 = s.vs.getD i 0 := by
  intro n
  induction n with
  | zero =>
    intro s hinv hh
    simp only [height] at hh
    have := hinv.next
    omega
  | succ n ih =>
    intro s hinv hh
    rw [BT.dfs_unfold _ _ (children_decreasing c)]
    by_cases hleaf : s.next ≥ c.count ∨ c.baseCurv < 0
    · -- no children
      have hch : (problem c).children (.st s) = [] := by
        simp only [problem, children]
        rw [if_pos (by simpa using hleaf)]
      rw [hch]
      simp only [List.flatMap_nil, List.filterMap_cons, List.filterMap_nil, leafOf]
      by_cases hge : s.next ≥ c.count
      · rw [if_pos hge]
        exact ⟨List.nodup_singleton _, fun ws hws i _ _ => by rw [List.mem_singleton.mp hws]⟩
      · rw [if_neg hge]
        exact ⟨List.nodup_nil, fun ws hws => by cases hws⟩
    · have hn : s.next < c.count := by omega
      have hnb : ¬ c.baseCurv < 0 := fun h => hleaf (Or.inr h)
      have hself : leafOf c (.st s) = none := by
        simp only [leafOf]; rw [if_neg (by omega)]
      rw [List.filterMap_cons, hself]
      simp only
      -- the children, as states
      have hget : s.vs[s.next]? = some (s.vs.getD s.next 0) := getElem?_of_lt _ _ 0 (by rw [hinv.len]; exact hn)
      have hvm : s.vs.getD s.next 0 ≠ 0 := by
        have := hw.vminPos s.next hn
        have := hinv.lo s.next hn
        omega
      have hloop := childLoop_eq_pure hw hinv.len hn hvm
        (List.range' (s.vs.getD s.next 0) (Tables.genVMax + 1 - s.vs.getD s.next 0))
        (fun v hv => by have := (List.mem_range'_1.mp hv).1; omega)
      have hch : (problem c).children (.st s) =
          (childPure c s s.next (s.vs.getD s.next 0)
            (List.range' (s.vs.getD s.next 0) (Tables.genVMax + 1 - s.vs.getD s.next 0))).map .st := by
        simp only [problem, children]
        rw [if_neg (by simp only [Bool.or_eq_true, decide_eq_true_eq, not_or]; exact ⟨by omega, hnb⟩)]
        simp only [hget, hloop]
      rw [hch, List.filterMap_flatMap, List.flatMap_map]
      -- facts about each child
      have hchild : ∀ x, x ∈ childPure c s s.next (s.vs.getD s.next 0)
            (List.range' (s.vs.getD s.next 0) (Tables.genVMax + 1 - s.vs.getD s.next 0)) →
          Inv c x ∧ height c (.st x) ≤ n ∧ s.next < x.next ∧
          (∀ i, i < s.next → x.vs.getD i 0 = s.vs.getD i 0) := by
        intro x hx
        have hmem : Node.st x ∈ children c (.st s) := by
          have : Node.st x ∈ (problem c).children (.st s) := by
            rw [hch]; exact List.mem_map.mpr ⟨x, hx, rfl⟩
          exact this
        obtain ⟨x', hx', hinv'⟩ := children_inv hw hinv hmem
        cases hx'
        obtain ⟨⟨v, hvs⟩, hnext⟩ := childPure_vs c s _ _ _ x hx
        refine ⟨hinv', ?_, by omega, fun i hi => ?_⟩
        · have := children_decreasing c (.st s) (.st x) hmem
          omega
        · rw [hvs, getD_set s.vs s.next v i (by rw [hinv.len]; exact hn), if_neg (by omega)]
      refine ⟨?_, ?_⟩
      · rw [List.nodup_flatMap]
        refine ⟨fun x hx => (ih x (hchild x hx).1 (hchild x hx).2.1).1, ?_⟩
        have hpw := childPure_pairwise c s s.next (s.vs.getD s.next 0) (by rw [hinv.len]; exact hn)
          (Tables.genVMax + 1 - s.vs.getD s.next 0) (s.vs.getD s.next 0)
        -- strengthen the pairwise relation with membership
        have hpw' := List.Pairwise.and_mem.mp hpw
        refine List.Pairwise.imp ?_ hpw'
        rintro x y ⟨hx, hy, hne⟩
        simp only [Function.onFun]
        intro ws h1 h2
        have e1 := (ih x (hchild x hx).1 (hchild x hx).2.1).2 ws h1 s.next (hchild x hx).2.2.1 hn
        have e2 := (ih y (hchild y hy).1 (hchild y hy).2.1).2 ws h2 s.next (hchild y hy).2.2.1 hn
        exact hne (by rw [← e1, ← e2])
      · intro ws hws i hi hic
        obtain ⟨x, hx, hwx⟩ := List.mem_flatMap.mp hws
        have := (ih x (hchild x hx).1 (hchild x hx).2.1).2 ws hwx i (by have := (hchild x hx).2.2.1; omega) hic
        rw [this, (hchild x hx).2.2.2 i hi]

/-- the vector carried by an `ok` item -/
def okOf : Outcome (List Nat) → Option (List Nat)
  | .ok v => some v
  | _ => none

theorem filterMap_sublist_of_imp {α β : Type} (f g : α → Option β)
    (h : ∀ x v, g x = some v → f x = some v) :
    ∀ l : List α, (l.filterMap g).Sublist (l.filterMap f) := by
  intro l
  induction l with
  | nil => simp
  | cons a t ih =>
    simp only [List.filterMap_cons]
    cases hg : g a with
    | none =>
      simp only
      cases hf : f a with
      | none => exact ih
      | some v => exact List.Sublist.cons _ ih
    | some v =>
      rw [h a v hg]
      exact List.Sublist.cons_cons _ ih

/-- **no vector is emitted twice** (`base_curvature ≥ 0`) -/
theorem dsyms_nodup {c : Ctx} (hw : WF c) (hnb : ¬ c.baseCurv < 0) :
    ((dsyms c).filterMap okOf).Nodup := by
  rw [dsyms_eq_dfs, List.filterMap_filterMap]
  have hroot : Inv c { vs := c.vmins, curv := c.baseCurv, next := if c.baseCurv < 0 then c.count else 0 } :=
    inv_root hw
  have hl := (leaves_nodup hw _ _ hroot (Nat.le_refl _)).1
  refine List.Nodup.sublist (filterMap_sublist_of_imp (leafOf c) _ ?_ _) hl
  intro x v hv
  cases x with
  | panicked => simp [extract, okOf] at hv
  | st s =>
    simp only [Option.bind_eq_some_iff] at hv
    obtain ⟨item, hitem, hok⟩ := hv
    cases item with
    | ok v' =>
      simp only [okOf, Option.some.injEq] at hok
      subst hok
      simp only [extract] at hitem
      split at hitem
      · split at hitem
        · rename_i hge
          split at hitem
          · split at hitem
            · cases hitem
              simp only [leafOf]
              rw [if_pos hge]
            · cases hitem
            · cases hitem
            · cases hitem
          · cases hitem
          · cases hitem
          · cases hitem
        · cases hitem
      · cases hitem
    | err => simp [okOf] at hok
    | panic => simp [okOf] at hok

/-! ### `is_canonical` -/

theorem canonLoop_iff (vs : List Nat) :
    ∀ ms : List (List Nat), canonLoop vs ms = .ok true ↔
      ∀ m, m ∈ ms → ∃ ws, permuted m vs = .ok ws ∧ lexLt vs ws = false := by
  intro ms
  induction ms with
  | nil => simp [canonLoop]
  | cons m ms ih =>
    simp only [canonLoop, List.mem_cons, forall_eq_or_imp]
    cases hp : permuted m vs with
    | ok ws =>
      simp only
      by_cases hl : lexLt vs ws = true
      · rw [if_pos hl]
        constructor
        · intro h; cases h
        · rintro ⟨⟨ws', hws', hf⟩, _⟩
          cases hws'
          rw [hl] at hf; cases hf
      · rw [if_neg hl, ih]
        simp only [Bool.not_eq_true] at hl
        constructor
        · intro h; exact ⟨⟨ws, rfl, hl⟩, h⟩
        · rintro ⟨_, h⟩; exact h
    | err =>
      simp only
      constructor
      · intro h; cases h
      · rintro ⟨⟨ws', hws', _⟩, _⟩; cases hws'
    | panic =>
      simp only
      constructor
      · intro h; cases h
      · rintro ⟨⟨ws', hws', _⟩, _⟩; cases hws'

theorem lexLt_irrefl : ∀ l : List Nat, lexLt l l = false := by
  intro l
  induction l with
  | nil => rfl
  | cons a t ih => simp [lexLt, ih]

/-! ### `DSyms::next` -/

theorem numbered_spec : ∀ (l : List (Outcome (List Nat))) (k : Nat) (r : List (Nat × List Nat)),
    numbered l k = .ok r →
      l = r.map (fun p => .ok p.2) ∧
      r.map (·.1) = (List.range r.length).map (· + (k + 1)) ∧
      ∀ p, p ∈ r → ∀ v, v ∈ p.2 → 0 < v := by
  intro l
  induction l with
  | nil =>
    intro k r h
    simp only [numbered] at h
    cases h
    simp
  | cons x t ih =>
    intro k r h
    cases x with
    | ok vs =>
      simp only [numbered] at h
      split at h
      · rename_i hpos
        split at h
        · rename_i l' hl'
          cases h
          obtain ⟨h1, h2, h3⟩ := ih (k + 1) l' hl'
          refine ⟨by simp [← h1], ?_, ?_⟩
          · simp only [List.map_cons, List.length_cons, List.range_succ_eq_map, List.map_map]
            rw [h2]
            simp only [Nat.zero_add, List.cons.injEq, true_and]
            apply List.map_congr_left
            intro i _
            simp only [Function.comp]
            omega
          · intro p hp v hv
            rcases List.mem_cons.mp hp with e | e
            · subst e
              have := List.all_eq_true.mp hpos v hv
              simpa using this
            · exact h3 p e v hv
        · cases h
        · cases h
      · cases h
    | err => simp [numbered] at h
    | panic => simp [numbered] at h

end DSymVerif.SymGen
