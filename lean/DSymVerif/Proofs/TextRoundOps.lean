/-
C01, part 6 (round trip, operations): feeding `FromStr` the images that `DSet::fmt` prints
for a complete D-set T with involutive operations rebuilds exactly T.

Invariant of the chamber loop for index i: after chambers < d, the row i of the table under
construction agrees with T on every chamber x with `x < d ∨ T_i(x) < d` and is undefined
elsewhere; the not yet consumed list is what `fmt` prints for the chambers ≥ d.
-/
import DSymVerif.Proofs.TextDeg
import Mathlib.Order.Interval.Finset.Nat

namespace DSymVerif.Text
open DSymVerif DSymVerif.DS

/-- the images `DSet::fmt` prints for index i and the chambers d, …, d+n-1 of a complete D-set -/
def restFrom (T : DSetData) (i d n : Nat) : List Nat :=
  (List.range' d n).filterMap fun x => if T.opU i x ≥ x then some (T.opU i x) else none

theorem restFrom_zero (T : DSetData) (i d : Nat) : restFrom T i d 0 = [] := rfl

theorem restFrom_succ (T : DSetData) (i d n : Nat) :
    restFrom T i d (n + 1) =
      if T.opU i d ≥ d then T.opU i d :: restFrom T i (d + 1) n else restFrom T i (d + 1) n := by
  unfold restFrom
  rw [List.range'_succ, List.filterMap_cons]
  split <;> rename_i h
  · split at h
    · cases h
    · rename_i hc; rw [if_neg hc]
  · split at h
    · rename_i hc; cases h; rw [if_pos hc]
    · cases h

structure RowInv (T : DSetData) (i d : Nat) (cur : DSetData) : Prop where
  size_eq : cur.size = T.size
  dim_eq : cur.dim = T.dim
  valid : ValidPartialSet cur
  done : ∀ j x, j < i → 1 ≤ x → x ≤ T.size → cur.opU j x = T.opU j x
  todo : ∀ j x, i < j → j ≤ T.dim → 1 ≤ x → x ≤ T.size → cur.opU j x = 0
  row : ∀ x, 1 ≤ x → x ≤ T.size → cur.opU i x = if x < d ∨ T.opU i x < d then T.opU i x else 0

theorem opLoop_display {T : DSetData} (hT : ValidSet T) {i : Nat} (hi : i ≤ T.dim) :
    ∀ (n d : Nat) (cur : DSetData), d + n = T.size + 1 → 1 ≤ d → RowInv T i d cur →
    ∃ cur', opLoop i n d cur (restFrom T i d n) = .ok (cur', []) ∧ RowInv T i (T.size + 1) cur' := by
  intro n
  induction n with
  | zero =>
    intro d cur hn hd inv
    have : d = T.size + 1 := by omega
    subst this
    exact ⟨cur, rfl, inv⟩
  | succ n ih =>
    intro d cur hn hd inv
    have hd2 : d ≤ T.size := by omega
    have hi' : i ≤ cur.dim := by rw [inv.dim_eq]; exact hi
    have hd2' : d ≤ cur.size := by rw [inv.size_eq]; exact hd2
    have hc := opC_ok inv.valid.size_eq hi' hd hd2'
    have hTd := hT.range i d hi hd hd2
    have hrowd := inv.row d hd hd2
    rw [restFrom_succ]
    by_cases hge : T.opU i d ≥ d
    · -- chamber d is still undefined: its image is the next entry
      rw [if_pos hge]
      have hz : cur.opU i d = 0 := by rw [hrowd, if_neg (by omega)]
      have he1 : 1 ≤ T.opU i d := hTd.1
      have he2 : T.opU i d ≤ cur.size := by rw [inv.size_eq]; exact hTd.2
      have hTe : T.opU i (T.opU i d) = d := hT.invol i d hi hd hd2
      have hez : cur.opU i (T.opU i d) = 0 := by
        rw [inv.row _ he1 hTd.2, hTe, if_neg (by omega)]
      obtain ⟨cur1, hset, hsz, hdm, hv, hop⟩ := setC_ok inv.valid hi' hd hd2' he1 he2 hz hez
      rw [hz] at hc
      have hce := opC_ok inv.valid.size_eq hi' he1 he2
      rw [hez] at hce
      rw [opLoop_set hc he1 he2 hce hset]
      apply ih (d + 1) cur1 (by omega) (by omega)
      refine ⟨hsz.trans inv.size_eq, hdm.trans inv.dim_eq, hv, ?_, ?_, ?_⟩
      · intro j x hj hx1 hx2
        rw [hop j x (by rw [inv.dim_eq]; omega) hx1 (by rw [inv.size_eq]; exact hx2),
          if_neg (by omega), if_neg (by omega)]
        exact inv.done j x hj hx1 hx2
      · intro j x hj hj2 hx1 hx2
        rw [hop j x (by rw [inv.dim_eq]; omega) hx1 (by rw [inv.size_eq]; exact hx2),
          if_neg (by omega), if_neg (by omega)]
        exact inv.todo j x hj hj2 hx1 hx2
      · intro x hx1 hx2
        rw [hop i x hi' hx1 (by rw [inv.size_eq]; exact hx2)]
        by_cases c1 : x = T.opU i d
        · rw [if_pos ⟨rfl, c1⟩, c1, hTe, if_pos (by omega)]
        · rw [if_neg (by omega)]
          by_cases c2 : x = d
          · rw [if_pos ⟨rfl, c2⟩, c2, if_pos (by omega)]
          · rw [if_neg (by omega), inv.row x hx1 hx2]
            have hne : T.opU i x ≠ d := by
              intro heq
              apply c1
              rw [← heq, hT.invol i x hi hx1 hx2]
            by_cases c3 : x < d ∨ T.opU i x < d
            · rw [if_pos c3, if_pos (by omega)]
            · rw [if_neg c3, if_neg (by omega)]
    · -- chamber d already received its image from a smaller chamber
      rw [if_neg hge]
      have hnz : cur.opU i d ≠ 0 := by rw [hrowd, if_pos (by omega)]; omega
      rw [opLoop_skip hc hnz]
      apply ih (d + 1) cur (by omega) (by omega)
      refine { inv with row := ?_ }
      intro x hx1 hx2
      rw [inv.row x hx1 hx2]
      by_cases c3 : x < d ∨ T.opU i x < d
      · rw [if_pos c3, if_pos (by omega)]
      · rw [if_neg c3, if_neg]
        intro h
        rcases h with h | h
        · have : x = d := by omega
          subst this; omega
        · have heq : T.opU i x = d := by omega
          have : x = T.opU i d := by rw [← heq, hT.invol i x hi hx1 hx2]
          omega

/-- between two index rounds: rows < i agree with T, rows ≥ i are still empty -/
structure AllInv (T : DSetData) (i : Nat) (cur : DSetData) : Prop where
  size_eq : cur.size = T.size
  dim_eq : cur.dim = T.dim
  valid : ValidPartialSet cur
  done : ∀ j x, j < i → 1 ≤ x → x ≤ T.size → cur.opU j x = T.opU j x
  todo : ∀ j x, i ≤ j → j ≤ T.dim → 1 ≤ x → x ≤ T.size → cur.opU j x = 0

theorem opOuter_display {T : DSetData} (hT : ValidSet T) (spec : DSymSpec) (hsz : spec.size = T.size)
    (hops : ∀ i, i ≤ T.dim → spec.opSpec[i]? = some (restFrom T i 1 T.size)) :
    ∀ (n i : Nat) (cur : DSetData), i + n = T.dim + 1 → AllInv T i cur →
    ∃ cur', opOuter spec n i cur = .ok cur' ∧ AllInv T (T.dim + 1) cur' := by
  intro n
  induction n with
  | zero =>
    intro i cur hn inv
    have : i = T.dim + 1 := by omega
    subst this
    exact ⟨cur, rfl, inv⟩
  | succ n ih =>
    intro i cur hn inv
    have hi : i ≤ T.dim := by omega
    have hrow : RowInv T i 1 cur := by
      refine ⟨inv.size_eq, inv.dim_eq, inv.valid, inv.done, fun j x hj => inv.todo j x (by omega), ?_⟩
      intro x hx1 hx2
      rw [inv.todo i x (Nat.le_refl _) hi hx1 hx2, if_neg]
      have := (hT.range i x hi hx1 hx2).1
      omega
    obtain ⟨cur1, hl, inv1⟩ := opLoop_display hT hi T.size 1 cur (by omega) (by omega) hrow
    rw [← hsz] at hl
    rw [opOuter_next (hops i hi) (by rw [hsz] at hl ⊢; exact hl)]
    apply ih (i + 1) cur1 (by omega)
    refine ⟨inv1.size_eq, inv1.dim_eq, inv1.valid, ?_, fun j x hj => inv1.todo j x (by omega)⟩
    intro j x hj hx1 hx2
    by_cases c : j = i
    · subst c
      rw [inv1.row x hx1 hx2, if_pos (by omega)]
    · exact inv1.done j x (by omega) hx1 hx2

/-- two tables of the same shape that agree at every (index, chamber) are the same table -/
theorem dset_ext {A B : DSetData} (hs : A.size = B.size) (hd : A.dim = B.dim)
    (ha : A.op.size = A.size * (A.dim + 1)) (hb : B.op.size = B.size * (B.dim + 1))
    (h : ∀ i d, i ≤ B.dim → 1 ≤ d → d ≤ B.size → A.opU i d = B.opU i d) : A = B := by
  obtain ⟨sa, da, oa⟩ := A
  obtain ⟨sb, db, ob⟩ := B
  simp only at hs hd ha hb
  subst hs hd
  have : oa = ob := by
    apply Array.ext (by rw [ha, hb])
    intro k hk1 hk2
    have hpos : 0 < da + 1 := by omega
    have hk : k < sa * (da + 1) := by rw [← ha]; exact hk1
    have hq : k / (da + 1) < sa := (Nat.div_lt_iff_lt_mul hpos).mpr hk
    have hr : k % (da + 1) < da + 1 := Nat.mod_lt _ hpos
    have := h (k % (da + 1)) (k / (da + 1) + 1) (Nat.lt_succ_iff.mp hr) (Nat.succ_le_succ (Nat.zero_le _)) hq
    simp only [DSetData.opU, DSetData.idx, Nat.add_sub_cancel] at this
    rw [Nat.div_add_mod' k (da + 1)] at this
    rw [Array.getD_eq_getD_getElem?, Array.getD_eq_getD_getElem?, Array.getElem?_eq_getElem hk1,
      Array.getElem?_eq_getElem hk2] at this
    simpa using this
  rw [this]

/-- the operation phase of `fromSpec` on the printed images of T returns T -/
theorem ops_round_trip {T : DSetData} (hT : ValidSet T) (spec : DSymSpec) (hsz : spec.size = T.size)
    (hdm : spec.dim = T.dim) (h1 : 1 ≤ T.size) (h2 : 1 ≤ T.dim) (hb : T.size * (T.dim + 1) < allocLimit)
    (hops : ∀ i, i ≤ T.dim → spec.opSpec[i]? = some (restFrom T i 1 T.size)) :
    ∃ ds0, newC spec.size spec.dim = .ok ds0 ∧ opOuter spec (spec.dim + 1) 0 ds0 = .ok T := by
  rw [hsz, hdm]
  obtain ⟨ds0, hnew, hs0, hd0, hv0, hz0⟩ := newC_ne_panic h1 h2 hb
  refine ⟨ds0, hnew, ?_⟩
  obtain ⟨cur', hres, inv⟩ := opOuter_display hT spec hsz hops (T.dim + 1) 0 ds0 (by omega)
    ⟨hs0, hd0, hv0, fun j x hj => by omega, fun j x _ _ _ _ => hz0 j x⟩
  rw [hres]
  congr 1
  exact dset_ext inv.size_eq inv.dim_eq inv.valid.size_eq hT.size_eq
    (fun i d hi hd1 hd2 => inv.done i d (by omega) hd1 hd2)

end DSymVerif.Text
