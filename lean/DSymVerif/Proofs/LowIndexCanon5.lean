/-
C12: `compact()` of a complete table with an empty union-find is the identity on entries and
row count.
-/
import DSymVerif.Proofs.LowIndexCanon4

namespace DSymVerif.CanonP
open DSymVerif DSymVerif.Cosets DSymVerif.LowIndexP DSymVerif.CosetInvP DSymVerif.CosetPartP

/-! ### `compact()` of a table without coincidences is the identity -/

theorem oldToNewGo_clean {t : Table} (hcan : ∀ x, t.canon x = x) : ∀ (m a : Nat) (o2n res : Array (Option Nat)),
    o2n.size = t.len → a + m ≤ t.len → (∀ i, i < a → o2n[i]? = some (some i)) →
    (∀ i, a ≤ i → i < t.len → o2n[i]? = some none) →
    t.oldToNewGo (List.range' a m) (o2n, a) = .ok res →
    res.size = t.len ∧ (∀ i, i < a + m → res[i]? = some (some i)) ∧
      (∀ i, a + m ≤ i → i < t.len → res[i]? = some none)
  | 0, a, o2n, res, hs, _, h1, h2, h => by
    simp only [List.range'_zero, Table.oldToNewGo, Outcome.ok.injEq] at h
    subst h
    exact ⟨hs, by simpa using h1, by simpa using h2⟩
  | m + 1, a, o2n, res, hs, hle, h1, h2, h => by
    simp only [List.range'_succ, Table.oldToNewGo, hcan] at h
    have ha : a < t.len := by omega
    rw [h2 a (Nat.le_refl _) ha] at h
    simp only [] at h
    have hset : ∀ i, (o2n.setIfInBounds a (some a))[i]? = if a = i then some (some a) else o2n[i]? := by
      intro i
      rw [Array.getElem?_setIfInBounds]
      by_cases e : a = i
      · subst e; simp [hs, ha]
      · simp [e]
    obtain ⟨r1, r2, r3⟩ := oldToNewGo_clean hcan m (a + 1) _ res (by simpa using hs) (by omega)
      (fun i hi => by
        rw [hset]
        by_cases e : a = i
        · subst e; simp
        · simp only [e, if_false]; exact h1 i (by omega))
      (fun i hi hil => by
        rw [hset]
        have e : ¬ a = i := by omega
        simp only [e, if_false]; exact h2 i (by omega) hil) h
    exact ⟨r1, fun i hi => r2 i (by omega), fun i hi hil => r3 i (by omega) hil⟩

theorem oldToNew_clean {t : Table} (hcan : ∀ x, t.canon x = x) {o2n : Array (Option Nat)}
    (h : t.oldToNew = .ok o2n) : ∀ i, i < t.len → o2n[i]? = some (some i) := by
  unfold Table.oldToNew at h
  rw [List.range_eq_range'] at h
  obtain ⟨_, r2, _⟩ := oldToNewGo_clean hcan t.len 0 _ o2n (by simp) (by omega) (fun i hi => by omega)
    (fun i _ hi => by simp [hi]) h
  intro i hi
  exact r2 i (by omega)

/-- `compact()` of a complete table with an empty union-find returns a table with the same
    entries and the same number of rows -/
theorem compact_clean {t t' : Table} (inv : TCq t []) (hcl : Clean t) (hcomp : AllComplete t)
    (h : t.compact = .ok t') :
    t'.len = t.len ∧ t'.nrGens = t.nrGens ∧ t'.part = Part.new ∧
      (∀ (x : Nat) (row : Array Int), t'.rows[x]? = some row → row.size = t'.nrGens * 2 + 1) ∧
      ∀ k g c, g ∈ t.allGens → k < t.len → t.get k g = .ok (some c) → t'.get k g = .ok (some c) := by
  have hcan : ∀ x, t.canon x = x := canon_clean hcl
  obtain ⟨o2n, m, ho, num, _, c1, c2, c3, c4, c5⟩ := compact_spec' inv hcomp h
  have hid : ∀ i, i < t.len → o2n[i]? = some (some i) := oldToNew_clean hcan ho
  have hm : m = t.len := by
    have h1 : t.len ≤ m := by
      by_contra hlt
      have hpos := inv.shape.pos
      have := (num.sound (t.len - 1) (t.len - 1) (hid (t.len - 1) (by omega))).2
      omega
    have h2 : m ≤ t.len := by
      by_contra hgt
      obtain ⟨c, hc⟩ := num.surj t.len (by omega)
      have hcl' : c < t.len := by
        by_contra hx
        rw [Array.getElem?_eq_none (by rw [num.size]; omega)] at hc; cases hc
      rw [hid c hcl'] at hc
      injection hc with hc; injection hc with hc
      omega
    omega
  refine ⟨by rw [c4, hm], c1, c2, c3, ?_⟩
  intro k g c hg hk hget
  have hcl' := inv.shape.range k g c hg hget
  exact c5 k g c k c hg (hcan k) hk hget (hid k hk) (hid c hcl')

end DSymVerif.CanonP
