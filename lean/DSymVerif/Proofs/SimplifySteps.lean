/-
The D-set axioms (complete, involutive, far operations commute) as invariants of the modelled
deterministic steps of simplify.rs: merge_tiles, merge_facets, dual, fix_local_1_vertex,
fix_local_2_vertex, fix_non_disk_face — from the lemmas about collapse, reglue, cut_face,
squeeze_tile_3d and the traversal theorems of C02 (orbit = reachable set).
-/
import DSymVerif.Proofs.SimplifyCommute
import DSymVerif.Props.C02

namespace DSymVerif.Simp
open DSymVerif DSymVerif.DS

/-! ### helpers -/

theorem distinctCount_nil (size : Nat) : distinctCount size [] = 0 := by
  unfold distinctCount markOf
  simp [List.eraseDups]

/-- a returned D-set of `collapse` on a connector-closed set comes with its description -/
theorem collapse_ok_res {ds s : DSetData} {remove : List Nat} {c : Nat} (hv : ValidSet ds) (hdim : 1 ≤ ds.dim)
    (hc : c ≤ ds.dim) (hr : ∀ d ∈ remove, 1 ≤ d ∧ d ≤ ds.size) (hcl : ∀ d ∈ remove, ds.opU c d ∈ remove)
    (h : collapse (.dset ds) remove c = .ok (some (.dset s))) : ∃ num, CollapseRes ds remove c s num := by
  have hne : remove ≠ [] := by
    rintro rfl
    unfold collapse at h
    simp only [distinctCount_nil, if_true] at h
    cases h
  have hlt : distinctCount ds.size remove < ds.size := by
    unfold collapse at h
    simp only at h
    split at h
    · cases h
    · split at h
      · cases h
      · split at h
        · cases h
        · omega
  obtain ⟨s', num, hs', res⟩ := collapse_complete_full hv hdim hc hr hne hlt hcl
  rw [hs'] at h
  cases h
  exact ⟨num, res⟩

theorem viewPartial_op {ds : DSetData} (hv : ValidSet ds) {i x : Nat} (hi : i ≤ ds.dim) (h1 : 1 ≤ x) (h2 : x ≤ ds.size) :
    ds.viewPartial.op i x = some (ds.opU i x) := opPartial_valid hv hi h1 h2

theorem reach_range {ds : DSetData} (hv : ValidSet ds) {idx : List Nat} {seed x : Nat} (h1 : 1 ≤ seed) (h2 : seed ≤ ds.size)
    (h : ds.viewPartial.Reach idx seed x) : 1 ≤ x ∧ x ≤ ds.size := by
  induction h with
  | refl => exact ⟨h1, h2⟩
  | step _ _ hop _ =>
    have := hv.toPartial.pinvol.range _ _ _ hop
    exact this

theorem mem_orbit {ds : DSetData} (hv : ValidSet ds) {idx : List Nat} {seed x : Nat} :
    x ∈ ds.viewPartial.orbit idx seed ↔ ds.viewPartial.Reach idx seed x :=
  (DSymVerif.C02.orbit_eq_reachable ds.viewPartial hv.toPartial.pinvol idx seed).1 x

/-- an orbit is closed under its operations and consists of chambers -/
theorem orbit_closed {ds : DSetData} (hv : ValidSet ds) {idx : List Nat} {seed : Nat} (h1 : 1 ≤ seed) (h2 : seed ≤ ds.size) :
    (∀ x ∈ ds.viewPartial.orbit idx seed, 1 ≤ x ∧ x ≤ ds.size) ∧
    (∀ i, i ∈ idx → i ≤ ds.dim → ∀ x ∈ ds.viewPartial.orbit idx seed, ds.opU i x ∈ ds.viewPartial.orbit idx seed) := by
  constructor
  · intro x hx; exact reach_range hv h1 h2 ((mem_orbit hv).1 hx)
  · intro i hi hid x hx
    have hr := (mem_orbit hv).1 hx
    have rx := reach_range hv h1 h2 hr
    exact (mem_orbit hv).2 (View.Reach.step hr hi (viewPartial_op hv hid rx.1 rx.2))

/-! ### merge_tiles -/

/-- **`merge_tiles` keeps the D-set axioms** when the walls it removes consist of whole faces
    (the junk list — the 3-edges the fundamental-group gluing declares inner — is closed under
    s0 and s1; closure under s3 holds by construction) -/
theorem mergeTiles_preserves {ds s : DSetData} (hv : ValidSet ds) (hdim : ds.dim = 3) (hf : FarCommute ds)
    {inner : List (Nat × Nat)} (hin : ∀ e ∈ inner, 1 ≤ e.1 ∧ e.1 ≤ ds.size)
    (h01 : ∀ x ∈ tilesJunk ds inner, ds.opU 0 x ∈ tilesJunk ds inner ∧ ds.opU 1 x ∈ tilesJunk ds inner)
    (h : collapse (.dset ds) (tilesJunk ds inner) 3 = .ok (some (.dset s))) :
    ValidSet s ∧ s.dim = 3 ∧ FarCommute s := by
  have hmem : ∀ x, x ∈ tilesJunk ds inner ↔ ∃ e ∈ inner, e.2 = 3 ∧ x ∈ ds.viewPartial.orbit [3] e.1 := by
    intro x
    unfold tilesJunk
    simp only [List.mem_flatMap, List.mem_filter, beq_iff_eq]
    constructor
    · rintro ⟨e, ⟨he, h3⟩, hx⟩; exact ⟨e, he, h3, hx⟩
    · rintro ⟨e, he, h3, hx⟩; exact ⟨e, ⟨he, h3⟩, hx⟩
  have hr : ∀ d ∈ tilesJunk ds inner, 1 ≤ d ∧ d ≤ ds.size := by
    intro d hd
    obtain ⟨e, he, _, hx⟩ := (hmem d).1 hd
    exact (orbit_closed hv (hin e he).1 (hin e he).2).1 d hx
  have h3 : ∀ d ∈ tilesJunk ds inner, ds.opU 3 d ∈ tilesJunk ds inner := by
    intro d hd
    obtain ⟨e, he, h3, hx⟩ := (hmem d).1 hd
    exact (hmem _).2 ⟨e, he, h3, (orbit_closed hv (hin e he).1 (hin e he).2).2 3 (by simp) (by omega) d hx⟩
  obtain ⟨num, res⟩ := collapse_ok_res hv (by omega) (by omega) hr h3 h
  refine ⟨res.valid, by rw [res.dim, hdim], ?_⟩
  apply collapse_far_commute hv hf res (c := 3) (j := 2) (by omega) (by omega)
  · intro i hi hi2 d hd
    have : i = 0 ∨ i = 1 ∨ i = 3 := by omega
    rcases this with rfl | rfl | rfl
    · exact (h01 d hd).1
    · exact (h01 d hd).2
    · exact h3 d hd
  · intro k hk hk2 d hd
    have hk0 : k = 0 := by omega
    subst hk0
    have rd := hr d hd
    exact (hf 0 3 d (by omega) (by omega) rd.1 rd.2).symm


/-! ### the tile-squeezing collapses: remove a (0,1,3)-orbit with connector 3 -/

/-- removing the (0,1,3)-orbit of a chamber (a face together with its copy across s3) with
    connector 3 keeps the D-set axioms -/
theorem collapse_face_orbit_preserves {ds s : DSetData} (hv : ValidSet ds) (hdim : ds.dim = 3) (hf : FarCommute ds)
    {c : Nat} (hc1 : 1 ≤ c) (hc2 : c ≤ ds.size)
    (h : collapse (.dset ds) (ds.viewPartial.orbit [0, 1, 3] c) 3 = .ok (some (.dset s))) :
    ValidSet s ∧ s.dim = 3 ∧ FarCommute s := by
  obtain ⟨hr, hcl⟩ := orbit_closed hv (idx := [0, 1, 3]) hc1 hc2
  obtain ⟨num, res⟩ := collapse_ok_res hv (by omega) (by omega) hr (hcl 3 (by simp) (by omega)) h
  refine ⟨res.valid, by rw [res.dim, hdim], ?_⟩
  apply collapse_far_commute hv hf res (c := 3) (j := 2) (by omega) (by omega)
  · intro i hi hi2 d hd
    have : i = 0 ∨ i = 1 ∨ i = 3 := by omega
    rcases this with rfl | rfl | rfl
    · exact hcl 0 (by simp) (by omega) d hd
    · exact hcl 1 (by simp) (by omega) d hd
    · exact hcl 3 (by simp) (by omega) d hd
  · intro k hk hk2 d hd
    have hk0 : k = 0 := by omega
    subst hk0
    have rd := hr d hd
    exact (hf 0 3 d (by omega) (by omega) rd.1 rd.2).symm

/-! ### fix_local_1_vertex -/

/-- **`fix_local_1_vertex` (body) keeps the D-set axioms** (the eight chambers of the corner
    re-gluing distinct) -/
theorem fixLocal1Body_preserves {ds s : DSetData} (hv : ValidSet ds) (hdim : ds.dim = 3) (hf : FarCommute ds)
    {c : Nat} (hc1 : 1 ≤ c) (hc2 : c ≤ ds.size)
    (hnd : [ds.opU 0 (ds.opU 1 c), ds.opU 1 (ds.opU 1 (ds.opU 0 c)), ds.opU 1 (ds.opU 0 c),
      ds.opU 1 (ds.opU 0 (ds.opU 1 c)), ds.opU 3 (ds.opU 0 (ds.opU 1 c)),
      ds.opU 1 (ds.opU 3 (ds.opU 1 (ds.opU 0 c))), ds.opU 3 (ds.opU 1 (ds.opU 0 c)),
      ds.opU 1 (ds.opU 3 (ds.opU 0 (ds.opU 1 c)))].Nodup)
    (h : fixLocal1Body ds c = .ok (some (.dset s))) :
    ValidSet s ∧ s.dim = 3 ∧ FarCommute s := by
  unfold fixLocal1Body at h
  obtain ⟨c1, hc1', k1⟩ := bind_ok h
  obtain ⟨d, hd', k2⟩ := bind_ok k1
  obtain ⟨c0, hc0', k3⟩ := bind_ok k2
  obtain ⟨e, he', k4⟩ := bind_ok k3
  obtain ⟨f, hf', k5⟩ := bind_ok k4
  obtain ⟨g, hg', k6⟩ := bind_ok k5
  obtain ⟨d1, hd1', k7⟩ := bind_ok k6
  obtain ⟨e1, he1', k8⟩ := bind_ok k7
  obtain ⟨f1, hf1', k9⟩ := bind_ok k8
  obtain ⟨g1, hg1', k10⟩ := bind_ok k9
  obtain ⟨tmp, htmp, k11⟩ := bind_ok k10
  clear h k1 k2 k3 k4 k5 k6 k7 k8 k9 k10
  have v1 := (opx_ok hc1').2.2.2.1
  have v3 := (opx_ok hc0').2.2.2.1
  subst v1 v3
  have v2 := (opx_ok hd').2.2.2.1
  have v4 := (opx_ok he').2.2.2.1
  subst v2 v4
  have v5 := (opx_ok hf').2.2.2.1
  have v6 := (opx_ok hg').2.2.2.1
  have v7 := (opx_ok hd1').2.2.2.1
  have v8 := (opx_ok he1').2.2.2.1
  subst v5 v6 v7 v8
  have v9 := (opx_ok hf1').2.2.2.1
  have v10 := (opx_ok hg1').2.2.2.1
  subst v9 v10
  have rd := (opx_ok hd1')
  have re := (opx_ok he1')
  obtain ⟨tv, ts, td, tf⟩ := cornerGlue_far_commute hv hdim hf rd.2.1 rd.2.2.1 re.2.1 re.2.2.1 hnd (reglueU_ok htmp)
  exact collapse_face_orbit_preserves tv (by rw [td, hdim]) tf hc1 (by rw [ts]; exact hc2) k11

theorem fixLocal1Loop_some {ds : DSetData} {x : DOE} : ∀ {cs : List Nat}, fixLocal1Loop ds cs = .ok (some x) →
    ∃ c ∈ cs, fixLocal1Body ds c = .ok (some x)
  | [], h => by unfold fixLocal1Loop at h; cases h
  | c :: cs, h => by
    unfold fixLocal1Loop at h
    split at h
    · exact ⟨c, List.mem_cons_self .., h⟩
    · obtain ⟨c', hc', hb⟩ := fixLocal1Loop_some h
      exact ⟨c', List.mem_cons_of_mem _ hc', hb⟩

theorem mem_seedsExcl {ds : DSetData} {d : Nat} (h : d ∈ seedsExcl ds) : 1 ≤ d ∧ d ≤ ds.size := by
  unfold seedsExcl at h
  simp only [List.mem_map, List.mem_range] at h
  obtain ⟨a, ha, rfl⟩ := h
  omega

theorem mem_seedsIncl {ds : DSetData} {d : Nat} (h : d ∈ seedsIncl ds) : 1 ≤ d ∧ d ≤ ds.size := by
  unfold seedsIncl at h
  simp only [List.mem_map, List.mem_range] at h
  obtain ⟨a, ha, rfl⟩ := h
  omega

theorem orbitReps_mem_seeds {ds : DSetData} (hv : ValidSet ds) {idx seeds : List Nat} {r : Nat}
    (h : r ∈ ds.viewPartial.orbitReps idx seeds) : r ∈ seeds :=
  (DSymVerif.C02.orbitReps_one_per_component ds.viewPartial hv.toPartial.pinvol idx seeds).1 r h

/-- what `fix_local_1_vertex` returns is the body applied to some chamber -/
theorem fixLocal1Vertex_some {ds s : DSetData} (hv : ValidSet ds) (h : fixLocal1Vertex (.dset ds) = .ok (some (.dset s))) :
    ∃ c, 1 ≤ c ∧ c ≤ ds.size ∧ fixLocal1Body ds c = .ok (some (.dset s)) := by
  unfold fixLocal1Vertex at h
  obtain ⟨c, hc, hb⟩ := fixLocal1Loop_some h
  have := mem_seedsExcl (orbitReps_mem_seeds hv hc)
  exact ⟨c, this.1, this.2, hb⟩

/-! ### fix_non_disk_face -/

theorem nonDiskWhile_some {ds : DSetData} {face : Array Nat} {d : Nat} {x : DOE} : ∀ (fuel e : Nat),
    1 ≤ e → e ≤ ds.size → ValidSet ds → ds.dim = 3 → nonDiskWhile ds face d fuel e = .ok (some x) →
    ∃ e', 1 ≤ e' ∧ e' ≤ ds.size ∧ nonDiskGlue ds d e' = .ok (some x)
  | 0, e, _, _, _, _, h => by unfold nonDiskWhile at h; cases h
  | fuel + 1, e, h1, h2, hv, hdim, h => by
    unfold nonDiskWhile at h
    split at h
    · cases h
    · split at h
      · split at h
        · exact ⟨e, h1, h2, h⟩
        · rw [show opx ds 2 e = .ok (ds.opU 2 e) from by unfold opx; rw [opPartial_valid hv (by omega) h1 h2]] at h
          simp only at h
          have r2 := hv.range 2 e (by omega) h1 h2
          rw [show opx ds 1 (ds.opU 2 e) = .ok (ds.opU 1 (ds.opU 2 e)) from by
            unfold opx; rw [opPartial_valid hv (by omega) r2.1 r2.2]] at h
          simp only at h
          have r1 := hv.range 1 _ (by omega) r2.1 r2.2
          exact nonDiskWhile_some fuel _ r1.1 r1.2 hv hdim h
      · cases h
      · cases h
      · cases h


theorem opx_valid {ds : DSetData} (hv : ValidSet ds) {i x : Nat} (hi : i ≤ ds.dim) (h1 : 1 ≤ x) (h2 : x ≤ ds.size) :
    opx ds i x = .ok (ds.opU i x) := by
  unfold opx; rw [opPartial_valid hv hi h1 h2]

theorem nonDiskLoop_some {ds : DSetData} {face : Array Nat} {x : DOE} (hv : ValidSet ds) (hdim : ds.dim = 3) :
    ∀ {reps : List Nat}, (∀ d ∈ reps, 1 ≤ d ∧ d ≤ ds.size) → nonDiskLoop ds face reps = .ok (some x) →
    ∃ d e, (1 ≤ d ∧ d ≤ ds.size) ∧ (1 ≤ e ∧ e ≤ ds.size) ∧ nonDiskGlue ds d e = .ok (some x)
  | [], _, h => by unfold nonDiskLoop at h; cases h
  | d :: rest, hr, h => by
    have rd := hr d (List.mem_cons_self ..)
    unfold nonDiskLoop at h
    rw [opx_valid hv (by omega) rd.1 rd.2] at h
    simp only at h
    have r2 := hv.range 2 d (by omega) rd.1 rd.2
    rw [opx_valid hv (by omega) r2.1 r2.2] at h
    simp only at h
    have r1 := hv.range 1 _ (by omega) r2.1 r2.2
    cases hw : nonDiskWhile ds face d (ds.size + 1) (ds.opU 1 (ds.opU 2 d)) with
    | ok o =>
      rw [hw] at h
      cases o with
      | none =>
        simp only at h
        exact nonDiskLoop_some hv hdim (fun d' hd' => hr d' (List.mem_cons_of_mem _ hd')) h
      | some y =>
        simp only at h
        cases h
        obtain ⟨e', he1, he2, hg⟩ := nonDiskWhile_some _ _ r1.1 r1.2 hv hdim hw
        exact ⟨d, e', rd, ⟨he1, he2⟩, hg⟩
    | err => rw [hw] at h; cases h
    | panic => rw [hw] at h; cases h

/-- what `fix_non_disk_face` returns is the corner re-gluing at two chambers -/
theorem fixNonDiskFace_some {ds s : DSetData} (hv : ValidSet ds) (hdim : ds.dim = 3)
    (h : fixNonDiskFace (.dset ds) = .ok (some (.dset s))) :
    ∃ d e, (1 ≤ d ∧ d ≤ ds.size) ∧ (1 ≤ e ∧ e ≤ ds.size) ∧ nonDiskGlue ds d e = .ok (some (.dset s)) := by
  unfold fixNonDiskFace at h
  exact nonDiskLoop_some hv hdim (fun d hd => mem_seedsIncl (orbitReps_mem_seeds hv hd)) h

/-- **`fix_non_disk_face` keeps the D-set axioms** (the eight chambers of the corner re-gluing it
    performs distinct) -/
theorem fixNonDiskFace_preserves {ds s : DSetData} (hv : ValidSet ds) (hdim : ds.dim = 3) (hf : FarCommute ds)
    (hnd : ∀ d e, 1 ≤ d → d ≤ ds.size → 1 ≤ e → e ≤ ds.size → nonDiskGlue ds d e = .ok (some (.dset s)) →
      [d, ds.opU 1 e, e, ds.opU 1 d, ds.opU 3 d, ds.opU 1 (ds.opU 3 e), ds.opU 3 e, ds.opU 1 (ds.opU 3 d)].Nodup)
    (h : fixNonDiskFace (.dset ds) = .ok (some (.dset s))) :
    ValidSet s ∧ s.dim = 3 ∧ FarCommute s := by
  obtain ⟨d, e, rd, re, hg⟩ := fixNonDiskFace_some hv hdim h
  obtain ⟨a, _, c, f⟩ := nonDiskGlue_far_commute hv hdim hf rd.1 rd.2 re.1 re.2 (hnd d e rd.1 rd.2 re.1 re.2 hg) hg
  exact ⟨a, by rw [c, hdim], f⟩

/-- **`fix_local_1_vertex` keeps the D-set axioms** (the eight chambers of the corner re-gluing it
    performs distinct) -/
theorem fixLocal1Vertex_preserves {ds s : DSetData} (hv : ValidSet ds) (hdim : ds.dim = 3) (hf : FarCommute ds)
    (hnd : ∀ c, 1 ≤ c → c ≤ ds.size → fixLocal1Body ds c = .ok (some (.dset s)) →
      [ds.opU 0 (ds.opU 1 c), ds.opU 1 (ds.opU 1 (ds.opU 0 c)), ds.opU 1 (ds.opU 0 c),
        ds.opU 1 (ds.opU 0 (ds.opU 1 c)), ds.opU 3 (ds.opU 0 (ds.opU 1 c)),
        ds.opU 1 (ds.opU 3 (ds.opU 1 (ds.opU 0 c))), ds.opU 3 (ds.opU 1 (ds.opU 0 c)),
        ds.opU 1 (ds.opU 3 (ds.opU 0 (ds.opU 1 c)))].Nodup)
    (h : fixLocal1Vertex (.dset ds) = .ok (some (.dset s))) :
    ValidSet s ∧ s.dim = 3 ∧ FarCommute s := by
  obtain ⟨c, hc1, hc2, hb⟩ := fixLocal1Vertex_some hv h
  exact fixLocal1Body_preserves hv hdim hf hc1 hc2 (hnd c hc1 hc2 hb) hb

/-! ### dual -/

/-- **`dual` keeps the D-set axioms** -/
theorem dual_preserves {ds s : DSetData} (hv : ValidSet ds) (hdim : 1 ≤ ds.dim) (hsize : 1 ≤ ds.size) (hf : FarCommute ds)
    (h : dual (.dset ds) = .ok (some (.dset s))) :
    ValidSet s ∧ s.size = ds.size ∧ s.dim = ds.dim ∧ FarCommute s ∧
      ∀ i d, i ≤ ds.dim → 1 ≤ d → d ≤ ds.size → s.opU i d = ds.opU (ds.dim - i) d := by
  obtain ⟨s', hs', h1, h2, hval, hop⟩ := buildSet_of_total_involution (size := ds.size) (dim := ds.dim)
    (op := fun i d => ds.opPartial (ds.dim - i) d) (f := fun i d => ds.opU (ds.dim - i) d) hsize hdim
    (fun i d hi hd1 hd2 => opPartial_valid hv (by omega) hd1 hd2)
    (fun i d hi hd1 hd2 => hv.range _ d (by omega) hd1 hd2)
    (fun i d hi hd1 hd2 => hv.invol _ d (by omega) hd1 hd2)
  unfold dual ofBuild at h
  simp only at h
  rw [hs'] at h
  cases h
  refine ⟨hval, h1, h2, ?_, hop⟩
  intro a b v hab hb hv1 hv2
  rw [h2] at hb
  rw [h1] at hv2
  have ra := hv.range (ds.dim - a) v (by omega) hv1 hv2
  have rb := hv.range (ds.dim - b) v (by omega) hv1 hv2
  rw [hop a v (by omega) hv1 hv2, hop b v hb hv1 hv2, hop b _ hb ra.1 ra.2, hop a _ (by omega) rb.1 rb.2]
  exact (hf (ds.dim - b) (ds.dim - a) v (by omega) (by omega) hv1 hv2).symm


/-! ### fix_local_2_vertex -/

theorem asDSet_ok {ds0 ds : DSetData} (hv : ValidSet ds0) (h : asDSet ds0 = .ok ds) :
    ValidSet ds ∧ ds.size = ds0.size ∧ ds.dim = ds0.dim ∧
      (∀ i d, i ≤ ds0.dim → 1 ≤ d → d ≤ ds0.size → ds.opU i d = ds0.opU i d) ∧
      (FarCommute ds0 → FarCommute ds) := by
  unfold asDSet at h
  have hop : ∀ i d, i ≤ ds0.dim → 1 ≤ d → d ≤ ds0.size → ds0.opPartial i d = some (ds0.opU i d) :=
    fun i d hi h1 h2 => opPartial_valid hv hi h1 h2
  have hall := buildSet_ok_involutive (f := ds0.opU) hop h
  obtain ⟨_, _, h1, h2, h3, _⟩ := buildSet_ok_inv h
  have hval : ∀ i d, i ≤ ds0.dim → 1 ≤ d → d ≤ ds0.size → ds.opU i d = ds0.opU i d :=
    fun i d hi hd1 hd2 => (hall i d hi hd1 hd2).2.2
  refine ⟨⟨by rw [h1, h2]; exact h3, ?_, ?_⟩, h1, h2, hval, ?_⟩
  · intro i d hi hd1 hd2
    rw [h2] at hi; rw [h1] at hd2 ⊢
    rw [hval i d hi hd1 hd2]; exact hv.range i d hi hd1 hd2
  · intro i d hi hd1 hd2
    rw [h2] at hi; rw [h1] at hd2
    have r := hv.range i d hi hd1 hd2
    rw [hval i d hi hd1 hd2, hval i _ hi r.1 r.2]; exact hv.invol i d hi hd1 hd2
  · intro hf a b v hab hb hv1 hv2
    rw [h2] at hb; rw [h1] at hv2
    have ra := hv.range a v (by omega) hv1 hv2
    have rb := hv.range b v (by omega) hv1 hv2
    rw [hval a v (by omega) hv1 hv2, hval b v hb hv1 hv2, hval b _ hb ra.1 ra.2, hval a _ (by omega) rb.1 rb.2]
    exact hf a b v hab hb hv1 hv2

theorem cutIfLong_ok {ds ds' : DSetData} {x : Nat} (hv : ValidSet ds) (hdim : ds.dim = 3) (hf : FarCommute ds)
    (hx1 : 1 ≤ x) (hx2 : x ≤ ds.size) (h : cutIfLong ds x = .ok ds') :
    ValidSet ds' ∧ ds'.dim = 3 ∧ FarCommute ds' ∧ ds.size ≤ ds'.size := by
  unfold cutIfLong at h
  obtain ⟨k, hk, k1⟩ := bind_ok h
  split at k1
  · obtain ⟨a, ha, k2⟩ := bind_ok k1
    obtain ⟨x1, hx1', k3⟩ := bind_ok k2
    obtain ⟨b, hb, k4⟩ := bind_ok k3
    have ra := opx_ok ha
    have rx1 := opx_ok hx1'
    have rb := opx_ok hb
    have r0 := hv.range 0 x (by omega) hx1 hx2
    have r1 := hv.range 1 x (by omega) hx1 hx2
    have va : a = ds.opU 0 x := ra.2.2.2.1.symm
    have vx1 : x1 = ds.opU 1 x := rx1.2.2.2.1.symm
    subst va vx1
    have r01 := hv.range 0 _ (by omega) r1.1 r1.2
    have vb : b = ds.opU 0 (ds.opU 1 x) := rb.2.2.2.1.symm
    subst vb
    obtain ⟨v', s', d', _, _, f', _⟩ := cutFace_commutes hv hdim r0.1 r0.2 r01.1 r01.2 k4
    exact ⟨v', d', f' hf, by omega⟩
  · have : ds = ds' := by
      have k1' : (Outcome.ok ds : Outcome DSetData) = .ok ds' := k1
      cases k1'; rfl
    subst this
    exact ⟨hv, hdim, hf, Nat.le_refl _⟩

/-- the part of the body of `fix_local_2_vertex` before the squeeze: the D-set after the (at most
    two) face cuts and the two chambers handed to `squeeze_tile_3d` -/
def fix2Pre (ds0 : DSetData) (d : Nat) : Outcome (DSetData × Nat × Nat) := do
  let ds ← asDSet ds0
  let d1 ← opx ds 1 d
  let e ← opx ds 2 d1
  let ds ← cutIfLong ds d
  let ds ← cutIfLong ds e
  let d0 ← opx ds 0 d
  let a ← opx ds 1 d0
  let e0 ← opx ds 0 e
  let b ← opx ds 1 e0
  pure (ds, a, b)

/-- **`fix_local_2_vertex` (body) keeps the D-set axioms** (the eight chambers of the squeeze
    distinct in the D-set after the face cuts) -/
theorem fixLocal2Body_preserves {ds0 s : DSetData} (hv : ValidSet ds0) (hdim : ds0.dim = 3) (hf : FarCommute ds0)
    {d : Nat} (hd1 : 1 ≤ d) (hd2 : d ≤ ds0.size)
    (hnd : ∀ ds a b, fix2Pre ds0 d = .ok (ds, a, b) →
      [ds.opU 0 b, a, ds.opU 0 a, b, ds.opU 2 (ds.opU 0 b), ds.opU 2 a, ds.opU 2 (ds.opU 0 a), ds.opU 2 b].Nodup)
    (h : fixLocal2Body ds0 d = .ok (some (.dset s))) :
    ValidSet s ∧ s.dim = 3 ∧ FarCommute s := by
  unfold fixLocal2Body at h
  obtain ⟨dsA, hA, k1⟩ := bind_ok h
  obtain ⟨d1, hd1', k2⟩ := bind_ok k1
  obtain ⟨e, he', k3⟩ := bind_ok k2
  obtain ⟨dsB, hB, k4⟩ := bind_ok k3
  obtain ⟨dsC, hC, k5⟩ := bind_ok k4
  obtain ⟨d0, hd0', k6⟩ := bind_ok k5
  obtain ⟨a, ha', k7⟩ := bind_ok k6
  obtain ⟨e0, he0', k8⟩ := bind_ok k7
  obtain ⟨b, hb', k9⟩ := bind_ok k8
  obtain ⟨dsD, hD, k10⟩ := bind_ok k9
  clear h k1 k2 k3 k4 k5 k6 k7 k8 k9
  have hpre : fix2Pre ds0 d = .ok (dsC, a, b) := by
    unfold fix2Pre
    simp only [hA, hd1', he', hB, hC, hd0', ha', he0', hb', bind, Outcome.bind, pure]
  obtain ⟨vA, sA, dA, _, fA⟩ := asDSet_ok hv hA
  have re := opx_ok he'
  have rd1 := opx_ok hd1'
  have e1 : 1 ≤ e ∧ e ≤ dsA.size := by
    have := vA.range 2 d1 (by omega) re.2.1 re.2.2.1
    rw [re.2.2.2.1] at this; exact this
  obtain ⟨vB, dB, fB, lB⟩ := cutIfLong_ok vA (by omega) (fA hf) hd1 (by omega) hB
  obtain ⟨vC, dC, fC, lC⟩ := cutIfLong_ok vB dB fB e1.1 (by omega) hC
  have ra := opx_ok ha'
  have rb := opx_ok hb'
  have rd0 := opx_ok hd0'
  have re0 := opx_ok he0'
  have ar : 1 ≤ a ∧ a ≤ dsC.size := by
    have := vC.range 1 d0 (by omega) ra.2.1 ra.2.2.1
    rw [ra.2.2.2.1] at this; exact this
  have br : 1 ≤ b ∧ b ≤ dsC.size := by
    have := vC.range 1 e0 (by omega) rb.2.1 rb.2.2.1
    rw [rb.2.2.2.1] at this; exact this
  obtain ⟨vD, sD, dD, fD⟩ := squeeze_far_commute vC dC fC ar.1 ar.2 br.1 br.2 (hnd dsC a b hpre) hD
  exact collapse_face_orbit_preserves vD (by rw [dD, dC]) fD hd1 (by omega) k10

theorem fixLocal2Loop_some {ds : DSetData} {x : DOE} : ∀ {cs : List Nat}, fixLocal2Loop ds cs = .ok (some x) →
    ∃ c ∈ cs, fixLocal2Body ds c = .ok (some x)
  | [], h => by unfold fixLocal2Loop at h; cases h
  | c :: cs, h => by
    unfold fixLocal2Loop at h
    cases hr : r ds 1 2 c with
    | ok k =>
      rw [hr] at h
      simp only at h
      split at h
      · cases hs : fixLocal2Skip ds c with
        | ok bb =>
          rw [hs] at h
          cases bb with
          | true =>
            simp only at h
            obtain ⟨c', hc', hb⟩ := fixLocal2Loop_some h
            exact ⟨c', List.mem_cons_of_mem _ hc', hb⟩
          | false => exact ⟨c, List.mem_cons_self .., h⟩
        | err => rw [hs] at h; cases h
        | panic => rw [hs] at h; cases h
      · obtain ⟨c', hc', hb⟩ := fixLocal2Loop_some h
        exact ⟨c', List.mem_cons_of_mem _ hc', hb⟩
    | err => rw [hr] at h; cases h
    | panic => rw [hr] at h; cases h

/-- **`fix_local_2_vertex` keeps the D-set axioms** (the eight chambers of the squeeze it performs
    distinct) -/
theorem fixLocal2Vertex_preserves {ds s : DSetData} (hv : ValidSet ds) (hdim : ds.dim = 3) (hf : FarCommute ds)
    (hnd : ∀ d ds' a b, 1 ≤ d → d ≤ ds.size → fix2Pre ds d = .ok (ds', a, b) →
      [ds'.opU 0 b, a, ds'.opU 0 a, b, ds'.opU 2 (ds'.opU 0 b), ds'.opU 2 a, ds'.opU 2 (ds'.opU 0 a),
        ds'.opU 2 b].Nodup)
    (h : fixLocal2Vertex (.dset ds) = .ok (some (.dset s))) :
    ValidSet s ∧ s.dim = 3 ∧ FarCommute s := by
  unfold fixLocal2Vertex at h
  obtain ⟨d, hd, hb⟩ := fixLocal2Loop_some h
  have rd := mem_seedsExcl (orbitReps_mem_seeds hv hd)
  exact fixLocal2Body_preserves hv hdim hf rd.1 rd.2 (fun ds' a b hp => hnd d ds' a b rd.1 rd.2 hp) hb


/-! ### merge_facets -/

theorem rLoop_ge {ds : DSetData} {i j d : Nat} : ∀ (fuel e k v : Nat), rLoop ds i j d fuel e k = .ok v → k ≤ v
  | 0, _, _, _, h => by unfold rLoop at h; cases h
  | fuel + 1, e, k, v, h => by
    unfold rLoop at h
    split at h
    · cases h
    · split at h
      · cases h
      · split at h
        · cases h; exact Nat.le_refl _
        · have := rLoop_ge fuel _ (k + 1) v h; omega

/-- `r(ds, i, j, d) == 2` means: the (i,j)-orbit of d has length 2 -/
theorem r_eq_two {ds : DSetData} (hv : ValidSet ds) {i j d : Nat} (hi : i ≤ ds.dim) (hj : j ≤ ds.dim)
    (h1 : 1 ≤ d) (h2 : d ≤ ds.size) :
    r ds i j d = .ok 2 ↔ (ds.opU j (ds.opU i d) ≠ d ∧ ds.opU j (ds.opU i (ds.opU j (ds.opU i d))) = d) := by
  obtain ⟨n, hn⟩ : ∃ n, ds.size = n + 1 := ⟨ds.size - 1, by omega⟩
  have ri := hv.range i d hi h1 h2
  have rj := hv.range j _ hj ri.1 ri.2
  have ri2 := hv.range i _ hi rj.1 rj.2
  unfold r
  rw [hn]
  unfold rLoop
  rw [opPartial_valid hv hi h1 h2]
  simp only
  rw [opPartial_valid hv hj ri.1 ri.2]
  simp only
  by_cases hp : ds.opU j (ds.opU i d) = d
  · rw [if_pos hp]
    constructor
    · intro h; cases h
    · intro h; exact absurd hp h.1
  · rw [if_neg hp]
    unfold rLoop
    rw [opPartial_valid hv hi rj.1 rj.2]
    simp only
    rw [opPartial_valid hv hj ri2.1 ri2.2]
    simp only
    by_cases hq : ds.opU j (ds.opU i (ds.opU j (ds.opU i d))) = d
    · rw [if_pos hq]
      exact ⟨fun _ => ⟨hp, hq⟩, fun _ => rfl⟩
    · rw [if_neg hq]
      constructor
      · intro h
        have := rLoop_ge _ _ _ _ h
        omega
      · intro h; exact absurd h.2 hq

theorem filterR2_ok {ds : DSetData} {i j : Nat} : ∀ {reps sel : List Nat}, filterR2 ds i j reps = .ok sel →
    ∀ d, d ∈ sel ↔ (d ∈ reps ∧ r ds i j d = .ok 2)
  | [], sel, h => by
    unfold filterR2 at h; cases h
    intro d; simp
  | c :: cs, sel, h => by
    unfold filterR2 at h
    cases hr : r ds i j c with
    | ok k =>
      rw [hr] at h
      simp only at h
      cases hs : filterR2 ds i j cs with
      | ok sel' =>
        rw [hs] at h
        simp only [Outcome.ok.injEq] at h
        have ih := filterR2_ok hs
        intro d
        subst h
        by_cases hk : k = 2
        · subst hk
          simp only [if_true, List.mem_cons]
          constructor
          · rintro (rfl | hd)
            · exact ⟨Or.inl rfl, hr⟩
            · exact ⟨Or.inr ((ih d).1 hd).1, ((ih d).1 hd).2⟩
          · rintro ⟨rfl | hd, h2⟩
            · exact Or.inl rfl
            · exact Or.inr ((ih d).2 ⟨hd, h2⟩)
        · rw [if_neg hk]
          simp only [List.mem_cons]
          constructor
          · intro hd; exact ⟨Or.inr ((ih d).1 hd).1, ((ih d).1 hd).2⟩
          · rintro ⟨rfl | hd, h2⟩
            · rw [hr] at h2; cases h2; exact absurd rfl hk
            · exact (ih d).2 ⟨hd, h2⟩
      | err => rw [hs] at h; cases h
      | panic => rw [hs] at h; cases h
    | err => rw [hr] at h; cases h
    | panic => rw [hr] at h; cases h

/-- the (2,3)-orbit of x has length 2: `s3 s2 x ≠ x` and `(s3 s2)² x = x` (x an edge with exactly
    two tiles around it) -/
def Edge2 (ds : DSetData) (x : Nat) : Prop :=
  (1 ≤ x ∧ x ≤ ds.size) ∧ ds.opU 3 (ds.opU 2 x) ≠ x ∧ ds.opU 3 (ds.opU 2 (ds.opU 3 (ds.opU 2 x))) = x

namespace Edge2
variable {ds : DSetData}

theorem comm (hv : ValidSet ds) (hdim : ds.dim = 3) {x : Nat} (h : Edge2 ds x) :
    ds.opU 3 (ds.opU 2 x) = ds.opU 2 (ds.opU 3 x) := by
  obtain ⟨⟨h1, h2⟩, _, hq⟩ := h
  have r2 := hv.range 2 x (by omega) h1 h2
  have r32 := hv.range 3 _ (by omega) r2.1 r2.2
  have r232 := hv.range 2 _ (by omega) r32.1 r32.2
  -- s3 both sides of hq, then s2
  have a : ds.opU 2 (ds.opU 3 (ds.opU 2 x)) = ds.opU 3 x := by
    have := hv.invol 3 _ (by omega) r232.1 r232.2
    rw [hq] at this; exact this.symm
  have b := hv.invol 2 _ (by omega) r32.1 r32.2
  rw [a] at b
  exact b.symm

theorem s2 (hv : ValidSet ds) (hdim : ds.dim = 3) {x : Nat} (h : Edge2 ds x) : Edge2 ds (ds.opU 2 x) := by
  have hc := h.comm hv hdim
  obtain ⟨⟨h1, h2⟩, hp, hq⟩ := h
  have r2 := hv.range 2 x (by omega) h1 h2
  have r3 := hv.range 3 x (by omega) h1 h2
  have i2 := hv.invol 2 x (by omega) h1 h2
  refine ⟨r2, ?_, ?_⟩
  · rw [i2]
    intro he
    -- s3 x = s2 x  ⇒  s3 s2 x = s2 s3 x = s2 s2 x = x
    apply hp
    rw [hc, he, i2]
  · rw [i2, ← hc, hv.invol 3 _ (by omega) r2.1 r2.2]

theorem s3 (hv : ValidSet ds) (hdim : ds.dim = 3) {x : Nat} (h : Edge2 ds x) : Edge2 ds (ds.opU 3 x) := by
  have hc := h.comm hv hdim
  obtain ⟨⟨h1, h2⟩, hp, hq⟩ := h
  have r2 := hv.range 2 x (by omega) h1 h2
  have r3 := hv.range 3 x (by omega) h1 h2
  have i3 := hv.invol 3 x (by omega) h1 h2
  have i2 := hv.invol 2 x (by omega) h1 h2
  refine ⟨r3, ?_, ?_⟩
  · rw [← hc, hv.invol 3 _ (by omega) r2.1 r2.2]
    intro he
    apply hp
    rw [he, i3]
  · rw [← hc, hv.invol 3 _ (by omega) r2.1 r2.2, i2]

theorem s0 (hv : ValidSet ds) (hdim : ds.dim = 3) (hf : FarCommute ds) {x : Nat} (h : Edge2 ds x) :
    Edge2 ds (ds.opU 0 x) := by
  obtain ⟨⟨h1, h2⟩, hp, hq⟩ := h
  have r0 := hv.range 0 x (by omega) h1 h2
  have r2 := hv.range 2 x (by omega) h1 h2
  have r32 := hv.range 3 _ (by omega) r2.1 r2.2
  have r232 := hv.range 2 _ (by omega) r32.1 r32.2
  have c02 : ∀ y, 1 ≤ y → y ≤ ds.size → ds.opU 2 (ds.opU 0 y) = ds.opU 0 (ds.opU 2 y) :=
    fun y a b => hf 0 2 y (by omega) (by omega) a b
  have c03 : ∀ y, 1 ≤ y → y ≤ ds.size → ds.opU 3 (ds.opU 0 y) = ds.opU 0 (ds.opU 3 y) :=
    fun y a b => hf 0 3 y (by omega) (by omega) a b
  refine ⟨r0, ?_, ?_⟩
  · rw [c02 x h1 h2, c03 _ r2.1 r2.2]
    intro he
    apply hp
    have := congrArg (ds.opU 0) he
    rwa [hv.invol 0 _ (by omega) r32.1 r32.2, hv.invol 0 x (by omega) h1 h2] at this
  · rw [c02 x h1 h2, c03 _ r2.1 r2.2, c02 _ r32.1 r32.2, c03 _ r232.1 r232.2, hq]

theorem reach (hv : ValidSet ds) (hdim : ds.dim = 3) {d x : Nat} (h : Edge2 ds d)
    (hr : ds.viewPartial.Reach [2, 3] d x) : Edge2 ds x := by
  induction hr with
  | refl => exact h
  | step _ hi hop ih =>
    rename_i e c i
    have re := ih.1
    simp only [List.mem_cons, List.not_mem_nil, or_false] at hi
    rcases hi with rfl | rfl
    · rw [viewPartial_op hv (by omega) re.1 re.2] at hop
      cases hop; exact ih.s2 hv hdim
    · rw [viewPartial_op hv (by omega) re.1 re.2] at hop
      cases hop; exact ih.s3 hv hdim

end Edge2


theorem mem_seedsExcl_iff {ds : DSetData} {d : Nat} : d ∈ seedsExcl ds ↔ 1 ≤ d ∧ d < ds.size := by
  unfold seedsExcl
  simp only [List.mem_map, List.mem_range]
  constructor
  · rintro ⟨a, ha, rfl⟩; omega
  · rintro ⟨h1, h2⟩; exact ⟨d - 1, by omega, by omega⟩

/-- **`merge_facets` keeps the D-set axioms.**  The junk list (all (2,3)-orbits of length 2: the
    edges with exactly two tiles around them) is closed under s0, s2, s3, and s2, s3 commute on it;
    `collapse` with connector 2 re-routes s1 around it. -/
theorem mergeFacets_preserves {ds s : DSetData} (hv : ValidSet ds) (hdim : ds.dim = 3) (hf : FarCommute ds)
    (h : mergeFacets (.dset ds) = .ok (some (.dset s))) :
    ValidSet s ∧ s.dim = 3 ∧ FarCommute s := by
  unfold mergeFacets at h
  simp only at h
  cases hsel : filterR2 ds 2 3 (ds.viewPartial.orbitReps [2, 3] (seedsExcl ds)) with
  | err => rw [hsel] at h; cases h
  | panic => rw [hsel] at h; cases h
  | ok sel =>
  rw [hsel] at h
  simp only at h
  have hselm := filterR2_ok hsel
  have hreps := DSymVerif.C02.orbitReps_one_per_component ds.viewPartial hv.toPartial.pinvol [2, 3] (seedsExcl ds)
  have pinv := hv.toPartial.pinvol
  -- members of the selection are chambers with an orbit of length 2
  have hselE : ∀ d ∈ sel, Edge2 ds d := by
    intro d hd
    obtain ⟨hdr, hr2⟩ := (hselm d).1 hd
    have rd := mem_seedsExcl (hreps.1 d hdr)
    exact ⟨rd, (r_eq_two hv (by omega) (by omega) rd.1 rd.2).1 hr2⟩
  have hmem : ∀ x, x ∈ sel.flatMap (fun d => ds.viewPartial.orbit [2, 3] d) ↔
      ∃ d ∈ sel, ds.viewPartial.Reach [2, 3] d x := by
    intro x
    simp only [List.mem_flatMap]
    constructor
    · rintro ⟨d, hd, hx⟩; exact ⟨d, hd, (mem_orbit hv).1 hx⟩
    · rintro ⟨d, hd, hx⟩; exact ⟨d, hd, (mem_orbit hv).2 hx⟩
  have hjE : ∀ x ∈ sel.flatMap (fun d => ds.viewPartial.orbit [2, 3] d), Edge2 ds x := by
    intro x hx
    obtain ⟨d, hd, hr⟩ := (hmem x).1 hx
    exact (hselE d hd).reach hv hdim hr
  -- every chamber with an orbit of length 2 is in the junk list
  have hall : ∀ y, Edge2 ds y → y ∈ sel.flatMap (fun d => ds.viewPartial.orbit [2, 3] d) := by
    intro y hy
    -- a seed in the orbit of y: y itself or s3 s2 y
    obtain ⟨z, hz, hyz⟩ : ∃ z, z ∈ seedsExcl ds ∧ ds.viewPartial.Reach [2, 3] y z := by
      by_cases hlt : y < ds.size
      · exact ⟨y, mem_seedsExcl_iff.2 ⟨hy.1.1, hlt⟩, View.Reach.refl y⟩
      · have r2 := hv.range 2 y (by omega) hy.1.1 hy.1.2
        have r32 := hv.range 3 _ (by omega) r2.1 r2.2
        refine ⟨ds.opU 3 (ds.opU 2 y), mem_seedsExcl_iff.2 ⟨r32.1, ?_⟩, ?_⟩
        · have h1 := hy.2.1; have h2 := hy.1.2; have h3 := r32.2; omega
        · exact View.Reach.step (View.Reach.step (View.Reach.refl y) (by simp)
            (viewPartial_op hv (by omega) hy.1.1 hy.1.2)) (by simp) (viewPartial_op hv (by omega) r2.1 r2.2)
    obtain ⟨rp, hrp, hrz⟩ := hreps.2.1 z hz
    have hry : ds.viewPartial.Reach [2, 3] rp y := hrz.trans (View.Reach.symm pinv hyz)
    have hEr : Edge2 ds rp := hy.reach hv hdim (View.Reach.symm pinv hry)
    have hsel' : rp ∈ sel := (hselm rp).2 ⟨hrp, (r_eq_two hv (by omega) (by omega) hEr.1.1 hEr.1.2).2 hEr.2⟩
    exact (hmem y).2 ⟨rp, hsel', hry⟩
  have hr : ∀ d ∈ sel.flatMap (fun d => ds.viewPartial.orbit [2, 3] d), 1 ≤ d ∧ d ≤ ds.size :=
    fun d hd => (hjE d hd).1
  have hcl2 : ∀ d ∈ sel.flatMap (fun d => ds.viewPartial.orbit [2, 3] d),
      ds.opU 2 d ∈ sel.flatMap (fun d => ds.viewPartial.orbit [2, 3] d) :=
    fun d hd => hall _ ((hjE d hd).s2 hv hdim)
  obtain ⟨num, res⟩ := collapse_ok_res hv (by omega) (by omega) hr hcl2 h
  refine ⟨res.valid, by rw [res.dim, hdim], ?_⟩
  apply collapse_far_commute hv hf res (c := 2) (j := 1) (by omega) (by omega)
  · intro i hi hi1 d hd
    have : i = 0 ∨ i = 2 ∨ i = 3 := by omega
    rcases this with rfl | rfl | rfl
    · exact hall _ ((hjE d hd).s0 hv hdim hf)
    · exact hcl2 d hd
    · exact hall _ ((hjE d hd).s3 hv hdim)
  · intro k hk hk1 d hd
    have hk3 : k = 3 := by omega
    subst hk3
    exact (hjE d hd).comm hv hdim


/-! ### merge_tiles at the level of the model, merge_all, and the combined statement -/

/-- the D-set axioms of a 3-dimensional complete D-set -/
def Axioms3 (ds : DSetData) : Prop := ValidSet ds ∧ ds.dim = 3 ∧ FarCommute ds

/-- the walls `merge_tiles` removes consist of whole faces: the chambers d of the inner edges
    (d, 3) of `inner_edges` form a set closed under s0 and s1 -/
def TilesJunkFaces (ds : DSetData) : Prop :=
  ∀ sym inner, asDSym ds = .ok sym → FG.innerEdges sym = .ok inner →
    (∀ e ∈ inner, 1 ≤ e.1 ∧ e.1 ≤ ds.size) ∧
    ∀ x ∈ tilesJunk ds inner, ds.opU 0 x ∈ tilesJunk ds inner ∧ ds.opU 1 x ∈ tilesJunk ds inner

/-- the one fact about `inner_edges` (fundamental_group.rs) the invariants rest on, not proved
    here: on every complete 3-dimensional D-set with commuting far operations the 3-edges it
    declares inner come in whole faces -/
def InnerWallsAreFaces : Prop := ∀ ds, Axioms3 ds → TilesJunkFaces ds

theorem mergeTiles_model_preserves {ds s : DSetData} (hax : Axioms3 ds) (hw : TilesJunkFaces ds)
    (h : mergeTiles (.dset ds) = .ok (some (.dset s))) : Axioms3 s := by
  unfold mergeTiles at h
  simp only at h
  cases hsym : asDSym ds with
  | err => rw [hsym] at h; cases h
  | panic => rw [hsym] at h; cases h
  | ok sym =>
    rw [hsym] at h
    simp only at h
    cases hin : FG.innerEdges sym with
    | err => rw [hin] at h; cases h
    | panic => rw [hin] at h; cases h
    | ok inner =>
      rw [hin] at h
      simp only at h
      obtain ⟨a, b⟩ := hw sym inner hsym hin
      exact mergeTiles_preserves hax.1 hax.2.1 hax.2.2 a b h

theorem dual_axioms {ds s : DSetData} (hax : Axioms3 ds) (h : dual (.dset ds) = .ok (some (.dset s))) : Axioms3 s := by
  have hsz : 1 ≤ ds.size := by
    unfold dual ofBuild at h
    simp only at h
    cases hb : buildSet ds.size ds.dim (fun i d => ds.opPartial (ds.dim - i) d) with
    | ok s' => exact (buildSet_ok_inv hb).1
    | err => rw [hb] at h; cases h
    | panic => rw [hb] at h; cases h
  obtain ⟨a, _, c, d, _⟩ := dual_preserves hax.1 (by rw [hax.2.1]; omega) hsz hax.2.2 h
  exact ⟨a, by rw [c, hax.2.1], d⟩

/-- state of the `merge_all` loop: a D-set satisfying the axioms, or the empty D-set -/
def AccOk (acc : Outcome DOE) : Prop :=
  match acc with
  | .ok (.dset ds) => Axioms3 ds
  | _ => True

theorem applyIf_acc {op : DOE → Step} (hop : ∀ ds s, Axioms3 ds → op (.dset ds) = .ok (some (.dset s)) → Axioms3 s)
    {acc : Outcome DOE} (h : AccOk acc) (hempty : op .empty = .ok none) : AccOk (applyIf op acc) := by
  unfold applyIf
  cases acc with
  | err => trivial
  | panic => trivial
  | ok x =>
    cases x with
    | empty => simp only [hempty]; trivial
    | dset ds =>
      simp only
      cases hr : op (.dset ds) with
      | err => trivial
      | panic => trivial
      | ok o =>
        cases o with
        | none => exact h
        | some y =>
          cases y with
          | empty => trivial
          | dset s => exact hop ds s h hr

/-- **`merge_all` keeps the D-set axioms** (given the fact about `inner_edges`) -/
theorem mergeAll_preserves (hw : InnerWallsAreFaces) {ds s : DSetData} (hax : Axioms3 ds)
    (h : mergeAll (.dset ds) = .ok (some (.dset s))) : Axioms3 s := by
  have hT : ∀ ds s, Axioms3 ds → mergeTiles (.dset ds) = .ok (some (.dset s)) → Axioms3 s :=
    fun ds s a b => mergeTiles_model_preserves a (hw ds a) b
  have hF : ∀ ds s, Axioms3 ds → mergeFacets (.dset ds) = .ok (some (.dset s)) → Axioms3 s :=
    fun ds s a b => mergeFacets_preserves a.1 a.2.1 a.2.2 b
  have hD : ∀ ds s, Axioms3 ds → dual (.dset ds) = .ok (some (.dset s)) → Axioms3 s :=
    fun ds s a b => dual_axioms a b
  have a0 : AccOk (.ok (.dset ds)) := hax
  have a1 := applyIf_acc hT a0 rfl
  have a2 := applyIf_acc hF a1 rfl
  have a3 := applyIf_acc hD a2 rfl
  have a4 := applyIf_acc hT a3 rfl
  have a5 := applyIf_acc hF a4 rfl
  have a6 := applyIf_acc hD a5 rfl
  unfold mergeAll at h
  simp only [List.foldl] at h
  generalize applyIf dual (applyIf mergeFacets (applyIf mergeTiles (applyIf dual (applyIf mergeFacets
    (applyIf mergeTiles (Outcome.ok (DOE.dset ds))))))) = fin at a6 h
  cases fin with
  | err => cases h
  | panic => cases h
  | ok x =>
    simp only [Outcome.ok.injEq, Option.some.injEq] at h
    subst h
    exact a6


/-! ### witnesses for the non-vacuity examples of Props/C16 (states reached by the real pipeline;
`exFacets` is hand-made: chambers 1-4 form a (2,3)-orbit of length 2, chambers 5-8 two of length 1) -/

/-- Boolean form of `FarCommute` -/
def farCommuteB (s : DSetData) : Bool :=
  (List.range (s.dim + 1)).all fun i => (List.range (s.dim + 1)).all fun j => (List.range s.size).all fun d0 =>
    !(i + 1 < j) || s.opU j (s.opU i (d0 + 1)) == s.opU i (s.opU j (d0 + 1))

theorem farCommuteB_sound {s : DSetData} (h : farCommuteB s = true) : FarCommute s := by
  unfold farCommuteB at h
  simp only [List.all_eq_true, List.mem_range, Bool.or_eq_true, Bool.not_eq_true', decide_eq_false_iff_not,
    beq_iff_eq] at h
  intro i j d hij hj hd1 hd2
  have := h i (by omega) j (by omega) (d - 1) (by omega)
  rw [show d - 1 + 1 = d by omega] at this
  rcases this with h1 | h1
  · exact absurd hij h1
  · exact h1

theorem axioms3_of_bool {s : DSetData} (h1 : validSetB s = true) (h2 : s.dim = 3) (h3 : farCommuteB s = true) :
    Axioms3 s := ⟨validSetB_sound h1, h2, farCommuteB_sound h3⟩

/-- does the step return a D-set? -/
def returnsDSet (x : Step) : Bool :=
  match x with
  | .ok (some (.dset _)) => true
  | _ => false

theorem returnsDSet_exists {x : Step} (h : returnsDSet x = true) : ∃ s, x = .ok (some (.dset s)) := by
  unfold returnsDSet at h
  split at h
  · rename_i s; exact ⟨s, rfl⟩
  · cases h

def exFacets : DSetData :=
  { size := 8, dim := 3,
    op := #[2, 5, 2, 3,
      1, 7, 1, 4,
      4, 6, 4, 1,
      3, 8, 3, 2,
      7, 1, 6, 6,
      8, 3, 5, 5,
      5, 2, 8, 8,
      6, 4, 7, 7] }

def exAll : DSetData :=
  { size := 12, dim := 3,
    op := #[2, 3, 4, 5,
      1, 6, 7, 8,
      9, 1, 10, 7,
      7, 10, 1, 9,
      8, 7, 6, 1,
      11, 2, 5, 12,
      4, 5, 2, 3,
      5, 12, 11, 2,
      3, 11, 12, 4,
      12, 4, 3, 11,
      6, 9, 8, 10,
      10, 8, 9, 6] }

def exFix2 : DSetData :=
  { size := 20, dim := 3,
    op := #[2, 3, 4, 5,
      1, 6, 7, 8,
      9, 1, 10, 11,
      7, 10, 1, 12,
      8, 11, 13, 1,
      14, 2, 15, 16,
      4, 15, 2, 19,
      5, 16, 17, 2,
      3, 17, 16, 18,
      16, 4, 3, 14,
      18, 5, 19, 3,
      19, 14, 18, 4,
      17, 19, 5, 15,
      6, 12, 20, 10,
      20, 7, 6, 13,
      10, 8, 9, 6,
      13, 9, 8, 20,
      11, 20, 12, 9,
      12, 13, 11, 7,
      15, 18, 14, 17] }

def exFnd : DSetData :=
  { size := 32, dim := 3,
    op := #[20, 19, 13, 7,
      6, 8, 32, 16,
      14, 11, 24, 28,
      17, 17, 10, 31,
      19, 20, 11, 21,
      2, 10, 7, 13,
      32, 22, 6, 1,
      10, 2, 17, 18,
      31, 31, 18, 17,
      8, 6, 4, 15,
      12, 3, 5, 27,
      11, 14, 19, 25,
      16, 15, 1, 6,
      3, 12, 23, 26,
      18, 13, 31, 10,
      13, 18, 20, 2,
      4, 4, 8, 9,
      15, 16, 9, 8,
      5, 1, 12, 22,
      1, 5, 16, 32,
      22, 32, 27, 5,
      21, 7, 25, 19,
      24, 24, 14, 30,
      23, 23, 3, 29,
      27, 26, 22, 12,
      28, 25, 30, 14,
      25, 28, 21, 11,
      26, 27, 29, 3,
      30, 30, 28, 24,
      29, 29, 26, 23,
      9, 9, 15, 4,
      7, 21, 2, 20] }

def exTiles : DSetData :=
  { size := 16, dim := 3,
    op := #[2, 3, 4, 5,
      1, 6, 7, 8,
      6, 1, 9, 10,
      7, 9, 1, 11,
      8, 10, 12, 1,
      3, 2, 13, 14,
      4, 13, 2, 15,
      5, 14, 16, 2,
      13, 4, 3, 16,
      14, 5, 15, 3,
      15, 16, 14, 4,
      16, 15, 5, 13,
      9, 7, 6, 12,
      10, 8, 11, 6,
      11, 12, 10, 7,
      12, 11, 8, 9] }

end DSymVerif.Simp
