/-
Property C05, part 15: the monodromy representation of an arbitrary covering.

Let `c` be a covering of the valid symbol `ds` with `j` sheets (`IsCoverOf ds c j`).
* `sig k i b` — the sheet reached from sheet `k` over `b` by `op_i`; it is a compatible sheet map
  and `c` has the operations `coverF sig`;
* `tauC d i` — the permutation `k ↦ sig k i d` of the sheets;
* the holonomy of the closed walk round every 2-orbit, to the power `v`, is trivial, because the
  degrees of `c` are those of `ds` (so `r·v` is a period of every chamber of `c`);
* after gauge fixing along the spanning tree (`exists_gauge`) the facet values
  `V(d,i) = γ(d) · tauC(d,i)⁻¹ · γ(op_i d)⁻¹` satisfy all relators of the textbook group, so they
  define `rhoC : TGroup ds →* Perm (Fin j)`, transitive when `c` is connected.
-/
import DSymVerif.Proofs.CoversWired
import DSymVerif.Proofs.CoversGauge

namespace DSymVerif.CoversP
open DSymVerif DSymVerif.DS DSymVerif.FG DSymVerif.FGP

/-! ### generic walk lemmas (any group, any facet values) -/

section walkG
variable {G : Type} [Group G] {ds : DSymData} {n : Nat} (ρ : G →* Equiv.Perm (Fin n))
  (val : Nat → Nat → G) {σ : Nat → Nat → Nat → Nat}
  (hσ : ∀ k i d (hk : k < n), i ≤ ds.dim → 1 ≤ d → d ≤ ds.size →
    σ k i d = ((ρ (val d i))⁻¹ ⟨k, hk⟩).val)
  (hv : ValidSet ds.dset) {c : DSetData}
  (hop : ∀ i d, i ≤ ds.dim → 1 ≤ d → d ≤ n * ds.size → c.opU i d = coverF ds.dset σ i d)
include hσ hv hop

theorem walkG {a b : Nat} (ha : a ≤ ds.dim) (hb : b ≤ ds.dim) {b0 : Nat} (h1 : 1 ≤ b0)
    (h2 : b0 ≤ ds.size) (k : Fin n) : ∀ t,
    wk (fun i e => c.opU i e) a b t (ds.size * k.val + b0) =
      ds.size * ((ρ (Wf (opT ds) val a b t b0))⁻¹ k).val + wk (opT ds) a b t b0
  | 0 => by
    show ds.size * k.val + b0 = _
    simp [Wf, wk]
  | t + 1 => by
    rw [wk_succ_last, walkG ha hb h1 h2 k t, wk_succ_last, Wf_succ_last]
    have hi := ix_le ha hb t
    have hr := wk_range hv h1 h2 t a b
    generalize wk (opT ds) a b t b0 = e at hr
    generalize hW : (ρ (Wf (opT ds) val a b t b0))⁻¹ k = kt
    have hd := cmk_range (sz := ds.size) (n := n) kt.isLt hr.1 hr.2
    show c.opU (ix a b t) (ds.size * kt.val + e) = _
    rw [hop _ _ hi hd.1 hd.2]
    have hmk : coverF ds.dset σ (ix a b t) (ds.size * kt.val + e) =
        ds.size * σ kt.val (ix a b t) e + ds.dset.opU (ix a b t) e := coverF_mk (s := ds.dset) hr.1 hr.2
    rw [hmk, hσ kt.val (ix a b t) e kt.isLt hi hr.1 hr.2, opT_eq hi hr.1 hr.2]
    congr 2
    rw [map_mul, mul_inv_rev, Equiv.Perm.mul_apply, ← hW]

theorem roundsG {a b : Nat} (ha : a ≤ ds.dim) (hb : b ≤ ds.dim) {b0 : Nat} (h1 : 1 ≤ b0)
    (h2 : b0 ≤ ds.size) {r : Nat} (hper : wk (opT ds) a b (2 * r) b0 = b0) (k : Fin n) : ∀ v,
    wk (fun i e => c.opU i e) a b (2 * (r * v)) (ds.size * k.val + b0) =
      ds.size * (((ρ (Wf (opT ds) val a b (2 * r) b0))⁻¹ ^ v) k).val + b0
  | 0 => by simp [wk]
  | v + 1 => by
    have e : 2 * (r * (v + 1)) = 2 * (r * v) + 2 * r := by ring
    rw [e, wk_add, ix_even, ix_even, roundsG ha hb h1 h2 hper k v,
      walkG ρ val hσ hv hop ha hb h1 h2 _ (2 * r), hper, pow_succ', Equiv.Perm.mul_apply]

end walkG

/-- conjugating the facet values by a gauge telescopes along a walk -/
theorem Wf_gauge {G : Type} [Group G] (op : Nat → Nat → Nat) (val : Nat → Nat → G) (γ : Nat → G) :
    ∀ (t a b c0 : Nat),
      Wf op (fun d i => γ d * val d i * (γ (op i d))⁻¹) a b t c0 =
        γ c0 * Wf op val a b t c0 * (γ (wk op a b t c0))⁻¹
  | 0, a, b, c0 => by simp [Wf, wk]
  | t + 1, a, b, c0 => by
    rw [Wf_succ_last, Wf_gauge op val γ t a b c0, Wf_succ_last, wk_succ_last]
    group

/-! ### periods -/

theorem isPeriod_of_dvd {s : DSetData} {i j x k p : Nat} (hk : IsPeriod s i j k x) (hd : k ∣ p) :
    IsPeriod s i j p x := by
  obtain ⟨q, rfl⟩ := hd
  unfold IsPeriod at *
  rw [Function.iterate_mul]
  exact Function.iterate_fixed hk q

/-- on a valid symbol `m = r·v` with `r` the least period -/
theorem mPartial_orb {ds : DSymData} (hs : ValidSym ds) {a b x : Nat} (ha : a ≤ ds.dim) (hb : b ≤ ds.dim)
    (h1 : 1 ≤ x) (h2 : x ≤ ds.size) :
    ds.mPartial a b x = .ok (some (orbR ds a b x * orbV ds a b x)) ∧
      IsLeastPeriod ds.dset a b x (orbR ds a b x) := by
  obtain ⟨hr, hl⟩ := orbR_spec hs ha hb h1 h2
  obtain ⟨v, hv⟩ := hs.vPartial_some ha hb h1 h2
  refine ⟨?_, hl⟩
  have : orbV ds a b x = v := by unfold orbV; rw [hv]
  rw [this]
  unfold DSymData.mPartial
  rw [hr, hv]
  rfl

/-! ### the sheet data of a covering -/

section cover
variable {ds c : DSymData} {j : Nat} (hs : ValidSym ds) (hsz : 1 ≤ ds.size) (hcov : IsCoverOf ds c j)

/-- the sheet reached from sheet `k` over chamber `b` by `op_i` in the covering `c` -/
def sig (ds c : DSymData) (k i b : Nat) : Nat := csheet ds.size (c.dset.opU i (ds.size * k + b))

include hsz hcov in
theorem sig_spec {k i b : Nat} (hk : k < j) (hi : i ≤ ds.dim) (h1 : 1 ≤ b) (h2 : b ≤ ds.size) :
    c.dset.opU i (ds.size * k + b) = ds.size * sig ds c k i b + ds.dset.opU i b ∧ sig ds c k i b < j := by
  have hd := cmk_range (sz := ds.size) (n := j) hk h1 h2
  have hic : i ≤ c.dset.dim := by rw [show c.dset.dim = c.dim from rfl, hcov.dim]; exact hi
  have h2c : ds.size * k + b ≤ c.dset.size := by rw [show c.dset.size = c.size from rfl, hcov.size]; exact hd.2
  have hr := hcov.valid.set.range i _ hic hd.1 h2c
  have hr2 : c.dset.opU i (ds.size * k + b) ≤ j * ds.size := by
    rw [← hcov.size]; exact hr.2
  have hp := hcov.proj i _ hi hd.1 hd.2
  rw [cproj_mk h1 h2] at hp
  have hdec := cdecomp hsz hr.1
  rw [hp] at hdec
  exact ⟨hdec.symm, csheet_lt hsz hr.1 hr2⟩

include hs hsz hcov in
theorem sig_invol {k i b : Nat} (hk : k < j) (hi : i ≤ ds.dim) (h1 : 1 ≤ b) (h2 : b ≤ ds.size) :
    sig ds c (sig ds c k i b) i (ds.dset.opU i b) = k := by
  obtain ⟨e1, hk1⟩ := sig_spec hsz hcov hk hi h1 h2
  have hb' := hs.set.range i b hi h1 h2
  obtain ⟨e2, _⟩ := sig_spec hsz hcov hk1 hi hb'.1 hb'.2
  have hd := cmk_range (sz := ds.size) (n := j) hk h1 h2
  have hic : i ≤ c.dset.dim := by rw [show c.dset.dim = c.dim from rfl, hcov.dim]; exact hi
  have h2c : ds.size * k + b ≤ c.dset.size := by rw [show c.dset.size = c.size from rfl, hcov.size]; exact hd.2
  have hinv := hcov.valid.set.invol i _ hic hd.1 h2c
  rw [e1, e2, hs.set.invol i b hi h1 h2] at hinv
  have : ds.size * sig ds c (sig ds c k i b) i (ds.dset.opU i b) = ds.size * k := by omega
  exact Nat.eq_of_mul_eq_mul_left (show 0 < ds.size by omega) this

include hsz hcov in
/-- the covering has the operations of its sheet map -/
theorem sig_coverF {i d : Nat} (hi : i ≤ ds.dim) (h1 : 1 ≤ d) (h2 : d ≤ j * ds.size) :
    c.dset.opU i d = coverF ds.dset (sig ds c) i d := by
  have hp := cproj_range (d := d) hsz
  have hk := csheet_lt hsz h1 h2
  have hdec := cdecomp hsz h1
  have := (sig_spec hsz hcov hk hi hp.1 hp.2).1
  rw [hdec] at this
  exact this

/-- the sheet permutation of facet `(d,i)` (identity outside the symbol) -/
noncomputable def tauC (d i : Nat) : Equiv.Perm (Fin j) :=
  if h : FacetR ds d i then
    { toFun := fun k => ⟨sig ds c k.val i d, (sig_spec hsz hcov k.isLt h.2.2 h.1 h.2.1).2⟩
      invFun := fun k => ⟨sig ds c k.val i (ds.dset.opU i d),
        (sig_spec hsz hcov k.isLt h.2.2 (hs.set.range i d h.2.2 h.1 h.2.1).1
          (hs.set.range i d h.2.2 h.1 h.2.1).2).2⟩
      left_inv := fun k => Fin.ext (sig_invol hs hsz hcov k.isLt h.2.2 h.1 h.2.1)
      right_inv := fun k => by
        apply Fin.ext
        have hb' := hs.set.range i d h.2.2 h.1 h.2.1
        have := sig_invol hs hsz hcov k.isLt h.2.2 hb'.1 hb'.2
        rw [hs.set.invol i d h.2.2 h.1 h.2.1] at this
        exact this }
  else 1

theorem tauC_apply {d i : Nat} (h : FacetR ds d i) (k : Fin j) :
    (tauC hs hsz hcov d i k).val = sig ds c k.val i d := by
  unfold tauC
  rw [dif_pos h]
  rfl

theorem tauC_pair {d i : Nat} (h : FacetR ds d i) :
    tauC hs hsz hcov (ds.dset.opU i d) i = (tauC hs hsz hcov d i)⁻¹ := by
  have hb' := hs.set.range i d h.2.2 h.1 h.2.1
  have h' : FacetR ds (ds.dset.opU i d) i := ⟨hb'.1, hb'.2, h.2.2⟩
  apply Equiv.ext
  intro k
  rw [Equiv.Perm.eq_inv_iff_eq]
  apply Fin.ext
  rw [tauC_apply hs hsz hcov h, tauC_apply hs hsz hcov h']
  have := sig_invol hs hsz hcov k.isLt h.2.2 hb'.1 hb'.2
  rw [hs.set.invol i d h.2.2 h.1 h.2.1] at this
  exact this

/-- ungauged facet values: the inverse sheet permutations -/
noncomputable def valC (d i : Nat) : Equiv.Perm (Fin j) := (tauC hs hsz hcov d i)⁻¹

theorem valC_pair (i d : Nat) : valC hs hsz hcov (opT ds i d) i = (valC hs hsz hcov d i)⁻¹ := by
  unfold valC
  by_cases h : FacetR ds d i
  · rw [opT_eq h.2.2 h.1 h.2.1, tauC_pair hs hsz hcov h]
  · rw [opT_oor (fun h' => h ⟨h'.2.1, h'.2.2, h'.1⟩)]
    unfold tauC
    rw [dif_neg h]
    simp

/-- the holonomy round every 2-orbit, to the power `v`, is trivial -/
theorem holonomy_trivial {a b b0 : Nat} (ha : a ≤ ds.dim) (hb : b ≤ ds.dim)
    (h1 : 1 ≤ b0) (h2 : b0 ≤ ds.size) :
    OW ds (valC hs hsz hcov) a b b0 ^ orbV ds a b b0 = 1 := by
  have hj : 0 < j := hcov.sheets
  have hσ : ∀ k i d (hk : k < j), i ≤ ds.dim → 1 ≤ d → d ≤ ds.size →
      sig ds c k i d = (((MonoidHom.id (Equiv.Perm (Fin j))) (valC hs hsz hcov d i))⁻¹ ⟨k, hk⟩).val := by
    intro k i d hk hi hd1 hd2
    unfold valC
    rw [MonoidHom.id_apply, inv_inv, tauC_apply hs hsz hcov ⟨hd1, hd2, hi⟩]
  have hop : ∀ i d, i ≤ ds.dim → 1 ≤ d → d ≤ j * ds.size →
      c.dset.opU i d = coverF ds.dset (sig ds c) i d :=
    fun i d hi hd1 hd2 => sig_coverF hsz hcov hi hd1 hd2
  have hper := (orbR_period hs ha hb h1 h2).2
  -- r·v is a period of every chamber of the cover
  have hP : ∀ k : Fin j, IsPeriod c.dset a b (orbR ds a b b0 * orbV ds a b b0) (ds.size * k.val + b0) := by
    intro k
    have hd := cmk_range (sz := ds.size) (n := j) k.isLt h1 h2
    have hac : a ≤ c.dim := by rw [hcov.dim]; exact ha
    have hbc : b ≤ c.dim := by rw [hcov.dim]; exact hb
    have h2c : ds.size * k.val + b0 ≤ c.size := by rw [hcov.size]; exact hd.2
    obtain ⟨hm, hl⟩ := mPartial_orb hcov.valid hac hbc hd.1 h2c
    have hdeg := hcov.deg a b _ ha hb hd.1 hd.2
    rw [cproj_mk h1 h2, (mPartial_orb hs ha hb h1 h2).1, hm] at hdeg
    have heq : orbR c a b (ds.size * k.val + b0) * orbV c a b (ds.size * k.val + b0) =
        orbR ds a b b0 * orbV ds a b b0 := Option.some.inj (Outcome.ok.inj hdeg)
    exact isPeriod_of_dvd hl.2.1 ⟨_, heq.symm⟩
  have hpow : ((Wf (opT ds) (valC hs hsz hcov) a b (2 * orbR ds a b b0) b0)⁻¹ ^ orbV ds a b b0) = 1 := by
    apply Equiv.ext
    intro k
    have hround := roundsG (MonoidHom.id _) (valC hs hsz hcov) hσ hs.set hop ha hb h1 h2 hper k
      (orbV ds a b b0)
    have hev := wk_even (fun i e => c.dset.opU i e) a b (orbR ds a b b0 * orbV ds a b b0)
      (ds.size * k.val + b0)
    have hk := hP k
    unfold IsPeriod at hk
    have hk' : (fun e => c.dset.opU b (c.dset.opU a e))^[orbR ds a b b0 * orbV ds a b b0]
        (ds.size * k.val + b0) = ds.size * k.val + b0 := hk
    rw [hk'] at hev
    rw [hev] at hround
    rw [MonoidHom.id_apply] at hround
    have : ds.size * ((((Wf (opT ds) (valC hs hsz hcov) a b (2 * orbR ds a b b0) b0))⁻¹ ^
        orbV ds a b b0) k).val = ds.size * k.val := by omega
    apply Fin.ext
    simp only [Equiv.Perm.coe_one, id_eq]
    exact Nat.eq_of_mul_eq_mul_left (show 0 < ds.size by omega) this
  unfold OW
  rw [inv_pow, inv_eq_one] at hpow
  exact hpow

/-! ### gauge fixing and the representation of the textbook group -/

/-- the gauged facet values -/
noncomputable def valG (γ : Nat → Equiv.Perm (Fin j)) (d i : Nat) : Equiv.Perm (Fin j) :=
  γ d * valC hs hsz hcov d i * (γ (opT ds i d))⁻¹

theorem valG_pair (γ : Nat → Equiv.Perm (Fin j)) (i d : Nat) :
    valG hs hsz hcov γ (opT ds i d) i = (valG hs hsz hcov γ d i)⁻¹ := by
  unfold valG
  have hinv : opT ds i (opT ds i d) = d := by
    by_cases h : FacetR ds d i
    · have hb' := hs.set.range i d h.2.2 h.1 h.2.1
      rw [opT_eq h.2.2 h.1 h.2.1, opT_eq h.2.2 hb'.1 hb'.2, hs.set.invol i d h.2.2 h.1 h.2.1]
    · have hn : ¬ (i ≤ ds.dim ∧ 1 ≤ d ∧ d ≤ ds.size) := fun h' => h ⟨h'.2.1, h'.2.2, h'.1⟩
      rw [opT_oor hn, opT_oor hn]
  rw [hinv, valC_pair]
  group

theorem valG_orbit (γ : Nat → Equiv.Perm (Fin j)) {a b b0 : Nat} (ha : a ≤ ds.dim) (hb : b ≤ ds.dim)
    (h1 : 1 ≤ b0) (h2 : b0 ≤ ds.size) :
    OW ds (valG hs hsz hcov γ) a b b0 ^ orbV ds a b b0 = 1 := by
  have hper := (orbR_period hs ha hb h1 h2).2
  have hhol := holonomy_trivial hs hsz hcov ha hb h1 h2
  unfold OW at hhol ⊢
  have hg := Wf_gauge (opT ds) (valC hs hsz hcov) γ (2 * orbR ds a b b0) a b b0
  rw [hper] at hg
  have : Wf (opT ds) (valG hs hsz hcov γ) a b (2 * orbR ds a b b0) b0 =
      γ b0 * Wf (opT ds) (valC hs hsz hcov) a b (2 * orbR ds a b b0) b0 * (γ b0)⁻¹ := hg
  rw [this, conj_pow, hhol]
  group

theorem valG_tree {γ : Nat → Equiv.Perm (Fin j)}
    (hγ : ∀ d i, (d, i, none) ∈ spanningTree ds → γ (ds.dset.opU i d) = γ d * valC hs hsz hcov d i)
    {d i : Nat} (hmem : (d, i, none) ∈ spanningTree ds) (hfac : FacetR ds d i) :
    valG hs hsz hcov γ d i = 1 := by
  unfold valG
  rw [opT_eq hfac.2.2 hfac.1 hfac.2.1, hγ d i hmem]
  group

/-- generator `k` of the free group on the facet codes ↦ gauged value of its facet -/
noncomputable def val0 (γ : Nat → Equiv.Perm (Fin j)) (k : ℕ) : Equiv.Perm (Fin j) :=
  if isCode ds k then valG hs hsz hcov γ (decD ds k) (decI ds k) else 1

theorem lift_val0_xg (γ : Nat → Equiv.Perm (Fin j)) {d i : Nat} (h : FacetR ds d i) :
    FreeGroup.lift (val0 hs hsz hcov γ) (xg ds d i) = valG hs hsz hcov γ d i := by
  unfold xg
  rw [if_pos h, FreeGroup.lift_apply_of]
  unfold val0
  rw [if_pos (isCode_code h), (dec_code h).1, (dec_code h).2]

theorem lift_val0_xg_oor (γ : Nat → Equiv.Perm (Fin j)) {d i : Nat} (h : ¬ FacetR ds d i) :
    FreeGroup.lift (val0 hs hsz hcov γ) (xg ds d i) = 1 := by
  unfold xg
  rw [if_neg h, map_one]

/-- the gauged values satisfy every relator of the textbook group -/
theorem val0_rel {γ : Nat → Equiv.Perm (Fin j)}
    (hγ : ∀ d i, (d, i, none) ∈ spanningTree ds → γ (ds.dset.opU i d) = γ d * valC hs hsz hcov d i) :
    ∀ r ∈ TRel ds, FreeGroup.lift (val0 hs hsz hcov γ) r = 1 := by
  have hitems : ∀ it ∈ spanningTree ds, it.2.2 = none ∧ FacetR ds it.1 it.2.1 := by
    intro it hit
    obtain ⟨hn, _⟩ := spanningTree_itemOk hs.set it hit
    exact ⟨hn, spanningTree_ok hs.set it hit hn⟩
  rintro r (((⟨d, i, hfac, rfl⟩ | ⟨it, hit, rfl⟩) | ⟨a, b, d, hab, hb, h1, h2, rfl⟩) | ⟨k, hk, rfl⟩)
  · have hb' := hs.set.range i d hfac.2.2 hfac.1 hfac.2.1
    rw [map_mul, lift_val0_xg hs hsz hcov γ hfac, lift_val0_xg hs hsz hcov γ ⟨hb'.1, hb'.2, hfac.2.2⟩,
      ← opT_eq hfac.2.2 hfac.1 hfac.2.1, valG_pair]
    group
  · obtain ⟨hn, hfac⟩ := hitems it hit
    rw [lift_val0_xg hs hsz hcov γ hfac]
    have hmem : (it.1, it.2.1, none) ∈ spanningTree ds := by
      have : it = (it.1, it.2.1, none) := by
        rcases it with ⟨x, y, z⟩
        simp only at hn
        rw [hn]
      rw [← this]; exact hit
    exact valG_tree hs hsz hcov hγ hmem hfac
  · rw [map_pow]
    unfold OW
    rw [map_Wf]
    have ha : a ≤ ds.dim := by omega
    have hcongr := (Wf_congr (opT ds) (fun d i => FreeGroup.lift (val0 hs hsz hcov γ) (xg ds d i))
      (valG hs hsz hcov γ) (fun x => 1 ≤ x ∧ x ≤ ds.size) (a := a) (b := b)
      (fun x hx => ⟨opT_range hs.set hx.1 hx.2, opT_range hs.set hx.1 hx.2⟩)
      (fun x hx => ⟨lift_val0_xg hs hsz hcov γ ⟨hx.1, hx.2, ha⟩,
        lift_val0_xg hs hsz hcov γ ⟨hx.1, hx.2, hb⟩⟩) (2 * orbR ds a b d) d ⟨h1, h2⟩).1
    rw [hcongr]
    exact valG_orbit hs hsz hcov γ ha hb h1 h2
  · rw [FreeGroup.lift_apply_of]
    unfold val0
    rw [if_neg hk]

end cover

end DSymVerif.CoversP
