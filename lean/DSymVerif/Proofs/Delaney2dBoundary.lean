/-
Helper lemmas for property C08, part 14: `trace_boundary` as a whole — every mirror end is marked
exactly once, and the corners it returns are the branching numbers > 1 of the marked darts.
-/
import DSymVerif.Proofs.Delaney2dTrace
import DSymVerif.Proofs.CoversOriented

namespace DSymVerif.D2
open DSymVerif.DS

/-! ### `best_cyclic`, `sort` + `reverse` only permute -/

theorem lexMax_mem : ∀ (l : List (List Nat)), l ≠ [] → lexMax l ∈ l
  | [], h => absurd rfl h
  | x :: xs, _ => by
    show xs.foldl (fun m y => if lexLt y m then m else y) x ∈ x :: xs
    have key : ∀ (ys : List (List Nat)) (m : List Nat),
        ys.foldl (fun m y => if lexLt y m then m else y) m = m ∨
        ys.foldl (fun m y => if lexLt y m then m else y) m ∈ ys := by
      intro ys
      induction ys with
      | nil => intro m; exact Or.inl rfl
      | cons y ys ih =>
        intro m
        simp only [List.foldl_cons]
        split
        · rcases ih m with h | h
          · exact Or.inl h
          · exact Or.inr (List.mem_cons_of_mem _ h)
        · rcases ih y with h | h
          · right; rw [h]; exact List.mem_cons_self
          · exact Or.inr (List.mem_cons_of_mem _ h)
    rcases key xs x with h | h
    · rw [h]; exact List.mem_cons_self
    · exact List.mem_cons_of_mem _ h

theorem bestCyclic_perm (c : List Nat) : (bestCyclic c).Perm c := by
  unfold bestCyclic
  by_cases hc : c = []
  · subst hc; exact List.Perm.refl _
  · have hne : rotations c ≠ [] := by
      unfold rotations
      intro h
      have := congrArg List.length h
      simp at this
      exact hc this
    have hm := lexMax_mem (rotations c) hne
    unfold rotations at hm
    obtain ⟨i, _, hi⟩ := List.mem_map.1 hm
    unfold rotations
    rw [← hi]
    refine List.perm_append_comm.trans ?_
    rw [List.take_append_drop]

theorem insertDesc_perm (x : List Nat) (l : List (List Nat)) : (insertDesc x l).Perm (x :: l) := by
  induction l with
  | nil => exact List.Perm.refl _
  | cons y ys ih =>
    unfold insertDesc
    split
    · exact (List.Perm.cons y ih).trans (List.Perm.swap x y ys)
    · exact List.Perm.refl _

theorem sortDesc_perm (l : List (List Nat)) : (sortDesc l).Perm l := by
  induction l with
  | nil => exact List.Perm.refl _
  | cons x xs ih =>
    show (insertDesc x (sortDesc xs)).Perm (x :: xs)
    exact (insertDesc_perm x _).trans (List.Perm.cons x ih)

/-- the corner word read along the walk of length `n` from `σ` -/
def seqOf (y : DSymData) (σ : Dart) (n : Nat) : List Nat := ((dlist y σ n).map (vOf y)).filter (· > 1)

/-- the record of the traces: every result entry is `best_cyclic` of the corner word of one closed
    walk, and the marked darts are the darts of these walks -/
structure StartsOK (y : DSymData) (result : List (List Nat)) (M : List Dart) (starts : List (Dart × Nat)) : Prop where
  ok : ∀ p ∈ starts, ValidDart y p.1 ∧ 0 < p.2 ∧ (phi y)^[p.2] p.1 = p.1
  res : result = starts.map fun p => bestCyclic (seqOf y p.1 p.2)
  eqM : M = starts.reverse.flatMap fun p => (dlist y p.1 p.2).reverse
  pos : ∀ p ∈ starts, Positive y p.1

theorem StartsOK.mem {y : DSymData} {result : List (List Nat)} {M : List Dart} {starts : List (Dart × Nat)}
    (h : StartsOK y result M starts) (δ : Dart) : δ ∈ M ↔ ∃ p ∈ starts, δ ∈ dlist y p.1 p.2 := by
  rw [h.eqM]
  simp only [List.mem_flatMap, List.mem_reverse]

/-! ### extending the marked set by one complete trace -/

section
variable {y : DSymData} (h : ValidSym y) (hdim : y.dim = 2)
include h hdim

theorem marked_extend {M : List Dart} (hM : Marked y M) {δ0 : Dart} (h0 : ValidDart y δ0) {n : Nat}
    (hn : 0 < n) (hcl : (phi y)^[n] δ0 = δ0)
    (hnd : (((dlist y δ0 n).reverse.map Dart.le) ++ M.map Dart.le).Nodup) :
    Marked y ((dlist y δ0 n).reverse ++ M) := by
  have hback : ∀ a : Dart, ValidDart y a → tau y (rho (phi y a)) = a := by
    intro a ha
    rw [phi_eq h.set hdim ha, (rho_valid (tau_spec h.set hdim ha .partialSym).1).2.1, tau_invol h.set hdim]
  refine ⟨?_, ?_, ?_, by rw [List.map_append]; exact hnd⟩
  · intro δ hδ
    rcases List.mem_append.1 hδ with hδ | hδ
    · obtain ⟨p, _, rfl⟩ := mem_dlist.1 (List.mem_reverse.1 hδ)
      exact phi_iter_valid h.set hdim h0 p
    · exact hM.valid δ hδ
  · intro δ hδ
    rcases List.mem_append.1 hδ with hδ | hδ
    · obtain ⟨p, hp, rfl⟩ := mem_dlist.1 (List.mem_reverse.1 hδ)
      apply List.mem_append.2; left
      apply List.mem_reverse.2
      rw [← Function.iterate_succ_apply' (phi y)]
      by_cases hp' : p + 1 < n
      · exact mem_dlist.2 ⟨p + 1, hp', rfl⟩
      · have : p.succ = n := by omega
        rw [this, hcl]
        exact mem_dlist.2 ⟨0, hn, rfl⟩
    · exact List.mem_append.2 (Or.inr (hM.fwd δ hδ))
  · intro δ hδ
    rcases List.mem_append.1 hδ with hδ | hδ
    · obtain ⟨p, hp, rfl⟩ := mem_dlist.1 (List.mem_reverse.1 hδ)
      apply List.mem_append.2; left
      apply List.mem_reverse.2
      cases p with
      | zero =>
        -- the predecessor of δ0 is the last dart of the trace
        obtain ⟨q, rfl⟩ : ∃ q, n = q + 1 := ⟨n - 1, by omega⟩
        have : tau y (rho ((phi y)^[0] δ0)) = (phi y)^[q] δ0 := by
          show tau y (rho δ0) = _
          conv_lhs => rw [← hcl, Function.iterate_succ_apply']
          exact hback _ (phi_iter_valid h.set hdim h0 q)
        rw [this]
        exact mem_dlist.2 ⟨q, by omega, rfl⟩
      | succ p =>
        rw [Function.iterate_succ_apply', hback _ (phi_iter_valid h.set hdim h0 p)]
        exact mem_dlist.2 ⟨p, by omega, rfl⟩
    · exact List.mem_append.2 (Or.inr (hM.bwd δ hδ))

/-! ### one iteration of the two nested loops -/

/-- the state between two iterations -/
structure TraceInv (st : TraceState) (M : List Dart) : Prop where
  marked : Marked y M
  seen : st.seen = M.map Dart.le
  result : st.result.flatten.Perm ((M.map (vOf y)).filter (· > 1))
  /-- the record of the traces made so far: start dart and length of the walk -/
  starts : ∃ starts : List (Dart × Nat), StartsOK y st.result M starts

theorem traceStep_spec (rep : Rep) {st : TraceState} {M : List Dart} (inv : TraceInv (y := y) st M)
    {i d : Nat} (hi : i ≤ 2) (hd : 1 ≤ d ∧ d ≤ y.size) :
    ∃ st' M', traceStep ⟨y, rep⟩ y.view.partialOrientation st i d = .ok st' ∧ TraceInv (y := y) st' M' ∧
      (∀ p ∈ st.seen, p ∈ st'.seen) ∧ (y.dset.opU i d = d → (i, d) ∈ st'.seen) := by
  have hop : (⟨y, rep⟩ : Sym).op i d = some (y.dset.opU i d) :=
    opSimple_eq_some.2 ⟨by show i ≤ y.dim; omega, hd.1, hd.2, rfl⟩
  unfold traceStep
  by_cases hskip : ((⟨y, rep⟩ : Sym).op i d != some d || st.seen.contains (i, d)) = true
  · rw [if_pos hskip]
    refine ⟨st, M, rfl, inv, fun p hp => hp, ?_⟩
    intro hl
    rw [hop, hl] at hskip
    simpa using hskip
  · rw [if_neg hskip]
    rw [hop] at hskip
    simp only [Bool.or_eq_true, bne_iff_ne, ne_eq, Option.some.injEq, not_or, not_not,
      Bool.not_eq_true] at hskip
    obtain ⟨hloop, hunseen⟩ := hskip
    have hpin : y.view.PInvol := by rw [y.view_eq]; exact h.set.pinvol
    have hori := partialOrientation_total hpin d hd.1 hd.2
    -- the start dart
    have hkcases : ∃ k, k ≤ 2 ∧ k ≠ i ∧ k = kplus y i d ∧
        (match y.view.partialOrientation.getD d 0 with
         | 0 => (Outcome.panic : Outcome TraceState)
         | sg =>
           match traceLoop ⟨y, rep⟩ (3 * (⟨y, rep⟩ : Sym).size + 4) i
               (if sg = 1 then (i + 1) % 3 else (i + 2) % 3) d [] st.seen with
           | .ok (corners, seen) => .ok { result := st.result ++ [bestCyclic corners], seen := seen }
           | .err => .err
           | .panic => .panic) =
        (match traceLoop ⟨y, rep⟩ (3 * y.size + 4) i k d [] st.seen with
           | .ok (corners, seen) => .ok { result := st.result ++ [bestCyclic corners], seen := seen }
           | .err => .err
           | .panic => .panic) := by
      rcases hori with ho | ho
      · refine ⟨(i + 1) % 3, by omega, by omega, ?_, ?_⟩
        · unfold kplus posB; rw [ho]; rfl
        · rw [ho]; rfl
      · refine ⟨(i + 2) % 3, by omega, by omega, ?_, ?_⟩
        · unfold kplus posB; rw [ho]; rfl
        · rw [ho]; rfl
    obtain ⟨k, hk2, hki, hkpos, hmatch⟩ := hkcases
    show ∃ st' M', (match y.view.partialOrientation.getD d 0 with
         | 0 => (Outcome.panic : Outcome TraceState)
         | sg =>
           match traceLoop ⟨y, rep⟩ (3 * (⟨y, rep⟩ : Sym).size + 4) i
               (if sg = 1 then (i + 1) % 3 else (i + 2) % 3) d [] st.seen with
           | .ok (corners, seen) => .ok { result := st.result ++ [bestCyclic corners], seen := seen }
           | .err => .err
           | .panic => .panic) = .ok st' ∧ _
    rw [hmatch]
    have h0 : ValidDart y (i, k, d) := ⟨hi, hk2, fun e => hki e.symm, hd.1, hd.2, hloop⟩
    have hnd0 : ((((phi y)^[0] (i, k, d) : Dart)).le ::
        (((dlist y (i, k, d) 0).reverse.map Dart.le) ++ M.map Dart.le)).Nodup := by
      show ((i, d) :: ([] ++ M.map Dart.le)).Nodup
      rw [List.nil_append, List.nodup_cons, ← inv.seen]
      refine ⟨?_, by rw [inv.seen]; exact inv.marked.nodup⟩
      intro hmem
      have : st.seen.contains (i, d) = true := by simpa using hmem
      rw [hunseen] at this; cases this
    obtain ⟨n, hn, hcl, hrun, hndn⟩ := trace_run h hdim rep inv.marked h0 (3 * y.size + 4) 0 [] hnd0
      (by omega)
    have hrun' : traceLoop ⟨y, rep⟩ (3 * y.size + 4) i k d [] st.seen =
        .ok ([] ++ ((((dlist y (i, k, d) n).drop 0).map (vOf y)).filter (· > 1)),
             ((dlist y (i, k, d) n).reverse.map Dart.le) ++ M.map Dart.le) := by
      rw [inv.seen]; exact hrun
    rw [hrun']
    simp only [List.nil_append, List.drop_zero]
    have hM' := marked_extend h hdim inv.marked h0 hn hcl hndn
    obtain ⟨starts, hst⟩ := inv.starts
    refine ⟨_, (dlist y (i, k, d) n).reverse ++ M, rfl, ⟨hM', ?_, ?_, ?_⟩, ?_, ?_⟩
    · show _ = ((dlist y (i, k, d) n).reverse ++ M).map Dart.le
      rw [List.map_append]
    · show (st.result ++ [bestCyclic _]).flatten.Perm _
      rw [List.flatten_append, List.map_append, List.filter_append]
      simp only [List.flatten_cons, List.flatten_nil, List.append_nil]
      refine (List.Perm.append inv.result (bestCyclic_perm _)).trans ?_
      refine List.perm_append_comm.trans (List.Perm.append_right _ ?_)
      exact (List.Perm.filter _ ((List.reverse_perm _).map _)).symm
    · refine ⟨starts ++ [((i, k, d), n)], ?_, ?_, ?_, ?_⟩
      · intro p hp
        rcases List.mem_append.1 hp with hp | hp
        · exact hst.ok p hp
        · simp only [List.mem_singleton] at hp
          subst hp
          exact ⟨h0, hn, hcl⟩
      · show st.result ++ [bestCyclic _] = _
        rw [List.map_append, ← hst.res]
        rfl
      · rw [List.reverse_append, List.flatMap_append, ← hst.eqM]
        simp
      · intro p hp
        rcases List.mem_append.1 hp with hp | hp
        · exact hst.pos p hp
        · simp only [List.mem_singleton] at hp
          subst hp
          exact hkpos
    · intro p hp
      show p ∈ ((dlist y (i, k, d) n).reverse.map Dart.le) ++ M.map Dart.le
      rw [← inv.seen]
      exact List.mem_append.2 (Or.inr hp)
    · intro _
      show (i, d) ∈ ((dlist y (i, k, d) n).reverse.map Dart.le) ++ M.map Dart.le
      apply List.mem_append.2; left
      apply List.mem_map.2
      exact ⟨(i, k, d), List.mem_reverse.2 (mem_dlist.2 ⟨0, hn, rfl⟩), rfl⟩

theorem trace_fold (rep : Rep) : ∀ (keys : List (Nat × Nat)) (st : TraceState) (M : List Dart),
    TraceInv (y := y) st M → (∀ k ∈ keys, k.1 ≤ 2 ∧ 1 ≤ k.2 ∧ k.2 ≤ y.size) →
    ∃ st' M', keys.foldl (fun (acc : Outcome TraceState) k =>
        match acc with
        | .ok st => traceStep ⟨y, rep⟩ y.view.partialOrientation st k.1 k.2
        | o => o) (.ok st) = .ok st' ∧ TraceInv (y := y) st' M' ∧
      (∀ p ∈ st.seen, p ∈ st'.seen) ∧
      (∀ k ∈ keys, y.dset.opU k.1 k.2 = k.2 → k ∈ st'.seen) := by
  intro keys
  induction keys with
  | nil => intro st M inv _; exact ⟨st, M, rfl, inv, fun p hp => hp, fun k hk => by simp at hk⟩
  | cons k keys ih =>
    intro st M inv hk
    obtain ⟨hk1, hk2, hk3⟩ := hk k (by simp)
    obtain ⟨st1, M1, hs1, inv1, hmono1, hloop1⟩ := traceStep_spec h hdim rep inv hk1 ⟨hk2, hk3⟩
    obtain ⟨st2, M2, hs2, inv2, hmono2, hloop2⟩ := ih st1 M1 inv1 (fun k' hk' => hk k' (by simp [hk']))
    refine ⟨st2, M2, ?_, inv2, fun p hp => hmono2 p (hmono1 p hp), ?_⟩
    · simp only [List.foldl_cons]
      rw [hs1]; exact hs2
    · intro k' hk' hl
      rcases List.mem_cons.1 hk' with rfl | hk'
      · exact hmono2 _ (hloop1 hl)
      · exact hloop2 k' hk' hl

/-- **`trace_boundary` marks every mirror end exactly once**: it returns (no panic), and there is
    a list `M` of darts, one at every mirror end, closed under the boundary walk, such that the
    returned corners (all boundary components together) are the branching numbers > 1 read at
    the darts of `M` -/
theorem traceBoundary_marked (rep : Rep) :
    ∃ bnds M, traceBoundary ⟨y, rep⟩ = .ok bnds ∧ Marked y M ∧
      bnds.flatten.Perm ((M.map (vOf y)).filter (· > 1)) ∧
      (∀ i d, i ≤ 2 → 1 ≤ d → d ≤ y.size → y.dset.opU i d = d → (i, d) ∈ M.map Dart.le) ∧
      ∃ result starts, bnds = sortDesc result ∧ StartsOK y result M starts := by
  have inv0 : TraceInv (y := y) { result := [], seen := [] } [] :=
    ⟨⟨fun δ hδ => by simp at hδ, fun δ hδ => by simp at hδ, fun δ hδ => by simp at hδ, List.nodup_nil⟩,
     rfl, List.Perm.refl _, ⟨[], fun p hp => by simp at hp, rfl, rfl, fun p hp => by simp at hp⟩⟩
  have hkeys : ∀ k ∈ ((List.range (y.dim + 1)).flatMap fun i => (List.range y.size).map fun d0 => (i, d0 + 1)),
      k.1 ≤ 2 ∧ 1 ≤ k.2 ∧ k.2 ≤ y.size := by
    intro k hk
    simp only [List.mem_flatMap, List.mem_range, List.mem_map] at hk
    obtain ⟨i, hi, d0, hd0, rfl⟩ := hk
    exact ⟨by omega, by simp, by simp; omega⟩
  obtain ⟨st, M, hs, inv, _, hall⟩ := trace_fold h hdim rep _ _ _ inv0 hkeys
  obtain ⟨starts, hst⟩ := inv.starts
  refine ⟨sortDesc st.result, M, ?_, inv.marked, ?_, ?_, st.result, starts, rfl, hst⟩
  · unfold traceBoundary
    have hview : (⟨y, rep⟩ : Sym).view = y.view := rfl
    have hd : (⟨y, rep⟩ : Sym).dim = y.dim := rfl
    have hsz : (⟨y, rep⟩ : Sym).size = y.size := rfl
    simp only [hview, hd, hsz]
    split
    · rename_i st0 heq
      have e : Outcome.ok st0 = Outcome.ok st := heq.symm.trans hs
      cases e; rfl
    · rename_i heq
      have e : Outcome.err = Outcome.ok st := heq.symm.trans hs
      cases e
    · rename_i heq
      have e : Outcome.panic = Outcome.ok st := heq.symm.trans hs
      cases e
  · exact ((sortDesc_perm _).flatten).trans inv.result
  · intro i d hi h1 h2 hl
    rw [← inv.seen]
    apply hall (i, d) _ hl
    simp only [List.mem_flatMap, List.mem_range, List.mem_map]
    exact ⟨i, by omega, d - 1, by omega, by simp; omega⟩

end

end DSymVerif.D2
