/-
C13, totality of the model of `stabilizer`: on a valid table and a base row that is a row, no
modelled panic occurs and no fuel is exhausted (`stabilizer_total`).
-/
import DSymVerif.Proofs.StabilizerFuel
import DSymVerif.Proofs.StabilizerPresentation

set_option linter.unusedSectionVars false
set_option linter.unusedVariables false

namespace DSymVerif.StabP
open DSymVerif DSymVerif.SpecC11 DSymVerif.CosetP DSymVerif.FWP DSymVerif.Cosets
open DSymVerif.Stab hiding traceWord

/-! ### totality of `stabilizer`

The value-free part of the invariant (`EInv` without the group equations) is obtained by running
the same lemmas in the trivial group `⟨1..n | 1, 2, …, n⟩`, where every equation holds. -/

section Total
variable {t : Tab} {n : Nat}

/-- relators making every generator trivial -/
def killAll (n : Nat) : List (List Int) := (List.range n).map fun i => [((i + 1 : Nat) : Int)]

theorem mkG_killAll_letter {g : Int} (hg : g ∈ letters n) : mkG n (killAll n) [g] = 1 := by
  rw [mem_letters] at hg
  rcases hg with h | h
  · apply mkG_rel
    unfold killAll
    simp only [List.mem_map, List.mem_range]
    exact ⟨g.toNat - 1, by omega, by congr 1; omega⟩
  · have h1 : mkG n (killAll n) [-g] = 1 := by
      apply mkG_rel
      unfold killAll
      simp only [List.mem_map, List.mem_range]
      exact ⟨(-g).toNat - 1, by omega, by congr 1; omega⟩
    have h2 := mkG_neg n (killAll n) (-g)
    rw [neg_neg, h1, inv_one] at h2
    exact h2

theorem mkG_killAll : ∀ (v : List Int), (∀ g ∈ v, g ∈ letters n) → mkG n (killAll n) v = 1
  | [], _ => mkG_nil _ _
  | g :: v, h => by
    have : mkG n (killAll n) (g :: v) = mkG n (killAll n) [g] * mkG n (killAll n) v := by
      rw [← mkG_append]; rfl
    rw [this, mkG_killAll_letter (h g (by simp)), mkG_killAll v (fun g' hg' => h g' (by simp [hg'])), one_mul]

theorem killAll_trivial (x y : GP n (killAll n)) : x = y := by
  obtain ⟨v, hv, rfl⟩ := exists_word (n := n) (rels := killAll n) x
  obtain ⟨w, hw, rfl⟩ := exists_word (n := n) (rels := killAll n) y
  rw [mkG_killAll v hv, mkG_killAll w hw]

theorem rbgOk_killAll {rels : List (List Int)} {rbg : RelMap} (h : RbgOk t n rels rbg) :
    RbgOk t n (killAll n) rbg :=
  fun gen rs hl r hr => ⟨killAll_trivial _ _, (h gen rs hl r hr).closes⟩

theorem genFold_total (hcomp : complete t n = true) (hinv : InvConsistent t n) {rbg : RelMap}
    (hrbg : RbgOk t n (killAll n) rbg) {p2w : PMap} (hkeys : ∀ x, x < t.size → (pLookup x p2w).isSome = true)
    {u : Nat → List Int} {G : List (List Int)} :
    ∀ (ps : List (Nat × Int)) (e : EMap) (gs : List (List Int)),
      (∀ px g, (px, g) ∈ ps → ∃ d, entry t n px g = some d) → EInv t n (killAll n) u G e →
      ∃ e' gs', genFold (Table.ofView n t) rbg p2w ps e gs = .ok (e', gs')
  | [], e, gs, _, _ => ⟨e, gs, rfl⟩
  | (px, g) :: r, e, gs, hps, he => by
    obtain ⟨d, hent⟩ := hps px g (by simp)
    have hps' : ∀ px' g', (px', g') ∈ r → ∃ d, entry t n px' g' = some d :=
      fun px' g' hm => hps px' g' (by simp [hm])
    simp only [genFold]
    cases hk : e.get px g with
    | some W => exact genFold_total hcomp hinv hrbg hkeys r e gs hps' he
    | none =>
      simp only
      have h1 := hkeys px (entry_some hent).2.1
      have h2 := hkeys d (entry_some hent).1
      cases hx : pLookup px p2w with
      | none => simp [hx] at h1
      | some wx =>
        cases hy : pLookup d p2w with
        | none => simp [hy] at h2
        | some wy =>
          simp only [get_ofView hent, hy]
          obtain ⟨e1, hcl⟩ := closeRelations_total hcomp hinv hrbg he hent
            (w := FW.new [((gs ++ [schreierGen wx g wy]).length : Int)]) (killAll_trivial _ _)
          obtain ⟨g1, _, _⟩ := closeRelations_inv hcomp hinv hrbg he hent (killAll_trivial _ _) hcl
          rw [hcl]
          exact genFold_total hcomp hinv hrbg hkeys r e1 _ hps' g1

theorem subrelFold_total (hcomp : complete t n = true) (e2 : EMap) :
    ∀ (ps : List (Nat × List Int)) (acc : List (List Int)),
      (∀ p r, (p, r) ∈ ps → ∃ d, traceWord t n p r = some d) →
      ∃ res, subrelFold (Table.ofView n t) e2 ps acc = .ok res
  | [], acc, _ => ⟨acc, rfl⟩
  | (p, r) :: rest, acc, hps => by
    obtain ⟨d, hd⟩ := hps p r (by simp)
    obtain ⟨T, hT, _⟩ := traceWord_vol (rels := killAll n) (gens := []) hcomp e2 r p d FW.empty hd
    simp only [subrelFold, hT]
    split
    · exact subrelFold_total hcomp e2 rest _ (fun p' r' hm => hps p' r' (by simp [hm]))
    · exact subrelFold_total hcomp e2 rest _ (fun p' r' hm => hps p' r' (by simp [hm]))

/-- ✔ the model of `stabilizer` terminates without panic on every valid table and base row -/
theorem stabilizer_total (hcomp : complete t n = true) {rels subs : List (List Int)}
    (hv : Valid t n rels subs) {base : Nat} (hb : base < t.size) :
    ∃ gens srels, stabilizer base rels (Table.ofView n t) = .ok (gens, srels) := by
  have hinv : InvConsistent t n := hv.inv
  have hl : ∀ rel ∈ rels, ∀ g ∈ rel, g ∈ letters n :=
    fun rel hrel => trace_letters (hv.rel rel hrel 0 hv.pos)
  unfold stabilizer
  obtain ⟨rbg, h1⟩ := rbgRels_total rels []
  have h1' : relatorsByStartGen rels = .ok rbg := h1
  have hrbg := rbgOk_killAll (rbgOk_of_start hv hl h1')
  obtain ⟨edges, R, hsp, hwalk, hbR, hRlt, hRcl⟩ := spanningTree_spec hcomp hb
  simp only [h1', hsp]
  have hk0 : PKeys [(base, FW.empty)] [base] := by
    intro k
    simp only [pLookup, List.mem_singleton]
    by_cases e : base = k
    · simp [e]
    · simp only [e, if_false]
      constructor
      · intro hh; cases hh
      · intro hh; exact absurd hh.symm e
  obtain ⟨pF, hpF, hkeys, _, hedge⟩ := p2wFold_spec edges [base] R _ hwalk hk0
  have he0 : EInv t n (killAll n) (fun _ => []) [] (EMap.new (Table.ofView n t).nrGens) :=
    ⟨rfl, fun c g d W _ hW => by rw [EMap.get_new] at hW; cases hW⟩
  obtain ⟨e1, h3⟩ := treeFold_total (u := fun _ => []) (gens := []) hcomp hinv hrbg edges _ _ pF hpF
    (fun pt gen hm => by
      obtain ⟨tgt, w, hent, _, _⟩ := hedge pt gen hm
      exact ⟨tgt, hent, killAll_trivial _ _⟩) he0
  simp only [h3]
  obtain ⟨he1, _⟩ := treeFold_einv hcomp hinv hrbg edges _ _ e1 pF
    (fun pt gen hm => by
      obtain ⟨tgt, w, hent, _, _⟩ := hedge pt gen hm
      exact ⟨tgt, hent, killAll_trivial _ _⟩) he0 h3
  -- every row has a point word: the tree is spanning
  have hall : ∀ x, x < t.size → x ∈ R := by
    intro x hx
    obtain ⟨wb, hwb⟩ := hv.conn base hb
    obtain ⟨wx, hwx⟩ := hv.conn x hx
    have h0 : 0 ∈ R := closed_trace hRcl _ base 0 hbR (trace_inverse hinv wb 0 base hwb)
    exact closed_trace hRcl wx 0 x h0 hwx
  obtain ⟨e2, gens, h4⟩ := genFold_total hcomp hinv hrbg (fun x hx => (hkeys x).mpr (hall x hx))
    (genPairs (Table.ofView n t)) e1 []
    (fun px g hm => complete_spec hcomp (mem_genPairs.mp hm).1 (mem_genPairs.mp hm).2) he1
  simp only [h4]
  have hlen : (Table.ofView n t).len = t.size := by simp [Table.len, Table.ofView]
  obtain ⟨sub, h5⟩ := subrelFold_total hcomp e2 (subrelPairs (Table.ofView n t) rels) [] (by
    intro p r hm
    unfold subrelPairs at hm
    simp only [List.mem_flatMap, List.mem_range, List.mem_map, Prod.mk.injEq, hlen] at hm
    obtain ⟨a, ha, b, hb', rfl, rfl⟩ := hm
    exact ⟨a, hv.rel b hb' a ha⟩)
  simp only [h5]
  exact ⟨gens, sortDescending sub, rfl⟩

end Total

end DSymVerif.StabP
