/-
Lemmas for property C07, phase 2, part 5: **one symbol per isomorphism class**.  Two branching
vectors on the same D-set give isomorphic symbols iff they are related by an orbit map (an
isomorphism between symbols on the same D-set is an automorphism of the D-set transporting the
branching numbers), hence — the orbit maps being a group — no two emitted symbols are isomorphic.
-/
import DSymVerif.Proofs.DSymGenGroup
import DSymVerif.Proofs.DSymGenTree

namespace DSymVerif.SymGen
open DSymVerif.DS DSymVerif.Mor

/-- the symbols (`ds`, `ws`) and (`ds`, `vs`) are isomorphic: an automorphism `f` of the D-set with
    v_ws(i, d) = v_vs(i, f d) for every chamber and every pair (i, i+1) -/
def SymIso (ds : DSetData) (c : Ctx) (vs ws : List Nat) : Prop :=
  ∃ f, IsAut ds f ∧ ∀ i d, i < ds.dim → 1 ≤ d → d ≤ ds.size →
    ws.getD (ixOf c.orbitIndex i d) 0 = vs.getD (ixOf c.orbitIndex i (f d)) 0

theorem symIso_iff_act {ds : DSetData} {c : Ctx} {ms : List (List Nat)}
    (ok : IndexOK ds c.orbitIndex c.count)
    (hA : ∀ m, m ∈ ms → ∃ f, IsAut ds f ∧ Induces ds c.orbitIndex c.count f m)
    (hB : ∀ f, IsAut ds f → ∃ m, m ∈ ms ∧ Induces ds c.orbitIndex c.count f m)
    (vs ws : List Nat) (hv : vs.length = c.count) (hw : ws.length = c.count) :
    SymIso ds c vs ws ↔ ∃ m, m ∈ ms ∧ ws = act m vs := by
  constructor
  · rintro ⟨f, hf, hv'⟩
    obtain ⟨m, hm, hind⟩ := hB f hf
    refine ⟨m, hm, ?_⟩
    apply list_ext_getD _ _ (by rw [act_length, hw, hv])
    intro k hk
    have hk' : k < c.count := by omega
    obtain ⟨i, d, hi, h1, h2, hx⟩ := ok.surj k hk'
    rw [act_getD _ _ k (by omega), ← hx, hind.2 i d hi h1 h2]
    exact hv' i d hi h1 h2
  · rintro ⟨m, hm, rfl⟩
    obtain ⟨f, hf, hind⟩ := hA m hm
    refine ⟨f, hf, fun i d hi h1 h2 => ?_⟩
    rw [act_getD _ _ _ (by rw [hv]; exact ok.lt i d hi h1 h2), hind.2 i d hi h1 h2]

/-- **no two emitted symbols are isomorphic** -/
theorem emitted_not_isomorphic {ds : DSetData} {g : Geom} {c : Ctx} (h : mkCtx ds g = .ok c)
    (hds : ValidSet ds) (hc : ds.viewSimple.isConnected = true) (h1 : 1 ≤ ds.size)
    (hnb : ¬ c.baseCurv < 0) (vs ws : List Nat)
    (hvs : Outcome.ok vs ∈ dsyms c) (hws : Outcome.ok ws ∈ dsyms c) (hiso : SymIso ds c vs ws) :
    vs = ws := by
  have hw := mkCtx_wf h
  obtain ⟨ms, hms, ok, hA, hB, hg⟩ := mkCtx_maps h hds hc h1 hnb
  obtain ⟨ha, _, _, _, _, hcv⟩ := (dsyms_mem_iff hw hnb vs).mp hvs
  obtain ⟨hb, _, _, _, _, hcw⟩ := (dsyms_mem_iff hw hnb ws).mp hws
  obtain ⟨m, hm, hact⟩ := (symIso_iff_act ok hA hB vs ws ha.1 hb.1).mp hiso
  obtain ⟨w, _, _, huniq⟩ := canonical_one_per_class hg vs ha.1
  obtain ⟨e, he, hone⟩ := hg.one
  unfold isCanonical at hcv hcw
  rw [hms] at hcv hcw
  have e1 := huniq vs ⟨e, he, (hone vs ha.1).symm⟩ hcv
  have e2 := huniq ws ⟨m, hm, hact⟩ hcw
  rw [e1, e2]

end DSymVerif.SymGen
