/-
The two field back-ends (`Entry for BigRational`, `Entry for PrimeResidueClass<P>`) are
safe for the generic elimination loop: `pivot_row` returns an in-range row with a
non-zero entry, `clear_col` divides by that entry only and leaves the pivot row alone.
-/
import DSymVerif.Proofs.Echelon
import DSymVerif.Proofs.PrimeResidue

namespace DSymVerif.LA

open DSymVerif

section field
variable {α : Type} {E Q : α → Prop} {zero : α} {sub mul div : α → α → Outcome α}

/-- scalar operations closed on `E`, division defined for divisors with `Q` -/
structure FieldOps (E Q : α → Prop) (zero : α) (sub mul div : α → α → Outcome α) : Prop where
  zero : E zero
  sub : ∀ a b, E a → E b → ∃ c, sub a b = .ok c ∧ E c
  mul : ∀ a b, E a → E b → ∃ c, mul a b = .ok c ∧ E c
  div : ∀ a b, E a → E b → Q b → ∃ c, div a b = .ok c ∧ E c

/-- the row loop `row1[k] -= row2[k] * f` -/
theorem fieldRowLoop_ok (hf : FieldOps E Q zero sub mul div) {nr n : Nat} (lo row1 row2 : Nat)
    (f : α) (hfE : E f) (a : Mat α nr n) (ha : AllE E a) (h1 : row1 < nr) (h2 : row2 < nr)
    (hne : row1 ≠ row2) :
    ∃ a', forRange lo n a (fun k a =>
        (a.get row1 k).bind fun v1 => (a.get row2 k).bind fun v2 =>
        (mul v2 f).bind fun p => (sub v1 p).bind fun d => a.set row1 k d) = .ok a' ∧
      AllE E a' ∧ a'[row2] = a[row2] := by
  apply forRange_ok lo n a _ (fun a' => AllE E a' ∧ a'[row2] = a[row2]) ⟨ha, rfl⟩
  intro k m _ hk ⟨hm, hrow⟩
  rw [Mat.get_ok m h1 hk, Mat.get_ok m h2 hk]
  simp only [bind_ok]
  obtain ⟨p, hp, hpE⟩ := hf.mul _ f (hm row2 k h2 hk) hfE
  rw [hp]
  simp only [bind_ok]
  obtain ⟨d, hd, hdE⟩ := hf.sub _ p (hm row1 k h1 hk) hpE
  rw [hd]
  simp only [bind_ok]
  refine ⟨_, Mat.set_ok m h1 hk d, hm.set h1 hk hdE, ?_⟩
  rw [Vector.getElem_set_ne _ _ hne]
  exact hrow

theorem fieldClearCol_ok (hf : FieldOps E Q zero sub mul div) {nr nc nx : Nat}
    (col row1 row2 : Nat) (a : Mat α nr nc) (x : Mat α nr nx) (ha : AllE E a) (hx : AllE E x)
    (hc : col < nc) (h1 : row1 < nr) (h2 : row2 < nr) (hne : row1 ≠ row2)
    (hq : Q ((a[row2])[col])) :
    ∃ a' x', fieldClearCol zero sub mul div col row1 row2 a x = .ok (a', x') ∧
      AllE E a' ∧ AllE E x' ∧ Q ((a'[row2])[col]) := by
  unfold fieldClearCol
  rw [Mat.get_ok a h1 hc, Mat.get_ok a h2 hc]
  simp only [bind_ok]
  obtain ⟨f, hfd, hfE⟩ := hf.div _ _ (ha row1 col h1 hc) (ha row2 col h2 hc) hq
  rw [hfd]
  simp only [bind_ok]
  rw [Mat.set_ok a h1 hc]
  simp only [bind_ok]
  have ha1 := ha.set h1 hc hf.zero
  obtain ⟨a', hl1, ha', hrow⟩ :=
    fieldRowLoop_ok hf (col + 1) row1 row2 f hfE _ ha1 h1 h2 hne
  rw [hl1]
  simp only [bind_ok]
  obtain ⟨x', hl2, hx', _⟩ := fieldRowLoop_ok hf 0 row1 row2 f hfE x hx h1 h2 hne
  rw [hl2]
  simp only [bind_ok]
  refine ⟨a', x', rfl, ha', hx', ?_⟩
  have : a'[row2] = a[row2] := by
    rw [hrow, Vector.getElem_set_ne _ _ hne]
  simp only [this]
  exact hq

end field

/-! ### BigRational -/

def QTrue : Q → Prop := fun _ => True
def QNonzero : Q → Prop := fun v => v.isZero = false

theorem rat_fieldOps : FieldOps QTrue QNonzero Q.zero
    (fun a b => .ok (Q.sub a b)) (fun a b => .ok (Q.mul a b)) Q.div where
  zero := trivial
  sub := fun a b _ _ => ⟨_, rfl, trivial⟩
  mul := fun a b _ _ => ⟨_, rfl, trivial⟩
  div := by
    intro a b _ _ hb
    have hb' : b.num ≠ 0 := by simpa [QNonzero, Q.isZero] using hb
    unfold Q.div
    simp only [hb', if_false]
    split <;> exact ⟨_, rfl, trivial⟩

theorem ratPivotRow_ok {nr nc : Nat} (col row0 : Nat) (a : Mat Q nr nc) (hc : col < nc)
    (h0 : row0 < nr) :
    ∃ r, ratPivotRow col row0 a = .ok r ∧
      ∀ pr, r = some pr → row0 ≤ pr ∧ ∃ h : pr < nr, QNonzero ((a[pr])[col]) := by
  unfold ratPivotRow
  obtain ⟨best, hb, hle, hlt⟩ := forRange_ok (row0 + 1) nr row0
    (fun row best =>
      (a.get row col).bind fun x => (a.get best col).bind fun y =>
      Outcome.ok (if Q.gt x.abs y.abs then row else best))
    (fun best => row0 ≤ best ∧ best < nr) ⟨Nat.le_refl _, h0⟩
    (by
      intro row best hr1 hr2 ⟨hb1, hb2⟩
      rw [Mat.get_ok a hr2 hc, Mat.get_ok a hb2 hc]
      simp only [bind_ok]
      split
      · exact ⟨row, rfl, by omega, hr2⟩
      · exact ⟨best, rfl, hb1, hb2⟩)
  rw [hb]
  simp only [bind_ok]
  rw [Mat.get_ok a hlt hc]
  simp only [bind_ok]
  refine ⟨_, rfl, ?_⟩
  intro pr hpr
  split at hpr
  · cases hpr
  · rename_i hz
    cases hpr
    exact ⟨hle, hlt, by simpa [QNonzero] using hz⟩

theorem rat_safe : Safe ratBackend QTrue QNonzero where
  zero := trivial
  one := trivial
  add := fun _ _ _ _ => ⟨_, rfl, trivial⟩
  sub := fun _ _ _ _ => ⟨_, rfl, trivial⟩
  mul := fun _ _ _ _ => ⟨_, rfl, trivial⟩
  neg := fun _ _ => ⟨_, rfl, trivial⟩
  canDivide := by
    intro a b ha hb
    refine ⟨!b.isZero, rfl, fun h => ?_⟩
    exact rat_fieldOps.div a b ha hb (by simpa [QNonzero] using h)
  pivot := by
    intro nr nc col row0 a _ hc h0
    exact ratPivotRow_ok col row0 a hc h0
  clear := by
    intro nr nc nx col row1 row2 a x ha hx hc h1 h2 hne hq
    exact fieldClearCol_ok rat_fieldOps col row1 row2 a x ha hx hc h1 h2 hne hq

/-! ### PrimeResidueClass<P> -/

/-- canonical representative -/
def Canon (p : ℕ) : Int → Prop := fun v => 0 ≤ v ∧ v < p
def PNonzero : Int → Prop := fun v => v ≠ 0

theorem allE_canon_map {p : ℕ} (hp : 0 < p) {nr nc : Nat} (m : Mat Int nr nc) :
    AllE (Canon p) (Mat.map (PRC.fromI64 p) m) := by
  intro i j hi hj
  simp only [Mat.map, Vector.getElem_map]
  exact ⟨PRC.fromI64_nonneg (by exact_mod_cast hp) _, PRC.fromI64_lt (by exact_mod_cast hp) _⟩

theorem prc_canon_ok {p : ℕ} (hp : 0 < p) {x : Int} (h1 : PRC.i64Min ≤ x) (h2 : x ≤ PRC.i64Max) :
    ∃ c, (PRC.chk x).bind (fun s => Outcome.ok (PRC.fromI64 p s)) = .ok c ∧ Canon p c := by
  rw [PRC.chk_ok h1 h2]
  exact ⟨_, rfl, PRC.fromI64_nonneg (by exact_mod_cast hp) _, PRC.fromI64_lt (by exact_mod_cast hp) _⟩

theorem prc_sub_ok {p : ℕ} (hp : 0 < p) (hpm : (p : ℤ) ≤ PRC.maxP) {a b : Int} (ha : Canon p a)
    (hb : Canon p b) : ∃ c, PRC.sub p a b = .ok c ∧ Canon p c := by
  unfold PRC.sub
  obtain ⟨ha0, ha1⟩ := ha
  obtain ⟨hb0, hb1⟩ := hb
  apply prc_canon_ok hp <;> simp only [PRC.i64Min, PRC.i64Max, PRC.maxP] at * <;> omega

theorem prc_add_ok {p : ℕ} (hp : 0 < p) (hpm : (p : ℤ) ≤ PRC.maxP) {a b : Int} (ha : Canon p a)
    (hb : Canon p b) : ∃ c, PRC.add p a b = .ok c ∧ Canon p c := by
  unfold PRC.add
  obtain ⟨ha0, ha1⟩ := ha
  obtain ⟨hb0, hb1⟩ := hb
  apply prc_canon_ok hp <;> simp only [PRC.i64Min, PRC.i64Max, PRC.maxP] at * <;> omega

theorem prc_neg_ok {p : ℕ} (hp : 0 < p) (hpm : (p : ℤ) ≤ PRC.maxP) {a : Int} (ha : Canon p a) :
    ∃ c, PRC.neg p a = .ok c ∧ Canon p c := by
  unfold PRC.neg
  obtain ⟨ha0, ha1⟩ := ha
  apply prc_canon_ok hp <;> simp only [PRC.i64Min, PRC.i64Max, PRC.maxP] at * <;> omega

theorem prc_mul_ok {p : ℕ} (hp : 0 < p) (hpm : (p : ℤ) ≤ PRC.maxP) {a b : Int} (ha : Canon p a)
    (hb : Canon p b) : ∃ c, PRC.mul p a b = .ok c ∧ Canon p c := by
  unfold PRC.mul
  obtain ⟨h1, h2⟩ := PRC.mul_in_range hpm ha.1 ha.2 hb.1 hb.2
  exact prc_canon_ok hp h1 h2

theorem prc_div_ok {p : ℕ} (hp : p.Prime) (hpm : (p : ℤ) ≤ PRC.maxP) {a b : Int} (ha : Canon p a)
    (hb : Canon p b) (hb0 : b ≠ 0) : ∃ c, PRC.div p a b = .ok c ∧ Canon p c := by
  unfold PRC.div
  obtain ⟨v, hv, hv0, hv1, _⟩ :=
    PRC.inverse_spec hp hpm (a := b) (by have := hb.1; omega) hb.2
  rw [hv]
  exact prc_mul_ok hp.pos hpm ha ⟨hv0, hv1⟩

theorem prc_fieldOps {p : ℕ} (hp : p.Prime) (hpm : (p : ℤ) ≤ PRC.maxP) :
    FieldOps (Canon p) PNonzero (PRC.zero p) (PRC.sub p) (PRC.mul p) (PRC.div p) where
  zero := ⟨PRC.fromI64_nonneg (by exact_mod_cast hp.pos) _, PRC.fromI64_lt (by exact_mod_cast hp.pos) _⟩
  sub := fun _ _ ha hb => prc_sub_ok hp.pos hpm ha hb
  mul := fun _ _ ha hb => prc_mul_ok hp.pos hpm ha hb
  div := fun _ _ ha hb hq => prc_div_ok hp hpm ha hb hq

theorem prcPivotLoop_ok {nr nc : Nat} (col : Nat) (a : Mat Int nr nc) (hc : col < nc) :
    ∀ (n row : Nat), row + n = nr →
      ∃ r, prcPivotLoop col a n row = .ok r ∧
        ∀ pr, r = some pr → row ≤ pr ∧ ∃ h : pr < nr, PNonzero ((a[pr])[col]) := by
  intro n
  induction n with
  | zero => intro row _; exact ⟨none, rfl, fun pr h => by cases h⟩
  | succ n ih =>
    intro row hrow
    have hr : row < nr := by omega
    unfold prcPivotLoop
    rw [Mat.get_ok a hr hc]
    simp only
    split
    · obtain ⟨r, h1, h2⟩ := ih (row + 1) (by omega)
      exact ⟨r, h1, fun pr h => ⟨by have := (h2 pr h).1; omega, (h2 pr h).2⟩⟩
    · rename_i hz
      refine ⟨some row, rfl, ?_⟩
      intro pr h
      cases h
      exact ⟨Nat.le_refl _, hr, by simpa [PNonzero, PRC.isZero] using hz⟩

theorem prc_safe {p : ℕ} (hp : p.Prime) (hpm : (p : ℤ) ≤ PRC.maxP) :
    Safe (prcBackend p) (Canon p) PNonzero where
  zero := by
    show Canon p (PRC.fromI64 p 0)
    exact ⟨PRC.fromI64_nonneg (by exact_mod_cast hp.pos) _, PRC.fromI64_lt (by exact_mod_cast hp.pos) _⟩
  one := by
    show Canon p (PRC.fromI64 p 1)
    exact ⟨PRC.fromI64_nonneg (by exact_mod_cast hp.pos) _, PRC.fromI64_lt (by exact_mod_cast hp.pos) _⟩
  add := fun _ _ ha hb => prc_add_ok hp.pos hpm ha hb
  sub := fun _ _ ha hb => prc_sub_ok hp.pos hpm ha hb
  mul := fun _ _ ha hb => prc_mul_ok hp.pos hpm ha hb
  neg := fun _ ha => prc_neg_ok hp.pos hpm ha
  canDivide := by
    intro a b ha hb
    refine ⟨!PRC.isZero b, rfl, fun h => ?_⟩
    exact prc_div_ok hp hpm ha hb (by simpa [PRC.isZero] using h)
  pivot := by
    intro nr nc col row0 a _ hc h0
    exact prcPivotLoop_ok col a hc (nr - row0) row0 (by omega)
  clear := by
    intro nr nc nx col row1 row2 a x ha hx hc h1 h2 hne hq
    exact fieldClearCol_ok (prc_fieldOps hp hpm) col row1 row2 a x ha hx hc h1 h2 hne hq

end DSymVerif.LA
