/-
The overflow-checked machine integer (`i64Backend PRC.chk`, the `i64` of the harness build:
every `+ - * / abs neg` followed by a range check, a failed check is a panic) *refines* the
idealised integer (`i64Backend .ok`): a run of any routine either panics or returns exactly
what the idealised run returns.  Proved once for two arbitrary range checks `c1`, `c2` with
`c1 x = panic ∨ c1 x = c2 x` (so it also gives: a run that stays inside a tighter bound `b`
is a run without `i64` overflow), by monotonicity of every combinator of the model.
-/
import DSymVerif.Proofs.Echelon

namespace DSymVerif.LA

open DSymVerif

/-- `x` refines `y`: `x` panics, or `x` is `y` -/
def Ref {α : Type} (x y : Outcome α) : Prop := x = .panic ∨ x = y

namespace Ref
variable {α β : Type}

theorem refl (x : Outcome α) : Ref x x := Or.inr rfl
theorem panic (y : Outcome α) : Ref .panic y := Or.inl rfl
theorem of_eq {x y : Outcome α} (h : x = y) : Ref x y := Or.inr h

theorem trans {x y z : Outcome α} (h1 : Ref x y) (h2 : Ref y z) : Ref x z := by
  rcases h1 with h | h
  · exact Or.inl h
  · subst h; exact h2

theorem bind {x y : Outcome α} {f g : α → Outcome β} (h : Ref x y)
    (hf : ∀ a, Ref (f a) (g a)) : Ref (x.bind f) (y.bind g) := by
  rcases h with h | h
  · subst h; exact Or.inl rfl
  · subst h
    cases x with
    | ok a => exact hf a
    | err => exact Or.inr rfl
    | panic => exact Or.inl rfl

theorem ite {c : Prop} [Decidable c] {a a' b b' : Outcome α} (h1 : c → Ref a b)
    (h2 : ¬ c → Ref a' b') : Ref (if c then a else a') (if c then b else b') := by
  by_cases h : c
  · simp only [h, if_true]; exact h1 h
  · simp only [h, if_false]; exact h2 h

theorem ok_eq {x y : Outcome α} (h : Ref x y) {v : α} (hx : x = .ok v) : y = .ok v := by
  rcases h with h | h
  · rw [h] at hx; cases hx
  · rw [← h]; exact hx

theorem err_eq {x y : Outcome α} (h : Ref x y) (hx : x = .err) : y = .err := by
  rcases h with h | h
  · rw [h] at hx; cases hx
  · rw [← h]; exact hx

end Ref

/-! ### loops -/

section loops
variable {σ α β : Type}

theorem forLoop_ref {f g : Nat → σ → Outcome σ} (h : ∀ k s, Ref (f k s) (g k s)) :
    ∀ (n k : Nat) (s : σ), Ref (forLoop f n k s) (forLoop g n k s) := by
  intro n
  induction n with
  | zero => intro k s; exact Ref.refl _
  | succ n ih =>
    intro k s
    unfold forLoop
    rcases h k s with hp | he
    · rw [hp]; exact Ref.panic _
    · rw [he]
      cases g k s with
      | ok s' => exact ih (k + 1) s'
      | err => exact Ref.refl _
      | panic => exact Ref.refl _

theorem forRange_ref {f g : Nat → σ → Outcome σ} (lo hi : Nat) (init : σ)
    (h : ∀ k s, Ref (f k s) (g k s)) : Ref (forRange lo hi init f) (forRange lo hi init g) :=
  forLoop_ref h _ _ _

theorem forDown_ref {f g : Nat → σ → Outcome σ} (h : ∀ k s, Ref (f k s) (g k s)) :
    ∀ (n : Nat) (s : σ), Ref (forDown f n s) (forDown g n s) := by
  intro n
  induction n with
  | zero => intro s; exact Ref.refl _
  | succ n ih =>
    intro s
    unfold forDown
    rcases h n s with hp | he
    · rw [hp]; exact Ref.panic _
    · rw [he]
      cases g n s with
      | ok s' => exact ih s'
      | err => exact Ref.refl _
      | panic => exact Ref.refl _

end loops

/-! ### `Entry for i64` under two range checks -/

section i64
variable {c1 c2 : Int → Outcome Int}

theorem gcdxLoop_ref (hc : ∀ x, Ref (c1 x) (c2 x)) :
    ∀ (fuel : Nat) (a an r rn s sn : Int),
      Ref (gcdxLoop c1 fuel a an r rn s sn) (gcdxLoop c2 fuel a an r rn s sn) := by
  intro fuel
  induction fuel with
  | zero => intro a an r rn s sn; exact Ref.refl _
  | succ f ih =>
    intro a an r rn s sn
    unfold gcdxLoop
    apply Ref.ite
    · intro _; exact Ref.refl _
    · intro _
      refine Ref.bind (hc _) fun q => Ref.bind (hc _) fun qa => Ref.bind (hc _) fun a2 =>
        Ref.bind (hc _) fun qr => Ref.bind (hc _) fun r2 => Ref.bind (hc _) fun qs =>
        Ref.bind (hc _) fun s2 => ih _ _ _ _ _ _

theorem gcdx_ref (hc : ∀ x, Ref (c1 x) (c2 x)) (a b : Int) : Ref (gcdx c1 a b) (gcdx c2 a b) :=
  gcdxLoop_ref hc _ _ _ _ _ _ _

theorem iabs_ref (hc : ∀ x, Ref (c1 x) (c2 x)) (x : Int) : Ref (iabs c1 x) (iabs c2 x) := hc _

theorem i64CanDivide_ref (hc : ∀ x, Ref (c1 x) (c2 x)) (a b : Int) :
    Ref (i64CanDivide c1 a b) (i64CanDivide c2 a b) := by
  unfold i64CanDivide
  apply Ref.ite
  · intro _; exact Ref.refl _
  · intro _
    exact Ref.bind (hc _) fun q => Ref.bind (hc _) fun qb => Ref.refl _

theorem i64PivotRow_ref (hc : ∀ x, Ref (c1 x) (c2 x)) {nr nc : Nat} (col row0 : Nat)
    (a : Mat Int nr nc) : Ref (i64PivotRow c1 col row0 a) (i64PivotRow c2 col row0 a) := by
  unfold i64PivotRow
  refine Ref.bind (forRange_ref _ _ _ fun row best => ?_) fun best => Ref.refl _
  refine Ref.bind (Ref.refl _) fun x => Ref.bind (Ref.refl _) fun y => ?_
  apply Ref.ite
  · intro _
    apply Ref.ite
    · intro _; exact Ref.refl _
    · intro _
      exact Ref.bind (iabs_ref hc _) fun ax => Ref.bind (iabs_ref hc _) fun ay => Ref.refl _
  · intro _; exact Ref.refl _

theorem i64ClearRowPair_ref (hc : ∀ x, Ref (c1 x) (c2 x)) {nr n : Nat} (lo row1 row2 : Nat)
    (det r s t u : Int) (a : Mat Int nr n) :
    Ref (i64ClearRowPair c1 lo row1 row2 det r s t u a)
      (i64ClearRowPair c2 lo row1 row2 det r s t u a) := by
  unfold i64ClearRowPair
  refine forRange_ref _ _ _ fun k a => ?_
  refine Ref.bind (Ref.refl _) fun x2 => Ref.bind (Ref.refl _) fun x1 =>
    Ref.bind (hc _) fun p1 => Ref.bind (hc _) fun p2 => Ref.bind (hc _) fun sm =>
    Ref.bind (hc _) fun tmp => Ref.bind (Ref.refl _) fun y2 => Ref.bind (Ref.refl _) fun y1 =>
    Ref.bind (hc _) fun p3 => Ref.bind (hc _) fun p4 => Ref.bind (hc _) fun n1 => Ref.refl _

theorem i64ClearCol_ref (hc : ∀ x, Ref (c1 x) (c2 x)) {nr nc nx : Nat} (col row1 row2 : Nat)
    (a : Mat Int nr nc) (x : Mat Int nr nx) :
    Ref (i64ClearCol c1 col row1 row2 a x) (i64ClearCol c2 col row1 row2 a x) := by
  unfold i64ClearCol
  refine Ref.bind (Ref.refl _) fun a2 => Ref.bind (Ref.refl _) fun a1 =>
    Ref.bind (gcdx_ref hc _ _) fun ⟨_, r, s, t, u⟩ => ?_
  exact Ref.bind (hc _) fun ru => Ref.bind (hc _) fun st => Ref.bind (hc _) fun det =>
    Ref.bind (i64ClearRowPair_ref hc _ _ _ _ _ _ _ _ _) fun a' =>
    Ref.bind (i64ClearRowPair_ref hc _ _ _ _ _ _ _ _ _) fun x' => Ref.refl _

end i64

/-! ### generic routines: monotone in the back-end -/

/-- `B1` refines `B2`: same constants and zero test, every operation refines -/
structure BRef {α : Type} (B1 B2 : Backend α) : Prop where
  zero : B1.zero = B2.zero
  one : B1.one = B2.one
  isZero : B1.isZero = B2.isZero
  add : ∀ a b, Ref (B1.add a b) (B2.add a b)
  sub : ∀ a b, Ref (B1.sub a b) (B2.sub a b)
  mul : ∀ a b, Ref (B1.mul a b) (B2.mul a b)
  neg : ∀ a, Ref (B1.neg a) (B2.neg a)
  div : ∀ a b, Ref (B1.div a b) (B2.div a b)
  canDivide : ∀ a b, Ref (B1.canDivide a b) (B2.canDivide a b)
  pivotRow : ∀ {nr nc : Nat} (col row0 : Nat) (a : Mat α nr nc),
    Ref (B1.pivotRow col row0 a) (B2.pivotRow col row0 a)
  clearCol : ∀ {nr nc nx : Nat} (col row1 row2 : Nat) (a : Mat α nr nc) (x : Mat α nr nx),
    Ref (B1.clearCol col row1 row2 a x) (B2.clearCol col row1 row2 a x)

theorem i64Backend_ref {c1 c2 : Int → Outcome Int} (hc : ∀ x, Ref (c1 x) (c2 x)) :
    BRef (i64Backend c1) (i64Backend c2) where
  zero := rfl
  one := rfl
  isZero := rfl
  add := fun _ _ => hc _
  sub := fun _ _ => hc _
  mul := fun _ _ => hc _
  neg := fun _ => hc _
  div := fun a b => by
    show Ref (if b = 0 then Outcome.panic else c1 (a.tdiv b))
      (if b = 0 then Outcome.panic else c2 (a.tdiv b))
    exact Ref.ite (fun _ => Ref.refl _) (fun _ => hc _)
  canDivide := i64CanDivide_ref hc
  pivotRow := i64PivotRow_ref hc
  clearCol := i64ClearCol_ref hc

section generic
variable {α : Type} {B1 B2 : Backend α}

theorem identity_ref (h : BRef B1 B2) (n : Nat) : Ref (identity B1 n) (identity B2 n) := by
  unfold identity
  rw [h.zero, h.one]
  exact Ref.refl _

theorem transpose_ref (h : BRef B1 B2) {nr nc : Nat} (m : Mat α nr nc) :
    Ref (transpose B1 m) (transpose B2 m) := by
  unfold transpose
  rw [h.zero]
  exact Ref.refl _

theorem matMul_ref (h : BRef B1 B2) {n m k : Nat} (a : Mat α n m) (b : Mat α m k) :
    Ref (matMul B1 a b) (matMul B2 a b) := by
  unfold matMul
  rw [h.zero]
  refine forRange_ref _ _ _ fun i res => forRange_ref _ _ _ fun j res => ?_
  refine Ref.bind (forRange_ref _ _ _ fun l x => ?_) fun x => Ref.refl _
  exact Ref.bind (Ref.refl _) fun ail => Ref.bind (Ref.refl _) fun blj =>
    Ref.bind (h.mul _ _) fun p => h.add _ _

theorem colStep_ref (h : BRef B1 B2) (repaired : Bool) {nr nc : Nat} (col : Nat)
    (st : EchState α nr nc) : Ref (colStep B1 repaired col st) (colStep B2 repaired col st) := by
  unfold colStep
  apply Ref.ite
  · intro _; exact Ref.refl _
  · intro _
    refine Ref.bind (h.pivotRow _ _ _) fun o => ?_
    cases o with
    | none => exact Ref.refl _
    | some pr =>
      refine Ref.bind (Ref.refl _) fun ⟨u, s, sw⟩ => ?_
      refine Ref.bind (forRange_ref _ _ _ fun r us => h.clearCol _ _ _ _ _) fun us => Ref.refl _

theorem echelon_ref (h : BRef B1 B2) (repaired : Bool) {nr nc : Nat} (m : Mat α nr nc) :
    Ref (echelon B1 repaired m) (echelon B2 repaired m) := by
  unfold echelon
  refine Ref.bind (identity_ref h nr) fun s0 => ?_
  exact Ref.bind (forRange_ref _ _ _ fun col st => colStep_ref h repaired col st) fun st =>
    Ref.refl _

theorem rank_ref (h : BRef B1 B2) {nr nc : Nat} (m : Mat α nr nc) :
    Ref (rank B1 m) (rank B2 m) := by
  unfold rank
  exact Ref.bind (echelon_ref h true m) fun re => Ref.refl _

theorem nullSpaceMatrix_ref (h : BRef B1 B2) {nr nc : Nat} (m : Mat α nr nc) :
    Ref (nullSpaceMatrix B1 m) (nullSpaceMatrix B2 m) := by
  unfold nullSpaceMatrix
  exact Ref.bind (transpose_ref h m) fun mt => Ref.bind (echelon_ref h true mt) fun re =>
    Ref.bind (transpose_ref h _) fun s => Ref.refl _

theorem nullSpace_ref (h : BRef B1 B2) {nr nc : Nat} (m : Mat α nr nc) :
    Ref (nullSpace B1 m) (nullSpace B2 m) := by
  unfold nullSpace
  exact Ref.bind (transpose_ref h m) fun mt => Ref.bind (echelon_ref h true mt) fun re =>
    Ref.bind (transpose_ref h _) fun s => Ref.refl _

theorem rowTimes_ref (h : BRef B1 B2) {nr nc k : Nat} (a : Mat α nr nc) (row : Nat)
    (x : Mat α nc k) : Ref (rowTimes B1 a row x) (rowTimes B2 a row x) := by
  unfold rowTimes
  rw [h.zero]
  exact Ref.bind (Ref.refl _) fun r => matMul_ref h r x

theorem solve_ref (h : BRef B1 B2) {nr nc k : Nat} (a : Mat α nr nc) (rhs : Mat α nr k) :
    Ref (solve B1 a rhs) (solve B2 a rhs) := by
  unfold solve
  rw [h.zero, h.isZero]
  refine Ref.bind (echelon_ref h true a) fun re => Ref.bind (matMul_ref h _ _) fun y =>
    Ref.bind (Ref.refl _) fun cons => ?_
  apply Ref.ite
  · intro _; exact Ref.refl _
  · intro _
    refine forDown_ref (fun row result => ?_) _ _
    refine Ref.bind (rowTimes_ref h _ _ _) fun av => Ref.bind (Ref.refl _) fun c =>
      Ref.bind (Ref.refl _) fun x => forRange_ref _ _ _ fun kk result => ?_
    refine Ref.bind (Ref.refl _) fun b => Ref.bind (Ref.refl _) fun ak =>
      Ref.bind (h.sub _ _) fun t => Ref.bind (h.canDivide _ _) fun cd => ?_
    cases cd with
    | true => exact Ref.bind (h.div _ _) fun q => Ref.refl _
    | false => exact Ref.refl _

theorem determinant_ref (h : BRef B1 B2) {n : Nat} (m : Mat α n n) :
    Ref (determinant B1 m) (determinant B2 m) := by
  unfold determinant
  rw [h.one]
  apply Ref.ite (fun _ => Ref.refl _); intro _
  apply Ref.ite (fun _ => Ref.refl _); intro _
  apply Ref.ite
  · intro _
    exact Ref.bind (Ref.refl _) fun a => Ref.bind (Ref.refl _) fun d =>
      Ref.bind (Ref.refl _) fun b => Ref.bind (Ref.refl _) fun c =>
      Ref.bind (h.mul _ _) fun ad => Ref.bind (h.mul _ _) fun bc => h.sub _ _
  intro _
  apply Ref.ite
  · intro _
    exact Ref.bind (Ref.refl _) fun a00 => Ref.bind (Ref.refl _) fun a01 =>
      Ref.bind (Ref.refl _) fun a02 => Ref.bind (Ref.refl _) fun a10 =>
      Ref.bind (Ref.refl _) fun a11 => Ref.bind (Ref.refl _) fun a12 =>
      Ref.bind (Ref.refl _) fun a20 => Ref.bind (Ref.refl _) fun a21 =>
      Ref.bind (Ref.refl _) fun a22 =>
      Ref.bind (h.mul _ _) fun t => Ref.bind (h.mul _ _) fun p1 =>
      Ref.bind (h.mul _ _) fun t => Ref.bind (h.mul _ _) fun p2 =>
      Ref.bind (h.add _ _) fun acc =>
      Ref.bind (h.mul _ _) fun t => Ref.bind (h.mul _ _) fun p3 =>
      Ref.bind (h.add _ _) fun acc =>
      Ref.bind (h.mul _ _) fun t => Ref.bind (h.mul _ _) fun p4 =>
      Ref.bind (h.sub _ _) fun acc =>
      Ref.bind (h.mul _ _) fun t => Ref.bind (h.mul _ _) fun p5 =>
      Ref.bind (h.sub _ _) fun acc =>
      Ref.bind (h.mul _ _) fun t => Ref.bind (h.mul _ _) fun p6 => h.sub _ _
  intro _
  refine Ref.bind (echelon_ref h true m) fun re => ?_
  refine Ref.bind (forRange_ref _ _ _ fun i acc => Ref.bind (Ref.refl _) fun d => h.mul _ _)
    fun res => ?_
  exact Ref.ite (fun _ => Ref.refl _) (fun _ => h.neg _)

theorem inverse_ref (h : BRef B1 B2) {n : Nat} (m : Mat α n n) :
    Ref (inverse B1 m) (inverse B2 m) := by
  unfold inverse
  exact Ref.bind (identity_ref h n) fun i => solve_ref h m i

end generic

/-! ### the two instances -/

theorem chk_ref_ok (x : Int) : Ref (PRC.chk x) (Outcome.ok x) := by
  unfold PRC.chk
  split
  · exact Ref.refl _
  · exact Ref.panic _

/-- range check `|x| ≤ b` (a run that passes it has no intermediate of magnitude `> b`) -/
def chkB (b : Int) (x : Int) : Outcome Int := if -b ≤ x ∧ x ≤ b then .ok x else .panic

theorem chkB_ref_chk {b : Int} (hb : b ≤ PRC.i64Max) (x : Int) : Ref (chkB b x) (PRC.chk x) := by
  unfold chkB
  split
  · next h =>
    have : PRC.inI64 x = true := by
      unfold PRC.inI64 PRC.i64Min PRC.i64Max
      unfold PRC.i64Max at hb
      simp only [Bool.and_eq_true, decide_eq_true_eq]
      omega
    unfold PRC.chk
    rw [if_pos this]
    exact Ref.refl _
  · exact Ref.panic _

/-- the overflow-checked `i64` back-end refines the idealised one -/
theorem i64_chk_ref : BRef (i64Backend PRC.chk) (i64Backend .ok) := i64Backend_ref chk_ref_ok

/-- a back-end with the tighter check `|x| ≤ b ≤ i64::MAX` refines the `i64` back-end -/
theorem i64_chkB_ref {b : Int} (hb : b ≤ PRC.i64Max) :
    BRef (i64Backend (chkB b)) (i64Backend PRC.chk) := i64Backend_ref (chkB_ref_chk hb)

end DSymVerif.LA
