/-
C01, part 9 (round trip, degrees): feeding the repaired `FromStr` the degrees `DSet::fmt`
prints for a symbol s (one per `orbit_reps_2d` representative, `m = r · v`) restores the
branching number of every orbit.
-/
import DSymVerif.Proofs.TextNumbering
import DSymVerif.Proofs.TextRoundOps

namespace DSymVerif.Text
open DSymVerif DSymVerif.DS

/-- orbit number of chamber d for the index pair (i, i+1) -/
def ixf (s : DSymData) (i d : Nat) : Nat := (s.orbitIndex.getD i #[]).getD d 0

theorem oix_val {s : DSymData} (h : SymInv s) {i d : Nat} (hi : i < s.dim) (h1 : 1 ≤ d) (h2 : d ≤ s.size) :
    s.oix i d = .ok (ixf s i d) ∧ ixf s i d < s.orbitRs.size := by
  have f := collectOrbits_facts h.set
  have hi' : i < s.dset.dim := hi
  have h2' : d ≤ s.dset.size := h2
  constructor
  · unfold DSymData.oix ixf
    rw [h.index_eq, getElem?_eq_some_getD _ i #[] (by rw [f.index_size]; exact hi')]
    dsimp only
    rw [getElem?_eq_some_getD _ d 0 (by rw [f.row_size i hi']; omega)]
  · unfold ixf
    rw [h.rs_eq, h.index_eq]; exact f.index_lt i d hi' h1 h2'

theorem rPartial_val {s : DSymData} (h : SymInv s) {i d : Nat} (hi : i < s.dim) (h1 : 1 ≤ d) (h2 : d ≤ s.size) :
    s.rPartial i (i + 1) d = .ok (some (s.orbitRs.getD (ixf s i d) 0)) ∧ 1 ≤ s.orbitRs.getD (ixf s i d) 0 := by
  obtain ⟨hk, hklt⟩ := oix_val h hi h1 h2
  have f := collectOrbits_facts h.set
  constructor
  · unfold DSymData.rPartial
    have hoor : s.outOfRange i (i + 1) d = false := by
      unfold DSymData.outOfRange
      simp only [Bool.or_eq_false_iff, decide_eq_false_iff_not]
      omega
    rw [hoor]
    have hne : ¬ (i + 1 = i) := by omega
    simp only [Bool.false_eq_true, if_false, hne, if_true, hk, ok_bind, DSymData.orbAt,
      getElem?_eq_some_getD _ _ 0 hklt, pure_eq_ok]
  · rw [h.rs_eq] at hklt ⊢
    exact f.rs_pos _ hklt

theorem vPartial_val {s : DSymData} (h : SymInv s) {i d : Nat} (hi : i < s.dim) (h1 : 1 ≤ d) (h2 : d ≤ s.size) :
    s.vPartial i (i + 1) d = .ok (some (s.orbitVs.getD (ixf s i d) 0)) := by
  obtain ⟨hk, hklt⟩ := oix_val h hi h1 h2
  unfold DSymData.vPartial
  have hoor : s.outOfRange i (i + 1) d = false := by
    unfold DSymData.outOfRange
    simp only [Bool.or_eq_false_iff, decide_eq_false_iff_not]
    omega
  rw [hoor]
  have hne : ¬ (i + 1 = i) := by omega
  simp only [Bool.false_eq_true, if_false, hne, if_true, hk, ok_bind, DSymData.orbAt,
    getElem?_eq_some_getD _ _ 0 (h.vs_size ▸ hklt), pure_eq_ok]

theorem setV_val {s : DSymData} (h : SymInv s) {i d : Nat} (hi : i < s.dim) (h1 : 1 ≤ d) (h2 : d ≤ s.size)
    (v : Nat) : s.setV i d v = .ok { s with orbitVs := s.orbitVs.setIfInBounds (ixf s i d) v } := by
  obtain ⟨hk, hklt⟩ := oix_val h hi h1 h2
  unfold DSymData.setV
  rw [if_neg (by omega), hk]
  dsimp only
  rw [if_pos (by rw [h.vs_size]; exact hklt)]

/-- the degree `DSet::fmt` prints for the orbit of chamber x -/
def degOf (s : DSymData) (i x : Nat) : Nat :=
  s.orbitRs.getD (ixf s i x) 0 * s.orbitVs.getD (ixf s i x) 0

/-- the degrees printed for index i and the chambers d, …, d+n-1 -/
def degRest (s : DSymData) (i d n : Nat) : List Nat :=
  (List.range' d n).filterMap fun x =>
    if firstB (s.orbitIndex.getD i #[]) x then some (degOf s i x) else none

theorem degRest_succ (s : DSymData) (i d n : Nat) :
    degRest s i d (n + 1) =
      if firstB (s.orbitIndex.getD i #[]) d then degOf s i d :: degRest s i (d + 1) n
      else degRest s i (d + 1) n := by
  unfold degRest
  rw [List.range'_succ, List.filterMap_cons]
  split <;> rename_i h
  · split at h
    · cases h
    · rename_i hc; rw [if_neg hc]
  · split at h
    · rename_i hc; cases h; rw [if_pos hc]
    · cases h

/-- the symbol under construction: the D-set and orbit tables of s, branching numbers `vs` -/
structure DegInv (s : DSymData) (i d : Nat) (t : DSymData) (seen : Array Bool) : Prop where
  dset_eq : t.dset = s.dset
  index_eq : t.orbitIndex = s.orbitIndex
  rs_eq : t.orbitRs = s.orbitRs
  vs_size : t.orbitVs.size = s.orbitRs.size
  seen_size : seen.size = s.orbitRs.size
  seen_iff : ∀ k, k < s.orbitRs.size → (seen.getD k false = true ↔
    (∃ j x, j < i ∧ 1 ≤ x ∧ x ≤ s.size ∧ ixf s j x = k) ∨ (∃ x, 1 ≤ x ∧ x < d ∧ ixf s i x = k))
  vs_done : ∀ j x, (j < i ∧ 1 ≤ x ∧ x ≤ s.size) ∨ (j = i ∧ 1 ≤ x ∧ x < d) →
    t.orbitVs.getD (ixf s j x) 0 = s.orbitVs.getD (ixf s j x) 0

theorem DegInv.symInv {s t : DSymData} {i d : Nat} {seen : Array Bool} (h : SymInv s)
    (D : DegInv s i d t seen) : SymInv t :=
  ⟨D.dset_eq ▸ h.set, by rw [D.index_eq, D.dset_eq]; exact h.index_eq,
   by rw [D.rs_eq, D.dset_eq]; exact h.rs_eq, by rw [D.vs_size, D.rs_eq]⟩

theorem degLoop_display {s : DSymData} (h : SymInv s)
    (N : Numbering s.dset s.view (collectOrbits s.dset)) {i : Nat} (hi : i < s.dim) :
    ∀ (n d : Nat) (t : DSymData) (seen : Array Bool), d + n = s.size + 1 → 1 ≤ d →
    DegInv s i d t seen →
    ∃ t' seen', degLoop i n d t seen (degRest s i d n) = .ok (t', seen', []) ∧
      DegInv s i (s.size + 1) t' seen' := by
  intro n
  induction n with
  | zero =>
    intro d t seen hn hd D
    have : d = s.size + 1 := by omega
    subst this
    exact ⟨t, seen, rfl, D⟩
  | succ n ih =>
    intro d t seen hn hd D
    have hd2 : d ≤ s.size := by omega
    have ht := D.symInv h
    have htd : t.dim = s.dim := by unfold DSymData.dim; rw [D.dset_eq]
    have hts : t.size = s.size := by unfold DSymData.size; rw [D.dset_eq]
    have hixt : ∀ j x, ixf t j x = ixf s j x := by intro j x; unfold ixf; rw [D.index_eq]
    obtain ⟨horb, horblt⟩ := oix_val ht (by omega : i < t.dim) hd (by omega : d ≤ t.size)
    rw [hixt] at horb horblt
    rw [D.rs_eq] at horblt
    have hget : seen[ixf s i d]? = some (seen.getD (ixf s i d) false) :=
      getElem?_eq_some_getD seen _ false (by rw [D.seen_size]; exact horblt)
    -- "already seen" is "not the first chamber of its orbit in this row"
    have hseen : seen.getD (ixf s i d) false = true ↔ ¬ firstB (s.orbitIndex.getD i #[]) d = true := by
      rw [D.seen_iff _ horblt, firstB_iff]
      constructor
      · rintro (⟨j, x, hj, hx1, hx2, hjx⟩ | ⟨x, hx1, hx2, hx⟩)
        · exfalso
          have := N.mono j i hj hi x d hx1 hx2 hd hd2
          rw [← h.index_eq] at this
          unfold ixf at hjx
          omega
        · intro hall; exact hall x hx1 hx2 hx
      · intro hnot
        right
        by_contra hne
        apply hnot
        intro x' h1 h2 heq
        exact hne ⟨x', h1, h2, heq⟩
    rw [degRest_succ]
    by_cases hf : firstB (s.orbitIndex.getD i #[]) d = true
    · -- first chamber of its orbit: the next degree belongs to it
      rw [if_pos hf]
      have hunseen : seen.getD (ixf s i d) false = false := by
        rw [Bool.eq_false_iff]; intro hh; exact (hseen.mp hh) hf
      rw [hunseen] at hget
      obtain ⟨hr, hr1⟩ := rPartial_val ht (by omega : i < t.dim) hd (by omega : d ≤ t.size)
      rw [hixt, D.rs_eq] at hr hr1
      have hmod : degOf s i d % s.orbitRs.getD (ixf s i d) 0 = 0 := Nat.mul_mod_right _ _
      have hdiv : degOf s i d / s.orbitRs.getD (ixf s i d) 0 = s.orbitVs.getD (ixf s i d) 0 :=
        Nat.mul_div_cancel_left _ (by omega)
      have hsv := setV_val ht (by omega : i < t.dim) hd (by omega : d ≤ t.size)
        (degOf s i d / s.orbitRs.getD (ixf s i d) 0)
      rw [hixt] at hsv
      rw [degLoop_take horb hget hr (by omega) hmod hsv]
      apply ih (d + 1) _ _ (by omega) (by omega)
      refine ⟨D.dset_eq, D.index_eq, D.rs_eq, ?_, ?_, ?_, ?_⟩
      · show (t.orbitVs.setIfInBounds _ _).size = _
        rw [Array.size_setIfInBounds]; exact D.vs_size
      · rw [Array.size_setIfInBounds]; exact D.seen_size
      · intro k hk
        rw [getDb_set, D.seen_size]
        by_cases c : ixf s i d = k
        · rw [if_pos ⟨c, horblt⟩]
          simp only [true_iff]
          exact Or.inr ⟨d, hd, by omega, c⟩
        · rw [if_neg (by intro hh; exact c hh.1), D.seen_iff k hk]
          constructor
          · rintro (hh | ⟨x, hx1, hx2, hx⟩)
            · exact Or.inl hh
            · exact Or.inr ⟨x, hx1, by omega, hx⟩
          · rintro (hh | ⟨x, hx1, hx2, hx⟩)
            · exact Or.inl hh
            · by_cases cx : x = d
              · subst cx; exact absurd hx c
              · exact Or.inr ⟨x, hx1, by omega, hx⟩
      · intro j x hjx
        show (t.orbitVs.setIfInBounds _ _).getD _ 0 = _
        rw [getDn_set, hdiv]
        by_cases c : ixf s i d = ixf s j x
        · rw [if_pos ⟨c, by rw [D.vs_size]; exact horblt⟩, c]
        · rw [if_neg (by intro hh; exact c hh.1)]
          rcases hjx with hjx | ⟨hj, hx1, hx2⟩
          · exact D.vs_done j x (Or.inl hjx)
          · by_cases cx : x = d
            · subst cx hj; exact absurd rfl c
            · exact D.vs_done j x (Or.inr ⟨hj, hx1, by omega⟩)
    · -- a later chamber of an orbit that already has its degree
      rw [if_neg hf]
      have hs : seen.getD (ixf s i d) false = true := hseen.mpr hf
      rw [hs] at hget
      rw [degLoop_seen horb hget]
      apply ih (d + 1) t seen (by omega) (by omega)
      obtain ⟨x0, hx01, hx02, hx0⟩ : ∃ x, 1 ≤ x ∧ x < d ∧ ixf s i x = ixf s i d := by
        rcases (D.seen_iff _ horblt).mp hs with ⟨j, x, hj, hx1, hx2, hjx⟩ | hh
        · exfalso
          have := N.mono j i hj hi x d hx1 hx2 hd hd2
          rw [← h.index_eq] at this
          unfold ixf at hjx
          omega
        · exact hh
      refine { D with seen_iff := ?_, vs_done := ?_ }
      · intro k hk
        rw [D.seen_iff k hk]
        constructor
        · rintro (hh | ⟨x, hx1, hx2, hx⟩)
          · exact Or.inl hh
          · exact Or.inr ⟨x, hx1, by omega, hx⟩
        · rintro (hh | ⟨x, hx1, hx2, hx⟩)
          · exact Or.inl hh
          · by_cases cx : x = d
            · subst cx; exact Or.inr ⟨x0, hx01, hx02, hx0.trans hx⟩
            · exact Or.inr ⟨x, hx1, by omega, hx⟩
      · intro j x hjx
        rcases hjx with hjx | ⟨hj, hx1, hx2⟩
        · exact D.vs_done j x (Or.inl hjx)
        · by_cases cx : x = d
          · subst cx hj
            rw [← hx0]; exact D.vs_done j x0 (Or.inr ⟨rfl, hx01, hx02⟩)
          · exact D.vs_done j x (Or.inr ⟨hj, hx1, by omega⟩)

theorem degOuter_display {s : DSymData} (h : SymInv s)
    (N : Numbering s.dset s.view (collectOrbits s.dset)) (spec : DSymSpec) (hsz : spec.size = s.size)
    (hms : ∀ i, i < s.dim → spec.mSpec[i]? = some (degRest s i 1 s.size)) :
    ∀ (n i : Nat) (t : DSymData) (seen : Array Bool), i + n = s.dim → DegInv s i 1 t seen →
    ∃ t', degOuter spec n i t seen = .ok t' ∧
      t'.dset = s.dset ∧ t'.orbitIndex = s.orbitIndex ∧ t'.orbitRs = s.orbitRs ∧
      ∀ j x, j < s.dim → 1 ≤ x → x ≤ s.size → t'.orbitVs.getD (ixf s j x) 0 = s.orbitVs.getD (ixf s j x) 0 := by
  intro n
  induction n with
  | zero =>
    intro i t seen hn D
    have : i = s.dim := by omega
    subst this
    exact ⟨t, rfl, D.dset_eq, D.index_eq, D.rs_eq,
      fun j x hj hx1 hx2 => D.vs_done j x (Or.inl ⟨hj, hx1, hx2⟩)⟩
  | succ n ih =>
    intro i t seen hn D
    have hi : i < s.dim := by omega
    obtain ⟨t1, seen1, hl, D1⟩ := degLoop_display h N hi s.size 1 t seen (by omega) (by omega) D
    rw [← hsz] at hl
    rw [degOuter_next (hms i hi) (by rw [hsz] at hl ⊢; exact hl)]
    apply ih (i + 1) t1 seen1 (by omega)
    refine { D1 with seen_iff := ?_, vs_done := ?_ }
    · intro k hk
      rw [D1.seen_iff k hk]
      constructor
      · rintro (⟨j, x, hj, hx⟩ | ⟨x, hx1, hx2, hx⟩)
        · exact Or.inl ⟨j, x, by omega, hx⟩
        · exact Or.inl ⟨i, x, by omega, hx1, by omega, hx⟩
      · rintro (⟨j, x, hj, hx1, hx2, hx⟩ | ⟨x, hx1, hx2, _⟩)
        · by_cases c : j = i
          · subst c; exact Or.inr ⟨x, hx1, by omega, hx⟩
          · exact Or.inl ⟨j, x, by omega, hx1, hx2, hx⟩
        · omega
    · intro j x hjx
      rcases hjx with ⟨hj, hx1, hx2⟩ | ⟨_, hx1, hx2⟩
      · by_cases c : j = i
        · exact D1.vs_done j x (Or.inr ⟨c, hx1, by omega⟩)
        · exact D1.vs_done j x (Or.inl ⟨by omega, hx1, hx2⟩)
      · omega

end DSymVerif.Text
