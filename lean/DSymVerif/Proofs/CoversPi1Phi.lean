/-
Property C05, π1 of a cover, part 2: the homomorphism `phiC : TGroup c →* TGroup ds` induced by the
projection of a monodromy cover.

`q` is a gauge along the spanning tree of the cover `c` with values in `TGroup ds`
(`q(op_i x) = q(x) · x_{π x, i}` on tree facets); the generator of facet `(x,i)` of `c` is sent to
`q(x) · x_{π x, i} · q(op_i x)⁻¹`.  Pairing relators project to pairing relators, tree facets
telescope to 1, and the closed walk round a 2-orbit of `c` to the power `v_c` projects to the walk
round the 2-orbit of `ds` to the power `v` (degrees are preserved), conjugated by `q(x)`.
-/
import DSymVerif.Proofs.CoversPi1Walk

namespace DSymVerif.CoversP
open DSymVerif DSymVerif.DS DSymVerif.FG DSymVerif.FGP

/-- a monodromy cover: `c` is a covering of `ds` with the operations of a sheet map that agrees with
    the representation `ρ` of the textbook group of `ds` -/
structure MCover (ds c : DSymData) (n : Nat) (ρ : TGroup ds →* Equiv.Perm (Fin n))
    (σ : Nat → Nat → Nat → Nat) : Prop where
  hs : ValidSym ds
  hsz : 1 ≤ ds.size
  hdim : 1 ≤ ds.dim
  hσ : Agrees ρ σ
  cov : IsCoverOf ds c n
  hop : ∀ i d, i ≤ ds.dim → 1 ≤ d → d ≤ n * ds.size → c.dset.opU i d = coverF ds.dset σ i d

section
variable {ds c : DSymData} {n : Nat} {ρ : TGroup ds →* Equiv.Perm (Fin n)} {σ : Nat → Nat → Nat → Nat}
  (M : MCover ds c n ρ σ)
include M

theorem MCover.hc : ValidSym c := M.cov.valid

theorem MCover.proj' {i x : Nat} (hi : i ≤ c.dim) (h1 : 1 ≤ x) (h2 : x ≤ c.size) :
    cproj ds.size (c.dset.opU i x) = opT ds i (cproj ds.size x) := by
  have his : i ≤ ds.dim := by rw [← M.cov.dim]; exact hi
  have hp := cproj_range (d := x) M.hsz
  rw [opT_eq his hp.1 hp.2]
  exact M.cov.proj i x his h1 (by rw [← M.cov.size]; exact h2)

/-- the projected walk -/
theorem MCover.wk_proj {a b : Nat} (ha : a ≤ c.dim) (hb : b ≤ c.dim) : ∀ (t x : Nat), 1 ≤ x → x ≤ c.size →
    cproj ds.size (wk (opT c) a b t x) = wk (opT ds) a b t (cproj ds.size x) := by
  intro t
  induction t with
  | zero => intro x _ _; rfl
  | succ t ih =>
    intro x h1 h2
    rw [wk_succ_last, wk_succ_last, ← ih x h1 h2]
    have hr := wk_range M.hc.set h1 h2 t a b
    rw [opT_eq (ix_le ha hb t) hr.1 hr.2]
    exact M.proj' (ix_le ha hb t) hr.1 hr.2

/-- the operation of the cover on the chamber `(k, b)` -/
theorem MCover.op_mk {i b : Nat} (hi : i ≤ ds.dim) (h1 : 1 ≤ b) (h2 : b ≤ ds.size) (k : Fin n) :
    c.dset.opU i (ds.size * k.val + b) = ds.size * (tau ρ b i k).val + ds.dset.opU i b := by
  have hd := cmk_range (sz := ds.size) (n := n) k.isLt h1 h2
  rw [M.hop i _ hi hd.1 hd.2]
  have hmk : coverF ds.dset σ i (ds.size * k.val + b) = ds.size * σ k.val i b + ds.dset.opU i b :=
    coverF_mk (s := ds.dset) h1 h2
  rw [hmk, M.hσ k.val i b k.isLt hi h1 h2]

/-- orbit lengths and branching numbers of a chamber of the cover and of its projection:
    `r_c = r · m` and `m · v_c = v` -/
theorem MCover.orbit_numbers {a b x : Nat} (ha : a ≤ c.dim) (hb : b ≤ c.dim) (h1 : 1 ≤ x) (h2 : x ≤ c.size) :
    ∃ m, orbR c a b x = orbR ds a b (cproj ds.size x) * m ∧
      m * orbV c a b x = orbV ds a b (cproj ds.size x) := by
  have has : a ≤ ds.dim := by rw [← M.cov.dim]; exact ha
  have hbs : b ≤ ds.dim := by rw [← M.cov.dim]; exact hb
  have hp := cproj_range (d := x) M.hsz
  obtain ⟨hmc, hlc⟩ := mPartial_orb M.hc ha hb h1 h2
  obtain ⟨hms, hls⟩ := mPartial_orb M.hs has hbs hp.1 hp.2
  have hdeg := M.cov.deg a b x has hbs h1 (by rw [← M.cov.size]; exact h2)
  rw [hmc, hms] at hdeg
  have heq : orbR c a b x * orbV c a b x = orbR ds a b (cproj ds.size x) * orbV ds a b (cproj ds.size x) :=
    Option.some.inj (Outcome.ok.inj hdeg)
  -- the period of x projects to a period of its projection
  have hper := (orbR_period M.hc ha hb h1 h2).2
  have hproj := M.wk_proj ha hb (2 * orbR c a b x) x h1 h2
  rw [hper, wk_opT_even M.hs.set has hbs hp.1 hp.2] at hproj
  have hdvd : orbR ds a b (cproj ds.size x) ∣ orbR c a b x := IsLeastPeriod.dvd hls hproj.symm
  obtain ⟨m, hm⟩ := hdvd
  refine ⟨m, hm, ?_⟩
  rw [hm, Nat.mul_assoc] at heq
  exact Nat.eq_of_mul_eq_mul_left (show 0 < orbR ds a b (cproj ds.size x) by have := hls.1; omega) heq

end

/-! ### the facet values of `phiC` -/

section phi
variable {ds c : DSymData} {n : Nat} {ρ : TGroup ds →* Equiv.Perm (Fin n)} {σ : Nat → Nat → Nat → Nat}
  (M : MCover ds c n ρ σ)

/-- the projected generator of a facet of the cover -/
noncomputable def px (ds : DSymData) (x i : Nat) : TGroup ds := xT ds (cproj ds.size x) i

/-- facet values in the gauge `q` -/
noncomputable def valPhi (ds c : DSymData) (q : Nat → TGroup ds) (x i : Nat) : TGroup ds :=
  q x * px ds x i * (q (opT c i x))⁻¹

include M in
theorem valPhi_pair (q : Nat → TGroup ds) {x i : Nat} (h : FacetR c x i) :
    valPhi ds c q x i * valPhi ds c q (c.dset.opU i x) i = 1 := by
  have hx' := M.hc.set.range i x h.2.2 h.1 h.2.1
  unfold valPhi px
  rw [opT_eq h.2.2 h.1 h.2.1, opT_eq h.2.2 hx'.1 hx'.2, M.hc.set.invol i x h.2.2 h.1 h.2.1,
    M.proj' h.2.2 h.1 h.2.1, xT_pair]
  group

theorem valPhi_tree {q : Nat → TGroup ds}
    (hq : ∀ x i, (x, i, none) ∈ spanningTree c → q (c.dset.opU i x) = q x * px ds x i)
    {x i : Nat} (hmem : (x, i, none) ∈ spanningTree c) (h : FacetR c x i) : valPhi ds c q x i = 1 := by
  unfold valPhi
  rw [opT_eq h.2.2 h.1 h.2.1, hq x i hmem]
  group

include M in
theorem valPhi_orbit (q : Nat → TGroup ds) {a b x : Nat} (hab : a < b) (hb : b ≤ c.dim)
    (h1 : 1 ≤ x) (h2 : x ≤ c.size) :
    OW c (valPhi ds c q) a b x ^ orbV c a b x = 1 := by
  have ha : a ≤ c.dim := by omega
  have has : a ≤ ds.dim := by rw [← M.cov.dim]; exact ha
  have hbs : b ≤ ds.dim := by rw [← M.cov.dim]; exact hb
  have hp := cproj_range (d := x) M.hsz
  obtain ⟨m, hm, hmv⟩ := M.orbit_numbers ha hb h1 h2
  have hperc := (orbR_period M.hc ha hb h1 h2).2
  have hpers := (orbR_period M.hs has hbs hp.1 hp.2).2
  unfold OW
  have hg := Wf_gauge (opT c) (px ds) q (2 * orbR c a b x) a b x
  rw [hperc] at hg
  have hproj := (Wf_proj M.hc.set (xT ds) (fun i x hi h1 h2 => M.proj' hi h1 h2) ha hb
    (2 * orbR c a b x) x h1 h2).1
  have hval : Wf (opT c) (valPhi ds c q) a b (2 * orbR c a b x) x =
      q x * Wf (opT c) (px ds) a b (2 * orbR c a b x) x * (q x)⁻¹ := hg
  have hpx : Wf (opT c) (px ds) a b (2 * orbR c a b x) x =
      Wf (opT ds) (xT ds) a b (2 * orbR c a b x) (cproj ds.size x) := hproj
  rw [hval, hpx, hm, Wf_rounds (opT ds) (xT ds) hpers m, conj_pow, ← pow_mul, hmv]
  have := xT_orbit M.hs (show a ≠ b by omega) has hbs hp.1 hp.2
  unfold OW at this
  rw [this]
  group

/-- **the homomorphism induced by the projection**, in the gauge `q` -/
noncomputable def phiC {q : Nat → TGroup ds}
    (hq : ∀ x i, (x, i, none) ∈ spanningTree c → q (c.dset.opU i x) = q x * px ds x i) :
    TGroup c →* TGroup ds :=
  tgroupLift M.hc (valPhi ds c q)
    (fun x i h => valPhi_pair M q h)
    (fun x i hmem => by
      obtain ⟨hn, _⟩ := spanningTree_itemOk M.hc.set (x, i, none) hmem
      exact valPhi_tree hq hmem (spanningTree_ok M.hc.set (x, i, none) hmem hn))
    (fun a b x hab hb h1 h2 => valPhi_orbit M q hab hb h1 h2)

theorem phiC_xT {q : Nat → TGroup ds}
    (hq : ∀ x i, (x, i, none) ∈ spanningTree c → q (c.dset.opU i x) = q x * px ds x i)
    {x i : Nat} (h : FacetR c x i) :
    phiC M hq (xT c x i) = q x * px ds x i * (q (c.dset.opU i x))⁻¹ := by
  unfold phiC
  rw [tgroupLift_xT M.hc _ _ _ _ h]
  unfold valPhi
  rw [opT_eq h.2.2 h.1 h.2.1]

end phi

end DSymVerif.CoversP
