/-
Helper lemmas for property C08, part 18: the traces of `trace_boundary` are the boundary
components — every valid dart lies (possibly reversed) on the walk of exactly one trace, and its
own closed walk reads the same corner word up to rotation and reversal.
-/
import DSymVerif.Proofs.Delaney2dMorphism

namespace DSymVerif.D2
open DSymVerif.DS

/-- a closed walk of minimal length -/
structure IsWalk (y : DSymData) (σ : Dart) (n : Nat) : Prop where
  valid : ValidDart y σ
  pos : 0 < n
  closed : (phi y)^[n] σ = σ
  nodup : (dlist y σ n).Nodup

/-- the darts marked by the traces -/
def recM (y : DSymData) (starts : List (Dart × Nat)) : List Dart :=
  starts.reverse.flatMap fun p => (dlist y p.1 p.2).reverse

/-- the complete record of a run of `trace_boundary` -/
structure TraceRecord (y : DSymData) (bnds : List (List Nat)) (starts : List (Dart × Nat)) : Prop where
  marked : Marked y (recM y starts)
  all : ∀ i d, i ≤ 2 → 1 ≤ d → d ≤ y.size → y.dset.opU i d = d → (i, d) ∈ (recM y starts).map Dart.le
  ok : ∀ p ∈ starts, ValidDart y p.1 ∧ 0 < p.2 ∧ (phi y)^[p.2] p.1 = p.1
  bnds_perm : bnds.Perm (starts.map fun p => bestCyclic (seqOf y p.1 p.2))
  pos : ∀ p ∈ starts, Positive y p.1

theorem traceRecord_exists {y : DSymData} (h : ValidSym y) (hdim : y.dim = 2) (rep : Rep) :
    ∃ bnds starts, traceBoundary ⟨y, rep⟩ = .ok bnds ∧ TraceRecord y bnds starts := by
  obtain ⟨bnds, M, hb, hM, _, hall, result, starts, hbr, hst⟩ := traceBoundary_marked h hdim rep
  have hM' : M = recM y starts := hst.eqM
  refine ⟨bnds, starts, hb, ⟨hM' ▸ hM, hM' ▸ hall, hst.ok, ?_, hst.pos⟩⟩
  rw [hbr, ← hst.res]
  exact sortDesc_perm _

section
variable {y : DSymData} (h : ValidSym y) (hdim : y.dim = 2)
  {bnds : List (List Nat)} {starts : List (Dart × Nat)} (T : TraceRecord y bnds starts)
include h hdim T

omit h hdim T in
theorem TraceRecord.mem_M (δ : Dart) : δ ∈ recM y starts ↔ ∃ p ∈ starts, δ ∈ dlist y p.1 p.2 := by
  unfold recM
  simp only [List.mem_flatMap, List.mem_reverse]

omit h hdim in
theorem TraceRecord.M_nodup : (recM y starts).Nodup := List.Nodup.of_map _ T.marked.nodup

omit h hdim in
/-- walks of different traces do not share a mirror end -/
theorem TraceRecord.disjoint {p p' : Dart × Nat} (hp : p ∈ starts) (hp' : p' ∈ starts)
    {δ δ' : Dart} (hδ : δ ∈ dlist y p.1 p.2) (hδ' : δ' ∈ dlist y p'.1 p'.2) (hle : δ.le = δ'.le) :
    p = p' := by
  by_contra hne
  have hnd : ((recM y starts).map Dart.le).Nodup := T.marked.nodup
  unfold recM at hnd
  rw [List.map_flatMap, List.nodup_flatMap] at hnd
  have hpw := hnd.2
  have hsymm : Std.Symm (Function.onFun List.Disjoint fun p : Dart × Nat => ((dlist y p.1 p.2).reverse).map Dart.le) :=
    ⟨fun _ _ hh => hh.symm⟩
  have := hpw.forall (List.mem_reverse.2 hp) (List.mem_reverse.2 hp') hne
  exact this (List.mem_map.2 ⟨δ, List.mem_reverse.2 hδ, rfl⟩)
    (List.mem_map.2 ⟨δ', List.mem_reverse.2 hδ', hle.symm⟩)

omit h hdim in
theorem TraceRecord.isWalk {p : Dart × Nat} (hp : p ∈ starts) : IsWalk y p.1 p.2 := by
  obtain ⟨hv, hpos, hcl⟩ := T.ok p hp
  refine ⟨hv, hpos, hcl, ?_⟩
  have hnd := T.M_nodup
  unfold recM at hnd
  rw [List.nodup_flatMap] at hnd
  exact List.nodup_reverse.1 (hnd.1 p (List.mem_reverse.2 hp))

omit h hdim in
/-- every valid dart lies, possibly reversed, on the walk of a trace -/
theorem TraceRecord.lookup {δ : Dart} (hδ : ValidDart y δ) :
    ∃ p ∈ starts, ∃ m, m < p.2 ∧ (δ = (phi y)^[m] p.1 ∨ δ = rho ((phi y)^[m] p.1)) := by
  have hle := T.all δ.1 δ.2.2 hδ.1 hδ.2.2.2.1 hδ.2.2.2.2.1 hδ.2.2.2.2.2
  obtain ⟨δ', hδ', hle'⟩ := List.mem_map.1 hle
  obtain ⟨p, hp, hmem⟩ := (TraceRecord.mem_M δ').1 hδ'
  obtain ⟨m, hm, rfl⟩ := mem_dlist.1 hmem
  refine ⟨p, hp, m, hm, ?_⟩
  have hv' := T.marked.valid _ hδ'
  rcases same_le hv' hδ (show δ.le = ((phi y)^[m] p.1).le from hle'.symm) with e | e
  · exact Or.inl e
  · exact Or.inr e

end

/-! ### minimal closed walks -/

section
variable {y : DSymData} (h : ValidSym y) (hdim : y.dim = 2)
include h hdim

omit h hdim in
theorem IsWalk.length_unique {σ : Dart} {n n' : Nat} (w : IsWalk y σ n) (w' : IsWalk y σ n') : n = n' := by
  by_contra hne
  have key : ∀ {a b : Nat}, IsWalk y σ a → IsWalk y σ b → a < b → False := by
    intro a b wa wb hab
    have h0 : (dlist y σ b)[0]'(by simp [dlist]; omega) = (dlist y σ b)[a]'(by simp [dlist]; omega) := by
      simp only [dlist, List.getElem_map, List.getElem_range]
      exact wa.closed.symm
    have := (List.Nodup.getElem_inj_iff wb.nodup).1 h0
    have := wa.pos
    omega
  rcases Nat.lt_or_gt_of_ne hne with hl | hl
  · exact key w w' hl
  · exact key w' w hl

theorem IsWalk.shift {σ : Dart} {n : Nat} (w : IsWalk y σ n) (m : Nat) : IsWalk y ((phi y)^[m] σ) n := by
  refine ⟨phi_iter_valid h.set hdim w.valid m, w.pos, ?_, ?_⟩
  · rw [← Function.iterate_add_apply, Nat.add_comm, Function.iterate_add_apply, w.closed]
  · rw [dlist_shift w.closed m]
    exact (List.IsRotated.nodup_iff (List.IsRotated.forall _ m)).2 w.nodup

theorem IsWalk.rho {σ : Dart} {n : Nat} (w : IsWalk y σ n) : IsWalk y (rho σ) n := by
  refine ⟨(rho_valid w.valid).1, w.pos, ?_, ?_⟩
  · rw [phi_rho_iter h hdim w.valid w.closed n (Nat.le_refl _), Nat.sub_self]; rfl
  · -- φ^j (ρσ) = ρ φ^(n-j) σ are pairwise different
    rw [List.nodup_iff_injective_getElem]
    intro ⟨i, hi⟩ ⟨j, hj⟩ hij
    have hi' : i < n := by simpa [dlist] using hi
    have hj' : j < n := by simpa [dlist] using hj
    simp only [dlist, List.getElem_map, List.getElem_range] at hij
    rw [phi_rho_iter h hdim w.valid w.closed i (by omega), phi_rho_iter h hdim w.valid w.closed j (by omega)] at hij
    have hvi := phi_iter_valid h.set hdim w.valid (n - i)
    have hvj := phi_iter_valid h.set hdim w.valid (n - j)
    have e : (phi y)^[n - i] σ = (phi y)^[n - j] σ := by
      have := congrArg D2.rho hij
      rwa [(rho_valid hvi).2.1, (rho_valid hvj).2.1] at this
    -- reduce the exponents n - i ∈ (0, n] modulo n
    have red : ∀ t, t ≤ n → 0 < t → (phi y)^[t] σ = (phi y)^[t % n] σ := by
      intro t ht1 ht2
      by_cases htn : t = n
      · rw [htn, Nat.mod_self, w.closed]; rfl
      · rw [Nat.mod_eq_of_lt (by omega)]
    rw [red (n - i) (by omega) (by omega), red (n - j) (by omega) (by omega)] at e
    have hlt1 : (n - i) % n < n := Nat.mod_lt _ w.pos
    have hlt2 : (n - j) % n < n := Nat.mod_lt _ w.pos
    have e' : (dlist y σ n)[(n - i) % n]'(by simp [dlist]; exact hlt1) =
        (dlist y σ n)[(n - j) % n]'(by simp [dlist]; exact hlt2) := by
      simp only [dlist, List.getElem_map, List.getElem_range]; exact e
    have := (List.Nodup.getElem_inj_iff w.nodup).1 e'
    -- (n-i) % n = (n-j) % n with i, j < n
    have hi0 : (n - i) % n = if i = 0 then 0 else n - i := by
      split
      · next h0 => rw [h0, Nat.sub_zero, Nat.mod_self]
      · exact Nat.mod_eq_of_lt (by omega)
    have hj0 : (n - j) % n = if j = 0 then 0 else n - j := by
      split
      · next h0 => rw [h0, Nat.sub_zero, Nat.mod_self]
      · exact Nat.mod_eq_of_lt (by omega)
    rw [hi0, hj0] at this
    apply Fin.ext
    show i = j
    split at this <;> split at this <;> omega

/-- **the corner word of a component**: a valid dart on the walk of a trace (possibly reversed)
    has a closed walk of the same length reading the same corner word up to rotation and reversal -/
theorem word_of_related {σ δ : Dart} {n : Nat} (w : IsWalk y σ n) {m : Nat}
    (hrel : δ = (phi y)^[m] σ ∨ δ = rho ((phi y)^[m] σ)) :
    IsWalk y δ n ∧ CycEq (seqOf y σ n) (seqOf y δ n) := by
  have ws := w.shift h hdim m
  rcases hrel with rfl | rfl
  · exact ⟨ws, Or.inl (seqOf_shift w.closed m)⟩
  · refine ⟨ws.rho h hdim, Or.inr ?_⟩
    rw [seqOf_rho h hdim ws.valid ws.closed]
    exact (seqOf_shift w.closed m).reverse

/-- related darts have closed walks through the same mirror ends -/
theorem le_set_related {σ δ : Dart} {n : Nat} (w : IsWalk y σ n) {m : Nat}
    (hrel : δ = (phi y)^[m] σ ∨ δ = rho ((phi y)^[m] σ)) (x : Nat × Nat) :
    x ∈ (dlist y δ n).map Dart.le ↔ x ∈ (dlist y σ n).map Dart.le := by
  have ws := w.shift h hdim m
  have hshift : x ∈ (dlist y ((phi y)^[m] σ) n).map Dart.le ↔ x ∈ (dlist y σ n).map Dart.le := by
    rw [dlist_shift w.closed m]
    constructor
    · intro hx
      obtain ⟨η, hη, rfl⟩ := List.mem_map.1 hx
      exact List.mem_map.2 ⟨η, (List.IsRotated.mem_iff (List.IsRotated.forall _ m)).1 hη, rfl⟩
    · intro hx
      obtain ⟨η, hη, rfl⟩ := List.mem_map.1 hx
      exact List.mem_map.2 ⟨η, (List.IsRotated.mem_iff (List.IsRotated.forall _ m)).2 hη, rfl⟩
  rcases hrel with rfl | rfl
  · exact hshift
  · rw [← hshift]
    set σ' := (phi y)^[m] σ with hσ'
    -- reduce exponents in (0, n] modulo n
    have red : ∀ t, t ≤ n → (phi y)^[t] σ' = (phi y)^[t % n] σ' := by
      intro t ht1
      by_cases htn : t = n
      · rw [htn, Nat.mod_self, ws.closed]; rfl
      · rw [Nat.mod_eq_of_lt (by omega)]
    constructor
    · intro hx
      obtain ⟨η, hη, rfl⟩ := List.mem_map.1 hx
      obtain ⟨j, hj, rfl⟩ := mem_dlist.1 hη
      rw [phi_rho_iter h hdim ws.valid ws.closed j (by omega),
        (rho_valid (phi_iter_valid h.set hdim ws.valid _)).2.2.2, red (n - j) (by omega)]
      exact List.mem_map.2 ⟨_, mem_dlist.2 ⟨(n - j) % n, Nat.mod_lt _ ws.pos, rfl⟩, rfl⟩
    · intro hx
      obtain ⟨η, hη, rfl⟩ := List.mem_map.1 hx
      obtain ⟨j, hj, rfl⟩ := mem_dlist.1 hη
      -- φ^j σ' = φ^(n - j') σ' with j' = (n - j) % n
      refine List.mem_map.2 ⟨(phi y)^[(n - j) % n] (rho σ'), mem_dlist.2 ⟨(n - j) % n, Nat.mod_lt _ ws.pos, rfl⟩, ?_⟩
      rw [phi_rho_iter h hdim ws.valid ws.closed ((n - j) % n) (Nat.le_of_lt (Nat.mod_lt _ ws.pos)),
        (rho_valid (phi_iter_valid h.set hdim ws.valid _)).2.2.2]
      congr 1
      by_cases hj0 : j = 0
      · subst hj0
        rw [Nat.sub_zero, Nat.mod_self, Nat.sub_zero, ws.closed]; rfl
      · rw [Nat.mod_eq_of_lt (by omega)]
        congr 1
        omega

end

end DSymVerif.D2
