/-
C12 completeness, part 3: the path — a search state inside a canonical complete target has a
child inside the target that survives `is_canonical`; hence the search reaches a complete
state inside the target.
-/
import DSymVerif.Proofs.LowIndexPath1

namespace DSymVerif.CanonP
open DSymVerif DSymVerif.Cosets DSymVerif.LowIndexP DSymVerif.CosetInvP DSymVerif.CosetPartP

theorem childrenFrom_mem (t : Table) (rels : List (List Int)) (k : Nat) (g : Int) :
    ∀ (ps : List Nat) (l : List Table), childrenFrom t rels k g ps = .ok l →
      ∀ pos ∈ ps, ∀ t', derivedTable t rels k pos g = .ok (some t') → t' ∈ l
  | [], _, _, pos, hp, _, _ => by cases hp
  | p :: ps, l, h, pos, hp, t', hd => by
    simp only [childrenFrom] at h
    cases hdp : derivedTable t rels k p g with
    | ok r =>
      simp only [hdp] at h
      cases hc : childrenFrom t rels k g ps with
      | ok rest =>
        simp only [hc, Outcome.ok.injEq] at h
        subst h
        rcases List.mem_cons.mp hp with rfl | hp'
        · rw [hd] at hdp
          simp only [Outcome.ok.injEq] at hdp
          subst hdp
          simp
        · have := childrenFrom_mem t rels k g ps rest hc pos hp' t' hd
          cases r with
          | none => exact this
          | some x => exact List.mem_cons_of_mem _ this
      | err => simp [hc] at h
      | panic => simp [hc] at h
    | err => simp [hdp] at h
    | panic => simp [hdp] at h

theorem filterCanonical_mem : ∀ (ts l : List Table), filterCanonical ts = .ok l →
    ∀ x ∈ ts, isCanonical x = .ok true → x ∈ l
  | [], _, _, x, hx, _ => by cases hx
  | t :: ts, l, h, x, hx, hcx => by
    simp only [filterCanonical] at h
    cases hc : isCanonical t with
    | ok b =>
      cases hr : filterCanonical ts with
      | ok rest =>
        simp only [hc, hr, Outcome.ok.injEq] at h
        subst h
        rcases List.mem_cons.mp hx with rfl | hx'
        · rw [hcx] at hc
          simp only [Outcome.ok.injEq] at hc
          subst hc
          simp
        · have := filterCanonical_mem ts rest hr x hx' hcx
          by_cases hb : b = true
          · simp [hb, this]
          · simp [hb, this]
      | err => simp [hc, hr] at h
      | panic => simp [hc, hr] at h
    | err => cases hr : filterCanonical ts <;> simp [hc, hr] at h
    | panic => simp [hc] at h

theorem Target.isoStd {maxRows n : Nat} {R : List (List Int)} {T : Table} (tg : Target maxRows n R T) :
    IsoStd T T id T.len := by
  have hcanT : ∀ x, T.canon x = x := canon_clean tg.clean
  have hdef : ∀ k, k < T.len → ∀ g ∈ T.allGens, ∃ d, T.get k g = .ok (some d) ∧ d < T.len := by
    intro k hk g hg
    obtain ⟨d, hd⟩ := (get_some_iff T k g).mpr (tg.complete k hk (hcanT k) g hg)
    exact ⟨d, hd, tg.tcq.shape.range k g d hg hd⟩
  exact ⟨rfl, rfl, rfl, hdef, fun k hk g hg => by obtain ⟨d, hd, _⟩ := hdef k hk g hg; exact ⟨d, hd⟩,
    fun c hc => hc, fun a b _ _ h => h, fun c g d _ _ h => h, tg.cs⟩

section
variable {maxRows n : Nat} {rels R : List (List Int)}

/-- **the path step**: a search state inside the target that still has a free slot has a
    child (surviving the canonicity filter) inside the target -/
theorem target_child (hrot : RotClosed rels R)
    (hwr : ∀ w ∈ rels, ∀ x ∈ w, x ∈ allGensOf n) (hwR : ∀ u ∈ R, ∀ x ∈ u, x ∈ allGensOf n)
    {T : Table} (tg : Target maxRows n R T) {P : Table} (s : SInv2 maxRows n rels P) (hs : Sub P T)
    {k : Nat} {g : Int} (hff : firstFreeInTable P = .ok (some (k, g))) :
    ∃ P', (Outcome.ok P') ∈ btChildren R maxRows (.ok P) ∧ Sub P' T := by
  have hcan : ∀ x, P.canon x = x := canon_clean s.1.clean
  have hcanT : ∀ x, T.canon x = x := canon_clean tg.clean
  obtain ⟨hk, pre, post, hsplit, hbef⟩ := firstFree_before hff
  obtain ⟨hg, hfree⟩ := firstFreeRows_spec P _ k g hff
  have hgT : g ∈ T.allGens := by rw [hs.allGens]; exact hg
  have hsl := hs.2.1
  have hkT : k < T.len := by omega
  have iso := tg.isoStd
  obtain ⟨pos, hpos, hposT⟩ := iso.def1 k hkT g hgT
  -- k ≤ pos
  have hkp : k ≤ pos := by
    by_contra hlt
    have hlt' : pos < k := by omega
    have hinvT := invCan_of_tcq tg.tcq hgT (hcanT k) hpos
    obtain ⟨v, hv⟩ := hbef pos (-g) (neg_mem_allGensOf hg) (Or.inl hlt')
    have hvT := hs.2.2 pos (-g) v (neg_mem_allGensOf hg) hv
    rw [hinvT] at hvT
    simp only [Outcome.ok.injEq, Option.some.injEq] at hvT
    subst hvT
    have := invCan_of_tcq s.1.tcq (neg_mem_allGensOf hg) (hcan pos) hv
    rw [Int.neg_neg, hfree] at this
    cases this
  -- pos ≤ P.len
  have hpl : pos ≤ P.len := by
    have hsplitT : T.allGens = pre ++ g :: post := by rw [hs.allGens]; exact hsplit
    have hp : Proc T P.len k pre := by
      intro k' g' hg' hb
      have hg'P : g' ∈ P.allGens := by rw [← hs.allGens]; exact hg'
      obtain ⟨v, hv⟩ := hbef k' g' hg'P hb
      rw [val_eq (hs.2.2 k' g' v hg'P hv)]
      exact s.1.tcq.shape.range k' g' v hg'P hv
    have := next_le iso hsplitT hkT s.1.tcq.shape.pos hp
    rw [val_eq hpos] at this
    exact this
  have hd : pos < P.len ∨ (pos = P.len ∧ k < pos) := by
    by_cases hpl' : pos < P.len
    · exact Or.inl hpl'
    · exact Or.inr ⟨by omega, by omega⟩
  obtain ⟨P', hder, hs'⟩ := derivedTable_in tg hwR s.1 hs hg hk hd hfree hpos hposT
  refine ⟨P', ?_, hs'⟩
  obtain ⟨l, hl⟩ := potentialChildren_total hwR s.1 (R := R)
  have hmem : P' ∈ l := by
    have hl' := hl
    unfold potentialChildren at hl'
    rw [hff] at hl'
    simp only [] at hl'
    refine childrenFrom_mem P R k g _ l hl' pos ?_ P' hder
    rw [List.mem_range'_1]
    have := tg.rows
    omega
  have hsinv := potentialChildren_sinv hrot hwr hwR s.1 hl
  have hcs := potentialChildren_cs hrot hwr hwR s.1 s.2 hl
  obtain ⟨cs, hcsf⟩ := filterCanonical_total l (fun t ht => ⟨(hsinv t ht).tcq.shape, hcs t ht⟩)
  have hcanon : isCanonical P' = .ok true :=
    isCanonical_sub hs' (hsinv P' hmem).tcq.shape.range
      (fun c g' hg' => get_total' (hsinv P' hmem).tcq.shape c hg') tg.canon
  simp only [btChildren, hl, hcsf, List.mem_map, Outcome.ok.injEq]
  exact ⟨P', filterCanonical_mem l cs hcsf P' hmem hcanon, rfl⟩

/-- **the path**: from a search state inside the target, the search reaches a complete
    state inside the target -/
theorem target_path (hrot : RotClosed rels R)
    (hwr : ∀ w ∈ rels, ∀ x ∈ w, x ∈ allGensOf n) (hwR : ∀ u ∈ R, ∀ x ∈ u, x ∈ allGensOf n)
    {T : Table} (tg : Target maxRows n R T) : ∀ (m : Nat) (P : Table), height maxRows (.ok P) ≤ m →
    SInv2 maxRows n rels P → Sub P T →
    ∃ Q, BT.Reach (btProblem n R maxRows) (.ok P) (.ok Q) ∧ SInv2 maxRows n rels Q ∧ Sub Q T ∧
      firstFreeInTable Q = .ok none := by
  intro m
  induction m with
  | zero =>
    intro P hm
    have := height_pos maxRows P
    omega
  | succ m ih =>
    intro P hm s hs
    obtain ⟨r, hr⟩ := firstFreeInTable_total s.1.tcq.shape
    cases r with
    | none => exact ⟨P, BT.Reach.refl _, s, hs, hr⟩
    | some p =>
      obtain ⟨k, g⟩ := p
      obtain ⟨P', hc, hs'⟩ := target_child hrot hwr hwR tg s hs hr
      have hdec := btProblem_decreasing n R maxRows (.ok P) (.ok P') hc
      have s' := (btChildren_sinv2 hrot hwr hwR hc (fun t ht => by injection ht with ht; exact ht ▸ s) P' rfl).1
      obtain ⟨Q, hq, sq, hsq, hfq⟩ := ih P' (by omega) s' hs'
      exact ⟨Q, BT.Reach.step hc hq, sq, hsq, hfq⟩

end

end DSymVerif.CanonP
