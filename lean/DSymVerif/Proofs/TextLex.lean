/-
C01, part 4: facts about the grammar model `lex` — it consumes input (so a text of n
characters yields at most n integers), every number it returns fits `usize`.
-/
import DSymVerif.Proofs.TextDeg

namespace DSymVerif.Text
open DSymVerif DSymVerif.DS

theorem ws0_length_le (cs : List Char) : (ws0 cs).length ≤ cs.length := by
  unfold ws0
  have := List.takeWhile_append_dropWhile (p := isWs) (l := cs)
  have h2 := congrArg List.length this
  rw [List.length_append] at h2
  omega

theorem ws1_length_lt {cs r : List Char} (h : ws1 cs = some r) : r.length < cs.length := by
  unfold ws1 at h
  split at h
  · split at h
    · cases h
      have := ws0_length_le ‹List Char›
      simp only [List.length_cons]; omega
    · cases h
  · cases h

theorem chr_length_lt {c : Char} {cs r : List Char} (h : chr c cs = some r) : r.length < cs.length := by
  unfold chr at h
  split at h
  · split at h
    · cases h; simp
    · cases h
  · cases h

theorem integer_length_lt {cs r : List Char} {v : Nat} (h : integer cs = some (v, r)) :
    r.length < cs.length ∧ v < usizeLimit := by
  unfold integer at h
  dsimp only at h
  split at h
  · cases h
  · rename_i hne
    split at h
    · rename_i hv
      cases h
      have := List.takeWhile_append_dropWhile (p := isDigit) (l := cs)
      have h2 := congrArg List.length this
      rw [List.length_append] at h2
      have h3 : (List.takeWhile isDigit cs).length ≠ 0 := by
        intro h0
        apply hne
        rw [List.isEmpty_iff]
        exact List.length_eq_zero_iff.mp h0
      exact ⟨by omega, hv⟩
    · cases h

theorem punct_length_le {c : Char} {cs r : List Char} (h : punct c cs = some r) : r.length < cs.length := by
  unfold punct at h
  split at h
  · rename_i r1 h1
    cases h
    have a := chr_length_lt h1
    have b := ws0_length_le cs
    have c' := ws0_length_le r1
    omega
  · cases h

theorem intListLoop_length : ∀ (fuel : Nat) (cs : List Char),
    (intListLoop fuel cs).1.length + (intListLoop fuel cs).2.length ≤ cs.length := by
  intro fuel
  induction fuel with
  | zero => intro cs; simp [intListLoop]
  | succ fuel ih =>
    intro cs
    unfold intListLoop
    split
    · simp
    · rename_i cs1 h1
      split
      · simp
      · rename_i v cs2 h2
        have a := ws1_length_lt h1
        have b := (integer_length_lt h2).1
        have c := ih cs2
        simp only [List.length_cons]
        omega

theorem intList_length {cs r : List Char} {l : List Nat} (h : intList cs = some (l, r)) :
    l.length + r.length ≤ cs.length := by
  unfold intList at h
  split at h
  · cases h
  · rename_i v cs1 h1
    cases h
    have a := (integer_length_lt h1).1
    have b := intListLoop_length cs1.length cs1
    simp only [List.length_cons]
    omega

theorem intListsLoop_length : ∀ (fuel : Nat) (cs : List Char),
    ((intListsLoop fuel cs).1.map List.length).sum + (intListsLoop fuel cs).2.length ≤ cs.length := by
  intro fuel
  induction fuel with
  | zero => intro cs; simp [intListsLoop]
  | succ fuel ih =>
    intro cs
    unfold intListsLoop
    split
    · simp
    · rename_i cs1 h1
      split
      · simp
      · rename_i l cs2 h2
        have a := punct_length_le h1
        have b := intList_length h2
        have c := ih cs2
        simp only [List.map_cons, List.sum_cons]
        omega

theorem intLists_length {cs r : List Char} {ls : List (List Nat)} (h : intLists cs = some (ls, r)) :
    (ls.map List.length).sum + r.length ≤ cs.length := by
  unfold intLists at h
  split at h
  · cases h
  · rename_i l cs1 h1
    cases h
    have a := intList_length h1
    have b := intListsLoop_length cs1.length cs1
    simp only [List.map_cons, List.sum_cons]
    omega

theorem counts_length_le {cs r : List Char} {p : Nat × Nat} (h : counts cs = some (p, r)) :
    r.length ≤ cs.length := by
  unfold counts at h
  split at h
  · cases h
  · rename_i a cs1 h1
    split at h
    · cases h
    · rename_i cs2 h2
      split at h
      · cases h
      · rename_i b cs3 h3
        cases h
        have := (integer_length_lt h1).1
        have := chr_length_lt h2
        have := (integer_length_lt h3).1
        omega

theorem extents_length_le {cs r : List Char} {p : Nat × Nat} (h : extents cs = some (p, r)) :
    r.length ≤ cs.length := by
  unfold extents at h
  split at h
  · cases h
  · rename_i a cs1 h1
    have a1 := (integer_length_lt h1).1
    dsimp only at h
    split at h
    · cases h; omega
    · rename_i cs2 h2
      have a2 := ws1_length_lt h2
      split at h
      · cases h; omega
      · rename_i b cs3 h3
        cases h
        have := (integer_length_lt h3).1
        omega

/-- the operation lists read from a text hold at most as many integers as the text has characters -/
theorem lex_opEntries_le {cs : List Char} {spec : DSymSpec} (h : lex cs = some spec) :
    opEntries spec ≤ cs.length := by
  unfold lex at h
  split at h
  · cases h
  · rename_i c1 h1
    split at h
    · cases h
    · rename_i setCount symCount c2 h2
      split at h
      · cases h
      · rename_i c3 h3
        split at h
        · cases h
        · rename_i size dim c4 h4
          split at h
          · cases h
          · rename_i c5 h5
            split at h
            · cases h
            · rename_i opSpec c6 h6
              split at h
              · cases h
              · rename_i c7 h7
                split at h
                · cases h
                · rename_i mSpec c8 h8
                  split at h
                  · cases h
                  · cases h
                    have a1 := punct_length_le h1
                    have a2 := counts_length_le h2
                    have a3 := punct_length_le h3
                    have a4 := extents_length_le h4
                    have a5 := punct_length_le h5
                    have a6 := intLists_length h6
                    unfold opEntries
                    dsimp only
                    omega

end DSymVerif.Text
