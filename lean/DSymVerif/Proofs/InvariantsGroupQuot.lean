/-
Quotients of `ℤⁿ` by row lattices:
* unimodularly equivalent matrices have isomorphic quotients,
* for a diagonal matrix the quotient is the product of the cyclic groups `ZMod |dᵢ|`
  (`ZMod 0 = ℤ`).
-/
import DSymVerif.Proofs.InvariantsGroup
import Mathlib.Data.ZMod.Basic
import Mathlib.GroupTheory.QuotientGroup.Basic

namespace DSymVerif.Inv
open Matrix

noncomputable section

/-! ### unimodular equivalence -/

/-- right multiplication by a matrix with two-sided inverse, as an automorphism of `ℤⁿ` -/
def vecMulEquiv {n : ℕ} (V V' : Matrix (Fin n) (Fin n) ℤ) (h1 : V * V' = 1) (h2 : V' * V = 1) :
    (Fin n → ℤ) ≃+ (Fin n → ℤ) where
  toFun v := v ᵥ* V
  invFun v := v ᵥ* V'
  left_inv v := by simp only [Matrix.vecMul_vecMul, h1, Matrix.vecMul_one]
  right_inv v := by simp only [Matrix.vecMul_vecMul, h2, Matrix.vecMul_one]
  map_add' x y := Matrix.add_vecMul V x y

theorem quot_equiv_of_uequiv {r n : ℕ} {A B : Matrix (Fin r) (Fin n) ℤ} (h : UEquiv A B) :
    Nonempty (((Fin n → ℤ) ⧸ rowSpan A) ≃+ ((Fin n → ℤ) ⧸ rowSpan B)) := by
  obtain ⟨U, V, hU, hV, e⟩ := h
  obtain ⟨U', hU'⟩ := hU.exists_left_inv
  obtain ⟨V', hV1⟩ := hV.exists_right_inv
  have hV2 : V' * V = 1 := by
    obtain ⟨V'', hV''⟩ := hV.exists_left_inv
    have : V'' = V' := by
      calc V'' = V'' * (V * V') := by rw [hV1, Matrix.mul_one]
        _ = (V'' * V) * V' := by rw [Matrix.mul_assoc]
        _ = V' := by rw [hV'', Matrix.one_mul]
    rw [← this]; exact hV''
  refine ⟨QuotientAddGroup.congr (rowSpan A) (rowSpan B) (vecMulEquiv V V' hV1 hV2) ?_⟩
  ext y
  constructor
  · rintro ⟨x, ⟨c, rfl⟩, rfl⟩
    refine ⟨c ᵥ* U', ?_⟩
    show (c ᵥ* U') ᵥ* B = (c ᵥ* A) ᵥ* V
    rw [← e]
    simp only [Matrix.vecMul_vecMul]
    rw [← Matrix.mul_assoc, ← Matrix.mul_assoc, hU', Matrix.one_mul]
  · rintro ⟨c, rfl⟩
    refine ⟨(c ᵥ* U) ᵥ* A, ⟨c ᵥ* U, rfl⟩, ?_⟩
    show ((c ᵥ* U) ᵥ* A) ᵥ* V = c ᵥ* B
    rw [← e]
    simp only [Matrix.vecMul_vecMul]

/-! ### diagonal matrices -/

/-- coordinatewise reduction `ℤⁿ → Π ZMod (δ i)` -/
def redHom {n : ℕ} (δ : Fin n → ℕ) : (Fin n → ℤ) →+ ((i : Fin n) → ZMod (δ i)) where
  toFun v i := (v i : ZMod (δ i))
  map_zero' := by funext i; simp
  map_add' x y := by funext i; simp

theorem redHom_surjective {n : ℕ} (δ : Fin n → ℕ) : Function.Surjective (redHom δ) := by
  intro f
  choose v hv using fun i => ZMod.intCast_surjective (f i)
  exact ⟨v, funext hv⟩

theorem redHom_ker {n : ℕ} (δ : Fin n → ℕ) (v : Fin n → ℤ) :
    v ∈ (redHom δ).ker ↔ ∀ i, (δ i : ℤ) ∣ v i := by
  rw [AddMonoidHom.mem_ker]
  constructor
  · intro h i
    have := congrFun h i
    exact (ZMod.intCast_zmod_eq_zero_iff_dvd _ _).mp this
  · intro h
    funext i
    exact (ZMod.intCast_zmod_eq_zero_iff_dvd _ _).mpr (h i)

theorem diagL_vecMul (c : List ℤ) (r n : ℕ) (a : Fin r → ℤ) (j : Fin n) :
    (a ᵥ* diagL c r n) j = if h : j.val < r then a ⟨j.val, h⟩ * c.getD j.val 0 else 0 := by
  simp only [Matrix.vecMul, dotProduct, diagL, diagF]
  by_cases h : j.val < r
  · rw [dif_pos h, Finset.sum_eq_single (⟨j.val, h⟩ : Fin r)]
    · simp
    · intro i _ hi
      have : ¬ i.val = j.val := fun hij => hi (Fin.ext hij)
      simp [this]
    · intro hh; exact absurd (Finset.mem_univ _) hh
  · rw [dif_neg h]
    apply Finset.sum_eq_zero
    intro i _
    have : ¬ i.val = j.val := by have := i.isLt; omega
    simp [this]

theorem rowSpan_diagL (c : List ℤ) (r n : ℕ) (hc : c.length ≤ r) :
    rowSpan (diagL c r n) = (redHom (fun i : Fin n => (c.getD i.val 0).natAbs)).ker := by
  ext v
  rw [redHom_ker]
  constructor
  · rintro ⟨a, rfl⟩ j
    show _ ∣ (a ᵥ* diagL c r n) j
    rw [diagL_vecMul]
    split
    · exact Dvd.dvd.mul_left (Int.natAbs_dvd.mpr (dvd_refl _)) _
    · exact dvd_zero _
  · intro h
    refine ⟨fun i => if hi : i.val < n then v ⟨i.val, hi⟩ / c.getD i.val 0 else 0, ?_⟩
    funext j
    show (_ ᵥ* diagL c r n) j = v j
    rw [diagL_vecMul]
    have hj := h j
    rw [Int.natAbs_dvd] at hj
    by_cases hr : j.val < r
    · rw [dif_pos hr]
      simp only [j.isLt, dif_pos]
      exact Int.ediv_mul_cancel hj
    · rw [dif_neg hr]
      have : c.getD j.val 0 = 0 := getD_default c j.val 0 (by omega)
      rw [this] at hj
      exact (zero_dvd_iff.mp hj).symm

/-- `ℤⁿ / rows(diag c) ≃ Π ZMod |cᵢ|` -/
theorem quot_diagL (c : List ℤ) (r n : ℕ) (hc : c.length ≤ r) :
    Nonempty (((Fin n → ℤ) ⧸ rowSpan (diagL c r n)) ≃+
      ((i : Fin n) → ZMod ((c.getD i.val 0).natAbs))) := by
  refine ⟨(QuotientAddGroup.quotientAddEquivOfEq (rowSpan_diagL c r n hc)).trans
    (QuotientAddGroup.quotientKerEquivOfSurjective _ (redHom_surjective _))⟩

end

end DSymVerif.Inv
