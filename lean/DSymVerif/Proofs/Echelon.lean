/-
`RowEchelonVecMatrix::new` (model `LA.echelon … true`) never panics — for every shape —
for any back-end whose `pivot_row`/`clear_col` are safe on in-range indices
(`Safe B E Q`: `E` an invariant of all matrix entries, `Q` the property `pivot_row`
guarantees of the pivot entry and `clear_col` needs of it).
-/
import DSymVerif.Proofs.Gcdx

namespace DSymVerif.LA

open DSymVerif

section loops
variable {σ : Type}

/-- loop rule: an invariant carried through `forLoop` -/
theorem forLoop_ok (f : Nat → σ → Outcome σ) (I : σ → Prop) :
    ∀ (n k : Nat) (s : σ), I s →
      (∀ j s, k ≤ j → j < k + n → I s → ∃ s', f j s = .ok s' ∧ I s') →
      ∃ s', forLoop f n k s = .ok s' ∧ I s' := by
  intro n
  induction n with
  | zero => intro k s hs _; exact ⟨s, rfl, hs⟩
  | succ n ih =>
    intro k s hs hstep
    obtain ⟨s1, h1, hI1⟩ := hstep k s (Nat.le_refl _) (by omega) hs
    unfold forLoop
    rw [h1]
    exact ih (k + 1) s1 hI1 (fun j s hj hj' => hstep j s (by omega) (by omega))

theorem forRange_ok (lo hi : Nat) (init : σ) (f : Nat → σ → Outcome σ) (I : σ → Prop)
    (h0 : I init) (hstep : ∀ j s, lo ≤ j → j < hi → I s → ∃ s', f j s = .ok s' ∧ I s') :
    ∃ s', forRange lo hi init f = .ok s' ∧ I s' := by
  unfold forRange
  exact forLoop_ok f I _ _ _ h0 (fun j s hj hj' => hstep j s hj (by omega))

end loops

section mat
variable {α : Type} {nr nc : Nat}

theorem Mat.get_ok (m : Mat α nr nc) {i j : Nat} (hi : i < nr) (hj : j < nc) :
    m.get i j = .ok ((m[i])[j]) := by
  simp [Mat.get, hi, hj]

theorem Mat.set_ok (m : Mat α nr nc) {i j : Nat} (hi : i < nr) (hj : j < nc) (x : α) :
    m.set i j x = .ok (Vector.set m i (Vector.set (m[i]) j x hj) hi) := by
  simp [Mat.set, hi, hj]

theorem Mat.swapRows_ok (m : Mat α nr nc) {i j : Nat} (hi : i < nr) (hj : j < nr) (hne : i ≠ j) :
    m.swapRows i j = .ok (Vector.swap m i j hi hj) := by
  simp [Mat.swapRows, hi, hj, hne]

/-- every entry satisfies `E` -/
def AllE (E : α → Prop) (m : Mat α nr nc) : Prop :=
  ∀ (i j : Nat) (hi : i < nr) (hj : j < nc), E ((m[i])[j])

theorem AllE.set {E : α → Prop} {m : Mat α nr nc} (h : AllE E m) {i j : Nat} (hi : i < nr)
    (hj : j < nc) {x : α} (hx : E x) : AllE E (Vector.set m i (Vector.set (m[i]) j x hj) hi) := by
  intro i' j' hi' hj'
  by_cases hii : i = i'
  · subst hii
    rw [Vector.getElem_set_self]
    by_cases hjj : j = j'
    · subst hjj; rw [Vector.getElem_set_self]; exact hx
    · rw [Vector.getElem_set_ne _ _ hjj]; exact h _ _ _ _
  · rw [Vector.getElem_set_ne _ _ hii]; exact h _ _ _ _

theorem AllE.swap {E : α → Prop} {m : Mat α nr nc} (h : AllE E m) {i j : Nat} (hi : i < nr)
    (hj : j < nr) : AllE E (Vector.swap m i j hi hj) := by
  intro i' j' hi' hj'
  rw [Vector.getElem_swap]
  split
  · exact h _ _ _ _
  · split <;> exact h _ _ _ _

theorem AllE.fill {E : α → Prop} {x : α} (hx : E x) : AllE E (Mat.fill x : Mat α nr nc) := by
  intro i j hi hj
  simp [Mat.fill, hx]

end mat

/-- what the generic elimination loop needs of a back-end -/
structure Safe {α : Type} (B : Backend α) (E : α → Prop) (Q : α → Prop) : Prop where
  zero : E B.zero
  one : E B.one
  add : ∀ a b, E a → E b → ∃ c, B.add a b = .ok c ∧ E c
  sub : ∀ a b, E a → E b → ∃ c, B.sub a b = .ok c ∧ E c
  mul : ∀ a b, E a → E b → ∃ c, B.mul a b = .ok c ∧ E c
  neg : ∀ a, E a → ∃ c, B.neg a = .ok c ∧ E c
  /-- `can_divide` never panics, and where it says yes the division is defined -/
  canDivide : ∀ a b, E a → E b →
    ∃ r, B.canDivide a b = .ok r ∧ (r = true → ∃ c, B.div a b = .ok c ∧ E c)
  pivot : ∀ {nr nc : Nat} (col row0 : Nat) (a : Mat α nr nc), AllE E a → (hc : col < nc) →
    row0 < nr →
    ∃ r, B.pivotRow col row0 a = .ok r ∧
      ∀ pr, r = some pr → row0 ≤ pr ∧ ∃ h : pr < nr, Q ((a[pr])[col])
  clear : ∀ {nr nc nx : Nat} (col row1 row2 : Nat) (a : Mat α nr nc) (x : Mat α nr nx),
    AllE E a → AllE E x → (hc : col < nc) → row1 < nr → (h2 : row2 < nr) → row1 ≠ row2 →
    Q ((a[row2])[col]) →
    ∃ a' x', B.clearCol col row1 row2 a x = .ok (a', x') ∧ AllE E a' ∧ AllE E x' ∧
      Q ((a'[row2])[col])

section echelon
variable {α : Type} {B : Backend α} {E Q : α → Prop}

theorem identity_ok (hs : Safe B E Q) (n : Nat) :
    ∃ m, identity B n = .ok m ∧ AllE E m := by
  unfold identity
  apply forRange_ok 0 n _ _ (AllE E) (AllE.fill hs.zero)
  intro j m _ hj hm
  exact ⟨_, Mat.set_ok m hj hj _, hm.set hj hj hs.one⟩

/-- invariant of the column loop -/
def EchInv (E : α → Prop) {nr nc : Nat} (st : EchState α nr nc) : Prop :=
  st.row ≤ nr ∧ AllE E st.u ∧ AllE E st.s ∧
    ∀ (i : Nat) (h : i < nr), i < st.row → st.cols[i] < nc

theorem colStep_ok (hs : Safe B E Q) {nr nc : Nat} (col : Nat) (hc : col < nc)
    (st : EchState α nr nc) (hst : EchInv E st) :
    ∃ st', colStep B true col st = .ok st' ∧ EchInv E st' := by
  obtain ⟨hrow, hu, hss, hcols⟩ := hst
  unfold colStep
  by_cases hfull : st.row = nr
  · simp only [hfull, Bool.true_and, beq_self_eq_true, if_true]
    exact ⟨st, rfl, hrow, hu, hss, hcols⟩
  · have hlt : st.row < nr := by omega
    simp only [Bool.true_and, beq_iff_eq, hfull, if_false]
    obtain ⟨r, hr, hpr⟩ := hs.pivot col st.row st.u hu hc hlt
    rw [hr]
    simp only [bind_ok]
    cases r with
    | none => exact ⟨st, rfl, hrow, hu, hss, hcols⟩
    | some pr =>
      obtain ⟨hle, hprlt, hq⟩ := hpr pr rfl
      simp only
      -- the optional swap
      have hswap : ∃ u1 s1 sw,
          (if pr ≠ st.row then
            (st.u.swapRows pr st.row).bind fun u => (st.s.swapRows pr st.row).bind fun s =>
              Outcome.ok (u, s, st.nrSwaps + 1)
           else Outcome.ok (st.u, st.s, st.nrSwaps)) = .ok (u1, s1, sw) ∧
            AllE E u1 ∧ AllE E s1 ∧ Q ((u1[st.row])[col]) := by
        by_cases hne : pr = st.row
        · subst hne
          exact ⟨st.u, st.s, st.nrSwaps, by simp, hu, hss, hq⟩
        · refine ⟨Vector.swap st.u pr st.row hprlt hlt, Vector.swap st.s pr st.row hprlt hlt,
            st.nrSwaps + 1, ?_, hu.swap _ _, hss.swap _ _, ?_⟩
          · simp [hne, Mat.swapRows_ok _ hprlt hlt hne]
          · have : (Vector.swap st.u pr st.row hprlt hlt)[st.row] = st.u[pr] := by
              rw [Vector.getElem_swap]; simp [Ne.symm hne]
            simp only [this]; exact hq
      obtain ⟨u1, s1, sw, h1, hu1, hs1, hq1⟩ := hswap
      rw [h1]
      simp only [bind_ok]
      -- the clearing loop
      obtain ⟨us, hus, hI⟩ := forRange_ok (st.row + 1) nr (u1, s1)
        (fun r us => B.clearCol col r st.row us.1 us.2)
        (fun us => AllE E us.1 ∧ AllE E us.2 ∧ Q ((us.1[st.row])[col]))
        ⟨hu1, hs1, hq1⟩
        (by
          intro r us hr1 hr2 ⟨ha, hx, hqq⟩
          obtain ⟨a', x', hcl, ha', hx', hq'⟩ :=
            hs.clear col r st.row us.1 us.2 ha hx hc hr2 hlt (by omega) hqq
          exact ⟨(a', x'), hcl, ha', hx', hq'⟩)
      rw [hus]
      simp only [bind_ok, hlt, dite_true]
      refine ⟨_, rfl, by simp only; omega, hI.1, hI.2.1, ?_⟩
      intro i hi hi'
      simp only at hi' ⊢
      by_cases hir : st.row = i
      · subst hir; rw [Vector.getElem_set_self]; exact hc
      · rw [Vector.getElem_set_ne _ _ hir]; exact hcols i hi (by omega)

/-- `RowEchelonVecMatrix::new` returns — no assertion fails, no index is out of range —
    for every shape `nr × nc`; `rank ≤ nr` and the recorded pivot columns are in range. -/
theorem echelon_ok (hs : Safe B E Q) {nr nc : Nat} (m : Mat α nr nc) (hm : AllE E m) :
    ∃ re, echelon B true m = .ok re ∧ re.rank ≤ nr ∧ AllE E re.multiplier ∧ AllE E re.result ∧
      ∀ (i : Nat) (h : i < nr), i < re.rank → re.columns[i] < nc := by
  unfold echelon
  obtain ⟨s0, h0, hs0⟩ := identity_ok hs nr
  rw [h0]
  simp only [bind_ok]
  obtain ⟨st, hst, hI⟩ := forRange_ok 0 nc
    ({ u := m, s := s0, row := 0, nrSwaps := 0, cols := Vector.replicate nr nr } : EchState α nr nc)
    (colStep B true) (EchInv E) ⟨Nat.zero_le _, hm, hs0, fun i _ hi => by simp at hi⟩
    (fun col st _ hc hst => colStep_ok hs col hc st hst)
  rw [hst]
  exact ⟨_, rfl, hI.1, hI.2.2.1, hI.2.1, hI.2.2.2⟩

end echelon

end DSymVerif.LA
