/-
The divisibility pass of `abelian_invariants` (`chainPass`) and the final formatting (`finish`).
For every list `f` (with `n = f.length`, as in the code):
  * the zero pattern (hence the number of zeros) is unchanged,
  * the product of the absolute values of the non-zero entries is unchanged,
  * the result is a divisibility chain: `i < j → r[i] ≠ 0 → r[i] ∣ r[j]`,
  * non-negative entries stay non-negative (so no factor `-1` can survive the `!= 1` filter).
`finish` sorts, drops the ones and appends `nr_gens − n` zeros.
-/
import DSymVerif.Proofs.InvariantsGcdx
import Mathlib.Tactic.Ring
import Mathlib.Tactic.Linarith

namespace DSymVerif.Inv

/-! ### list plumbing -/

theorem getD_set' (l : List Int) (i k : Nat) (x : Int) :
    (List.set l i x).getD k 0 = if i = k ∧ i < l.length then x else l.getD k 0 := by
  simp only [List.getD_eq_getElem?_getD, List.getElem?_set]
  by_cases h : i = k
  · subst h
    by_cases h2 : i < l.length
    · simp [h2]
    · simp [h2, List.getElem?_eq_none (Nat.le_of_not_lt h2)]
  · simp [h]

theorem getD_ne_zero_lt {l : List Int} {i : Nat} (h : l.getD i 0 ≠ 0) : i < l.length := by
  by_contra hc
  apply h
  simp [List.getD_eq_getElem?_getD, List.getElem?_eq_none (Nat.le_of_not_lt hc)]

theorem getD_mem {l : List Int} {i : Nat} (h : i < l.length) : l.getD i 0 ∈ l := by
  simp [List.getD_eq_getElem?_getD, List.getElem?_eq_getElem h]

theorem foldl_preserves {α β : Type} (P : β → Prop) (g : β → α → β) (Q : α → Prop)
    (h : ∀ b x, Q x → P b → P (g b x)) (l : List α) (hl : ∀ x ∈ l, Q x) (b : β) (hb : P b) :
    P (l.foldl g b) := by
  induction l generalizing b with
  | nil => exact hb
  | cons x l ih =>
    exact ih (fun y hy => hl y (List.mem_cons_of_mem _ hy)) _ (h b x (hl x List.mem_cons_self) hb)

/-! ### one step -/

/-- the step either does nothing or rewrites `(a, b) = (f[i], f[j])` to `(g, a / g * b)` -/
theorem chainInner_cases (i : Nat) (f : List Int) (j : Nat) :
    chainInner i f j = f ∨
    (f.getD i 0 ≠ 0 ∧ (f.getD j 0).tmod (f.getD i 0) ≠ 0 ∧
      chainInner i f j = List.set (List.set f i (gcdx (f.getD i 0) (f.getD j 0)).1) j
        ((f.getD i 0).tdiv (gcdx (f.getD i 0) (f.getD j 0)).1 * f.getD j 0)) := by
  unfold chainInner
  by_cases h : f.getD i 0 ≠ 0 ∧ (f.getD j 0).tmod (f.getD i 0) ≠ 0
  · right; exact ⟨h.1, h.2, by rw [if_pos h]⟩
  · left; rw [if_neg h]

theorem chainInner_length (i : Nat) (f : List Int) (j : Nat) :
    (chainInner i f j).length = f.length := by
  rcases chainInner_cases i f j with h | ⟨_, _, h⟩ <;> rw [h] <;> simp

/-- arithmetic of the rewritten pair -/
theorem pair_facts (a b : Int) (ha : a ≠ 0) (hb : b.tmod a ≠ 0) :
    b ≠ 0 ∧ (gcdx a b).1 ≠ 0 ∧ a.tdiv (gcdx a b).1 * b ≠ 0 ∧
    (gcdx a b).1 * (a.tdiv (gcdx a b).1 * b) = a * b := by
  have hb0 : b ≠ 0 := by
    intro h; apply hb; rw [h]; exact Int.zero_tmod a
  have hg0 : (gcdx a b).1 ≠ 0 := gcdx_fst_ne_zero a b (Or.inl ha)
  have hga : (gcdx a b).1 ∣ a := gcdx_fst_dvd_left a b
  have hmul : (gcdx a b).1 * a.tdiv (gcdx a b).1 = a := Int.mul_tdiv_cancel' hga
  have hq0 : a.tdiv (gcdx a b).1 ≠ 0 := by
    intro h; rw [h, Int.mul_zero] at hmul; exact ha hmul.symm
  refine ⟨hb0, hg0, Int.mul_ne_zero hq0 hb0, ?_⟩
  rw [← Int.mul_assoc, hmul]

/-! ### zero pattern -/

def zpat (f : List Int) : List Bool := f.map (fun x => decide (x = 0))

theorem zpat_set_same (f : List Int) (i : Nat) (x : Int)
    (h : decide (x = 0) = decide (f.getD i 0 = 0)) (hi : i < f.length) :
    zpat (List.set f i x) = zpat f := by
  unfold zpat
  rw [List.map_set, h]
  apply List.ext_getElem?
  intro k
  rw [List.getElem?_set]
  by_cases hk : i = k
  · subst hk
    simp [hi, List.getD_eq_getElem?_getD, List.getElem?_eq_getElem hi]
  · simp [hk]

theorem chainInner_zpat (i : Nat) (f : List Int) (j : Nat) (hij : i < j) :
    zpat (chainInner i f j) = zpat f := by
  rcases chainInner_cases i f j with h | ⟨ha, hb, h⟩
  · rw [h]
  · obtain ⟨hb0, hg0, hy0, _⟩ := pair_facts _ _ ha hb
    have hi := getD_ne_zero_lt ha
    have hj := getD_ne_zero_lt hb0
    rw [h, zpat_set_same, zpat_set_same]
    · rw [decide_eq_false hg0, decide_eq_false ha]
    · exact hi
    · rw [getD_set']
      have : ¬ (i = j ∧ i < f.length) := by omega
      rw [if_neg this, decide_eq_false hy0, decide_eq_false hb0]
    · simpa using hj

/-! ### product of the non-zero entries -/

def nz (x : Int) : Nat := if x = 0 then 1 else x.natAbs

def nzProd : List Int → Nat
  | [] => 1
  | x :: xs => nz x * nzProd xs

theorem nz_pos (x : Int) : 0 < nz x := by
  unfold nz; split <;> omega

theorem nz_of_ne {x : Int} (h : x ≠ 0) : nz x = x.natAbs := by simp [nz, h]

theorem nzProd_set (f : List Int) (i : Nat) (x : Int) (hi : i < f.length) :
    nzProd (List.set f i x) * nz (f.getD i 0) = nzProd f * nz x := by
  induction f generalizing i with
  | nil => simp at hi
  | cons y f ih =>
    cases i with
    | zero => simp [nzProd]; ring
    | succ i =>
      have hi' : i < f.length := by simpa using hi
      have := ih i hi'
      simp only [List.set_cons_succ, nzProd, List.getD_cons_succ]
      calc nz y * nzProd (List.set f i x) * nz (f.getD i 0)
          = nz y * (nzProd (List.set f i x) * nz (f.getD i 0)) := by ring
        _ = nz y * (nzProd f * nz x) := by rw [this]
        _ = nz y * nzProd f * nz x := by ring

theorem chainInner_nzProd (i : Nat) (f : List Int) (j : Nat) (hij : i < j) :
    nzProd (chainInner i f j) = nzProd f := by
  rcases chainInner_cases i f j with h | ⟨ha, hb, h⟩
  · rw [h]
  · obtain ⟨hb0, hg0, hy0, hprod⟩ := pair_facts _ _ ha hb
    have hi := getD_ne_zero_lt ha
    have hj := getD_ne_zero_lt hb0
    rw [h]
    have e1 := nzProd_set f i (gcdx (f.getD i 0) (f.getD j 0)).1 hi
    have e2 := nzProd_set (List.set f i (gcdx (f.getD i 0) (f.getD j 0)).1) j
      ((f.getD i 0).tdiv (gcdx (f.getD i 0) (f.getD j 0)).1 * f.getD j 0) (by simpa using hj)
    rw [getD_set'] at e2
    have hne : ¬ (i = j ∧ i < f.length) := by omega
    simp only [hne, if_false] at e2
    rw [nz_of_ne hy0, nz_of_ne hb0] at e2
    rw [nz_of_ne ha, nz_of_ne hg0] at e1
    have hp : (gcdx (f.getD i 0) (f.getD j 0)).1.natAbs *
        ((f.getD i 0).tdiv (gcdx (f.getD i 0) (f.getD j 0)).1 * f.getD j 0).natAbs
        = (f.getD i 0).natAbs * (f.getD j 0).natAbs := by
      rw [← Int.natAbs_mul, hprod, Int.natAbs_mul]
    have ha' : 0 < (f.getD i 0).natAbs := Int.natAbs_pos.mpr ha
    have hb' : 0 < (f.getD j 0).natAbs := Int.natAbs_pos.mpr hb0
    -- P2 * |b| = P1 * |y| ,  P1 * |a| = P * |g|   ⇒   P2 * (|a| |b|) = P * (|g| |y|) = P * (|a| |b|)
    have : nzProd (List.set (List.set f i (gcdx (f.getD i 0) (f.getD j 0)).1) j
        ((f.getD i 0).tdiv (gcdx (f.getD i 0) (f.getD j 0)).1 * f.getD j 0))
        * ((f.getD i 0).natAbs * (f.getD j 0).natAbs)
        = nzProd f * ((f.getD i 0).natAbs * (f.getD j 0).natAbs) := by
      calc _ = (nzProd (List.set (List.set f i (gcdx (f.getD i 0) (f.getD j 0)).1) j
            ((f.getD i 0).tdiv (gcdx (f.getD i 0) (f.getD j 0)).1 * f.getD j 0))
            * (f.getD j 0).natAbs) * (f.getD i 0).natAbs := by ring
        _ = (nzProd (List.set f i (gcdx (f.getD i 0) (f.getD j 0)).1)
            * ((f.getD i 0).tdiv (gcdx (f.getD i 0) (f.getD j 0)).1 * f.getD j 0).natAbs)
            * (f.getD i 0).natAbs := by rw [e2]
        _ = (nzProd (List.set f i (gcdx (f.getD i 0) (f.getD j 0)).1) * (f.getD i 0).natAbs)
            * ((f.getD i 0).tdiv (gcdx (f.getD i 0) (f.getD j 0)).1 * f.getD j 0).natAbs := by ring
        _ = (nzProd f * (gcdx (f.getD i 0) (f.getD j 0)).1.natAbs)
            * ((f.getD i 0).tdiv (gcdx (f.getD i 0) (f.getD j 0)).1 * f.getD j 0).natAbs := by rw [e1]
        _ = nzProd f * ((gcdx (f.getD i 0) (f.getD j 0)).1.natAbs
            * ((f.getD i 0).tdiv (gcdx (f.getD i 0) (f.getD j 0)).1 * f.getD j 0).natAbs) := by ring
        _ = _ := by rw [hp]
    exact Nat.eq_of_mul_eq_mul_right (Nat.mul_pos ha' hb') this

/-! ### signs -/

theorem chainInner_nonneg (i : Nat) (f : List Int) (j : Nat) (hf : ∀ x ∈ f, 0 ≤ x) :
    ∀ x ∈ chainInner i f j, 0 ≤ x := by
  rcases chainInner_cases i f j with h | ⟨ha, hb, h⟩
  · rw [h]; exact hf
  · obtain ⟨hb0, _, _, _⟩ := pair_facts _ _ ha hb
    have hi := getD_ne_zero_lt ha
    have hj := getD_ne_zero_lt hb0
    have ha0 : 0 ≤ f.getD i 0 := hf _ (getD_mem hi)
    have hb0' : 0 ≤ f.getD j 0 := hf _ (getD_mem hj)
    have hg : 0 ≤ (gcdx (f.getD i 0) (f.getD j 0)).1 := gcdx_nonneg _ _ ha0 hb0'
    intro x hx
    rw [h] at hx
    rcases List.mem_or_eq_of_mem_set hx with hx | hx
    · rcases List.mem_or_eq_of_mem_set hx with hx | hx
      · exact hf x hx
      · rw [hx]; exact hg
    · rw [hx]; exact Int.mul_nonneg (Int.tdiv_nonneg ha0 hg) hb0'

/-! ### divisibility chain -/

/-- rows `< i` are finished: each non-zero entry divides everything to its right -/
def DivBefore (f : List Int) (i : Nat) : Prop :=
  ∀ p q, p < i → p < q → q < f.length → f.getD p 0 ≠ 0 → f.getD p 0 ∣ f.getD q 0

/-- row `i` is finished up to column `j` (exclusive) -/
def DivRow (f : List Int) (i j : Nat) : Prop :=
  ∀ q, i < q → q < j → q < f.length → f.getD i 0 ≠ 0 → f.getD i 0 ∣ f.getD q 0

theorem chainInner_div (i : Nat) (f : List Int) (j : Nat) (hij : i < j)
    (hB : DivBefore f i) (hR : DivRow f i j) :
    DivBefore (chainInner i f j) i ∧ DivRow (chainInner i f j) i (j + 1) := by
  rcases chainInner_cases i f j with h | ⟨ha, hb, h⟩
  · -- nothing changed: either a = 0, or a ∣ b
    rw [h]
    refine ⟨hB, ?_⟩
    intro q hiq hqj hql ha
    by_cases hq : q = j
    · subst hq
      unfold chainInner at h
      by_cases hc : f.getD i 0 ≠ 0 ∧ (f.getD q 0).tmod (f.getD i 0) ≠ 0
      · -- then the step did change f[i] … but the result equals f: f[i] = g, still g ∣ b
        rw [if_pos hc] at h
        have hgi : (List.set (List.set f i (gcdx (f.getD i 0) (f.getD q 0)).1) q
            ((f.getD i 0).tdiv (gcdx (f.getD i 0) (f.getD q 0)).1 * f.getD q 0)).getD i 0
            = f.getD i 0 := by rw [h]
        rw [getD_set', getD_set'] at hgi
        have hil : i < f.length := getD_ne_zero_lt ha
        have h1 : ¬ (q = i ∧ q < (List.set f i (gcdx (f.getD i 0) (f.getD q 0)).1).length) := by omega
        simp only [h1, if_false, hil, and_self, if_true] at hgi
        rw [← hgi]; exact gcdx_fst_dvd_right _ _
      · have : (f.getD q 0).tmod (f.getD i 0) = 0 := by
          by_contra hne; exact hc ⟨ha, hne⟩
        exact Int.dvd_of_tmod_eq_zero this
    · exact hR q hiq (by omega) hql ha
  · obtain ⟨hb0, hg0, hy0, _⟩ := pair_facts _ _ ha hb
    have hi := getD_ne_zero_lt ha
    have hj := getD_ne_zero_lt hb0
    have hga := gcdx_fst_dvd_left (f.getD i 0) (f.getD j 0)
    have hgb := gcdx_fst_dvd_right (f.getD i 0) (f.getD j 0)
    have hbez := (gcdx_spec' (f.getD i 0) (f.getD j 0)).1
    -- entries of the new list
    have hget : ∀ k, (chainInner i f j).getD k 0 =
        if k = j then (f.getD i 0).tdiv (gcdx (f.getD i 0) (f.getD j 0)).1 * f.getD j 0
        else if k = i then (gcdx (f.getD i 0) (f.getD j 0)).1 else f.getD k 0 := by
      intro k
      rw [h, getD_set', getD_set']
      simp only [List.length_set]
      split_ifs <;> first | rfl | omega
    have hlen : (chainInner i f j).length = f.length := chainInner_length i f j
    constructor
    · intro p q hpi hpq hql hp0
      rw [hlen] at hql
      rw [hget p] at hp0 ⊢
      have hpj : p ≠ j := by omega
      have hpi' : p ≠ i := by omega
      simp only [hpj, hpi', if_false] at hp0 ⊢
      have dA : f.getD p 0 ∣ f.getD i 0 := hB p i hpi hpi hi hp0
      have dB : f.getD p 0 ∣ f.getD j 0 := hB p j hpi (by omega) hj hp0
      rw [hget q]
      by_cases hqj : q = j
      · simp only [hqj, if_true]; exact Dvd.dvd.mul_left dB _
      · simp only [hqj, if_false]
        by_cases hqi : q = i
        · simp only [hqi, if_true]
          rw [← hbez]
          exact Int.dvd_add (Dvd.dvd.mul_left dA _) (Dvd.dvd.mul_left dB _)
        · simp only [hqi, if_false]; exact hB p q hpi hpq hql hp0
    · intro q hiq hqj hql _
      rw [hlen] at hql
      rw [hget i, hget q]
      have hij' : i ≠ j := by omega
      simp only [hij', if_false, if_true]
      by_cases hq : q = j
      · simp only [hq, if_true]; exact Dvd.dvd.mul_left hgb _
      · have hqi : q ≠ i := by omega
        simp only [hq, hqi, if_false]
        exact Int.dvd_trans hga (hR q hiq (by omega) hql ha)

theorem chainRow_aux (i n : Nat) (k s : Nat) (f : List Int) (hs : s + k = n) (his : i < s)
    (hn : n = f.length) (hB : DivBefore f i) (hR : DivRow f i s) :
    DivBefore ((List.range' s k).foldl (chainInner i) f) i ∧
    DivRow ((List.range' s k).foldl (chainInner i) f) i n ∧
    ((List.range' s k).foldl (chainInner i) f).length = f.length := by
  induction k generalizing s f with
  | zero =>
    simp only [List.range'_zero, List.foldl_nil]
    have : s = n := by omega
    subst this
    exact ⟨hB, hR, trivial⟩
  | succ k ih =>
    rw [List.range'_succ, List.foldl_cons]
    obtain ⟨hB', hR'⟩ := chainInner_div i f s his hB hR
    have hl := chainInner_length i f s
    obtain ⟨a, b, c⟩ := ih (s + 1) (chainInner i f s) (by omega) (by omega) (by rw [hl]; exact hn) hB' hR'
    exact ⟨a, b, by rw [c, hl]⟩

theorem chainRow_div (n i : Nat) (f : List Int) (hn : n = f.length) (hi : i < n)
    (hB : DivBefore f i) :
    DivBefore (chainRow n f i) (i + 1) ∧ (chainRow n f i).length = f.length := by
  unfold chainRow
  obtain ⟨a, b, c⟩ := chainRow_aux i n (n - (i + 1)) (i + 1) f (by omega) (by omega) hn hB
    (by intro q h1 h2; omega)
  refine ⟨?_, c⟩
  intro p q hp hpq hql hp0
  by_cases hpi : p = i
  · subst hpi
    exact b q hpq (by rw [c] at hql; omega) hql hp0
  · exact a p q (by omega) hpq hql hp0

theorem chainPass_aux (n : Nat) (f : List Int) (hn : n = f.length) (k : Nat) (hk : k ≤ n) :
    DivBefore ((List.range k).foldl (chainRow n) f) k ∧
    ((List.range k).foldl (chainRow n) f).length = f.length := by
  induction k with
  | zero => exact ⟨by intro p q hp; omega, rfl⟩
  | succ k ih =>
    obtain ⟨a, b⟩ := ih (by omega)
    rw [List.range_succ, List.foldl_append]
    simp only [List.foldl_cons, List.foldl_nil]
    obtain ⟨c, d⟩ := chainRow_div n k _ (by rw [b]; exact hn) (by omega) a
    exact ⟨c, by rw [d, b]⟩

/-- any predicate kept by every single step is kept by the whole pass -/
theorem chainPass_preserves (P : List Int → Prop)
    (h : ∀ f i j, i < j → P f → P (chainInner i f j)) (n : Nat) (f : List Int) (hf : P f) :
    P (chainPass n f) := by
  unfold chainPass
  apply foldl_preserves P (chainRow n) (fun _ => True) _ _ (fun _ _ => trivial) f hf
  intro f i _ hf
  unfold chainRow
  apply foldl_preserves P (chainInner i) (fun j => i < j) _ _ _ f hf
  · intro f j hij hf; exact h f i j hij hf
  · intro j hj; rw [List.mem_range'_1] at hj; omega

/-! ### the pass as a whole -/

theorem chainPass_length (f : List Int) : (chainPass f.length f).length = f.length :=
  (chainPass_aux f.length f rfl f.length (Nat.le_refl _)).2

theorem chainPass_zpat (n : Nat) (f : List Int) : zpat (chainPass n f) = zpat f :=
  chainPass_preserves (fun g => zpat g = zpat f)
    (fun g i j hij hg => by rw [chainInner_zpat i g j hij]; exact hg) n f rfl

theorem chainPass_nzProd (n : Nat) (f : List Int) : nzProd (chainPass n f) = nzProd f :=
  chainPass_preserves (fun g => nzProd g = nzProd f)
    (fun g i j hij hg => by rw [chainInner_nzProd i g j hij]; exact hg) n f rfl

theorem chainPass_nonneg (n : Nat) (f : List Int) (hf : ∀ x ∈ f, 0 ≤ x) :
    ∀ x ∈ chainPass n f, 0 ≤ x :=
  chainPass_preserves (fun g => ∀ x ∈ g, 0 ≤ x)
    (fun g i j _ hg => chainInner_nonneg i g j hg) n f hf

theorem chainPass_chain (f : List Int) (i j : Nat) (hij : i < j) (hj : j < f.length)
    (h0 : (chainPass f.length f).getD i 0 ≠ 0) :
    (chainPass f.length f).getD i 0 ∣ (chainPass f.length f).getD j 0 := by
  obtain ⟨a, b⟩ := chainPass_aux f.length f rfl f.length (Nat.le_refl _)
  exact a i j (by omega) hij (by rw [b]; exact hj) h0

theorem count_zero_of_zpat {f g : List Int} (h : zpat f = zpat g) : f.count 0 = g.count 0 := by
  induction f generalizing g with
  | nil =>
    cases g with
    | nil => rfl
    | cons y g => simp [zpat] at h
  | cons x f ih =>
    cases g with
    | nil => simp [zpat] at h
    | cons y g =>
      simp only [zpat, List.map_cons, List.cons.injEq] at h
      have := ih (g := g) h.2
      rw [List.count_cons, List.count_cons, this]
      have hxy : (x = 0) ↔ (y = 0) := by simpa using h.1
      by_cases hx : x = 0
      · have hy := hxy.mp hx; simp [hx, hy]
      · have hy : ¬ y = 0 := fun hy => hx (hxy.mpr hy); simp [hx, hy]

theorem chainPass_count_zero (n : Nat) (f : List Int) : (chainPass n f).count 0 = f.count 0 :=
  count_zero_of_zpat (chainPass_zpat n f)

/-! ### `finish`: filter `!= 1`, pad zeros, `abs`, sort -/

theorem leNat_trans (a b c : Nat) : leNat a b = true → leNat b c = true → leNat a c = true := by
  unfold leNat; simp only [decide_eq_true_eq]; omega

theorem leNat_total (a b : Nat) : (leNat a b || leNat b a) = true := by
  unfold leNat; simp only [Bool.or_eq_true, decide_eq_true_eq]; omega

/-- the output is ascending -/
theorem finish_sorted (nrGens n : Nat) (fs : List Int) :
    List.Pairwise (fun a b => a ≤ b) (finish nrGens n fs) := by
  unfold finish
  have := List.pairwise_mergeSort leNat_trans leNat_total
    ((fs.filter (fun x => x ≠ 1) ++ List.replicate (nrGens - n) 0).map Int.natAbs)
  exact this.imp (by intro a b h; simpa [leNat] using h)

/-- … and is a rearrangement of the factors `≠ 1` (absolute values) and `nr_gens − n` zeros -/
theorem finish_perm (nrGens n : Nat) (fs : List Int) :
    (finish nrGens n fs).Perm
      ((fs.filter (fun x => x ≠ 1)).map Int.natAbs ++ List.replicate (nrGens - n) 0) := by
  unfold finish
  refine (List.mergeSort_perm _ _).trans ?_
  simp

/-- no entry `1` in the output when the factors are non-negative -/
theorem finish_no_one (nrGens n : Nat) (fs : List Int) (hf : ∀ x ∈ fs, 0 ≤ x) :
    1 ∉ finish nrGens n fs := by
  intro h
  have := (finish_perm nrGens n fs).mem_iff.mp h
  rcases List.mem_append.mp this with h | h
  · obtain ⟨x, hx, hx1⟩ := List.mem_map.mp h
    have hxm := List.mem_filter.mp hx
    have h0 := hf x hxm.1
    have : x = 1 := by omega
    simp [this] at hxm
  · have := List.eq_of_mem_replicate h
    omega

/-- number of zeros of the output -/
theorem finish_count_zero (nrGens n : Nat) (fs : List Int) :
    (finish nrGens n fs).count 0 = fs.count 0 + (nrGens - n) := by
  rw [(finish_perm nrGens n fs).count_eq, List.count_append, List.count_replicate]
  simp only [beq_self_eq_true, if_true]
  congr 1
  induction fs with
  | nil => rfl
  | cons x fs ih =>
    by_cases hx : x = 1
    · have e : List.filter (fun x => decide (x ≠ 1)) (x :: fs)
          = List.filter (fun x => decide (x ≠ 1)) fs := by
        rw [List.filter_cons]; simp [hx]
      rw [e, ih, List.count_cons]; simp [hx]
    · have e : List.filter (fun x => decide (x ≠ 1)) (x :: fs)
          = x :: List.filter (fun x => decide (x ≠ 1)) fs := by
        rw [List.filter_cons]; simp [hx]
      rw [e, List.map_cons, List.count_cons, List.count_cons, ih]
      by_cases h0 : x = 0
      · simp [h0]
      · have : x.natAbs ≠ 0 := by omega
        simp [h0, this]

end DSymVerif.Inv
