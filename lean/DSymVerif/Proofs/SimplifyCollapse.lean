/-
`collapse` of simplify.rs (model `Simp.collapse`) on a removed set closed under the connector:
the numbering loop (`src2img` / `img2src` mutually inverse on kept chambers), termination of the
inner `while src2img[e] == 0` loop (pigeonhole on the permutation `s_i s_c`), involutivity of the
closure handed to `build_set`, and the chamber-by-chamber description of the result.
-/
import DSymVerif.Proofs.SimplifyTile
import DSymVerif.Proofs.DSetOrbit

namespace DSymVerif.Simp
open DSymVerif DSymVerif.DS

/-! ### the membership array -/

theorem markOf_fold_size (xs : List Nat) (a : Array Bool) :
    (xs.foldl (fun (a : Array Bool) x => a.setIfInBounds x true) a).size = a.size := by
  induction xs generalizing a with
  | nil => rfl
  | cons x xs ih => rw [List.foldl_cons, ih]; simp

theorem markOf_fold_getD (xs : List Nat) (a : Array Bool) (k : Nat) (hk : k < a.size) :
    (xs.foldl (fun (a : Array Bool) x => a.setIfInBounds x true) a).getD k false = true ↔
      (k ∈ xs ∨ a.getD k false = true) := by
  induction xs generalizing a with
  | nil => simp
  | cons x xs ih =>
    rw [List.foldl_cons, ih _ (by simpa using hk), BS.getD_setIfInBounds]
    by_cases h : x = k
    · subst h; simp [hk]
    · simp only [List.mem_cons]
      constructor
      · rintro (h1 | h1)
        · exact Or.inl (Or.inr h1)
        · rw [if_neg (by intro hh; exact h hh.1)] at h1; exact Or.inr h1
      · rintro ((h1 | h1) | h1)
        · exact absurd h1.symm h
        · exact Or.inl h1
        · rw [if_neg (by intro hh; exact h hh.1)]; exact Or.inr h1

theorem markOf_size (size : Nat) (xs : List Nat) : (markOf size xs).size = size + 1 := by
  unfold markOf; rw [markOf_fold_size]; simp

theorem markOf_getD {size : Nat} {xs : List Nat} {k : Nat} (hk : k ≤ size) :
    (markOf size xs).getD k false = true ↔ k ∈ xs := by
  unfold markOf
  rw [markOf_fold_getD _ _ _ (by simp; omega), BS.getD_replicate]
  simp


theorem toList_eq_map_range (a : Array Bool) : a.toList = (List.range a.size).map (fun j => a.getD j false) := by
  apply List.ext_getElem
  · simp
  · intro i h1 h2
    simp only [Array.getElem_toList, List.getElem_map, List.getElem_range]
    simp only [Array.length_toList] at h1
    simp [Array.getD, h1]

theorem filter_length_add (l : List Nat) (p : Nat → Bool) :
    (l.filter p).length + (l.filter (fun x => !p x)).length = l.length := by
  induction l with
  | nil => rfl
  | cons x l ih =>
    simp only [List.filter_cons]
    cases p x <;> simp <;> omega

/-- number of unmarked chambers among 1..k -/
def keptCount (mark : Array Bool) (k : Nat) : Nat :=
  ((List.range k).filter (fun d0 => !(mark.getD (d0 + 1) false))).length

theorem count_split (mark : Array Bool) (n : Nat) (hs : mark.size = n + 1) (h0 : mark.getD 0 false = false) :
    (mark.toList.filter id).length + keptCount mark n = n := by
  rw [toList_eq_map_range, hs, List.filter_map, List.length_map, List.range_succ_eq_map]
  simp only [List.filter_cons, Function.comp, id, h0]
  simp only [Bool.false_eq_true, if_false, List.filter_map, List.length_map]
  unfold keptCount
  have := filter_length_add (List.range n) (fun d0 => mark.getD (d0 + 1) false)
  rw [List.length_range] at this
  exact this


theorem keptCount_succ (mark : Array Bool) (k : Nat) :
    keptCount mark (k + 1) = keptCount mark k + (if mark.getD (k + 1) false then 0 else 1) := by
  unfold keptCount
  rw [List.range_succ, List.filter_append, List.length_append]
  simp only [List.filter_cons, List.filter_nil]
  cases mark.getD (k + 1) false <;> simp

theorem keptCount_le (mark : Array Bool) (k : Nat) : keptCount mark k ≤ k := by
  unfold keptCount
  have := List.length_filter_le (fun d0 => !(mark.getD (d0 + 1) false)) (List.range k)
  simpa using this

/-- body of the numbering loop of `collapse` -/
def renumStep (mark : Array Bool) (st : Array Nat × Array Nat × Nat) (d0 : Nat) : Array Nat × Array Nat × Nat :=
  if mark.getD (d0 + 1) false then st
  else (st.1.setIfInBounds (d0 + 1) st.2.2, st.2.1.setIfInBounds st.2.2 (d0 + 1), st.2.2 + 1)

theorem renumber_eq (size : Nat) (mark : Array Bool) :
    renumber size mark =
      { src2img := ((List.range size).foldl (renumStep mark)
          (Array.replicate (size + 1) 0, Array.replicate (size + 1) 0, 1)).1,
        img2src := ((List.range size).foldl (renumStep mark)
          (Array.replicate (size + 1) 0, Array.replicate (size + 1) 0, 1)).2.1 } := rfl

/-- invariant of the numbering loop after the chambers 1..k -/
structure RInv (N : Nat) (mark : Array Bool) (k : Nat) (st : Array Nat × Array Nat × Nat) : Prop where
  s1 : st.1.size = N + 1
  s2 : st.2.1.size = N + 1
  nx : st.2.2 = 1 + keptCount mark k
  kept : ∀ d, 1 ≤ d → d ≤ k → mark.getD d false = false →
    1 ≤ st.1.getD d 0 ∧ st.1.getD d 0 < st.2.2 ∧ st.2.1.getD (st.1.getD d 0) 0 = d
  rem : ∀ d, (k < d ∨ mark.getD d false = true ∨ d = 0) → st.1.getD d 0 = 0
  img : ∀ j, 1 ≤ j → j < st.2.2 →
    1 ≤ st.2.1.getD j 0 ∧ st.2.1.getD j 0 ≤ k ∧ mark.getD (st.2.1.getD j 0) false = false ∧
      st.1.getD (st.2.1.getD j 0) 0 = j

theorem RInv.init (N : Nat) (mark : Array Bool) :
    RInv N mark 0 (Array.replicate (N + 1) 0, Array.replicate (N + 1) 0, 1) := by
  refine ⟨by simp, by simp, by simp [keptCount], ?_, ?_, ?_⟩
  · intro d h1 h2; omega
  · intro d _; exact BS.getD_replicate _ _ _
  · intro j h1 h2; simp only at h2; omega

theorem RInv.step {N : Nat} {mark : Array Bool} {k : Nat} {st : Array Nat × Array Nat × Nat}
    (h : RInv N mark k st) (hk : k < N) : RInv N mark (k + 1) (renumStep mark st k) := by
  have hle := keptCount_le mark k
  unfold renumStep
  by_cases hm : mark.getD (k + 1) false = true
  · rw [if_pos hm]
    refine ⟨h.s1, h.s2, by rw [h.nx, keptCount_succ, if_pos hm]; rfl, ?_, ?_, ?_⟩
    · intro d h1 h2 h3
      have : d ≤ k := by
        by_cases hd : d = k + 1
        · subst hd; rw [hm] at h3; cases h3
        · omega
      exact h.kept d h1 this h3
    · intro d hd
      by_cases hd' : d = k + 1
      · subst hd'; exact h.rem _ (Or.inl (by omega))
      · apply h.rem
        rcases hd with hd | hd | hd
        · exact Or.inl (by omega)
        · exact Or.inr (Or.inl hd)
        · exact Or.inr (Or.inr hd)
    · intro j h1 h2
      obtain ⟨a, b, c, d⟩ := h.img j h1 h2
      exact ⟨a, by omega, c, d⟩
  · rw [if_neg hm]
    have hm' : mark.getD (k + 1) false = false := by
      cases hx : mark.getD (k + 1) false with
      | true => exact absurd hx hm
      | false => rfl
    have hnx := h.nx
    have hnb : st.2.2 < st.2.1.size := by rw [h.s2]; omega
    have hdb : k + 1 < st.1.size := by rw [h.s1]; omega
    refine ⟨by simp [h.s1], by simp [h.s2], ?_, ?_, ?_, ?_⟩
    · show st.2.2 + 1 = _
      rw [keptCount_succ, if_neg hm]; omega
    · intro d h1 h2 h3
      show 1 ≤ (st.1.setIfInBounds (k + 1) st.2.2).getD d 0 ∧
        (st.1.setIfInBounds (k + 1) st.2.2).getD d 0 < st.2.2 + 1 ∧
        (st.2.1.setIfInBounds st.2.2 (k + 1)).getD ((st.1.setIfInBounds (k + 1) st.2.2).getD d 0) 0 = d
      rw [BS.getD_setIfInBounds]
      by_cases hd : k + 1 = d
      · rw [if_pos ⟨hd, hdb⟩, BS.getD_setIfInBounds, if_pos ⟨rfl, hnb⟩]
        exact ⟨by omega, by omega, hd⟩
      · rw [if_neg (by intro hh; exact hd hh.1)]
        obtain ⟨a, b, c⟩ := h.kept d h1 (by omega) h3
        refine ⟨a, by omega, ?_⟩
        rw [BS.getD_setIfInBounds, if_neg (by intro hh; omega)]
        exact c
    · intro d hd
      show (st.1.setIfInBounds (k + 1) st.2.2).getD d 0 = 0
      rw [BS.getD_setIfInBounds]
      have hne : ¬ (k + 1 = d ∧ k + 1 < st.1.size) := by
        rintro ⟨rfl, _⟩
        rcases hd with hd | hd | hd
        · omega
        · rw [hm'] at hd; cases hd
        · omega
      rw [if_neg hne]
      apply h.rem
      rcases hd with hd | hd | hd
      · exact Or.inl (by omega)
      · exact Or.inr (Or.inl hd)
      · exact Or.inr (Or.inr hd)
    · intro j h1 h2
      show 1 ≤ (st.2.1.setIfInBounds st.2.2 (k + 1)).getD j 0 ∧ (st.2.1.setIfInBounds st.2.2 (k + 1)).getD j 0 ≤ k + 1 ∧
        mark.getD ((st.2.1.setIfInBounds st.2.2 (k + 1)).getD j 0) false = false ∧
        (st.1.setIfInBounds (k + 1) st.2.2).getD ((st.2.1.setIfInBounds st.2.2 (k + 1)).getD j 0) 0 = j
      have h2' : j < st.2.2 + 1 := h2
      rw [BS.getD_setIfInBounds]
      by_cases hj : st.2.2 = j
      · rw [if_pos ⟨hj, hnb⟩, BS.getD_setIfInBounds, if_pos ⟨rfl, hdb⟩]
        exact ⟨by omega, by omega, hm', hj⟩
      · rw [if_neg (by intro hh; exact hj hh.1)]
        obtain ⟨a, b, c, d⟩ := h.img j h1 (by omega)
        refine ⟨a, by omega, c, ?_⟩
        rw [BS.getD_setIfInBounds, if_neg (by intro hh; omega)]
        exact d

theorem RInv.fold {N : Nat} {mark : Array Bool} : ∀ k, k ≤ N →
    RInv N mark k ((List.range k).foldl (renumStep mark)
      (Array.replicate (N + 1) 0, Array.replicate (N + 1) 0, 1))
  | 0, _ => RInv.init N mark
  | k + 1, hk => by
    rw [List.range_succ, List.foldl_append]
    exact (RInv.fold k (by omega)).step (by omega)


/-- the permutation the inner loop of `collapse` iterates: `e ↦ s_i (s_c e)` -/
def cpi (ds : DSetData) (i c : Nat) (x : Nat) : Nat := ds.opU i (ds.opU c x)

theorem cpi_range {ds : DSetData} (hv : ValidSet ds) {i c : Nat} (hi : i ≤ ds.dim) (hc : c ≤ ds.dim)
    {x : Nat} (h1 : 1 ≤ x) (h2 : x ≤ ds.size) : 1 ≤ cpi ds i c x ∧ cpi ds i c x ≤ ds.size := by
  have a := hv.range c x hc h1 h2
  exact hv.range i _ hi a.1 a.2

theorem cpi_iter_range {ds : DSetData} (hv : ValidSet ds) {i c : Nat} (hi : i ≤ ds.dim) (hc : c ≤ ds.dim)
    {x : Nat} (h1 : 1 ≤ x) (h2 : x ≤ ds.size) : ∀ t, 1 ≤ (cpi ds i c)^[t] x ∧ (cpi ds i c)^[t] x ≤ ds.size
  | 0 => ⟨h1, h2⟩
  | t + 1 => by
    rw [Function.iterate_succ_apply']
    have := cpi_iter_range hv hi hc h1 h2 t
    exact cpi_range hv hi hc this.1 this.2

theorem opPartial_valid {ds : DSetData} (hv : ValidSet ds) {i x : Nat} (hi : i ≤ ds.dim) (h1 : 1 ≤ x) (h2 : x ≤ ds.size) :
    ds.opPartial i x = some (ds.opU i x) :=
  opPartial_of_ne_zero hi h1 h2 (by have := hv.range i x hi h1 h2; omega)

/-- the `while src2img[e] == 0` loop returns the first chamber of the walk with a non-zero entry -/
theorem collapseWhile_spec {ds : DSetData} (hv : ValidSet ds) {i c : Nat} (hi : i ≤ ds.dim) (hc : c ≤ ds.dim)
    {s2i : Array Nat} (hsz : s2i.size = ds.size + 1) :
    ∀ (t0 fuel e : Nat), 1 ≤ e → e ≤ ds.size →
      (∀ t, t < t0 → s2i.getD ((cpi ds i c)^[t] e) 0 = 0) → s2i.getD ((cpi ds i c)^[t0] e) 0 ≠ 0 →
      t0 < fuel → collapseWhile ds s2i i c fuel e = .ok ((cpi ds i c)^[t0] e)
  | 0, fuel, e, h1, h2, _, hk, hf => by
    obtain ⟨f, rfl⟩ : ∃ f, fuel = f + 1 := ⟨fuel - 1, by omega⟩
    unfold collapseWhile
    have hb : e < s2i.size := by omega
    rw [Array.getElem?_eq_getElem hb]
    simp only
    have : s2i[e] = s2i.getD e 0 := by simp [Array.getD, hb]
    simp only [Function.iterate_zero, id] at hk
    rw [this, if_pos hk]
    rfl
  | t0 + 1, fuel, e, h1, h2, hz, hk, hf => by
    obtain ⟨f, rfl⟩ : ∃ f, fuel = f + 1 := ⟨fuel - 1, by omega⟩
    unfold collapseWhile
    have hb : e < s2i.size := by omega
    rw [Array.getElem?_eq_getElem hb]
    simp only
    have : s2i[e] = s2i.getD e 0 := by simp [Array.getD, hb]
    have hz0 := hz 0 (by omega)
    simp only [Function.iterate_zero, id] at hz0
    rw [this, if_neg (by omega)]
    have rc := hv.range c e hc h1 h2
    rw [opPartial_valid hv hc h1 h2]
    simp only
    rw [opPartial_valid hv hi rc.1 rc.2]
    simp only
    have rp := cpi_range hv hi hc h1 h2
    have ih := collapseWhile_spec hv hi hc hsz t0 f (cpi ds i c e) rp.1 rp.2
      (fun t ht => by have := hz (t + 1) (by omega); rwa [Function.iterate_succ_apply] at this)
      (by rwa [Function.iterate_succ_apply] at hk) (by omega)
    rw [Function.iterate_succ_apply]
    exact ih

theorem exists_least {P : Nat → Prop} [DecidablePred P] : ∀ (T : Nat), P T → ∃ t0, t0 ≤ T ∧ P t0 ∧ ∀ s, s < t0 → ¬ P s
  | 0, h => ⟨0, Nat.le_refl _, h, fun s hs => by omega⟩
  | T + 1, h => by
    by_cases hx : ∃ t, t ≤ T ∧ P t
    · obtain ⟨t, ht, hp⟩ := hx
      obtain ⟨t0, a, b, c⟩ := exists_least t hp
      exact ⟨t0, by omega, b, c⟩
    · refine ⟨T + 1, Nat.le_refl _, h, ?_⟩
      intro s hs hp
      exact hx ⟨s, by omega, hp⟩

/-- the walk as a partial injection for the pigeonhole lemma -/
def cpiOpt (ds : DSetData) (i c : Nat) (x : Nat) : Option Nat :=
  if 1 ≤ x ∧ x ≤ ds.size then some (cpi ds i c x) else none

theorem cpi_inj {ds : DSetData} (hv : ValidSet ds) {i c : Nat} (hi : i ≤ ds.dim) (hc : c ≤ ds.dim)
    {x y : Nat} (hx1 : 1 ≤ x) (hx2 : x ≤ ds.size) (hy1 : 1 ≤ y) (hy2 : y ≤ ds.size)
    (h : cpi ds i c x = cpi ds i c y) : x = y := by
  unfold cpi at h
  have rx := hv.range c x hc hx1 hx2
  have ry := hv.range c y hc hy1 hy2
  have h1 : ds.opU c x = ds.opU c y := by
    have a := hv.invol i _ hi rx.1 rx.2
    have b := hv.invol i _ hi ry.1 ry.2
    rw [← a, ← b, h]
  have a := hv.invol c x hc hx1 hx2
  have b := hv.invol c y hc hy1 hy2
  rw [← a, ← b, h1]

theorem cpiOpt_pinj {ds : DSetData} (hv : ValidSet ds) {i c : Nat} (hi : i ≤ ds.dim) (hc : c ≤ ds.dim) :
    PInj (cpiOpt ds i c) ds.size := by
  constructor
  · intro e x hx
    unfold cpiOpt at hx
    split at hx
    · rename_i h; cases hx; exact cpi_range hv hi hc h.1 h.2
    · cases hx
  · intro e e' x hx hx'
    unfold cpiOpt at hx hx'
    split at hx
    · rename_i h
      split at hx'
      · rename_i h'
        cases hx
        simp only [Option.some.injEq] at hx'
        exact cpi_inj hv hi hc h.1 h.2 h'.1 h'.2 hx'.symm
      · cases hx'
    · cases hx

theorem piter_cpi {ds : DSetData} (hv : ValidSet ds) {i c : Nat} (hi : i ≤ ds.dim) (hc : c ≤ ds.dim)
    {x : Nat} (h1 : 1 ≤ x) (h2 : x ≤ ds.size) : ∀ t, piter (cpiOpt ds i c) t x = some ((cpi ds i c)^[t] x)
  | 0 => rfl
  | t + 1 => by
    rw [piter_succ, piter_cpi hv hi hc h1 h2 t, Function.iterate_succ_apply']
    have := cpi_iter_range hv hi hc h1 h2 t
    show cpiOpt ds i c _ = _
    unfold cpiOpt
    rw [if_pos this]

/-- walking from `e0`, the chamber `s_c (s_i e0)` is reached within `size − 1` steps -/
theorem walk_reaches_back {ds : DSetData} (hv : ValidSet ds) {i c : Nat} (hi : i ≤ ds.dim) (hc : c ≤ ds.dim)
    {e0 : Nat} (h1 : 1 ≤ e0) (h2 : e0 ≤ ds.size) :
    ∃ t, t < ds.size ∧ (cpi ds i c)^[t] e0 = ds.opU c (ds.opU i e0) := by
  obtain ⟨t, ht1, ht2, ht3⟩ := piter_returns (cpiOpt_pinj hv hi hc) h1 h2 (piter_cpi hv hi hc h1 h2 ds.size)
  rw [piter_cpi hv hi hc h1 h2 t] at ht3
  simp only [Option.some.injEq] at ht3
  obtain ⟨u, rfl⟩ : ∃ u, t = u + 1 := ⟨t - 1, by omega⟩
  refine ⟨u, by omega, ?_⟩
  rw [Function.iterate_succ_apply'] at ht3
  have ry := cpi_iter_range hv hi hc h1 h2 u
  generalize (cpi ds i c)^[u] e0 = y at ht3 ry
  unfold cpi at ht3
  have rc := hv.range c y hc ry.1 ry.2
  have a := hv.invol i _ hi rc.1 rc.2
  rw [ht3] at a
  have b := hv.invol c y hc ry.1 ry.2
  rw [← a] at b
  exact b.symm


/-! ### the closure `collapse` hands to `build_set` -/

/-- everything the closure analysis needs: a complete D-set, a connector, the membership array of
    a removed set closed under the connector, and the numbering loop's final state -/
structure CCtx (ds : DSetData) (c : Nat) (mark : Array Bool) (st : Array Nat × Array Nat × Nat) : Prop where
  valid : ValidSet ds
  hc : c ≤ ds.dim
  closed : ∀ d, 1 ≤ d → d ≤ ds.size → mark.getD d false = true → mark.getD (ds.opU c d) false = true
  inv : RInv ds.size mark ds.size st

namespace CCtx
variable {ds : DSetData} {c : Nat} {mark : Array Bool} {st : Array Nat × Array Nat × Nat}

theorem zero_iff (h : CCtx ds c mark st) {x : Nat} (h1 : 1 ≤ x) (h2 : x ≤ ds.size) :
    st.1.getD x 0 = 0 ↔ mark.getD x false = true := by
  constructor
  · intro hz
    cases hm : mark.getD x false with
    | true => rfl
    | false => have := (h.inv.kept x h1 h2 hm).1; omega
  · intro hm; exact h.inv.rem x (Or.inr (Or.inl hm))

theorem kept_conn (h : CCtx ds c mark st) {x : Nat} (h1 : 1 ≤ x) (h2 : x ≤ ds.size)
    (hk : mark.getD x false = false) : mark.getD (ds.opU c x) false = false := by
  cases hm : mark.getD (ds.opU c x) false with
  | false => rfl
  | true =>
    have r := h.valid.range c x h.hc h1 h2
    have := h.closed _ r.1 r.2 hm
    rw [h.valid.invol c x h.hc h1 h2, hk] at this
    cases this

/-- evaluation of the closure at `d = src2img[src]` -/
theorem op_eval (h : CCtx ds c mark st) {i d : Nat} (hi : i ≤ ds.dim) (hd1 : 1 ≤ d) (hd2 : d < st.2.2) :
    (i = c → collapseOp ds ⟨st.1, st.2.1⟩ c i d = .ok (some (st.1.getD (ds.opU c (st.2.1.getD d 0)) 0))) ∧
    (i ≠ c → ∀ t0, (∀ t, t < t0 → st.1.getD ((cpi ds i c)^[t] (ds.opU i (st.2.1.getD d 0))) 0 = 0) →
      st.1.getD ((cpi ds i c)^[t0] (ds.opU i (st.2.1.getD d 0))) 0 ≠ 0 → t0 < ds.size + 1 →
      collapseOp ds ⟨st.1, st.2.1⟩ c i d =
        .ok (some (st.1.getD ((cpi ds i c)^[t0] (ds.opU i (st.2.1.getD d 0))) 0))) := by
  obtain ⟨a1, a2, a3, a4⟩ := h.inv.img d hd1 hd2
  have hnx := h.inv.nx
  have hkl := keptCount_le mark ds.size
  have hb : d < st.2.1.size := by rw [h.inv.s2]; omega
  have hget : st.2.1[d]? = some (st.2.1.getD d 0) := by
    rw [Array.getElem?_eq_getElem hb]; simp [Array.getD, hb]
  have re := h.valid.range i _ hi a1 a2
  have hs2i : ∀ x, x ≤ ds.size → st.1[x]? = some (st.1.getD x 0) := by
    intro x hx
    have hb : x < st.1.size := by rw [h.inv.s1]; omega
    rw [Array.getElem?_eq_getElem hb]; simp [Array.getD, hb]
  constructor
  · intro hic
    subst hic
    unfold collapseOp
    simp only [hget]
    rw [opPartial_valid h.valid hi a1 a2]
    simp only [ne_eq, not_true_eq_false, if_false]
    rw [hs2i _ re.2]
  · intro hic t0 hz hk hf
    unfold collapseOp
    simp only [hget]
    rw [opPartial_valid h.valid hi a1 a2]
    simp only [ne_eq, hic, not_false_eq_true, if_true]
    rw [collapseWhile_spec h.valid hi h.hc h.inv.s1 t0 (ds.size + 1) _ re.1 re.2 hz hk hf]
    simp only
    have rr := cpi_iter_range h.valid hi h.hc re.1 re.2 t0
    rw [hs2i _ rr.2]

/-- **the closure is an involution on 1..K with values in 1..K** -/
theorem op_invol (h : CCtx ds c mark st) {i d : Nat} (hi : i ≤ ds.dim) (hd1 : 1 ≤ d) (hd2 : d < st.2.2) :
    ∃ v, collapseOp ds ⟨st.1, st.2.1⟩ c i d = .ok (some v) ∧ 1 ≤ v ∧ v < st.2.2 ∧
      collapseOp ds ⟨st.1, st.2.1⟩ c i v = .ok (some d) := by
  obtain ⟨a1, a2, a3, a4⟩ := h.inv.img d hd1 hd2
  generalize hsrc : st.2.1.getD d 0 = src at a1 a2 a3 a4
  by_cases hic : i = c
  · -- the connector itself: the neighbour of a kept chamber is kept
    have e1 := (h.op_eval hi hd1 hd2).1 hic
    rw [hsrc] at e1
    have rk := h.valid.range c src h.hc a1 a2
    have kk := h.kept_conn a1 a2 a3
    obtain ⟨b1, b2, b3⟩ := h.inv.kept _ rk.1 rk.2 kk
    refine ⟨_, e1, b1, b2, ?_⟩
    have e2 := (h.op_eval hi b1 b2).1 hic
    rw [b3, h.valid.invol c src h.hc a1 a2, a4] at e2
    exact e2
  · have re := h.valid.range i src hi a1 a2
    -- the walk from s_i src reaches the kept chamber s_c src
    obtain ⟨t, ht, hback⟩ := walk_reaches_back h.valid hi h.hc re.1 re.2
    rw [h.valid.invol i src hi a1 a2] at hback
    have hkeptT : st.1.getD ((cpi ds i c)^[t] (ds.opU i src)) 0 ≠ 0 := by
      rw [hback]
      have rk := h.valid.range c src h.hc a1 a2
      have := (h.inv.kept _ rk.1 rk.2 (h.kept_conn a1 a2 a3)).1
      omega
    obtain ⟨t0, ht0, hk0, hz0⟩ := exists_least (P := fun t => st.1.getD ((cpi ds i c)^[t] (ds.opU i src)) 0 ≠ 0) t hkeptT
    have hz : ∀ s, s < t0 → st.1.getD ((cpi ds i c)^[s] (ds.opU i src)) 0 = 0 := by
      intro s hs; have := hz0 s hs; simpa using this
    have e1 := (h.op_eval hi hd1 hd2).2 hic t0 (by rw [hsrc]; exact hz) (by rw [hsrc]; exact hk0) (by omega)
    rw [hsrc] at e1
    -- y t = the t-th chamber of the walk
    have ry := fun t => cpi_iter_range h.valid hi h.hc re.1 re.2 t
    have hkeptY : mark.getD ((cpi ds i c)^[t0] (ds.opU i src)) false = false := by
      cases hm : mark.getD ((cpi ds i c)^[t0] (ds.opU i src)) false with
      | false => rfl
      | true => exact absurd ((h.zero_iff (ry t0).1 (ry t0).2).2 hm) hk0
    obtain ⟨b1, b2, b3⟩ := h.inv.kept _ (ry t0).1 (ry t0).2 hkeptY
    refine ⟨_, e1, b1, b2, ?_⟩
    -- the walk back: π^s (s_i (y t0)) = s_i (y (t0 - s))
    have hrev : ∀ s, s ≤ t0 → (cpi ds i c)^[s] (ds.opU i ((cpi ds i c)^[t0] (ds.opU i src))) =
        ds.opU i ((cpi ds i c)^[t0 - s] (ds.opU i src)) := by
      intro s
      induction s with
      | zero => intro _; rfl
      | succ s ih =>
        intro hs
        rw [Function.iterate_succ_apply', ih (by omega)]
        obtain ⟨u, hu⟩ : ∃ u, t0 - s = u + 1 := ⟨t0 - s - 1, by omega⟩
        have hu' : t0 - (s + 1) = u := by omega
        rw [hu, hu', Function.iterate_succ_apply']
        have ryu := ry u
        generalize (cpi ds i c)^[u] (ds.opU i src) = y at ryu ⊢
        unfold cpi
        have rc := h.valid.range c y h.hc ryu.1 ryu.2
        rw [h.valid.invol i _ hi rc.1 rc.2, h.valid.invol c y h.hc ryu.1 ryu.2]
    have e2 := (h.op_eval hi b1 b2).2 hic t0
    rw [b3] at e2
    have hlast : (cpi ds i c)^[t0] (ds.opU i ((cpi ds i c)^[t0] (ds.opU i src))) = src := by
      rw [hrev t0 (Nat.le_refl _), Nat.sub_self]
      exact h.valid.invol i src hi a1 a2
    rw [hlast, a4] at e2
    apply e2
    · intro s hs
      rw [hrev s (by omega)]
      obtain ⟨u, hu⟩ : ∃ u, t0 - s = u + 1 := ⟨t0 - s - 1, by omega⟩
      rw [hu, Function.iterate_succ_apply']
      have ryu := ry u
      have hzu := hz u (by omega)
      generalize (cpi ds i c)^[u] (ds.opU i src) = y at ryu hzu ⊢
      unfold cpi
      have rc := h.valid.range c y h.hc ryu.1 ryu.2
      rw [h.valid.invol i _ hi rc.1 rc.2]
      exact (h.zero_iff rc.1 rc.2).2 (h.closed y ryu.1 ryu.2 ((h.zero_iff ryu.1 ryu.2).1 hzu))
    · omega
    · omega

/-- the value of the closure at the number of a kept chamber `x`: the number of the first kept
    chamber on the walk `s_i x, s_i s_c s_i x, …` (for the connector: of `s_c x`) -/
theorem op_value (h : CCtx ds c mark st) {i x : Nat} (hi : i ≤ ds.dim) (hx1 : 1 ≤ x) (hx2 : x ≤ ds.size)
    (hk : mark.getD x false = false) :
    (i = c → collapseOp ds ⟨st.1, st.2.1⟩ c i (st.1.getD x 0) = .ok (some (st.1.getD (ds.opU c x) 0))) ∧
    (i ≠ c → ∃ t0, t0 < ds.size ∧ (∀ t, t < t0 → mark.getD ((cpi ds i c)^[t] (ds.opU i x)) false = true) ∧
      mark.getD ((cpi ds i c)^[t0] (ds.opU i x)) false = false ∧
      collapseOp ds ⟨st.1, st.2.1⟩ c i (st.1.getD x 0) =
        .ok (some (st.1.getD ((cpi ds i c)^[t0] (ds.opU i x)) 0))) := by
  obtain ⟨b1, b2, b3⟩ := h.inv.kept x hx1 hx2 hk
  constructor
  · intro hic
    have := (h.op_eval hi b1 b2).1 hic
    rwa [b3] at this
  · intro hic
    have re := h.valid.range i x hi hx1 hx2
    obtain ⟨t, ht, hback⟩ := walk_reaches_back h.valid hi h.hc re.1 re.2
    rw [h.valid.invol i x hi hx1 hx2] at hback
    have hkeptT : st.1.getD ((cpi ds i c)^[t] (ds.opU i x)) 0 ≠ 0 := by
      rw [hback]
      have rk := h.valid.range c x h.hc hx1 hx2
      have := (h.inv.kept _ rk.1 rk.2 (h.kept_conn hx1 hx2 hk)).1
      omega
    obtain ⟨t0, ht0, hk0, hz0⟩ := exists_least (P := fun t => st.1.getD ((cpi ds i c)^[t] (ds.opU i x)) 0 ≠ 0) t hkeptT
    have hz : ∀ s, s < t0 → st.1.getD ((cpi ds i c)^[s] (ds.opU i x)) 0 = 0 := by
      intro s hs; have := hz0 s hs; simpa using this
    have ry := fun t => cpi_iter_range h.valid hi h.hc re.1 re.2 t
    refine ⟨t0, by omega, ?_, ?_, ?_⟩
    · intro s hs; exact (h.zero_iff (ry s).1 (ry s).2).1 (hz s hs)
    · cases hm : mark.getD ((cpi ds i c)^[t0] (ds.opU i x)) false with
      | false => rfl
      | true => exact absurd ((h.zero_iff (ry t0).1 (ry t0).2).2 hm) hk0
    · have := (h.op_eval hi b1 b2).2 hic t0 (by rw [b3]; exact hz) (by rw [b3]; exact hk0) (by omega)
      rwa [b3] at this

end CCtx


/-! ### `buildSetO` when no closure call panics -/

theorem stepO_eq_step (op : Nat → Nat → Outcome (Option Nat)) (acc : Outcome DSetData) (p : Nat × Nat)
    (h : ∃ x, op p.1 p.2 = .ok x) : stepO op acc p = BS.step (pureOp op) acc p := by
  obtain ⟨x, hx⟩ := h
  cases acc with
  | ok s =>
    unfold stepO BS.step pureOp
    simp only [hx]
    cases x <;> rfl
  | err => rfl
  | panic => rfl

theorem foldO_eq_fold (op : Nat → Nat → Outcome (Option Nat)) :
    ∀ (ps : List (Nat × Nat)) (acc : Outcome DSetData), (∀ p ∈ ps, ∃ x, op p.1 p.2 = .ok x) →
      ps.foldl (stepO op) acc = ps.foldl (BS.step (pureOp op)) acc
  | [], _, _ => rfl
  | p :: ps, acc, h => by
    rw [List.foldl_cons, List.foldl_cons, stepO_eq_step op acc p (h p (List.mem_cons_self ..))]
    exact foldO_eq_fold op ps _ (fun q hq => h q (List.mem_cons_of_mem _ hq))

theorem buildSetO_eq_buildSet {size dim : Nat} {op : Nat → Nat → Outcome (Option Nat)}
    (h : ∀ i d, i ≤ dim → 1 ≤ d → d ≤ size → ∃ x, op i d = .ok x) :
    buildSetO size dim op = buildSet size dim (pureOp op) := by
  rw [buildSetO_eq_fold, BS.buildSet_eq_fold]
  cases DSetData.new size dim with
  | ok ds0 =>
    simp only
    apply foldO_eq_fold
    intro p hp
    have : (p.1, p.2) ∈ BS.pairs size dim := hp
    obtain ⟨a, b, c⟩ := BS.mem_pairs.1 this
    exact h p.1 p.2 a b c
  | err => rfl
  | panic => rfl

/-! ### collapse on a connector-closed set -/

theorem keptCount_lt {mark : Array Bool} {n d : Nat} (h1 : 1 ≤ d) (h2 : d ≤ n) (hm : mark.getD d false = true) :
    keptCount mark n < n := by
  induction n with
  | zero => omega
  | succ k ih =>
    rw [keptCount_succ]
    by_cases hd : d = k + 1
    · subst hd; rw [if_pos hm]; have := keptCount_le mark k; omega
    · have := ih (by omega)
      split <;> omega

/-- what `collapse` returns on a connector-closed set, chamber by chamber: `num x` is the new
    number of the kept chamber `x` -/
structure CollapseRes (ds : DSetData) (remove : List Nat) (c : Nat) (s : DSetData) (num : Nat → Nat) : Prop where
  valid : ValidSet s
  size : s.size = ds.size - distinctCount ds.size remove
  dim : s.dim = ds.dim
  num_range : ∀ x, 1 ≤ x → x ≤ ds.size → x ∉ remove → 1 ≤ num x ∧ num x ≤ s.size
  num_inj : ∀ x y, 1 ≤ x → x ≤ ds.size → x ∉ remove → 1 ≤ y → y ≤ ds.size → y ∉ remove → num x = num y → x = y
  num_surj : ∀ v, 1 ≤ v → v ≤ s.size → ∃ x, 1 ≤ x ∧ x ≤ ds.size ∧ x ∉ remove ∧ num x = v
  op_conn : ∀ x, 1 ≤ x → x ≤ ds.size → x ∉ remove → ds.opU c x ∉ remove ∧ s.opU c (num x) = num (ds.opU c x)
  op_walk : ∀ i x, i ≤ ds.dim → i ≠ c → 1 ≤ x → x ≤ ds.size → x ∉ remove →
    ∃ t0, (∀ t, t < t0 → (cpi ds i c)^[t] (ds.opU i x) ∈ remove) ∧
      (cpi ds i c)^[t0] (ds.opU i x) ∉ remove ∧ s.opU i (num x) = num ((cpi ds i c)^[t0] (ds.opU i x))

/-- **`collapse_complete`.**  On a complete D-set, for a non-empty proper set of chambers that is
    closed under the connector, `collapse` returns (every inner `while` loop ends, no `unwrap`,
    index check or assertion of `set` fires) a complete D-set with involutive operations on the
    kept chambers, renumbered in ascending order; the connector acts as before and every other
    operation leads to the first kept chamber of the walk `s_i x, (s_i s_c) s_i x, …`. -/
theorem collapse_complete_full {ds : DSetData} {remove : List Nat} {c : Nat} (hv : ValidSet ds)
    (hdim : 1 ≤ ds.dim) (hc : c ≤ ds.dim) (hr : ∀ d ∈ remove, 1 ≤ d ∧ d ≤ ds.size) (hne : remove ≠ [])
    (hlt : distinctCount ds.size remove < ds.size) (hcl : ∀ d ∈ remove, ds.opU c d ∈ remove) :
    ∃ s num, collapse (.dset ds) remove c = .ok (some (.dset s)) ∧ CollapseRes ds remove c s num := by
  -- the count
  have hms := markOf_size ds.size remove
  have hm0 : (markOf ds.size remove).getD 0 false = false := by
    cases hx : (markOf ds.size remove).getD 0 false with
    | false => rfl
    | true => have := (hr 0 ((markOf_getD (Nat.zero_le _)).1 hx)).1; omega
  have hbig : (remove.filter (· > ds.size)) = [] := by
    rw [List.filter_eq_nil_iff]
    intro a ha
    have := (hr a ha).2
    simp only [gt_iff_lt, decide_eq_true_eq]; omega
  have hcnt : distinctCount ds.size remove + keptCount (markOf ds.size remove) ds.size = ds.size := by
    unfold distinctCount
    rw [hbig]
    have := count_split (markOf ds.size remove) ds.size hms hm0
    simpa [List.eraseDups] using this
  obtain ⟨d0, hd0⟩ := List.exists_mem_of_ne_nil remove hne
  have hklt := keptCount_lt (hr d0 hd0).1 (hr d0 hd0).2 ((markOf_getD (hr d0 hd0).2).2 hd0)
  -- the context
  have inv := RInv.fold (N := ds.size) (mark := markOf ds.size remove) ds.size (Nat.le_refl _)
  generalize hst : (List.range ds.size).foldl (renumStep (markOf ds.size remove))
      (Array.replicate (ds.size + 1) 0, Array.replicate (ds.size + 1) 0, 1) = st at inv
  have ctx : CCtx ds c (markOf ds.size remove) st := by
    refine ⟨hv, hc, ?_, inv⟩
    intro d h1 h2 hm
    have hd := (markOf_getD h2).1 hm
    have r := hv.range c d hc h1 h2
    exact (markOf_getD r.2).2 (hcl d hd)
  have hrn : renumber ds.size (markOf ds.size remove) = ⟨st.1, st.2.1⟩ := by rw [renumber_eq, hst]
  have hK : ds.size - distinctCount ds.size remove = keptCount (markOf ds.size remove) ds.size := by omega
  have hnx := inv.nx
  have hunm : ∀ x, x ≤ ds.size → (x ∉ remove ↔ (markOf ds.size remove).getD x false = false) := by
    intro x hx
    rw [← markOf_getD hx]
    cases (markOf ds.size remove).getD x false <;> simp
  -- the closure
  have hall : ∀ i d, i ≤ ds.dim → 1 ≤ d → d ≤ keptCount (markOf ds.size remove) ds.size →
      ∃ v, collapseOp ds ⟨st.1, st.2.1⟩ c i d = .ok (some v) ∧ 1 ≤ v ∧
        v ≤ keptCount (markOf ds.size remove) ds.size ∧ collapseOp ds ⟨st.1, st.2.1⟩ c i v = .ok (some d) := by
    intro i d hi h1 h2
    obtain ⟨v, a, b, c', e⟩ := ctx.op_invol hi h1 (by omega)
    exact ⟨v, a, b, by omega, e⟩
  have hbuild : buildSetO (keptCount (markOf ds.size remove) ds.size) ds.dim (collapseOp ds ⟨st.1, st.2.1⟩ c) =
      buildSet (keptCount (markOf ds.size remove) ds.size) ds.dim (pureOp (collapseOp ds ⟨st.1, st.2.1⟩ c)) :=
    buildSetO_eq_buildSet (fun i d hi h1 h2 => by
      obtain ⟨v, a, _⟩ := hall i d hi h1 h2; exact ⟨_, a⟩)
  obtain ⟨s, hs, hs1, hs2, hsv, hsf⟩ := buildSet_of_total_involution
    (size := keptCount (markOf ds.size remove) ds.size) (dim := ds.dim)
    (op := pureOp (collapseOp ds ⟨st.1, st.2.1⟩ c))
    (f := fun i d => (pureOp (collapseOp ds ⟨st.1, st.2.1⟩ c) i d).getD 0)
    (by omega) hdim
    (fun i d hi h1 h2 => by
      obtain ⟨v, a, _⟩ := hall i d hi h1 h2
      unfold pureOp; rw [a]; rfl)
    (fun i d hi h1 h2 => by
      obtain ⟨v, a, b, c', _⟩ := hall i d hi h1 h2
      unfold pureOp; rw [a]; exact ⟨b, c'⟩)
    (fun i d hi h1 h2 => by
      obtain ⟨v, a, b, c', e⟩ := hall i d hi h1 h2
      unfold pureOp; rw [a]; simp only [Option.getD_some]; rw [e]; rfl)
  -- reading the result at the number of a kept chamber
  have hread : ∀ i x v, i ≤ ds.dim → 1 ≤ x → x ≤ ds.size → (markOf ds.size remove).getD x false = false →
      collapseOp ds ⟨st.1, st.2.1⟩ c i (st.1.getD x 0) = .ok (some v) → s.opU i (st.1.getD x 0) = v := by
    intro i x v hi hx1 hx2 hk hv'
    obtain ⟨b1, b2, _⟩ := inv.kept x hx1 hx2 hk
    rw [hsf i _ hi b1 (by omega)]
    unfold pureOp; rw [hv']; rfl
  refine ⟨s, fun x => st.1.getD x 0, ?_, hsv, by rw [hs1, hK], hs2, ?_, ?_, ?_, ?_, ?_⟩
  · unfold collapse
    simp only
    rw [if_neg (by omega), if_neg (by omega), if_neg (by omega), hrn, hK, hbuild, hs]
    rfl
  · intro x hx1 hx2 hx
    obtain ⟨b1, b2, _⟩ := inv.kept x hx1 hx2 ((hunm x hx2).1 hx)
    exact ⟨b1, by rw [hs1]; omega⟩
  · intro x y hx1 hx2 hx hy1 hy2 hy hxy
    obtain ⟨_, _, b3⟩ := inv.kept x hx1 hx2 ((hunm x hx2).1 hx)
    obtain ⟨_, _, c3⟩ := inv.kept y hy1 hy2 ((hunm y hy2).1 hy)
    rw [← b3, ← c3]
    exact congrArg (fun v => st.2.1.getD v 0) hxy
  · intro v hv1 hv2
    rw [hs1] at hv2
    obtain ⟨a1, a2, a3, a4⟩ := inv.img v hv1 (by omega)
    exact ⟨_, a1, a2, (hunm _ a2).2 a3, a4⟩
  · intro x hx1 hx2 hx
    have hk := (hunm x hx2).1 hx
    have rk := hv.range c x hc hx1 hx2
    refine ⟨(hunm _ rk.2).2 (ctx.kept_conn hx1 hx2 hk), ?_⟩
    exact hread c x _ hc hx1 hx2 hk ((ctx.op_value hc hx1 hx2 hk).1 rfl)
  · intro i x hi hic hx1 hx2 hx
    have hk := (hunm x hx2).1 hx
    obtain ⟨t0, ht0, hz, hk0, hval⟩ := (ctx.op_value hi hx1 hx2 hk).2 hic
    have re := hv.range i x hi hx1 hx2
    have ry := fun t => cpi_iter_range hv hi hc re.1 re.2 t
    refine ⟨t0, ?_, (hunm _ (ry t0).2).2 hk0, hread i x _ hi hx1 hx2 hk hval⟩
    intro t ht
    exact (markOf_getD (ry t).2).1 (hz t ht)

end DSymVerif.Simp
