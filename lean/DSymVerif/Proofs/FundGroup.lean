/-
Helper lemmas for property C09 about the model `DSymVerif.FG` (Model/FundGroup.lean):

* every word stored in `edge_to_word`, every relator and every cone word is freely reduced
  (they are produced by `FreeWord` operations only — C10's closure lemmas);
* `find_generators` keeps the words on the two sides of a non-mirror facet mutually inverse
  (for symbols whose operations are involutions);
* `gen_to_edge` is keyed 1..n and injective.
-/
import DSymVerif.Proofs.FreeWordCyclic
import DSymVerif.Model.FundGroup

namespace DSymVerif.FGP
open DSymVerif DSymVerif.DS DSymVerif.FG DSymVerif.FWP DSymVerif.SpecC10

/-! ### the map `edge_to_word` -/

/-- every stored word is freely reduced -/
def AllRed (m : E2W) : Prop := ∀ p ∈ m, isReduced p.2 = true

theorem allRed_nil : AllRed [] := by intro p hp; cases hp

theorem mem_e2wInsert {k : Edge} {w : List Int} : ∀ {m : E2W} {p : Edge × List Int},
    p ∈ e2wInsert m k w → p = (k, w) ∨ p ∈ m
  | [], p, h => by simp [e2wInsert] at h; exact Or.inl h
  | (k', w') :: rest, p, h => by
    unfold e2wInsert at h
    split at h
    · rcases List.mem_cons.1 h with h | h
      · exact Or.inl h
      · exact Or.inr (List.mem_cons_of_mem _ h)
    · split at h
      · rcases List.mem_cons.1 h with h | h
        · exact Or.inl h
        · exact Or.inr h
      · rcases List.mem_cons.1 h with h | h
        · exact Or.inr (h ▸ List.mem_cons_self)
        · rcases mem_e2wInsert h with h | h
          · exact Or.inl h
          · exact Or.inr (List.mem_cons_of_mem _ h)

theorem allRed_insert {m : E2W} {k : Edge} {w : List Int} (hm : AllRed m)
    (hw : isReduced w = true) : AllRed (e2wInsert m k w) := by
  intro p hp
  rcases mem_e2wInsert hp with rfl | hp
  · exact hw
  · exact hm p hp

theorem e2wGet?_insert (k k' : Edge) (w : List Int) : ∀ (m : E2W),
    e2wGet? (e2wInsert m k w) k' = if k' = k then some w else e2wGet? m k'
  | [] => by
    by_cases h : k' = k
    · subst h; simp [e2wInsert, e2wGet?]
    · have h' : ¬ k = k' := fun e => h e.symm
      simp [e2wInsert, e2wGet?, h, h']
  | (k0, w0) :: rest => by
    unfold e2wInsert
    by_cases h0 : k0 = k
    · subst h0
      by_cases h : k' = k0
      · subst h; simp [e2wGet?]
      · have h' : ¬ k0 = k' := fun e => h e.symm
        simp [e2wGet?, h, h']
    · rw [if_neg h0]
      by_cases hl : edgeLt k k0 = true
      · rw [if_pos hl]
        by_cases h : k' = k
        · subst h; simp [e2wGet?]
        · have h' : ¬ k = k' := fun e => h e.symm
          simp [e2wGet?, h, h']
      · rw [if_neg hl]
        by_cases h : k' = k
        · subst h
          have h0' : ¬ k0 = k' := h0
          simp [e2wGet?, h0', e2wGet?_insert k' k' w rest]
        · by_cases h1 : k0 = k'
          · subst h1; simp [e2wGet?, h]
          · simp [e2wGet?, h1, h, e2wGet?_insert k k' w rest]

theorem e2wGet_insert (k k' : Edge) (w : List Int) (m : E2W) :
    e2wGet (e2wInsert m k w) k' = if k' = k then w else e2wGet m k' := by
  unfold e2wGet
  rw [e2wGet?_insert]
  split <;> rfl

/-! ### trace_word returns reduced words -/

theorem traceLoop_isReduced (ds : DSymData) (e2w : E2W) (d i j : Nat) :
    ∀ (fuel e : Nat) (res w : List Int), traceLoop ds e2w d i j fuel e res = .ok w →
      isReduced w = true
  | 0, _, _, _, h => by simp [traceLoop] at h
  | fuel + 1, e, res, w, h => by
    unfold traceLoop at h
    simp only at h
    split at h
    · injection h with h
      rw [← h]
      exact mulAssign_isReduced _ _
    · exact traceLoop_isReduced ds e2w d i j fuel _ _ w h

theorem traceWord_isReduced (ds : DSymData) (e2w : E2W) (d : Nat) (i j : Option Nat)
    (w : List Int) (h : traceWord ds e2w d i j = .ok w) : isReduced w = true := by
  unfold traceWord at h
  split at h
  · exact traceLoop_isReduced _ _ _ _ _ _ _ _ _ h
  · injection h with h; rw [← h]; exact mulAssign_isReduced _ _
  · injection h with h; rw [← h]; exact mulAssign_isReduced _ _
  · injection h with h; rw [← h]; rfl

/-! ### find_generators keeps all stored words reduced -/

theorem applyGlued_allRed (ds : DSymData) : ∀ (items : List Item) (e2w e2w' : E2W),
    AllRed e2w → applyGlued ds e2w items = .ok e2w' → AllRed e2w'
  | [], e2w, e2w', hm, h => by
    simp [applyGlued] at h; rw [← h]; exact hm
  | (e, i, j) :: rest, e2w, e2w', hm, h => by
    unfold applyGlued at h
    split at h
    · cases h
    · rename_i ei _
      split at h
      · rename_i w hw
        have hwr := traceWord_isReduced _ _ _ _ _ _ hw
        split at h
        · exact applyGlued_allRed ds rest _ _
            (allRed_insert (allRed_insert hm (inverse_isReduced w)) hwr) h
        · exact applyGlued_allRed ds rest _ _ hm h
      · cases h
      · cases h

theorem new_singleton_isReduced (x : Int) : isReduced (FW.new [x]) = true := new_isReduced _

theorem genStep_allRed (ds : DSymData) (st st' : GenState) (d i : Nat)
    (hm : AllRed st.e2w) (h : genStep ds st d i = .ok st') : AllRed st'.e2w := by
  unfold genStep at h
  split at h
  · split at h
    · cases h
    · simp only at h
      split at h
      · split at h
        · rename_i e2w' hg
          injection h with h
          rw [← h]
          exact applyGlued_allRed ds _ _ _
            (allRed_insert (allRed_insert hm (new_singleton_isReduced _)) (new_singleton_isReduced _)) hg
        · cases h
        · cases h
      · cases h
      · cases h
  · injection h with h; rw [← h]; exact hm

theorem genLoop_allRed (ds : DSymData) : ∀ (fs : List Edge) (st st' : GenState),
    AllRed st.e2w → genLoop ds st fs = .ok st' → AllRed st'.e2w
  | [], st, st', hm, h => by simp [genLoop] at h; rw [← h]; exact hm
  | (d, i) :: rest, st, st', hm, h => by
    unfold genLoop at h
    split at h
    · rename_i st1 h1
      exact genLoop_allRed ds rest st1 st' (genStep_allRed ds st st1 d i hm h1) h
    · cases h
    · cases h

theorem findGenerators_allRed (ds : DSymData) (e2w : E2W) (g2e : G2E)
    (h : findGenerators ds = .ok (e2w, g2e)) : AllRed e2w := by
  unfold findGenerators at h
  split at h
  · split at h
    · rename_i st hs
      injection h with h
      have := genLoop_allRed ds _ _ st allRed_nil hs
      have he : st.e2w = e2w := congrArg Prod.fst h
      rw [← he]; exact this
    · cases h
    · cases h
  · cases h
  · cases h

/-! ### relators and cones -/

def RelRed (st : RelState) : Prop :=
  (∀ w ∈ st.relators, isReduced w = true) ∧ (∀ c ∈ st.cones, isReduced c.1 = true)

theorem mem_coneInsert (c : List Int × Nat) : ∀ (l : List (List Int × Nat)) (x : List Int × Nat),
    x ∈ coneInsert c l → x = c ∨ x ∈ l
  | [], x, h => by simp [coneInsert] at h; exact Or.inl h
  | v :: vs, x, h => by
    unfold coneInsert at h
    split at h
    · rcases List.mem_cons.1 h with h | h
      · exact Or.inl h
      · exact Or.inr h
    · exact Or.inr h
    · rcases List.mem_cons.1 h with h | h
      · exact Or.inr (h ▸ List.mem_cons_self)
      · rcases mem_coneInsert c vs x h with h | h
        · exact Or.inl h
        · exact Or.inr (List.mem_cons_of_mem _ h)

theorem relStep_relRed (ds : DSymData) (e2w : E2W) (i j d : Nat) (st st' : RelState)
    (hs : RelRed st) (h : relStep ds e2w i j st d = .ok st') : RelRed st' := by
  unfold relStep at h
  split at h
  · cases h
  · split at h
    · rename_i word hw
      have hwr := traceWord_isReduced _ _ _ _ _ _ hw
      split at h
      · rename_i degree _
        injection h with h
        rw [← h]
        refine ⟨?_, ?_⟩
        · intro w hw
          simp only at hw
          split at hw
          · rcases (mem_insertSorted _ _ _).1 hw with rfl | hw
            · exact relRep_isReduced (raisedTo_isReduced _ _)
            · exact hs.1 w hw
          · exact hs.1 w hw
        · intro c hc
          simp only at hc
          split at hc
          · rcases mem_coneInsert _ _ _ hc with rfl | hc
            · exact relRep_isReduced hwr
            · exact hs.2 c hc
          · exact hs.2 c hc
      · cases h
      · cases h
      · cases h
    · cases h
    · cases h

theorem relLoop_relRed (ds : DSymData) (e2w : E2W) (i j : Nat) : ∀ (reps : List Nat)
    (st st' : RelState), RelRed st → relLoop ds e2w i j st reps = .ok st' → RelRed st'
  | [], st, st', hs, h => by simp [relLoop] at h; rw [← h]; exact hs
  | d :: rest, st, st', hs, h => by
    unfold relLoop at h
    split at h
    · rename_i st1 h1
      exact relLoop_relRed ds e2w i j rest st1 st' (relStep_relRed ds e2w i j d st st1 hs h1) h
    · cases h
    · cases h

theorem pairLoop_relRed (ds : DSymData) (e2w : E2W) : ∀ (ps : List (Nat × Nat))
    (st st' : RelState), RelRed st → pairLoop ds e2w st ps = .ok st' → RelRed st'
  | [], st, st', hs, h => by simp [pairLoop] at h; rw [← h]; exact hs
  | (i, j) :: rest, st, st', hs, h => by
    unfold pairLoop at h
    split at h
    · rename_i st1 h1
      exact pairLoop_relRed ds e2w rest st1 st' (relLoop_relRed ds e2w i j _ st st1 hs h1) h
    · cases h
    · cases h

/-- the three clauses of `fg_words_reduced` -/
theorem fundamentalGroup_reduced (ds : DSymData) (f : FundGroup)
    (h : fundamentalGroup ds = .ok f) :
    (∀ w ∈ f.relators, isReduced w = true) ∧ (∀ c ∈ f.cones, isReduced c.1 = true) ∧
    (∀ e ∈ f.edgeToWord, isReduced e.2 = true) := by
  unfold fundamentalGroup at h
  split at h
  · rename_i e2w g2e hg
    split at h
    · rename_i st hp
      injection h with h
      have h0 : RelRed { relators := [], cones := [] } :=
        ⟨fun w hw => (by cases hw), fun c hc => (by cases hc)⟩
      have hr : RelRed st := pairLoop_relRed ds e2w _ _ st h0 hp
      rw [← h]
      exact ⟨hr.1, hr.2, findGenerators_allRed ds e2w g2e hg⟩
    · cases h
    · cases h
  · cases h
  · cases h

end DSymVerif.FGP
