/-
Lemmas for property C07, phase 2, part 8: **the private `orbifold_symbol` collects the crate's
census**.  The cone list of the generator's private routine (a 2 for every two-chamber (0,2)-orbit
on which s0 = s2 without fixed chamber, and v for every cycle orbit with v > 1) is, as a multiset,
the cone census `conesOf (typesOf y)` that C08's theorems attach to `delaney2d::orbifold_symbol`
for the emitted symbol `y`; likewise for the corner list (a 2 for every chamber fixed by s0 and
s2, and v for every chain orbit with v > 1).
-/
import DSymVerif.Proofs.DSymGenSum
import DSymVerif.Proofs.DSymGenGood
import DSymVerif.Proofs.Delaney2dCover

set_option linter.unusedSectionVars false

namespace DSymVerif.SymGen
open DSymVerif.DS DSymVerif.D2

/-! ### census lists as `filterMap`s -/

def coneT (t : Nat × Bool) : Option Nat := if t.2 = true ∧ t.1 > 1 then some t.1 else none
def cornerT (t : Nat × Bool) : Option Nat := if t.2 = false ∧ t.1 > 1 then some t.1 else none

theorem conesOf_eq (ts : List (Nat × Bool)) : conesOf ts = ts.filterMap coneT := by
  unfold conesOf
  induction ts with
  | nil => rfl
  | cons t ts ih =>
    by_cases h : t.2 = true ∧ t.1 > 1
    · have hf : (t.2 && decide (t.1 > 1)) = true := by simp [h.1, h.2]
      rw [List.filterMap_cons_some (show coneT t = some t.1 by unfold coneT; rw [if_pos h])]
      simp only [List.filter_cons, hf, if_true, List.map_cons]
      rw [ih]
    · have hf : (t.2 && decide (t.1 > 1)) = false := by
        by_contra hne
        simp only [Bool.not_eq_false, Bool.and_eq_true, decide_eq_true_eq] at hne
        exact h hne
      rw [List.filterMap_cons_none (show coneT t = none by unfold coneT; rw [if_neg h])]
      simp only [List.filter_cons, hf, Bool.false_eq_true, if_false]
      exact ih

theorem cornersOf_eq (ts : List (Nat × Bool)) : cornersOf ts = ts.filterMap cornerT := by
  unfold cornersOf
  induction ts with
  | nil => rfl
  | cons t ts ih =>
    by_cases h : t.2 = false ∧ t.1 > 1
    · have hf : (!t.2 && decide (t.1 > 1)) = true := by simp [h.1, h.2]
      rw [List.filterMap_cons_some (show cornerT t = some t.1 by unfold cornerT; rw [if_pos h])]
      simp only [List.filter_cons, hf, if_true, List.map_cons]
      rw [ih]
    · have hf : (!t.2 && decide (t.1 > 1)) = false := by
        by_contra hne
        simp only [Bool.not_eq_false, Bool.and_eq_true, Bool.not_eq_true', decide_eq_true_eq] at hne
        exact h hne
      rw [List.filterMap_cons_none (show cornerT t = none by unfold cornerT; rw [if_neg h])]
      simp only [List.filter_cons, hf, Bool.false_eq_true, if_false]
      exact ih

/-! ### the first loop: (0,2)-orbits -/

def cone02 (ds : DSetData) (d : Nat) : Option Nat :=
  if ds.opU 0 d ≠ d ∧ ds.opU 2 d = ds.opU 0 d then some 2 else none

def corner02 (ds : DSetData) (d : Nat) : Option Nat :=
  if ds.opU 0 d = d ∧ ds.opU 2 d = d then some 2 else none

theorem points02_eq (ds : DSetData) :
    points02 ds = ((ds.viewSimple.orbitReps2d 0 2).filterMap (cone02 ds),
                   (ds.viewSimple.orbitReps2d 0 2).filterMap (corner02 ds)) := by
  unfold points02
  have key : ∀ (l : List Nat) (acc : List Nat × List Nat),
      l.foldl (fun (acc : List Nat × List Nat) d =>
        let d0 := ds.opU 0 d
        let d2 := ds.opU 2 d
        if d0 == d && d2 == d then (acc.1, acc.2 ++ [2])
        else if d0 != d && d2 == d0 then (acc.1 ++ [2], acc.2)
        else acc) acc = (acc.1 ++ l.filterMap (cone02 ds), acc.2 ++ l.filterMap (corner02 ds)) := by
    intro l
    induction l with
    | nil => intro acc; simp
    | cons d t ih =>
      intro acc
      simp only [List.foldl_cons]
      rw [ih]
      by_cases h1 : ds.opU 0 d = d ∧ ds.opU 2 d = d
      · have c1 : cone02 ds d = none := by unfold cone02; rw [if_neg (fun h => h.1 h1.1)]
        have c2 : corner02 ds d = some 2 := by unfold corner02; rw [if_pos h1]
        rw [List.filterMap_cons_none c1, List.filterMap_cons_some c2]
        simp [h1.1, h1.2]
      · by_cases h2 : ds.opU 0 d ≠ d ∧ ds.opU 2 d = ds.opU 0 d
        · have c1 : cone02 ds d = some 2 := by unfold cone02; rw [if_pos h2]
          have c2 : corner02 ds d = none := by unfold corner02; rw [if_neg h1]
          rw [List.filterMap_cons_some c1, List.filterMap_cons_none c2]
          have e1 : (ds.opU 0 d == d && ds.opU 2 d == d) = false := by
            simp only [Bool.and_eq_false_iff, beq_eq_false_iff_ne, ne_eq]; exact Or.inl h2.1
          have e2 : (ds.opU 0 d != d && ds.opU 2 d == ds.opU 0 d) = true := by
            simp [h2.1, h2.2]
          simp [e1, e2]
        · have c1 : cone02 ds d = none := by unfold cone02; rw [if_neg h2]
          have c2 : corner02 ds d = none := by unfold corner02; rw [if_neg h1]
          rw [List.filterMap_cons_none c1, List.filterMap_cons_none c2]
          have e1 : (ds.opU 0 d == d && ds.opU 2 d == d) = false := by
            by_contra hne
            simp only [Bool.not_eq_false, Bool.and_eq_true, beq_iff_eq] at hne
            exact h1 hne
          have e2 : (ds.opU 0 d != d && ds.opU 2 d == ds.opU 0 d) = false := by
            by_contra hne
            simp only [Bool.not_eq_false, Bool.and_eq_true, bne_iff_ne, ne_eq, beq_iff_eq] at hne
            exact h2 hne
          simp [e1, e2]
  rw [key]
  simp

section far
variable {y : DSymData} (hv : ValidSym y) (hdim : y.dim = 2)
include hv hdim

theorem op_some (j e : Nat) (hj : j ≤ y.dim) (h1 : 1 ≤ e) (h2 : e ≤ y.size) :
    y.op j e = some (y.dset.opU j e) := by
  show y.dset.opSimple j e = _
  unfold DSetData.opSimple
  have h2' : e ≤ y.dset.size := h2
  have hj' : j ≤ y.dset.dim := hj
  rw [if_neg (by simp only [Bool.or_eq_true, decide_eq_true_eq]; omega)]

theorem vN02 (d : Nat) (hd : 1 ≤ d ∧ d ≤ y.size) :
    vN y 0 2 d = if y.dset.opU 0 d = y.dset.opU 2 d then 2 else 1 := by
  have h := y.vPartial_far' (i := 0) (j := 2) (Or.inl (by omega)) (by omega) (by omega) hd.1 hd.2
  unfold vN
  rw [h, op_some hv hdim 0 d (by omega) hd.1 hd.2, op_some hv hdim 2 d (by omega) hd.1 hd.2]
  by_cases he : y.dset.opU 0 d = y.dset.opU 2 d
  · rw [if_pos (by rw [he]), if_pos he]
  · rw [if_neg (by intro hh; exact he (Option.some.inj hh)), if_neg he]

/-- a (0,2)-orbit on which s0 = s2: it is {d, s0 d} -/
theorem orb02 (d x : Nat) (hd : 1 ≤ d ∧ d ≤ y.size) (he : y.dset.opU 0 d = y.dset.opU 2 d)
    (ho : Orb2 y.dset 0 2 d x) : x = d ∨ x = y.dset.opU 0 d := by
  have hdim' : y.dset.dim = 2 := hdim
  have hd' : 1 ≤ d ∧ d ≤ y.dset.size := hd
  have hr := hv.set.range 0 d (by omega) hd.1 hd.2
  have inv0 := hv.set.invol 0 d (by omega) hd.1 hd.2
  have inv2 := hv.set.invol 2 d (by omega) hd.1 hd.2
  induction ho with
  | refl => exact Or.inl rfl
  | @stepI e _ ih =>
    rcases ih with rfl | rfl
    · exact Or.inr rfl
    · exact Or.inl inv0
  | @stepJ e _ ih =>
    rcases ih with rfl | rfl
    · exact Or.inr he.symm
    · left; rw [he]; exact inv2

theorem loopless02 (d : Nat) (hd : 1 ≤ d ∧ d ≤ y.size) (he : y.dset.opU 0 d = y.dset.opU 2 d) :
    looplessB y 0 2 d = true ↔ y.dset.opU 0 d ≠ d := by
  have hdim' : y.dset.dim = 2 := hdim
  have hd' : 1 ≤ d ∧ d ≤ y.dset.size := hd
  have hr := hv.set.range 0 d (by omega) hd.1 hd.2
  have inv0 := hv.set.invol 0 d (by omega) hd.1 hd.2
  unfold looplessB
  rw [List.all_eq_true]
  constructor
  · intro hall hfix
    have := hall d ((mem_orbit_iff hv.set (by omega) (by omega) hd).mpr (Orb2.refl d))
    rw [op_some hv hdim 0 d (by omega) hd.1 hd.2] at this
    simp only [Bool.and_eq_true, bne_iff_ne, ne_eq, Option.some.injEq] at this
    exact this.1 hfix
  · intro hne z hz
    have hzo := (mem_orbit_iff hv.set (by omega) (by omega) hd).mp hz
    have hzr := Orb2.range hv.set (by omega) (by omega) hd hzo
    rw [op_some hv hdim 0 z (by omega) hzr.1 hzr.2, op_some hv hdim 2 z (by omega) hzr.1 hzr.2]
    simp only [Bool.and_eq_true, bne_iff_ne, ne_eq, Option.some.injEq]
    rcases orb02 hv hdim d z hd he hzo with rfl | rfl
    · exact ⟨hne, by rw [← he]; exact hne⟩
    · have inv2 : y.dset.opU 2 (y.dset.opU 0 d) = d := by
        rw [he]; exact hv.set.invol 2 d (by omega) hd.1 hd.2
      refine ⟨by rw [inv0]; exact fun e => hne e.symm, by rw [inv2]; exact fun e => hne e.symm⟩

theorem census02 (d : Nat) (hd : 1 ≤ d ∧ d ≤ y.size) :
    coneT (vN y 0 2 d, looplessB y 0 2 d) = cone02 y.dset d ∧
    cornerT (vN y 0 2 d, looplessB y 0 2 d) = corner02 y.dset d := by
  rw [vN02 hv hdim d hd]
  by_cases he : y.dset.opU 0 d = y.dset.opU 2 d
  · have hl := loopless02 hv hdim d hd he
    rw [if_pos he]
    by_cases hfix : y.dset.opU 0 d = d
    · have hlb : looplessB y 0 2 d = false := by
        cases hb : looplessB y 0 2 d
        · rfl
        · exact absurd hfix (hl.mp hb)
      rw [hlb]
      have a1 : coneT (2, false) = none := by unfold coneT; rw [if_neg (by simp)]
      have a2 : cone02 y.dset d = none := by unfold cone02; rw [if_neg (fun h => h.1 hfix)]
      have a3 : cornerT (2, false) = some 2 := by unfold cornerT; rw [if_pos ⟨rfl, by decide⟩]
      have a4 : corner02 y.dset d = some 2 := by
        unfold corner02; rw [if_pos ⟨hfix, by rw [← he]; exact hfix⟩]
      rw [a1, a2, a3, a4]; exact ⟨rfl, rfl⟩
    · have hlb : looplessB y 0 2 d = true := hl.mpr hfix
      rw [hlb]
      have a1 : coneT (2, true) = some 2 := by unfold coneT; rw [if_pos ⟨rfl, by decide⟩]
      have a2 : cone02 y.dset d = some 2 := by unfold cone02; rw [if_pos ⟨hfix, he.symm⟩]
      have a3 : cornerT (2, true) = none := by unfold cornerT; rw [if_neg (by simp)]
      have a4 : corner02 y.dset d = none := by unfold corner02; rw [if_neg (fun h => hfix h.1)]
      rw [a1, a2, a3, a4]; exact ⟨rfl, rfl⟩
  · rw [if_neg he]
    have a1 : coneT (1, looplessB y 0 2 d) = none := by
      unfold coneT; rw [if_neg (fun h => by have := h.2; omega)]
    have a2 : cone02 y.dset d = none := by unfold cone02; rw [if_neg (fun h => he h.2.symm)]
    have a3 : cornerT (1, looplessB y 0 2 d) = none := by
      unfold cornerT; rw [if_neg (fun h => by have := h.2; omega)]
    have a4 : corner02 y.dset d = none := by
      unfold corner02; rw [if_neg (fun h => he (by rw [h.1, h.2]))]
    rw [a1, a2, a3, a4]; exact ⟨rfl, rfl⟩

end far

/-! ### the adjacent rows -/

section rows
variable {ds : DSetData} {g : Geom} {c : Ctx} (h : mkCtx ds g = .ok c) (hds : ValidSet ds)
  (hdim : ds.dim = 2) (hfar : FarCommute ds) {vs : List Nat} (hl : vs.length = c.count)
include h hds hdim hfar hl

theorem emitted_valid : ValidSym (emittedSym c vs) := by
  obtain ⟨hd, _⟩ := mkCtx_fields h
  exact ⟨emittedSym_tables h hds vs hl, by show FarCommute c.dset; rw [hd]; exact hfar⟩

theorem emitted_dim : (emittedSym c vs).dim = 2 := by
  obtain ⟨hd, _⟩ := mkCtx_fields h
  show c.dset.dim = 2; rw [hd]; exact hdim

/-- the census entry of an adjacent orbit, read from the generator's tables -/
theorem census_adj (i : Nat) (hi : i < 2) (d : Nat) (hd : 1 ≤ d ∧ d ≤ ds.size) :
    coneT (vN (emittedSym c vs) i (i + 1) d, looplessB (emittedSym c vs) i (i + 1) d) =
      coneAt c vs ((emittedSym c vs).ixAt i d) ∧
    cornerT (vN (emittedSym c vs) i (i + 1) d, looplessB (emittedSym c vs) i (i + 1) d) =
      cornerAt c vs ((emittedSym c vs).ixAt i d) := by
  obtain ⟨hdd, _, hch, _, _, _⟩ := mkCtx_fields h
  have hv := emitted_valid h hds hdim hfar hl
  have hdm := emitted_dim h hds hdim hfar hl
  have hi' : i < (emittedSym c vs).dim := by rw [hdm]; exact hi
  have hsz : (emittedSym c vs).size = ds.size := by show c.dset.size = _; rw [hdd]
  have hd' : 1 ≤ d ∧ d ≤ (emittedSym c vs).size := by rw [hsz]; exact hd
  have hvn : vN (emittedSym c vs) i (i + 1) d = vs.getD ((emittedSym c vs).ixAt i d) 0 := by
    unfold vN
    rw [hv.toValidTables.vPartial_adj hi' hd'.1 hd'.2]
    show vs.toArray.getD _ 0 = _
    simp [List.getD, Array.getD_eq_getD_getElem?]
  have hchain := collectOrbits_isChain hv.set hi' hd'.1 hd'.2
  have hix : ((collectOrbits (emittedSym c vs).dset).index.getD i #[]).getD d 0 = (emittedSym c vs).ixAt i d := by
    unfold DSymData.ixAt; rw [hv.index_eq]
  rw [hix] at hchain
  have hflag : (collectOrbits (emittedSym c vs).dset).isChain.getD ((emittedSym c vs).ixAt i d) false =
      c.isChain.getD ((emittedSym c vs).ixAt i d) false := by
    show (collectOrbits c.dset).isChain.getD _ false = _
    rw [hch, hdd]
    simp [List.getD, Array.getD_eq_getD_getElem?]
  rw [hflag] at hchain
  have hloop : looplessB (emittedSym c vs) i (i + 1) d = true ↔
      c.isChain.getD ((emittedSym c vs).ixAt i d) false = false := by
    unfold looplessB
    rw [loopless_iff hv hi' d hd']
    constructor
    · intro hn
      cases hb : c.isChain.getD ((emittedSym c vs).ixAt i d) false
      · rfl
      · exact absurd (hchain.mp hb) hn
    · intro hb hcf
      rw [hchain.mpr hcf] at hb
      cases hb
  rw [hvn]
  unfold coneT cornerT coneAt cornerAt
  simp only
  cases hb : c.isChain.getD ((emittedSym c vs).ixAt i d) false
  · rw [hloop.mpr hb]
    by_cases hgt : vs.getD ((emittedSym c vs).ixAt i d) 0 > 1
    · rw [if_pos ⟨rfl, hgt⟩, if_pos ⟨hgt, rfl⟩, if_neg (by simp), if_neg (by simp)]
      exact ⟨rfl, rfl⟩
    · rw [if_neg (fun hh => hgt hh.2), if_neg (fun hh => hgt hh.1), if_neg (by simp), if_neg (by simp)]
      exact ⟨rfl, rfl⟩
  · have hlf : looplessB (emittedSym c vs) i (i + 1) d = false := by
      cases hx : looplessB (emittedSym c vs) i (i + 1) d
      · rfl
      · have := hloop.mp hx; rw [hb] at this; cases this
    rw [hlf]
    by_cases hgt : vs.getD ((emittedSym c vs).ixAt i d) 0 > 1
    · rw [if_neg (by simp), if_neg (by simp), if_pos ⟨rfl, hgt⟩, if_pos ⟨hgt, rfl⟩]
      exact ⟨rfl, rfl⟩
    · rw [if_neg (by simp), if_neg (by simp), if_neg (fun hh => hgt hh.2), if_neg (fun hh => hgt hh.1)]
      exact ⟨rfl, rfl⟩

/-- the orbit numbers, listed through the representatives of the two adjacent rows -/
theorem reps_numbers_perm :
    (((emittedSym c vs).view.orbitReps2d 0 1).map ((emittedSym c vs).ixAt 0) ++
     ((emittedSym c vs).view.orbitReps2d 1 2).map ((emittedSym c vs).ixAt 1)).Perm
      (List.range c.count) := by
  obtain ⟨_, hrs, _, hvm, _, _⟩ := mkCtx_fields h
  have hv := emitted_valid h hds hdim hfar hl
  have hdm := emitted_dim h hds hdim hfar hl
  have h0 : 0 < (emittedSym c vs).dim := by omega
  have h1 : 1 < (emittedSym c vs).dim := by omega
  have hcount : (emittedSym c vs).orbitRs.size = c.count := by
    show c.rs.toArray.size = c.count
    unfold Ctx.count; rw [hvm, hrs]; simp [computeVmins]
  have mem0 := row_image_mem hv h0
  have mem1 := row_image_mem hv h1
  have nodupReps : ∀ i, i < (emittedSym c vs).dim →
      (((emittedSym c vs).view.orbitReps2d i (i + 1)).map ((emittedSym c vs).ixAt i)).Nodup := by
    intro i hi
    have ok := orbitReps2d_ok hv.set (show i ≤ _ by omega) (show i + 1 ≤ _ by omega)
    have hnodup : ((emittedSym c vs).view.orbitReps2d i (i + 1)).Nodup :=
      ok.distinct.imp (fun {a b} hab he => hab (by subst he; exact Orb2.refl _))
    apply List.Nodup.map_on _ hnodup
    intro a ha b hb hab
    have hra := ok.range a ha
    have hrb := ok.range b hb
    have horb := (hv.toValidTables.ixAt_eq_iff hi hra.1 hra.2 hrb.1 hrb.2).mp hab
    by_contra hne
    have hp : ((emittedSym c vs).view.orbitReps2d i (i + 1)).Pairwise
        (fun a b => ¬ Orb2 (emittedSym c vs).dset i (i + 1) a b ∧ ¬ Orb2 (emittedSym c vs).dset i (i + 1) b a) :=
      ok.distinct.imp_of_mem (fun {a b} ha hb hab =>
        ⟨hab, fun hba => hab (Orb2.symm hv.set (Nat.le_of_lt hi) hi (ok.range b hb) hba)⟩)
    have : Std.Symm (fun a b => ¬ Orb2 (emittedSym c vs).dset i (i + 1) a b ∧
        ¬ Orb2 (emittedSym c vs).dset i (i + 1) b a) := ⟨fun _ _ hh => ⟨hh.2, hh.1⟩⟩
    exact (hp.forall ha hb hne).1 horb
  rw [List.perm_ext_iff_of_nodup]
  · intro k
    rw [List.mem_append, List.mem_range]
    have e0 : k ∈ ((emittedSym c vs).view.orbitReps2d 0 1).map ((emittedSym c vs).ixAt 0) ↔
        ∃ x, 1 ≤ x ∧ x ≤ (emittedSym c vs).size ∧ (emittedSym c vs).ixAt 0 x = k := by
      rw [← mem0 k]; simp [Finset.mem_image, List.mem_toFinset]
    have e1 : k ∈ ((emittedSym c vs).view.orbitReps2d 1 2).map ((emittedSym c vs).ixAt 1) ↔
        ∃ x, 1 ≤ x ∧ x ≤ (emittedSym c vs).size ∧ (emittedSym c vs).ixAt 1 x = k := by
      rw [← mem1 k]; simp [Finset.mem_image, List.mem_toFinset]
    rw [e0, e1]
    constructor
    · rintro (⟨x, hx1, hx2, rfl⟩ | ⟨x, hx1, hx2, rfl⟩)
      · rw [← hcount]; exact hv.toValidTables.ixAt_lt h0 hx1 hx2
      · rw [← hcount]; exact hv.toValidTables.ixAt_lt h1 hx1 hx2
    · intro hk
      rw [← hcount, hv.rs_eq] at hk
      obtain ⟨i, x, hi, hx1, hx2, hx⟩ := collectOrbits_surj hv.set hk
      rw [← hv.index_eq] at hx
      have hi2 : i < 2 := by rw [← hdm]; exact hi
      rcases Nat.lt_succ_iff_lt_or_eq.mp hi2 with hlt | heq
      · have : i = 0 := by omega
        subst this
        exact Or.inl ⟨x, hx1, hx2, hx⟩
      · subst heq
        exact Or.inr ⟨x, hx1, hx2, hx⟩
  · rw [List.nodup_append]
    refine ⟨nodupReps 0 h0, nodupReps 1 h1, ?_⟩
    intro a ha b hb hab
    rw [e_mem ((emittedSym c vs).view.orbitReps2d 0 1)] at ha
    rw [e_mem ((emittedSym c vs).view.orbitReps2d 1 2)] at hb
    obtain ⟨x, hx, rfl⟩ := ha
    obtain ⟨z, hz, hzb⟩ := hb
    have ok0 := orbitReps2d_ok hv.set (show 0 ≤ _ by omega) (show 0 + 1 ≤ _ by omega)
    have ok1 := orbitReps2d_ok hv.set (show 1 ≤ _ by omega) (show 1 + 1 ≤ _ by omega)
    have rx := ok0.range x hx
    have rz := ok1.range z hz
    have := collectOrbits_rows_lt hv.set (show 0 < 1 by omega) (show 1 < (emittedSym c vs).dset.dim from h1)
      rx.1 rx.2 rz.1 rz.2
    rw [← hv.index_eq] at this
    unfold DSymData.ixAt at hab hzb
    omega
  · exact List.nodup_range
where
  e_mem {f : Nat → Nat} (l : List Nat) {a : Nat} : a ∈ l.map f ↔ ∃ x, x ∈ l ∧ f x = a := List.mem_map

/-- **census agreement**: the cone and corner lists of the private `orbifold_symbol` are, as
    multisets, the cone and corner census of the emitted symbol -/
theorem private_census :
    ((points02 c.dset).1 ++ (List.range c.count).filterMap (coneAt c vs)).Perm
      (conesOf (typesOf (emittedSym c vs))) ∧
    ((points02 c.dset).2 ++ (List.range c.count).filterMap (cornerAt c vs)).Perm
      (cornersOf (typesOf (emittedSym c vs))) := by
  obtain ⟨hdd, _⟩ := mkCtx_fields h
  have hv := emitted_valid h hds hdim hfar hl
  have hdm := emitted_dim h hds hdim hfar hl
  have hsz : (emittedSym c vs).size = ds.size := by show c.dset.size = _; rw [hdd]
  have ok0 := orbitReps2d_ok hv.set (show 0 ≤ _ by omega) (show 0 + 1 ≤ (emittedSym c vs).dim by omega)
  have ok1 := orbitReps2d_ok hv.set (show 1 ≤ _ by omega) (show 1 + 1 ≤ (emittedSym c vs).dim by omega)
  have ok2 := orbitReps2d_ok hv.set (show 0 ≤ _ by omega) (show 2 ≤ (emittedSym c vs).dim by omega)
  have hperm := reps_numbers_perm h hds hdim hfar hl
  rw [points02_eq, conesOf_eq, cornersOf_eq]
  unfold typesOf
  simp only [List.filterMap_append, List.filterMap_map]
  -- the three blocks
  have b01c : ((emittedSym c vs).view.orbitReps2d 0 1).filterMap
      (coneT ∘ fun d => (vN (emittedSym c vs) 0 1 d, looplessB (emittedSym c vs) 0 1 d)) =
      (((emittedSym c vs).view.orbitReps2d 0 1).map ((emittedSym c vs).ixAt 0)).filterMap (coneAt c vs) := by
    rw [List.filterMap_map]
    apply List.filterMap_congr
    intro d hd
    have r := ok0.range d hd
    exact (census_adj h hds hdim hfar hl 0 (by omega) d (by rw [← hsz]; exact r)).1
  have b12c : ((emittedSym c vs).view.orbitReps2d 1 2).filterMap
      (coneT ∘ fun d => (vN (emittedSym c vs) 1 2 d, looplessB (emittedSym c vs) 1 2 d)) =
      (((emittedSym c vs).view.orbitReps2d 1 2).map ((emittedSym c vs).ixAt 1)).filterMap (coneAt c vs) := by
    rw [List.filterMap_map]
    apply List.filterMap_congr
    intro d hd
    have r := ok1.range d hd
    exact (census_adj h hds hdim hfar hl 1 (by omega) d (by rw [← hsz]; exact r)).1
  have b02c : ((emittedSym c vs).view.orbitReps2d 0 2).filterMap
      (coneT ∘ fun d => (vN (emittedSym c vs) 0 2 d, looplessB (emittedSym c vs) 0 2 d)) =
      (c.dset.viewSimple.orbitReps2d 0 2).filterMap (cone02 c.dset) := by
    apply List.filterMap_congr
    intro d hd
    exact (census02 hv hdm d (ok2.range d hd)).1
  have b01k : ((emittedSym c vs).view.orbitReps2d 0 1).filterMap
      (cornerT ∘ fun d => (vN (emittedSym c vs) 0 1 d, looplessB (emittedSym c vs) 0 1 d)) =
      (((emittedSym c vs).view.orbitReps2d 0 1).map ((emittedSym c vs).ixAt 0)).filterMap (cornerAt c vs) := by
    rw [List.filterMap_map]
    apply List.filterMap_congr
    intro d hd
    have r := ok0.range d hd
    exact (census_adj h hds hdim hfar hl 0 (by omega) d (by rw [← hsz]; exact r)).2
  have b12k : ((emittedSym c vs).view.orbitReps2d 1 2).filterMap
      (cornerT ∘ fun d => (vN (emittedSym c vs) 1 2 d, looplessB (emittedSym c vs) 1 2 d)) =
      (((emittedSym c vs).view.orbitReps2d 1 2).map ((emittedSym c vs).ixAt 1)).filterMap (cornerAt c vs) := by
    rw [List.filterMap_map]
    apply List.filterMap_congr
    intro d hd
    have r := ok1.range d hd
    exact (census_adj h hds hdim hfar hl 1 (by omega) d (by rw [← hsz]; exact r)).2
  have b02k : ((emittedSym c vs).view.orbitReps2d 0 2).filterMap
      (cornerT ∘ fun d => (vN (emittedSym c vs) 0 2 d, looplessB (emittedSym c vs) 0 2 d)) =
      (c.dset.viewSimple.orbitReps2d 0 2).filterMap (corner02 c.dset) := by
    apply List.filterMap_congr
    intro d hd
    exact (census02 hv hdm d (ok2.range d hd)).2
  rw [b01c, b12c, b02c, b01k, b12k, b02k]
  constructor
  · have p := (hperm.filterMap (coneAt c vs)).symm
    rw [List.filterMap_append] at p
    -- A ++ (X ++ Y) ~ X ++ (A ++ Y)
    exact (p.append_left _).trans (by
      rw [← List.append_assoc, ← List.append_assoc]
      exact List.Perm.append_right _ List.perm_append_comm)
  · have p := (hperm.filterMap (cornerAt c vs)).symm
    rw [List.filterMap_append] at p
    exact (p.append_left _).trans (by
      rw [← List.append_assoc, ← List.append_assoc]
      exact List.Perm.append_right _ List.perm_append_comm)

end rows

end DSymVerif.SymGen
