/-
Helper lemmas for property C08, part 3: the Spec's `orbifoldChi` in ℚ, the Euler
characteristics of the spherical families, and the equivalence of the Spec's `bad`
(tear-drop, spindle and their mirror quotients) with the code's census rule on the
cone list of the orientable double cover.
-/
import DSymVerif.Proofs.Delaney2dFrac

namespace DSymVerif.SpecC08

/-- the defect 1 − 1/v of a singular point of order v -/
def dq (v : Nat) : ℚ := 1 - 1 / (v : ℚ)

theorem dq_nonneg (v : Nat) (hv : 1 ≤ v) : 0 ≤ dq v := by
  unfold dq
  have h : (1 : ℚ) ≤ (v : ℚ) := by exact_mod_cast hv
  have h0 : (0 : ℚ) < (v : ℚ) := by linarith
  rw [sub_nonneg, div_le_iff₀ h0]
  linarith

theorem defect_val (v : Nat) (hv : 1 ≤ v) : (defect v).val = dq v ∧ (defect v).den ≠ 0 := by
  have h0 : (v : ℚ) ≠ 0 := by
    have : (1 : ℚ) ≤ (v : ℚ) := by exact_mod_cast hv
    intro h; rw [h] at this; linarith
  refine ⟨?_, by simp [defect]; omega⟩
  simp only [defect, Fr.val, dq]
  push_cast
  field_simp

theorem defectSum_val (vs : List Nat) (h : ∀ v ∈ vs, 1 ≤ v) :
    (Fr.sum (vs.map defect)).val = (vs.map dq).sum ∧ (Fr.sum (vs.map defect)).den ≠ 0 := by
  have hd : ∀ x ∈ vs.map defect, x.den ≠ 0 := by
    intro x hx
    obtain ⟨v, hv, rfl⟩ := List.mem_map.mp hx
    exact (defect_val v (h v hv)).2
  have := Fr.sum_val (vs.map defect) hd
  refine ⟨?_, this.2⟩
  rw [this.1, List.map_map]
  congr 1
  apply List.map_congr_left
  intro v hv
  exact (defect_val v (h v hv)).1

theorem sum_nonneg_of (vs : List Nat) (h : ∀ v ∈ vs, 1 ≤ v) : 0 ≤ (vs.map dq).sum := by
  induction vs with
  | nil => simp
  | cons v vs ih =>
    simp only [List.map_cons, List.sum_cons]
    have := dq_nonneg v (h v (by simp))
    have := ih (fun u hu => h u (by simp [hu]))
    linarith

/-- all orders in the symbol are ≥ 1 (what `parseSymbol` accepts) -/
def Orb.WF (o : Orb) : Prop := (∀ v ∈ o.cones, 1 ≤ v) ∧ (∀ c ∈ o.bnds, ∀ v ∈ c, 1 ≤ v)

/-- χ = 2 − Σ_cones (1 − 1/v) − Σ_boundaries (1 + Σ_corners (1 − 1/v)/2) − 2·#o − #x -/
def chiQ (o : Orb) : ℚ :=
  2 - (o.cones.map dq).sum - (o.bnds.map fun c => 1 + (c.map dq).sum / 2).sum
    - 2 * (o.handles : ℚ) - (o.caps : ℚ)

theorem bndSum_split (bs : List (List Nat)) :
    (bs.map fun c => 1 + (c.map dq).sum / 2).sum = (bs.length : ℚ) + (bs.map fun c => (c.map dq).sum).sum / 2 := by
  induction bs with
  | nil => simp
  | cons c bs ih =>
    simp only [List.map_cons, List.sum_cons, List.length_cons]
    rw [ih]
    push_cast
    ring

/-- the Spec's fraction arithmetic computes χ -/
theorem orbifoldChi_val (o : Orb) (h : o.WF) : (orbifoldChi o).val = chiQ o ∧ (orbifoldChi o).den ≠ 0 := by
  have hc := defectSum_val o.cones h.1
  have hb : ∀ x ∈ o.bnds.map (fun c => Fr.sum (c.map defect)), x.den ≠ 0 := by
    intro x hx
    obtain ⟨c, hc', rfl⟩ := List.mem_map.mp hx
    exact (defectSum_val c (h.2 c hc')).2
  have hs := Fr.sum_val _ hb
  have hsv : (Fr.sum (o.bnds.map fun c => Fr.sum (c.map defect))).val
      = (o.bnds.map fun c => (c.map dq).sum).sum := by
    rw [hs.1, List.map_map]
    congr 1
    apply List.map_congr_left
    intro c hc'
    exact (defectSum_val c (h.2 c hc')).1
  set cs := Fr.sum (o.bnds.map fun c => Fr.sum (c.map defect)) with hcs
  have h2 : (⟨cs.num, 2 * cs.den⟩ : Fr).val = cs.val / 2 ∧ (⟨cs.num, 2 * cs.den⟩ : Fr).den ≠ 0 := by
    refine ⟨?_, by simp; exact hs.2⟩
    have : (cs.den : ℚ) ≠ 0 := Nat.cast_ne_zero.mpr hs.2
    simp only [Fr.val]
    push_cast
    field_simp
  have h0 := Fr.ofInt_val (2 - (o.bnds.length : Int) - 2 * (o.handles : Int) - (o.caps : Int))
  have s1 := Fr.sub_val _ _ h0.2 hc.2
  have s2 := Fr.sub_val _ _ s1.2 h2.2
  unfold orbifoldChi
  simp only
  refine ⟨?_, s2.2⟩
  rw [s2.1, s1.1, h0.1, hc.1, h2.1, hsv]
  unfold chiQ
  rw [bndSum_split]
  push_cast
  ring

/-! ### the census rule -/

open DSymVerif.D2 in
/-- the `match cones.len()` of `is_spherical` says: not exactly one singular point, and
    if exactly two then of equal order — a statement about the multiset -/
theorem censusRule_iff (L : List Nat) :
    censusRule L = true ↔ L.length ≠ 1 ∧ (L.length = 2 → ∀ a ∈ L, ∀ b ∈ L, a = b) := by
  match L with
  | [] => simp [censusRule]
  | [a] => simp [censusRule]
  | [a, b] =>
    simp only [censusRule, beq_iff_eq, List.length_cons, List.length_nil, ne_eq, Nat.reduceAdd,
      OfNat.ofNat_ne_one, not_false_eq_true, List.mem_cons, List.not_mem_nil, or_false, forall_eq_or_imp,
      forall_eq, true_and, forall_const]
    constructor
    · intro h; subst h; simp
    · intro h; exact h.1
  | a :: b :: c :: r => simp [censusRule]

open DSymVerif.D2 in
theorem censusRule_eq_not (L : List Nat) : censusRule L = !oneOrTwoDifferent L := by
  match L with
  | [] => rfl
  | [a] => rfl
  | [a, b] =>
    simp only [censusRule, oneOrTwoDifferent]
    cases h : a == b <;> simp [bne, h]
  | a :: b :: c :: r => rfl

open DSymVerif.D2 in
theorem censusRule_perm {L L' : List Nat} (h : L.Perm L') : censusRule L = censusRule L' := by
  have e : (censusRule L = true) ↔ (censusRule L' = true) := by
    rw [censusRule_iff, censusRule_iff, h.length_eq]
    constructor
    · intro ⟨h1, h2⟩
      exact ⟨h1, fun hl a ha b hb => h2 hl a (h.mem_iff.mpr ha) b (h.mem_iff.mpr hb)⟩
    · intro ⟨h1, h2⟩
      exact ⟨h1, fun hl a ha b hb => h2 hl a (h.mem_iff.mp ha) b (h.mem_iff.mp hb)⟩
  cases h1 : censusRule L <;> cases h2 : censusRule L' <;> simp_all

open DSymVerif.D2 in
theorem censusRule_long (L : List Nat) (h : 3 ≤ L.length) : censusRule L = true := by
  match L, h with
  | a :: b :: c :: r, _ => rfl

/-- the cone orders of the orientable double cover of the orbifold named by `o`
    (`o` itself when it is closed and orientable): every cone lifts to two cones, every
    corner of a mirror boundary to one -/
def coverCones (o : Orb) : List Nat :=
  if o.bnds.isEmpty && o.caps == 0 then proper o.cones
  else proper o.cones ++ proper o.cones ++ proper o.bnds.flatten

theorem bndSum_ge (bs : List (List Nat)) (h : ∀ c ∈ bs, ∀ v ∈ c, 1 ≤ v) :
    (bs.length : ℚ) ≤ (bs.map fun c => 1 + (c.map dq).sum / 2).sum := by
  rw [bndSum_split]
  have : 0 ≤ (bs.map fun c => (c.map dq).sum).sum := by
    induction bs with
    | nil => simp
    | cons c bs ih =>
      simp only [List.map_cons, List.sum_cons]
      have := sum_nonneg_of c (h c (by simp))
      have := ih (fun d hd => h d (by simp [hd]))
      linarith
  linarith

/-- positive χ forces the underlying surface to be a sphere, a disc or a projective plane -/
theorem chi_pos_shape (o : Orb) (h : o.WF) (hpos : 0 < chiQ o) :
    o.handles = 0 ∧ o.bnds.length + o.caps ≤ 1 := by
  have hA := sum_nonneg_of o.cones h.1
  have hB := bndSum_ge o.bnds h.2
  unfold chiQ at hpos
  have key : (o.bnds.length : ℚ) + 2 * (o.handles : ℚ) + (o.caps : ℚ) < 2 := by linarith
  have key' : o.bnds.length + 2 * o.handles + o.caps < 2 := by exact_mod_cast key
  omega

open DSymVerif.D2 in
theorem census_cover (L M : List Nat) : censusRule (L ++ L ++ M) = (!L.isEmpty || censusRule M) := by
  match L with
  | [] => simp
  | [a] =>
    match M with
    | [] => simp [censusRule]
    | b :: r => rfl
  | a :: b :: r =>
    have : censusRule ((a :: b :: r) ++ (a :: b :: r) ++ M) = true := by
      apply censusRule_long; simp; omega
    rw [this]; rfl

open DSymVerif.D2 in
/-- for χ > 0 the Spec's `bad` (property text: "one cone or corner point, or two of
    different order") is the negation of the code's census rule on the double cover -/
theorem bad_eq_not_census (o : Orb) (h : o.WF) (hpos : 0 < chiQ o) :
    bad o = !censusRule (coverCones o) := by
  obtain ⟨hh, hbc⟩ := chi_pos_shape o h hpos
  obtain ⟨cones, bnds, handles, caps⟩ := o
  simp only at hh hbc
  subst hh
  cases bnds with
  | nil =>
    simp only [List.length_nil, Nat.zero_add] at hbc
    rcases Nat.le_one_iff_eq_zero_or_eq_one.mp hbc with rfl | rfl
    · have e1 : bad ⟨cones, [], 0, 0⟩ = oneOrTwoDifferent (proper cones) := by simp [bad]
      have e2 : coverCones ⟨cones, [], 0, 0⟩ = proper cones := rfl
      rw [e1, e2, censusRule_eq_not]; simp
    · have e1 : bad ⟨cones, [], 0, 1⟩ = false := by simp [bad]
      have e2 : coverCones ⟨cones, [], 0, 1⟩ = proper cones ++ proper cones ++ [] := rfl
      rw [e1, e2, census_cover]; simp [censusRule]
  | cons c bs =>
    have hbs : bs = [] := by
      cases bs with
      | nil => rfl
      | cons _ _ => simp at hbc; omega
    have hcaps : caps = 0 := by simp at hbc; omega
    subst hbs; subst hcaps
    have e1 : bad ⟨cones, [c], 0, 0⟩ = ((proper cones).isEmpty && oneOrTwoDifferent (proper c)) := by
      simp [bad]
    have e2 : coverCones ⟨cones, [c], 0, 0⟩ = proper cones ++ proper cones ++ proper c := by
      simp [coverCones]
    rw [e1, e2, census_cover, censusRule_eq_not]
    cases (proper cones).isEmpty <;> simp

/-! ### Euler characteristics of the spherical families -/

section families
variable (p q n : Nat)

theorem chi_teardrop : chiQ ⟨[p], [], 0, 0⟩ = 1 + 1 / (p : ℚ) := by
  simp [chiQ, dq]; ring
theorem chi_spindle : chiQ ⟨[p, q], [], 0, 0⟩ = 1 / (p : ℚ) + 1 / (q : ℚ) := by
  simp [chiQ, dq]; ring
theorem chi_star_p : chiQ ⟨[], [[p]], 0, 0⟩ = (1 + 1 / (p : ℚ)) / 2 := by
  simp [chiQ, dq]; ring
theorem chi_star_pq : chiQ ⟨[], [[p, q]], 0, 0⟩ = (1 / (p : ℚ) + 1 / (q : ℚ)) / 2 := by
  simp [chiQ, dq]; ring
theorem chi_n_star : chiQ ⟨[n], [[]], 0, 0⟩ = 1 / (n : ℚ) := by
  simp [chiQ, dq]; ring
theorem chi_n_x : chiQ ⟨[n], [], 0, 1⟩ = 1 / (n : ℚ) := by
  simp [chiQ, dq]; ring
theorem chi_nn : chiQ ⟨[n, n], [], 0, 0⟩ = 2 / (n : ℚ) := by
  simp [chiQ, dq]; ring
theorem chi_star_nn : chiQ ⟨[], [[n, n]], 0, 0⟩ = 1 / (n : ℚ) := by
  simp [chiQ, dq]; ring
theorem chi_22n : chiQ ⟨[2, 2, n], [], 0, 0⟩ = 1 / (n : ℚ) := by
  simp [chiQ, dq]; ring
theorem chi_star_22n : chiQ ⟨[], [[2, 2, n]], 0, 0⟩ = 1 / (2 * (n : ℚ)) := by
  simp [chiQ, dq]; ring
theorem chi_2_star_n : chiQ ⟨[2], [[n]], 0, 0⟩ = 1 / (2 * (n : ℚ)) := by
  simp [chiQ, dq]; ring

end families

theorem inv_pos_of_one_le (n : Nat) (hn : 1 ≤ n) : (0 : ℚ) < 1 / (n : ℚ) := by
  have : (0 : ℚ) < (n : ℚ) := by exact_mod_cast hn
  positivity

end DSymVerif.SpecC08
