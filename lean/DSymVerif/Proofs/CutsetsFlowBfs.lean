/-
Helper lemmas for property C19, part 3: the breadth-first search of `augment`.

* `by_first` builds a key-sorted map whose entries are exactly the pairs it was given;
* the BFS invariant: `seen = {source} ∪ keys(back)`, the queue is inside `seen`, `back`
  is a tree of residual edges (every parent is older than its child), every seen vertex
  is either still queued or fully expanded, every seen vertex is a key of `neighbors`;
* fuel adequacy: `|keys| + 2` iterations are enough (the potential
  `#unseen keys + |queue|` drops by one per iteration);
* the search never panics when the source is a key of `neighbors`.
-/
import Mathlib.Data.List.Perm.Subperm
import Mathlib.Data.List.Dedup
import DSymVerif.Proofs.CutsetsModel

namespace DSymVerif.CutP
open DSymVerif.Cut DSymVerif.SpecC19

/-! ### lookups -/

theorem lookup_cons_self {β} (k : Nat) (b : β) (m : List (Nat × β)) :
    List.lookup k ((k, b) :: m) = some b := by
  simp

theorem lookup_cons_ne {β} {k a : Nat} (h : k ≠ a) (b : β) (m : List (Nat × β)) :
    List.lookup k ((a, b) :: m) = List.lookup k m := by
  have : (k == a) = false := by simpa using h
  simp [List.lookup_cons, this]

theorem lookup_none_of_not_key {β} (a : Nat) :
    ∀ m : List (Nat × β), (∀ p ∈ m, a ≠ p.1) → m.lookup a = none
  | [], _ => rfl
  | (k, b) :: m, h => by
    rw [lookup_cons_ne (h (k, b) List.mem_cons_self)]
    exact lookup_none_of_not_key a m (fun p hp => h p (List.mem_cons_of_mem _ hp))

theorem lookup_isSome_iff {β} (a : Nat) :
    ∀ m : List (Nat × β), (m.lookup a).isSome = true ↔ a ∈ m.map Prod.fst
  | [] => by simp
  | (k, b) :: m => by
    by_cases h : a = k
    · subst h; simp
    · rw [lookup_cons_ne h, lookup_isSome_iff a m]; simp [h]

/-! ### `by_first` -/

def KeysSorted (m : List (Nat × List Nat)) : Prop := (m.map Prod.fst).Pairwise (· < ·)

/-- `w` is listed among the neighbours of `v` -/
def Nb (m : List (Nat × List Nat)) (v w : Nat) : Prop := ∃ ws, m.lookup v = some ws ∧ w ∈ ws

theorem nb_nil (v w : Nat) : ¬ Nb [] v w := by
  rintro ⟨ws, h, _⟩; simp at h

theorem nb_cons_self (k : Nat) (ws : List Nat) (m : List (Nat × List Nat)) (w : Nat) :
    Nb ((k, ws) :: m) k w ↔ w ∈ ws := by
  simp [Nb]

theorem nb_cons_ne {v k : Nat} (h : v ≠ k) (ws : List Nat) (m : List (Nat × List Nat)) (w : Nat) :
    Nb ((k, ws) :: m) v w ↔ Nb m v w := by
  simp [Nb, lookup_cons_ne h]

theorem insPair_keys (a b : Nat) : ∀ m : List (Nat × List Nat),
    ∀ k ∈ (insPair a b m).map Prod.fst, k = a ∨ k ∈ m.map Prod.fst
  | [], k, hk => by simp [insPair] at hk; exact Or.inl hk
  | (k0, ws) :: r, k, hk => by
    simp only [insPair] at hk
    split at hk
    · simp only [List.map_cons, List.mem_cons] at hk ⊢
      rcases hk with h | h | h
      · exact Or.inl h
      · exact Or.inr (Or.inl h)
      · exact Or.inr (Or.inr h)
    · split at hk
      · right; simpa using hk
      · simp only [List.map_cons, List.mem_cons] at hk ⊢
        rcases hk with h | h
        · exact Or.inr (Or.inl h)
        · rcases insPair_keys a b r k h with h | h
          · exact Or.inl h
          · exact Or.inr (Or.inr h)

theorem insPair_spec (a b : Nat) : ∀ m : List (Nat × List Nat), KeysSorted m →
    KeysSorted (insPair a b m) ∧ ∀ v w, Nb (insPair a b m) v w ↔ ((v = a ∧ w = b) ∨ Nb m v w)
  | [], _ => by
    refine ⟨by simp [insPair, KeysSorted], fun v w => ?_⟩
    simp only [insPair]
    by_cases h : v = a
    · subst h; rw [nb_cons_self]; simp [nb_nil]
    · rw [nb_cons_ne h]; simp [nb_nil, h]
  | (k, ws) :: r, hs => by
    have hs' : KeysSorted r := by
      simp only [KeysSorted, List.map_cons, List.pairwise_cons] at hs; exact hs.2
    have hk : ∀ k' ∈ r.map Prod.fst, k < k' := by
      simp only [KeysSorted, List.map_cons, List.pairwise_cons] at hs; exact hs.1
    simp only [insPair]
    split
    · rename_i hlt
      have hnone : ∀ w, ¬ Nb ((k, ws) :: r) a w := by
        rintro w ⟨ws', h, _⟩
        rw [lookup_none_of_not_key a ((k, ws) :: r)] at h
        · simp at h
        · intro p hp
          rcases List.mem_cons.1 hp with hp | hp
          · rw [hp]; exact Nat.ne_of_lt hlt
          · have := hk p.1 (List.mem_map_of_mem hp); omega
      refine ⟨?_, fun v w => ?_⟩
      · simp only [KeysSorted, List.map_cons, List.pairwise_cons] at hs ⊢
        refine ⟨?_, hs⟩
        intro k' hk'
        rcases List.mem_cons.1 hk' with h | h
        · rw [h]; exact hlt
        · have := hk k' h; omega
      · by_cases h : v = a
        · subst h; rw [nb_cons_self]; simp [hnone]
        · rw [nb_cons_ne h]; simp [h]
    · rename_i hnlt
      split
      · rename_i heq
        subst heq
        refine ⟨by simpa [KeysSorted] using hs, fun v w => ?_⟩
        by_cases h : v = a
        · subst h; rw [nb_cons_self, nb_cons_self, mem_insNat]; simp
        · rw [nb_cons_ne h, nb_cons_ne h]; simp [h]
      · rename_i hne
        have hgt : k < a := by omega
        obtain ⟨ih1, ih2⟩ := insPair_spec a b r hs'
        refine ⟨?_, fun v w => ?_⟩
        · simp only [KeysSorted, List.map_cons, List.pairwise_cons]
          refine ⟨?_, ih1⟩
          intro k' hk'
          rcases insPair_keys a b r k' hk' with h | h
          · rw [h]; exact hgt
          · exact hk k' h
        · by_cases h : v = k
          · subst h
            rw [nb_cons_self, nb_cons_self]
            constructor
            · exact Or.inr
            · rintro (⟨h1, _⟩ | h)
              · omega
              · exact h
          · rw [nb_cons_ne h, nb_cons_ne h]; exact ih2 v w

theorem byFirst_aux : ∀ (pairs : List (Nat × Nat)) (m : List (Nat × List Nat)), KeysSorted m →
    KeysSorted (pairs.foldl (fun m p => insPair p.1 p.2 m) m) ∧
    ∀ v w, Nb (pairs.foldl (fun m p => insPair p.1 p.2 m) m) v w ↔ ((v, w) ∈ pairs ∨ Nb m v w)
  | [], m, h => by simp [h]
  | p :: pairs, m, h => by
    obtain ⟨h1, h2⟩ := insPair_spec p.1 p.2 m h
    obtain ⟨ih1, ih2⟩ := byFirst_aux pairs _ h1
    refine ⟨ih1, fun v w => ?_⟩
    simp only [List.foldl_cons]
    rw [ih2 v w, h2 v w, List.mem_cons]
    constructor
    · rintro (h | h | h)
      · exact Or.inl (Or.inr h)
      · exact Or.inl (Or.inl (by obtain ⟨p1, p2⟩ := p; simp only at h; rw [h.1, h.2]))
      · exact Or.inr h
    · rintro ((h | h) | h)
      · right; left; rw [← h]; exact ⟨rfl, rfl⟩
      · exact Or.inl h
      · exact Or.inr (Or.inr h)

/-- what `min_edge_cut` knows about its `neighbors` map -/
structure NbOK (E : List (Nat × Nat)) (nbrs : List (Nat × List Nat)) : Prop where
  sorted : KeysSorted nbrs
  nb : ∀ v w, Nb nbrs v w ↔ ((v, w) ∈ E ∨ (w, v) ∈ E)

theorem nbOK_byFirst (E : List (Nat × Nat)) : NbOK E (byFirst (symm E)) := by
  obtain ⟨h1, h2⟩ := byFirst_aux (symm E) [] (by simp [KeysSorted])
  refine ⟨h1, fun v w => ?_⟩
  have := h2 v w
  simp only [byFirst]
  rw [this, mem_symm]
  simp [nb_nil, swap]

theorem NbOK.isSome_of_nb {E nbrs} (h : NbOK E nbrs) {v w : Nat} (hvw : Nb nbrs v w) :
    (nbrs.lookup w).isSome = true := by
  have : Nb nbrs w v := (h.nb w v).2 ((h.nb v w).1 hvw).symm
  obtain ⟨ws, hws, _⟩ := this
  simp [hws]

theorem NbOK.keys_nodup {E nbrs} (h : NbOK E nbrs) : (nbrs.map Prod.fst).Nodup :=
  List.Pairwise.imp (fun hab => Nat.ne_of_lt hab) h.sorted

/-! ### residual edges, the tree, the invariant -/

/-- `v → w` is an edge of the residual graph of the flow `F` (the test made by `augment`) -/
def resB (E F : List (Nat × Nat)) (v w : Nat) : Bool :=
  !F.contains (v, w) && (E.contains (v, w) || F.contains (w, v))

theorem visit_eq (E F : List (Nat × Nat)) (v : Nat) (st : Bfs) (w : Nat) :
    visit E F v st w =
      if (!st.seen.contains w && resB E F v w) = true then
        { q := st.q ++ [w], seen := insNat w st.seen, back := (w, v) :: st.back }
      else st := by
  unfold visit resB
  cases st.seen.contains w <;> cases F.contains (v, w) <;> cases E.contains (v, w) <;>
    cases F.contains (w, v) <;> simp

/-- `back` (newest binding first) is a tree of residual edges rooted at the source -/
def Tree (E F : List (Nat × Nat)) (s : Nat) : List (Nat × Nat) → Prop
  | [] => True
  | (w, v) :: rest =>
    w ≠ s ∧ hasKey w rest = false ∧ (v = s ∨ hasKey v rest = true) ∧ resB E F v w = true ∧
      Tree E F s rest

theorem hasKey_nil (k : Nat) : hasKey k [] = false := by simp [hasKey]

theorem tree_parent {E F : List (Nat × Nat)} {s : Nat} :
    ∀ {rest : List (Nat × Nat)}, Tree E F s rest → ∀ {w v : Nat}, rest.lookup w = some v →
      (v = s ∨ hasKey v rest = true) ∧ resB E F v w = true ∧ w ≠ s
  | [], _, w, v, h => by simp at h
  | (w0, v0) :: rest, ht, w, v, h => by
    obtain ⟨h1, h2, h3, h4, h5⟩ := ht
    by_cases hw : w = w0
    · subst hw
      rw [lookup_cons_self] at h
      cases h
      refine ⟨?_, h4, h1⟩
      rcases h3 with h3 | h3
      · exact Or.inl h3
      · right; rw [hasKey_cons]; simp [h3]
    · rw [lookup_cons_ne hw] at h
      obtain ⟨a, b, c⟩ := tree_parent h5 h
      refine ⟨?_, b, c⟩
      rcases a with a | a
      · exact Or.inl a
      · right; rw [hasKey_cons]; simp [a]

theorem tree_key_ne {E F : List (Nat × Nat)} {s : Nat} :
    ∀ {rest : List (Nat × Nat)}, Tree E F s rest → ∀ x, hasKey x rest = true → x ≠ s
  | [], _, x, hx => by simp [hasKey_nil] at hx
  | (w0, v0) :: rest, ht, x, hx => by
    rw [hasKey_cons] at hx
    by_cases h : x = w0
    · rw [h]; exact ht.1
    · have : (x == w0) = false := by simpa using h
      exact tree_key_ne ht.2.2.2.2 x (by simpa [this] using hx)

/-- induction along the tree -/
theorem tree_induct {E F : List (Nat × Nat)} {s : Nat} (Q : Nat → Prop) (hs : Q s) :
    ∀ {rest : List (Nat × Nat)}, Tree E F s rest →
      (∀ v w, Q v → hasKey w rest = true → resB E F v w = true → Q w) →
      ∀ x, hasKey x rest = true → Q x
  | [], _, _, x, hx => by simp [hasKey_nil] at hx
  | (w0, v0) :: rest, ht, step, x, hx => by
    obtain ⟨_, _, h3, h4, h5⟩ := ht
    have ih := tree_induct Q hs h5 (fun v w hv hw hr =>
      step v w hv (by rw [hasKey_cons]; simp [hw]) hr)
    rw [hasKey_cons] at hx
    by_cases hxw : x = w0
    · subst hxw
      have hv0 : Q v0 := by
        rcases h3 with h3 | h3
        · rw [h3]; exact hs
        · exact ih v0 h3
      exact step v0 x hv0 (by rw [hasKey_cons]; simp) h4
    · have : hasKey x rest = true := by
        have : (x == w0) = false := by simpa using hxw
        simpa [this] using hx
      exact ih x this

/-- `x` is fully expanded: all its residual neighbours are seen -/
def Done (E F : List (Nat × Nat)) (nbrs : List (Nat × List Nat)) (seen : List Nat) (x : Nat) : Prop :=
  ∀ ws, nbrs.lookup x = some ws → ∀ w ∈ ws, resB E F x w = true → w ∈ seen

def DoneExc (E F : List (Nat × Nat)) (nbrs : List (Nat × List Nat)) (exc : Nat → Prop) (st : Bfs) :
    Prop :=
  ∀ x ∈ st.seen, exc x ∨ x ∈ st.q ∨ Done E F nbrs st.seen x

structure BInv (E F : List (Nat × Nat)) (nbrs : List (Nat × List Nat)) (s : Nat) (st : Bfs) : Prop where
  seen_iff : ∀ x, x ∈ st.seen ↔ (x = s ∨ hasKey x st.back = true)
  q_seen : ∀ x ∈ st.q, x ∈ st.seen
  tree : Tree E F s st.back
  keys : ∀ x ∈ st.seen, x = s ∨ (nbrs.lookup x).isSome = true

/-- potential: unseen keys + queue length -/
def mu (keys : List Nat) (st : Bfs) : Nat :=
  (keys.filter (fun k => !st.seen.contains k)).length + st.q.length

theorem filter_remove_one {keys : List Nat} (hnd : keys.Nodup) {w : Nat} (hw : w ∈ keys)
    (p q : Nat → Bool) (hpw : p w = true) (hq : ∀ x, q x = (p x && decide (x ≠ w))) :
    (keys.filter q).length + 1 = (keys.filter p).length := by
  induction keys with
  | nil => simp at hw
  | cons k ks ih =>
    rw [List.nodup_cons] at hnd
    by_cases hk : k = w
    · subst hk
      have hq' : ∀ x ∈ ks, q x = p x := by
        intro x hx
        have : x ≠ k := fun h => hnd.1 (h ▸ hx)
        rw [hq x]; simp [this]
      have : ks.filter q = ks.filter p := List.filter_congr hq'
      simp [hpw, hq k, this]
    · have hw' : w ∈ ks := by
        rcases List.mem_cons.1 hw with h | h
        · exact absurd h.symm hk
        · exact h
      have := ih hnd.2 hw'
      have hqk : q k = p k := by rw [hq k]; simp [hk]
      simp only [List.filter_cons, hqk]
      split
      · simp only [List.length_cons]; omega
      · exact this

section
variable {E F : List (Nat × Nat)} {nbrs : List (Nat × List Nat)} {s : Nat}

theorem visit_seen_mono (v : Nat) (st : Bfs) (w x : Nat) (hx : x ∈ st.seen) :
    x ∈ (visit E F v st w).seen := by
  rw [visit_eq]; split
  · exact (mem_insNat w x st.seen).2 (Or.inr hx)
  · exact hx

theorem visit_adds (v : Nat) (st : Bfs) (w : Nat) (hr : resB E F v w = true) :
    w ∈ (visit E F v st w).seen := by
  rw [visit_eq]
  by_cases hw : w ∈ st.seen
  · split
    · exact (mem_insNat w w st.seen).2 (Or.inl rfl)
    · exact hw
  · have : (!st.seen.contains w && resB E F v w) = true := by simp [hw, hr]
    rw [if_pos this]
    exact (mem_insNat w w st.seen).2 (Or.inl rfl)

theorem visit_binv (v : Nat) (st : Bfs) (w : Nat) (h : BInv E F nbrs s st) (hv : v ∈ st.seen)
    (hw : (nbrs.lookup w).isSome = true) : BInv E F nbrs s (visit E F v st w) := by
  rw [visit_eq]; split
  · rename_i hc
    simp only [Bool.and_eq_true, Bool.not_eq_true', List.contains_eq_mem, decide_eq_false_iff_not]
      at hc
    obtain ⟨hns, hr⟩ := hc
    have hws : w ≠ s := fun hh => hns ((h.seen_iff w).2 (Or.inl hh))
    have hwk : hasKey w st.back = false := by
      cases hk : hasKey w st.back
      · rfl
      · exact absurd ((h.seen_iff w).2 (Or.inr hk)) hns
    refine ⟨?_, ?_, ?_, ?_⟩
    · intro x
      simp only [mem_insNat, hasKey_cons, Bool.or_eq_true, beq_iff_eq, h.seen_iff x]
      constructor
      · rintro (h | h | h) <;> simp [h]
      · rintro (h | h | h) <;> simp [h]
    · intro x hx
      simp only [List.mem_append, List.mem_singleton] at hx
      rcases hx with hx | hx
      · exact (mem_insNat w x st.seen).2 (Or.inr (h.q_seen x hx))
      · exact (mem_insNat w x st.seen).2 (Or.inl hx)
    · exact ⟨hws, hwk, (h.seen_iff v).1 hv, hr, h.tree⟩
    · intro x hx
      rcases (mem_insNat w x st.seen).1 hx with hx | hx
      · right; rw [hx]; exact hw
      · exact h.keys x hx
  · exact h

theorem done_mono {seen seen' : List Nat} (hsub : ∀ x ∈ seen, x ∈ seen') {x : Nat}
    (h : Done E F nbrs seen x) : Done E F nbrs seen' x :=
  fun ws hws w hw hr => hsub w (h ws hws w hw hr)

theorem visit_done (exc : Nat → Prop) (v : Nat) (st : Bfs) (w : Nat)
    (h : DoneExc E F nbrs exc st) : DoneExc E F nbrs exc (visit E F v st w) := by
  rw [visit_eq]; split
  · intro x hx
    rcases (mem_insNat w x st.seen).1 hx with hx | hx
    · right; left; simp [hx]
    · rcases h x hx with h | h | h
      · exact Or.inl h
      · right; left; simp [h]
      · right; right
        exact done_mono (fun y hy => (mem_insNat w y st.seen).2 (Or.inr hy)) h
  · exact h

theorem visit_mu (keys : List Nat) (hnd : keys.Nodup) (v : Nat) (st : Bfs) (w : Nat)
    (hw : w ∈ keys) : mu keys (visit E F v st w) ≤ mu keys st := by
  rw [visit_eq]; split
  · rename_i hc
    simp only [Bool.and_eq_true, Bool.not_eq_true', List.contains_eq_mem, decide_eq_false_iff_not]
      at hc
    have := filter_remove_one hnd hw (fun k => !st.seen.contains k)
      (fun k => !(insNat w st.seen).contains k) (by simpa using hc.1) (by
        intro x
        by_cases hx : x = w
        · subst hx; simp [mem_insNat]
        · simp [mem_insNat, hx])
    simp only [mu, List.length_append, List.length_singleton]
    omega
  · exact Nat.le_refl _

/-- everything the inner `for` loop does -/
theorem foldl_visit (keys : List Nat) (hnd : keys.Nodup)
    (hkeys : ∀ x, (nbrs.lookup x).isSome = true → x ∈ keys) (exc : Nat → Prop) (v : Nat) :
    ∀ (ws : List Nat) (st : Bfs), BInv E F nbrs s st → v ∈ st.seen →
      DoneExc E F nbrs exc st → (∀ w ∈ ws, (nbrs.lookup w).isSome = true) →
      let st' := ws.foldl (visit E F v) st
      BInv E F nbrs s st' ∧ DoneExc E F nbrs exc st' ∧ mu keys st' ≤ mu keys st ∧
        (∀ x ∈ st.seen, x ∈ st'.seen) ∧ (∀ w ∈ ws, resB E F v w = true → w ∈ st'.seen)
  | [], st, h1, _, h3, _ => ⟨h1, h3, Nat.le_refl _, fun _ h => h, by simp⟩
  | w :: ws, st, h1, h2, h3, h4 => by
    have hw := h4 w List.mem_cons_self
    have ih := foldl_visit keys hnd hkeys exc v ws (visit E F v st w)
      (visit_binv v st w h1 h2 hw) (visit_seen_mono v st w v h2) (visit_done exc v st w h3)
      (fun x hx => h4 x (List.mem_cons_of_mem _ hx))
    simp only [List.foldl_cons]
    obtain ⟨a, b, c, d, e⟩ := ih
    refine ⟨a, b, Nat.le_trans c (visit_mu keys hnd v st w (hkeys w hw)), ?_, ?_⟩
    · intro x hx; exact d x (visit_seen_mono v st w x hx)
    · intro x hx hr
      rcases List.mem_cons.1 hx with hx | hx
      · rw [hx]; exact d w (visit_adds v st w (by rw [← hx]; exact hr))
      · exact e x hx hr

/-- **The BFS of `augment`**: with `|keys| + 2` fuel it never runs out of fuel; it panics only
    if the source is not a key of `neighbors`; otherwise it stops in a state satisfying the
    invariant in which either the sink has been reached or the queue is empty and every seen
    vertex is fully expanded. -/
theorem bfs_total (hnb : NbOK E nbrs) (t : Nat) :
    ∀ (fuel : Nat) (st : Bfs), BInv E F nbrs s st → DoneExc E F nbrs (fun _ => False) st →
      mu (nbrs.map Prod.fst) st + 1 ≤ fuel →
      (bfs E F nbrs t fuel st = .panic ∧ nbrs.lookup s = none) ∨
      ∃ st', bfs E F nbrs t fuel st = .ok st' ∧ BInv E F nbrs s st' ∧
        (hasKey t st'.back = true ∨ (st'.q = [] ∧ DoneExc E F nbrs (fun _ => False) st'))
  | 0, _, _, _, hf => by omega
  | fuel + 1, st, hinv, hdone, hf => by
    unfold bfs
    split
    · rename_i hq
      exact Or.inr ⟨st, rfl, hinv, Or.inr ⟨hq, hdone⟩⟩
    · rename_i v q' hq
      have hvseen : v ∈ st.seen := hinv.q_seen v (by rw [hq]; exact List.mem_cons_self)
      split
      · rename_i hnone
        left
        refine ⟨rfl, ?_⟩
        rcases hinv.keys v hvseen with h | h
        · rw [← h]; exact hnone
        · rw [hnone] at h; simp at h
      · rename_i ws hws
        have hinv0 : BInv E F nbrs s { st with q := q' } :=
          ⟨hinv.seen_iff, fun x hx => hinv.q_seen x (by rw [hq]; exact List.mem_cons_of_mem _ hx),
            hinv.tree, hinv.keys⟩
        have hdone0 : DoneExc E F nbrs (fun x => x = v) { st with q := q' } := by
          intro x hx
          rcases hdone x hx with h | h | h
          · exact absurd h id
          · rw [hq] at h
            rcases List.mem_cons.1 h with h | h
            · exact Or.inl h
            · exact Or.inr (Or.inl h)
          · exact Or.inr (Or.inr h)
        have hkeys : ∀ x, (nbrs.lookup x).isSome = true → x ∈ nbrs.map Prod.fst :=
          fun x hx => (lookup_isSome_iff x nbrs).1 hx
        have hwsome : ∀ w ∈ ws, (nbrs.lookup w).isSome = true :=
          fun w hw => hnb.isSome_of_nb ⟨ws, hws, hw⟩
        obtain ⟨a, b, c, d, e⟩ := foldl_visit (nbrs.map Prod.fst) hnb.keys_nodup hkeys
          (fun x => x = v) v ws { st with q := q' } hinv0 hvseen hdone0 hwsome
        have hdone1 : DoneExc E F nbrs (fun _ => False)
            (ws.foldl (visit E F v) { st with q := q' }) := by
          intro x hx
          rcases b x hx with h | h | h
          · right; right
            rw [h]
            intro ws' hws' w hw hr
            rw [hws] at hws'; cases hws'
            exact e w hw hr
          · exact Or.inr (Or.inl h)
          · exact Or.inr (Or.inr h)
        have hmu : mu (nbrs.map Prod.fst) { st with q := q' } + 1 = mu (nbrs.map Prod.fst) st := by
          simp only [mu, hq, List.length_cons]; omega
        simp only
        split
        · rename_i hk
          exact Or.inr ⟨_, rfl, a, Or.inl hk⟩
        · exact bfs_total hnb t fuel _ a hdone1 (by omega)

end

end DSymVerif.CutP
