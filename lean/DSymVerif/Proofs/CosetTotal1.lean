/-
C11 totality, part 1: `merge` never fails — the fuel of its loop suffices because every round
that extends the queue removes a live row (`live`).
-/
import DSymVerif.Proofs.LowIndexTotal

namespace DSymVerif.CosetInvP
open DSymVerif DSymVerif.Cosets DSymVerif.LowIndexP DSymVerif.CosetPartP DSymVerif.CanonP

/-- number of live (canonical) rows -/
def live (t : Table) : Nat := (List.range t.len).countP (fun c => decide (t.canon c = c))

theorem countP_remove_one : ∀ (l : List Nat), l.Nodup → ∀ (x : Nat), x ∈ l → ∀ (p q : Nat → Bool),
    (∀ y ∈ l, q y = (p y && decide (y ≠ x))) → p x = true → l.countP q + 1 = l.countP p
  | [], _, x, hx, _, _, _, _ => by cases hx
  | z :: l, hn, x, hx, p, q, hpq, hp => by
    have hzl : z ∉ l := (List.nodup_cons.mp hn).1
    have hn' : l.Nodup := (List.nodup_cons.mp hn).2
    rw [List.countP_cons, List.countP_cons]
    by_cases hzx : z = x
    · subst hzx
      have hq : q z = false := by rw [hpq z (by simp)]; simp
      have hrest : l.countP q = l.countP p := by
        apply List.countP_congr
        intro y hy
        have hyz : y ≠ z := fun e => hzl (e ▸ hy)
        rw [hpq y (by simp [hy])]
        simp [hyz]
      simp [hq, hp, hrest]
    · have hxl : x ∈ l := by
        rcases List.mem_cons.mp hx with e | e
        · exact absurd e.symm hzx
        · exact e
      have ih := countP_remove_one l hn' x hxl p q (fun y hy => hpq y (by simp [hy])) hp
      have hq : q z = p z := by rw [hpq z (by simp)]; simp [hzx]
      rw [hq]
      omega

theorem live_pos {t : Table} (s : Shape t) : 0 < live t := by
  unfold live
  rw [List.countP_pos_iff]
  exact ⟨t.canon 0, List.mem_range.mpr (canon_lt s s.pos), by simp [canon_idem s]⟩

theorem live_le (t : Table) : live t ≤ t.len := by
  unfold live
  have := List.countP_le_length (p := fun c => decide (t.canon c = c)) (l := List.range t.len)
  simpa using this

/-- uniting two different live rows removes exactly one live row -/
theorem live_unite {t : Table} (s : Shape t) {a b : Nat} (hab : a ≠ b) (ha : t.canon a = a)
    (hb : t.canon b = b) (hal : a < t.len) (hbl : b < t.len) :
    live ({ t with part := t.part.unite a b } : Table) + 1 = live t := by
  obtain ⟨_, _, w, hw, hfind⟩ := unite_spec s.wfp a b
  have ha' : t.part.find a = a := ha
  have hb' : t.part.find b = b := hb
  rw [ha', hb'] at hw hfind
  let l := if w = a then b else a
  have hll : l < t.len := by simp only [l]; split <;> assumption
  have hlc : t.canon l = l := by simp only [l]; split <;> assumption
  have hlw : l ≠ w := by
    simp only [l]
    rcases hw with rfl | rfl
    · simp [hab.symm]
    · simp [hab.symm, hab]
  have hlab : l = a ∨ l = b := by simp only [l]; split <;> simp
  unfold live
  have hlen : ({ t with part := t.part.unite a b } : Table).len = t.len := rfl
  rw [hlen]
  apply countP_remove_one _ List.nodup_range l (List.mem_range.mpr hll)
  · intro c _
    have hc' : ({ t with part := t.part.unite a b } : Table).canon c =
        if t.canon c = a ∨ t.canon c = b then w else t.canon c := hfind c
    rw [hc']
    by_cases hcab : t.canon c = a ∨ t.canon c = b
    · simp only [hcab, if_true]
      by_cases hcw : w = c
      · subst hcw
        have hwc : t.canon w = w := by rcases hw with rfl | rfl <;> assumption
        simp [hwc, hlw.symm]
      · simp only [hcw, decide_false]
        by_cases hcc : t.canon c = c
        · -- c ∈ {a,b}, c ≠ w, so c = l
          have hcl : c = l := by
            rw [hcc] at hcab
            simp only [l]
            rcases hw with rfl | rfl
            · rcases hcab with e | e
              · exact absurd e.symm hcw
              · simp [e]
            · rcases hcab with e | e
              · simp [hab.symm, e]
              · exact absurd e.symm hcw
          simp [hcc, hcl]
        · simp [hcc]
    · simp only [hcab, if_false]
      by_cases hcc : t.canon c = c
      · have hcl : c ≠ l := by
          intro e
          rw [hcc, e] at hcab
          exact hcab hlab
        simp [hcc, hcl]
      · simp [hcc]
  · simp [hlc]

/-! ### `merge` never fails -/

theorem mergeGens_step {t : Table} (s : Shape t) {a b : Nat} (hal : a < t.len) (hbl : b < t.len)
    {g : Int} (hg : g ∈ t.allGens) (q : List (Nat × Nat)) :
    ∃ t1 q1, Table.mergeGens a b [g] t q = .ok (t1, q1) ∧
      (∀ gs, Table.mergeGens a b (g :: gs) t q = Table.mergeGens a b gs t1 q1) ∧
      q1.length ≤ q.length + 1 := by
  rcases get_total s hal hg with h1 | ⟨ag, h1⟩ <;> rcases get_total s hbl hg with h2 | ⟨bg, h2⟩
  · exact ⟨t, q, by simp [Table.mergeGens, h1, h2], fun gs => by simp [Table.mergeGens, h1, h2], by omega⟩
  · obtain ⟨t1, hs⟩ := set_succeeds s.width a hg bg
    exact ⟨t1, q, by simp [Table.mergeGens, h1, h2, hs], fun gs => by simp [Table.mergeGens, h1, h2, hs], by omega⟩
  · obtain ⟨t1, hs⟩ := set_succeeds s.width b hg ag
    exact ⟨t1, q, by simp [Table.mergeGens, h1, h2, hs], fun gs => by simp [Table.mergeGens, h1, h2, hs], by omega⟩
  · exact ⟨t, q ++ [(ag, bg)], by simp [Table.mergeGens, h1, h2], fun gs => by simp [Table.mergeGens, h1, h2],
      by simp⟩

theorem mergeGens_total (a b : Nat) (hab : a ≠ b) :
    ∀ (gs : List Int) (t : Table) (q : List (Nat × Nat)),
      gs.Nodup → (∀ g ∈ gs, g ∈ t.allGens) → t.canon a = a → t.canon b = b → a < t.len → b < t.len →
      TCq t ((a, b) :: q) →
      ∃ t' q', Table.mergeGens a b gs t q = .ok (t', q') ∧ q'.length ≤ q.length + gs.length
  | [], t, q, _, _, _, _, _, _, _ => ⟨t, q, rfl, by simp⟩
  | g :: gs, t, q, hnd, hgs, ha, hb, hal, hbl, inv => by
    have hg : g ∈ t.allGens := hgs g (by simp)
    obtain ⟨t1, q1, h1, hcont, hlen⟩ := mergeGens_step inv.shape hal hbl hg q
    obtain ⟨i1, i2, i3, i4, _, _, _⟩ := mergeGens_spec a b hab [g] t q t1 q1 (by simp)
      (fun g' hg' => by simp at hg'; subst hg'; exact hg) ha hb hal hbl inv h1
    have hc1 : ∀ x, t1.canon x = t.canon x := fun x => by unfold Table.canon; rw [i3]
    have hg1 : t1.allGens = t.allGens := i2.allGens
    obtain ⟨t', q', h', hl'⟩ := mergeGens_total a b hab gs t1 q1 (List.nodup_cons.mp hnd).2
      (fun g' hg' => by rw [hg1]; exact hgs g' (by simp [hg'])) (by rw [hc1]; exact ha)
      (by rw [hc1]; exact hb) (by omega) (by omega) i1
    refine ⟨t', q', by rw [hcont]; exact h', ?_⟩
    simp only [List.length_cons]
    omega

theorem allGensOf_length (n : Nat) : (allGensOf n).length = 2 * n := by
  simp [allGensOf]; omega

/-- `merge`'s loop terminates within its fuel: every round that extends the queue (by at most
    `2·nr_gens` pairs) removes a live row -/
theorem mergeLoop_total : ∀ (fuel : Nat) (t : Table) (q : List (Nat × Nat)),
    TCq t q → q.length + (live t - 1) * (2 * t.nrGens) ≤ fuel →
    ∃ t', Table.mergeLoop fuel t q = .ok t' ∧ live t' ≤ live t ∧
      (∀ a b rest, q = (a, b) :: rest → t.canon a ≠ t.canon b → live t' < live t) := by
  intro fuel
  induction fuel with
  | zero =>
    intro t q inv hf
    cases q with
    | nil => exact ⟨t, rfl, Nat.le_refl _, fun a b rest h => by cases h⟩
    | cons p q => simp at hf
  | succ f ih =>
    intro t q inv hf
    cases q with
    | nil => exact ⟨t, rfl, Nat.le_refl _, fun a b rest h => by cases h⟩
    | cons p rest =>
      obtain ⟨a0, b0⟩ := p
      simp only [Table.mergeLoop]
      have hr := inv.qrange (a0, b0) (by simp)
      by_cases hab : t.canon a0 = t.canon b0
      · simp only [hab, if_true]
        have inv' : TCq t rest := by
          refine ⟨inv.shape, ?_, inv.creation, fun p hp => inv.qrange p (List.mem_cons_of_mem _ hp)⟩
          intro x y z hy hget
          obtain ⟨e, he, hs⟩ := inv.uinv x y z hy hget
          refine ⟨e, he, hs.mono ?_⟩
          intro f hf
          refine ⟨hf.1, fun p hp => ?_⟩
          rcases List.mem_cons.mp hp with rfl | hp
          · have e1 := hf.1 a0
            have e2 := hf.1 b0
            rw [hab] at e1
            exact e1.symm.trans e2
          · exact hf.2 p hp
        obtain ⟨t', h', hl', _⟩ := ih t rest inv' (by simp only [List.length_cons] at hf; omega)
        refine ⟨t', h', hl', ?_⟩
        intro a b r e hne
        simp only [List.cons.injEq, Prod.mk.injEq] at e
        obtain ⟨⟨rfl, rfl⟩, _⟩ := e
        exact absurd hab hne
      · simp only [hab, if_false]
        have inv0 : TCq t ((t.canon a0, t.canon b0) :: rest) := by
          refine ⟨inv.shape, ?_, inv.creation, ?_⟩
          · intro x y z hy hget
            obtain ⟨e, he, hs⟩ := inv.uinv x y z hy hget
            refine ⟨e, he, hs.mono ?_⟩
            intro f hf
            refine ⟨hf.1, fun p hp => ?_⟩
            rcases List.mem_cons.mp hp with rfl | hp
            · have e1 := hf.1 a0
              have e2 := hf.1 b0
              have e3 := hf.2 (t.canon a0, t.canon b0) (by simp)
              exact e1.symm.trans (e3.trans e2)
            · exact hf.2 p (List.mem_cons_of_mem _ hp)
          · intro p hp
            rcases List.mem_cons.mp hp with rfl | hp
            · exact ⟨canon_lt inv.shape hr.1, canon_lt inv.shape hr.2⟩
            · exact inv.qrange p (List.mem_cons_of_mem _ hp)
        have hca := canon_idem inv.shape a0
        have hcb := canon_idem inv.shape b0
        have hal := canon_lt inv.shape hr.1
        have hbl := canon_lt inv.shape hr.2
        obtain ⟨t1, q1, hm, hq1⟩ := mergeGens_total (t.canon a0) (t.canon b0) hab t.allGens t rest
          (allGensOf_nodup _) (fun g hg => hg) hca hcb hal hbl inv0
        rw [hm]
        simp only []
        obtain ⟨i1, i2, i3, i4, _, i6, _⟩ := mergeGens_spec (t.canon a0) (t.canon b0) hab t.allGens t rest
          t1 q1 (allGensOf_nodup _) (fun g hg => hg) hca hcb hal hbl inv0 hm
        have hc1 : ∀ x, t1.canon x = t.canon x := fun x => by unfold Table.canon; rw [i3]
        have hg1 : t1.allGens = t.allGens := i2.allGens
        have ha1 : t1.canon (t.canon a0) = t.canon a0 := by rw [hc1]; exact hca
        have hb1 : t1.canon (t.canon b0) = t.canon b0 := by rw [hc1]; exact hcb
        obtain ⟨u1, _, _, _⟩ := unite_tcq (t := t1) (q := q1) hab ha1 hb1
          (by rw [i4]; exact hal) (by rw [i4]; exact hbl)
          i1 (fun g hg => i6 g (by rw [← hg1]; exact hg))
        have hlive1 : live t1 = live t := by
          unfold live
          rw [i4]
          apply List.countP_congr
          intro c _
          rw [hc1]
        have hlu := live_unite i1.shape hab ha1 hb1 (by rw [i4]; exact hal) (by rw [i4]; exact hbl)
        have hn1 : t1.nrGens = t.nrGens := i2.1
        have hlen : (allGensOf t.nrGens).length = 2 * t.nrGens := allGensOf_length _
        have hq1' : q1.length ≤ rest.length + 2 * t.nrGens := by
          have : t.allGens.length = 2 * t.nrGens := hlen
          omega
        -- two different live rows
        have hlive2 : 2 ≤ live t := by
          rw [← hlive1, ← hlu]
          have := live_pos u1.shape
          omega
        generalize ht2 : ({ t1 with part := t1.part.unite (t.canon a0) (t.canon b0) } : Table) = t2 at u1 hlu ⊢
        have hng : t2.nrGens = t.nrGens := by rw [← ht2]; exact hn1
        obtain ⟨t', h', hl', _⟩ := ih t2 q1 u1 (by
          rw [hng]
          simp only [List.length_cons] at hf
          have e : live t - 1 = (live t2 - 1) + 1 := by omega
          rw [e, Nat.add_mul] at hf
          omega)
        refine ⟨t', h', by omega, fun _ _ _ _ _ => by omega⟩

theorem merge_total {t : Table} {a b : Nat} (inv : TCq t []) (ha : a < t.len) (hb : b < t.len) :
    ∃ t', t.merge a b = .ok t' ∧ live t' ≤ live t ∧ (t.canon a ≠ t.canon b → live t' < live t) := by
  unfold Table.merge
  have inv1 : TCq t [(a, b)] := by
    refine ⟨inv.shape, ?_, inv.creation, ?_⟩
    · intro x y z hy hget
      obtain ⟨e, he, hs⟩ := inv.uinv x y z hy hget
      exact ⟨e, he, hs.mono (fun f hf => ⟨hf.1, fun p hp => by cases hp⟩)⟩
    · intro p hp
      simp only [List.mem_singleton] at hp
      subst hp
      exact ⟨ha, hb⟩
  obtain ⟨t', h', hl, hlt⟩ := mergeLoop_total (t.rows.size * (2 * t.nrGens) + 1) t [(a, b)] inv1 (by
    have h1 := live_le t
    have h2 : (live t - 1) * (2 * t.nrGens) ≤ t.len * (2 * t.nrGens) := Nat.mul_le_mul_right _ (by omega)
    simp only [List.length_singleton]
    have : t.len = t.rows.size := rfl
    rw [this] at h2
    omega)
  exact ⟨t', h', hl, fun hne => hlt a b [] rfl hne⟩

end DSymVerif.CosetInvP
