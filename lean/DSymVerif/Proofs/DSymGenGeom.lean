/-
Lemmas about the model of the D-symbol generator, part 6: the curvature window of each
geometry setting, in terms of the exact rational curvature.  The lower bound `-CURV_FAC` that
`new` puts on hyperbolic searches is implied by minimal hyperbolicity (lowering one branching
number v ≥ 2 by one raises the bookkeeping value by k·CURV_FAC/(v(v−1)) ≤ CURV_FAC).
-/
import DSymVerif.Proofs.DSymGenTree

namespace DSymVerif.SymGen
open DSymVerif.DS

/-- minimal hyperbolicity in terms of the exact rational curvature -/
def MinHypQ (c : Ctx) (vs : List Nat) : Prop :=
  curvQ c vs < 0 ∧
  ∀ i, i < c.count → vs.getD i 0 > c.vmins.getD i 0 → 0 ≤ curvQ c (vs.set i (vs.getD i 0 - 1))

theorem adm_bounds {c : Ctx} (hw : WF c) {vs : List Nat} (ha : Adm c vs) (i : Nat) (hi : i < c.count) :
    1 ≤ vs.getD i 0 ∧ vs.getD i 0 ≤ Tables.genVMax := by
  have := hw.vminPos i hi
  have := ha.2 i hi
  omega

theorem lowered_bounds {c : Ctx} (hw : WF c) {vs : List Nat} (ha : Adm c vs) (j : Nat) (hj : j < c.count)
    (hgt : vs.getD j 0 > c.vmins.getD j 0) (i : Nat) (hi : i < c.count) :
    1 ≤ (vs.set j (vs.getD j 0 - 1)).getD i 0 ∧ (vs.set j (vs.getD j 0 - 1)).getD i 0 ≤ Tables.genVMax := by
  rw [getD_set vs j _ i (by rw [ha.1]; exact hj)]
  have := hw.vminPos j hj
  have := ha.2 j hj
  have := adm_bounds hw ha i hi
  split <;> omega

theorem minHyp_iff_Q {c : Ctx} (hw : WF c) {vs : List Nat} (ha : Adm c vs) : MinHyp c vs ↔ MinHypQ c vs := by
  unfold MinHyp MinHypQ
  rw [(scaled_sign c vs (adm_bounds hw ha)).1]
  constructor
  · rintro ⟨h1, h2⟩
    refine ⟨h1, fun i hi hgt => ?_⟩
    have hs := scaled_sign c _ (lowered_bounds hw ha i hi hgt)
    have := h2 i hi hgt
    rcases lt_or_ge 0 (scaled c (vs.set i (vs.getD i 0 - 1))) with h | h
    · exact le_of_lt (hs.2.2.mp h)
    · have : scaled c (vs.set i (vs.getD i 0 - 1)) = 0 := by omega
      exact le_of_eq (hs.2.1.mp this).symm
  · rintro ⟨h1, h2⟩
    refine ⟨h1, fun i hi hgt => ?_⟩
    have hs := scaled_sign c _ (lowered_bounds hw ha i hi hgt)
    have := h2 i hi hgt
    by_contra hneg
    have : curvQ c (vs.set i (vs.getD i 0 - 1)) < 0 := hs.1.mp (by omega)
    linarith

/-- lowering a branching number v ≥ 2 by one raises the bookkeeping value by at most `CURV_FAC` -/
theorem lowered_step (c : Ctx) (i v : Nat) (h2 : 2 ≤ v) (h7 : v ≤ Tables.genVMax) :
    termZ c i (v - 1) - termZ c i v ≤ curvFac := by
  have ha := (termZ_exact c i (v - 1) (by omega) (by omega)).1
  have hb := (termZ_exact c i v (by omega) h7).1
  have hmono := termZ_mono c i (v - 1) v (by omega) (by omega) h7
  have hk : kAt c i * curvFac ≤ 2 * curvFac := by
    have hp := curvFac_pos
    unfold kAt
    rcases kOf_cases (c.isChain.getD i false) with h | h
    · rw [h]; omega
    · rw [h]
  have hk0 : 0 ≤ kAt c i * curvFac := Int.mul_nonneg (kAt_nonneg c i) (Int.le_of_lt curvFac_pos)
  have hcast : ((v - 1 : Nat) : Int) = (v : Int) - 1 := by omega
  rw [hcast] at ha
  have hv : (2 : Int) ≤ (v : Int) := by omega
  -- a := termZ (v-1), b := termZ v :  a (v-1) = b v = kF
  generalize termZ c i (v - 1) = a at *
  generalize termZ c i v = b at *
  generalize kAt c i * curvFac = K at *
  have ha0 : 0 ≤ a := by
    by_contra hneg
    have : a * ((v : Int) - 1) < 0 := Int.mul_neg_of_neg_of_pos (by omega) (by omega)
    omega
  have haK : a ≤ K := by nlinarith
  have hdiff : (a - b) * (v : Int) = a := by nlinarith
  nlinarith

/-- a minimally hyperbolic vector with some entry above its minimum has bookkeeping value
    ≥ `-CURV_FAC` ("implied by minimal hyperbolicity") -/
theorem minHyp_ge {c : Ctx} (hw : WF c) {vs : List Nat} (ha : Adm c vs) (hm : MinHyp c vs)
    (hnb : ¬ c.baseCurv < 0) : -curvFac ≤ scaled c vs := by
  have hex : ∃ j, j < c.count ∧ vs.getD j 0 > c.vmins.getD j 0 := by
    by_contra hne
    have heq : scaled c vs = scaled c c.vmins := by
      apply scaled_congr
      intro i hi
      have := (ha.2 i hi).1
      by_contra hne'
      exact hne ⟨i, hi, by omega⟩
    have := hm.1
    rw [heq, ← hw.base] at this
    exact hnb this
  obtain ⟨j, hj, hgt⟩ := hex
  have h0 := hm.2 j hj hgt
  rw [scaled_set c vs j _ hj ha.1] at h0
  have := hw.vminPos j hj
  have := lowered_step c j (vs.getD j 0) (by omega) (ha.2 j hj).2
  omega

/-! ### the window per geometry -/

theorem geom_table :
    max Geom.spherical.minCurvature Tables.minHypCutoff = 1 ∧ Geom.spherical.maxCurvature = 4 * curvFac ∧
    max Geom.euclidean.minCurvature Tables.minHypCutoff = 0 ∧ Geom.euclidean.maxCurvature = 0 ∧
    max Geom.hyperbolic.minCurvature Tables.minHypCutoff = -curvFac ∧ Geom.hyperbolic.maxCurvature = -1 ∧
    max Geom.all.minCurvature Tables.minHypCutoff = -curvFac ∧ Geom.all.maxCurvature = 4 * curvFac := by decide

/-- what a geometry setting asks of a branching vector, in exact rational curvature (the upper
    end `4 * CURV_FAC` of the spherical window is kept as it is in the source) -/
def GeomCond (g : Geom) (c : Ctx) (vs : List Nat) : Prop :=
  match g with
  | .spherical => 0 < curvQ c vs ∧ scaled c vs ≤ 4 * curvFac
  | .euclidean => curvQ c vs = 0
  | .hyperbolic => MinHypQ c vs
  | .all => (0 ≤ curvQ c vs ∧ scaled c vs ≤ 4 * curvFac) ∨ MinHypQ c vs

theorem window_iff {c : Ctx} (hw : WF c) (hnb : ¬ c.baseCurv < 0) (g : Geom)
    (hmin : c.minCurv = max g.minCurvature Tables.minHypCutoff) (hmax : c.maxCurv = g.maxCurvature)
    {vs : List Nat} (ha : Adm c vs) :
    (c.minCurv ≤ scaled c vs ∧ scaled c vs ≤ c.maxCurv ∧ (0 ≤ scaled c vs ∨ MinHyp c vs)) ↔
      GeomCond g c vs := by
  have hs := scaled_sign c vs (adm_bounds hw ha)
  have hq := minHyp_iff_Q hw ha
  have hge : MinHyp c vs → -curvFac ≤ scaled c vs := fun hm => minHyp_ge hw ha hm hnb
  have hneg : MinHyp c vs → scaled c vs < 0 := fun hm => hm.1
  have hp := curvFac_pos
  obtain ⟨t1, t2, t3, t4, t5, t6, t7, t8⟩ := geom_table
  rw [hmin, hmax]
  cases g with
  | spherical =>
    simp only [GeomCond, t1, t2]
    rw [← hs.2.2]
    constructor
    · rintro ⟨h1, h2, _⟩; exact ⟨by omega, h2⟩
    · rintro ⟨h1, h2⟩; exact ⟨by omega, h2, Or.inl (by omega)⟩
  | euclidean =>
    simp only [GeomCond, t3, t4]
    rw [← hs.2.1]
    constructor
    · rintro ⟨h1, h2, _⟩; omega
    · intro h; exact ⟨by omega, by omega, Or.inl (by omega)⟩
  | hyperbolic =>
    simp only [GeomCond, t5, t6]
    rw [← hq]
    constructor
    · rintro ⟨h1, h2, h3 | h3⟩
      · omega
      · exact h3
    · intro hm
      have := hge hm
      have := hneg hm
      exact ⟨by omega, by omega, Or.inr hm⟩
  | all =>
    simp only [GeomCond, t7, t8]
    rw [← hq]
    constructor
    · rintro ⟨h1, h2, h3 | h3⟩
      · left
        refine ⟨?_, h2⟩
        rcases lt_or_ge 0 (scaled c vs) with h | h
        · exact le_of_lt (hs.2.2.mp h)
        · have : scaled c vs = 0 := by omega
          exact le_of_eq (hs.2.1.mp this).symm
      · exact Or.inr h3
    · rintro (⟨h1, h2⟩ | hm)
      · have h0 : 0 ≤ scaled c vs := by
          by_contra hneg'
          have : curvQ c vs < 0 := hs.1.mp (by omega)
          linarith
        exact ⟨by omega, h2, Or.inl h0⟩
      · have := hge hm
        have := hneg hm
        exact ⟨by omega, by omega, Or.inr hm⟩

end DSymVerif.SymGen
