/-
Helper lemmas for property C15: the lazy iterator chain of `delaney3d::degree`, modelled with
fuel, terminates on every permutation action and returns the least return time of row 0.
Reuses the pigeonhole lemma `DS.piter_returns` (partial injections into `1..n`).
-/
import DSymVerif.Model.Delaney3d
import DSymVerif.Proofs.DSetOrbit
import Mathlib.Data.Nat.Find

namespace DSymVerif.D3
open DSymVerif DSymVerif.DS

/-- restricted to the letters of `w`, `get` is a permutation action on the rows `0..n-1`:
    every entry is defined with its image in range, and no two rows have the same image -/
structure ActsOn (get : Nat → Int → Outcome (Option Nat)) (n : Nat) (w : List Int) : Prop where
  total : ∀ r g, r < n → g ∈ w → ∃ r', r' < n ∧ get r g = .ok (some r')
  inj : ∀ r₁ r₂ g r', r₁ < n → r₂ < n → g ∈ w →
    get r₁ g = .ok (some r') → get r₂ g = .ok (some r') → r₁ = r₂

/-- one step of the fold in `traceRow` -/
def tstep (get : Nat → Int → Outcome (Option Nat)) (acc : Outcome Nat) (g : Int) : Outcome Nat :=
  match acc with
  | .ok a =>
    (match get a g with
     | .ok (some r) => .ok r
     | .ok none => .panic
     | .err => .err
     | .panic => .panic)
  | o => o

theorem traceRow_eq (get : Nat → Int → Outcome (Option Nat)) (r : Nat) (w : List Int) :
    traceRow get r w = w.foldl (tstep get) (.ok r) := rfl

theorem foldl_tstep_panic (get : Nat → Int → Outcome (Option Nat)) :
    ∀ w : List Int, w.foldl (tstep get) .panic = .panic
  | [] => rfl
  | _ :: w => by rw [List.foldl_cons]; exact foldl_tstep_panic get w

theorem foldl_tstep_err (get : Nat → Int → Outcome (Option Nat)) :
    ∀ w : List Int, w.foldl (tstep get) .err = .err
  | [] => rfl
  | _ :: w => by rw [List.foldl_cons]; exact foldl_tstep_err get w

theorem traceRow_nil (get : Nat → Int → Outcome (Option Nat)) (r : Nat) : traceRow get r [] = .ok r := rfl

theorem traceRow_cons_ok {get : Nat → Int → Outcome (Option Nat)} {r r' : Nat} {g : Int}
    (h : get r g = .ok (some r')) (w : List Int) : traceRow get r (g :: w) = traceRow get r' w := by
  rw [traceRow_eq, traceRow_eq, List.foldl_cons]
  have : tstep get (.ok r) g = .ok r' := by simp only [tstep, h]
  rw [this]

/-- a word whose letters act totally maps rows in range to rows in range -/
theorem traceRow_total {get : Nat → Int → Outcome (Option Nat)} {n : Nat} {w : List Int}
    (h : ActsOn get n w) :
    ∀ (u : List Int), (∀ g ∈ u, g ∈ w) → ∀ r, r < n → ∃ r', r' < n ∧ traceRow get r u = .ok r'
  | [], _, r, hr => ⟨r, hr, rfl⟩
  | g :: u, hu, r, hr => by
    obtain ⟨a, ha, hg⟩ := h.total r g hr (hu g (List.mem_cons_self ..))
    obtain ⟨r', hr', ht⟩ := traceRow_total h u (fun x hx => hu x (List.mem_cons_of_mem _ hx)) a ha
    exact ⟨r', hr', by rw [traceRow_cons_ok hg]; exact ht⟩

/-- … and does so injectively -/
theorem traceRow_inj {get : Nat → Int → Outcome (Option Nat)} {n : Nat} {w : List Int}
    (h : ActsOn get n w) :
    ∀ (u : List Int), (∀ g ∈ u, g ∈ w) → ∀ r₁ r₂ c, r₁ < n → r₂ < n →
      traceRow get r₁ u = .ok c → traceRow get r₂ u = .ok c → r₁ = r₂
  | [], _, r₁, r₂, c, _, _, h1, h2 => by
    rw [traceRow_nil] at h1 h2
    cases h1; cases h2; rfl
  | g :: u, hu, r₁, r₂, c, hr1, hr2, h1, h2 => by
    have hg : g ∈ w := hu g (List.mem_cons_self ..)
    obtain ⟨a₁, ha1, hg1⟩ := h.total r₁ g hr1 hg
    obtain ⟨a₂, ha2, hg2⟩ := h.total r₂ g hr2 hg
    rw [traceRow_cons_ok hg1] at h1
    rw [traceRow_cons_ok hg2] at h2
    have := traceRow_inj h u (fun x hx => hu x (List.mem_cons_of_mem _ hx)) a₁ a₂ c ha1 ha2 h1 h2
    subst this
    exact h.inj r₁ r₂ g a₁ hr1 hr2 hg hg1 hg2

/-- `t`-fold application of the word to a row -/
def iterTrace (get : Nat → Int → Outcome (Option Nat)) (w : List Int) : Nat → Nat → Outcome Nat
  | 0, r => .ok r
  | t + 1, r =>
    match iterTrace get w t r with
    | .ok x => traceRow get x w
    | o => o

/-- the action of `w` on rows `0..n-1`, shifted to `1..n` as a partial map -/
def shifted (get : Nat → Int → Outcome (Option Nat)) (n : Nat) (w : List Int) (e : Nat) : Option Nat :=
  if 1 ≤ e ∧ e ≤ n then
    match traceRow get (e - 1) w with
    | .ok r' => some (r' + 1)
    | _ => none
  else none

theorem shifted_pinj {get : Nat → Int → Outcome (Option Nat)} {n : Nat} {w : List Int}
    (h : ActsOn get n w) : PInj (shifted get n w) n := by
  constructor
  · intro e c hc
    unfold shifted at hc
    split at hc
    · rename_i he
      obtain ⟨r', hr', ht⟩ := traceRow_total h w (fun _ hg => hg) (e - 1) (by omega)
      rw [ht] at hc
      cases hc
      omega
    · cases hc
  · intro e e' c hc hc'
    unfold shifted at hc hc'
    split at hc
    · rename_i he
      split at hc'
      · rename_i he'
        obtain ⟨r, hr, ht⟩ := traceRow_total h w (fun _ hg => hg) (e - 1) (by omega)
        obtain ⟨r', hr', ht'⟩ := traceRow_total h w (fun _ hg => hg) (e' - 1) (by omega)
        rw [ht] at hc
        rw [ht'] at hc'
        cases hc
        have hrr : r' = r := by
          have := Option.some.inj hc'
          omega
        subst hrr
        have := traceRow_inj h w (fun _ hg => hg) (e - 1) (e' - 1) r' (by omega) (by omega) ht ht'
        omega
      · cases hc'
    · cases hc

/-- iterating the word from row 0 stays in range and is `piter` of the shifted map -/
theorem iterTrace_piter {get : Nat → Int → Outcome (Option Nat)} {n : Nat} {w : List Int}
    (h : ActsOn get n w) (hn : 0 < n) :
    ∀ t, ∃ x, x < n ∧ iterTrace get w t 0 = .ok x ∧ piter (shifted get n w) t 1 = some (x + 1)
  | 0 => ⟨0, hn, rfl, rfl⟩
  | t + 1 => by
    obtain ⟨x, hx, hi, hp⟩ := iterTrace_piter h hn t
    obtain ⟨y, hy, ht⟩ := traceRow_total h w (fun _ hg => hg) x hx
    refine ⟨y, hy, ?_, ?_⟩
    · simp only [iterTrace, hi, ht]
    · rw [piter_succ, hp]
      simp only [Option.bind_some, shifted]
      rw [if_pos (by omega)]
      simp only [Nat.add_sub_cancel, ht]

/-- the word returns row 0 to itself within `n` applications -/
theorem iterTrace_returns {get : Nat → Int → Outcome (Option Nat)} {n : Nat} {w : List Int}
    (h : ActsOn get n w) (hn : 0 < n) : ∃ t, 1 ≤ t ∧ t ≤ n ∧ iterTrace get w t 0 = .ok 0 := by
  obtain ⟨x, _, _, hp⟩ := iterTrace_piter h hn n
  obtain ⟨t, ht1, ht2, hpt⟩ := piter_returns (shifted_pinj h) (d := 1) (by omega) (by omega) hp
  obtain ⟨y, _, hi, hp'⟩ := iterTrace_piter h hn t
  rw [hpt] at hp'
  have : y = 0 := by
    have := Option.some.inj hp'
    omega
  subst this
  exact ⟨t, ht1, ht2, hi⟩

/-- the fuelled loop finds the least return time `k` when started anywhere before it -/
theorem degreeLoop_spec {get : Nat → Int → Outcome (Option Nat)} {n : Nat} {w : List Int}
    (h : ActsOn get n w) (hn : 0 < n) (k : Nat)
    (hk : iterTrace get w k 0 = .ok 0)
    (hmin : ∀ j, 1 ≤ j → j < k → iterTrace get w j 0 ≠ .ok 0) :
    ∀ fuel i x, i < k → k - i ≤ fuel → iterTrace get w i 0 = .ok x →
      degreeLoop (fun row => traceRow get row w) fuel i x = .ok k
  | 0, i, x, hik, hf, _ => by omega
  | fuel + 1, i, x, hik, hf, hx => by
    obtain ⟨x', hx', hix', _⟩ := iterTrace_piter h hn i
    rw [hx] at hix'
    cases hix'
    obtain ⟨y, _, hy⟩ := traceRow_total h w (fun _ hg => hg) x hx'
    have hnext : iterTrace get w (i + 1) 0 = .ok y := by simp only [iterTrace, hx, hy]
    unfold degreeLoop
    simp only [hy]
    by_cases hy0 : y = 0
    · subst hy0
      rw [if_pos rfl]
      have : ¬ (i + 1 < k) := fun hlt => hmin (i + 1) (by omega) hlt hnext
      have : i + 1 = k := by omega
      rw [this]
    · rw [if_neg hy0]
      have hne : i + 1 ≠ k := by
        intro he
        rw [he, hk] at hnext
        cases hnext
        exact hy0 rfl
      exact degreeLoop_spec h hn k hk hmin fuel (i + 1) y (by omega) (by omega) hnext

/-- the model of `degree` on a permutation action: returns within `n` rounds the least `k ≥ 1`
    with `0·w^k = 0` -/
theorem degreeOf_spec (get : Nat → Int → Outcome (Option Nat)) (n : Nat) (w : List Int)
    (hn : 0 < n) (h : ActsOn get n w) :
    ∃ k, degreeOf get n w = .ok k ∧ 1 ≤ k ∧ k ≤ n ∧ iterTrace get w k 0 = .ok 0 ∧
      ∀ j, 1 ≤ j → j < k → iterTrace get w j 0 ≠ .ok 0 := by
  classical
  have hex : ∃ t, 1 ≤ t ∧ iterTrace get w t 0 = .ok 0 := by
    obtain ⟨t, h1, _, h3⟩ := iterTrace_returns h hn
    exact ⟨t, h1, h3⟩
  obtain ⟨t, ht1, htn, ht⟩ := iterTrace_returns h hn
  refine ⟨Nat.find hex, ?_, (Nat.find_spec hex).1, ?_, (Nat.find_spec hex).2, ?_⟩
  · unfold degreeOf
    exact degreeLoop_spec h hn (Nat.find hex) (Nat.find_spec hex).2
      (fun j hj1 hjk hj => Nat.find_min hex hjk ⟨hj1, hj⟩) n 0 0
      (by have := (Nat.find_spec hex).1; omega)
      (by have := Nat.find_min' hex ⟨ht1, ht⟩; omega) rfl
  · have := Nat.find_min' hex ⟨ht1, ht⟩; omega
  · intro j hj1 hjk hj
    exact Nat.find_min hex hjk ⟨hj1, hj⟩

end DSymVerif.D3
