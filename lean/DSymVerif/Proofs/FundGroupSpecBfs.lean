/-
Helper lemmas for property C09, part 21: the breadth-first tree `SpecC09.spanTree (gOf ds)` of the
Spec is an ordered tree rooted at chamber 1; when it has `size - 1` facets (the Spec's own
connectedness test `connectedBfs`) it reaches every chamber.
-/
import DSymVerif.Proofs.FundGroupSpecB
import DSymVerif.Proofs.FundGroupTree
import Mathlib.Data.List.Perm.Subperm

namespace DSymVerif.FGP
open DSymVerif DSymVerif.DS DSymVerif.FG DSymVerif.SpecC02

theorem getD_setIfInBounds (a : Array Bool) (e x : Nat) (v dflt : Bool) (he : e < a.size) :
    (a.setIfInBounds e v).getD x dflt = if x = e then v else a.getD x dflt := by
  simp only [Array.getD_eq_getD_getElem?, Array.getElem?_setIfInBounds]
  by_cases h : e = x
  · subst h; simp [he]
  · have h' : ¬ x = e := fun e' => h e'.symm
    simp [h, h']

/-- the invariant of the breadth-first search -/
structure BfsInv (ds : DSymData) (queue : List Nat) (seen : Array Bool) (tree : List Edge) : Prop where
  size : seen.size = ds.size + 1
  seen : ∀ x, 1 ≤ x → x ≤ ds.size → (seen.getD x true = true ↔ Reached ds 1 tree x)
  otree : OTree ds 1 tree
  queue : ∀ x ∈ queue, 1 ≤ x ∧ x ≤ ds.size ∧ Reached ds 1 tree x

theorem bfs_inner {ds : DSymData} (hv : ValidSet ds.dset) {d : Nat} (hd1 : 1 ≤ d) (hd2 : d ≤ ds.size) :
    ∀ (is : List Nat), (∀ i ∈ is, i ≤ ds.dim) →
    ∀ (seen : Array Bool) (queue : List Nat) (tree : List Edge),
    BfsInv ds queue seen tree → Reached ds 1 tree d →
    let r := is.foldl (fun (acc : Array Bool × List Nat × List (Nat × Nat)) i =>
      let e := (gOf ds).op i d
      if e == 0 || acc.1.getD e true then acc
      else (acc.1.setIfInBounds e true, acc.2.1 ++ [e], acc.2.2 ++ [(d, i)])) (seen, queue, tree)
    BfsInv ds r.2.1 r.1 r.2.2
  | [], _, seen, queue, tree, h, _ => h
  | i :: is, his, seen, queue, tree, h, hr => by
    simp only [List.foldl_cons]
    have hi := his i List.mem_cons_self
    have re := hv.range i d hi hd1 hd2
    have he0 : ((gOf ds).op i d == 0) = false := by
      rw [gOf_op]
      have := re.1
      simp; omega
    rw [he0, Bool.false_or]
    by_cases hs : seen.getD ((gOf ds).op i d) true = true
    · rw [if_pos hs]
      exact bfs_inner hv hd1 hd2 is (fun i' hi' => his i' (List.mem_cons_of_mem _ hi')) seen queue tree h hr
    · rw [if_neg hs]
      have hnr : ¬ Reached ds 1 tree (ds.dset.opU i d) := fun hr' => hs ((h.seen _ re.1 re.2).2 hr')
      have hlt : ds.dset.opU i d < seen.size := by rw [h.size]; have := re.2; show _ < ds.dset.size + 1; omega
      refine bfs_inner hv hd1 hd2 is (fun i' hi' => his i' (List.mem_cons_of_mem _ hi')) _ _ _ ?_
        (hr.mono (fun e he => List.mem_append_left _ he))
      refine ⟨by rw [Array.size_setIfInBounds]; exact h.size, ?_,
        OTree.snoc h.otree ⟨hd1, hd2, hi⟩ hr hnr, ?_⟩
      · intro x h1 h2
        rw [gOf_op, getD_setIfInBounds _ _ _ _ _ hlt]
        by_cases hx : x = ds.dset.opU i d
        · rw [if_pos hx]
          simp only [true_iff]
          exact Or.inr ⟨(d, i), by simp, hx.symm⟩
        · rw [if_neg hx, h.seen x h1 h2]
          constructor
          · exact fun hr' => hr'.mono (fun e he => List.mem_append_left _ he)
          · rintro (h' | ⟨e, he, h'⟩)
            · exact Or.inl h'
            · rcases List.mem_append.1 he with he | he
              · exact Or.inr ⟨e, he, h'⟩
              · simp only [List.mem_singleton] at he
                subst he
                exact absurd h'.symm hx
      · intro x hx
        rcases List.mem_append.1 hx with hx | hx
        · obtain ⟨a, b, c⟩ := h.queue x hx
          exact ⟨a, b, c.mono (fun e he => List.mem_append_left _ he)⟩
        · simp only [List.mem_singleton] at hx
          subst hx
          rw [gOf_op]
          exact ⟨re.1, re.2, Or.inr ⟨(d, i), by simp, rfl⟩⟩

theorem bfsLoop_inv {ds : DSymData} (hv : ValidSet ds.dset) : ∀ (fuel : Nat) (queue : List Nat)
    (seen : Array Bool) (tree : List Edge), BfsInv ds queue seen tree →
    OTree ds 1 (SpecC09.bfsLoop (gOf ds) fuel queue seen tree).2
  | 0, _, _, _, h => by unfold SpecC09.bfsLoop; exact h.otree
  | fuel + 1, [], _, _, h => by unfold SpecC09.bfsLoop; exact h.otree
  | fuel + 1, d :: queue, seen, tree, h => by
    unfold SpecC09.bfsLoop
    simp only
    obtain ⟨d1, d2, dr⟩ := h.queue d List.mem_cons_self
    have h' : BfsInv ds queue seen tree :=
      ⟨h.size, h.seen, h.otree, fun x hx => h.queue x (List.mem_cons_of_mem _ hx)⟩
    have := bfs_inner hv d1 d2 (gOf ds).indices (fun i hi => (mem_gindices ds i).1 hi) seen queue tree h' dr
    exact bfsLoop_inv hv fuel _ _ _ this

/-- the Spec's breadth-first tree is an ordered tree rooted at chamber 1 -/
theorem spanTree_otree {ds : DSymData} (hv : ValidSet ds.dset) (hsize : 1 ≤ ds.size) :
    OTree ds 1 (SpecC09.spanTree (gOf ds)) := by
  unfold SpecC09.spanTree
  apply bfsLoop_inv hv
  have hsz : ((Array.replicate ((gOf ds).size + 1) false).setIfInBounds 1 true).size = ds.size + 1 := by
    rw [Array.size_setIfInBounds, Array.size_replicate, gOf_size]
  refine ⟨hsz, ?_, OTree.nil, ?_⟩
  · intro x h1 h2
    rw [getD_setIfInBounds _ _ _ _ _ (by rw [Array.size_replicate, gOf_size]; omega)]
    by_cases hx : x = 1
    · rw [if_pos hx]; simp only [true_iff]; exact Or.inl hx
    · rw [if_neg hx]
      simp only [Array.getD_eq_getD_getElem?, Array.getElem?_replicate]
      have : x < (gOf ds).size + 1 := by rw [gOf_size]; omega
      simp [this]
      rintro (h | ⟨e, he, _⟩)
      · exact hx h
      · cases he
  · intro x hx
    simp only [List.mem_singleton] at hx
    subst hx
    exact ⟨Nat.le_refl 1, hsize, Or.inl rfl⟩

/-! ### counting: a tree with `size - 1` facets reaches everything -/

def targetsOf (ds : DSymData) (L : List Edge) : List Nat := L.map fun e => ds.dset.opU e.2 e.1

theorem otree_nodup {ds : DSymData} (hv : ValidSet ds.dset) {root : Nat} (hr : 1 ≤ root ∧ root ≤ ds.size)
    {L : List Edge} (h : OTree ds root L) :
    (root :: targetsOf ds L).Nodup ∧ ∀ x ∈ root :: targetsOf ds L, 1 ≤ x ∧ x ≤ ds.size := by
  induction h with
  | nil => exact ⟨by simp [targetsOf], fun x hx => by simp [targetsOf] at hx; rw [hx]; exact hr⟩
  | @snoc L d i _ hf _ hn ih =>
    have ht : targetsOf ds (L ++ [(d, i)]) = targetsOf ds L ++ [ds.dset.opU i d] := by
      unfold targetsOf; simp
    rw [ht]
    have hnot : ds.dset.opU i d ∉ root :: targetsOf ds L := by
      intro hm
      apply hn
      rcases List.mem_cons.1 hm with h | h
      · exact Or.inl h
      · obtain ⟨e, he, h'⟩ := List.mem_map.1 h
        exact Or.inr ⟨e, he, h'⟩
    constructor
    · have : (root :: (targetsOf ds L ++ [ds.dset.opU i d])) = (root :: targetsOf ds L) ++ [ds.dset.opU i d] := rfl
      rw [this, List.nodup_append]
      refine ⟨ih.1, List.nodup_singleton _, ?_⟩
      intro a ha b hb
      simp only [List.mem_singleton] at hb
      subst hb
      exact fun e => hnot (e ▸ ha)
    · intro x hx
      have : x ∈ (root :: targetsOf ds L) ++ [ds.dset.opU i d] := hx
      rcases List.mem_append.1 this with h | h
      · exact ih.2 x h
      · simp only [List.mem_singleton] at h
        rw [h]
        exact hv.range i d hf.2.2 hf.1 hf.2.1

theorem otree_spanning_of_length {ds : DSymData} (hv : ValidSet ds.dset) {root : Nat}
    (hr : 1 ≤ root ∧ root ≤ ds.size) {L : List Edge} (h : OTree ds root L)
    (hlen : L.length + 1 = ds.size) : ∀ x, 1 ≤ x → x ≤ ds.size → Reached ds root L x := by
  obtain ⟨hnd, hrng⟩ := otree_nodup hv hr h
  have hsub : root :: targetsOf ds L ⊆ ds.view.elements := fun x hx =>
    (DS.mem_elements ds.view x).2 (hrng x hx)
  have hsp : (root :: targetsOf ds L).Subperm ds.view.elements := hnd.subperm hsub
  have hle : ds.view.elements.length ≤ (root :: targetsOf ds L).length := by
    unfold View.elements targetsOf
    simp
    show ds.size ≤ L.length + 1
    omega
  have hperm := hsp.perm_of_length_le hle
  intro x h1 h2
  have : x ∈ root :: targetsOf ds L := hperm.symm.subset ((DS.mem_elements ds.view x).2 ⟨h1, h2⟩)
  rcases List.mem_cons.1 this with h' | h'
  · exact Or.inl h'
  · obtain ⟨e, he, h''⟩ := List.mem_map.1 h'
    exact Or.inr ⟨e, he, h''⟩

/-! ### completeness: on a connected symbol the breadth-first tree has `size - 1` facets -/

theorem otree_length_le {ds : DSymData} (hv : ValidSet ds.dset) {root : Nat}
    (hr : 1 ≤ root ∧ root ≤ ds.size) {L : List Edge} (h : OTree ds root L) : L.length + 1 ≤ ds.size := by
  obtain ⟨hnd, hrng⟩ := otree_nodup hv hr h
  have hsub : root :: targetsOf ds L ⊆ ds.view.elements := fun x hx =>
    (DS.mem_elements ds.view x).2 (hrng x hx)
  have := (hnd.subperm hsub).length_le
  unfold View.elements targetsOf at this
  simp at this
  exact this

/-- every reached chamber that is no longer in the queue has all its neighbours reached -/
def Closed (ds : DSymData) (queue : List Nat) (tree : List Edge) : Prop :=
  ∀ x, Reached ds 1 tree x → x ∉ queue → ∀ i, i ≤ ds.dim → Reached ds 1 tree (ds.dset.opU i x)

theorem bfs_inner_full {ds : DSymData} (hv : ValidSet ds.dset) {d : Nat} (hd1 : 1 ≤ d) (hd2 : d ≤ ds.size) :
    ∀ (is : List Nat), (∀ i ∈ is, i ≤ ds.dim) →
    ∀ (seen : Array Bool) (queue : List Nat) (tree : List Edge),
    BfsInv ds queue seen tree → Reached ds 1 tree d →
    let r := is.foldl (fun (acc : Array Bool × List Nat × List (Nat × Nat)) i =>
      let e := (gOf ds).op i d
      if e == 0 || acc.1.getD e true then acc
      else (acc.1.setIfInBounds e true, acc.2.1 ++ [e], acc.2.2 ++ [(d, i)])) (seen, queue, tree)
    (r.2.1.length + tree.length = queue.length + r.2.2.length) ∧
    (∀ i ∈ is, Reached ds 1 r.2.2 (ds.dset.opU i d)) ∧
    (∀ e ∈ tree, e ∈ r.2.2) ∧ (∀ x ∈ queue, x ∈ r.2.1) ∧
    (∀ x ∈ r.2.1, x ∈ queue ∨ ¬ Reached ds 1 tree x) ∧
    (∀ x, ¬ Reached ds 1 tree x → Reached ds 1 r.2.2 x → x ∈ r.2.1)
  | [], _, seen, queue, tree, _, _ => by
    simp only [List.foldl_nil]
    exact ⟨trivial, fun i hi => (by cases hi), fun e he => he, fun x hx => hx, fun x hx => Or.inl hx,
      fun x h1 h2 => absurd h2 h1⟩
  | i :: is, his, seen, queue, tree, h, hr => by
    simp only [List.foldl_cons]
    have hi := his i List.mem_cons_self
    have re := hv.range i d hi hd1 hd2
    have he0 : ((gOf ds).op i d == 0) = false := by
      rw [gOf_op]
      have := re.1
      simp; omega
    rw [he0, Bool.false_or]
    by_cases hs : seen.getD ((gOf ds).op i d) true = true
    · rw [if_pos hs]
      obtain ⟨a1, a2, a3, a4, a5, a6⟩ := bfs_inner_full hv hd1 hd2 is
        (fun i' hi' => his i' (List.mem_cons_of_mem _ hi')) seen queue tree h hr
      refine ⟨a1, ?_, a3, a4, a5, a6⟩
      intro i' hi'
      rcases List.mem_cons.1 hi' with h' | h'
      · rw [h']
        exact ((h.seen _ re.1 re.2).1 hs).mono a3
      · exact a2 i' h'
    · rw [if_neg hs]
      have hnr : ¬ Reached ds 1 tree (ds.dset.opU i d) := fun hr' => hs ((h.seen _ re.1 re.2).2 hr')
      have hstep := bfs_inner hv hd1 hd2 [i] (fun i' hi' => by
        simp only [List.mem_singleton] at hi'; rw [hi']; exact hi) seen queue tree h hr
      simp only [List.foldl_cons, List.foldl_nil] at hstep
      rw [he0, Bool.false_or, if_neg hs] at hstep
      obtain ⟨a1, a2, a3, a4, a5, a6⟩ := bfs_inner_full hv hd1 hd2 is
        (fun i' hi' => his i' (List.mem_cons_of_mem _ hi')) _ _ _ hstep
        (hr.mono (fun e he => List.mem_append_left _ he))
      refine ⟨?_, ?_, fun e he => a3 e (List.mem_append_left _ he),
        fun x hx => a4 x (List.mem_append_left _ hx), ?_, ?_⟩
      rotate_right
      · intro x hx1 hx2
        by_cases hmid : Reached ds 1 (tree ++ [(d, i)]) x
        · -- x is the chamber that was just pushed
          rcases hmid with h' | ⟨e, he, h'⟩
          · exact absurd (Or.inl h') hx1
          · rcases List.mem_append.1 he with he | he
            · exact absurd (Or.inr ⟨e, he, h'⟩) hx1
            · simp only [List.mem_singleton] at he
              subst he
              apply a4
              rw [← h', gOf_op]
              simp
        · exact a6 x hmid hx2
      · simp only [List.length_append, List.length_singleton] at a1
        omega
      · intro i' hi'
        rcases List.mem_cons.1 hi' with h' | h'
        · rw [h']
          exact Reached.mono a3 (Or.inr ⟨(d, i), by simp, rfl⟩)
        · exact a2 i' h'
      · intro x hx
        rcases a5 x hx with h' | h'
        · rcases List.mem_append.1 h' with h'' | h''
          · exact Or.inl h''
          · simp only [List.mem_singleton] at h''
            rw [h'', gOf_op]
            exact Or.inr hnr
        · exact Or.inr (fun hr' => h' (hr'.mono (fun e he => List.mem_append_left _ he)))

theorem bfsLoop_closed {ds : DSymData} (hv : ValidSet ds.dset) (hsize : 1 ≤ ds.size) :
    ∀ (fuel : Nat) (queue : List Nat) (seen : Array Bool) (tree : List Edge),
    BfsInv ds queue seen tree → Closed ds queue tree → queue.length + ds.size ≤ fuel + tree.length + 1 →
    Closed ds [] (SpecC09.bfsLoop (gOf ds) fuel queue seen tree).2
  | 0, queue, seen, tree, h, hc, hm => by
    unfold SpecC09.bfsLoop
    have := otree_length_le hv ⟨Nat.le_refl 1, hsize⟩ h.otree
    have hq : queue = [] := List.eq_nil_of_length_eq_zero (by omega)
    rw [hq] at hc
    exact hc
  | fuel + 1, [], seen, tree, h, hc, _ => by
    unfold SpecC09.bfsLoop; exact hc
  | fuel + 1, d :: queue, seen, tree, h, hc, hm => by
    unfold SpecC09.bfsLoop
    simp only
    obtain ⟨d1, d2, dr⟩ := h.queue d List.mem_cons_self
    have h' : BfsInv ds queue seen tree :=
      ⟨h.size, h.seen, h.otree, fun x hx => h.queue x (List.mem_cons_of_mem _ hx)⟩
    have hinv := bfs_inner hv d1 d2 (gOf ds).indices (fun i hi => (mem_gindices ds i).1 hi) seen queue tree h' dr
    obtain ⟨a1, a2, a3, a4, a5, a6⟩ := bfs_inner_full hv d1 d2 (gOf ds).indices
      (fun i hi => (mem_gindices ds i).1 hi) seen queue tree h' dr
    apply bfsLoop_closed hv hsize fuel _ _ _ hinv
    · -- closedness after processing d
      intro x hx hxq i hi
      by_cases hxd : x = d
      · rw [hxd]; exact a2 i ((mem_gindices ds i).2 hi)
      · by_cases hxr : Reached ds 1 tree x
        · have hxq' : x ∉ d :: queue := by
            intro hm'
            rcases List.mem_cons.1 hm' with h'' | h''
            · exact hxd h''
            · exact hxq (a4 x h'')
          exact (hc x hxr hxq' i hi).mono a3
        · exact absurd (a6 x hxr hx) hxq
    · simp only [List.length_cons] at hm
      omega

/-- on a connected valid symbol the Spec's breadth-first tree has `size - 1` facets
    (`connectedBfs` holds) -/
theorem spanTree_length {ds : DSymData} (hv : ValidSet ds.dset) (hsize : 1 ≤ ds.size)
    (hc : ds.view.isConnected = true) : (SpecC09.spanTree (gOf ds)).length + 1 = ds.size := by
  have hp : ds.view.PInvol := (C02.traversal_hyp ds.dset).2.2 ds hv
  have hconn := (C02.isConnected_iff ds.view hp).1 hc
  have hot := spanTree_otree hv hsize
  have hclosed : Closed ds [] (SpecC09.spanTree (gOf ds)) := by
    unfold SpecC09.spanTree
    apply bfsLoop_closed hv hsize
    · have hsz : ((Array.replicate ((gOf ds).size + 1) false).setIfInBounds 1 true).size = ds.size + 1 := by
        rw [Array.size_setIfInBounds, Array.size_replicate, gOf_size]
      refine ⟨hsz, ?_, OTree.nil, ?_⟩
      · intro x h1 h2
        rw [getD_setIfInBounds _ _ _ _ _ (by rw [Array.size_replicate, gOf_size]; omega)]
        by_cases hx : x = 1
        · rw [if_pos hx]; simp only [true_iff]; exact Or.inl hx
        · rw [if_neg hx]
          simp only [Array.getD_eq_getD_getElem?, Array.getElem?_replicate]
          have : x < (gOf ds).size + 1 := by rw [gOf_size]; omega
          simp [this]
          rintro (h | ⟨e, he, _⟩)
          · exact hx h
          · cases he
      · intro x hx
        simp only [List.mem_singleton] at hx
        subst hx
        exact ⟨Nat.le_refl 1, hsize, Or.inl rfl⟩
    · intro x hx hxq
      rcases hx with h | ⟨e, he, _⟩
      · exact absurd (by rw [h]; simp) hxq
      · cases he
    · rw [gOf_size]; simp; omega
  have hall : ∀ x, 1 ≤ x → x ≤ ds.size → Reached ds 1 (SpecC09.spanTree (gOf ds)) x := by
    intro x h1 h2
    have hr := hconn x h1 h2
    clear h1 h2
    induction hr with
    | refl => exact Or.inl rfl
    | @step e c i _ hi hop ih =>
      obtain ⟨hi', _, _, hc'⟩ := op_some_iff.1 hop
      rw [← hc']
      exact hclosed e ih (by simp) i hi'
  have hle := otree_length_le hv ⟨Nat.le_refl 1, hsize⟩ hot
  obtain ⟨hnd, _⟩ := otree_nodup hv ⟨Nat.le_refl 1, hsize⟩ hot
  have hsub : ds.view.elements ⊆ 1 :: targetsOf ds (SpecC09.spanTree (gOf ds)) := by
    intro x hx
    have hr := (DS.mem_elements ds.view x).1 hx
    rcases hall x hr.1 hr.2 with h | ⟨e, he, h⟩
    · rw [h]; simp
    · exact List.mem_cons_of_mem _ (List.mem_map.2 ⟨e, he, h⟩)
  have hel : ds.view.elements.Nodup := by
    unfold View.elements
    exact List.Nodup.map (fun a b h => by simpa using h) List.nodup_range
  have := (hel.subperm hsub).length_le
  unfold View.elements targetsOf at this
  simp at this
  have e : ds.view.size = ds.size := rfl
  omega

end DSymVerif.FGP
