/-
Helper lemmas for property C09, part 21: the breadth-first tree `SpecC09.spanTree (gOf ds)` of the
Spec is an ordered tree rooted at chamber 1; when it has `size - 1` facets (the Spec's own
connectedness test `connectedBfs`) it reaches every chamber.
-/
import DSymVerif.Proofs.FundGroupSpecB
import DSymVerif.Proofs.FundGroupTree
import Mathlib.Data.List.Perm.Subperm

namespace DSymVerif.FGP
open DSymVerif DSymVerif.DS DSymVerif.FG DSymVerif.SpecC02

theorem getD_setIfInBounds (a : Array Bool) (e x : Nat) (v dflt : Bool) (he : e < a.size) :
    (a.setIfInBounds e v).getD x dflt = if x = e then v else a.getD x dflt := by
  simp only [Array.getD_eq_getD_getElem?, Array.getElem?_setIfInBounds]
  by_cases h : e = x
  · subst h; simp [he]
  · have h' : ¬ x = e := fun e' => h e'.symm
    simp [h, h']

/-- the invariant of the breadth-first search -/
structure BfsInv (ds : DSymData) (queue : List Nat) (seen : Array Bool) (tree : List Edge) : Prop where
  size : seen.size = ds.size + 1
  seen : ∀ x, 1 ≤ x → x ≤ ds.size → (seen.getD x true = true ↔ Reached ds 1 tree x)
  otree : OTree ds 1 tree
  queue : ∀ x ∈ queue, 1 ≤ x ∧ x ≤ ds.size ∧ Reached ds 1 tree x

theorem bfs_inner {ds : DSymData} (hv : ValidSet ds.dset) {d : Nat} (hd1 : 1 ≤ d) (hd2 : d ≤ ds.size) :
    ∀ (is : List Nat), (∀ i ∈ is, i ≤ ds.dim) →
    ∀ (seen : Array Bool) (queue : List Nat) (tree : List Edge),
    BfsInv ds queue seen tree → Reached ds 1 tree d →
    let r := is.foldl (fun (acc : Array Bool × List Nat × List (Nat × Nat)) i =>
      let e := (gOf ds).op i d
      if e == 0 || acc.1.getD e true then acc
      else (acc.1.setIfInBounds e true, acc.2.1 ++ [e], acc.2.2 ++ [(d, i)])) (seen, queue, tree)
    BfsInv ds r.2.1 r.1 r.2.2
  | [], _, seen, queue, tree, h, _ => h
  | i :: is, his, seen, queue, tree, h, hr => by
    simp only [List.foldl_cons]
    have hi := his i List.mem_cons_self
    have re := hv.range i d hi hd1 hd2
    have he0 : ((gOf ds).op i d == 0) = false := by
      rw [gOf_op]
      have := re.1
      simp; omega
    rw [he0, Bool.false_or]
    by_cases hs : seen.getD ((gOf ds).op i d) true = true
    · rw [if_pos hs]
      exact bfs_inner hv hd1 hd2 is (fun i' hi' => his i' (List.mem_cons_of_mem _ hi')) seen queue tree h hr
    · rw [if_neg hs]
      have hnr : ¬ Reached ds 1 tree (ds.dset.opU i d) := fun hr' => hs ((h.seen _ re.1 re.2).2 hr')
      have hlt : ds.dset.opU i d < seen.size := by rw [h.size]; have := re.2; show _ < ds.dset.size + 1; omega
      refine bfs_inner hv hd1 hd2 is (fun i' hi' => his i' (List.mem_cons_of_mem _ hi')) _ _ _ ?_
        (hr.mono (fun e he => List.mem_append_left _ he))
      refine ⟨by rw [Array.size_setIfInBounds]; exact h.size, ?_,
        OTree.snoc h.otree ⟨hd1, hd2, hi⟩ hr hnr, ?_⟩
      · intro x h1 h2
        rw [gOf_op, getD_setIfInBounds _ _ _ _ _ hlt]
        by_cases hx : x = ds.dset.opU i d
        · rw [if_pos hx]
          simp only [true_iff]
          exact Or.inr ⟨(d, i), by simp, hx.symm⟩
        · rw [if_neg hx, h.seen x h1 h2]
          constructor
          · exact fun hr' => hr'.mono (fun e he => List.mem_append_left _ he)
          · rintro (h' | ⟨e, he, h'⟩)
            · exact Or.inl h'
            · rcases List.mem_append.1 he with he | he
              · exact Or.inr ⟨e, he, h'⟩
              · simp only [List.mem_singleton] at he
                subst he
                exact absurd h'.symm hx
      · intro x hx
        rcases List.mem_append.1 hx with hx | hx
        · obtain ⟨a, b, c⟩ := h.queue x hx
          exact ⟨a, b, c.mono (fun e he => List.mem_append_left _ he)⟩
        · simp only [List.mem_singleton] at hx
          subst hx
          rw [gOf_op]
          exact ⟨re.1, re.2, Or.inr ⟨(d, i), by simp, rfl⟩⟩

theorem bfsLoop_inv {ds : DSymData} (hv : ValidSet ds.dset) : ∀ (fuel : Nat) (queue : List Nat)
    (seen : Array Bool) (tree : List Edge), BfsInv ds queue seen tree →
    OTree ds 1 (SpecC09.bfsLoop (gOf ds) fuel queue seen tree).2
  | 0, _, _, _, h => by unfold SpecC09.bfsLoop; exact h.otree
  | fuel + 1, [], _, _, h => by unfold SpecC09.bfsLoop; exact h.otree
  | fuel + 1, d :: queue, seen, tree, h => by
    unfold SpecC09.bfsLoop
    simp only
    obtain ⟨d1, d2, dr⟩ := h.queue d List.mem_cons_self
    have h' : BfsInv ds queue seen tree :=
      ⟨h.size, h.seen, h.otree, fun x hx => h.queue x (List.mem_cons_of_mem _ hx)⟩
    have := bfs_inner hv d1 d2 (gOf ds).indices (fun i hi => (mem_gindices ds i).1 hi) seen queue tree h' dr
    exact bfsLoop_inv hv fuel _ _ _ this

/-- the Spec's breadth-first tree is an ordered tree rooted at chamber 1 -/
theorem spanTree_otree {ds : DSymData} (hv : ValidSet ds.dset) (hsize : 1 ≤ ds.size) :
    OTree ds 1 (SpecC09.spanTree (gOf ds)) := by
  unfold SpecC09.spanTree
  apply bfsLoop_inv hv
  have hsz : ((Array.replicate ((gOf ds).size + 1) false).setIfInBounds 1 true).size = ds.size + 1 := by
    rw [Array.size_setIfInBounds, Array.size_replicate, gOf_size]
  refine ⟨hsz, ?_, OTree.nil, ?_⟩
  · intro x h1 h2
    rw [getD_setIfInBounds _ _ _ _ _ (by rw [Array.size_replicate, gOf_size]; omega)]
    by_cases hx : x = 1
    · rw [if_pos hx]; simp only [true_iff]; exact Or.inl hx
    · rw [if_neg hx]
      simp only [Array.getD_eq_getD_getElem?, Array.getElem?_replicate]
      have : x < (gOf ds).size + 1 := by rw [gOf_size]; omega
      simp [this]
      rintro (h | ⟨e, he, _⟩)
      · exact hx h
      · cases he
  · intro x hx
    simp only [List.mem_singleton] at hx
    subst hx
    exact ⟨Nat.le_refl 1, hsize, Or.inl rfl⟩

/-! ### counting: a tree with `size - 1` facets reaches everything -/

def targetsOf (ds : DSymData) (L : List Edge) : List Nat := L.map fun e => ds.dset.opU e.2 e.1

theorem otree_nodup {ds : DSymData} (hv : ValidSet ds.dset) {root : Nat} (hr : 1 ≤ root ∧ root ≤ ds.size)
    {L : List Edge} (h : OTree ds root L) :
    (root :: targetsOf ds L).Nodup ∧ ∀ x ∈ root :: targetsOf ds L, 1 ≤ x ∧ x ≤ ds.size := by
  induction h with
  | nil => exact ⟨by simp [targetsOf], fun x hx => by simp [targetsOf] at hx; rw [hx]; exact hr⟩
  | @snoc L d i _ hf _ hn ih =>
    have ht : targetsOf ds (L ++ [(d, i)]) = targetsOf ds L ++ [ds.dset.opU i d] := by
      unfold targetsOf; simp
    rw [ht]
    have hnot : ds.dset.opU i d ∉ root :: targetsOf ds L := by
      intro hm
      apply hn
      rcases List.mem_cons.1 hm with h | h
      · exact Or.inl h
      · obtain ⟨e, he, h'⟩ := List.mem_map.1 h
        exact Or.inr ⟨e, he, h'⟩
    constructor
    · have : (root :: (targetsOf ds L ++ [ds.dset.opU i d])) = (root :: targetsOf ds L) ++ [ds.dset.opU i d] := rfl
      rw [this, List.nodup_append]
      refine ⟨ih.1, List.nodup_singleton _, ?_⟩
      intro a ha b hb
      simp only [List.mem_singleton] at hb
      subst hb
      exact fun e => hnot (e ▸ ha)
    · intro x hx
      have : x ∈ (root :: targetsOf ds L) ++ [ds.dset.opU i d] := hx
      rcases List.mem_append.1 this with h | h
      · exact ih.2 x h
      · simp only [List.mem_singleton] at h
        rw [h]
        exact hv.range i d hf.2.2 hf.1 hf.2.1

theorem otree_spanning_of_length {ds : DSymData} (hv : ValidSet ds.dset) {root : Nat}
    (hr : 1 ≤ root ∧ root ≤ ds.size) {L : List Edge} (h : OTree ds root L)
    (hlen : L.length + 1 = ds.size) : ∀ x, 1 ≤ x → x ≤ ds.size → Reached ds root L x := by
  obtain ⟨hnd, hrng⟩ := otree_nodup hv hr h
  have hsub : root :: targetsOf ds L ⊆ ds.view.elements := fun x hx =>
    (DS.mem_elements ds.view x).2 (hrng x hx)
  have hsp : (root :: targetsOf ds L).Subperm ds.view.elements := hnd.subperm hsub
  have hle : ds.view.elements.length ≤ (root :: targetsOf ds L).length := by
    unfold View.elements targetsOf
    simp
    show ds.size ≤ L.length + 1
    omega
  have hperm := hsp.perm_of_length_le hle
  intro x h1 h2
  have : x ∈ root :: targetsOf ds L := hperm.symm.subset ((DS.mem_elements ds.view x).2 ⟨h1, h2⟩)
  rcases List.mem_cons.1 this with h' | h'
  · exact Or.inl h'
  · obtain ⟨e, he, h''⟩ := List.mem_map.1 h'
    exact Or.inr ⟨e, he, h''⟩

end DSymVerif.FGP
