/-
Property C05, π1 of a cover, part 5: `phiC` is injective and its range is the stabiliser of a sheet.

With `T g = thetaC(g)⁻¹` (so `T(gh) = T h ∘ T g`):
* `R g`:  `phiC(p⁻¹ · label(T g (k,p))) = A(k) · g · A(ρ(g)⁻¹ k)⁻¹` for every `g` of the textbook
  group of `ds`, where `A(k) = phiC(ℓ_k(b)) · q(k,b)` does not depend on `b` (tree facets of `ds`
  are trivial in `TGroup ds`);
* `T(q x)(k0, 1) = (sheet x, C · ℓ_{sheet x}(π x)⁻¹)` for every chamber `x` of `c` (along the
  spanning tree of `c`, whose facet generators are trivial in `TGroup c`), hence
  `T(phiC y)(k0, p) = (k0, p · C y C⁻¹)` for every `y`: `phiC` is injective and its range fixes `k0`;
* conversely `R` at `(k0,1)` shows that every element fixing `k0` is in the range.
-/
import DSymVerif.Proofs.CoversPi1Theta2

namespace DSymVerif.CoversP
open DSymVerif DSymVerif.DS DSymVerif.FG DSymVerif.FGP

section
variable {ds c : DSymData} {n : Nat} {ρ : TGroup ds →* Equiv.Perm (Fin n)} {σ : Nat → Nat → Nat → Nat}
  (M : MCover ds c n ρ σ) (hconn : ds.view.isConnected = true)
  {q : Nat → TGroup ds}
  (hq : ∀ x i, (x, i, none) ∈ spanningTree c → q (c.dset.opU i x) = q x * px ds x i)
  {ℓ : Fin n → Nat → TGroup c} (hℓ : SheetGauge ds c n ℓ)

/-- `T g = thetaC(g)⁻¹` is twisted over `ρ(g)⁻¹` -/
theorem tinv_twisted (g : TGroup ds) : Twisted (thetaC M ℓ hℓ g)⁻¹ (ρ g)⁻¹ :=
  Twisted.inv (thetaC_twisted M ℓ hℓ g)

/-- `phiC` of the generator over `(b,i)` in sheet `k` -/
theorem phiC_yc {b i : Nat} (h : FacetR ds b i) (k : Fin n) :
    phiC M hq (yc ds c k b i) =
      q (ds.size * k.val + b) * xT ds b i * (q (ds.size * (tau ρ b i k).val + ds.dset.opU i b))⁻¹ := by
  have hd := cmk_range (sz := ds.size) (n := n) k.isLt h.1 h.2.1
  have hfc : FacetR c (ds.size * k.val + b) i :=
    ⟨hd.1, by rw [M.cov.size]; exact hd.2, by rw [M.cov.dim]; exact h.2.2⟩
  unfold yc
  rw [phiC_xT M hq hfc, M.op_mk h.2.2 h.1 h.2.1 k]
  unfold px
  rw [cproj_mk h.1 h.2.1]

/-- `A(k,b) = phiC(ℓ_k(b)) · q(k,b)` -/
noncomputable def aEl (k : Fin n) (b : Nat) : TGroup ds := phiC M hq (ℓ k b) * q (ds.size * k.val + b)

include hℓ in
theorem aEl_tree {d i : Nat} (hmem : (d, i, none) ∈ spanningTree ds) (h : FacetR ds d i) (k : Fin n) :
    aEl M hq (ℓ := ℓ) k (ds.dset.opU i d) = aEl M hq (ℓ := ℓ) k d := by
  unfold aEl
  have ht1 : tau ρ d i = 1 := by unfold tau; rw [xT_tree hmem, map_one, inv_one]
  rw [hℓ k d i hmem, map_mul, phiC_yc M hq h k, xT_tree hmem, ht1]
  simp only [Equiv.Perm.coe_one, id_eq, mul_one]
  group

include hℓ in
theorem aEl_reach (hitems : ∀ it ∈ spanningTree ds, 1 ≤ it.1 ∧ it.1 ≤ ds.size ∧ it.2.1 ≤ ds.dim)
    {root x : Nat} (hr1 : 1 ≤ root) (hr2 : root ≤ ds.size)
    (ht : TreeReach ds (spanningTree ds) root x) (k : Fin n) :
    (1 ≤ x ∧ x ≤ ds.size) ∧ aEl M hq (ℓ := ℓ) k x = aEl M hq (ℓ := ℓ) k root := by
  induction ht with
  | root => exact ⟨⟨hr1, hr2⟩, rfl⟩
  | @step d i _ hmem ih =>
    obtain ⟨hd, he⟩ := ih
    have hit := hitems _ hmem
    have hfac : FacetR ds d i := ⟨hd.1, hd.2, hit.2.2⟩
    exact ⟨M.hs.set.range i d hfac.2.2 hfac.1 hfac.2.1, by rw [aEl_tree M hq hℓ hmem hfac k]; exact he⟩

include hconn hℓ in
/-- `A(k,b)` does not depend on `b` -/
theorem aEl_const : ∃ root, 1 ≤ root ∧ root ≤ ds.size ∧
    ∀ b, 1 ≤ b → b ≤ ds.size → ∀ k : Fin n, aEl M hq (ℓ := ℓ) k b = aEl M hq (ℓ := ℓ) k root := by
  obtain ⟨hitems0, _, root, hr1, hr2, htree⟩ := C09_spanning M.hs.set M.hsz hconn
  have hitems : ∀ it ∈ spanningTree ds, 1 ≤ it.1 ∧ it.1 ≤ ds.size ∧ it.2.1 ≤ ds.dim :=
    fun it hit => (hitems0 it hit).2
  exact ⟨root, hr1, hr2, fun b hb1 hb2 k => (aEl_reach M hq hℓ hitems hr1 hr2 (htree b hb1 hb2) k).2⟩

/-- `phiC` of a label -/
theorem phiC_lam {b i : Nat} (h : FacetR ds b i) (k : Fin n) :
    phiC M hq (lam ρ ℓ k b i) =
      aEl M hq (ℓ := ℓ) k b * xT ds b i * (aEl M hq (ℓ := ℓ) (tau ρ b i k) (ds.dset.opU i b))⁻¹ := by
  unfold lam aEl
  rw [map_mul, map_mul, map_inv, phiC_yc M hq h k, opT_eq h.2.2 h.1 h.2.1]
  group

variable {root : Nat} (hr1 : 1 ≤ root) (hr2 : root ≤ ds.size)
  (hroot : ∀ b, 1 ≤ b → b ≤ ds.size → ∀ k : Fin n, aEl M hq (ℓ := ℓ) k b = aEl M hq (ℓ := ℓ) k root)

/-- the relation between the twisted action and `phiC` -/
def RelR (g : TGroup ds) : Prop :=
  ∀ (k : Fin n) (p : TGroup c),
    phiC M hq (p⁻¹ * ((thetaC M ℓ hℓ g)⁻¹ (k, p)).2) =
      aEl M hq (ℓ := ℓ) k root * g * (aEl M hq (ℓ := ℓ) ((ρ g)⁻¹ k) root)⁻¹

include hroot in
theorem relR_all (g : TGroup ds) : RelR M hq hℓ (root := root) g := by
  let S : Subgroup (TGroup ds) :=
    { carrier := {g | RelR M hq hℓ (root := root) g}
      one_mem' := by
        intro k p
        simp
      mul_mem' := by
        intro a b ha hb k p
        have hΘ : (thetaC M ℓ hℓ (a * b))⁻¹ (k, p) =
            (thetaC M ℓ hℓ b)⁻¹ ((thetaC M ℓ hℓ a)⁻¹ (k, p)) := by
          rw [map_mul, mul_inv_rev, Equiv.Perm.mul_apply]
        have hρ : (ρ (a * b))⁻¹ k = (ρ b)⁻¹ ((ρ a)⁻¹ k) := by
          rw [map_mul, mul_inv_rev, Equiv.Perm.mul_apply]
        rw [hΘ, hρ]
        have hx : (thetaC M ℓ hℓ a)⁻¹ (k, p) =
            (((thetaC M ℓ hℓ a)⁻¹ (k, p)).1, ((thetaC M ℓ hℓ a)⁻¹ (k, p)).2) := rfl
        have h1 := ((tinv_twisted M hℓ a) k p 1).1
        have e1 := ha k p
        have e2 := hb ((thetaC M ℓ hℓ a)⁻¹ (k, p)).1 ((thetaC M ℓ hℓ a)⁻¹ (k, p)).2
        rw [← hx] at e2
        rw [h1] at e2
        have : p⁻¹ * ((thetaC M ℓ hℓ b)⁻¹ ((thetaC M ℓ hℓ a)⁻¹ (k, p))).2 =
            (p⁻¹ * ((thetaC M ℓ hℓ a)⁻¹ (k, p)).2) *
              (((thetaC M ℓ hℓ a)⁻¹ (k, p)).2⁻¹ * ((thetaC M ℓ hℓ b)⁻¹ ((thetaC M ℓ hℓ a)⁻¹ (k, p))).2) := by
          group
        rw [this, map_mul, e1, e2]
        group
      inv_mem' := by
        intro a ha k p
        have hΘ : (thetaC M ℓ hℓ a⁻¹)⁻¹ (k, p) = thetaC M ℓ hℓ a (k, p) := by rw [map_inv, inv_inv]
        have hρ : (ρ a⁻¹)⁻¹ k = ρ a k := by rw [map_inv, inv_inv]
        rw [hΘ, hρ]
        -- (k', p') := thetaC a (k, p), so T a (k', p') = (k, p)
        have hx : thetaC M ℓ hℓ a (k, p) = ((thetaC M ℓ hℓ a (k, p)).1, (thetaC M ℓ hℓ a (k, p)).2) := rfl
        have e := ha (thetaC M ℓ hℓ a (k, p)).1 (thetaC M ℓ hℓ a (k, p)).2
        rw [← hx] at e
        have hback : (thetaC M ℓ hℓ a)⁻¹ (thetaC M ℓ hℓ a (k, p)) = (k, p) := by simp
        rw [hback] at e
        have h1 := ((thetaC_twisted M ℓ hℓ a) k p 1).1
        rw [h1] at e
        have hk : (ρ a)⁻¹ (ρ a k) = k := by simp
        rw [hk] at e
        have e' : phiC M hq ((thetaC M ℓ hℓ a (k, p)).2⁻¹ * p) =
            aEl M hq (ℓ := ℓ) (ρ a k) root * a * (aEl M hq (ℓ := ℓ) k root)⁻¹ := e
        have : p⁻¹ * (thetaC M ℓ hℓ a (k, p)).2 = ((thetaC M ℓ hℓ a (k, p)).2⁻¹ * p)⁻¹ := by group
        rw [this, map_inv, e']
        group }
  have hgen : ∀ j : ℕ, (PresentedGroup.of j : TGroup ds) ∈ S := by
    intro j
    by_cases hj : isCode ds j
    · rw [of_eq_xT hj]
      intro k p
      have hfac := hj.1
      have hb' := M.hs.set.range _ _ hfac.2.2 hfac.1 hfac.2.1
      rw [thetaC_xT M ℓ hℓ hfac, inv_inv, permX_apply M ℓ hfac]
      unfold stepX
      simp only
      have : p⁻¹ * (p * lam ρ ℓ k (decD ds j) (decI ds j)) = lam ρ ℓ k (decD ds j) (decI ds j) := by group
      rw [this, phiC_lam M hq hfac k, hroot _ hfac.1 hfac.2.1 k, hroot _ hb'.1 hb'.2]
      rfl
    · rw [of_not_code hj]; exact S.one_mem
  exact PresentedGroup.generated_by _ S hgen g

end

end DSymVerif.CoversP
