/-
Lemmas for property C07, phase 2, part 7: `is_good` is invariant under the orbit maps (the private
`orbifold_symbol` sorts its cone and corner lists, and `vs ∘ m` contributes the same numbers in a
different order), and the resulting **completeness** statement: the canonical representative of the
class of every vector that meets the generator's conditions is emitted.
-/
import Mathlib.Data.List.Sort
import DSymVerif.Proofs.DSymGenEquiv

set_option linter.unusedSectionVars false

namespace DSymVerif.SymGen
open DSymVerif.DS DSymVerif.Mor

/-! ### `sort(); reverse()` depends on the multiset only -/

theorem insertDesc_eq (x : Nat) (l : List Nat) : insertDesc x l = List.orderedInsert (· ≥ ·) x l := by
  induction l with
  | nil => rfl
  | cons y ys ih =>
    simp only [insertDesc, List.orderedInsert_cons]
    by_cases h : x < y
    · rw [if_pos h, if_neg (by omega), ih]
    · rw [if_neg h, if_pos (by omega)]

theorem sortDesc_eq (l : List Nat) : sortDesc l = List.insertionSort (· ≥ ·) l := by
  unfold sortDesc
  induction l with
  | nil => rfl
  | cons x xs ih => simp only [List.foldr_cons, List.insertionSort_cons, ih, insertDesc_eq]

theorem sortDesc_perm {l l' : List Nat} (h : l.Perm l') : sortDesc l = sortDesc l' := by
  rw [sortDesc_eq, sortDesc_eq]
  have p : (List.insertionSort (· ≥ ·) l).Perm (List.insertionSort (· ≥ ·) l') :=
    (List.perm_insertionSort _ l).trans (h.trans (List.perm_insertionSort _ l').symm)
  exact p.eq_of_pairwise' (List.pairwise_insertionSort _ l) (List.pairwise_insertionSort _ l')

/-! ### the second loop of the private `orbifold_symbol` -/

def coneAt (c : Ctx) (vs : List Nat) (i : Nat) : Option Nat :=
  if vs.getD i 0 > 1 ∧ c.isChain.getD i false = false then some (vs.getD i 0) else none

def cornerAt (c : Ctx) (vs : List Nat) (i : Nat) : Option Nat :=
  if vs.getD i 0 > 1 ∧ c.isChain.getD i false = true then some (vs.getD i 0) else none

theorem pointsVs_eq {c : Ctx} (hw : WF c) {vs : List Nat} (hl : vs.length = c.count) :
    ∀ (L : List Nat), (∀ i, i ∈ L → i < c.count) → ∀ acc : List Nat × List Nat,
      pointsVs c vs L acc =
        .ok (acc.1 ++ L.filterMap (coneAt c vs), acc.2 ++ L.filterMap (cornerAt c vs)) := by
  intro L
  induction L with
  | nil => intro _ acc; simp [pointsVs]
  | cons i is ih =>
    intro hL acc
    have hi : i < c.count := hL i (by simp)
    have ih' := ih (fun j hj => hL j (by simp [hj]))
    have h1 : vs[i]? = some (vs.getD i 0) := getElem?_of_lt vs i 0 (by omega)
    have h3 : c.isChain[i]? = some (c.isChain.getD i false) :=
      getElem?_of_lt c.isChain i false (by rw [hw.chainLen]; exact hi)
    by_cases hgt : vs.getD i 0 > 1
    · cases hb : c.isChain.getD i false
      · have e1 : coneAt c vs i = some (vs.getD i 0) := by unfold coneAt; rw [if_pos ⟨hgt, hb⟩]
        have e2 : cornerAt c vs i = none := by
          unfold cornerAt; rw [if_neg (by rw [hb]; simp)]
        rw [hb] at h3
        rw [List.filterMap_cons_some e1, List.filterMap_cons_none e2]
        simp only [pointsVs, h1, h3, if_pos hgt]
        rw [ih']
        simp only [List.append_assoc, List.singleton_append]
      · have e1 : coneAt c vs i = none := by
          unfold coneAt; rw [if_neg (by rw [hb]; simp)]
        have e2 : cornerAt c vs i = some (vs.getD i 0) := by unfold cornerAt; rw [if_pos ⟨hgt, hb⟩]
        rw [hb] at h3
        rw [List.filterMap_cons_none e1, List.filterMap_cons_some e2]
        simp only [pointsVs, h1, h3, if_pos hgt]
        rw [ih']
        simp only [List.append_assoc, List.singleton_append]
    · have e1 : coneAt c vs i = none := by
        unfold coneAt; rw [if_neg (fun hh => hgt hh.1)]
      have e2 : cornerAt c vs i = none := by
        unfold cornerAt; rw [if_neg (fun hh => hgt hh.1)]
      rw [List.filterMap_cons_none e1, List.filterMap_cons_none e2]
      simp only [pointsVs, h1, if_neg hgt]
      rw [ih']

/-! ### `vs ∘ m` -/

section ctx
variable {ds : DSetData} {g : Geom} {c : Ctx} (h : mkCtx ds g = .ok c) (hds : ValidSet ds)
  {f f' : Nat → Nat} {m m' : List Nat} (mp : MapPair ds c.orbitIndex c.count f f' m m')
  (hinj : ∀ x y, 1 ≤ x → x ≤ ds.size → 1 ≤ y → y ≤ ds.size → f x = f y → x = y)
include h hds mp hinj

theorem range_map_perm : ((List.range c.count).map fun k => m.getD k 0).Perm (List.range c.count) := by
  have ok := ctx_ok h hds
  rw [List.perm_ext_iff_of_nodup]
  · intro a
    simp only [List.mem_map, List.mem_range]
    constructor
    · rintro ⟨k, hk, rfl⟩; exact MapPair.lt ok mp k hk
    · intro ha
      exact ⟨m'.getD a 0, MapPair.lt ok (MapPair.symm mp) a ha, MapPair.right_inv ok mp a ha⟩
  · apply List.Nodup.map_on _ List.nodup_range
    intro x hx y hy e
    exact MapPair.inj ok mp x y (List.mem_range.mp hx) (List.mem_range.mp hy) e
  · exact List.nodup_range

theorem filterMap_act (φ : Ctx → List Nat → Nat → Option Nat) {vs : List Nat}
    (hφ : ∀ k, k < c.count → φ c (act m vs) k = φ c vs (m.getD k 0)) :
    ((List.range c.count).filterMap (φ c (act m vs))).Perm ((List.range c.count).filterMap (φ c vs)) := by
  have e : (List.range c.count).filterMap (φ c (act m vs)) =
      ((List.range c.count).map fun k => m.getD k 0).filterMap (φ c vs) := by
    rw [List.filterMap_map]
    apply List.filterMap_congr
    intro k hk
    exact hφ k (List.mem_range.mp hk)
  rw [e]
  exact (range_map_perm h hds mp hinj).filterMap _

theorem orbifoldSymbol_act (hw : WF c) {vs : List Nat} (hl : vs.length = c.count) :
    orbifoldSymbol c (act m vs) = orbifoldSymbol c vs := by
  have ok := ctx_ok h hds
  unfold orbifoldSymbol
  rw [pointsVs_eq hw (by rw [act_length]; exact hl) _ (fun i hi => List.mem_range.mp hi),
    pointsVs_eq hw hl _ (fun i hi => List.mem_range.mp hi)]
  simp only
  have hc : ((List.range c.count).filterMap (coneAt c (act m vs))).Perm
      ((List.range c.count).filterMap (coneAt c vs)) := by
    apply filterMap_act h hds mp hinj coneAt
    intro k hk
    unfold coneAt
    rw [act_getD _ _ k (by rw [hl]; exact hk), isChain_invariant h hds mp hinj k hk]
  have hk : ((List.range c.count).filterMap (cornerAt c (act m vs))).Perm
      ((List.range c.count).filterMap (cornerAt c vs)) := by
    apply filterMap_act h hds mp hinj cornerAt
    intro k hk
    unfold cornerAt
    rw [act_getD _ _ k (by rw [hl]; exact hk), isChain_invariant h hds mp hinj k hk]
  rw [sortDesc_perm (hc.append_left _), sortDesc_perm (hk.append_left _)]

theorem isGood_act (hw : WF c) {vs : List Nat} (ha : Adm c vs) :
    isGood c (act m vs) (scaled c (act m vs)) = isGood c vs (scaled c vs) := by
  unfold isGood
  rw [scaled_act h hds mp hinj ha.1 (adm_bounds hw ha), orbifoldSymbol_act h hds mp hinj hw ha.1]

end ctx

/-! ### completeness -/

/-- **every class is hit**: if `vs` is admissible, inside the window, non-negatively curved or
    minimally hyperbolic and passes `is_good`, then the canonical vector of its isomorphism class
    is emitted -/
theorem class_emitted {ds : DSetData} {g : Geom} {c : Ctx} (h : mkCtx ds g = .ok c)
    (hds : ValidSet ds) (hc : ds.viewSimple.isConnected = true) (h1 : 1 ≤ ds.size)
    (hnb : ¬ c.baseCurv < 0) (vs : List Nat)
    (ha : Adm c vs) (hmin : c.minCurv ≤ scaled c vs) (hmax : scaled c vs ≤ c.maxCurv)
    (hshape : 0 ≤ scaled c vs ∨ MinHyp c vs) (hgood : isGood c vs (scaled c vs) = .ok true) :
    ∃ ws, Outcome.ok ws ∈ dsyms c ∧ SymIso ds c vs ws := by
  have hw := mkCtx_wf h
  obtain ⟨ms, hms, ok, hA, hB, hg⟩ := mkCtx_maps h hds hc h1 hnb
  obtain ⟨w, ⟨m, hm, hwm⟩, hcan, _⟩ := canonical_one_per_class hg vs ha.1
  obtain ⟨f, f', m', _, mp⟩ := mapPair_of_mem hds hc h1 hA hB hm
  have hinj := (aut_bijective hds hc h1 mp.af).1
  have hb := adm_bounds hw ha
  have hs : scaled c w = scaled c vs := by rw [hwm]; exact scaled_act h hds mp hinj ha.1 hb
  refine ⟨w, ?_, (symIso_iff_act ok hA hB vs w ha.1 (by rw [hwm, act_length, ha.1])).mpr ⟨m, hm, hwm⟩⟩
  rw [dsyms_mem_iff hw hnb]
  refine ⟨by rw [hwm]; exact adm_act h hds mp hinj ha, by rw [hs]; exact hmin, by rw [hs]; exact hmax,
    ?_, ?_, ?_⟩
  · rcases hshape with h0 | hm'
    · left; rw [hs]; exact h0
    · right; rw [hwm]; exact minHyp_act h hds mp hinj hw ha hm'
  · rw [hwm, isGood_act h hds mp hinj hw ha]; exact hgood
  · unfold isCanonical; rw [hms]; exact hcan

/-- vectors in the class of the same vector are in the same class -/
theorem symIso_of_common {ds : DSetData} {c : Ctx} {ms : List (List Nat)}
    (ok : IndexOK ds c.orbitIndex c.count)
    (hA : ∀ m, m ∈ ms → ∃ f, IsAut ds f ∧ Induces ds c.orbitIndex c.count f m)
    (hB : ∀ f, IsAut ds f → ∃ m, m ∈ ms ∧ Induces ds c.orbitIndex c.count f m)
    (hg : GroupMaps c.count ms) {vs ws ws' : List Nat} (hv : vs.length = c.count)
    (hw : ws.length = c.count) (hw' : ws'.length = c.count)
    (h1 : SymIso ds c vs ws) (h2 : SymIso ds c vs ws') : SymIso ds c ws ws' := by
  obtain ⟨m, hm, e⟩ := (symIso_iff_act ok hA hB vs ws hv hw).mp h1
  obtain ⟨m', hm', e'⟩ := (symIso_iff_act ok hA hB vs ws' hv hw').mp h2
  obtain ⟨mi, hmi, hinv⟩ := hg.inv m hm
  obtain ⟨m3, hm3, hmul⟩ := hg.mul mi hmi m' hm'
  rw [symIso_iff_act ok hA hB ws ws' hw hw']
  refine ⟨m3, hm3, ?_⟩
  rw [← hmul ws hw, e, hinv vs hv, e']

/-- **the emitted vectors are a transversal** of the isomorphism classes of the vectors that meet
    the generator's conditions -/
theorem emitted_transversal {ds : DSetData} {g : Geom} {c : Ctx} (h : mkCtx ds g = .ok c)
    (hds : ValidSet ds) (hc : ds.viewSimple.isConnected = true) (h1 : 1 ≤ ds.size)
    (hnb : ¬ c.baseCurv < 0) (vs : List Nat) (ha : Adm c vs) (hgeo : GeomCond g c vs)
    (hgood : isGood c vs (scaled c vs) = .ok true) :
    ∃ ws, (Outcome.ok ws ∈ dsyms c ∧ SymIso ds c vs ws) ∧
      ∀ ws', Outcome.ok ws' ∈ dsyms c → SymIso ds c vs ws' → ws' = ws := by
  have hw := mkCtx_wf h
  obtain ⟨_, _, _, _, _, _, hmin, hmax, _, _⟩ := mkCtx_fields h
  rw [if_neg hnb] at hmin
  obtain ⟨w1, w2, w3⟩ := (window_iff hw hnb g hmin hmax ha).mpr hgeo
  obtain ⟨ws, hws, hiso⟩ := class_emitted h hds hc h1 hnb vs ha w1 w2 w3 hgood
  obtain ⟨ms, _, ok, hA, hB, hg⟩ := mkCtx_maps h hds hc h1 hnb
  refine ⟨ws, ⟨hws, hiso⟩, fun ws' hws' hiso' => ?_⟩
  have l1 := ((dsyms_mem_iff hw hnb ws).mp hws).1.1
  have l2 := ((dsyms_mem_iff hw hnb ws').mp hws').1.1
  exact (emitted_not_isomorphic h hds hc h1 hnb ws ws' hws hws'
    (symIso_of_common ok hA hB hg ha.1 l1 l2 hiso hiso')).symm

end DSymVerif.SymGen
