/-
`echelon_invariant`, generically: for a back-end whose scalar operations, `pivot_row` and
`clear_col` mean what they should under a value map `val : α → R` into a field (`Sem`),
`RowEchelonVecMatrix::new` returns `multiplier`, `result`, `columns`, `rank`, `nr_swaps` with
`multiplier · input = result`, `det multiplier = (-1)^nr_swaps`, and `result` in row-echelon
form with pivot columns `columns[0..rank)`.
-/
import DSymVerif.Proofs.MatOpsSem

namespace DSymVerif.LA

open DSymVerif Matrix

/-- what the elimination needs to know about the meaning of a back-end -/
structure Sem {α : Type} (B : Backend α) (E : α → Prop) {R : Type} [Field R] (val : α → R) :
    Prop where
  safe : Safe B E (fun v => val v ≠ 0)
  scalar : ScalarSem B E val
  /-- `pivot_row = None` : the column is zero from `row0` down -/
  pivot_none : ∀ {nr nc : Nat} (col row0 : Nat) (a : Mat α nr nc), AllE E a → (hc : col < nc) →
    row0 < nr → B.pivotRow col row0 a = .ok none →
    ∀ (i : Nat) (hi : i < nr), row0 ≤ i → val ((a[i])[col]) = 0
  /-- `clear_col(col, row1, row2)` is a determinant-1 operation on the rows `row1`, `row2`
      (of both matrices) that makes the entry `(row1, col)` zero — provided both rows are zero
      to the left of `col` -/
  clear : ∀ {nr nc nx : Nat} (col row1 row2 : Nat) (a : Mat α nr nc) (x : Mat α nr nx),
    AllE E a → AllE E x → (hc : col < nc) → (h1 : row1 < nr) → (h2 : row2 < nr) → row1 ≠ row2 →
    val ((a[row2])[col]) ≠ 0 →
    (∀ (k : Nat) (hk : k < nc), k < col → val ((a[row1])[k]) = 0 ∧ val ((a[row2])[k]) = 0) →
    ∀ a' x', B.clearCol col row1 row2 a x = .ok (a', x') →
    ∃ c11 c12 c21 c22 : R, c11 * c22 - c12 * c21 = 1 ∧
      toMatrix val a' = rowOp2 ⟨row1, h1⟩ ⟨row2, h2⟩ c11 c12 c21 c22 * toMatrix val a ∧
      toMatrix val x' = rowOp2 ⟨row1, h1⟩ ⟨row2, h2⟩ c11 c12 c21 c22 * toMatrix val x ∧
      c11 * val ((a[row1])[col]) + c12 * val ((a[row2])[col]) = 0

section generic
variable {α : Type} {B : Backend α} {E : α → Prop} {R : Type} [Field R] {val : α → R}

theorem rowOp2_entries {nr nc : Nat} (a a' : Mat α nr nc) {r1 r2 : Nat} (h1 : r1 < nr)
    (h2 : r2 < nr) (hne : r1 ≠ r2) (c11 c12 c21 c22 : R)
    (hEq : toMatrix val a' = rowOp2 ⟨r1, h1⟩ ⟨r2, h2⟩ c11 c12 c21 c22 * toMatrix val a)
    (i j : Nat) (hi : i < nr) (hj : j < nc) :
    val ((a'[i])[j]) =
      if i = r1 then c11 * val ((a[r1])[j]) + c12 * val ((a[r2])[j])
      else if i = r2 then c21 * val ((a[r1])[j]) + c22 * val ((a[r2])[j])
      else val ((a[i])[j]) := by
  have h := congrFun (congrFun hEq ⟨i, hi⟩) ⟨j, hj⟩
  rw [rowOp2_mul_apply _ _ (by simpa [Fin.ext_iff] using hne)] at h
  simpa [Fin.ext_iff] using h

theorem toMatrix_swap {nr nc : Nat} (m : Mat α nr nc) {i j : Nat} (hi : i < nr) (hj : j < nr)
    (hne : i ≠ j) :
    toMatrix val (Vector.swap m i j hi hj) = rowOp2 ⟨i, hi⟩ ⟨j, hj⟩ (0 : R) 1 1 0 * toMatrix val m := by
  ext a b
  rw [rowOp2_mul_apply _ _ (by simpa [Fin.ext_iff] using hne)]
  simp only [toMatrix_apply, Fin.ext_iff]
  rw [entry_swap m hi hj a.2 b.2]
  by_cases h1 : a.1 = i
  · simp [h1]
  · by_cases h2 : a.1 = j
    · simp [h2, Ne.symm hne]
    · simp [h1, h2]

/-- invariant of the column loop after `c` columns -/
structure ColInv (val : α → R) (E : α → Prop) {nr nc : Nat} (M : Matrix (Fin nr) (Fin nc) R)
    (c : Nat) (st : EchState α nr nc) : Prop where
  row_le : st.row ≤ nr
  eu : AllE E st.u
  es : AllE E st.s
  prod : toMatrix val st.s * M = toMatrix val st.u
  det : (toMatrix val st.s).det = (-1) ^ st.nrSwaps
  cols_lt : ∀ (i : Nat) (h : i < nr), i < st.row → st.cols[i] < c
  mono : ∀ (i j : Nat) (hi : i < nr) (hj : j < nr), i < j → j < st.row → st.cols[i] < st.cols[j]
  pivot : ∀ (i j : Nat) (hi : i < nr) (hj : j < nc), i < st.row → j = st.cols[i] →
    val ((st.u[i])[j]) ≠ 0
  lead : ∀ (i j : Nat) (hi : i < nr) (hj : j < nc), i < st.row → j < st.cols[i] →
    val ((st.u[i])[j]) = 0
  below : ∀ (i j : Nat) (hi : i < nr) (hj : j < nc), st.row ≤ i → j < c → val ((st.u[i])[j]) = 0

theorem colStep_sem (hs : Sem B E val) {nr nc : Nat} (M : Matrix (Fin nr) (Fin nc) R) (col : Nat)
    (hc : col < nc) (st : EchState α nr nc) (hst : ColInv val E M col st) :
    ∃ st', colStep B true col st = .ok st' ∧ ColInv val E M (col + 1) st' := by
  unfold colStep
  by_cases hfull : st.row = nr
  · simp only [hfull, Bool.true_and, beq_self_eq_true, if_true]
    refine ⟨st, rfl, hst.row_le, hst.eu, hst.es, hst.prod, hst.det, ?_, hst.mono, hst.pivot,
      hst.lead, ?_⟩
    · intro i h hi; have := hst.cols_lt i h hi; omega
    · intro i j hi hj hrow _; omega
  · have hrow := hst.row_le
    have hlt : st.row < nr := by omega
    simp only [Bool.true_and, beq_iff_eq, hfull, if_false]
    obtain ⟨r, hr, hpr⟩ := hs.safe.pivot col st.row st.u hst.eu hc hlt
    rw [hr]
    simp only [bind_ok]
    cases r with
    | none =>
      refine ⟨st, rfl, hst.row_le, hst.eu, hst.es, hst.prod, hst.det, ?_, hst.mono, hst.pivot,
        hst.lead, ?_⟩
      · intro i h hi; have := hst.cols_lt i h hi; omega
      · intro i j hi hj hrow' hj'
        by_cases hjc : j = col
        · subst hjc
          exact hs.pivot_none j st.row st.u hst.eu hj hlt hr i hi hrow'
        · exact hst.below i j hi hj hrow' (by omega)
    | some pr =>
      obtain ⟨hle, hprlt, hq⟩ := hpr pr rfl
      simp only
      -- the optional swap
      have hswap : ∃ u1 s1 sw,
          (if pr ≠ st.row then
            (st.u.swapRows pr st.row).bind fun u => (st.s.swapRows pr st.row).bind fun s =>
              Outcome.ok (u, s, st.nrSwaps + 1)
           else Outcome.ok (st.u, st.s, st.nrSwaps)) = .ok (u1, s1, sw) ∧
            AllE E u1 ∧ AllE E s1 ∧ toMatrix val s1 * M = toMatrix val u1 ∧
            (toMatrix val s1).det = (-1) ^ sw ∧
            (∀ (i j : Nat) (hi : i < nr) (hj : j < nc), i < st.row → (u1[i])[j] = (st.u[i])[j]) ∧
            (∀ (i j : Nat) (hi : i < nr) (hj : j < nc), st.row ≤ i → j < col →
              val ((u1[i])[j]) = 0) ∧
            val ((u1[st.row])[col]) ≠ 0 := by
        by_cases hne : pr = st.row
        · subst hne
          exact ⟨st.u, st.s, st.nrSwaps, by simp, hst.eu, hst.es, hst.prod, hst.det,
            fun _ _ _ _ _ => rfl, hst.below, hq⟩
        · have hne' : (⟨pr, hprlt⟩ : Fin nr) ≠ ⟨st.row, hlt⟩ := by simpa [Fin.ext_iff] using hne
          refine ⟨Vector.swap st.u pr st.row hprlt hlt, Vector.swap st.s pr st.row hprlt hlt,
            st.nrSwaps + 1, ?_, hst.eu.swap _ _, hst.es.swap _ _, ?_, ?_, ?_, ?_, ?_⟩
          · simp [hne, Mat.swapRows_ok _ hprlt hlt hne]
          · rw [toMatrix_swap _ hprlt hlt hne, toMatrix_swap _ hprlt hlt hne, Matrix.mul_assoc,
              hst.prod]
          · rw [toMatrix_swap _ hprlt hlt hne, Matrix.det_mul, det_rowOp2 _ _ hne', hst.det]
            ring
          · intro i j hi hj hirow
            rw [entry_swap _ hprlt hlt hi hj, if_neg (by omega), if_neg (by omega)]
          · intro i j hi hj hirow hjc
            rw [entry_swap _ hprlt hlt hi hj]
            split
            · exact hst.below st.row j hlt hj (Nat.le_refl _) hjc
            · split
              · exact hst.below pr j hprlt hj hle hjc
              · exact hst.below i j hi hj hirow hjc
          · rw [entry_swap _ hprlt hlt hlt hc, if_neg (Ne.symm hne), if_pos rfl]
            exact hq
      obtain ⟨u1, s1, sw, h1, hu1, hs1, hprod1, hdet1, hrows1, hbelow1, hq1⟩ := hswap
      rw [h1]
      simp only [bind_ok]
      -- the clearing loop
      obtain ⟨us, hus, hI⟩ := forRange_idx (st.row + 1) nr (by omega) (u1, s1)
        (fun r us => B.clearCol col r st.row us.1 us.2)
        (fun r us => AllE E us.1 ∧ AllE E us.2 ∧ toMatrix val us.2 * M = toMatrix val us.1 ∧
          (toMatrix val us.2).det = (-1) ^ sw ∧
          (∀ (i j : Nat) (hi : i < nr) (hj : j < nc), i < st.row →
            val ((us.1[i])[j]) = val ((u1[i])[j])) ∧
          (∀ (i j : Nat) (hi : i < nr) (hj : j < nc), st.row ≤ i → j < col →
            val ((us.1[i])[j]) = 0) ∧
          val ((us.1[st.row])[col]) ≠ 0 ∧
          (∀ (i : Nat) (hi : i < nr), st.row < i → i < r → val ((us.1[i])[col]) = 0))
        ⟨hu1, hs1, hprod1, hdet1, fun _ _ _ _ _ => rfl, hbelow1, hq1,
          fun i _ h1 h2 => by omega⟩
        (by
          intro r us hr1 hr2 ⟨ha, hx, hprod, hdet, hrows, hbelow, hqq, hcl⟩
          have hrne : r ≠ st.row := by omega
          obtain ⟨a', x', hcl', ha', hx', hq'⟩ :=
            hs.safe.clear col r st.row us.1 us.2 ha hx hc hr2 hlt hrne hqq
          obtain ⟨c11, c12, c21, c22, hdetc, hEa, hEx, hzero⟩ :=
            hs.clear col r st.row us.1 us.2 ha hx hc hr2 hlt hrne hqq
              (fun k hk hkc => ⟨hbelow r k hr2 hk (by omega) hkc,
                hbelow st.row k hlt hk (Nat.le_refl _) hkc⟩) a' x' hcl'
          have hrne' : (⟨r, hr2⟩ : Fin nr) ≠ ⟨st.row, hlt⟩ := by simpa [Fin.ext_iff] using hrne
          have hent := rowOp2_entries (val := val) us.1 a' hr2 hlt hrne c11 c12 c21 c22 hEa
          refine ⟨(a', x'), hcl', ha', hx', ?_, ?_, ?_, ?_, hq', ?_⟩
          · show toMatrix val x' * M = toMatrix val a'
            rw [hEx, hEa, Matrix.mul_assoc, hprod]
          · show (toMatrix val x').det = _
            rw [hEx, Matrix.det_mul, det_rowOp2 _ _ hrne', hdetc, hdet, one_mul]
          · intro i j hi hj hirow
            show val ((a'[i])[j]) = _
            rw [hent i j hi hj, if_neg (by omega), if_neg (by omega)]
            exact hrows i j hi hj hirow
          · intro i j hi hj hirow hjc
            show val ((a'[i])[j]) = 0
            rw [hent i j hi hj]
            have z1 := hbelow r j hr2 hj (by omega) hjc
            have z2 := hbelow st.row j hlt hj (Nat.le_refl _) hjc
            split
            · rw [z1, z2]; ring
            · split
              · rw [z1, z2]; ring
              · exact hbelow i j hi hj hirow hjc
          · intro i hi hi1 hi2
            show val ((a'[i])[col]) = 0
            rw [hent i col hi hc]
            by_cases hir : i = r
            · subst hir; rw [if_pos rfl]; exact hzero
            · rw [if_neg hir, if_neg (by omega)]
              exact hcl i hi hi1 (by omega))
      rw [hus]
      simp only [bind_ok, hlt, dite_true]
      obtain ⟨hEu, hEs, hprod, hdet, hrows, hbelow, hqq, hcl⟩ := hI
      refine ⟨_, rfl, ⟨by simp only; omega, hEu, hEs, hprod, hdet, ?_, ?_, ?_, ?_, ?_⟩⟩
      · -- cols_lt
        intro i hi hi'
        simp only at hi' ⊢
        by_cases hir : st.row = i
        · subst hir; rw [Vector.getElem_set_self]; omega
        · rw [Vector.getElem_set_ne _ _ hir]
          have := hst.cols_lt i hi (by omega); omega
      · -- mono
        intro i j hi hj hij hj'
        simp only at hj' ⊢
        have hir : st.row ≠ i := by omega
        rw [Vector.getElem_set_ne _ _ hir]
        by_cases hjr : st.row = j
        · subst hjr; rw [Vector.getElem_set_self]; exact hst.cols_lt i hi (by omega)
        · rw [Vector.getElem_set_ne _ _ hjr]
          exact hst.mono i j hi hj hij (by omega)
      · -- pivot
        intro i j hi hj hi' hjc
        simp only at hi' hjc ⊢
        by_cases hir : st.row = i
        · subst hir
          rw [Vector.getElem_set_self] at hjc
          subst hjc
          exact hqq
        · rw [Vector.getElem_set_ne _ _ hir] at hjc
          have hi'' : i < st.row := by omega
          rw [hrows i j hi hj hi'', hrows1 i j hi hj hi'']
          exact hst.pivot i j hi hj hi'' hjc
      · -- lead
        intro i j hi hj hi' hjc
        simp only at hi' hjc ⊢
        by_cases hir : st.row = i
        · subst hir
          rw [Vector.getElem_set_self] at hjc
          exact hbelow st.row j hi hj (Nat.le_refl _) hjc
        · rw [Vector.getElem_set_ne _ _ hir] at hjc
          have hi'' : i < st.row := by omega
          rw [hrows i j hi hj hi'', hrows1 i j hi hj hi'']
          exact hst.lead i j hi hj hi'' hjc
      · -- below
        intro i j hi hj hi' hjc
        simp only at hi' ⊢
        by_cases hjcol : j = col
        · subst hjcol
          exact hcl i hi (by omega) hi
        · exact hbelow i j hi hj (by omega) (by omega)

/-- row-echelon form with pivot columns `cols[0..rank)` -/
structure IsEchelon (val : α → R) {nr nc : Nat} (u : Mat α nr nc) (rank : Nat)
    (cols : Vector Nat nr) : Prop where
  rank_le : rank ≤ nr
  cols_lt : ∀ (i : Nat) (h : i < nr), i < rank → cols[i] < nc
  mono : ∀ (i j : Nat) (hi : i < nr) (hj : j < nr), i < j → j < rank → cols[i] < cols[j]
  pivot : ∀ (i j : Nat) (hi : i < nr) (hj : j < nc), i < rank → j = cols[i] → val ((u[i])[j]) ≠ 0
  lead : ∀ (i j : Nat) (hi : i < nr) (hj : j < nc), i < rank → j < cols[i] → val ((u[i])[j]) = 0
  zero : ∀ (i j : Nat) (hi : i < nr) (hj : j < nc), rank ≤ i → val ((u[i])[j]) = 0

/-- `echelon_invariant` (generic) -/
theorem echelon_sem (hs : Sem B E val) {nr nc : Nat} (m : Mat α nr nc) (hm : AllE E m) :
    ∃ re, echelon B true m = .ok re ∧ AllE E re.multiplier ∧ AllE E re.result ∧
      toMatrix val re.multiplier * toMatrix val m = toMatrix val re.result ∧
      (toMatrix val re.multiplier).det = (-1) ^ re.nrSwaps ∧
      IsEchelon val re.result re.rank re.columns := by
  unfold echelon
  obtain ⟨s0, h0, hs0, hs0v⟩ := identity_sem hs.safe hs.scalar nr
  rw [h0]
  simp only [bind_ok]
  obtain ⟨st, hst, hI⟩ := forRange_idx 0 nc (Nat.zero_le _)
    ({ u := m, s := s0, row := 0, nrSwaps := 0, cols := Vector.replicate nr nr } : EchState α nr nc)
    (colStep B true) (ColInv val E (toMatrix val m))
    { row_le := Nat.zero_le _, eu := hm, es := hs0,
      prod := by simp only [hs0v, Matrix.one_mul],
      det := by simp only [hs0v, Matrix.det_one, pow_zero],
      cols_lt := fun i _ hi => by simp at hi,
      mono := fun i j _ _ _ hj => by simp at hj,
      pivot := fun i j _ _ hi _ => by simp at hi,
      lead := fun i j _ _ hi _ => by simp at hi,
      below := fun i j _ _ _ hj => by simp at hj }
    (fun col st _ hc hst => colStep_sem hs _ col hc st hst)
  rw [hst]
  refine ⟨_, rfl, hI.es, hI.eu, hI.prod, hI.det, hI.row_le, ?_, hI.mono, hI.pivot, hI.lead, ?_⟩
  · intro i h hi; exact hI.cols_lt i h hi
  · intro i j hi hj hrow; exact hI.below i j hi hj hrow hj

end generic

end DSymVerif.LA
