/-
Property C05, π1 of a cover, part 9: the component-wise correspondence for table covers and the
finite universal cover of a base symbol that need not be connected.

* `comp_group_embeds_table`: for every valid symbol `ds` (connected or not), every valid coset
  table of the presentation `fundamental_group(ds)` returns and the covering `c` with the operations
  of the table: the group of every component of `c` (`compGroup`) is mapped injectively, by the
  homomorphism induced by the projection, into the stabiliser of a sheet of that component under
  the monodromy representation `rhoT`;
* `finiteUniversalCover_simply_connected_all`: the textbook group of `finite_universal_cover(ds)`
  is trivial — every sheet stabiliser of the regular representation is trivial, so the group of
  every component of the cover is trivial, and these groups generate.
-/
import DSymVerif.Proofs.CoversPi1CompIso
import DSymVerif.Proofs.CoversPi1Table
import DSymVerif.Proofs.CoversNoFuel

namespace DSymVerif.CoversP
open DSymVerif DSymVerif.DS DSymVerif.FG DSymVerif.FGP DSymVerif.Cosets DSymVerif.SpecC11
open DSymVerif.CosetP DSymVerif.Covers DSymVerif.LowIndexP

/-- **the covering-space correspondence, component by component** (no connectedness hypothesis):
    for every chamber `x0` of the cover `c` of a valid coset table there are the homomorphism `φ`
    induced by the projection (in a gauge `q`), a chamber `r0` in the component of `x0` with
    `q r0 = 1` and the sheet `k0` of `r0`, such that `φ` restricted to the group of the component
    of `x0` is injective and its image fixes `k0` under the monodromy representation -/
theorem comp_group_embeds_table {ds c : DSymData} (hs : ValidSym ds) (hsz : 1 ≤ ds.size)
    (hdim : 1 ≤ ds.dim) {f : FundGroup} (hf : fundamentalGroup ds = .ok f) {tab : Tab}
    {subs : List (List Int)} (hv : Valid tab f.nrGenerators f.relators subs)
    (cov : IsCoverOf ds c tab.size) (hops : TableOps ds c f.edgeToWord tab f.nrGenerators)
    {x0 : Nat} (hx1 : 1 ≤ x0) (hx2 : x0 ≤ c.size) :
    ∃ (φ : TGroup c →* TGroup ds) (q : Nat → TGroup ds) (r0 : Nat) (k0 : Fin tab.size),
      (∀ x i, FacetR c x i → φ (xT c x i) = q x * xT ds (cproj ds.size x) i * (q (c.dset.opU i x))⁻¹) ∧
      (1 ≤ r0 ∧ r0 ≤ c.size) ∧ c.view.Reach c.view.indices x0 r0 ∧ q r0 = 1 ∧
      k0.val = csheet ds.size r0 ∧
      Set.InjOn φ (compGroup c x0 : Set (TGroup c)) ∧
      ∀ y ∈ compGroup c x0, rhoT hs hdim hf hv (φ y) k0 = k0 := by
  have M : MCover ds c tab.size (rhoT hs hdim hf hv) (sigOf (rhoT hs hdim hf hv)) := by
    apply MCover.of_ops hs hsz hdim cov
    intro i b k hi h1 h2
    obtain ⟨r, htr, hop⟩ := hops i b k.val hi h1 h2 k.isLt
    rw [hop, tau_rhoT hs hdim hf hv hi h1 h2 k htr]
  obtain ⟨φ, q, r0, k0, hgen, hr0, hreach, hq1, hk0, hker, hfix⟩ := comp_group_embeds M hx1 hx2
  refine ⟨φ, q, r0, k0, hgen, hr0, hreach, hq1, hk0, ?_, hfix⟩
  intro a ha b hb hab
  have hmem : a⁻¹ * b ∈ compGroup c x0 := (compGroup c x0).mul_mem ((compGroup c x0).inv_mem ha) hb
  have h1 : φ (a⁻¹ * b) = 1 := by rw [map_mul, map_inv, hab]; group
  have := hker _ hmem h1
  calc a = a * (a⁻¹ * b) := by rw [this, mul_one]
    _ = b := by group

/-- **the covering-space correspondence for table covers, component by component, with the exact
    range** (no connectedness hypothesis): for every valid symbol `ds`, every valid coset table of
    the presentation `fundamental_group(ds)` returns, the covering `c` with the operations of the
    table and every chamber `x0` of `c`: the homomorphism `φ` induced by the projection maps the
    group of the component of `x0` in `c` injectively onto the stabiliser of the sheet `k0` of a
    chamber `r0` of that component inside the group of the component of `π x0` in `ds`. -/
theorem comp_group_iso_table {ds c : DSymData} (hs : ValidSym ds) (hsz : 1 ≤ ds.size)
    (hdim : 1 ≤ ds.dim) {f : FundGroup} (hf : fundamentalGroup ds = .ok f) {tab : Tab}
    {subs : List (List Int)} (hv : Valid tab f.nrGenerators f.relators subs)
    (cov : IsCoverOf ds c tab.size) (hops : TableOps ds c f.edgeToWord tab f.nrGenerators)
    {x0 : Nat} (hx1 : 1 ≤ x0) (hx2 : x0 ≤ c.size) :
    ∃ (φ : TGroup c →* TGroup ds) (q : Nat → TGroup ds) (r0 : Nat) (k0 : Fin tab.size),
      (∀ x i, FacetR c x i → φ (xT c x i) = q x * xT ds (cproj ds.size x) i * (q (c.dset.opU i x))⁻¹) ∧
      (1 ≤ r0 ∧ r0 ≤ c.size) ∧ c.view.Reach c.view.indices x0 r0 ∧ q r0 = 1 ∧
      k0.val = csheet ds.size r0 ∧
      Set.InjOn φ (compGroup c x0 : Set (TGroup c)) ∧
      (compGroup c x0).map φ = compGroup ds (cproj ds.size x0) ⊓
        (MulAction.stabilizer (Equiv.Perm (Fin tab.size)) k0).comap (rhoT hs hdim hf hv) := by
  have M : MCover ds c tab.size (rhoT hs hdim hf hv) (sigOf (rhoT hs hdim hf hv)) := by
    apply MCover.of_ops hs hsz hdim cov
    intro i b k hi h1 h2
    obtain ⟨r, htr, hop⟩ := hops i b k.val hi h1 h2 k.isLt
    rw [hop, tau_rhoT hs hdim hf hv hi h1 h2 k htr]
  obtain ⟨φ, q, r0, k0, hgen, hr0, hreach, hq1, hk0, hker, hrange⟩ := comp_group_iso M hx1 hx2
  refine ⟨φ, q, r0, k0, hgen, hr0, hreach, hq1, hk0, ?_, ?_⟩
  · intro a ha b hb hab
    have hmem : a⁻¹ * b ∈ compGroup c x0 := (compGroup c x0).mul_mem ((compGroup c x0).inv_mem ha) hb
    have h1 : φ (a⁻¹ * b) = 1 := by rw [map_mul, map_inv, hab]; group
    have := hker _ hmem h1
    calc a = a * (a⁻¹ * b) := by rw [this, mul_one]
      _ = b := by group
  · ext g
    rw [Subgroup.mem_map, Subgroup.mem_inf, Subgroup.mem_comap, MulAction.mem_stabilizer_iff,
      Equiv.Perm.smul_def]
    exact hrange g

/-- the correspondence as an isomorphism of groups -/
theorem comp_group_mulEquiv_table {ds c : DSymData} (hs : ValidSym ds) (hsz : 1 ≤ ds.size)
    (hdim : 1 ≤ ds.dim) {f : FundGroup} (hf : fundamentalGroup ds = .ok f) {tab : Tab}
    {subs : List (List Int)} (hv : Valid tab f.nrGenerators f.relators subs)
    (cov : IsCoverOf ds c tab.size) (hops : TableOps ds c f.edgeToWord tab f.nrGenerators)
    {x0 : Nat} (hx1 : 1 ≤ x0) (hx2 : x0 ≤ c.size) :
    ∃ k0 : Fin tab.size, (∃ r0, c.view.Reach c.view.indices x0 r0 ∧ k0.val = csheet ds.size r0) ∧
      Nonempty (compGroup c x0 ≃* ↥(compGroup ds (cproj ds.size x0) ⊓
        (MulAction.stabilizer (Equiv.Perm (Fin tab.size)) k0).comap (rhoT hs hdim hf hv))) := by
  obtain ⟨φ, _, r0, k0, _, _, hreach, _, hk0, hinj, hmap⟩ :=
    comp_group_iso_table hs hsz hdim hf hv cov hops hx1 hx2
  refine ⟨k0, ⟨r0, hreach, hk0⟩, ?_⟩
  have hinj' : Function.Injective (φ.comp (compGroup c x0).subtype) := by
    intro a b hab
    exact Subtype.ext (hinj a.2 b.2 hab)
  have hrange : (φ.comp (compGroup c x0).subtype).range = (compGroup c x0).map φ := by
    rw [MonoidHom.range_comp, Subgroup.range_subtype]
  exact ⟨(MonoidHom.ofInjective hinj').trans (MulEquiv.subgroupCongr (hrange.trans hmap))⟩

/-- `covers(ds,k)` for a base that need not be connected — no fuel: one entry per conjugacy class
    of subgroups of index `≤ k` of the returned presentation (for a base with several components: of
    the free product of the groups of the components), every entry the covering of its table, and
    for every entry the groups of its components are the sheet stabilisers in the groups of the
    components of `ds` below them -/
theorem coversAll_classes_comp_groups {ds : DSymData} (hs : ValidSym ds) (hsz : 1 ≤ ds.size)
    (hdim : 1 ≤ ds.dim) (k : Nat) :
    ∃ (f : FundGroup) (hf : fundamentalGroup ds = .ok f) (cs : List DSymData)
      (vs : List (List (List Int))),
      coversAll ds k = .ok cs ∧
      List.Forall₂ (fun v c => ∃ (hv : Valid (CosetInvP.viewTab v) f.nrGenerators f.relators []),
          IsCoverOf ds c (CosetInvP.viewTab v).size ∧
          TableOps ds c f.edgeToWord (CosetInvP.viewTab v) f.nrGenerators ∧
          (stab0 hv).index = (CosetInvP.viewTab v).size ∧ (CosetInvP.viewTab v).size ≤ max k 1 ∧
          ∀ x0, 1 ≤ x0 → x0 ≤ c.size →
            ∃ (φ : TGroup c →* TGroup ds) (k0 : Fin (CosetInvP.viewTab v).size),
              (∃ r0, c.view.Reach c.view.indices x0 r0 ∧ k0.val = csheet ds.size r0) ∧
              Set.InjOn φ (compGroup c x0 : Set (TGroup c)) ∧
              (compGroup c x0).map φ = compGroup ds (cproj ds.size x0) ⊓
                (MulAction.stabilizer (Equiv.Perm (Fin (CosetInvP.viewTab v).size)) k0).comap
                  (rhoT hs hdim hf hv)) vs cs ∧
      vs.Pairwise (fun v1 v2 =>
        ∀ (hv1 : Valid (CosetInvP.viewTab v1) f.nrGenerators f.relators [])
          (hv2 : Valid (CosetInvP.viewTab v2) f.nrGenerators f.relators []),
          ¬ CanonP.SubConj (stab0 hv1) (stab0 hv2)) ∧
      (∀ H : Subgroup (PresentedGroup (relSet f.nrGenerators f.relators)), H.index ≠ 0 → H.index ≤ k →
        ∃ v ∈ vs, ∃ (hv : Valid (CosetInvP.viewTab v) f.nrGenerators f.relators []),
          CanonP.SubConj H (stab0 hv)) := by
  obtain ⟨f0, hf0⟩ := fundamentalGroup_ok hs
  obtain ⟨f, hf, h⟩ := covers_classes hs hsz hdim k (searchFuel f0.nrGenerators k)
  rw [hf0] at hf
  cases hf
  obtain ⟨cs, hcs, hall, hpw, hcomp⟩ := h (CanonP.fuelOK_of_ge_searchFuel _ _ k _ (Nat.le_refl _))
  refine ⟨f0, hf0, cs,
    (cosetTables f0.nrGenerators f0.relators k (searchFuel f0.nrGenerators k)).map viewOf,
    by rw [coversAll_eq hf0]; exact hcs, ?_, ?_, ?_⟩
  · rw [List.forall₂_map_left_iff]
    refine hall.imp ?_
    rintro x c ⟨t, v, hv, hx, hview, _, hcov, hops, hidx, hle⟩
    have hvo : viewOf x = v := by rw [hx]; unfold viewOf; simp only [hview]
    rw [hvo]
    refine ⟨hv, hcov, hops, hidx, hle, ?_⟩
    intro x0 hx1 hx2
    obtain ⟨φ, _, r0, k0, _, _, hreach, _, hk0, hinj, hmap⟩ :=
      comp_group_iso_table hs hsz hdim hf0 hv hcov hops hx1 hx2
    exact ⟨φ, k0, ⟨r0, hreach, hk0⟩, hinj, hmap⟩
  · rw [List.pairwise_map]
    refine List.Pairwise.imp_of_mem ?_ hpw
    intro x y hx hy hxy hv1 hv2
    obtain ⟨_, _, t1, v1, _, hx1, hview1, _⟩ := forall₂_mem_left hall x hx
    obtain ⟨_, _, t2, v2, _, hx2, hview2, _⟩ := forall₂_mem_left hall y hy
    have e1 : viewOf x = v1 := by rw [hx1]; unfold viewOf; simp only [hview1]
    have e2 : viewOf y = v2 := by rw [hx2]; unfold viewOf; simp only [hview2]
    revert hv1 hv2
    rw [e1, e2]
    intro hv1 hv2
    exact hxy t1 t2 v1 v2 hv1 hv2 hx1 hx2 hview1 hview2
  · intro H h0 hk
    obtain ⟨t, v, hv, hmem, hview, hconj⟩ := hcomp H h0 hk
    refine ⟨v, List.mem_map.2 ⟨_, hmem, ?_⟩, hv, hconj⟩
    unfold viewOf
    simp only [hview]

/-- every sheet stabiliser of the regular representation is trivial -/
theorem rhoT_stab_trivial_at {ds : DSymData} (hs : ValidSym ds) (hdim : 1 ≤ ds.dim) {f : FundGroup}
    (hf : fundamentalGroup ds = .ok f) {tab : Tab} {subs : List (List Int)}
    (hv : Valid tab f.nrGenerators f.relators subs) (hbot : stab0 hv = ⊥) (k : Fin tab.size)
    (g : TGroup ds) (hg : rhoT hs hdim hf hv g k = k) : g = 1 := by
  obtain ⟨h, hh⟩ := rhoT_transitive hs hdim hf hv k
  have hfix : rhoT hs hdim hf hv (h⁻¹ * g * h) ⟨0, hv.pos⟩ = ⟨0, hv.pos⟩ := by
    rw [map_mul, map_mul, map_inv, Equiv.Perm.mul_apply, Equiv.Perm.mul_apply, hh, hg,
      Equiv.Perm.inv_eq_iff_eq, hh]
  have h1 := rhoT_stab_trivial hs hdim hf hv hbot _ hfix
  calc g = h * (h⁻¹ * g * h) * h⁻¹ := by group
    _ = 1 := by rw [h1]; group

/-- **the finite universal cover is simply connected — for every valid base symbol, connected or
    not**: whenever the model of `finite_universal_cover(ds)` returns `c`, the textbook orbifold group
    of `c` is trivial, and so is the group `fundamental_group(c)` presents.  (For a base with several
    components Todd–Coxeter returns only if at most one component has a non-trivial group; the cover
    then consists of the universal cover of that component and `|π1|` copies of each of the others.) -/
theorem finiteUniversalCover_simply_connected_all {ds : DSymData} (hs : ValidSym ds) (hsz : 1 ≤ ds.size)
    (hdim : 1 ≤ ds.dim) {c : DSymData} (hc : finiteUniversalCover ds = .ok c) :
    (∀ x : TGroup c, x = 1) ∧
      ∃ fc, fundamentalGroup c = .ok fc ∧ ∀ y : MGroup fc, y = 1 := by
  obtain ⟨f, t, v, hv, hf, _, _, cov, hops, hbot, _⟩ := finiteUniversalCover_trivial_subgroup hs hsz hdim hc
  have hgen : ∀ j : ℕ, (PresentedGroup.of j : TGroup c) ∈ (⊥ : Subgroup (TGroup c)) := by
    intro j
    rw [Subgroup.mem_bot]
    by_cases hj : isCode c j
    · rw [of_eq_xT hj]
      have hfc := hj.1
      obtain ⟨φ, _, _, k0, _, _, _, _, _, hinj, hfix⟩ :=
        comp_group_embeds_table hs hsz hdim hf hv cov hops hfc.1 hfc.2.1
      have hmem := xT_mem_compGroup hfc
      have h1 : φ (xT c (decD c j) (decI c j)) = 1 :=
        rhoT_stab_trivial_at hs hdim hf hv hbot k0 _ (hfix _ hmem)
      exact hinj hmem (compGroup c (decD c j)).one_mem (by rw [h1, map_one])
    · exact of_not_code hj
  have htriv : ∀ x : TGroup c, x = 1 := by
    intro x
    have := PresentedGroup.generated_by _ (⊥ : Subgroup (TGroup c)) hgen x
    exact Subgroup.mem_bot.1 this
  refine ⟨htriv, ?_⟩
  have hdimc : 1 ≤ c.dim := by rw [cov.dim]; exact hdim
  obtain ⟨fc, hfc⟩ := fundamentalGroup_ok cov.valid
  refine ⟨fc, hfc, ?_⟩
  intro y
  have := htriv ((presIso cov.valid hdimc hfc).symm y)
  have h2 := congrArg (presIso cov.valid hdimc hfc) this
  rw [MulEquiv.apply_symm_apply, map_one] at h2
  exact h2

end DSymVerif.CoversP
