/-
Helper lemmas for property C09, part 35: the words `fundamental_group` attaches to the 2-orbits,
described WITHOUT the model's `trace_word` and `orbit_reps_2d`:

* `OrbitWalkWord ds e2w i j d word v`: `word` is THE freely reduced word that represents the product
  of the edge words along the closed walk `s_i d —j→ · —i→ · —j→ …` of `2r` crossings around the
  `(i,j)`-orbit of `d`, `r` the least period of `s_i ∘ s_j` (C02's `IsLeastPeriod`), and `v` is the
  symbol's branching number `v_ij(d)`;
* `RepsOK` (Proofs/Delaney2dReps.lean): a list of chambers meeting every `(i,j)`-orbit (C02's `Orb2`)
  exactly once.
-/
import DSymVerif.Proofs.FundGroupOrbitWord
import DSymVerif.Proofs.FundGroupRel

namespace DSymVerif.FGP
open DSymVerif DSymVerif.DS DSymVerif.FG DSymVerif.FWP DSymVerif.SpecC10

/-- the word around the `(i,j)`-orbit of `d`, independent of `trace_word` -/
def OrbitWalkWord (ds : DSymData) (e2w : E2W) (i j d : Nat) (word : List Int) (v : Nat) : Prop :=
  isReduced word = true ∧
  (∃ r, IsLeastPeriod ds.dset j i (ds.dset.opU i d) r ∧
    den word = Wf (opT ds) (valW e2w) j i (2 * r) (ds.dset.opU i d)) ∧
  ds.vPartial i j d = .ok (some v)

/-- on a valid symbol the word `trace_word` reads is the orbit-walk word -/
theorem traced_iff_walk {ds : DSymData} (hs : ValidSym ds) (e2w : E2W) {i j d : Nat}
    (hi : i ≤ ds.dim) (hj : j ≤ ds.dim) (h1 : 1 ≤ d) (h2 : d ≤ ds.size) (word : List Int) (v : Nat) :
    Traced ds e2w i j d word v ↔ OrbitWalkWord ds e2w i j d word v := by
  have hv := hs.set
  have hop : ds.op i d = some (ds.dset.opU i d) := op_eq hi h1 h2
  have hr := hv.range i d hi h1 h2
  obtain ⟨_, hl⟩ := orbR_spec hs hj hi hr.1 hr.2
  constructor
  · rintro ⟨di, e1, e2, e3⟩
    rw [hop] at e1
    cases e1
    refine ⟨traceWord_isReduced _ _ _ _ _ _ e2, ⟨_, hl, ?_⟩, e3⟩
    exact traceWord_den hs e2w hj hi hr.1 hr.2 e2
  · rintro ⟨hred, ⟨r, hlr, hden⟩, e3⟩
    obtain ⟨w0, hw0⟩ := traceWord_ok hv e2w hr.1 hr.2 (some j) (some i)
      (fun a ha => by cases ha; exact hj) (fun a ha => by cases ha; exact hi)
    have hd0 := traceWord_den hs e2w hj hi hr.1 hr.2 hw0
    have : r = orbR ds j i (ds.dset.opU i d) := hlr.unique hl
    subst this
    have : word = w0 :=
      eq_of_den_eq hred (traceWord_isReduced _ _ _ _ _ _ hw0) (by rw [hden, hd0]; rfl)
    subst this
    exact ⟨_, hop, hw0, e3⟩

end DSymVerif.FGP
