/-
Helper lemmas for property C09, part 7: the initial boundary satisfies the invariant, the fuel of
`glue_recursively` suffices, `trace_word` terminates, and `find_generators` / `fundamental_group`
return on every valid symbol.
-/
import DSymVerif.Proofs.FundGroupTotal
import DSymVerif.Proofs.FundGroupRel
import DSymVerif.Proofs.Delaney2dReps
import DSymVerif.Props.C02

namespace DSymVerif.FGP
open DSymVerif DSymVerif.DS DSymVerif.FG

/-! ### `Boundary::new` -/

theorem mem_ridges {ds : DSymData} {k : Ridge} : k ∈ ridges ds ↔ Rng ds k := by
  unfold ridges Rng
  simp only [List.mem_flatMap, List.mem_filterMap, List.mem_range]
  constructor
  · rintro ⟨d0, hd0, i, hi, j, hj, hk⟩
    split at hk
    · cases hk
      simp only
      omega
    · cases hk
  · rintro ⟨h1, h2, h3, h4, h5⟩
    refine ⟨k.1 - 1, by omega, k.2.1, by omega, k.2.2, by omega, ?_⟩
    rw [if_pos h5]
    have : k.1 - 1 + 1 = k.1 := by omega
    rw [this]

theorem ridges_nodup (ds : DSymData) : (ridges ds).Nodup := by
  unfold ridges
  rw [List.nodup_flatMap]
  refine ⟨?_, ?_⟩
  · intro d0 _
    rw [List.nodup_flatMap]
    refine ⟨?_, ?_⟩
    · intro i _
      refine List.Nodup.filterMap ?_ List.nodup_range
      intro a a' b hb hb'
      simp only [Option.mem_def] at hb hb'
      split at hb
      · split at hb'
        · cases hb; cases hb'; rfl
        · cases hb'
      · cases hb
    · refine List.Pairwise.imp_of_mem ?_ (List.nodup_range (n := ds.dim + 1))
      intro a b _ _ hab x hx1 hx2
      simp only [List.mem_filterMap] at hx1 hx2
      obtain ⟨j1, _, h1⟩ := hx1
      obtain ⟨j2, _, h2⟩ := hx2
      split at h1
      · split at h2
        · cases h1
          have := congrArg (fun r : Ridge => r.2.1) (Option.some.inj h2)
          exact hab this.symm
        · cases h2
      · cases h1
  · refine List.Pairwise.imp_of_mem ?_ (List.nodup_range (n := ds.size))
    intro a b _ _ hab x hx1 hx2
    simp only [List.mem_flatMap, List.mem_filterMap] at hx1 hx2
    obtain ⟨i1, _, j1, _, h1⟩ := hx1
    obtain ⟨i2, _, j2, _, h2⟩ := hx2
    split at h1
    · split at h2
      · cases h1
        have := congrArg (fun r : Ridge => r.1) (Option.some.inj h2)
        simp only at this
        omega
      · cases h2
    · cases h1

theorem length_flatMap_le {α β} (f : α → List β) (B : Nat) : ∀ (l : List α),
    (∀ x ∈ l, (f x).length ≤ B) → (l.flatMap f).length ≤ l.length * B
  | [], _ => by simp
  | a :: l, h => by
    rw [List.flatMap_cons, List.length_append, List.length_cons]
    have h1 := h a List.mem_cons_self
    have h2 := length_flatMap_le f B l (fun x hx => h x (List.mem_cons_of_mem _ hx))
    rw [Nat.succ_mul]
    omega

theorem ridges_length (ds : DSymData) : (ridges ds).length ≤ ds.size * (ds.dim + 1) * (ds.dim + 1) := by
  unfold ridges
  have := length_flatMap_le (fun d0 => (List.range (ds.dim + 1)).flatMap fun i =>
      (List.range (ds.dim + 1)).filterMap fun j =>
        if i ≠ j then some ((d0 + 1, i, j) : Ridge) else none) ((ds.dim + 1) * (ds.dim + 1))
    (List.range ds.size) (by
      intro d0 _
      have := length_flatMap_le (fun i => (List.range (ds.dim + 1)).filterMap fun j =>
        if i ≠ j then some ((d0 + 1, i, j) : Ridge) else none) (ds.dim + 1)
        (List.range (ds.dim + 1)) (by
          intro i _
          exact (List.length_filterMap_le _ _).trans (by simp))
      simpa using this)
  rw [List.length_range] at this
  rw [Nat.mul_assoc]
  exact this

theorem oppGet_map (f : Ridge → Ridge × Nat) (k : Ridge) : ∀ (l : List Ridge),
    oppGet (l.map fun k => (k, f k)) k = if k ∈ l then some (f k) else none
  | [] => by simp [oppGet]
  | a :: l => by
    rw [List.map_cons]
    unfold oppGet
    by_cases h : a = k
    · subst h; simp
    · have h' : ¬ k = a := fun e => h e.symm
      rw [if_neg h, oppGet_map f k l]
      simp [h']

theorem oppGet_boundaryNew (ds : DSymData) (k : Ridge) :
    oppGet (boundaryNew ds) k = if Rng ds k then some ((k.1, k.2.2, k.2.1), 1) else none := by
  unfold boundaryNew
  rw [oppGet_map]
  by_cases h : Rng ds k
  · rw [if_pos (mem_ridges.2 h), if_pos h]
  · rw [if_neg (fun hm => h (mem_ridges.1 hm)), if_neg h]

theorem boundaryNew_inv {ds : DSymData} (hv : ValidSet ds.dset) : BInv ds (boundaryNew ds) := by
  have hsw : ∀ k, Rng ds k → Rng ds (k.1, k.2.2, k.2.1) := by
    intro k ⟨h1, h2, h3, h4, h5⟩
    exact ⟨h1, h2, h4, h3, fun e => h5 e.symm⟩
  refine ⟨?_, ?_, ?_, ?_, ?_, ?_⟩
  · unfold KeysNodup boundaryNew
    rw [List.map_map]
    have : (Prod.fst ∘ fun k : Ridge => (k, ((k.1, k.2.2, k.2.1), 1))) = id := rfl
    rw [this, List.map_id]
    exact ridges_nodup ds
  · intro k v hk
    rw [oppGet_boundaryNew] at hk
    split at hk
    · rename_i h; exact Or.inr h
    · cases hk
  · intro k v n hk
    rw [oppGet_boundaryNew] at hk
    split at hk
    · rename_i h
      cases hk
      exact ⟨Nat.le_refl _, Or.inr (hsw k h)⟩
    · cases hk
  · intro k v n hk gk hvr
    rw [oppGet_boundaryNew, if_pos hk] at gk
    cases gk
    rw [oppGet_boundaryNew, if_pos hvr]
  · intro k n hk gk
    rw [oppGet_boundaryNew, if_pos hk] at gk
    have := congrArg (fun p : Ridge × Nat => p.1.2.1) (Option.some.inj gk)
    exact hk.2.2.2.2 this.symm
  · intro k hk
    rw [oppGet_boundaryNew, if_pos hk, oppGet_boundaryNew, if_pos (rng_partner hv hk)]
    simp

theorem realCount_le_length (m : OppMap) : realCount m ≤ m.length := by
  unfold realCount
  exact (List.length_filter_le _ _).trans (by simp)

/-- the invariant together with the bound that makes the fuel of `glue_recursively` sufficient -/
def Bnd (ds : DSymData) (m : OppMap) : Prop :=
  BInv ds m ∧ realCount m ≤ ds.size * (ds.dim + 1) * (ds.dim + 1)

theorem boundaryNew_bnd {ds : DSymData} (hv : ValidSet ds.dset) : Bnd ds (boundaryNew ds) := by
  refine ⟨boundaryNew_inv hv, (realCount_le_length _).trans ?_⟩
  unfold boundaryNew
  rw [List.length_map]
  exact ridges_length ds

theorem glueRecursively_ok {ds : DSymData} (hs : ValidSym ds) {m : OppMap} (hm : Bnd ds m)
    (todo : List Item) (hok : ∀ it ∈ todo, ItemOk ds it) :
    ∃ m' out, glueRecursively ds m todo = .ok (m', out) ∧ Bnd ds m' ∧
      (∀ k, Rng ds k → oppGet m k = none → oppGet m' k = none) ∧ (∀ it ∈ out, ItemR ds it) ∧
      (∀ it ∈ todo, it.2.2 = none → Glued ds m' it.1 it.2.1) := by
  unfold glueRecursively
  obtain ⟨m', out, e, inv, mono, ⟨l, hl, hlr, _⟩, hc, hgl⟩ := glueRecLoop_ok hs (glueFuel ds todo) m todo []
    hm.1 hok (by
      unfold glueFuel
      have := hm.2
      have h2 : ds.size * (ds.dim + 1) * (ds.dim + 1) ≤ 2 * (ds.size + 1) * (ds.dim + 1) * (ds.dim + 1) := by
        have : ds.size ≤ 2 * (ds.size + 1) := by omega
        exact Nat.mul_le_mul_right _ (Nat.mul_le_mul_right _ this)
      omega)
  refine ⟨m', out, e, ⟨inv, hc.trans hm.2⟩, mono, ?_, hgl⟩
  intro it hit
  rw [hl] at hit
  simp at hit
  exact hlr it hit

/-! ### `spanning_tree` only lists facets -/

theorem spanningTree_itemOk {ds : DSymData} (hv : ValidSet ds.dset) :
    ∀ it ∈ spanningTree ds, it.2.2 = none ∧ ((∃ t ∈ ds.view.traversal ds.view.indices
      ds.view.elements.reverse, t.1 = some it.2.1 ∧ t.2.1 = it.1)) := by
  unfold spanningTree
  simp only
  generalize ds.view.traversal ds.view.indices ds.view.elements.reverse = tr
  suffices h : ∀ (l : List View.TravItem) (acc : List Nat × List Item),
      (∀ it ∈ acc.2, it.2.2 = none ∧ ∃ t ∈ tr, t.1 = some it.2.1 ∧ t.2.1 = it.1) →
      (∀ t ∈ l, t ∈ tr) →
      ∀ it ∈ (l.foldl (fun (acc : List Nat × List Item) (t : View.TravItem) =>
        if acc.1.contains t.2.2 then acc
        else (t.2.2 :: acc.1,
              match t.1 with
              | some i => acc.2 ++ [(t.2.1, i, none)]
              | none => acc.2)) acc).2, it.2.2 = none ∧ ∃ t ∈ tr, t.1 = some it.2.1 ∧ t.2.1 = it.1 by
    exact h tr ([], []) (fun it h => by cases h) (fun t h => h)
  intro l
  induction l with
  | nil => intro acc ha _; simpa using ha
  | cons t l ih =>
    intro acc ha hl
    rw [List.foldl_cons]
    apply ih
    · split
      · exact ha
      · simp only
        cases h1 : t.1 with
        | none => simpa using ha
        | some i =>
          simp only
          intro it hit
          rcases List.mem_append.1 hit with h | h
          · exact ha it h
          · simp only [List.mem_singleton] at h
            subst h
            exact ⟨rfl, t, hl t List.mem_cons_self, h1, rfl⟩
    · intro t' ht'
      exact hl t' (List.mem_cons_of_mem _ ht')

theorem reach_range {s : View} (h : s.PInvol) {idx : List Nat} {d e : Nat}
    (hd : 1 ≤ d ∧ d ≤ s.size) (hr : s.Reach idx d e) : 1 ≤ e ∧ e ≤ s.size := by
  induction hr with
  | refl => exact hd
  | step _ _ hop _ => exact h.range _ _ _ hop

/-- every edge item of a traversal over all indices from in-range seeds is a facet -/
theorem traversal_item_range {ds : DSymData} (hv : ValidSet ds.dset) (seeds : List Nat)
    (hseeds : ∀ d ∈ seeds, 1 ≤ d ∧ d ≤ ds.size) :
    ∀ t ∈ ds.view.traversal ds.view.indices seeds, ∀ i, t.1 = some i → FacetR ds t.2.1 i := by
  intro t ht i hi
  have hp : ds.view.PInvol := (C02.traversal_hyp ds.dset).2.2 ds hv
  obtain ⟨pre, post, hsplit⟩ := List.append_of_mem ht
  obtain ⟨h1, _, _⟩ := C02.traversal_sound ds.view ds.view.indices seeds pre post t hsplit
  obtain ⟨hidx, _, u, hu, hue⟩ := h1 i hi
  have htarget : ∃ t' ∈ ds.view.traversal ds.view.indices seeds, t'.2.2 = t.2.1 :=
    ⟨u, by rw [hsplit]; exact List.mem_append_left _ hu, hue⟩
  obtain ⟨d, hd, hr⟩ := ((C02.traversal_complete ds.view hp ds.view.indices seeds).1 t.2.1).1 htarget
  have := reach_range hp (hseeds d hd) hr
  exact ⟨this.1, this.2, (mem_indices ds.view i).1 hidx⟩

theorem spanningTree_ok {ds : DSymData} (hv : ValidSet ds.dset) :
    ∀ it ∈ spanningTree ds, ItemOk ds it := by
  intro it hit _
  obtain ⟨_, t, ht, h1, h2⟩ := spanningTree_itemOk hv it hit
  have := traversal_item_range hv ds.view.elements.reverse (by
    intro d hd
    exact (DS.mem_elements ds.view d).1 (List.mem_reverse.1 hd)) t ht it.2.1 h1
  rw [h2] at this
  exact this

/-! ### `trace_word` terminates -/

theorem traceLoop_ok {ds : DSymData} (hv : ValidSet ds.dset) (e2w : E2W) {d i j : Nat}
    (hi : i ≤ ds.dim) (hj : j ≤ ds.dim) : ∀ (fuel e : Nat) (res : List Int), 1 ≤ e → e ≤ ds.size →
    (∃ k, 1 ≤ k ∧ k ≤ fuel ∧ (ds.dset.comp i j)^[k] e = d) →
    ∃ w, traceLoop ds e2w d i j fuel e res = .ok w
  | 0, _, _, _, _, ⟨k, h1, h2, _⟩ => by omega
  | fuel + 1, e, res, h1, h2, ⟨k, hk1, hk2, hk⟩ => by
    unfold traceLoop
    simp only
    have r1 := hv.range i e hi h1 h2
    have r2 := hv.range j _ hj r1.1 r1.2
    rw [op_eq hi h1 h2]
    simp only [Option.getD_some]
    rw [op_eq hj r1.1 r1.2]
    simp only [Option.getD_some]
    by_cases he : ds.dset.opU j (ds.dset.opU i e) = d
    · rw [if_pos he]; exact ⟨_, rfl⟩
    · rw [if_neg he]
      apply traceLoop_ok hv e2w hi hj fuel _ _ r2.1 r2.2
      have hk2' : 2 ≤ k := by
        rcases Nat.lt_or_ge k 2 with h | h
        · have : k = 1 := by omega
          subst this
          exact absurd hk he
        · exact h
      refine ⟨k - 1, by omega, by omega, ?_⟩
      have : k = (k - 1) + 1 := by omega
      rw [this, Function.iterate_succ_apply] at hk
      exact hk

theorem traceWord_ok {ds : DSymData} (hv : ValidSet ds.dset) (e2w : E2W) {d : Nat}
    (h1 : 1 ≤ d) (h2 : d ≤ ds.size) (io jo : Option Nat)
    (hio : ∀ i, io = some i → i ≤ ds.dim) (hjo : ∀ j, jo = some j → j ≤ ds.dim) :
    ∃ w, traceWord ds e2w d io jo = .ok w := by
  unfold traceWord
  cases io with
  | none => cases jo <;> exact ⟨_, rfl⟩
  | some i =>
    cases jo with
    | none => exact ⟨_, rfl⟩
    | some j =>
      simp only
      obtain ⟨k, hk1, hk2, _, _, hk, _⟩ := hv.r_generic (hio i rfl) (hjo j rfl) h1 h2
      exact traceLoop_ok hv e2w (hio i rfl) (hjo j rfl) _ d _ h1 h2 ⟨k, hk1, by
        have : ds.size = ds.dset.size := rfl
        omega, hk⟩

/-! ### `find_generators` returns -/

theorem applyGlued_ok {ds : DSymData} (hv : ValidSet ds.dset) : ∀ (items : List Item) (e2w : E2W),
    (∀ it ∈ items, ItemR ds it) → ∃ e2w', applyGlued ds e2w items = .ok e2w'
  | [], e2w, _ => ⟨e2w, rfl⟩
  | (e, i, jo) :: rest, e2w, h => by
    obtain ⟨hf, hj⟩ := h (e, i, jo) List.mem_cons_self
    unfold applyGlued
    rw [op_eq hf.2.2 hf.1 hf.2.1]
    simp only
    have r := hv.range i e hf.2.2 hf.1 hf.2.1
    obtain ⟨w, hw⟩ := traceWord_ok hv e2w r.1 r.2 jo (some i) (fun j hjo => (hj j hjo).1)
      (fun j hjo => by cases hjo; exact hf.2.2)
    rw [hw]
    simp only
    split
    · exact applyGlued_ok hv rest _ (fun it hit => h it (List.mem_cons_of_mem _ hit))
    · exact applyGlued_ok hv rest _ (fun it hit => h it (List.mem_cons_of_mem _ hit))

theorem genStep_ok {ds : DSymData} (hs : ValidSym ds) (st : GenState) (hb : Bnd ds st.bnd)
    {d i : Nat} (hd : FacetR ds d i) :
    ∃ st', genStep ds st d i = .ok st' ∧ Bnd ds st'.bnd := by
  unfold genStep
  split
  · rw [op_eq hd.2.2 hd.1 hd.2.1]
    simp only
    obtain ⟨m', out, e, hb', _, hout, _⟩ := glueRecursively_ok hs hb [(d, i, none)] (by
      intro it hit
      simp only [List.mem_singleton] at hit
      subst hit
      exact fun _ => hd)
    rw [e]
    simp only
    obtain ⟨e2w', he⟩ := applyGlued_ok hs.set out _ hout
    rw [he]
    exact ⟨_, rfl, hb'⟩
  · exact ⟨st, rfl, hb⟩

theorem mem_facets {ds : DSymData} {f : Edge} : f ∈ facets ds ↔ FacetR ds f.1 f.2 := by
  unfold facets FacetR
  simp only [List.mem_flatMap, List.mem_map, List.mem_range]
  constructor
  · rintro ⟨d0, hd0, i, hi, rfl⟩
    simp only
    omega
  · rintro ⟨h1, h2, h3⟩
    refine ⟨f.1 - 1, by omega, f.2, by omega, ?_⟩
    have : f.1 - 1 + 1 = f.1 := by omega
    rw [this]

theorem genLoop_ok {ds : DSymData} (hs : ValidSym ds) : ∀ (fs : List Edge) (st : GenState),
    Bnd ds st.bnd → (∀ f ∈ fs, FacetR ds f.1 f.2) →
    ∃ st', genLoop ds st fs = .ok st' ∧ Bnd ds st'.bnd
  | [], st, hb, _ => ⟨st, rfl, hb⟩
  | (d, i) :: rest, st, hb, hf => by
    unfold genLoop
    obtain ⟨st1, e1, hb1⟩ := genStep_ok hs st hb (hf (d, i) List.mem_cons_self)
    rw [e1]
    simp only
    exact genLoop_ok hs rest st1 hb1 (fun f h => hf f (List.mem_cons_of_mem _ h))

theorem findGenerators_ok {ds : DSymData} (hs : ValidSym ds) :
    ∃ e2w g2e, findGenerators ds = .ok (e2w, g2e) := by
  unfold findGenerators
  obtain ⟨m', out, e, hb', _, _⟩ := glueRecursively_ok hs (boundaryNew_bnd hs.set) (spanningTree ds)
    (spanningTree_ok hs.set)
  rw [e]
  simp only
  obtain ⟨st', e', _⟩ := genLoop_ok hs (facets ds) { bnd := m', e2w := [], g2e := [] } hb'
    (fun f hf => mem_facets.1 hf)
  rw [e']
  exact ⟨_, _, rfl⟩

/-! ### `fundamental_group` returns -/

theorem relStep_ok {ds : DSymData} (hs : ValidSym ds) (e2w : E2W) {i j d : Nat}
    (hi : i ≤ ds.dim) (hj : j ≤ ds.dim) (h1 : 1 ≤ d) (h2 : d ≤ ds.size) (st : RelState) :
    ∃ st', relStep ds e2w i j st d = .ok st' := by
  unfold relStep
  rw [op_eq hi h1 h2]
  simp only
  have r := hs.set.range i d hi h1 h2
  obtain ⟨w, hw⟩ := traceWord_ok hs.set e2w r.1 r.2 (some j) (some i)
    (fun _ h => by cases h; exact hj) (fun _ h => by cases h; exact hi)
  rw [hw]
  simp only
  obtain ⟨b, hb⟩ := hs.vPartial_some hi hj h1 h2
  rw [hb]
  exact ⟨_, rfl⟩

theorem relLoop_ok {ds : DSymData} (hs : ValidSym ds) (e2w : E2W) {i j : Nat}
    (hi : i ≤ ds.dim) (hj : j ≤ ds.dim) : ∀ (reps : List Nat) (st : RelState),
    (∀ d ∈ reps, 1 ≤ d ∧ d ≤ ds.size) → ∃ st', relLoop ds e2w i j st reps = .ok st'
  | [], st, _ => ⟨st, rfl⟩
  | d :: rest, st, h => by
    unfold relLoop
    have hd := h d List.mem_cons_self
    obtain ⟨st1, e1⟩ := relStep_ok hs e2w hi hj hd.1 hd.2 st
    rw [e1]
    simp only
    exact relLoop_ok hs e2w hi hj rest st1 (fun d' hd' => h d' (List.mem_cons_of_mem _ hd'))

theorem pairLoop_ok {ds : DSymData} (hs : ValidSym ds) (e2w : E2W) : ∀ (ps : List (Nat × Nat))
    (st : RelState), (∀ p ∈ ps, p.1 ≤ ds.dim ∧ p.2 ≤ ds.dim) →
    ∃ st', pairLoop ds e2w st ps = .ok st'
  | [], st, _ => ⟨st, rfl⟩
  | (i, j) :: rest, st, h => by
    unfold pairLoop
    have hp := h (i, j) List.mem_cons_self
    obtain ⟨st1, e1⟩ := relLoop_ok hs e2w hp.1 hp.2 _ st (D2.orbitReps2d_ok hs.set hp.1 hp.2).range
    rw [e1]
    simp only
    exact pairLoop_ok hs e2w rest st1 (fun p hp' => h p (List.mem_cons_of_mem _ hp'))

/-- **totality**: on every valid symbol the model of `fundamental_group` returns a value — no
    modelled panic (`unwrap`, indexing) and no fuel exhaustion (no modelled non-termination) -/
theorem fundamentalGroup_ok {ds : DSymData} (hs : ValidSym ds) :
    ∃ f, fundamentalGroup ds = .ok f := by
  unfold fundamentalGroup
  obtain ⟨e2w, g2e, e⟩ := findGenerators_ok hs
  rw [e]
  simp only
  obtain ⟨st, e'⟩ := pairLoop_ok hs e2w (indexPairs ds) { relators := [], cones := [] } (by
    intro p hp
    have := (mem_indexPairs (ds := ds) (i := p.1) (j := p.2)).1 hp
    omega)
  rw [e']
  exact ⟨_, rfl⟩

theorem innerEdges_ok {ds : DSymData} (hs : ValidSym ds) : ∃ es, innerEdges ds = .ok es := by
  unfold innerEdges
  obtain ⟨m', out, e, _⟩ := glueRecursively_ok hs (boundaryNew_bnd hs.set) (spanningTree ds)
    (spanningTree_ok hs.set)
  rw [e]
  exact ⟨_, rfl⟩

end DSymVerif.FGP
