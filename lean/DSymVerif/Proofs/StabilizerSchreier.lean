/-
C13, Schreier's lemma for the model of `stabilizer`: relator rotations close and are trivial
(`relOk_of_perm`), the breadth-first spanning tree (`spanningTree_spec`), the point words
(`treeFold_p2w`), the invariant through the tree loop and the generator loop
(`treeFold_einv`, `genFold_einv`), every edge ends up with a word (`stabilizer_edges`), and
every word fixing the base row is a product of edge words (`fixing_word_mem`).
-/
import DSymVerif.Proofs.StabilizerClose
import DSymVerif.Proofs.StabilizerProduct

set_option linter.unusedSectionVars false
set_option linter.unusedVariables false

namespace DSymVerif.StabP
open DSymVerif DSymVerif.SpecC11 DSymVerif.CosetP DSymVerif.FWP DSymVerif.Cosets
open DSymVerif.Stab hiding traceWord

/-! ### relator rotations -/

theorem mem_step {acc : List Int} {x y : Int} (h : y ∈ FW.step acc x) : y ∈ acc ∨ y = x := by
  unfold FW.step at h
  cases acc with
  | nil =>
    simp only at h
    split at h
    · simp only [List.mem_singleton] at h; exact Or.inr h
    · cases h
  | cons a as =>
    simp only at h
    split at h
    · exact Or.inl (List.mem_cons_of_mem _ h)
    · split at h
      · simp only [List.mem_cons] at h
        rcases h with h | h
        · exact Or.inr h
        · exact Or.inl (by simpa using h)
      · exact Or.inl h

theorem mem_foldl_step : ∀ (w acc : List Int) (y : Int), y ∈ w.foldl FW.step acc → y ∈ acc ∨ y ∈ w
  | [], acc, y, h => Or.inl h
  | x :: w, acc, y, h => by
    rcases mem_foldl_step w (FW.step acc x) y h with h | h
    · rcases mem_step h with h | h
      · exact Or.inl h
      · exact Or.inr (by simp [h])
    · exact Or.inr (List.mem_cons_of_mem _ h)

theorem mem_normalized {w : List Int} {y : Int} (h : y ∈ FW.normalized w) : y ∈ w := by
  unfold FW.normalized at h
  rcases mem_foldl_step w [] y (by simpa using h) with h | h
  · cases h
  · exact h

section Rel
variable {t : Tab} {n : Nat} {rels : List (List Int)}

theorem lettersOk_rotated {a : List Int} (ha : ∀ g ∈ a, g ∈ letters n) (i : Int) :
    ∀ g ∈ FW.rotated a i, g ∈ letters n := by
  intro g hg
  by_cases hn : a = []
  · subst hn; rw [rotated_nil] at hg; cases hg
  · rw [rotated_of_ne_nil hn] at hg
    have := mem_normalized hg
    rcases List.mem_append.mp this with h | h
    · exact ha g (List.mem_of_mem_drop h)
    · exact ha g (List.mem_of_mem_take h)

theorem lettersOk_inverse {a : List Int} (ha : ∀ g ∈ a, g ∈ letters n) :
    ∀ g ∈ FW.inverse a, g ∈ letters n := by
  intro g hg
  have := mem_normalized hg
  simp only [List.mem_map, List.mem_reverse] at this
  obtain ⟨x, hx, rfl⟩ := this
  exact neg_mem_letters (ha x hx)

theorem mkG_rotated {a : List Int} (h1 : mkG n rels a = 1) (i : Int) : mkG n rels (FW.rotated a i) = 1 := by
  by_cases hn : a = []
  · subst hn; rw [rotated_nil]; exact h1
  · rw [rotated_of_ne_nil hn, mkG_normalized, mkG_append]
    have h2 : mkG n rels (List.take ((i % (a.length : Int)).toNat) a) *
        mkG n rels (List.drop ((i % (a.length : Int)).toNat) a) = 1 := by
      rw [← mkG_append, List.take_append_drop]; exact h1
    exact mul_eq_one_comm.mp h2

/-- a word that is trivial in the group closes at every row of a valid table -/
theorem closes_of_one {subs : List (List Int)} (hv : Valid t n rels subs) {r : List Int}
    (h1 : mkG n rels r = 1) (hl : ∀ g ∈ r, g ∈ letters n) :
    ∀ c, c < t.size → traceWord t n c r = some c := by
  intro c hc
  obtain ⟨d, hd⟩ := traceWord_total hv r c hc hl
  have hdl := traceWord_lt hc hd
  have := actionHom_trace hv r ⟨c, hc⟩ ⟨d, hdl⟩ hd
  unfold mkG at h1
  rw [h1, map_one] at this
  have hcd : d = c := by
    have := congrArg Fin.val this
    simpa using this
  rw [hd, hcd]

theorem relOk_of_perm {subs : List (List Int)} (hv : Valid t n rels subs) {rel r : List Int}
    (hrel : rel ∈ rels) (hl : ∀ g ∈ rel, g ∈ letters n) (hr : r ∈ FW.relatorPermutations rel) :
    RelOk t n rels r := by
  have h1 : mkG n rels rel = 1 := mkG_rel n rels hrel
  by_cases hn : rel = []
  · subst hn
    rw [relPerms_nil] at hr
    simp only [List.mem_singleton] at hr
    subst hr
    exact ⟨h1, fun c hc => rfl⟩
  · rw [mem_relPerms hn] at hr
    simp only [rotInvList, List.mem_flatMap, List.mem_range, List.mem_cons, List.not_mem_nil, or_false] at hr
    obtain ⟨i, _, hr | hr⟩ := hr
    · subst hr
      exact ⟨mkG_rotated h1 _, closes_of_one hv (mkG_rotated h1 _) (lettersOk_rotated hl _)⟩
    · subst hr
      have h2 : mkG n rels (FW.inverse (FW.rotated rel i)) = 1 := by
        rw [mkG_inverse, mkG_rotated h1, inv_one]
      exact ⟨h2, closes_of_one hv h2 (lettersOk_inverse (lettersOk_rotated hl _))⟩

/-! ### `relators_by_start_gen` -/

theorem rbgLookup_push (g g' : Int) (w : List Int) : ∀ (m : RelMap) (rs : List (List Int)),
    rbgLookup g' (rbgPush g w m) = some rs → ∀ r ∈ rs, r = w ∨ ∃ rs', rbgLookup g' m = some rs' ∧ r ∈ rs'
  | [], rs, h, r, hr => by
    simp only [rbgPush, rbgLookup] at h
    by_cases e : g = g'
    · simp only [e, if_true, Option.some.injEq] at h
      subst h
      simp only [List.mem_singleton] at hr
      exact Or.inl hr
    · simp [e] at h
  | (k, ws) :: m, rs, h, r, hr => by
    simp only [rbgPush] at h
    by_cases e : k = g
    · subst e
      simp only [if_true, rbgLookup] at h ⊢
      by_cases e2 : k = g'
      · simp only [e2, if_true, Option.some.injEq] at h ⊢
        subst h
        rcases List.mem_append.mp hr with hr | hr
        · exact Or.inr ⟨ws, rfl, hr⟩
        · simp only [List.mem_singleton] at hr; exact Or.inl hr
      · simp only [e2, if_false] at h ⊢
        exact Or.inr ⟨_, h, hr⟩
    · simp only [e, if_false, rbgLookup] at h ⊢
      by_cases e2 : k = g'
      · simp only [e2, if_true, Option.some.injEq] at h ⊢
        subst h
        exact Or.inr ⟨_, rfl, hr⟩
      · simp only [e2, if_false] at h ⊢
        exact rbgLookup_push g g' w m _ h r hr

def RbgAll (P : List Int → Prop) (m : RelMap) : Prop :=
  ∀ g rs, rbgLookup g m = some rs → ∀ r ∈ rs, P r

theorem rbgWords_all {P : List Int → Prop} : ∀ (ws : List (List Int)) (m m' : RelMap),
    (∀ w ∈ ws, P w) → RbgAll P m → rbgWords ws m = .ok m' → RbgAll P m'
  | [], m, m', _, hm, h => by
    simp only [rbgWords, Outcome.ok.injEq] at h; subst h; exact hm
  | [] :: ws, m, m', hws, hm, h => by
    simp only [rbgWords] at h
    exact rbgWords_all ws m m' (fun w hw => hws w (by simp [hw])) hm h
  | (x :: w) :: ws, m, m', hws, hm, h => by
    simp only [rbgWords] at h
    refine rbgWords_all ws _ m' (fun w' hw' => hws w' (by simp [hw'])) ?_ h
    intro g rs hl r hr
    rcases rbgLookup_push x g (x :: w) m rs hl r hr with rfl | ⟨rs', h1, h2⟩
    · exact hws _ (by simp)
    · exact hm g rs' h1 r h2

theorem rbgRels_all {P : List Int → Prop} : ∀ (rels : List (List Int)) (m m' : RelMap),
    (∀ rel ∈ rels, ∀ w ∈ FW.relatorPermutations rel, P w) → RbgAll P m → rbgRels rels m = .ok m' →
    RbgAll P m'
  | [], m, m', _, hm, h => by
    simp only [rbgRels, Outcome.ok.injEq] at h; subst h; exact hm
  | rel :: rels, m, m', hr, hm, h => by
    simp only [rbgRels] at h
    cases hw : rbgWords (FW.relatorPermutations rel) m with
    | err => simp [hw] at h
    | panic => simp [hw] at h
    | ok m1 =>
      simp only [hw] at h
      exact rbgRels_all rels m1 m' (fun r' hr' => hr r' (by simp [hr']))
        (rbgWords_all _ m m1 (hr rel (by simp)) hm hw) h

theorem rbgOk_of_start {subs : List (List Int)} (hv : Valid t n rels subs)
    (hl : ∀ rel ∈ rels, ∀ g ∈ rel, g ∈ letters n) {rbg : RelMap}
    (h : relatorsByStartGen rels = .ok rbg) : RbgOk t n rels rbg := by
  unfold relatorsByStartGen at h
  exact rbgRels_all (P := RelOk t n rels) rels [] rbg
    (fun rel hrel w hw => relOk_of_perm hv hrel (hl rel hrel) hw)
    (fun g rs hg => by simp [rbgLookup] at hg) h

theorem rbgWords_total : ∀ (ws : List (List Int)) (m : RelMap), ∃ m', rbgWords ws m = .ok m'
  | [], m => ⟨m, rfl⟩
  | [] :: ws, m => by simp only [rbgWords]; exact rbgWords_total ws m
  | (x :: w) :: ws, m => by simp only [rbgWords]; exact rbgWords_total ws _

theorem rbgRels_total : ∀ (rels : List (List Int)) (m : RelMap), ∃ m', rbgRels rels m = .ok m'
  | [], m => ⟨m, rfl⟩
  | rel :: rels, m => by
    obtain ⟨m1, h1⟩ := rbgWords_total (FW.relatorPermutations rel) m
    simp only [rbgRels, h1]
    exact rbgRels_total rels m1

end Rel

/-! ### `spanning_tree` -/

section Tree
variable {t : Tab} {n : Nat}

/-- replay a list of tree edges from a set of reached rows: every edge starts at a reached row and
    ends at a new one -/
def walk (t : Tab) (n : Nat) : List Nat → List (Nat × Int) → Option (List Nat)
  | R, [] => some R
  | R, (pt, gen) :: es =>
    match entry t n pt gen with
    | some tgt => if pt ∈ R ∧ tgt ∉ R then walk t n (tgt :: R) es else none
    | none => none

theorem walk_append : ∀ (es es' : List (Nat × Int)) (R : List Nat),
    walk t n R (es ++ es') = (walk t n R es).bind (fun R' => walk t n R' es')
  | [], es', R => by simp [walk]
  | (pt, gen) :: es, es', R => by
    simp only [List.cons_append, walk]
    cases entry t n pt gen with
    | none => rfl
    | some tgt =>
      simp only
      split
      · exact walk_append es es' _
      · rfl

/-- invariant of the breadth-first search -/
structure TInv (t : Tab) (n : Nat) (base : Nat) (queue seen : List Nat) (edges : List (Nat × Int)) : Prop where
  walk : ∃ R, walk t n [base] edges = some R ∧ ∀ x, x ∈ R ↔ x ∈ seen
  nodup : seen.Nodup
  lt : ∀ x ∈ seen, x < t.size
  queue : ∀ x ∈ queue, x ∈ seen
  base : base ∈ seen

def ClosedAt (t : Tab) (n : Nat) (seen : List Nat) (x : Nat) : Prop :=
  ∀ g ∈ letters n, ∀ d, entry t n x g = some d → d ∈ seen

theorem treeGens_spec (hcomp : complete t n = true) {base point : Nat} :
    ∀ (gs : List Int) (queue seen : List Nat) (edges : List (Nat × Int)),
      (∀ g ∈ gs, g ∈ letters n) → TInv t n base queue seen edges → point ∈ seen →
      ∃ q' s' e', treeGens (Table.ofView n t) point gs (queue, seen, edges) = .ok (q', s', e') ∧
        TInv t n base q' s' e' ∧ (∀ x ∈ seen, x ∈ s') ∧ (∀ x ∈ queue, x ∈ q') ∧
        (∀ x ∈ s', x ∈ seen ∨ x ∈ q') ∧
        (∀ g ∈ gs, ∀ d, entry t n point g = some d → d ∈ s') ∧
        q'.length + seen.length = queue.length + s'.length
  | [], queue, seen, edges, _, hi, _ =>
    ⟨queue, seen, edges, rfl, hi, fun _ h => h, fun _ h => h, fun _ h => Or.inl h, by simp, rfl⟩
  | gen :: gs, queue, seen, edges, hgs, hi, hp => by
    have hg : gen ∈ letters n := hgs gen (by simp)
    obtain ⟨p, hent⟩ := complete_spec hcomp (hi.lt point hp) hg
    simp only [treeGens, get_ofView hent]
    by_cases hs : seen.contains p = true
    · rw [if_pos hs]
      obtain ⟨q', s', e', h1, h2, h3, h4, h5, h6, h7⟩ := treeGens_spec hcomp gs queue seen edges
        (fun g' hg' => hgs g' (by simp [hg'])) hi hp
      refine ⟨q', s', e', h1, h2, h3, h4, h5, ?_, h7⟩
      intro g' hg' d hd
      rcases List.mem_cons.mp hg' with rfl | hg'
      · rw [hent] at hd
        injection hd with hd
        subst hd
        exact h3 _ (by simpa using hs)
      · exact h6 g' hg' d hd
    · rw [if_neg hs]
      have hps : p ∉ seen := by simpa using hs
      have hi' : TInv t n base (queue ++ [p]) (p :: seen) (edges ++ [(point, gen)]) := by
        obtain ⟨R, hR, hRs⟩ := hi.walk
        refine ⟨⟨p :: R, ?_, ?_⟩, List.nodup_cons.mpr ⟨hps, hi.nodup⟩, ?_, ?_, List.mem_cons_of_mem _ hi.base⟩
        · rw [walk_append, hR]
          simp only [Option.bind_some, walk, hent]
          rw [if_pos ⟨(hRs point).mpr hp, fun h => hps ((hRs p).mp h)⟩]
        · intro x; simp only [List.mem_cons, hRs]
        · intro x hx
          rcases List.mem_cons.mp hx with rfl | hx
          · exact (entry_some hent).1
          · exact hi.lt x hx
        · intro x hx
          rcases List.mem_append.mp hx with hx | hx
          · exact List.mem_cons_of_mem _ (hi.queue x hx)
          · simp only [List.mem_singleton] at hx; subst hx; simp
      obtain ⟨q', s', e', h1, h2, h3, h4, h5, h6, h7⟩ := treeGens_spec hcomp gs (queue ++ [p]) (p :: seen)
        (edges ++ [(point, gen)]) (fun g' hg' => hgs g' (by simp [hg'])) hi' (List.mem_cons_of_mem _ hp)
      refine ⟨q', s', e', h1, h2, fun x hx => h3 x (List.mem_cons_of_mem _ hx),
        fun x hx => h4 x (List.mem_append_left _ hx), ?_, ?_, ?_⟩
      · intro x hx
        rcases h5 x hx with h | h
        · rcases List.mem_cons.mp h with rfl | h
          · exact Or.inr (h4 _ (by simp))
          · exact Or.inl h
        · exact Or.inr h
      · intro g' hg' d hd
        rcases List.mem_cons.mp hg' with rfl | hg'
        · rw [hent] at hd
          injection hd with hd
          subst hd
          exact h3 _ (by simp)
        · exact h6 g' hg' d hd
      · simp only [List.length_append, List.length_cons, List.length_nil] at h7 ⊢
        omega

theorem seen_length_le {seen : List Nat} (hnd : seen.Nodup) (hlt : ∀ x ∈ seen, x < t.size) :
    seen.length ≤ t.size := by
  have := hnd.length_le_of_subset (l₂ := List.range t.size) (fun x hx => List.mem_range.mpr (hlt x hx))
  simpa using this

theorem treeLoop_spec (hcomp : complete t n = true) {base : Nat} :
    ∀ (fuel : Nat) (queue seen : List Nat) (edges : List (Nat × Int)),
      TInv t n base queue seen edges → (∀ x ∈ seen, x ∈ queue ∨ ClosedAt t n seen x) →
      queue.length + (t.size - seen.length) + 1 ≤ fuel →
      ∃ e' s', treeLoop (Table.ofView n t) fuel queue seen edges = .ok e' ∧ TInv t n base [] s' e' ∧
        (∀ x ∈ s', ClosedAt t n s' x)
  | f, [], seen, edges, hi, hc, _ => by
    cases f <;> exact ⟨edges, seen, rfl, hi, fun x hx => (hc x hx).resolve_left (by simp)⟩
  | 0, _ :: _, _, _, _, _, hf => by simp at hf
  | f + 1, point :: queue, seen, edges, hi, hc, hf => by
    have hp : point ∈ seen := hi.queue point (by simp)
    have hi0 : TInv t n base queue seen edges :=
      ⟨hi.walk, hi.nodup, hi.lt, fun x hx => hi.queue x (by simp [hx]), hi.base⟩
    obtain ⟨q', s', e', h1, h2, h3, h4, h5, h6, h7⟩ := treeGens_spec hcomp (point := point)
      (Table.ofView n t).allGens queue seen edges
      (by rw [allGens_eq rfl]; exact fun _ h => h) hi0 hp
    simp only [treeLoop, h1]
    have hle := seen_length_le h2.nodup h2.lt
    have hle0 := seen_length_le hi.nodup hi.lt
    apply treeLoop_spec hcomp f q' s' e' h2 _ (by simp at hf; omega)
    intro x hx
    by_cases hxp : x = point
    · subst hxp
      right
      intro g hg d hd
      exact h6 g (by rw [allGens_eq rfl]; exact hg) d hd
    · rcases h5 x hx with hxs | hxq
      · rcases hc x hxs with hq | hcl
        · rcases List.mem_cons.mp hq with rfl | hq
          · exact absurd rfl hxp
          · exact Or.inl (h4 x hq)
        · right
          intro g hg d hd
          exact h3 d (hcl g hg d hd)
      · exact Or.inl hxq

/-- the tree edges, replayed from the base row, reach a set of rows closed under all letters -/
theorem spanningTree_spec (hcomp : complete t n = true) {base : Nat} (hb : base < t.size) :
    ∃ edges R, spanningTree base (Table.ofView n t) = .ok edges ∧ walk t n [base] edges = some R ∧
      base ∈ R ∧ (∀ x ∈ R, x < t.size) ∧ (∀ x ∈ R, ClosedAt t n R x) := by
  have hi : TInv t n base [base] [base] [] :=
    ⟨⟨[base], rfl, fun _ => Iff.rfl⟩, List.nodup_singleton _, by simpa using hb, by simp, by simp⟩
  have hlen : (Table.ofView n t).len = t.size := by simp [Table.len, Table.ofView]
  obtain ⟨e', s', h1, h2, h3⟩ := treeLoop_spec hcomp ((Table.ofView n t).len + 2) [base] [base] [] hi
    (fun x hx => Or.inl hx) (by rw [hlen]; simp; omega)
  obtain ⟨R, hR, hRs⟩ := h2.walk
  refine ⟨e', R, h1, hR, (hRs base).mpr h2.base, fun x hx => h2.lt x ((hRs x).mp hx), ?_⟩
  intro x hx g hg d hd
  exact (hRs d).mpr (h3 x ((hRs x).mp hx) g hg d hd)

/-- a set of rows closed under all letters contains everything that can be traced from it -/
theorem closed_trace {R : List Nat} (hcl : ∀ x ∈ R, ClosedAt t n R x) : ∀ (w : List Int) (c d : Nat),
    c ∈ R → traceWord t n c w = some d → d ∈ R
  | [], c, d, hc, h => by
    simp only [traceWord, Option.some.injEq] at h; subst h; exact hc
  | g :: w, c, d, hc, h => by
    simp only [traceWord] at h
    cases hent : entry t n c g with
    | none => simp [hent] at h
    | some e =>
      simp only [hent] at h
      exact closed_trace hcl w e d (hcl c hc g (entry_some hent).2.2 e hent) h

end Tree

/-! ### the spanning-tree loop of `stabilizer` -/

section TreeFold
variable {t : Tab} {n : Nat} {rels : List (List Int)}

def PKeys (p : PMap) (R : List Nat) : Prop := ∀ k, (pLookup k p).isSome = true ↔ k ∈ R

theorem treeFold_p2w (hcomp : complete t n = true) {rbg : RelMap} :
    ∀ (es : List (Nat × Int)) (R R' : List Nat) (e : EMap) (p : PMap) (e' : EMap) (p' : PMap),
      walk t n R es = some R' → PKeys p R →
      treeFold (Table.ofView n t) rbg es e p = .ok (e', p') →
      PKeys p' R' ∧ (∀ k w, pLookup k p = some w → pLookup k p' = some w) ∧
      (∀ pt gen, (pt, gen) ∈ es → ∃ tgt w, entry t n pt gen = some tgt ∧ pLookup pt p' = some w ∧
        pLookup tgt p' = some (FW.mulLetter w gen))
  | [], R, R', e, p, e', p', hw, hk, h => by
    simp only [walk, Option.some.injEq] at hw
    simp only [treeFold, Outcome.ok.injEq, Prod.mk.injEq] at h
    rw [← hw, ← h.2]
    exact ⟨hk, fun _ _ h => h, by simp⟩
  | (pt, gen) :: es, R, R', e, p, e', p', hw, hk, h => by
    simp only [walk] at hw
    cases hent : entry t n pt gen with
    | none => simp [hent] at hw
    | some tgt =>
      simp only [hent] at hw
      by_cases hc : pt ∈ R ∧ tgt ∉ R
      · rw [if_pos hc] at hw
        simp only [treeFold] at h
        cases hcl : closeRelations (Table.ofView n t) rbg e (pt, gen) FW.empty with
        | err => simp [hcl] at h
        | panic => simp [hcl] at h
        | ok e1 =>
          simp only [hcl, get_ofView hent] at h
          cases hl : pLookup pt p with
          | none => simp [hl] at h
          | some w =>
            simp only [hl] at h
            have hk1 : PKeys (pInsert tgt (FW.mulLetter w gen) p) (tgt :: R) := by
              intro k
              rw [pLookup_pInsert]
              by_cases e : tgt = k
              · simp [e]
              · simp only [e, if_false, List.mem_cons]
                rw [hk k]
                constructor
                · exact Or.inr
                · rintro (h | h)
                  · exact absurd h.symm e
                  · exact h
            obtain ⟨g1, g2, g3⟩ := treeFold_p2w hcomp es (tgt :: R) R' e1 _ e' p' hw hk1 h
            have hpt : pt ≠ tgt := fun e => hc.2 (e ▸ hc.1)
            refine ⟨g1, ?_, ?_⟩
            · intro k w' hkw
              apply g2
              rw [pLookup_pInsert]
              have : ¬ tgt = k := by
                intro e; subst e
                exact hc.2 ((hk _).mp (by simp [hkw]))
              simp only [this, if_false]; exact hkw
            · intro pt' gen' hm
              rcases List.mem_cons.mp hm with hm | hm
              · injection hm with h1 h2
                subst h1 h2
                refine ⟨tgt, w, hent, ?_, ?_⟩
                · apply g2
                  rw [pLookup_pInsert]
                  have : ¬ tgt = pt' := fun e => hpt e.symm
                  simp only [this, if_false]; exact hl
                · apply g2
                  rw [pLookup_pInsert]
                  simp
              · exact g3 pt' gen' hm
      · rw [if_neg hc] at hw; cases hw

variable {u : Nat → List Int} {gens : List (List Int)}

theorem closeRelations_inv (hcomp : complete t n = true) (hinv : InvConsistent t n) {rbg : RelMap}
    (hrbg : RbgOk t n rels rbg) {e e' : EMap} (he : EInv t n rels u gens e) {p : Nat} {g : Int} {w : List Int}
    {d : Nat} (hent : entry t n p g = some d) (hw : psi n rels gens w = sch n rels u t p g)
    (h : closeRelations (Table.ofView n t) rbg e (p, g) w = .ok e') :
    EInv t n rels u gens e' ∧ (∀ c g', Known e c g' → Known e' c g') ∧ Known e' p g := by
  unfold closeRelations at h
  obtain ⟨h1, h2, h3⟩ := closeLoop_inv hcomp hinv hrbg _ [(p, g, w)] e e' he
    (by intro x hx; simp only [List.mem_singleton] at hx; subst hx; exact ⟨d, hent, hw⟩) h
  exact ⟨h1, h2, h3 (p, g, w) (by simp)⟩

theorem treeFold_einv (hcomp : complete t n = true) (hinv : InvConsistent t n) {rbg : RelMap}
    (hrbg : RbgOk t n rels rbg) :
    ∀ (es : List (Nat × Int)) (e : EMap) (p : PMap) (e' : EMap) (p' : PMap),
      (∀ pt gen, (pt, gen) ∈ es → ∃ tgt, entry t n pt gen = some tgt ∧ sch n rels u t pt gen = 1) →
      EInv t n rels u gens e → treeFold (Table.ofView n t) rbg es e p = .ok (e', p') →
      EInv t n rels u gens e' ∧ (∀ c g, Known e c g → Known e' c g)
  | [], e, p, e', p', _, he, h => by
    simp only [treeFold, Outcome.ok.injEq, Prod.mk.injEq] at h
    rw [← h.1]; exact ⟨he, fun _ _ h => h⟩
  | (pt, gen) :: es, e, p, e', p', htree, he, h => by
    obtain ⟨tgt, hent, hone⟩ := htree pt gen (by simp)
    simp only [treeFold] at h
    cases hcl : closeRelations (Table.ofView n t) rbg e (pt, gen) FW.empty with
    | err => simp [hcl] at h
    | panic => simp [hcl] at h
    | ok e1 =>
      simp only [hcl, get_ofView hent] at h
      cases hl : pLookup pt p with
      | none => simp [hl] at h
      | some w =>
        simp only [hl] at h
        obtain ⟨h1, h2, _⟩ := closeRelations_inv hcomp hinv hrbg he hent (by rw [psi_empty, hone]) hcl
        obtain ⟨g1, g2⟩ := treeFold_einv hcomp hinv hrbg es e1 _ e' p'
          (fun pt' gen' hm => htree pt' gen' (by simp [hm])) h1 h
        exact ⟨g1, fun c g hk => g2 c g (h2 c g hk)⟩

end TreeFold

/-! ### the generator loop of `stabilizer` -/

section GenFold
variable {t : Tab} {n : Nat} {rels : List (List Int)} {u : Nat → List Int}

theorem genFold_prefix {ct : Table} {rbg : RelMap} {p2w : PMap} :
    ∀ (ps : List (Nat × Int)) (e : EMap) (gs : List (List Int)) (e' : EMap) (gs' : List (List Int)),
      genFold ct rbg p2w ps e gs = .ok (e', gs') → ∃ rest, gs' = gs ++ rest
  | [], e, gs, e', gs', h => by
    simp only [genFold, Outcome.ok.injEq, Prod.mk.injEq] at h
    exact ⟨[], by simp [h.2]⟩
  | (px, g) :: r, e, gs, e', gs', h => by
    simp only [genFold] at h
    cases hk : e.get px g with
    | some _ => simp only [hk] at h; exact genFold_prefix r e gs e' gs' h
    | none =>
      simp only [hk] at h
      cases hx : pLookup px p2w with
      | none => simp [hx] at h
      | some wx =>
        simp only [hx] at h
        cases hg : ct.get px g with
        | err => simp [hg] at h
        | panic => simp [hg] at h
        | ok o =>
          cases o with
          | none => simp [hg] at h
          | some py =>
            simp only [hg] at h
            cases hy : pLookup py p2w with
            | none => simp [hy] at h
            | some wy =>
              simp only [hy] at h
              generalize hc : closeRelations ct rbg e (px, g) _ = cr at h
              cases cr with
              | err => simp at h
              | panic => simp at h
              | ok e1 =>
                simp only at h
                obtain ⟨rest, hr⟩ := genFold_prefix r e1 _ e' gs' h
                exact ⟨schreierGen wx g wy :: rest, by rw [hr]; simp⟩

theorem psi_letter (gens : List (List Int)) (k : Nat) (hk : 0 < k) :
    psi n rels gens (FW.new [(k : Int)]) = mkG n rels (gens.getD (k - 1) []) := by
  unfold psi
  rw [liftDen_new, liftDen_pos _ k hk]

theorem mkG_schreierGen (wx wy : List Int) (g : Int) :
    mkG n rels (schreierGen wx g wy) = mkG n rels wx * mkG n rels [g] * (mkG n rels wy)⁻¹ := by
  unfold schreierGen
  rw [mkG_mul, mkG_mulLetter, mkG_inverse]

theorem genFold_einv (hcomp : complete t n = true) (hinv : InvConsistent t n) {rbg : RelMap}
    (hrbg : RbgOk t n rels rbg) {p2w : PMap} (hu : ∀ x w, pLookup x p2w = some w → u x = w)
    {G : List (List Int)} :
    ∀ (ps : List (Nat × Int)) (e : EMap) (gs : List (List Int)) (e' : EMap),
      (∀ px g, (px, g) ∈ ps → ∃ d, entry t n px g = some d) →
      EInv t n rels u G e → genFold (Table.ofView n t) rbg p2w ps e gs = .ok (e', G) →
      EInv t n rels u G e' ∧ (∀ c g, Known e c g → Known e' c g) ∧
        (∀ px g, (px, g) ∈ ps → Known e' px g)
  | [], e, gs, e', _, he, h => by
    simp only [genFold, Outcome.ok.injEq, Prod.mk.injEq] at h
    rw [← h.1]; exact ⟨he, fun _ _ h => h, by simp⟩
  | (px, g) :: r, e, gs, e', hps, he, h => by
    obtain ⟨d, hent⟩ := hps px g (by simp)
    have hps' : ∀ px' g', (px', g') ∈ r → ∃ d, entry t n px' g' = some d :=
      fun px' g' hm => hps px' g' (by simp [hm])
    simp only [genFold] at h
    cases hk : e.get px g with
    | some W =>
      simp only [hk] at h
      obtain ⟨h1, h2, h3⟩ := genFold_einv hcomp hinv hrbg hu r e gs e' hps' he h
      refine ⟨h1, h2, ?_⟩
      intro px' g' hm
      rcases List.mem_cons.mp hm with hm | hm
      · injection hm with e1 e2
        subst e1 e2
        exact h2 _ _ (by unfold Known; simp [hk])
      · exact h3 px' g' hm
    | none =>
      simp only [hk] at h
      cases hx : pLookup px p2w with
      | none => simp [hx] at h
      | some wx =>
        simp only [hx, get_ofView hent] at h
        cases hy : pLookup d p2w with
        | none => simp [hy] at h
        | some wy =>
          simp only [hy] at h
          generalize hc : closeRelations (Table.ofView n t) rbg e (px, g) _ = cr at h
          cases cr with
          | err => simp at h
          | panic => simp at h
          | ok e1 =>
            simp only at h
            obtain ⟨rest, hrest⟩ := genFold_prefix r e1 _ e' G h
            have hword : psi n rels G (FW.new [((gs ++ [schreierGen wx g wy]).length : Int)]) =
                sch n rels u t px g := by
              rw [psi_letter G _ (by simp)]
              have : G.getD ((gs ++ [schreierGen wx g wy]).length - 1) [] = schreierGen wx g wy := by
                rw [hrest]
                simp
              rw [this, mkG_schreierGen]
              simp only [sch, hent, hu px wx hx, hu d wy hy]
            obtain ⟨g1, g2, g3⟩ := closeRelations_inv hcomp hinv hrbg he hent hword hc
            obtain ⟨h1, h2, h3⟩ := genFold_einv hcomp hinv hrbg hu r e1 _ e' hps' g1 h
            refine ⟨h1, fun c g' hk' => h2 c g' (g2 c g' hk'), ?_⟩
            intro px' g' hm
            rcases List.mem_cons.mp hm with hm | hm
            · injection hm with e1' e2'
              subst e1' e2'
              exact h2 _ _ g3
            · exact h3 px' g' hm

end GenFold

/-! ### all edges get words; Schreier's lemma -/

section Assembly
variable {t : Tab} {n : Nat} {rels : List (List Int)}

theorem mem_genLetters {n : Nat} {g : Int} : g ∈ genLetters n ↔ g ∈ letters n := by
  rw [mem_letters]
  unfold genLetters
  simp only [List.mem_flatMap, List.mem_range'_1, List.mem_cons, List.not_mem_nil, or_false]
  constructor
  · rintro ⟨i, hi, rfl | rfl⟩
    · left; omega
    · right; omega
  · rintro (h | h)
    · exact ⟨g.toNat, by omega, Or.inl (by omega)⟩
    · exact ⟨(-g).toNat, by omega, Or.inr (by omega)⟩

theorem mem_genPairs {px : Nat} {g : Int} :
    (px, g) ∈ genPairs (Table.ofView n t) ↔ px < t.size ∧ g ∈ letters n := by
  unfold genPairs
  have hlen : (Table.ofView n t).len = t.size := by simp [Table.len, Table.ofView]
  have hn : (Table.ofView n t).nrGens = n := rfl
  simp only [List.mem_flatMap, List.mem_range, List.mem_map, Prod.mk.injEq, hlen, hn]
  constructor
  · rintro ⟨a, ha, g', hg', rfl, rfl⟩
    exact ⟨ha, mem_genLetters.mp hg'⟩
  · rintro ⟨h1, h2⟩
    exact ⟨px, h1, g, mem_genLetters.mpr h2, rfl, rfl⟩

/-- what the run of `stabilizer` establishes about `edge_to_word` -/
theorem stabilizer_edges (hcomp : complete t n = true) {subs : List (List Int)} (hv : Valid t n rels subs)
    {base : Nat} (hb : base < t.size) {gens srels : List (List Int)}
    (h : stabilizer base rels (Table.ofView n t) = .ok (gens, srels)) :
    ∃ (u : Nat → List Int) (e2 : EMap), u base = [] ∧ EInv t n rels u gens e2 ∧
      (∀ c, c < t.size → ∀ g ∈ letters n, Known e2 c g) ∧
      ∃ subrels, subrelFold (Table.ofView n t) e2 (subrelPairs (Table.ofView n t) rels) [] = .ok subrels ∧
        srels = sortDescending subrels := by
  have hinv : InvConsistent t n := hv.inv
  have hl : ∀ rel ∈ rels, ∀ g ∈ rel, g ∈ letters n :=
    fun rel hrel => trace_letters (hv.rel rel hrel 0 hv.pos)
  unfold stabilizer at h
  cases h1 : relatorsByStartGen rels with
  | err => simp [h1] at h
  | panic => simp [h1] at h
  | ok rbg =>
    simp only [h1] at h
    have hrbg := rbgOk_of_start hv hl h1
    obtain ⟨edges, R, hsp, hwalk, hbR, hRlt, hRcl⟩ := spanningTree_spec hcomp hb
    simp only [hsp] at h
    cases h3 : treeFold (Table.ofView n t) rbg edges (EMap.new (Table.ofView n t).nrGens) [(base, FW.empty)] with
    | err => simp [h3] at h
    | panic => simp [h3] at h
    | ok ep =>
      obtain ⟨e1, p2w⟩ := ep
      simp only [h3] at h
      cases h4 : genFold (Table.ofView n t) rbg p2w (genPairs (Table.ofView n t)) e1 [] with
      | err => simp [h4] at h
      | panic => simp [h4] at h
      | ok eg =>
        obtain ⟨e2, gens'⟩ := eg
        simp only [h4] at h
        cases h5 : subrelFold (Table.ofView n t) e2 (subrelPairs (Table.ofView n t) rels) [] with
        | err => simp [h5] at h
        | panic => simp [h5] at h
        | ok sub =>
          simp only [h5, Outcome.ok.injEq, Prod.mk.injEq] at h
          obtain ⟨rfl, hsr⟩ := h
          -- the point words
          have hk0 : PKeys [(base, FW.empty)] [base] := by
            intro k
            simp only [pLookup, List.mem_singleton]
            by_cases e : base = k
            · simp [e]
            · simp only [e, if_false]
              constructor
              · intro hh; cases hh
              · intro hh; exact absurd hh.symm e
          obtain ⟨hkeys, hmono, hedge⟩ := treeFold_p2w hcomp edges [base] R _ _ e1 p2w hwalk hk0 h3
          refine ⟨fun x => (pLookup x p2w).getD [], e2, ?_, ?_⟩
          · have := hmono base FW.empty (by simp [pLookup])
            simp [this, empty_eq]
          · have hu : ∀ x w, pLookup x p2w = some w → (fun x => (pLookup x p2w).getD []) x = w := by
              intro x w hx; simp [hx]
            have htree : ∀ pt gen, (pt, gen) ∈ edges → ∃ tgt, entry t n pt gen = some tgt ∧
                sch n rels (fun x => (pLookup x p2w).getD []) t pt gen = 1 := by
              intro pt gen hm
              obtain ⟨tgt, w, hent, hw1, hw2⟩ := hedge pt gen hm
              refine ⟨tgt, hent, ?_⟩
              simp only [sch, hent, hw1, hw2, Option.getD_some, mkG_mulLetter]
              simp [mul_assoc]
            have he0 : EInv t n rels (fun x => (pLookup x p2w).getD []) gens'
                (EMap.new (Table.ofView n t).nrGens) :=
              ⟨rfl, fun c g d W _ hW => by rw [EMap.get_new] at hW; cases hW⟩
            obtain ⟨he1, _⟩ := treeFold_einv hcomp hinv hrbg edges _ _ e1 p2w htree he0 h3
            obtain ⟨he2, _, hknown⟩ := genFold_einv hcomp hinv hrbg hu
              (genPairs (Table.ofView n t)) e1 [] e2
              (fun px g hm => complete_spec hcomp (mem_genPairs.mp hm).1 (mem_genPairs.mp hm).2) he1 h4
            exact ⟨he2, fun c hc g hg => hknown c g (mem_genPairs.mpr ⟨hc, hg⟩), sub, h5, hsr.symm⟩

theorem onPath_all {P : Nat → Int → Prop} (hP : ∀ c, c < t.size → ∀ g ∈ letters n, P c g) :
    ∀ (w : List Int) (c : Nat), OnPath t n P c w
  | [], _ => trivial
  | g :: w, c => by
    simp only [OnPath]
    cases hent : entry t n c g with
    | none => trivial
    | some d =>
      simp only
      exact ⟨hP c (entry_some hent).2.1 g (entry_some hent).2.2, onPath_all hP w d⟩

/-- the subgroup generated by the returned generator words -/
def genSubgroup (n : Nat) (rels gens : List (List Int)) : Subgroup (GP n rels) :=
  Subgroup.closure {x | ∃ w ∈ gens, x = mkG n rels w}

theorem psi_mem (gens : List (List Int)) (W : List Int) : psi n rels gens W ∈ genSubgroup n rels gens := by
  unfold psi liftDen
  have : (FreeGroup.lift fun k => mkG n rels (gens.getD (k - 1) [])).range ≤ genSubgroup n rels gens := by
    rw [FreeGroup.range_lift_eq_closure, Subgroup.closure_le]
    rintro x ⟨k, rfl⟩
    by_cases hk : k - 1 < gens.length
    · apply Subgroup.subset_closure
      exact ⟨gens[k - 1], List.getElem_mem hk, by simp [List.getD, hk]⟩
    · have : gens.getD (k - 1) [] = [] := by
        rw [List.getD_eq_getElem?_getD, List.getElem?_eq_none (by omega)]; rfl
      simp only [this, mkG_nil]
      exact Subgroup.one_mem _
  exact this ⟨_, rfl⟩

theorem vol_sigE_mem (gens : List (List Int)) (e2w : EMap) : ∀ (w : List Int) (c : Nat),
    vol t n (sigE n rels gens e2w) c w ∈ genSubgroup n rels gens
  | [], _ => Subgroup.one_mem _
  | g :: w, c => by
    simp only [vol]
    cases entry t n c g with
    | none => exact Subgroup.one_mem _
    | some d =>
      simp only
      apply Subgroup.mul_mem _ _ (vol_sigE_mem gens e2w w d)
      unfold sigE
      cases e2w.get c g with
      | none => exact Subgroup.one_mem _
      | some W => exact psi_mem gens W

/-- Schreier's lemma for the output of `stabilizer`: every word fixing the base row lies, as an
    element of `⟨1..n | rels⟩`, in the subgroup generated by the returned generators -/
theorem fixing_word_mem (hcomp : complete t n = true) {subs : List (List Int)} (hv : Valid t n rels subs)
    {base : Nat} (hb : base < t.size) {gens srels : List (List Int)}
    (h : stabilizer base rels (Table.ofView n t) = .ok (gens, srels)) {v : List Int}
    (hvb : traceWord t n base v = some base) : mkG n rels v ∈ genSubgroup n rels gens := by
  obtain ⟨u, e2, hub, he2, hknown, _⟩ := stabilizer_edges hcomp hv hb h
  have h1 := vol_sch n rels u v base base hvb
  rw [hub, mkG_nil, one_mul, inv_one, mul_one] at h1
  rw [← h1, ← vol_known he2 v base (onPath_all hknown v base)]
  exact vol_sigE_mem gens e2 v base

end Assembly

end DSymVerif.StabP
