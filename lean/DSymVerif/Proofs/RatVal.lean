/-
The rational model `Q` (reduced pairs) means Mathlib's `ℚ`: `valQ q = num / den`;
on well-formed values (`den > 0`) the operations are the field operations.
-/
import Mathlib.Data.Rat.Defs
import Mathlib.Tactic.FieldSimp
import Mathlib.Tactic.Linarith
import Mathlib.Tactic.Ring
import DSymVerif.Proofs.RatRec

namespace DSymVerif.LA

open DSymVerif

/-- value of a model rational -/
def valQ (q : Q) : ℚ := (q.num : ℚ) / (q.den : ℚ)

/-- well-formed: positive denominator -/
def QWF (q : Q) : Prop := 0 < q.den

theorem Q.norm_wf (n : Int) (d : Nat) (hd : 0 < d) : QWF (Q.norm n d) := by
  unfold Q.norm QWF
  have hg : Nat.gcd n.natAbs d ≠ 0 := by
    intro h; have := Nat.gcd_eq_zero_iff.1 h; omega
  simp only [hg, if_false]
  exact Nat.div_pos (Nat.le_of_dvd hd (Nat.gcd_dvd_right _ _)) (Nat.pos_of_ne_zero hg)

theorem Q.norm_val (n : Int) (d : Nat) (hd : 0 < d) : valQ (Q.norm n d) = (n : ℚ) / (d : ℚ) := by
  have h := Q.norm_value n d hd
  have hw := Q.norm_wf n d hd
  unfold valQ
  unfold QWF at hw
  have hd' : (d : ℚ) ≠ 0 := by exact_mod_cast (Nat.pos_iff_ne_zero.1 hd)
  have hw' : ((Q.norm n d).den : ℚ) ≠ 0 := by exact_mod_cast (Nat.pos_iff_ne_zero.1 hw)
  rw [div_eq_div_iff hw' hd']
  exact_mod_cast h

theorem valQ_add {a b : Q} (ha : QWF a) (hb : QWF b) :
    QWF (Q.add a b) ∧ valQ (Q.add a b) = valQ a + valQ b := by
  unfold QWF at ha hb
  have hd : 0 < a.den * b.den := Nat.mul_pos ha hb
  refine ⟨Q.norm_wf _ _ hd, ?_⟩
  unfold Q.add
  rw [Q.norm_val _ _ hd]
  unfold valQ
  have ha' : (a.den : ℚ) ≠ 0 := by exact_mod_cast (Nat.pos_iff_ne_zero.1 ha)
  have hb' : (b.den : ℚ) ≠ 0 := by exact_mod_cast (Nat.pos_iff_ne_zero.1 hb)
  push_cast
  field_simp

theorem valQ_sub {a b : Q} (ha : QWF a) (hb : QWF b) :
    QWF (Q.sub a b) ∧ valQ (Q.sub a b) = valQ a - valQ b := by
  unfold QWF at ha hb
  have hd : 0 < a.den * b.den := Nat.mul_pos ha hb
  refine ⟨Q.norm_wf _ _ hd, ?_⟩
  unfold Q.sub
  rw [Q.norm_val _ _ hd]
  unfold valQ
  have ha' : (a.den : ℚ) ≠ 0 := by exact_mod_cast (Nat.pos_iff_ne_zero.1 ha)
  have hb' : (b.den : ℚ) ≠ 0 := by exact_mod_cast (Nat.pos_iff_ne_zero.1 hb)
  push_cast
  field_simp

theorem valQ_mul {a b : Q} (ha : QWF a) (hb : QWF b) :
    QWF (Q.mul a b) ∧ valQ (Q.mul a b) = valQ a * valQ b := by
  unfold QWF at ha hb
  have hd : 0 < a.den * b.den := Nat.mul_pos ha hb
  refine ⟨Q.norm_wf _ _ hd, ?_⟩
  unfold Q.mul
  rw [Q.norm_val _ _ hd]
  unfold valQ
  have ha' : (a.den : ℚ) ≠ 0 := by exact_mod_cast (Nat.pos_iff_ne_zero.1 ha)
  have hb' : (b.den : ℚ) ≠ 0 := by exact_mod_cast (Nat.pos_iff_ne_zero.1 hb)
  push_cast
  field_simp

theorem valQ_neg {a : Q} (ha : QWF a) : QWF (Q.neg a) ∧ valQ (Q.neg a) = -valQ a := by
  refine ⟨ha, ?_⟩
  unfold Q.neg valQ
  push_cast
  ring

theorem valQ_zero : valQ Q.zero = 0 := by simp [valQ, Q.zero]
theorem valQ_one : valQ Q.one = 1 := by simp [valQ, Q.one]
theorem QWF_zero : QWF Q.zero := by simp [QWF, Q.zero]
theorem QWF_one : QWF Q.one := by simp [QWF, Q.one]

theorem valQ_eq_zero {a : Q} (ha : QWF a) : valQ a = 0 ↔ a.num = 0 := by
  unfold QWF at ha
  unfold valQ
  have ha' : (a.den : ℚ) ≠ 0 := by exact_mod_cast (Nat.pos_iff_ne_zero.1 ha)
  rw [div_eq_zero_iff]
  constructor
  · rintro (h | h)
    · exact_mod_cast h
    · exact absurd h ha'
  · intro h; left; exact_mod_cast h

theorem valQ_isZero {a : Q} (ha : QWF a) : (a.isZero = true ↔ valQ a = 0) := by
  rw [valQ_eq_zero ha]
  simp [Q.isZero]

theorem valQ_div {a b c : Q} (ha : QWF a) (hb : QWF b) (hb0 : valQ b ≠ 0)
    (h : Q.div a b = .ok c) : QWF c ∧ valQ c * valQ b = valQ a := by
  have hbn : b.num ≠ 0 := fun e => hb0 ((valQ_eq_zero hb).2 e)
  unfold QWF at ha hb
  have ha' : (a.den : ℚ) ≠ 0 := by exact_mod_cast (Nat.pos_iff_ne_zero.1 ha)
  have hb' : (b.den : ℚ) ≠ 0 := by exact_mod_cast (Nat.pos_iff_ne_zero.1 hb)
  have hbn' : (b.num : ℚ) ≠ 0 := by exact_mod_cast hbn
  unfold Q.div at h
  simp only [hbn, if_false] at h
  have hdne : (a.den : Int) * b.num ≠ 0 := mul_ne_zero (by exact_mod_cast (Nat.pos_iff_ne_zero.1 ha)) hbn
  split at h
  · rename_i hneg
    cases h
    have hpos : 0 < (-((a.den : Int) * b.num)).toNat := by omega
    refine ⟨Q.norm_wf _ _ hpos, ?_⟩
    rw [Q.norm_val _ _ hpos]
    have e : (((-((a.den : Int) * b.num)).toNat : Nat) : ℚ) = -((a.den : ℚ) * (b.num : ℚ)) := by
      have : (((-((a.den : Int) * b.num)).toNat : Nat) : Int) = -((a.den : Int) * b.num) :=
        Int.toNat_of_nonneg (by omega)
      exact_mod_cast this
    rw [e]
    unfold valQ
    push_cast
    field_simp
  · rename_i hneg
    cases h
    have hpos : 0 < ((a.den : Int) * b.num).toNat := by omega
    refine ⟨Q.norm_wf _ _ hpos, ?_⟩
    rw [Q.norm_val _ _ hpos]
    have e : ((((a.den : Int) * b.num).toNat : Nat) : ℚ) = (a.den : ℚ) * (b.num : ℚ) := by
      have : ((((a.den : Int) * b.num).toNat : Nat) : Int) = (a.den : Int) * b.num :=
        Int.toNat_of_nonneg (by omega)
      exact_mod_cast this
    rw [e]
    unfold valQ
    push_cast
    field_simp

theorem valQ_ofInt (n : Int) : QWF (Q.ofInt n) ∧ valQ (Q.ofInt n) = (n : ℚ) := by
  simp [QWF, Q.ofInt, valQ]

end DSymVerif.LA
