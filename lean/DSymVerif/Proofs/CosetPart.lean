/-
Union-find specification for the `Part` model of `IntPartition` used by the coset table
(Model/Cosets.lean): under the forest invariant `WFP` the root walk `find` reaches a root
within the fuel, is idempotent, and `unite` redirects exactly the two classes to one of the
two old roots.  (Same invariant as Props/C20 `WF`, plus "every rank is below the fuel";
this model does not compress paths, which C20 proves unobservable.)
-/
import Mathlib.Data.List.Basic
import DSymVerif.Model.Cosets

namespace DSymVerif.CosetPartP
open DSymVerif DSymVerif.Cosets

def par (p : Part) (x : Nat) : Nat := p.parent.getD x x
def rk (p : Part) (x : Nat) : Nat := p.rank.getD x 0

theorem par_ge {p : Part} {x : Nat} (h : p.parent.size ≤ x) : par p x = x := by
  have : ¬ x < p.parent.size := by omega
  simp [par, Array.getD, this]

structure WFP (p : Part) : Prop where
  size_eq : p.rank.size = p.parent.size
  inRange : ∀ x, x < p.parent.size → par p x < p.parent.size
  rankInc : ∀ x, par p x ≠ x → rk p x < rk p (par p x)
  rankLt : ∀ x, rk p x < p.fuel

theorem wfp_new : WFP Part.new :=
  ⟨rfl, fun x hx => absurd hx (by simp [Part.new]),
    fun x h => absurd (par_ge (by simp [Part.new])) h, fun x => by simp [rk, Part.new]⟩

theorem rootFuel_congr {p q : Array Nat} (h : ∀ x, p.getD x x = q.getD x x) :
    ∀ f x, rootFuel p f x = rootFuel q f x
  | 0, _ => rfl
  | f + 1, x => by
    simp only [rootFuel, h x]
    split
    · rfl
    · exact rootFuel_congr h f _

theorem rootFuel_ok {p : Part} (wf : WFP p) : ∀ f x, p.fuel - rk p x ≤ f →
    par p (rootFuel p.parent f x) = rootFuel p.parent f x ∧
      rootFuel p.parent (f + 1) x = rootFuel p.parent f x
  | 0, x, h => by have := wf.rankLt x; omega
  | f + 1, x, h => by
    by_cases hx : par p x = x
    · have h1 : ∀ k, rootFuel p.parent (k + 1) x = x := by
        intro k
        simp only [rootFuel]
        have : p.parent.getD x x = x := hx
        simp [this]
      rw [h1 f, h1 (f + 1)]
      exact ⟨hx, rfl⟩
    · have hlt := wf.rankInc x hx
      have hf := wf.rankLt (par p x)
      have h1 : ∀ k, rootFuel p.parent (k + 1) x = rootFuel p.parent k (par p x) := by
        intro k
        simp only [rootFuel]
        have : ¬ p.parent.getD x x = x := hx
        simp only [this, if_false]
        rfl
      obtain ⟨a, b⟩ := rootFuel_ok wf f (par p x) (by omega)
      rw [h1 f, h1 (f + 1), b]
      exact ⟨a, rfl⟩

theorem fuel_pos {p : Part} (wf : WFP p) : 0 < p.fuel := by have := wf.rankLt 0; omega

theorem find_isRoot {p : Part} (wf : WFP p) (x : Nat) : par p (p.find x) = p.find x :=
  (rootFuel_ok wf p.fuel x (by omega)).1

theorem find_of_root {p : Part} (wf : WFP p) {x : Nat} (h : par p x = x) : p.find x = x := by
  unfold Part.find
  obtain ⟨f, hf⟩ : ∃ f, p.fuel = f + 1 := ⟨p.fuel - 1, by have := fuel_pos wf; omega⟩
  rw [hf]
  simp only [rootFuel]
  have : p.parent.getD x x = x := h
  simp [this]

theorem find_step {p : Part} (wf : WFP p) {x : Nat} (h : par p x ≠ x) : p.find x = p.find (par p x) := by
  unfold Part.find
  obtain ⟨f, hf⟩ : ∃ f, p.fuel = f + 1 := ⟨p.fuel - 1, by have := fuel_pos wf; omega⟩
  rw [hf]
  have hlt := wf.rankInc x h
  have hb := wf.rankLt (par p x)
  rw [(rootFuel_ok wf f (par p x) (by omega)).2]
  simp only [rootFuel]
  have : ¬ p.parent.getD x x = x := h
  simp only [this, if_false]
  rfl

theorem find_idem {p : Part} (wf : WFP p) (x : Nat) : p.find (p.find x) = p.find x :=
  find_of_root wf (find_isRoot wf x)

/-- induction along parent chains -/
theorem chain_induction {p : Part} (wf : WFP p) {C : Nat → Prop}
    (hroot : ∀ x, par p x = x → C x) (hstep : ∀ x, par p x ≠ x → C (par p x) → C x) : ∀ x, C x := by
  have key : ∀ n x, p.fuel - rk p x ≤ n → C x := by
    intro n
    induction n with
    | zero => intro x h; have := wf.rankLt x; omega
    | succ n ih =>
      intro x h
      by_cases hx : par p x = x
      · exact hroot x hx
      · have hlt := wf.rankInc x hx
        have hb := wf.rankLt (par p x)
        exact hstep x hx (ih (par p x) (by omega))
  intro x
  exact key _ x (Nat.le_refl _)

theorem find_lt {p : Part} (wf : WFP p) : ∀ x, x < p.parent.size → p.find x < p.parent.size := by
  apply chain_induction wf (C := fun x => x < p.parent.size → p.find x < p.parent.size)
  · intro x hx h; rw [find_of_root wf hx]; exact h
  · intro x hx ih h
    rw [find_step wf hx]
    exact ih (wf.inRange x h)

theorem find_ge {p : Part} (wf : WFP p) {x : Nat} (h : p.parent.size ≤ x) : p.find x = x :=
  find_of_root wf (par_ge h)

/-! ### growing -/

theorem par_grow (p : Part) (a x : Nat) : par (p.grow a) x = par p x := by
  unfold par Part.grow
  simp only [Array.getD_eq_getD_getElem?, Array.getElem?_append]
  by_cases hx : x < p.parent.size
  · simp [hx]
  · simp only [hx, if_false]
    have h0 : p.parent[x]? = none := by simp; omega
    rw [h0]
    simp only [List.toArray_range', Array.getElem?_range']
    by_cases h2 : x - p.parent.size < a + 1 - p.parent.size
    · simp only [h2, if_true, Option.getD_some, Option.getD_none]
      omega
    · simp [h2]

theorem rk_grow (p : Part) (wfs : p.rank.size = p.parent.size) (a x : Nat) : rk (p.grow a) x = rk p x := by
  unfold rk Part.grow
  simp only [Array.getD_eq_getD_getElem?, Array.getElem?_append, wfs]
  by_cases hx : x < p.parent.size
  · simp [hx]
  · simp only [hx, if_false]
    have h0 : p.rank[x]? = none := by simp; omega
    rw [h0, Array.getElem?_replicate]
    split <;> simp

theorem size_grow (p : Part) (a : Nat) : (p.grow a).parent.size = max p.parent.size (a + 1) := by
  simp [Part.grow]; omega

theorem wfp_grow {p : Part} (wf : WFP p) (a : Nat) : WFP (p.grow a) := by
  refine ⟨?_, ?_, ?_, ?_⟩
  · simp [Part.grow, wf.size_eq]
  · intro x hx
    rw [par_grow]
    by_cases h : x < p.parent.size
    · have := wf.inRange x h
      rw [size_grow]; omega
    · rw [par_ge (by omega)]; exact hx
  · intro x hx
    rw [par_grow] at hx ⊢
    rw [rk_grow p wf.size_eq, rk_grow p wf.size_eq]
    exact wf.rankInc x hx
  · intro x
    rw [rk_grow p wf.size_eq]
    exact wf.rankLt x

theorem find_grow (p : Part) (a x : Nat) : (p.grow a).find x = p.find x := by
  unfold Part.find
  have : (p.grow a).fuel = p.fuel := rfl
  rw [this]
  exact rootFuel_congr (fun y => par_grow p a y) _ _


/-! ### linking two roots -/

theorem getD_setIfInBounds {α : Type} (ws : Array α) (d e : Nat) (v dflt : α) :
    (ws.setIfInBounds d v).getD e dflt = if d = e ∧ d < ws.size then v else ws.getD e dflt := by
  simp only [Array.getD_eq_getD_getElem?, Array.getElem?_setIfInBounds]
  by_cases h : d = e
  · subst h
    by_cases h2 : d < ws.size
    · simp [h2]
    · simp [h2]
  · simp [h]

/-- redirecting the root `x` to the root `y` of larger-or-equal adjusted rank -/
theorem link_spec {p q : Part} (wf : WFP p) {x y : Nat} (hx : par p x = x) (hy : par p y = y)
    (hne : x ≠ y) (hxs : x < p.parent.size)
    (hpar : ∀ z, par q z = if z = x then y else par p z)
    (hsz : q.parent.size = p.parent.size) (hrs : q.rank.size = p.rank.size)
    (hrk : ∀ z, z ≠ y → rk q z = rk p z) (hrky : rk p y ≤ rk q y) (hxy : rk p x < rk q y)
    (hfuel : ∀ z, rk q z < q.fuel) (hys : y < p.parent.size) :
    WFP q ∧ ∀ z, q.find z = if p.find z = x then y else p.find z := by
  have wfq : WFP q := by
    refine ⟨by rw [hrs, hsz, wf.size_eq], ?_, ?_, hfuel⟩
    · intro z hz
      rw [hpar, hsz]
      by_cases hzx : z = x
      · simp [hzx, hys]
      · simp only [hzx, if_false]
        exact wf.inRange z (by rw [← hsz]; exact hz)
    · intro z hz
      rw [hpar] at hz ⊢
      by_cases hzx : z = x
      · subst hzx
        simp only [if_true]
        rw [hrk z hne]
        exact hxy
      · simp only [hzx, if_false] at hz ⊢
        have h1 := wf.rankInc z hz
        have hzy : z ≠ y := fun e => hz (e ▸ hy)
        rw [hrk z hzy]
        by_cases hpy : par p z = y
        · rw [hpy] at h1 ⊢; omega
        · rw [hrk _ hpy]; exact h1
  refine ⟨wfq, ?_⟩
  have hqy : par q y = y := by rw [hpar]; simp [Ne.symm hne, hy]
  apply chain_induction wf (C := fun z => q.find z = if p.find z = x then y else p.find z)
  · intro z hz
    rw [find_of_root wf hz]
    by_cases hzx : z = x
    · subst hzx
      simp only [if_true]
      have : par q z ≠ z := by rw [hpar]; simpa using Ne.symm hne
      rw [find_step wfq this, hpar]
      simp only [if_true]
      exact find_of_root wfq hqy
    · simp only [hzx, if_false]
      apply find_of_root wfq
      rw [hpar]; simp [hzx, hz]
  · intro z hz ih
    have hzx : z ≠ x := fun e => hz (e ▸ hx)
    have : par q z = par p z := by rw [hpar]; simp [hzx]
    rw [find_step wf hz, find_step wfq (by rw [this]; exact hz), this]
    exact ih

theorem unite_spec {p : Part} (wf : WFP p) (a b : Nat) :
    WFP (p.unite a b) ∧
      (p.unite a b).parent.size = max (max p.parent.size (a + 1)) (b + 1) ∧
      ∃ w, (w = p.find a ∨ w = p.find b) ∧
        ∀ z, (p.unite a b).find z = if p.find z = p.find a ∨ p.find z = p.find b then w else p.find z := by
  have wf1 := wfp_grow wf a
  have wf2 := wfp_grow wf1 b
  have hfind : ∀ z, ((p.grow a).grow b).find z = p.find z := fun z => by rw [find_grow, find_grow]
  have hsize : ((p.grow a).grow b).parent.size = max (max p.parent.size (a + 1)) (b + 1) := by
    rw [size_grow, size_grow]
  have ha2 : a < ((p.grow a).grow b).parent.size := by rw [hsize]; omega
  have hb2 : b < ((p.grow a).grow b).parent.size := by rw [hsize]; omega
  unfold Part.unite
  simp only []
  generalize hP : (p.grow a).grow b = P at wf2 hfind hsize ha2 hb2
  by_cases hxy : P.find a = P.find b
  · simp only [hxy, if_true]
    refine ⟨wf2, hsize, P.find b, Or.inr (hfind b), ?_⟩
    intro z
    rw [hfind z, ← hfind a, ← hfind b, hxy]
    by_cases h : p.find z = P.find b
    · simp [h]
    · simp [h]
  · simp only [hxy, if_false]
    have hxr := find_isRoot wf2 a
    have hyr := find_isRoot wf2 b
    have hxs := find_lt wf2 a ha2
    have hys := find_lt wf2 b hb2
    by_cases hlt : P.rank.getD (P.find a) 0 < P.rank.getD (P.find b) 0
    · simp only [hlt, if_true]
      have key := link_spec (q := { P with parent := P.parent.setIfInBounds (P.find a) (P.find b) }) wf2
        hxr hyr hxy hxs
        (by intro z
            show (P.parent.setIfInBounds (P.find a) (P.find b)).getD z z = _
            rw [getD_setIfInBounds]
            by_cases hz : z = P.find a
            · subst hz; simp [hxs]
            · have : ¬ (P.find a = z ∧ P.find a < P.parent.size) := fun h => hz h.1.symm
              simp only [this, if_false, hz]; rfl)
        (by simp) rfl (fun z _ => rfl) (Nat.le_refl _) hlt wf2.rankLt hys
      refine ⟨key.1, by simpa using hsize, P.find b, Or.inr (hfind b), ?_⟩
      intro z
      rw [key.2 z, hfind z, ← hfind a, ← hfind b]
      by_cases h1 : p.find z = P.find a
      · simp [h1]
      · by_cases h2 : p.find z = P.find b
        · simp [h1, h2]
        · simp [h1, h2]
    · simp only [hlt, if_false]
      have hxrs : P.find a < P.rank.size := by rw [wf2.size_eq]; exact hxs
      have hparq : ∀ (R : Array Nat) (F : Nat) (z : Nat),
          par ⟨P.parent.setIfInBounds (P.find b) (P.find a), R, F⟩ z =
            if z = P.find b then P.find a else par P z := by
        intro R F z
        show (P.parent.setIfInBounds (P.find b) (P.find a)).getD z z = _
        rw [getD_setIfInBounds]
        by_cases hz : z = P.find b
        · subst hz; simp [hys]
        · have : ¬ (P.find b = z ∧ P.find b < P.parent.size) := fun h => hz h.1.symm
          simp only [this, if_false, hz]; rfl
      have fin : ∀ q : Part, WFP q → q.parent.size = P.parent.size →
          (∀ z, q.find z = if P.find z = P.find b then P.find a else P.find z) →
          WFP q ∧ q.parent.size = max (max p.parent.size (a + 1)) (b + 1) ∧
            ∃ w, (w = p.find a ∨ w = p.find b) ∧
              ∀ z, q.find z = if p.find z = p.find a ∨ p.find z = p.find b then w else p.find z := by
        intro q wq hs hf
        refine ⟨wq, by rw [hs, hsize], P.find a, Or.inl (hfind a), ?_⟩
        intro z
        rw [hf z, hfind z, ← hfind a, ← hfind b]
        by_cases h1 : p.find z = P.find b
        · simp [h1]
        · by_cases h2 : p.find z = P.find a
          · simp [h1, h2]
          · simp [h1, h2]
      by_cases heq : P.rank.getD (P.find a) 0 = P.rank.getD (P.find b) 0
      · simp only [heq, if_true]
        have key := link_spec (p := P)
          (q := ⟨P.parent.setIfInBounds (P.find b) (P.find a),
                 P.rank.setIfInBounds (P.find a) (P.rank.getD (P.find b) 0 + 1), P.fuel + 1⟩)
          wf2 hyr hxr (Ne.symm hxy) hys (hparq _ _) (by simp) (by simp)
          (by intro z hz
              show (P.rank.setIfInBounds (P.find a) _).getD z 0 = P.rank.getD z 0
              rw [getD_setIfInBounds]
              have : ¬ (P.find a = z ∧ P.find a < P.rank.size) := fun h => hz h.1.symm
              simp [this])
          (by show P.rank.getD (P.find a) 0 ≤ (P.rank.setIfInBounds (P.find a) _).getD (P.find a) 0
              rw [getD_setIfInBounds]; simp only [hxrs, and_self, if_true]; omega)
          (by show P.rank.getD (P.find b) 0 < (P.rank.setIfInBounds (P.find a) _).getD (P.find a) 0
              rw [getD_setIfInBounds]; simp only [hxrs, and_self, if_true]; omega)
          (by intro z
              show (P.rank.setIfInBounds (P.find a) _).getD z 0 < P.fuel + 1
              have hz := wf2.rankLt z
              unfold rk at hz
              rw [getD_setIfInBounds]
              by_cases hza : P.find a = z ∧ P.find a < P.rank.size
              · rw [if_pos hza]
                have := wf2.rankLt (P.find b); unfold rk at this; omega
              · rw [if_neg hza]; omega)
          hxs
        exact fin _ key.1 (by simp) key.2
      · simp only [heq, if_false]
        have key := link_spec (p := P)
          (q := ⟨P.parent.setIfInBounds (P.find b) (P.find a), P.rank, P.fuel⟩)
          wf2 hyr hxr (Ne.symm hxy) hys (hparq _ _) (by simp) rfl (fun z _ => rfl) (Nat.le_refl _)
          (by show rk P (P.find b) < rk P (P.find a)
              unfold rk; omega)
          wf2.rankLt hxs
        exact fin _ key.1 (by simp) key.2

end DSymVerif.CosetPartP
