/-
The divisibility pass on the diagonal is a unimodular equivalence of the diagonal matrices, the
diagonal left by `diagonalize_in_place` has its zeros at the end; hence the determinantal divisors
of the input matrix are the partial products of the chain the model outputs.
-/
import DSymVerif.Proofs.InvariantsDet
import DSymVerif.Proofs.InvariantsTail

namespace DSymVerif.Inv
open Matrix

/-! ### operations on `ℕ × ℕ`-indexed integer arrays -/

def rowOpN (i j : ℕ) (p q r s : ℤ) (M : ℕ → ℕ → ℤ) : ℕ → ℕ → ℤ :=
  fun k c => if k = i then p * M i c + q * M j c else if k = j then r * M i c + s * M j c else M k c

def colOpN (i j : ℕ) (p q r s : ℤ) (M : ℕ → ℕ → ℤ) : ℕ → ℕ → ℤ :=
  fun k c => if c = i then p * M k i + q * M k j else if c = j then r * M k i + s * M k j else M k c

def dN (ev : ℕ → ℤ) : ℕ → ℕ → ℤ := fun k c => if k = c then ev k else 0

/-- `diag(a, b) ↦ diag(g, (a/g)·b)` by one row and one column operation of determinant 1 -/
theorem chain_ops (i j : ℕ) (hij : i ≠ j) (ev ev' : ℕ → ℤ) (g x y r s : ℤ)
    (hA : ev i = g * x) (hB : ev j = g * y) (h1 : r * x + s * y = 1)
    (hi : ev' i = g) (hj : ev' j = x * ev j) (ho : ∀ k, k ≠ i → k ≠ j → ev' k = ev k) :
    dN ev' = colOpN i j 1 1 (-s * y) (r * x) (rowOpN i j r s (-y) x (dN ev)) := by
  have hji : j ≠ i := fun h => hij h.symm
  funext k c
  simp only [dN, rowOpN, colOpN]
  by_cases hki : k = i
  · subst hki
    by_cases hck : c = k
    · subst hck
      simp only [if_true, hji, hij, if_false, hi, hA, hB]
      linear_combination (-g) * h1
    · by_cases hcj : c = j
      · subst hcj
        simp only [if_true, hij, hji, hck, if_false, hA, hB]
        ring
      · have h3 : ¬ k = c := fun h => hck h.symm
        have h4 : ¬ j = c := fun h => hcj h.symm
        simp only [if_true, hck, hcj, h3, h4, if_false]
        ring
  · by_cases hkj : k = j
    · subst hkj
      by_cases hci : c = i
      · subst hci
        have h3 : ¬ k = c := hki
        simp only [if_true, hki, hij, hji, h3, if_false, hA, hB]
        ring
      · by_cases hck : c = k
        · subst hck
          simp only [if_true, hki, hci, hij, hji, if_false, hj, hA, hB]
          linear_combination (-(g * x * y)) * h1
        · have h3 : ¬ k = c := fun h => hck h.symm
          have h4 : ¬ i = c := fun h => hci h.symm
          simp only [if_true, hki, hci, hck, h3, h4, if_false]
          ring
    · by_cases hci : c = i
      · subst hci
        have h3 : ¬ k = j := hkj
        simp only [if_true, hki, hkj, hij, hji, if_false]
        ring
      · by_cases hcj : c = j
        · subst hcj
          simp only [if_true, hki, hkj, hci, hij, hji, if_false]
          ring
        · simp only [hki, hkj, hci, hcj, if_false]
          by_cases hkc : k = c
          · simp only [hkc, if_true]; rw [ho c (hkc ▸ hki) (hkc ▸ hkj)]
          · simp only [hkc, if_false]

/-! ### the same on Mathlib matrices -/

def ofN (F : ℕ → ℕ → ℤ) (n m : ℕ) : Matrix (Fin n) (Fin m) ℤ := fun r c => F r.val c.val

theorem rowOpM_ofN (n m i j : ℕ) (hi : i < n) (hj : j < n) (p q r s : ℤ) (F : ℕ → ℕ → ℤ) :
    rowOpM ⟨i, hi⟩ ⟨j, hj⟩ p q r s (ofN F n m) = ofN (rowOpN i j p q r s F) n m := by
  ext k c
  simp only [rowOpM, rowOpN, ofN, Fin.ext_iff]

theorem colOpM_ofN (n m i j : ℕ) (hi : i < m) (hj : j < m) (p q r s : ℤ) (F : ℕ → ℕ → ℤ) :
    colOpM ⟨i, hi⟩ ⟨j, hj⟩ p q r s (ofN F n m) = ofN (colOpN i j p q r s F) n m := by
  ext k c
  simp only [colOpM, colOpN, ofN, Fin.ext_iff]

/-- the `n × m` matrix with the list `e` on the diagonal -/
def diagL (e : List ℤ) (n m : ℕ) : Matrix (Fin n) (Fin m) ℤ := diagF (fun i => e.getD i 0) n m

theorem diagL_eq_ofN (e : List ℤ) (n m : ℕ) : diagL e n m = ofN (dN (fun i => e.getD i 0)) n m := by
  ext k c; rfl

theorem chainInner_uequiv (n m i j : ℕ) (hij : i < j) (e : List ℤ) (hn : e.length ≤ n)
    (hm : e.length ≤ m) : UEquiv (diagL e n m) (diagL (chainInner i e j) n m) := by
  rcases chainInner_cases i e j with h | ⟨ha, hb, h⟩
  · rw [h]; exact UEquiv.refl _
  · obtain ⟨hb0, hg0, _, _⟩ := pair_facts _ _ ha hb
    have hil := getD_ne_zero_lt ha
    have hjl := getD_ne_zero_lt hb0
    have hs := gcdx_spec' (e.getD i 0) (e.getD j 0)
    have hga := gcdx_fst_dvd_left (e.getD i 0) (e.getD j 0)
    have hgb := gcdx_fst_dvd_right (e.getD i 0) (e.getD j 0)
    have hA := (Int.mul_tdiv_cancel' hga).symm
    have hB := (Int.mul_tdiv_cancel' hgb).symm
    -- r·x + s·y = 1
    have h1 : (gcdx (e.getD i 0) (e.getD j 0)).2.1 * (e.getD i 0).tdiv (gcdx (e.getD i 0) (e.getD j 0)).1
        + (gcdx (e.getD i 0) (e.getD j 0)).2.2.1 * (e.getD j 0).tdiv (gcdx (e.getD i 0) (e.getD j 0)).1 = 1 := by
      apply Int.eq_of_mul_eq_mul_left hg0
      have := hs.1
      rw [Int.mul_one]
      calc (gcdx (e.getD i 0) (e.getD j 0)).1 * ((gcdx (e.getD i 0) (e.getD j 0)).2.1 * (e.getD i 0).tdiv (gcdx (e.getD i 0) (e.getD j 0)).1
            + (gcdx (e.getD i 0) (e.getD j 0)).2.2.1 * (e.getD j 0).tdiv (gcdx (e.getD i 0) (e.getD j 0)).1)
          = (gcdx (e.getD i 0) (e.getD j 0)).2.1 * ((gcdx (e.getD i 0) (e.getD j 0)).1 * (e.getD i 0).tdiv (gcdx (e.getD i 0) (e.getD j 0)).1)
            + (gcdx (e.getD i 0) (e.getD j 0)).2.2.1 * ((gcdx (e.getD i 0) (e.getD j 0)).1 * (e.getD j 0).tdiv (gcdx (e.getD i 0) (e.getD j 0)).1) := by ring
        _ = (gcdx (e.getD i 0) (e.getD j 0)).1 := by rw [← hA, ← hB]; exact this
    have hget : ∀ k, (chainInner i e j).getD k 0 =
        if k = j then (e.getD i 0).tdiv (gcdx (e.getD i 0) (e.getD j 0)).1 * e.getD j 0
        else if k = i then (gcdx (e.getD i 0) (e.getD j 0)).1 else e.getD k 0 := by
      intro k
      rw [h, getD_set', getD_set']
      simp only [List.length_set]
      split_ifs <;> first | rfl | omega
    have key := chain_ops i j (by omega) (fun k => e.getD k 0) (fun k => (chainInner i e j).getD k 0)
      (gcdx (e.getD i 0) (e.getD j 0)).1 ((e.getD i 0).tdiv (gcdx (e.getD i 0) (e.getD j 0)).1)
      ((e.getD j 0).tdiv (gcdx (e.getD i 0) (e.getD j 0)).1)
      (gcdx (e.getD i 0) (e.getD j 0)).2.1 (gcdx (e.getD i 0) (e.getD j 0)).2.2.1 hA hB h1
      (by show (chainInner i e j).getD i 0 = _; rw [hget i, if_neg (by omega), if_pos rfl])
      (by show (chainInner i e j).getD j 0 = _; rw [hget j, if_pos rfl])
      (by intro k hki hkj; show (chainInner i e j).getD k 0 = _; rw [hget k, if_neg hkj, if_neg hki])
    rw [diagL_eq_ofN (chainInner i e j), key,
      ← colOpM_ofN n m i j (by omega) (by omega), ← rowOpM_ofN n m i j (by omega) (by omega),
      ← diagL_eq_ofN, colOpM_eq_mul, rowOpM_eq_mul]
    refine (UEquiv.refl _).left _ (rowOpM_one_isUnit _ _ (by simp [Fin.ext_iff]; omega) _ _ _ _ ?_) |>.right _
      ((Matrix.isUnit_transpose _).mpr (rowOpM_one_isUnit _ _ (by simp [Fin.ext_iff]; omega) _ _ _ _ ?_))
    · left; linear_combination h1
    · left; linear_combination h1

theorem chainPass_uequiv (n m N : ℕ) (e : List ℤ) (hn : e.length ≤ n) (hm : e.length ≤ m) :
    UEquiv (diagL e n m) (diagL (chainPass N e) n m) := by
  have := chainPass_preserves
    (fun f => f.length = e.length ∧ UEquiv (diagL e n m) (diagL f n m))
    (fun f i j hij hf => ⟨by rw [chainInner_length]; exact hf.1,
      hf.2.trans (chainInner_uequiv n m i j hij f (by rw [hf.1]; exact hn) (by rw [hf.1]; exact hm))⟩)
    N e ⟨rfl, UEquiv.refl _⟩
  exact this.2

/-! ### determinantal divisors of the input = partial products of the chain -/

theorem diagonal_getD (D : Mat) (N i : ℕ) (hi : i < N) : (diagonal D N).getD i 0 = get D i i := by
  unfold diagonal
  simp [List.getD_eq_getElem?_getD, List.getElem?_map, List.getElem?_range hi]

theorem diagonal_length (D : Mat) (N : ℕ) : (diagonal D N).length = N := by
  unfold diagonal; simp

theorem zpat_getD {f g : List ℤ} (h : zpat f = zpat g) (i : ℕ) :
    f.getD i 0 = 0 ↔ g.getD i 0 = 0 := by
  have hl : f.length = g.length := by
    have := congrArg List.length h
    simpa [zpat] using this
  by_cases hi : i < f.length
  · have hi' : i < g.length := by omega
    have := congrArg (fun l => l[i]?) h
    simp only [zpat, List.getElem?_map, List.getElem?_eq_getElem hi, List.getElem?_eq_getElem hi',
      Option.map_some, Option.some.injEq, decide_eq_decide] at this
    simp only [List.getD_eq_getElem?_getD, List.getElem?_eq_getElem hi,
      List.getElem?_eq_getElem hi', Option.getD_some]
    exact this
  · rw [getD_default f i 0 (by omega), getD_default g i 0 (by omega)]

/-- what the model does after `diagonalize_in_place`, in terms of determinantal divisors -/
theorem dk_of_model (mat D : Mat) (r n : ℕ) (hR : Rect mat r n) (hr : 0 < r)
    (h : diagonalize mat = some D) :
    (chainPass (min r n) (diagonal D (min r n))).length = min r n ∧
    (∀ x ∈ chainPass (min r n) (diagonal D (min r n)), 0 ≤ x) ∧
    (∀ i j, i ≤ j → (chainPass (min r n) (diagonal D (min r n))).getD i 0 ∣
      (chainPass (min r n) (diagonal D (min r n))).getD j 0) ∧
    ∀ k, k ≤ min r n → dk (toMatrix mat r n) k =
      (∏ i ∈ Finset.range k, (chainPass (min r n) (diagonal D (min r n))).getD i 0).natAbs := by
  obtain ⟨hdiag, hU⟩ := diagonalize_diagonal' mat D r n
    (fun M => UEquiv (toMatrix mat r n) (toMatrix M r n)) (closed_uequiv r n _) hR hr
    (UEquiv.refl _) h
  obtain ⟨D', hD', hRD⟩ := diagonalize_some mat r n hR hr
  rw [h] at hD'; injection hD' with hD'; subst hD'
  have htail := diagonalize_tail mat D r n hR hr h
  have hnn := diagonalize_diag_nonneg mat D r n hR hr h
  have hlen0 := diagonal_length D (min r n)
  have hlen : (chainPass (min r n) (diagonal D (min r n))).length = min r n := by
    have := chainPass_length (diagonal D (min r n))
    rw [hlen0] at this; exact this
  have hnonneg : ∀ x ∈ chainPass (min r n) (diagonal D (min r n)), 0 ≤ x := by
    apply chainPass_nonneg
    intro x hx
    unfold diagonal at hx
    obtain ⟨k, hk, rfl⟩ := List.mem_map.mp hx
    rw [List.mem_range] at hk
    exact hnn k (by omega) (by omega)
  have hz := chainPass_zpat (min r n) (diagonal D (min r n))
  have hchain : ∀ i j, i ≤ j → (chainPass (min r n) (diagonal D (min r n))).getD i 0 ∣
      (chainPass (min r n) (diagonal D (min r n))).getD j 0 := by
    intro i j hij
    by_cases hj : j < min r n
    · by_cases heq : i = j
      · subst heq; exact dvd_refl _
      · have hlt : i < j := by omega
        by_cases h0 : (chainPass (min r n) (diagonal D (min r n))).getD i 0 = 0
        · have e0 : (diagonal D (min r n)).getD i 0 = 0 := (zpat_getD hz i).mp h0
          rw [diagonal_getD D _ i (by omega)] at e0
          have ej := htail i j hlt hj e0
          rw [← diagonal_getD D _ j hj] at ej
          rw [(zpat_getD hz j).mpr ej]
          exact dvd_zero _
        · have := chainPass_chain (diagonal D (min r n)) i j hlt (by rw [hlen0]; exact hj)
            (by rw [hlen0]; exact h0)
          rw [hlen0] at this
          exact this
    · rw [getD_default _ j 0 (by rw [hlen]; omega)]
      exact dvd_zero _
  refine ⟨hlen, hnonneg, hchain, ?_⟩
  intro k hk
  have hD : toMatrix D r n = diagL (diagonal D (min r n)) r n := by
    ext a b
    simp only [toMatrix, diagL, diagF]
    by_cases hab : a.val = b.val
    · rw [if_pos hab, diagonal_getD D _ a.val (by have := a.isLt; have := b.isLt; omega), ← hab]
    · rw [if_neg hab]; exact hdiag a.val b.val a.isLt b.isLt hab
  have h1 := hU.dk_eq k
  have h2 := (chainPass_uequiv r n (min r n) (diagonal D (min r n)) (by rw [hlen0]; omega)
    (by rw [hlen0]; omega)).dk_eq k
  rw [h1, hD, h2]
  exact dk_diagF _ hchain r n k (by omega) (by omega)

/-- the input matrix is unimodularly equivalent to the diagonal matrix of the chain -/
theorem model_uequiv (mat D : Mat) (r n : ℕ) (hR : Rect mat r n) (hr : 0 < r)
    (h : diagonalize mat = some D) :
    UEquiv (toMatrix mat r n) (diagL (chainPass (min r n) (diagonal D (min r n))) r n) := by
  obtain ⟨hdiag, hU⟩ := diagonalize_diagonal' mat D r n
    (fun M => UEquiv (toMatrix mat r n) (toMatrix M r n)) (closed_uequiv r n _) hR hr
    (UEquiv.refl _) h
  have hlen0 := diagonal_length D (min r n)
  have hD : toMatrix D r n = diagL (diagonal D (min r n)) r n := by
    ext a b
    simp only [toMatrix, diagL, diagF]
    by_cases hab : a.val = b.val
    · rw [if_pos hab, diagonal_getD D _ a.val (by have := a.isLt; have := b.isLt; omega), ← hab]
    · rw [if_neg hab]; exact hdiag a.val b.val a.isLt b.isLt hab
  rw [hD] at hU
  exact hU.trans (chainPass_uequiv r n (min r n) (diagonal D (min r n)) (by rw [hlen0]; omega)
    (by rw [hlen0]; omega))

end DSymVerif.Inv
