/-
Helper lemmas for property C04, part 19: cover invariance for the covers the library builds —
every covering in the sense of C05's `IsCoverOf` (the outputs of `covers::covers`,
`subgroup_cover`, `finite_universal_cover`, `cover_for_table`) and `oriented_cover`.
-/
import DSymVerif.Proofs.MorphismQuot5
import DSymVerif.Proofs.CoversWired
import DSymVerif.Proofs.CoversOrientedDeg

namespace DSymVerif.Mor
open DSymVerif.DS DSymVerif.DS.CanonP DSymVerif.CoversP

/-- the projection of a covering (C05 `IsCoverOf`) is a surjective morphism -/
theorem IsCoverOf.symMor {ds c : DSymData} {n : Nat} (hs : ValidTables ds) (hsz : 1 ≤ ds.size)
    (h : IsCoverOf ds c n) : SymMor c ds (cproj ds.size) ∧ Surj c ds (cproj ds.size) := by
  refine ⟨⟨⟨h.dim.symm, fun x _ _ => cproj_range hsz, fun i x hi h1 h2 => ?_⟩,
    fun i d hi h1 h2 => ?_⟩, fun b hb1 hb2 => ?_⟩
  · have hi' : i ≤ ds.dim := by rw [← h.dim]; exact hi
    have h2' : x ≤ n * ds.size := by rw [← h.size]; exact h2
    exact (h.proj i x hi' h1 h2').symm
  · have hi' : i < ds.dim := by rw [← h.dim]; exact hi
    have h2' : d ≤ n * ds.size := by rw [← h.size]; exact h2
    have hp := cproj_range (d := d) hsz
    have e := h.deg i (i + 1) d (Nat.le_of_lt hi') hi' h1 h2'
    rw [h.valid.toValidTables.mPartial_adj hi h1 h2, hs.mPartial_adj hi' hp.1 hp.2] at e
    exact (Option.some.inj (Outcome.ok.inj e)).symm
  · refine ⟨b, hb1, ?_, ?_⟩
    · rw [h.size]
      calc b ≤ ds.size := hb2
        _ = 1 * ds.size := (Nat.one_mul _).symm
        _ ≤ n * ds.size := Nat.mul_le_mul_right _ h.sheets
    · unfold cproj
      rw [Nat.mod_eq_of_lt (by omega)]
      omega

/-- a connected valid symbol and each of its coverings have isomorphic minimal images -/
theorem minimalImage_isCoverOf {ds c : DSymData} {n : Nat} (hs : ValidSym ds) (hsz : 1 ≤ ds.size)
    (hdim : 1 ≤ ds.dim) (hconn : ds.view.isConnected = true) (h : IsCoverOf ds c n) :
    ∃ qc qs g, minimalImage c = .ok qc ∧ minimalImage ds = .ok qs ∧ IsIso g qs qc := by
  obtain ⟨hm, hsurj⟩ := IsCoverOf.symMor hs.toValidTables hsz h
  have hcsz : 1 ≤ c.size := by
    rw [h.size]
    calc 1 ≤ ds.size := hsz
      _ = 1 * ds.size := (Nat.one_mul _).symm
      _ ≤ n * ds.size := Nat.mul_le_mul_right _ h.sheets
  exact minimalImage_of_morphism h.valid hs hcsz (by rw [h.dim]; exact hdim) hsz
    ((connected_iff_isConnected c h.valid.set).2 (h.connected hconn))
    ((connected_iff_isConnected ds hs.set).2 hconn) hm hsurj

/-- `oriented_cover`: no premise on degrees or far operations (C05 `orientedCover_degrees`,
    `orientedCover_validSym`); the cover's connectedness is the one hypothesis -/
theorem minimalImage_orientedCover (s : DSymData) (hs : ValidSym s) (hsz : 1 ≤ s.size) (hdim : 1 ≤ s.dim)
    (hconn : s.view.isConnected = true) :
    ∃ c, orientedCover s = .ok c ∧ (c.view.isConnected = true →
      ∃ qc qs g, minimalImage c = .ok qc ∧ minimalImage s = .ok qs ∧ IsIso g qs qc) := by
  have hcs := (connected_iff_isConnected s hs.set).2 hconn
  cases ho : s.view.isOriented with
  | true =>
    have hc : orientedCover s = .ok s := by
      rw [orientedCover_eq, if_pos ho]; exact asPartialDSym_self s hs.toValidTables hsz hdim
    refine ⟨s, hc, fun _ => ?_⟩
    exact minimalImage_of_morphism hs hs hsz hdim hsz hcs hcs (SymMor.id s) (fun k h1 h2 => ⟨k, h1, h2, rfl⟩)
  | false =>
    obtain ⟨c, hc, hsize, hdim', hcv⟩ := orientedCover_validSym s hs hsz hdim ho
    obtain ⟨c', hc', _, _, _, hdeg⟩ := orientedCover_degrees s hs.toValidTables hsz hdim ho
    rw [hc] at hc'; cases hc'
    have hσ := oriSheetMap_compat s hs.set s.view.partialOrientation
    have he : orientedCover s = cover s 2 (oriSheetMap s s.view.partialOrientation) := by
      rw [orientedCover_eq, if_neg (by rw [ho]; simp)]
    obtain ⟨_, _, hm, hsurj⟩ := cover_symMor s hs.toValidTables hsz hdim 2 (by decide) _ hσ c
      (by rw [← he]; exact hc) (fun i d hi h1 h2 => (hdeg i d hi h1 h2).2.2)
    refine ⟨c, hc, fun hcc => ?_⟩
    have hcsz : 1 ≤ c.size := by rw [hsize]; omega
    exact minimalImage_of_morphism hcv hs hcsz (by rw [hdim']; exact hdim) hsz
      ((connected_iff_isConnected c hcv.set).2 hcc) hcs hm hsurj

end DSymVerif.Mor
