/-
Helper lemmas for property C20, part 2: the forest level.

`par p x` / `rk r x` read the parent / rank arrays with the defaults "own parent" / "rank 0"
outside the arrays, so that the auto-extension of `IntPartitionImpl::root_index` does not
change them at all.  `RootOf p x r` is the graph of the root walk.  `WF` is the forest
invariant: equal array lengths, parents in range, rank strictly increasing towards a
non-self parent.  Proved here for the model functions of `Model/Partition.lean`:

* `findRoot_ok`, `compress_ok`, `rootWalk_ok` : from a well-formed forest the two loops of
  `root_index` terminate within the fuel `max rank + 1`, never index out of range, return the
  root, keep `WF`, and change no element's root (path compression is invisible);
* `extend_spec` : auto-extension changes neither `par` nor `rk`;
* `link_ok` : the rank rule keeps `WF` and redirects exactly the two classes to the winner.
-/
import DSymVerif.Model.Partition
import DSymVerif.Proofs.PartitionConn

namespace DSymVerif.PartP
open DSymVerif DSymVerif.Part

def par (p : Array Nat) (x : Nat) : Nat := p.getD x x
def rk (r : Array Nat) (x : Nat) : Nat := r.getD x 0

theorem par_lt {p : Array Nat} {x : Nat} (h : x < p.size) : par p x = p[x] := by
  simp [par, Array.getD, h]

theorem par_ge {p : Array Nat} {x : Nat} (h : p.size ≤ x) : par p x = x := by
  have : ¬ x < p.size := by omega
  simp [par, Array.getD, this]

theorem rk_lt {r : Array Nat} {x : Nat} (h : x < r.size) : rk r x = r[x] := by
  simp [rk, Array.getD, h]

theorem rk_ge {r : Array Nat} {x : Nat} (h : r.size ≤ x) : rk r x = 0 := by
  have : ¬ x < r.size := by omega
  simp [rk, Array.getD, this]

theorem par_set {p : Array Nat} {t v : Nat} (h : t < p.size) (x : Nat) :
    par (p.set t v h) x = if x = t then v else par p x := by
  by_cases hx : x < p.size
  · rw [par_lt (by simpa using hx), par_lt hx, Array.getElem_set]
    by_cases e : t = x
    · simp [e]
    · have : ¬ x = t := fun h => e h.symm
      simp [e, this]
  · have hne : ¬ x = t := by omega
    rw [par_ge (by simp; omega), par_ge (by omega), if_neg hne]

theorem rk_set {r : Array Nat} {t v : Nat} (h : t < r.size) (x : Nat) :
    rk (r.set t v h) x = if x = t then v else rk r x := by
  by_cases hx : x < r.size
  · rw [rk_lt (by simpa using hx), rk_lt hx, Array.getElem_set]
    by_cases e : t = x
    · simp [e]
    · have : ¬ x = t := fun h => e h.symm
      simp [e, this]
  · have hne : ¬ x = t := by omega
    rw [rk_ge (by simp; omega), rk_ge (by omega), if_neg hne]

theorem par_push (p : Array Nat) (x : Nat) : par (p.push p.size) x = par p x := by
  have hs : (p.push p.size).size = p.size + 1 := by simp
  by_cases hx : x < p.size
  · have h1 : x < (p.push p.size).size := by omega
    rw [par_lt h1, par_lt hx, Array.getElem_push_lt hx]
  · by_cases e : x = p.size
    · have h1 : x < (p.push p.size).size := by omega
      rw [par_lt h1, par_ge (p := p) (by omega)]
      subst e; simp
    · have h1 : (p.push p.size).size ≤ x := by omega
      rw [par_ge h1, par_ge (p := p) (by omega)]

theorem rk_push (r : Array Nat) (x : Nat) : rk (r.push 0) x = rk r x := by
  have hs : (r.push 0).size = r.size + 1 := by simp
  by_cases hx : x < r.size
  · have h1 : x < (r.push 0).size := by omega
    rw [rk_lt h1, rk_lt hx, Array.getElem_push_lt hx]
  · by_cases e : x = r.size
    · have h1 : x < (r.push 0).size := by omega
      rw [rk_lt h1, rk_ge (r := r) (by omega)]
      subst e; simp
    · have h1 : (r.push 0).size ≤ x := by omega
      rw [rk_ge h1, rk_ge (r := r) (by omega)]

/-- graph of the root walk -/
inductive RootOf (p : Array Nat) : Nat → Nat → Prop
  | root {x : Nat} : par p x = x → RootOf p x x
  | step {x r : Nat} : par p x ≠ x → RootOf p (par p x) r → RootOf p x r

theorem RootOf.isRoot {p : Array Nat} {x r : Nat} (h : RootOf p x r) : par p r = r := by
  induction h with
  | root h => exact h
  | step _ _ ih => exact ih

theorem RootOf.unique {p : Array Nat} {x r r' : Nat} (h : RootOf p x r) (h' : RootOf p x r') :
    r = r' := by
  induction h with
  | root hx =>
    cases h' with
    | root _ => rfl
    | step hne _ => exact absurd hx hne
  | step hne _ ih =>
    cases h' with
    | root hx => exact absurd hx hne
    | step _ h2 => exact ih h2

theorem RootOf.congr {p p' : Array Nat} (hp : ∀ x, par p' x = par p x) {z r : Nat}
    (h : RootOf p z r) : RootOf p' z r := by
  induction h with
  | root hx => exact .root (by rw [hp]; exact hx)
  | step hne _ ih => exact .step (by rw [hp]; exact hne) (by rw [hp]; exact ih)

/-- the forest invariant -/
structure WF (f : Forest) : Prop where
  size_eq : f.rank.size = f.parent.size
  inRange : ∀ x, x < f.parent.size → par f.parent x < f.parent.size
  rankInc : ∀ x, par f.parent x ≠ x → rk f.rank x < rk f.rank (par f.parent x)

theorem wf_new : WF Forest.new :=
  ⟨rfl, fun x hx => absurd hx (by simp [Forest.new]), fun x h => absurd (par_ge (by simp [Forest.new])) h⟩

theorem RootOf.rank_lt {f : Forest} (wf : WF f) {x r : Nat} (h : RootOf f.parent x r) :
    x = r ∨ rk f.rank x < rk f.rank r := by
  induction h with
  | root _ => exact Or.inl rfl
  | step hne _ ih =>
    right
    have h1 := wf.rankInc _ hne
    rcases ih with e | e
    · rw [← e]; exact h1
    · omega

theorem RootOf.lt_size {f : Forest} (wf : WF f) {x r : Nat} (h : RootOf f.parent x r)
    (hx : x < f.parent.size) : r < f.parent.size := by
  induction h with
  | root _ => exact hx
  | step _ _ ih => exact ih (wf.inRange _ hx)

theorem foldr_max_ge (l : List Nat) : ∀ x ∈ l, x ≤ l.foldr Nat.max 0 := by
  induction l with
  | nil => intro x hx; cases hx
  | cons y l ih =>
    intro x hx
    simp only [List.foldr_cons]
    rcases List.mem_cons.1 hx with h | h
    · subst h; exact Nat.le_max_left ..
    · exact Nat.le_trans (ih x h) (Nat.le_max_right ..)

theorem rk_le_maxRank (f : Forest) (x : Nat) : rk f.rank x ≤ maxRank f := by
  by_cases h : x < f.rank.size
  · rw [rk_lt h]
    exact foldr_max_ge _ _ (by simp)
  · rw [rk_ge (by omega)]; exact Nat.zero_le _

/-- first loop of `root_index`: terminates within the fuel, stays in range, finds the root -/
theorem findRoot_ok {f : Forest} (wf : WF f) {B : Nat} (hB : ∀ x, rk f.rank x ≤ B) :
    ∀ fuel x, x < f.parent.size → B - rk f.rank x < fuel →
      ∃ r, findRoot f.parent fuel x = .ok r ∧ RootOf f.parent x r := by
  intro fuel
  induction fuel with
  | zero => intro x _ h; omega
  | succ n ih =>
    intro x hx hfuel
    unfold findRoot
    rw [dif_pos hx]
    have hpar : par f.parent x = f.parent[x] := par_lt hx
    by_cases hp : f.parent[x] = x
    · rw [if_pos hp]; exact ⟨x, rfl, .root (by rw [hpar]; exact hp)⟩
    · rw [if_neg hp]
      have hne : par f.parent x ≠ x := by rw [hpar]; exact hp
      have hr := wf.rankInc x hne
      have hin := wf.inRange x hx
      rw [hpar] at hr hin
      have hb := hB (f.parent[x])
      obtain ⟨r, h1, h2⟩ := ih (f.parent[x]) hin (by omega)
      exact ⟨r, h1, .step hne (by rw [hpar]; exact h2)⟩

/-- every element has a root in a well-formed forest -/
theorem exists_root {f : Forest} (wf : WF f) (x : Nat) : ∃ r, RootOf f.parent x r := by
  by_cases hx : x < f.parent.size
  · obtain ⟨r, _, h⟩ := findRoot_ok wf (rk_le_maxRank f) (maxRank f + 1) x hx (by omega)
    exact ⟨r, h⟩
  · exact ⟨x, .root (par_ge (by omega))⟩

/-- one compression step: redirecting a non-root to its root keeps `WF` and every root -/
theorem set_root_ok {p rank : Array Nat} (wf : WF ⟨p, rank⟩) {t r : Nat} (ht : t < p.size)
    (hroot : RootOf p t r) (hne : t ≠ r) :
    WF ⟨p.set t r ht, rank⟩ ∧ ∀ z r', RootOf p z r' → RootOf (p.set t r ht) z r' := by
  have hnr : par p t ≠ t := by
    cases hroot with
    | root _ => exact absurd rfl hne
    | step h _ => exact h
  have hrr : par p r = r := hroot.isRoot
  have hrt : ¬ r = t := fun e => hne e.symm
  have hrr' : par (p.set t r ht) r = r := by rw [par_set, if_neg hrt]; exact hrr
  refine ⟨⟨?_, ?_, ?_⟩, ?_⟩
  · simpa using wf.size_eq
  · intro x hx
    have hx' : x < p.size := by simpa using hx
    show par (p.set t r ht) x < (p.set t r ht).size
    rw [par_set, Array.size_set]
    split
    · exact RootOf.lt_size wf hroot ht
    · exact wf.inRange x hx'
  · intro x hx
    show rk rank x < rk rank (par (p.set t r ht) x)
    have hx2 : par (p.set t r ht) x ≠ x := hx
    rw [par_set] at hx2 ⊢
    by_cases e : x = t
    · rw [if_pos e]; subst e
      rcases RootOf.rank_lt wf hroot with h | h
      · exact absurd h hne
      · exact h
    · rw [if_neg e] at hx2 ⊢
      exact wf.rankInc x hx2
  · intro z r' h
    induction h with
    | @root z hx =>
      have : ¬ z = t := fun e => hnr (e ▸ hx)
      exact .root (by rw [par_set, if_neg this]; exact hx)
    | @step z r' hne' h2 ih =>
      by_cases e : z = t
      · subst e
        have : r' = r := (RootOf.step hne' h2).unique hroot
        subst this
        exact .step (by rw [par_set, if_pos rfl]; exact hrt) (by rw [par_set, if_pos rfl]; exact .root hrr')
      · exact .step (by rw [par_set, if_neg e]; exact hne') (by rw [par_set, if_neg e]; exact ih)

/-- second loop of `root_index` (path compression): terminates within the fuel, stays in range,
    keeps `WF`, the array length, and every element's root -/
theorem compress_ok {rank : Array Nat} {B : Nat} (hB : ∀ x, rk rank x ≤ B) (root : Nat) :
    ∀ fuel (p : Array Nat) (x : Nat), WF ⟨p, rank⟩ → x < p.size → RootOf p x root →
      B - rk rank x < fuel →
      ∃ p', compress root fuel p x = .ok p' ∧ WF ⟨p', rank⟩ ∧ p'.size = p.size ∧
        ∀ z r', RootOf p z r' → RootOf p' z r' := by
  intro fuel
  induction fuel with
  | zero => intro p x _ _ _ h; omega
  | succ n ih =>
    intro p x wf hx hroot hfuel
    unfold compress
    by_cases e : x = root
    · rw [if_pos e]; exact ⟨p, rfl, wf, rfl, fun _ _ h => h⟩
    · rw [if_neg e, dif_pos hx]
      obtain ⟨wf1, pres1⟩ := set_root_ok wf hx hroot e
      have hpar : par p x = p[x] := par_lt hx
      cases hroot with
      | root _ => exact absurd rfl e
      | step hne h2 =>
        have hr := wf.rankInc x hne
        have hin := wf.inRange x hx
        simp only [] at hr hin
        rw [hpar] at hr hin h2
        have hb := hB (p[x])
        obtain ⟨p', h1, wf', hs, pres⟩ :=
          ih (p.set x root hx) (p[x]) wf1 (by simpa using hin) (pres1 _ _ h2) (by omega)
        exact ⟨p', h1, wf', by rw [hs, Array.size_set], fun z r' h => pres z r' (pres1 z r' h)⟩

/-- both loops of `root_index` -/
theorem rootWalk_ok {f : Forest} (wf : WF f) {a : Nat} (ha : a < f.parent.size) :
    ∃ p' r, rootWalk f a = .ok (⟨p', f.rank⟩, r) ∧ WF ⟨p', f.rank⟩ ∧ p'.size = f.parent.size ∧
      RootOf f.parent a r ∧ ∀ z r', RootOf f.parent z r' → RootOf p' z r' := by
  obtain ⟨r, h1, hr⟩ := findRoot_ok wf (rk_le_maxRank f) (maxRank f + 1) a ha (by omega)
  obtain ⟨p', h2, wf', hs, pres⟩ :=
    compress_ok (rank := f.rank) (rk_le_maxRank f) r (maxRank f + 1) f.parent a wf ha hr (by omega)
  refine ⟨p', r, ?_, wf', hs, hr, pres⟩
  unfold rootWalk
  rw [h1]; simp only []; rw [h2]

/-- a forest with the same `par`/`rk` functions and at least the same length is well-formed -/
theorem WF.of_same {f f' : Forest} (wf : WF f) (hs : f'.rank.size = f'.parent.size)
    (hle : f.parent.size ≤ f'.parent.size) (hp : ∀ x, par f'.parent x = par f.parent x)
    (hr : ∀ x, rk f'.rank x = rk f.rank x) : WF f' := by
  refine ⟨hs, ?_, ?_⟩
  · intro x hx
    rw [hp]
    by_cases h : x < f.parent.size
    · exact Nat.lt_of_lt_of_le (wf.inRange x h) hle
    · rw [par_ge (by omega)]; exact hx
  · intro x hx
    rw [hp] at hx ⊢
    rw [hr, hr]
    exact wf.rankInc x hx

theorem extendLoop_spec : ∀ (n i : Nat) (f : Forest), i = f.parent.size → WF f →
    WF (extendLoop n i f) ∧ (extendLoop n i f).parent.size = f.parent.size + n ∧
      (∀ x, par (extendLoop n i f).parent x = par f.parent x) ∧
      (∀ x, rk (extendLoop n i f).rank x = rk f.rank x) := by
  intro n
  induction n with
  | zero => intro i f _ wf; exact ⟨wf, rfl, fun _ => rfl, fun _ => rfl⟩
  | succ n ih =>
    intro i f hi wf
    subst hi
    have wf1 : WF ⟨f.parent.push f.parent.size, f.rank.push 0⟩ :=
      wf.of_same (by simp [wf.size_eq]) (by simp) (fun x => par_push _ x) (fun x => rk_push _ x)
    obtain ⟨w, s, p, r⟩ := ih (f.parent.size + 1) ⟨f.parent.push f.parent.size, f.rank.push 0⟩
      (by simp) wf1
    refine ⟨w, ?_, ?_, ?_⟩
    · show (extendLoop n _ _).parent.size = _
      rw [s]; simp; omega
    · intro x; show par (extendLoop n _ _).parent x = _; rw [p]; exact par_push _ x
    · intro x; show rk (extendLoop n _ _).rank x = _; rw [r]; exact rk_push _ x

/-- auto-extension: invisible through `par` / `rk`, keeps `WF`, makes `a` an index -/
theorem extend_spec {f : Forest} (wf : WF f) (a : Nat) :
    WF (extend f a) ∧ a < (extend f a).parent.size ∧ f.parent.size ≤ (extend f a).parent.size ∧
      (∀ x, par (extend f a).parent x = par f.parent x) ∧
      (∀ x, rk (extend f a).rank x = rk f.rank x) := by
  obtain ⟨w, s, p, r⟩ := extendLoop_spec (a + 1 - f.parent.size) f.parent.size f rfl wf
  refine ⟨w, ?_, ?_, p, r⟩
  · show a < (extendLoop _ _ _).parent.size; rw [s]; omega
  · show _ ≤ (extendLoop _ _ _).parent.size; rw [s]; omega

/-- `IntPartitionImpl::root_index` from a well-formed forest -/
theorem int_rootIndex_ok {f : Forest} (wf : WF f) (a : Nat) :
    ∃ f' r, IntP.rootIndex f a = .ok (f', r) ∧ WF f' ∧ RootOf f.parent a r ∧
      (∀ z r', RootOf f.parent z r' → RootOf f'.parent z r') ∧
      (∀ x, rk f'.rank x = rk f.rank x) ∧ f.parent.size ≤ f'.parent.size ∧
      a < f'.parent.size := by
  obtain ⟨w, ha, hle, p, r⟩ := extend_spec wf a
  obtain ⟨p', root, h, wf', hs, hr, pres⟩ := rootWalk_ok w ha
  refine ⟨⟨p', (extend f a).rank⟩, root, h, wf', RootOf.congr (fun x => (p x).symm) hr, ?_, r, ?_, ?_⟩
  · intro z r' hz; exact pres z r' (RootOf.congr p hz)
  · show _ ≤ p'.size; omega
  · show _ < p'.size; omega

/-- hanging the root `u` below another root `v` redirects exactly the class of `u` -/
theorem link_roots {p : Array Nat} {u v : Nat} (hu : u < p.size) (ru : par p u = u)
    (rv : par p v = v) (hne : u ≠ v) :
    ∀ z r, RootOf p z r → RootOf (p.set u v hu) z (if r = u then v else r) := by
  have hvu : ¬ v = u := fun e => hne e.symm
  have rv' : par (p.set u v hu) v = v := by rw [par_set, if_neg hvu]; exact rv
  intro z r h
  induction h with
  | @root z hx =>
    by_cases e : z = u
    · subst e
      rw [if_pos rfl]
      exact .step (by rw [par_set, if_pos rfl]; exact hvu) (by rw [par_set, if_pos rfl]; exact .root rv')
    · rw [if_neg e]; exact .root (by rw [par_set, if_neg e]; exact hx)
  | @step z r hne' _ ih =>
    have e : ¬ z = u := fun e => hne' (e ▸ ru)
    exact .step (by rw [par_set, if_neg e]; exact hne') (by rw [par_set, if_neg e]; exact ih)

/-- the rank rule of `unite` on two roots -/
theorem link_ok {f : Forest} (wf : WF f) {x y : Nat} (hx : x < f.parent.size)
    (hy : y < f.parent.size) (rx : par f.parent x = x) (ry : par f.parent y = y) :
    ∃ f' w, link f x y = .ok f' ∧ WF f' ∧ f'.parent.size = f.parent.size ∧ (w = x ∨ w = y) ∧
      ∀ z r, RootOf f.parent z r → RootOf f'.parent z (if r = x ∨ r = y then w else r) := by
  have hxr : x < f.rank.size := by rw [wf.size_eq]; exact hx
  have hyr : y < f.rank.size := by rw [wf.size_eq]; exact hy
  unfold link
  by_cases e : x = y
  · rw [if_pos e]
    refine ⟨f, x, rfl, wf, rfl, Or.inl rfl, fun z r h => ?_⟩
    by_cases h' : r = x ∨ r = y
    · rw [if_pos h']
      rcases h' with h' | h'
      · rw [← h']; exact h
      · rw [e, ← h']; exact h
    · rw [if_neg h']; exact h
  · rw [if_neg e, dif_pos hxr, dif_pos hyr]
    have hrx : rk f.rank x = f.rank[x] := rk_lt hxr
    have hry : rk f.rank y = f.rank[y] := rk_lt hyr
    have hyx : ¬ y = x := fun h => e h.symm
    by_cases hlt : f.rank[x] < f.rank[y]
    · -- x goes below y
      rw [if_pos hlt, dif_pos hx]
      refine ⟨_, y, rfl, ⟨?_, ?_, ?_⟩, by simp, Or.inr rfl, ?_⟩
      · simpa using wf.size_eq
      · intro z hz
        have hz' : z < f.parent.size := by simpa using hz
        show par (f.parent.set x y hx) z < (f.parent.set x y hx).size
        rw [par_set, Array.size_set]
        split
        · exact hy
        · exact wf.inRange z hz'
      · intro z hz
        have hz2 : par (f.parent.set x y hx) z ≠ z := hz
        show rk f.rank z < rk f.rank (par (f.parent.set x y hx) z)
        rw [par_set] at hz2 ⊢
        by_cases ez : z = x
        · rw [if_pos ez]; subst ez; rw [hrx, hry]; exact hlt
        · rw [if_neg ez] at hz2 ⊢; exact wf.rankInc z hz2
      · intro z r h
        have := link_roots hx rx ry e z r h
        show RootOf (f.parent.set x y hx) z _
        by_cases h1 : r = x
        · rw [if_pos h1] at this; rw [if_pos (Or.inl h1)]; exact this
        · rw [if_neg h1] at this
          by_cases h2 : r = y
          · rw [if_pos (Or.inr h2)]; rw [h2] at this; exact this
          · rw [if_neg (not_or.2 ⟨h1, h2⟩)]; exact this
    · rw [if_neg hlt]
      have roots : ∀ z r, RootOf f.parent z r →
          RootOf (f.parent.set y x hy) z (if r = x ∨ r = y then x else r) := by
        intro z r h
        have := link_roots hy ry rx hyx z r h
        by_cases h2 : r = y
        · rw [if_pos h2] at this; rw [if_pos (Or.inr h2)]; exact this
        · rw [if_neg h2] at this
          by_cases h1 : r = x
          · rw [if_pos (Or.inl h1)]; rw [h1] at this; exact this
          · rw [if_neg (not_or.2 ⟨h1, h2⟩)]; exact this
      have inR : ∀ z, z < (f.parent.set y x hy).size →
          par (f.parent.set y x hy) z < (f.parent.set y x hy).size := by
        intro z hz
        have hz' : z < f.parent.size := by simpa using hz
        rw [par_set, Array.size_set]
        split
        · exact hx
        · exact wf.inRange z hz'
      by_cases heq : f.rank[x] = f.rank[y]
      · -- tie: y goes below x, rank of x grows
        rw [if_pos heq, dif_pos hy]
        refine ⟨_, x, rfl, ⟨?_, inR, ?_⟩, by simp, Or.inl rfl, roots⟩
        · simpa using wf.size_eq
        · intro z hz
          have hz2 : par (f.parent.set y x hy) z ≠ z := hz
          show rk (f.rank.set x (f.rank[x] + 1) hxr) z
            < rk (f.rank.set x (f.rank[x] + 1) hxr) (par (f.parent.set y x hy) z)
          rw [par_set] at hz2 ⊢
          by_cases ez : z = y
          · rw [if_pos ez]; subst ez
            rw [rk_set, rk_set, if_neg hyx, if_pos rfl, hry]; omega
          · rw [if_neg ez] at hz2 ⊢
            have hzx : ¬ z = x := fun h => hz2 (h ▸ rx)
            have h1 := wf.rankInc z hz2
            rw [rk_set, rk_set, if_neg hzx]
            split
            · rename_i h; rw [h, hrx] at h1; omega
            · exact h1
      · -- y goes below x
        rw [if_neg heq, dif_pos hy]
        refine ⟨_, x, rfl, ⟨?_, inR, ?_⟩, by simp, Or.inl rfl, roots⟩
        · simpa using wf.size_eq
        · intro z hz
          have hz2 : par (f.parent.set y x hy) z ≠ z := hz
          show rk f.rank z < rk f.rank (par (f.parent.set y x hy) z)
          rw [par_set] at hz2 ⊢
          by_cases ez : z = y
          · rw [if_pos ez]; subst ez; rw [hrx, hry]; omega
          · rw [if_neg ez] at hz2 ⊢; exact wf.rankInc z hz2

end DSymVerif.PartP
