/-
C13, model level: `induced_table` / `core_table` build the orbit table of the identity
arrangement (the refinement of the generic step `LInv_step` by the association-list caches
`o2n`, `n2o`), and the closure lemma shared with the intersection table.
-/
import DSymVerif.Proofs.StabilizerTable
import DSymVerif.Proofs.StabilizerProduct

set_option linter.unusedSectionVars false

namespace DSymVerif.StabP
open DSymVerif DSymVerif.Cosets DSymVerif.SpecC11 DSymVerif.CosetP DSymVerif.SpecC13 DSymVerif.Stab

/-! ### association lists -/

section Assoc
variable {α β : Type} [BEq α] [LawfulBEq α]

theorem aLookup_append_single (k k' : α) (v : β) : ∀ (l : List (α × β)),
    aLookup k (l ++ [(k', v)]) = match aLookup k l with
      | some x => some x
      | none => if k' == k then some v else none
  | [] => by simp [aLookup]
  | (k'', v'') :: r => by
    simp only [List.cons_append, aLookup]
    by_cases h : (k'' == k) = true
    · simp [h]
    · simp only [h, Bool.false_eq_true, if_false]
      exact aLookup_append_single k k' v r

theorem aLookup_aInsert (i n : α) (k : β) : ∀ (l : List (α × β)),
    aLookup i (aInsert n k l) = if n == i then some k else aLookup i l
  | [] => by simp [aInsert, aLookup]
  | (k', v') :: r => by
    simp only [aInsert]
    by_cases h1 : (k' == n) = true
    · have e : k' = n := by simpa using h1
      subst e
      simp only [beq_self_eq_true, if_true, aLookup]
      by_cases h2 : (k' == i) = true <;> simp [h2]
    · simp only [h1, Bool.false_eq_true, if_false, aLookup]
      by_cases h2 : (k' == i) = true
      · have e : k' = i := by simpa using h2
        subst e
        have h3 : (n == k') = false := by
          rw [beq_eq_false_iff_ne]
          intro e; subst e; simp at h1
        simp [h3]
      · simp only [h2, Bool.false_eq_true, if_false]
        exact aLookup_aInsert i n k r

end Assoc

/-! ### `induced_table` -/

section Induced
variable {α : Type} [BEq α] [LawfulBEq α] {act : α → Int → Option α} {n : Nat} {Good : α → Prop}
  {img : α → Int → Outcome α}

/-- `o2n` and `n2o` of `induced_table` are caches of the label list -/
structure IndCache (s : Induced α) (lab : List α) : Prop where
  o2n : ∀ k, aLookup k s.o2n = if k ∈ lab then some (lab.idxOf k) else none
  n2o : ∀ i, aLookup i s.n2o = lab[i]?

theorem inducedGens_spec (hact : ActOk act n Good)
    (himg : ∀ x g y, Good x → g ∈ letters n → img x g = .ok y → act x g = some y)
    {start : α} {i : Nat} :
    ∀ (gs : List Int) (s s' : Induced α) (lab : List α),
      (∀ g ∈ gs, g ∈ letters n) →
      LInv act n Good start s.table lab → IndCache s lab → i < lab.length →
      inducedGens img i gs s = .ok s' →
      ∃ lab', LInv act n Good start s'.table lab' ∧ IndCache s' lab' ∧ lab.length ≤ lab'.length ∧
        (∀ c j, 0 ≤ cell s.table c j → 0 ≤ cell s'.table c j) ∧
        (∀ g ∈ gs, 0 ≤ cell s'.table i (colOf n g))
  | [], s, s', lab, _, hl, hc, _, h => by
    simp only [inducedGens, Outcome.ok.injEq] at h
    subst h
    exact ⟨lab, hl, hc, Nat.le_refl _, fun _ _ h => h, by simp⟩
  | g :: gs, s, s', lab, hgs, hl, hc, hi, h => by
    have hg : g ∈ letters n := hgs g (by simp)
    simp only [inducedGens] at h
    have hx : aLookup i s.n2o = some lab[i] := by rw [hc.n2o]; simp [hi]
    rw [hx] at h
    simp only at h
    have hlabi : lab[i]? = some lab[i] := by simp [hi]
    cases hk : img lab[i] g with
    | err => simp [hk] at h
    | panic => simp [hk] at h
    | ok k =>
      simp only [hk] at h
      have hak := himg _ g k (hl.good _ (List.getElem_mem hi)) hg hk
      obtain ⟨t', hj, hl', hdef, hmono⟩ := LInv_step hact hl hg hlabi hak
      rw [hc.o2n k] at h
      by_cases hm : k ∈ lab
      · rw [if_pos hm] at h hl'
        simp only at h
        rw [hj] at h
        simp only at h
        have hc' : IndCache (⟨t', s.o2n, aInsert (lab.idxOf k) k s.n2o⟩ : Induced α) lab := by
          refine ⟨hc.o2n, fun i' => ?_⟩
          rw [aLookup_aInsert, hc.n2o]
          by_cases e : (lab.idxOf k == i') = true
          · have e' : lab.idxOf k = i' := by simpa using e
            rw [if_pos e, ← e', List.getElem?_idxOf hm]
          · simp only [e, Bool.false_eq_true, if_false]
        obtain ⟨lab2, h1, h2, h3, h4, h5⟩ := inducedGens_spec hact himg gs _ s' lab
          (fun g' hg' => hgs g' (by simp [hg'])) hl' hc' hi h
        refine ⟨lab2, h1, h2, h3, fun c j hc'' => h4 c j (hmono c j hc''), ?_⟩
        intro g' hg'
        rcases List.mem_cons.mp hg' with rfl | hg'
        · exact h4 _ _ hdef
        · exact h5 g' hg'
      · rw [if_neg hm] at h hl'
        simp only at h
        have hlen : s.table.len = lab.length := hl.size
        have hidx : lab.idxOf k = lab.length := List.idxOf_of_notMem hm
        rw [hlen] at h
        rw [hidx] at hj
        rw [hj] at h
        simp only at h
        have hc' : IndCache (⟨t', s.o2n ++ [(k, lab.length)], aInsert lab.length k s.n2o⟩ : Induced α)
            (lab ++ [k]) := by
          constructor
          · intro k'
            rw [aLookup_append_single, hc.o2n k']
            by_cases hm' : k' ∈ lab
            · rw [if_pos hm', if_pos (List.mem_append_left _ hm'), List.idxOf_append_of_mem hm']
            · rw [if_neg hm']
              simp only
              by_cases e : (k == k') = true
              · have e' : k = k' := by simpa using e
                subst e'
                rw [if_pos e, if_pos (by simp), List.idxOf_append_of_notMem hm]
                simp
              · have e' : ¬ k' = k := by
                  intro e2; subst e2; simp at e
                rw [if_neg e, if_neg (by simp [hm', e'])]
          · intro i'
            rw [aLookup_aInsert, hc.n2o]
            by_cases e : (lab.length == i') = true
            · have e' : lab.length = i' := by simpa using e
              rw [if_pos e, ← e', List.getElem?_append_right (Nat.le_refl _)]
              simp
            · simp only [e, Bool.false_eq_true, if_false]
              have e' : ¬ lab.length = i' := by simpa using e
              by_cases hlt : i' < lab.length
              · rw [List.getElem?_append_left hlt]
              · rw [List.getElem?_eq_none (by omega), List.getElem?_eq_none (by simp; omega)]
        obtain ⟨lab2, h1, h2, h3, h4, h5⟩ := inducedGens_spec hact himg gs _ s' (lab ++ [k])
          (fun g' hg' => hgs g' (by simp [hg'])) hl' hc' (by simp; omega) h
        refine ⟨lab2, h1, h2, by simp at h3; omega, fun c j hc'' => h4 c j (hmono c j hc''), ?_⟩
        intro g' hg'
        rcases List.mem_cons.mp hg' with rfl | hg'
        · exact h4 _ _ hdef
        · exact h5 g' hg'


theorem inducedLoop_spec (hact : ActOk act n Good)
    (himg : ∀ x g y, Good x → g ∈ letters n → img x g = .ok y → act x g = some y) {start : α} :
    ∀ (fuel i : Nat) (s s' : Induced α) (lab : List α),
      LInv act n Good start s.table lab → IndCache s lab → Done n s.table i →
      inducedLoop img fuel i s = .ok s' →
      ∃ lab', LInv act n Good start s'.table lab' ∧ Done n s'.table s'.table.len
  | 0, i, s, s', lab, _, _, _, h => by simp [inducedLoop] at h
  | f + 1, i, s, s', lab, hl, hc, hd, h => by
    simp only [inducedLoop] at h
    by_cases hi : i ≥ s.table.len
    · rw [if_pos hi] at h
      injection h with h
      subst h
      exact ⟨lab, hl, fun c hc' => hd c (by omega)⟩
    · rw [if_neg hi] at h
      have hil : i < lab.length := by
        have : s.table.len = lab.length := hl.size
        omega
      cases hg : inducedGens img i s.table.allGens s with
      | err => simp [hg] at h
      | panic => simp [hg] at h
      | ok s1 =>
        simp only [hg] at h
        rw [allGens_eq hl.ngens] at hg
        obtain ⟨lab1, h1, h2, _, h4, h5⟩ := inducedGens_spec hact himg (letters n) s s1 lab
          (fun _ h => h) hl hc hil hg
        refine inducedLoop_spec hact himg f (i + 1) s1 s' lab1 h1 h2 ?_ h
        intro c hc' g hg'
        by_cases hci : c = i
        · subst hci; exact h5 g hg'
        · exact h4 _ _ (hd c (by omega) g hg')

theorem inducedTable_spec (hact : ActOk act n Good)
    (himg : ∀ x g y, Good x → g ∈ letters n → img x g = .ok y → act x g = some y) {start : α}
    (hstart : Good start) {fuel : Nat} {T : Table} (h : inducedTable n img start fuel = .ok T) :
    ∃ lab : List α,
      Plain T ∧ T.nrGens = n ∧ T.rows.size = lab.length ∧ lab[0]? = some start ∧ lab.Nodup ∧
      (∀ y ∈ lab, Good y ∧ ∃ w, (∀ g ∈ w, g ∈ letters n) ∧ iterAct act start w = some y) ∧
      (∀ (i : Nat) (g : Int) (x : α), lab[i]? = some x → g ∈ letters n →
        ∃ y j, act x g = some y ∧ T.get i g = .ok (some j) ∧ lab[j]? = some y) := by
  unfold inducedTable at h
  cases hloop : inducedLoop img fuel 0 (⟨Table.new n, [(start, 0)], [(0, start)]⟩ : Induced α) with
  | err => simp [hloop] at h
  | panic => simp [hloop] at h
  | ok s' =>
    simp only [hloop] at h
    have hl0 : LInv act n Good start (Table.new n) [start] := by
      refine ⟨plain_new n, rfl, rfl, rfl, List.nodup_singleton _, ?_, ?_, ?_, ?_, ?_⟩
      · intro y hy; simp only [List.mem_singleton] at hy; subst hy; exact hstart
      · intro y hy; simp only [List.mem_singleton] at hy; subst hy
        exact ⟨[], by simp, rfl⟩
      · intro c j; rw [cell_new]
      · intro c j _; exact cell_new n c j
      · intro c g _ hnn; rw [cell_new] at hnn; omega
    have hc0 : IndCache (⟨Table.new n, [(start, 0)], [(0, start)]⟩ : Induced α) [start] := by
      constructor
      · intro k
        simp only [aLookup, List.mem_singleton]
        by_cases e : (start == k) = true
        · have e' : start = k := by simpa using e
          subst e'
          simp
        · have e' : ¬ k = start := by
            intro e2; subst e2; simp at e
          simp [e, e']
      · intro i
        simp only [aLookup]
        by_cases e : (0 == i) = true
        · have e' : 0 = i := by simpa using e
          subst e'
          simp
        · have e' : ¬ 0 = i := by simpa using e
          simp only [e, Bool.false_eq_true, if_false]
          rw [List.getElem?_eq_none (by simp; omega)]
    obtain ⟨lab, hl, hd⟩ := inducedLoop_spec hact himg fuel 0 _ s' _ hl0 hc0 (fun c hc => by omega) hloop
    exact ⟨lab, labelled_result hl hd h⟩

end Induced

/-! ### `core_table` -/

section Core
variable {t : Tab} {n : Nat}

def TGood (t : Tab) (es : List Nat) : Prop := ∀ e ∈ es, e < t.size

theorem mapOpt_of_pointwise {f : Nat → Option Nat} : ∀ {es es' : List Nat},
    es'.length = es.length → (∀ k (h : k < es.length), f es[k] = es'[k]?) → mapOpt f es = some es'
  | [], es', hl, _ => by
    have : es' = [] := List.length_eq_zero_iff.mp hl
    subst this; rfl
  | e :: es, es', hl, hall => by
    cases es' with
    | nil => simp at hl
    | cons d r =>
      have h0 := hall 0 (by simp)
      simp only [List.getElem_cons_zero, List.getElem?_cons_zero] at h0
      have hr : mapOpt f es = some r := mapOpt_of_pointwise (by simpa using hl) (fun k hk => by
        have := hall (k + 1) (by simp; omega)
        simpa using this)
      simp only [mapOpt, h0, hr]

theorem tupleAct_ok (hi : InvConsistent t n) : ActOk (tupleAct t n) n (TGood t) := by
  constructor
  · intro es es' g _ h
    unfold tupleAct at h ⊢
    obtain ⟨hl, hall⟩ := mapOpt_some h
    apply mapOpt_of_pointwise hl.symm
    intro k hk
    have hk' : k < es.length := by omega
    have h1 := hall k hk'
    have h2 : es'[k]? = some es'[k] := by simp [hk]
    rw [h2] at h1
    rw [hi _ _ _ h1]
    simp [hk']
  · intro es es' g _ h e he
    unfold tupleAct at h
    obtain ⟨hl, hall⟩ := mapOpt_some h
    obtain ⟨k, hk, rfl⟩ := List.getElem_of_mem he
    have h1 := hall k (by omega)
    have h2 : es'[k]? = some es'[k] := by simp [hk]
    rw [h2] at h1
    exact (entry_some h1).1

theorem coreImg_tupleAct (hc : complete t n = true) : ∀ (es : List Nat) (g : Int) (r : List Nat),
    coreImg (Table.ofView n t) es g = .ok r → tupleAct t n es g = some r
  | [], g, r, h => by
    simp only [coreImg, Outcome.ok.injEq] at h
    subst h; rfl
  | e :: es, g, r, h => by
    simp only [coreImg] at h
    cases hg : (Table.ofView n t).get e g with
    | err => simp [hg] at h
    | panic => simp [hg] at h
    | ok o =>
      cases o with
      | none => simp [hg] at h
      | some d =>
        simp only [hg] at h
        cases hr : coreImg (Table.ofView n t) es g with
        | err => simp [hr] at h
        | panic => simp [hr] at h
        | ok r' =>
          simp only [hr, Outcome.ok.injEq] at h
          subst h
          have h1 := entry_of_get hc hg
          have h2 := coreImg_tupleAct hc es g r' hr
          unfold tupleAct at h2 ⊢
          simp only [mapOpt, h1, h2]

theorem coreTable_spec (hc : complete t n = true) (hi : InvConsistent t n) {T : Table}
    (h : coreTable (Table.ofView n t) = .ok T) :
    ∃ lab : List (List Nat),
      Plain T ∧ T.nrGens = n ∧ T.rows.size = lab.length ∧ lab[0]? = some (List.range t.size) ∧ lab.Nodup ∧
      (∀ y ∈ lab, TGood t y ∧ ∃ w, (∀ g ∈ w, g ∈ letters n) ∧
        iterAct (tupleAct t n) (List.range t.size) w = some y) ∧
      (∀ (i : Nat) (g : Int) (x : List Nat), lab[i]? = some x → g ∈ letters n →
        ∃ y j, tupleAct t n x g = some y ∧ T.get i g = .ok (some j) ∧ lab[j]? = some y) := by
  unfold coreTable at h
  have hn : (Table.ofView n t).nrGens = n := rfl
  have hl : (Table.ofView n t).len = t.size := by simp [Table.len, Table.ofView]
  rw [hn, hl] at h
  exact inducedTable_spec (tupleAct_ok hi)
    (fun x g y _ _ hxy => coreImg_tupleAct hc x g y hxy)
    (fun e he => List.mem_range.mp he) h

end Core


/-! ### a label list closed under the entries contains the whole orbit -/

theorem closed_of_entries {α : Type} {act : α → Int → Option α} {n : Nat} {lab : List α}
    (hent : ∀ (i : Nat) (g : Int) (x : α), lab[i]? = some x → g ∈ letters n →
      ∃ y, act x g = some y ∧ y ∈ lab) :
    ∀ (w : List Int), (∀ g ∈ w, g ∈ letters n) → ∀ (x y : α), x ∈ lab →
      iterAct act x w = some y → y ∈ lab
  | [], _, x, y, hx, h => by
    simp only [iterAct, Option.some.injEq] at h
    subst h; exact hx
  | g :: w, hw, x, y, hx, h => by
    obtain ⟨i, hi⟩ := List.getElem?_of_mem hx
    obtain ⟨y', hy', hm⟩ := hent i g x hi (hw g (by simp))
    simp only [iterAct, hy'] at h
    exact closed_of_entries hent w (fun g' hg' => hw g' (by simp [hg'])) y' y hm h

end DSymVerif.StabP
