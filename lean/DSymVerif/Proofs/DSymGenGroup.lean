/-
Lemmas for property C07, phase 2, part 4: the orbit maps form a group.  Because `orbit_maps` is
the action of all automorphisms of the D-set on the orbit numbers (part 3) and automorphisms are
closed under identity, composition and inverse, the maps satisfy `GroupMaps` — so
`canonical_one_per_class` applies without hypothesis to every context built by `new` for a
connected complete D-set.
-/
import DSymVerif.Proofs.DSymGenAut

namespace DSymVerif.SymGen
open DSymVerif.DS DSymVerif.Mor

theorem act_getD (m vs : List Nat) (k : Nat) (hk : k < vs.length) :
    (act m vs).getD k 0 = vs.getD (m.getD k 0) 0 := by
  unfold act
  simp [List.getD, List.getElem?_map, List.getElem?_range hk]

theorem act_ext {m m' vs : List Nat} (h : ∀ k, k < vs.length → m.getD k 0 = m'.getD k 0) :
    act m vs = act m' vs := by
  unfold act
  apply List.map_congr_left
  intro k hk
  rw [h k (List.mem_range.mp hk)]

section
variable {ds : DSetData} {index : Array (Array Nat)} {count : Nat}
  (ok : IndexOK ds index count)
include ok

/-- the entries of an induced map -/
theorem induces_entry {f : Nat → Nat} {m : List Nat} (hm : Induces ds index count f m) (hf : IsAut ds f)
    (k : Nat) (hk : k < count) :
    ∃ i d, i < ds.dim ∧ 1 ≤ d ∧ d ≤ ds.size ∧ ixOf index i d = k ∧
      m.getD k 0 = ixOf index i (f d) ∧ m.getD k 0 < count := by
  obtain ⟨i, d, hi, h1, h2, hx⟩ := ok.surj k hk
  have r := hf.range d h1 h2
  refine ⟨i, d, hi, h1, h2, hx, by rw [← hx]; exact hm.2 i d hi h1 h2, ?_⟩
  rw [← hx, hm.2 i d hi h1 h2]
  exact ok.lt i (f d) hi r.1 r.2

/-- maps induced by automorphisms compose like the automorphisms -/
theorem act_comp {f1 f2 f3 : Nat → Nat} {m1 m2 m3 : List Nat}
    (h1 : Induces ds index count f1 m1) (h2 : Induces ds index count f2 m2)
    (h3 : Induces ds index count f3 m3) (a2 : IsAut ds f2)
    (hc : ∀ d, 1 ≤ d → d ≤ ds.size → f3 d = f1 (f2 d))
    (vs : List Nat) (hl : vs.length = count) : act m2 (act m1 vs) = act m3 vs := by
  have hl1 : (act m1 vs).length = count := by rw [act_length, hl]
  apply list_ext_getD _ _ (by rw [act_length, act_length, act_length])
  intro k hk
  have hk' : k < count := by rw [act_length, hl1] at hk; exact hk
  obtain ⟨i, d, hi, hd1, hd2, hx, he, hlt⟩ := induces_entry ok h2 a2 k hk'
  rw [act_getD _ _ k (by rw [hl1]; exact hk'), act_getD _ _ _ (by rw [hl]; exact hlt),
    act_getD _ _ k (by rw [hl]; exact hk')]
  have r2 := a2.range d hd1 hd2
  rw [he, h1.2 i (f2 d) hi r2.1 r2.2, ← hx, h3.2 i d hi hd1 hd2, hc d hd1 hd2]

theorem act_id {m : List Nat} (hm : Induces ds index count (fun d => d) m)
    (vs : List Nat) (hl : vs.length = count) : act m vs = vs := by
  apply list_ext_getD _ _ (act_length m vs)
  intro k hk
  have hk' : k < count := by rw [act_length, hl] at hk; exact hk
  obtain ⟨i, d, hi, hd1, hd2, hx⟩ := ok.surj k hk'
  rw [act_getD _ _ k (by rw [hl]; exact hk'), ← hx, hm.2 i d hi hd1 hd2]

end

theorem isAut_id (ds : DSetData) : IsAut ds (fun d => d) :=
  ⟨fun _ h1 h2 => ⟨h1, h2⟩, fun _ _ _ _ _ => rfl⟩

theorem isAut_comp {ds : DSetData} {f g : Nat → Nat} (hf : IsAut ds f) (hg : IsAut ds g) :
    IsAut ds (fun d => f (g d)) := by
  refine ⟨fun d h1 h2 => ?_, fun i d hi h1 h2 => ?_⟩
  · have r := hg.range d h1 h2
    exact hf.range _ r.1 r.2
  · have r := hg.range d h1 h2
    show f (g (ds.opU i d)) = ds.opU i (f (g d))
    rw [hg.comm i d hi h1 h2, hf.comm i _ hi r.1 r.2]

/-- the inverse of an automorphism of a connected D-set is an automorphism -/
theorem isAut_inv {ds : DSetData} (hds : ValidSet ds) (hc : ds.viewSimple.isConnected = true)
    (h1 : 1 ≤ ds.size) {f : Nat → Nat} (hf : IsAut ds f) :
    ∃ g, IsAut ds g ∧ ∀ d, 1 ≤ d → d ≤ ds.size → f (g d) = d := by
  obtain ⟨hinj, hsurj⟩ := aut_bijective hds hc h1 hf
  classical
  let g : Nat → Nat := fun d =>
    if h : ∃ x, 1 ≤ x ∧ x ≤ ds.size ∧ f x = d then Classical.choose h else d
  have hg : ∀ d, 1 ≤ d → d ≤ ds.size → (1 ≤ g d ∧ g d ≤ ds.size) ∧ f (g d) = d := by
    intro d hd1 hd2
    have hex := hsurj d hd1 hd2
    have hspec := Classical.choose_spec hex
    simp only [g, dif_pos hex]
    exact ⟨⟨hspec.1, hspec.2.1⟩, hspec.2.2⟩
  refine ⟨g, ⟨fun d hd1 hd2 => (hg d hd1 hd2).1, fun i d hi hd1 hd2 => ?_⟩, fun d hd1 hd2 => (hg d hd1 hd2).2⟩
  have hx := hg d hd1 hd2
  have ro := hds.range i d hi hd1 hd2
  have hy := hg (ds.opU i d) ro.1 ro.2
  have rx := hds.range i (g d) hi hx.1.1 hx.1.2
  apply hinj _ _ hy.1.1 hy.1.2 rx.1 rx.2
  rw [hy.2, hf.comm i (g d) hi hx.1.1 hx.1.2, hx.2]

/-- **the orbit maps form a group of permutations of the orbit numbers** -/
theorem groupMaps_of_spec {ds : DSetData} (hds : ValidSet ds) (hc : ds.viewSimple.isConnected = true)
    (h1 : 1 ≤ ds.size) {index : Array (Array Nat)} {count : Nat} (ok : IndexOK ds index count)
    {ms : List (List Nat)}
    (hA : ∀ m, m ∈ ms → ∃ f, IsAut ds f ∧ Induces ds index count f m)
    (hB : ∀ f, IsAut ds f → ∃ m, m ∈ ms ∧ Induces ds index count f m) : GroupMaps count ms := by
  obtain ⟨mid, hmid, hid⟩ := hB _ (isAut_id ds)
  refine ⟨fun m hm => ?_, ⟨mid, hmid, fun vs hl => act_id ok hid vs hl⟩, fun m1 hm1 m2 hm2 => ?_,
    fun m hm => ?_⟩
  · obtain ⟨f, hf, hind⟩ := hA m hm
    exact ⟨hind.1, fun k hk => by
      obtain ⟨_, _, _, _, _, _, _, hlt⟩ := induces_entry ok hind hf k hk
      exact hlt⟩
  · obtain ⟨f1, a1, i1⟩ := hA m1 hm1
    obtain ⟨f2, a2, i2⟩ := hA m2 hm2
    obtain ⟨m3, hm3, i3⟩ := hB _ (isAut_comp a1 a2)
    exact ⟨m3, hm3, fun vs hl => act_comp ok i1 i2 i3 a2 (fun _ _ _ => rfl) vs hl⟩
  · obtain ⟨f, a, ind⟩ := hA m hm
    obtain ⟨g, ag, hfg⟩ := isAut_inv hds hc h1 a
    obtain ⟨m', hm', ind'⟩ := hB g ag
    refine ⟨m', hm', fun vs hl => ?_⟩
    rw [act_comp ok ind ind' hid ag (fun d h1' h2' => (hfg d h1' h2').symm) vs hl]
    exact act_id ok hid vs hl

/-! ### every context built by `new` -/

/-- for a connected complete D-set with non-negative base curvature, `new` stores the orbit maps,
    they are exactly the action of the automorphisms on the orbit numbers, and they form a group -/
theorem mkCtx_maps {ds : DSetData} {g : Geom} {c : Ctx} (h : mkCtx ds g = .ok c) (hds : ValidSet ds)
    (hc : ds.viewSimple.isConnected = true) (h1 : 1 ≤ ds.size) (hnb : ¬ c.baseCurv < 0) :
    ∃ ms, c.maps = some ms ∧ IndexOK ds c.orbitIndex c.count ∧
      (∀ m, m ∈ ms → ∃ f, IsAut ds f ∧ Induces ds c.orbitIndex c.count f m) ∧
      (∀ f, IsAut ds f → ∃ m, m ∈ ms ∧ Induces ds c.orbitIndex c.count f m) ∧
      GroupMaps c.count ms := by
  obtain ⟨_, _, _, hvm, hix, _, _, _, _, hm2⟩ := mkCtx_fields h
  obtain ⟨ms, hms, horb⟩ := hm2 hnb
  have hcount : c.count = (collectOrbits ds).rs.size := by
    unfold Ctx.count; rw [hvm]; simp [computeVmins]
  have ok : IndexOK ds c.orbitIndex c.count := by
    rw [hix, hcount]; exact indexOK_collect hds
  obtain ⟨ms', hms', hA, hB⟩ := orbitMaps_spec hds hc h1 (indexOK_collect hds)
  have hlen : c.vmins.length = (collectOrbits ds).rs.size := hcount
  rw [hlen, hms'] at horb
  have hmm : ms' = ms := Outcome.ok.inj horb
  subst hmm
  rw [← hix, ← hcount] at hA hB
  exact ⟨ms', hms, ok, hA, hB, groupMaps_of_spec hds hc h1 ok hA hB⟩

/-- on a connected complete D-set `new` does not panic (the only fallible step, `orbit_maps`,
    succeeds) -/
theorem mkCtx_ok {ds : DSetData} (g : Geom) (hds : ValidSet ds) (hc : ds.viewSimple.isConnected = true)
    (h1 : 1 ≤ ds.size) : ∃ c, mkCtx ds g = .ok c := by
  have hsz := collectOrbits_sizes ds
  have hbase : ∃ b, baseCurvature ds.size (computeVmins (collectOrbits ds).rs.toList)
      (collectOrbits ds).isChain.toList = .ok b := by
    unfold baseCurvature
    rw [baseLoop_eq _ _ (by simp [computeVmins, hsz]) (fun i hi => by
      have := (computeVmins_getD _ i hi).1; omega) _ (fun i hi => List.mem_range.mp hi)]
    exact ⟨_, rfl⟩
  obtain ⟨b, hb⟩ := hbase
  obtain ⟨ms, hms, _⟩ := orbitMaps_spec hds hc h1 (indexOK_collect hds)
  unfold mkCtx
  simp only [hb]
  by_cases hge : b ≥ 0
  · rw [if_pos hge]
    have : (computeVmins (collectOrbits ds).rs.toList).length = (collectOrbits ds).rs.size := by
      simp [computeVmins]
    rw [this, hms]
    exact ⟨_, rfl⟩
  · rw [if_neg hge]
    exact ⟨_, rfl⟩

end DSymVerif.SymGen
