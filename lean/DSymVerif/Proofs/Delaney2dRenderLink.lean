/-
Helper lemmas for property C08, part 31: the theorems about the structured answer of
`orbifold_symbol` transferred to the returned string: whatever `orbifold_symbol` answers on a good
2D symbol has orders ≥ 1, so `Delaney2dRender.parse_render` applies, and the orbifold the Spec's
parser reads from the string has the χ, the `bad` flag and the `sameOrbifold` class of `orbOf o`.
-/
import DSymVerif.Proofs.Delaney2dLiftGenus
import DSymVerif.Proofs.Delaney2dRender

namespace DSymVerif.D2
open DSymVerif.DS DSymVerif.SpecC08

/-- whatever `orbifold_symbol` answers on a good 2D symbol carries the census -/
theorem symbolCensus_of_ok {s : Sym} (g : Good2d s) {o : OrbSym} (hos : orbifoldSymbol s = .ok o) :
    SymbolCensus s o := by
  obtain ⟨o', hx⟩ := symbolCensus_of_parity g (parityMonitor_holds g hos)
  have := hx.sym
  rw [hos] at this
  cases this
  exact hx

/-- the orders `orbifold_symbol` prints are at least 1 (in fact at least 2) -/
theorem degrees_ge_one {s : Sym} (g : Good2d s) {o : OrbSym} (hos : orbifoldSymbol s = .ok o) :
    ∀ v ∈ o.cones ++ o.bnds.flatten, 1 ≤ v := by
  obtain ⟨h1, h2⟩ := orbOf_wf (symbolCensus_of_ok g hos)
  intro v hv
  rw [List.mem_append, List.mem_flatten] at hv
  rcases hv with hv | ⟨c, hc, hv⟩
  · exact h1 v hv
  · exact h2 c hc v hv

/-- an orbifold read from the returned string is, for χ, `bad` and `sameOrbifold`, the orbifold of
    the structured answer -/
theorem read_equiv {o : OrbSym} {o' : Orb} (h2 : o'.bnds = o.bnds)
    (h3 : o'.handles = (orbRead o).handles) (h4 : o'.caps = (orbRead o).caps)
    (h5 : o'.cones = o.cones ∨ (o.cones = [] ∧ o'.cones = [1])) :
    chiQ o' = chiQ (orbOf o) ∧ bad o' = bad (orbOf o) ∧
    (∀ x, sameOrbifold o' x = sameOrbifold (orbOf o) x) ∧
    (∀ x, sameOrbifold x o' = sameOrbifold x (orbOf o)) := by
  obtain ⟨c', b', hh', k'⟩ := o'
  simp only at h2 h3 h4 h5
  subst h2 h3 h4
  rcases h5 with h5 | ⟨h5, h6⟩
  · subst h5
    exact ⟨rfl, rfl, fun _ => rfl, fun _ => rfl⟩
  · subst h6
    unfold chiQ bad sameOrbifold orbOf orbRead
    simp only [h5]
    refine ⟨?_, ?_, ?_, ?_⟩
    · simp [dq]
    · simp [proper]
    · intro x; simp [proper]
    · intro x; simp [proper]

/-- **the returned string, read by the Spec's parser, names the orbifold of the structured answer** -/
theorem string_read {s : Sym} (g : Good2d s) {o : OrbSym} (hos : orbifoldSymbol s = .ok o) :
    orbifoldSymbolString s = .ok o.render ∧
    ∃ o', parseSymbol o.render = some o' ∧ chiQ o' = chiQ (orbOf o) ∧ bad o' = bad (orbOf o) ∧
      (∀ x, sameOrbifold o' x = sameOrbifold (orbOf o) x) ∧
      (∀ x, sameOrbifold x o' = sameOrbifold x (orbOf o)) := by
  refine ⟨by unfold orbifoldSymbolString; rw [hos], ?_⟩
  obtain ⟨o', hp, h2, h3, h4, h5⟩ := parse_render o (degrees_ge_one g hos)
  obtain ⟨e1, e2, e3, e4⟩ := read_equiv h2 h3 h4 h5
  exact ⟨o', hp, e1, e2, e3, e4⟩

end DSymVerif.D2
