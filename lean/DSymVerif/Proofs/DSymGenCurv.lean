/-
Lemmas about the model of the D-symbol generator, part 4: the scaled integer curvature is
exact.  `CURV_FAC` (read from the source) is divisible by 2 and by every branching number
1..7 the `for v` loop can produce, so every truncating division `k * CURV_FAC / v` of the
bookkeeping is exact and `scaled = CURV_FAC × (Σ_orbits k/v − size/2)` in ℚ — the crate's
`curvature` normalisation (Σ_chambers (1/m01 + 1/m12 − 1/2)).
-/
import Mathlib.Data.Rat.Defs
import Mathlib.Tactic.FieldSimp
import Mathlib.Tactic.Ring
import Mathlib.Tactic.Linarith
import Mathlib.Algebra.Order.Field.Rat
import Mathlib.Algebra.BigOperators.Group.List.Basic
import DSymVerif.Proofs.DSymGenCtx

namespace DSymVerif.SymGen
open DSymVerif.DS

/-- `CURV_FAC` is positive, even, and divisible by every value of the `for v in vmin..=7` loop
    (re-checked on the generated constants on every run) -/
theorem curvFac_table :
    0 < Tables.curvFac ∧ Tables.curvFac % 2 = 0 ∧
    ((List.range' 1 Tables.genVMax).all fun v => Tables.curvFac % (v : Int) == 0) = true ∧
    Tables.chamberDivisor = 2 := by decide

theorem curvFac_pos : 0 < curvFac := curvFac_table.1

theorem two_dvd_curvFac : (2 : Int) ∣ curvFac := Int.dvd_of_emod_eq_zero curvFac_table.2.1

theorem dvd_curvFac (v : Nat) (h1 : 1 ≤ v) (h2 : v ≤ Tables.genVMax) : ((v : Nat) : Int) ∣ curvFac := by
  have hm : v ∈ List.range' 1 Tables.genVMax := by
    rw [List.mem_range'_1]; omega
  have := List.all_eq_true.mp curvFac_table.2.2.1 v hm
  have h0 : Tables.curvFac % ((v : Nat) : Int) = 0 := by simpa using this
  exact Int.dvd_of_emod_eq_zero h0

theorem kOf_cases (b : Bool) : kOf b = 1 ∨ kOf b = 2 := by
  cases b <;> simp [kOf]

/-- **every division of the bookkeeping is exact** -/
theorem termZ_exact (c : Ctx) (i v : Nat) (h1 : 1 ≤ v) (h2 : v ≤ Tables.genVMax) :
    termZ c i v * (v : Int) = kAt c i * curvFac ∧
    ((termZ c i v : Int) : ℚ) = (curvFac : ℚ) * ((kAt c i : ℚ) / (v : ℚ)) := by
  have hd : ((v : Nat) : Int) ∣ kAt c i * curvFac := Dvd.dvd.mul_left (dvd_curvFac v h1 h2) _
  have hv0 : ((v : Nat) : Int) ≠ 0 := by omega
  have h : termZ c i v * (v : Int) = kAt c i * curvFac := by
    unfold termZ
    rw [Int.tdiv_eq_ediv_of_dvd hd]
    exact Int.ediv_mul_cancel hd
  refine ⟨h, ?_⟩
  have hq : ((termZ c i v : Int) : ℚ) * (v : ℚ) = (kAt c i : ℚ) * (curvFac : ℚ) := by
    exact_mod_cast h
  have hvq : (v : ℚ) ≠ 0 := by exact_mod_cast (show v ≠ 0 by omega)
  field_simp
  linarith

theorem half_exact (n : Nat) :
    ((Int.tdiv (-curvFac) Tables.chamberDivisor * (n : Int) : Int) : ℚ) = (curvFac : ℚ) * (-(n : ℚ) / 2) := by
  rw [curvFac_table.2.2.2]
  have hd : (2 : Int) ∣ -curvFac := (Int.dvd_neg).mpr two_dvd_curvFac
  have h : Int.tdiv (-curvFac) 2 * 2 = -curvFac := by
    rw [Int.tdiv_eq_ediv_of_dvd hd]
    exact Int.ediv_mul_cancel hd
  have hq : ((Int.tdiv (-curvFac) 2 : Int) : ℚ) * 2 = -(curvFac : ℚ) := by exact_mod_cast h
  have ht : ((Int.tdiv (-curvFac) 2 : Int) : ℚ) = -(curvFac : ℚ) / 2 := by linarith
  push_cast
  rw [ht]
  ring

/-- the exact rational curvature of the branching vector `vs` on the context's D-set, from the
    generator's orbit tables: Σ_orbits k/v − size/2, k = 1 for a chain, 2 for a cycle -/
def curvQ (c : Ctx) (vs : List Nat) : ℚ :=
  ((List.range c.count).map fun i => (kAt c i : ℚ) / (vs.getD i 0 : ℚ)).sum - (c.dset.size : ℚ) / 2

theorem cast_sum_map (l : List Nat) (f : Nat → Int) :
    (((l.map f).sum : Int) : ℚ) = (l.map fun i => ((f i : Int) : ℚ)).sum := by
  induction l with
  | nil => simp
  | cons a t ih => simp only [List.map_cons, List.sum_cons]; push_cast; rw [ih]

theorem sum_map_mul_left (l : List Nat) (a : ℚ) (f : Nat → ℚ) :
    (l.map fun i => a * f i).sum = a * (l.map f).sum := by
  induction l with
  | nil => simp
  | cons x t ih => simp only [List.map_cons, List.sum_cons]; rw [ih]; ring

/-- **scaled_curvature_exact** (closed form): for branching numbers in 1..7 the integer
    bookkeeping value is exactly `CURV_FAC ×` the rational curvature -/
theorem scaled_exact (c : Ctx) (vs : List Nat)
    (h : ∀ i, i < c.count → 1 ≤ vs.getD i 0 ∧ vs.getD i 0 ≤ Tables.genVMax) :
    ((scaled c vs : Int) : ℚ) = (curvFac : ℚ) * curvQ c vs := by
  unfold scaled curvQ
  rw [Int.cast_add, half_exact, cast_sum_map]
  have : ((List.range c.count).map fun i => ((termZ c i (vs.getD i 0) : Int) : ℚ)) =
      (List.range c.count).map fun i => (curvFac : ℚ) * ((kAt c i : ℚ) / (vs.getD i 0 : ℚ)) := by
    apply List.map_congr_left
    intro i hi
    have := h i (List.mem_range.mp hi)
    exact (termZ_exact c i _ this.1 this.2).2
  rw [this, sum_map_mul_left]
  ring

/-- sign of the bookkeeping value = sign of the curvature -/
theorem scaled_sign (c : Ctx) (vs : List Nat)
    (h : ∀ i, i < c.count → 1 ≤ vs.getD i 0 ∧ vs.getD i 0 ≤ Tables.genVMax) :
    (scaled c vs < 0 ↔ curvQ c vs < 0) ∧ (scaled c vs = 0 ↔ curvQ c vs = 0) ∧
    (0 < scaled c vs ↔ 0 < curvQ c vs) := by
  have he := scaled_exact c vs h
  have hp : (0 : ℚ) < (curvFac : ℚ) := by exact_mod_cast curvFac_pos
  refine ⟨?_, ?_, ?_⟩
  · rw [← Int.cast_lt (R := ℚ), he, Int.cast_zero]
    constructor
    · intro h1; by_contra h2; have h2' := not_lt.mp h2; nlinarith
    · intro h1; nlinarith
  · rw [← Int.cast_inj (α := ℚ), he, Int.cast_zero]
    constructor
    · intro h1; rcases mul_eq_zero.mp h1 with h2 | h2
      · linarith
      · exact h2
    · intro h1; rw [h1]; ring
  · rw [← Int.cast_lt (R := ℚ), he, Int.cast_zero]
    constructor
    · intro h1; by_contra h2; have h2' := not_lt.mp h2; nlinarith
    · intro h1; nlinarith

end DSymVerif.SymGen
