/-
C12, group-theoretic reading, part 1: valid tables are isomorphic iff the stabilisers of row 0
in the presented group are conjugate.
-/
import DSymVerif.Proofs.CosetIndex
import DSymVerif.Proofs.LowIndexGeneral

namespace DSymVerif.CanonP
open DSymVerif DSymVerif.Cosets DSymVerif.SpecC11 DSymVerif.SpecC12 DSymVerif.CosetP DSymVerif.RebaseP
open DSymVerif.CosetSoundP

section
variable {n : Nat} {rels : List (List Int)}

/-- two subgroups are conjugate -/
def SubConj {G : Type} [Group G] (H K : Subgroup G) : Prop := ∃ y : G, ∀ x, x ∈ K ↔ y⁻¹ * x * y ∈ H

theorem SubConj.symm {G : Type} [Group G] {H K : Subgroup G} (h : SubConj H K) : SubConj K H := by
  obtain ⟨y, hy⟩ := h
  refine ⟨y⁻¹, fun x => ?_⟩
  rw [hy]
  have : y⁻¹ * (y⁻¹⁻¹ * x * y⁻¹) * y = x := by group
  rw [this]

/-- the image of a point under the permutation of a word, by tracing the inverse word -/
theorem act_word {t : Tab} (hv : Valid t n rels []) (w : List Int) (hw : ∀ g ∈ w, g ∈ letters n)
    (p : Fin t.size) :
    ∃ c : Fin t.size, traceWord t n c.val w = some p.val ∧ actionHom hv (wbar n rels w) p = c := by
  have hwi : ∀ g ∈ w.reverse.map (fun x => -x), g ∈ letters n := by
    intro g hg
    simp only [List.mem_map, List.mem_reverse] at hg
    obtain ⟨y, hy, rfl⟩ := hg
    exact neg_mem_letters (hw y hy)
  obtain ⟨c, hc⟩ := traceWord_total hv _ p.val p.isLt hwi
  have hcl : c < t.size := traceWord_lt p.isLt hc
  have hback := trace_inverse' hv.inv _ p.val c hc
  have hinvinv : (w.reverse.map (fun x => -x)).reverse.map (fun x => -x) = w := by
    simp [List.map_reverse, Function.comp_def]
  rw [hinvinv] at hback
  exact ⟨⟨c, hcl⟩, hback, actionHom_trace hv w ⟨c, hcl⟩ p hback⟩

/-- an isomorphism of valid tables commutes with the actions of the presented group -/
theorem act_equivariant {A B : Tab} {σ : Nat → Nat} (iso : TabIso A B n σ) (hvA : Valid A n rels [])
    (hvB : Valid B n rels []) (x : G n rels) (p : Fin A.size) (hp : σ p.val < B.size) :
    (actionHom hvB x ⟨σ p.val, hp⟩).val = σ (actionHom hvA x p).val := by
  obtain ⟨w, hw, rfl⟩ := exists_wbar x
  have hwl : ∀ g ∈ w, g ∈ letters n := fun g hg => by rw [← allGensOf_eq_letters]; exact hw g hg
  obtain ⟨c, hc, hac⟩ := act_word hvA w hwl p
  rw [hac]
  have htr := trace_iso iso w c.val c.isLt
  rw [hc] at htr
  simp only [Option.map_some] at htr
  have hσc : σ c.val < B.size := by rw [iso.size]; exact iso.lt _ c.isLt
  have := actionHom_trace hvB w ⟨σ c.val, hσc⟩ ⟨σ p.val, hp⟩ htr
  show (actionHom hvB (PresentedGroup.mk _ (wordElt n w)) ⟨σ p.val, hp⟩).val = σ c.val
  rw [this]

/-- isomorphic valid tables have conjugate point stabilisers -/
theorem stab_conj_of_iso {A B : Tab} {σ : Nat → Nat} (iso : TabIso A B n σ) (hvA : Valid A n rels [])
    (hvB : Valid B n rels []) : SubConj (stab0 hvA) (stab0 hvB) := by
  obtain ⟨c0, hc0, hσ0⟩ := iso.surj 0 hvA.pos
  obtain ⟨y, hy⟩ := actionHom_transitive hvA ⟨c0, hc0⟩
  refine ⟨y, fun x => ?_⟩
  rw [mem_stab0, mem_stab0]
  have h0B : σ (⟨c0, hc0⟩ : Fin A.size).val < B.size := by rw [hσ0]; exact hvB.pos
  have heq := act_equivariant iso hvA hvB x ⟨c0, hc0⟩ h0B
  have hpt : (⟨σ (⟨c0, hc0⟩ : Fin A.size).val, h0B⟩ : Fin B.size) = ⟨0, hvB.pos⟩ := Fin.ext hσ0
  rw [hpt] at heq
  constructor
  · intro h
    rw [h] at heq
    simp only [] at heq
    have hinj := iso.inj _ _ (actionHom hvA x ⟨c0, hc0⟩).isLt hc0 (by rw [← heq, hσ0])
    have hfix : actionHom hvA x ⟨c0, hc0⟩ = ⟨c0, hc0⟩ := Fin.ext hinj
    rw [map_mul, map_mul, Equiv.Perm.mul_apply, Equiv.Perm.mul_apply, hy, hfix, ← hy]
    simp
  · intro h
    rw [map_mul, map_mul, Equiv.Perm.mul_apply, Equiv.Perm.mul_apply, hy] at h
    have hfix : actionHom hvA x ⟨c0, hc0⟩ = ⟨c0, hc0⟩ := by
      have := congrArg (actionHom hvA y) h
      rw [hy] at this
      simpa using this
    rw [hfix] at heq
    exact Fin.ext (by rw [heq]; exact hσ0)

/-- conjugate point stabilisers: an equivariant injection of the rows -/
theorem emb_of_stab_conj {A B : Tab} (hvA : Valid A n rels []) (hvB : Valid B n rels [])
    (h : SubConj (stab0 hvA) (stab0 hvB)) :
    ∃ f : Fin A.size → Fin B.size, Function.Injective f ∧
      ∀ (z : G n rels) (c : Fin A.size), actionHom hvB z (f c) = f (actionHom hvA z c) := by
  obtain ⟨y, hy⟩ := h
  let zA : Fin A.size := ⟨0, hvA.pos⟩
  let zB : Fin B.size := ⟨0, hvB.pos⟩
  let b0 : Fin B.size := actionHom hvB y⁻¹ zB
  have hb0 : ∀ x, actionHom hvB x b0 = b0 ↔ x ∈ stab0 hvA := by
    intro x
    have h1 : actionHom hvB x b0 = b0 ↔ y * x * y⁻¹ ∈ stab0 hvB := by
      rw [mem_stab0]
      show actionHom hvB x (actionHom hvB y⁻¹ zB) = actionHom hvB y⁻¹ zB ↔ _
      rw [map_mul, map_mul, Equiv.Perm.mul_apply, Equiv.Perm.mul_apply]
      constructor
      · intro h'
        show actionHom hvB y (actionHom hvB x (actionHom hvB y⁻¹ zB)) = zB
        rw [h']
        simp
      · intro h'
        have h'' : actionHom hvB y (actionHom hvB x (actionHom hvB y⁻¹ zB)) = zB := h'
        have := congrArg (actionHom hvB y⁻¹) h''
        simpa using this
    rw [h1, hy]
    have : y⁻¹ * (y * x * y⁻¹) * y = x := by group
    rw [this]
  let xc : Fin A.size → G n rels := fun c => Classical.choose (actionHom_transitive hvA c)
  have hxc : ∀ c, actionHom hvA (xc c) zA = c := fun c => Classical.choose_spec (actionHom_transitive hvA c)
  let f : Fin A.size → Fin B.size := fun c => actionHom hvB (xc c) b0
  have key : ∀ x c, actionHom hvA x zA = c → actionHom hvB x b0 = f c := by
    intro x c hx
    have hmem : (xc c)⁻¹ * x ∈ stab0 hvA := by
      rw [mem_stab0, map_mul, Equiv.Perm.mul_apply]
      show actionHom hvA (xc c)⁻¹ (actionHom hvA x zA) = zA
      rw [hx, map_inv, Equiv.Perm.inv_eq_iff_eq, hxc]
    have := (hb0 _).mpr hmem
    rw [map_mul, Equiv.Perm.mul_apply, map_inv, Equiv.Perm.inv_eq_iff_eq] at this
    exact this
  refine ⟨f, ?_, ?_⟩
  · intro c c' hcc
    have h1 : actionHom hvB ((xc c')⁻¹ * xc c) b0 = b0 := by
      rw [map_mul, Equiv.Perm.mul_apply, map_inv, Equiv.Perm.inv_eq_iff_eq]
      exact hcc
    have h2 := (hb0 _).mp h1
    rw [mem_stab0, map_mul, Equiv.Perm.mul_apply, map_inv, Equiv.Perm.inv_eq_iff_eq] at h2
    have h2' : actionHom hvA (xc c) zA = actionHom hvA (xc c') zA := h2
    rw [hxc, hxc] at h2'
    exact h2'
  · intro z c
    show actionHom hvB z (actionHom hvB (xc c) b0) = f (actionHom hvA z c)
    rw [← Equiv.Perm.mul_apply, ← map_mul]
    apply key
    rw [map_mul, Equiv.Perm.mul_apply, hxc]

/-- valid tables with conjugate point stabilisers are isomorphic -/
theorem iso_of_stab_conj {A B : Tab} (hvA : Valid A n rels []) (hvB : Valid B n rels [])
    (h : SubConj (stab0 hvA) (stab0 hvB)) : ∃ σ, TabIso A B n σ := by
  obtain ⟨f, hinj, heq⟩ := emb_of_stab_conj hvA hvB h
  obtain ⟨f', hinj', _⟩ := emb_of_stab_conj hvB hvA h.symm
  have hsz : B.size = A.size := by
    have h1 := Fintype.card_le_of_injective f hinj
    have h2 := Fintype.card_le_of_injective f' hinj'
    simp only [Fintype.card_fin] at h1 h2
    omega
  let σ : Nat → Nat := fun c => if hc : c < A.size then (f ⟨c, hc⟩).val else c
  have hσ : ∀ c (hc : c < A.size), σ c = (f ⟨c, hc⟩).val := fun c hc => by simp only [σ, dif_pos hc]
  refine ⟨σ, hsz, ?_, ?_, ?_⟩
  · intro c hc
    rw [hσ c hc]
    have := (f ⟨c, hc⟩).isLt
    omega
  · intro a b ha hb hab
    rw [hσ a ha, hσ b hb] at hab
    have := hinj (Fin.ext hab)
    exact congrArg Fin.val this
  · intro c g hc
    rw [hσ c hc]
    by_cases hg : g ∈ letters n
    · obtain ⟨d, hd⟩ := hvA.total c hc g hg
      have hdl : d < A.size := (entry_some hd).1
      obtain ⟨d', hd'⟩ := hvB.total (f ⟨c, hc⟩).val (f ⟨c, hc⟩).isLt g hg
      have hdl' : d' < B.size := (entry_some hd').1
      rw [hd, hd']
      simp only [Option.map_some, Option.some.injEq]
      rw [hσ d hdl]
      have tA : traceWord A n c [g] = some d := by simp [traceWord, hd]
      have tB : traceWord B n (f ⟨c, hc⟩).val [g] = some d' := by simp [traceWord, hd']
      have aA := actionHom_trace hvA [g] ⟨c, hc⟩ ⟨d, hdl⟩ tA
      have aB := actionHom_trace hvB [g] (f ⟨c, hc⟩) ⟨d', hdl'⟩ tB
      have e := heq (PresentedGroup.mk _ (wordElt n [g])) ⟨d, hdl⟩
      rw [aA, ← aB] at e
      have := (actionHom hvB (PresentedGroup.mk _ (wordElt n [g]))).injective e
      exact (congrArg Fin.val this).symm
    · have hcol : col n g = none := by
        cases hcg : col n g with
        | none => rfl
        | some j => exact absurd (col_isSome.mp (by rw [hcg]; rfl)) hg
      rw [entry_of_col_none hcol, entry_of_col_none hcol]
      rfl

end

end DSymVerif.CanonP
