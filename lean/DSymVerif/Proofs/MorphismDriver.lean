/-
Helper lemmas for property C04, part 18: the driver's decoding.  For every transmitted table in
the domain of the theorems (`DrvC04View.inDomain` = `SpecC03.inDomain`), `RawSym.toSym` returns a
valid connected symbol (C03 `decode_raw_valid`) and the driver's Spec view `specS` describes that
very symbol (`SpecAgrees`): same operations, same degrees.
-/
import DSymVerif.Driver.C04View
import DSymVerif.Proofs.MorphismSpecC
import DSymVerif.Props.C03

namespace DSymVerif.SpecC04P
open DSymVerif.SpecC04 DSymVerif.Mor DSymVerif.DS DSymVerif.DS.CanonP DSymVerif.Proto
open DSymVerif.DrvC04View

theorem driver_decoding (r : RawSym) (h : DrvC04View.inDomain r = true) :
    ∃ ds, r.toSym = .ok ds ∧ ValidSym ds ∧ 1 ≤ ds.size ∧ 1 ≤ ds.dim ∧
      ds.view.isConnected = true ∧ SpecAgrees (specS r) ds := by
  have h' : SpecC03.inDomain (rawToSpec r) = true := h
  obtain ⟨ds, hds, hv, hsz, hdim, hconn, hag⟩ := DSymVerif.C03.decode_raw_valid r h'
  obtain ⟨hsize, hdim', hop, hvv⟩ := DSymVerif.C03.agrees_tables hag hv.toValidTables
  have hsize' : r.size = ds.size := hsize.symm
  have hdim'' : r.dim = ds.dim := hdim'.symm
  refine ⟨ds, hds, hv, hsz, hdim, (DSymVerif.C03.conn_iff_isConnected hv.set).1 hconn, ?_⟩
  apply specAgrees_of_tables (specS r) ds hv.toValidTables hsize' hdim''
  · intro i d hi h1 h2
    have e : (rawToSpec r).opAt i d = r.opAt i d := rfl
    have hr := hv.set.range i d hi h1 h2
    have hop' := hop i d hi h1 h2
    rw [e] at hop'
    show (if (decide (i > r.dim) || decide (d < 1) || decide (d > r.size)) = true then 0 else
      let e := r.opAt i d; if e > r.size then 0 else e) = ds.dset.opU i d
    have hc : (decide (i > r.dim) || decide (d < 1) || decide (d > r.size)) = false := by
      have : i ≤ r.dim := by rw [hdim'']; exact hi
      have : d ≤ r.size := by rw [hsize']; exact h2
      simp; omega
    rw [hc]
    simp only [Bool.false_eq_true, if_false]
    rw [hop']
    have : ¬ ds.dset.opU i d > r.size := by
      rw [hsize']; have : ds.dset.opU i d ≤ ds.size := hr.2; omega
    rw [if_neg this]
  · intro i d hi h1 h2
    have e : (rawToSpec r).vAt i d = r.vAt i d := rfl
    have hvv' := hvv i d hi h1 h2
    rw [e] at hvv'
    show (if (decide (i ≥ r.dim) || decide (d < 1) || decide (d > r.size)) = true then 0 else r.vAt i d) = _
    have hc : (decide (i ≥ r.dim) || decide (d < 1) || decide (d > r.size)) = false := by
      have : i < r.dim := by rw [hdim'']; exact hi
      have : d ≤ r.size := by rw [hsize']; exact h2
      simp; omega
    rw [hc]
    simp only [Bool.false_eq_true, if_false]
    exact hvv'

end DSymVerif.SpecC04P
