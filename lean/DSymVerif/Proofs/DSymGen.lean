/-
Lemmas about the model of the D-symbol generator (`Model/DSymGen.lean`), part 1:
inversion of `children` / `childLoop`, the height function that strictly decreases along
`children`, fuel adequacy, and `dsyms` = extract-filter of the depth-first preorder.
Core Lean only.
-/
import DSymVerif.Model.DSymGen
import DSymVerif.Proofs.Backtrack
import DSymVerif.Proofs.DSetGen

namespace DSymVerif.SymGen
open DSymVerif.DS

/-! ### `idiv` -/

theorem idiv_ok {a b q : Int} (h : idiv a b = .ok q) : b ≠ 0 ∧ q = Int.tdiv a b := by
  unfold idiv at h
  split at h
  · cases h
  · rename_i hb
    cases h
    exact ⟨hb, rfl⟩

theorem idiv_of_ne {a b : Int} (hb : b ≠ 0) : idiv a b = .ok (Int.tdiv a b) := by
  unfold idiv
  rw [if_neg hb]

/-! ### one child of a state -/

/-- `s'` is the state pushed by the body of the `for v` loop of `children(s)` for the value `v`
    (`n = s.next`, `vmin = s.vs[n]`) -/
structure IsChild (c : Ctx) (s : State) (n vmin v : Nat) (s' : State) : Prop where
  inRange : n < s.vs.length
  vminNe : vmin ≠ 0
  vNe : v ≠ 0
  vs : s'.vs = s.vs.set n v
  curv : s'.curv = s.curv - Int.tdiv (kOf (c.isChain.getD n false) * curvFac) (vmin : Int)
          + Int.tdiv (kOf (c.isChain.getD n false) * curvFac) (v : Int)
  chainRange : n < c.isChain.length
  geMin : c.minCurv ≤ s'.curv
  kind : (s'.curv < 0 ∧ s'.next = c.count ∧ isMinimallyHyperbolic c s'.vs s'.curv = .ok true) ∨
         (0 ≤ s'.curv ∧ s'.next = s.next + 1)

theorem getElem?_getD {α} {l : List α} {n : Nat} {x d : α} (h : l[n]? = some x) :
    l.getD n d = x ∧ n < l.length := by
  have hl : n < l.length := by
    rcases Nat.lt_or_ge n l.length with h1 | h1
    · exact h1
    · rw [List.getElem?_eq_none h1] at h; cases h
  refine ⟨?_, hl⟩
  simp [List.getD, h]

theorem childLoop_spec {c : Ctx} {s : State} {n vmin : Nat} :
    ∀ (l : List Nat) (cs : List State), childLoop c s n vmin l = .ok cs →
      ∀ s', s' ∈ cs → ∃ v, v ∈ l ∧ IsChild c s n vmin v s' := by
  intro l
  induction l with
  | nil =>
    intro cs h s' hs'
    simp only [childLoop] at h
    cases h
    cases hs'
  | cons v rest ih =>
    intro cs h s' hs'
    simp only [childLoop] at h
    split at h
    · rename_i hn
      split at h
      · rename_i ch hch
        obtain ⟨hg, hcl⟩ := getElem?_getD (d := false) hch
        split at h
        · rename_i a b ha hb
          obtain ⟨ha0, ha⟩ := idiv_ok ha
          obtain ⟨hb0, hb⟩ := idiv_ok hb
          have hvm : vmin ≠ 0 := by intro h0; apply ha0; rw [h0]; rfl
          have hv : v ≠ 0 := by intro h0; apply hb0; rw [h0]; rfl
          split at h
          · rename_i hge
            split at h
            · rename_i hneg
              split at h
              · cases h
                simp only [List.mem_singleton] at hs'
                subst hs'
                refine ⟨v, by simp, ⟨hn, hvm, hv, rfl, ?_, hcl, by simpa using hge, Or.inl ⟨hneg, rfl, ?_⟩⟩⟩
                · simp only [hg, ha, hb]
                · assumption
              · cases h; cases hs'
              · cases h
              · cases h
            · rename_i hnn
              split at h
              · rename_i r hr
                cases h
                rcases List.mem_cons.mp hs' with e | e
                · subst e
                  refine ⟨v, by simp, ⟨hn, hvm, hv, rfl, ?_, hcl, by simpa using hge, Or.inr ⟨by simpa using hnn, rfl⟩⟩⟩
                  simp only [hg, ha, hb]
                · obtain ⟨w, hw, hc⟩ := ih r hr s' e
                  exact ⟨w, by simp [hw], hc⟩
              · cases h
              · cases h
          · obtain ⟨w, hw, hc⟩ := ih cs h s' hs'
            exact ⟨w, by simp [hw], hc⟩
        · cases h
      · cases h
    · cases h

theorem childLoop_length {c : Ctx} {s : State} {n vmin : Nat} :
    ∀ (l : List Nat) (cs : List State), childLoop c s n vmin l = .ok cs → cs.length ≤ l.length := by
  intro l
  induction l with
  | nil =>
    intro cs h
    simp only [childLoop] at h
    cases h
    simp
  | cons v rest ih =>
    intro cs h
    simp only [childLoop] at h
    split at h
    · split at h
      · split at h
        · split at h
          · split at h
            · split at h
              · cases h; simp
              · cases h; simp
              · cases h
              · cases h
            · split at h
              · rename_i r hr
                cases h
                have := ih r hr
                simp only [List.length_cons]
                omega
              · cases h
              · cases h
          · have := ih cs h
            simp only [List.length_cons]
            omega
        · cases h
      · cases h
    · cases h

/-! ### height, fuel -/

def height (c : Ctx) : Node → Nat
  | .panicked => 0
  | .st s => c.count + 1 - s.next

/-- inversion of `children` on a state: the conditions under which the loop runs -/
theorem children_st {c : Ctx} {s : State} {x : Node} (hx : x ∈ children c (.st s)) :
    s.next < c.count ∧ ¬ c.baseCurv < 0 ∧
    (x = .panicked ∨ ∃ vmin cs s', s.vs[s.next]? = some vmin ∧
      childLoop c s s.next vmin (List.range' vmin (Tables.genVMax + 1 - vmin)) = .ok cs ∧
      s' ∈ cs ∧ x = .st s') := by
  simp only [children] at hx
  split at hx
  · cases hx
  · rename_i hcond
    have h1 : s.next < c.count ∧ ¬ c.baseCurv < 0 := by
      simp only [Bool.or_eq_true, decide_eq_true_eq, not_or] at hcond
      exact ⟨by omega, hcond.2⟩
    refine ⟨h1.1, h1.2, ?_⟩
    split at hx
    · simp only [List.mem_singleton] at hx
      exact Or.inl hx
    · rename_i vmin hv
      split at hx
      · rename_i cs hcs
        obtain ⟨s', hs', rfl⟩ := List.mem_map.mp hx
        exact Or.inr ⟨vmin, cs, s', hv, hcs, hs', rfl⟩
      · simp only [List.mem_singleton] at hx
        exact Or.inl hx

theorem children_decreasing (c : Ctx) : BT.Decreasing (problem c) (height c) := by
  intro s x hx
  cases s with
  | panicked => simp [problem, children] at hx
  | st s =>
    obtain ⟨hn, _, hx⟩ := children_st hx
    rcases hx with rfl | ⟨vmin, cs, s', _, hcs, hs', rfl⟩
    · simp only [height]; omega
    · obtain ⟨v, _, hc⟩ := childLoop_spec _ _ hcs s' hs'
      simp only [height]
      rcases hc.kind with ⟨_, h, _⟩ | ⟨_, h⟩ <;> omega

theorem children_length_le (c : Ctx) (x : Node) :
    ((problem c).children x).length ≤ Tables.genVMax + 1 := by
  cases x with
  | panicked => simp [problem, children]
  | st s =>
    simp only [problem, children]
    split
    · simp
    · split
      · simp
      · rename_i vmin _
        split
        · rename_i cs hcs
          have := childLoop_length _ _ hcs
          simp only [List.length_map, List.length_range'] at this ⊢
          omega
        · simp

theorem height_root_le (c : Ctx) : height c (root c) ≤ c.count + 1 := by
  simp only [root, height]
  omega

/-- **fuel adequacy**: the fuel handed to the iterator model covers the whole tree -/
theorem fuel_adequate (c : Ctx) :
    (BT.dfs (problem c) (height c) (problem c).root).length ≤ fuel c :=
  BT.dfs_length_le (problem c) (height c) (children_decreasing c) (Tables.genVMax + 1)
    (children_length_le c) _ (root c) (height_root_le c)

/-- **backtrack_preorder for the D-symbol generator** -/
theorem dsyms_eq_dfs (c : Ctx) :
    dsyms c = (BT.dfs (problem c) (height c) (root c)).filterMap (extract c) :=
  BT.run_eq_dfs (problem c) (height c) (children_decreasing c) (fuel c) (fuel_adequate c)

end DSymVerif.SymGen
