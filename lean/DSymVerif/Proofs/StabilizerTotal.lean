/-
C13, totality: the models of `intersection_table` and `core_table` return `.ok` — no modelled
panic, fuel never exhausted — on complete, inverse-consistent (non-empty) tables.  Forward
versions of the loop steps (`interGens_step`, `inducedGens_step`) and the counting bounds
(pairs of rows: product of the row counts; arrangements: `rows ^ rows`).
-/
import DSymVerif.Proofs.StabilizerCore
import Mathlib.Data.List.Perm.Subperm
import Mathlib.Data.List.ProdSigma

set_option linter.unusedSectionVars false

namespace DSymVerif.StabP
open DSymVerif DSymVerif.Cosets DSymVerif.SpecC11 DSymVerif.CosetP DSymVerif.SpecC13 DSymVerif.Stab

section InterTotal
variable {ta tb : Tab} {n : Nat}

/-- one letter of the inner loop of `intersection_table`, forward: it does not panic and
    re-establishes the invariants -/
theorem interGens_step (hca : complete ta n = true) (hcb : complete tb n = true)
    (hia : InvConsistent ta n) (hib : InvConsistent tb n) {a b i : Nat} {g : Int} (hg : g ∈ letters n)
    {s : Inter} {lab : List (Nat × Nat)}
    (hl : LInv (pairAct ta tb n) n (PGood ta tb) (0, 0) s.table lab) (hc : InterCache ta tb s lab)
    (hsz : s.o2n.size = ta.size) (hi : lab[i]? = some (a, b)) :
    ∃ s1 lab1, (∀ gs, interGens (Table.ofView n ta) (Table.ofView n tb) a b i (g :: gs) s =
        interGens (Table.ofView n ta) (Table.ofView n tb) a b i gs s1) ∧
      LInv (pairAct ta tb n) n (PGood ta tb) (0, 0) s1.table lab1 ∧ InterCache ta tb s1 lab1 ∧
      s1.o2n.size = ta.size ∧ lab1[i]? = some (a, b) := by
  have hgood := hl.good (a, b) (List.mem_of_getElem? hi)
  obtain ⟨ag, hea⟩ := complete_spec hca hgood.1 hg
  obtain ⟨bg, heb⟩ := complete_spec hcb hgood.2 hg
  have hga := get_ofView hea
  have hgb := get_ofView heb
  have hk : pairAct ta tb n (a, b) g = some (ag, bg) := by simp [pairAct, hea, heb]
  have hag : ag < ta.size := (entry_some hea).1
  have hbg : bg < tb.size := (entry_some heb).1
  have hrow : s.o2n[ag]? = some s.o2n[ag] := by simp [hsz, hag]
  have hrs := hc.rows ag _ hrow
  have hv : (s.o2n[ag])[bg]? = some (s.o2n[ag])[bg] := by simp [hrs, hbg]
  have hval := hc.vals ag bg _ _ hrow hv
  obtain ⟨t', hj, hl', _, _⟩ := LInv_step (pairAct_ok hia hib) hl hg hi hk
  by_cases hm : (ag, bg) ∈ lab
  · rw [if_pos hm] at hval hl'
    refine ⟨{ s with table := t' }, lab, ?_, hl', ⟨hc.n2o, hc.rows, hc.vals⟩, hsz, hi⟩
    intro gs
    have hneg : ¬ (s.o2n[ag])[bg] < 0 := by rw [hval]; omega
    simp only [interGens, hga, hgb, hrow, hv, hneg, if_false]
    simp only [hval, Int.toNat_natCast, hj]
  · rw [if_neg hm] at hval hl'
    have hlen : s.table.len = lab.length := hl.size
    have hidx : lab.idxOf (ag, bg) = lab.length := List.idxOf_of_notMem hm
    rw [hidx] at hj
    refine ⟨⟨t', s.o2n.setIfInBounds ag ((s.o2n[ag]).setIfInBounds bg ((lab.length : Nat) : Int)),
      s.n2o.push (ag, bg)⟩, lab ++ [(ag, bg)], ?_, hl', cache_new hc hm hrow t', by simp [hsz], ?_⟩
    · intro gs
      have hneg : (s.o2n[ag])[bg] < 0 := by rw [hval]; omega
      simp only [interGens, hga, hgb, hrow, hv, hneg, if_true, hlen, Int.toNat_natCast, hj]
    · rw [List.getElem?_append_left (List.getElem?_eq_some_iff.mp hi).1]; exact hi

theorem interGens_total (hca : complete ta n = true) (hcb : complete tb n = true)
    (hia : InvConsistent ta n) (hib : InvConsistent tb n) {a b i : Nat} :
    ∀ (gs : List Int) (s : Inter) (lab : List (Nat × Nat)), (∀ g ∈ gs, g ∈ letters n) →
      LInv (pairAct ta tb n) n (PGood ta tb) (0, 0) s.table lab → InterCache ta tb s lab →
      s.o2n.size = ta.size → lab[i]? = some (a, b) →
      ∃ s', interGens (Table.ofView n ta) (Table.ofView n tb) a b i gs s = .ok s' ∧ s'.o2n.size = ta.size
  | [], s, _, _, _, _, hsz, _ => ⟨s, rfl, hsz⟩
  | g :: gs, s, lab, hgs, hl, hc, hsz, hi => by
    obtain ⟨s1, lab1, heq, hl1, hc1, hsz1, hi1⟩ :=
      interGens_step hca hcb hia hib (hgs g (by simp)) hl hc hsz hi
    rw [heq]
    exact interGens_total hca hcb hia hib gs s1 lab1 (fun g' hg' => hgs g' (by simp [hg'])) hl1 hc1 hsz1 hi1


theorem pairs_length_le {lab : List (Nat × Nat)} (hnd : lab.Nodup)
    (hg : ∀ p ∈ lab, PGood ta tb p) : lab.length ≤ ta.size * tb.size := by
  have hsub : lab ⊆ (List.range ta.size) ×ˢ (List.range tb.size) := by
    rintro ⟨a, b⟩ hp
    have := hg _ hp
    exact List.mem_product.mpr ⟨List.mem_range.mpr this.1, List.mem_range.mpr this.2⟩
  have := hnd.length_le_of_subset hsub
  simpa [List.length_product] using this

theorem interLoop_total (hca : complete ta n = true) (hcb : complete tb n = true)
    (hia : InvConsistent ta n) (hib : InvConsistent tb n) :
    ∀ (fuel i : Nat) (s : Inter) (lab : List (Nat × Nat)),
      LInv (pairAct ta tb n) n (PGood ta tb) (0, 0) s.table lab → InterCache ta tb s lab →
      s.o2n.size = ta.size → i ≤ s.table.len → ta.size * tb.size + 1 ≤ fuel + i →
      ∃ s', interLoop (Table.ofView n ta) (Table.ofView n tb) fuel i s = .ok s'
  | 0, i, s, lab, hl, _, _, hi, hf => by
    have h1 : s.table.len = lab.length := hl.size
    have h2 := pairs_length_le hl.nodup hl.good
    omega
  | f + 1, i, s, lab, hl, hc, hsz, hi, hf => by
    simp only [interLoop]
    by_cases hge : i ≥ s.table.len
    · rw [if_pos hge]; exact ⟨s, rfl⟩
    · rw [if_neg hge]
      have hlen : s.table.len = lab.length := hl.size
      have hil : i < lab.length := by omega
      have hn2o : s.n2o[i]? = some lab[i] := by
        rw [← Array.getElem?_toList]
        simp [hc.n2o, hil]
      rw [hn2o]
      rcases hlab : lab[i] with ⟨a, b⟩
      simp only
      have hlabi : lab[i]? = some (a, b) := by simp [hil, hlab]
      rw [allGens_eq hl.ngens]
      obtain ⟨s1, hs1, hsz1⟩ := interGens_total hca hcb hia hib (letters n) s lab (fun _ h => h)
        hl hc hsz hlabi
      rw [hs1]
      simp only
      obtain ⟨lab1, h1, h2, h3, _, _⟩ := interGens_spec hca hcb hia hib (letters n) s s1 lab
        (fun _ h => h) hl hc hlabi hs1
      apply interLoop_total hca hcb hia hib f (i + 1) s1 lab1 h1 h2 hsz1 _ (by omega)
      have : s1.table.len = lab1.length := h1.size
      have hle : lab.length ≤ lab1.length := by
        by_contra hnot
        have := h3 (lab.length - 1) lab[lab.length - 1] (by simp)
        have := (List.getElem?_eq_some_iff.mp this).1
        omega
      omega

theorem inter_init_cache (hta : 0 < ta.size) (htb : 0 < tb.size) {s0 : Inter}
    (hs0 : (⟨Table.new n, (Array.replicate ta.size (Array.replicate tb.size (-1 : Int))).setIfInBounds 0
      ((Array.replicate tb.size (-1 : Int)).setIfInBounds 0 0), #[(0, 0)]⟩ : Inter) = s0) :
    InterCache ta tb s0 [(0, 0)] := by
  subst hs0
  constructor
  · rfl
  · intro a row hrow
    simp only [Array.getElem?_setIfInBounds, Array.getElem?_replicate] at hrow
    by_cases ha : 0 = a
    · subst ha
      simp only [if_true, Array.size_replicate, hta, Option.some.injEq] at hrow
      rw [← hrow]; simp
    · simp only [ha, if_false] at hrow
      split at hrow
      · injection hrow with hrow; rw [← hrow]; simp
      · cases hrow
  · intro a b row v hrow hv
    simp only [Array.getElem?_setIfInBounds, Array.getElem?_replicate] at hrow
    by_cases ha : 0 = a
    · subst ha
      simp only [if_true, Array.size_replicate, hta, Option.some.injEq] at hrow
      subst hrow
      simp only [Array.getElem?_setIfInBounds, Array.getElem?_replicate] at hv
      by_cases hb : 0 = b
      · subst hb
        simp only [if_true, Array.size_replicate, htb, Option.some.injEq] at hv
        rw [← hv]; simp
      · simp only [hb, if_false] at hv
        split at hv
        · injection hv with hv
          have : (0, b) ∉ [((0 : Nat), (0 : Nat))] := by
            simp only [List.mem_singleton, Prod.mk.injEq, true_and]
            exact fun e => hb e.symm
          rw [if_neg this, ← hv]
        · cases hv
    · simp only [ha, if_false] at hrow
      split at hrow
      · injection hrow with hrow
        subst hrow
        rw [Array.getElem?_replicate] at hv
        split at hv
        · injection hv with hv
          have : (a, b) ∉ [((0 : Nat), (0 : Nat))] := by
            simp only [List.mem_singleton, Prod.mk.injEq, not_and]
            exact fun e => absurd e.symm ha
          rw [if_neg this, ← hv]
        · cases hv
      · cases hrow

/-- ✔ the model of `intersection_table` terminates without panic on complete,
    inverse-consistent, non-empty tables -/
theorem intersectionTable_total (hca : complete ta n = true) (hcb : complete tb n = true)
    (hia : InvConsistent ta n) (hib : InvConsistent tb n) (hta : 0 < ta.size) (htb : 0 < tb.size) :
    ∃ T, intersectionTable (Table.ofView n ta) (Table.ofView n tb) = .ok T := by
  unfold intersectionTable
  have hnA : (Table.ofView n ta).nrGens = n := rfl
  have hnB : (Table.ofView n tb).nrGens = n := rfl
  have hlA : (Table.ofView n ta).len = ta.size := by simp [Table.len, Table.ofView]
  have hlB : (Table.ofView n tb).len = tb.size := by simp [Table.len, Table.ofView]
  rw [hnA, hnB, hlA, hlB]
  simp only [ne_eq, not_true_eq_false, if_false]
  have h0 : (Array.replicate ta.size (Array.replicate tb.size (-1 : Int)))[0]? =
      some (Array.replicate tb.size (-1 : Int)) := by
    rw [Array.getElem?_replicate]; simp [hta]
  simp only [h0]
  have htb' : 0 < (Array.replicate tb.size (-1 : Int)).size := by simpa using htb
  rw [if_pos htb']
  generalize hs0 : (⟨Table.new n, (Array.replicate ta.size (Array.replicate tb.size (-1 : Int))).setIfInBounds 0
      ((Array.replicate tb.size (-1 : Int)).setIfInBounds 0 0), #[(0, 0)]⟩ : Inter) = s0
  have hl0 : LInv (pairAct ta tb n) n (PGood ta tb) (0, 0) s0.table [(0, 0)] := by
    subst hs0
    refine ⟨plain_new n, rfl, rfl, rfl, List.nodup_singleton _, ?_, ?_, ?_, ?_, ?_⟩
    · intro y hy; simp only [List.mem_singleton] at hy; subst hy; exact ⟨hta, htb⟩
    · intro y hy; simp only [List.mem_singleton] at hy; subst hy
      exact ⟨[], by simp, rfl⟩
    · intro c j; rw [cell_new]
    · intro c j _; exact cell_new n c j
    · intro c g _ hnn; rw [cell_new] at hnn; omega
  have hc0 : InterCache ta tb s0 [(0, 0)] := inter_init_cache hta htb hs0
  have hsz0 : s0.o2n.size = ta.size := by subst hs0; simp
  obtain ⟨s', hs'⟩ := interLoop_total hca hcb hia hib (ta.size * tb.size + 2) 0 s0 _ hl0 hc0 hsz0
    (Nat.zero_le _) (by omega)
  rw [hs']
  simp only
  obtain ⟨lab, hl, _, hd⟩ := interLoop_spec hca hcb hia hib _ 0 s0 s' _ hl0 hc0 (fun c hc => by omega) hs'
  have hfull := full_of_done hl hd
  have hpos : 0 < s'.table.rows.size := by
    rw [hl.size]; exact (List.getElem?_eq_some_iff.mp hl.pos).1
  obtain ⟨T, hT, _⟩ := compact_plain hl.plain hl.ngens hfull hpos (length_one_of_no_letters hl)
  exact ⟨T, hT⟩

end InterTotal

/-! ### `induced_table`, `core_table` -/

section IndTotal
variable {α : Type} [BEq α] [LawfulBEq α] {act : α → Int → Option α} {n : Nat} {Good : α → Prop}
  {img : α → Int → Outcome α}

theorem indCache_old {s : Induced α} {lab : List α} (hc : IndCache s lab) {k : α} (hm : k ∈ lab)
    (t' : Table) : IndCache (⟨t', s.o2n, aInsert (lab.idxOf k) k s.n2o⟩ : Induced α) lab := by
  refine ⟨hc.o2n, fun i' => ?_⟩
  rw [aLookup_aInsert, hc.n2o]
  by_cases e : (lab.idxOf k == i') = true
  · have e' : lab.idxOf k = i' := by simpa using e
    rw [if_pos e, ← e', List.getElem?_idxOf hm]
  · simp only [e, Bool.false_eq_true, if_false]

theorem indCache_new {s : Induced α} {lab : List α} (hc : IndCache s lab) {k : α} (hm : k ∉ lab)
    (t' : Table) :
    IndCache (⟨t', s.o2n ++ [(k, lab.length)], aInsert lab.length k s.n2o⟩ : Induced α) (lab ++ [k]) := by
  constructor
  · intro k'
    rw [aLookup_append_single, hc.o2n k']
    by_cases hm' : k' ∈ lab
    · rw [if_pos hm', if_pos (List.mem_append_left _ hm'), List.idxOf_append_of_mem hm']
    · rw [if_neg hm']
      simp only
      by_cases e : (k == k') = true
      · have e' : k = k' := by simpa using e
        subst e'
        rw [if_pos e, if_pos (by simp), List.idxOf_append_of_notMem hm]
        simp
      · have e' : ¬ k' = k := by
          intro e2; subst e2; simp at e
        rw [if_neg e, if_neg (by simp [hm', e'])]
  · intro i'
    rw [aLookup_aInsert, hc.n2o]
    by_cases e : (lab.length == i') = true
    · have e' : lab.length = i' := by simpa using e
      rw [if_pos e, ← e', List.getElem?_append_right (Nat.le_refl _)]
      simp
    · simp only [e, Bool.false_eq_true, if_false]
      have e' : ¬ lab.length = i' := by simpa using e
      by_cases hlt : i' < lab.length
      · rw [List.getElem?_append_left hlt]
      · rw [List.getElem?_eq_none (by omega), List.getElem?_eq_none (by simp; omega)]

theorem inducedGens_step (hact : ActOk act n Good)
    (himg : ∀ x g y, Good x → g ∈ letters n → img x g = .ok y → act x g = some y)
    (hdef : ∀ x g, Good x → g ∈ letters n → ∃ y, img x g = .ok y)
    {start : α} {i : Nat} {g : Int} (hg : g ∈ letters n) {s : Induced α} {lab : List α}
    (hl : LInv act n Good start s.table lab) (hc : IndCache s lab) (hi : i < lab.length) :
    ∃ s1 lab1, (∀ gs, inducedGens img i (g :: gs) s = inducedGens img i gs s1) ∧
      LInv act n Good start s1.table lab1 ∧ IndCache s1 lab1 ∧ i < lab1.length := by
  have hx : aLookup i s.n2o = some lab[i] := by rw [hc.n2o]; simp [hi]
  have hlabi : lab[i]? = some lab[i] := by simp [hi]
  have hgx := hl.good _ (List.getElem_mem hi)
  obtain ⟨k, hk⟩ := hdef lab[i] g hgx hg
  have hak := himg _ g k hgx hg hk
  obtain ⟨t', hj, hl', _, _⟩ := LInv_step hact hl hg hlabi hak
  by_cases hm : k ∈ lab
  · rw [if_pos hm] at hl'
    refine ⟨⟨t', s.o2n, aInsert (lab.idxOf k) k s.n2o⟩, lab, ?_, hl', indCache_old hc hm t', hi⟩
    intro gs
    simp only [inducedGens, hx, hk, hc.o2n k, if_pos hm, hj]
  · rw [if_neg hm] at hl'
    have hlen : s.table.len = lab.length := hl.size
    have hidx : lab.idxOf k = lab.length := List.idxOf_of_notMem hm
    rw [hidx] at hj
    refine ⟨⟨t', s.o2n ++ [(k, lab.length)], aInsert lab.length k s.n2o⟩, lab ++ [k], ?_, hl',
      indCache_new hc hm t', by simp; omega⟩
    intro gs
    simp only [inducedGens, hx, hk, hc.o2n k, if_neg hm, hlen, hj]

theorem inducedGens_total (hact : ActOk act n Good)
    (himg : ∀ x g y, Good x → g ∈ letters n → img x g = .ok y → act x g = some y)
    (hdef : ∀ x g, Good x → g ∈ letters n → ∃ y, img x g = .ok y) {start : α} {i : Nat} :
    ∀ (gs : List Int) (s : Induced α) (lab : List α), (∀ g ∈ gs, g ∈ letters n) →
      LInv act n Good start s.table lab → IndCache s lab → i < lab.length →
      ∃ s', inducedGens img i gs s = .ok s'
  | [], s, _, _, _, _, _ => ⟨s, rfl⟩
  | g :: gs, s, lab, hgs, hl, hc, hi => by
    obtain ⟨s1, lab1, heq, hl1, hc1, hi1⟩ := inducedGens_step hact himg hdef (hgs g (by simp)) hl hc hi
    rw [heq]
    exact inducedGens_total hact himg hdef gs s1 lab1 (fun g' hg' => hgs g' (by simp [hg'])) hl1 hc1 hi1

theorem inducedLoop_total (hact : ActOk act n Good)
    (himg : ∀ x g y, Good x → g ∈ letters n → img x g = .ok y → act x g = some y)
    (hdef : ∀ x g, Good x → g ∈ letters n → ∃ y, img x g = .ok y) {start : α} {B : Nat}
    (hB : ∀ (t : Table) (lab : List α), LInv act n Good start t lab → lab.length ≤ B) :
    ∀ (fuel i : Nat) (s : Induced α) (lab : List α),
      LInv act n Good start s.table lab → IndCache s lab → i ≤ s.table.len → B + 1 ≤ fuel + i →
      ∃ s', inducedLoop img fuel i s = .ok s'
  | 0, i, s, lab, hl, _, hi, hf => by
    have h1 : s.table.len = lab.length := hl.size
    have h2 := hB _ _ hl
    omega
  | f + 1, i, s, lab, hl, hc, hi, hf => by
    simp only [inducedLoop]
    by_cases hge : i ≥ s.table.len
    · rw [if_pos hge]; exact ⟨s, rfl⟩
    · rw [if_neg hge]
      have hlen : s.table.len = lab.length := hl.size
      have hil : i < lab.length := by omega
      rw [allGens_eq hl.ngens]
      obtain ⟨s1, hs1⟩ := inducedGens_total hact himg hdef (letters n) s lab (fun _ h => h) hl hc hil
      rw [hs1]
      simp only
      obtain ⟨lab1, h1, h2, h3, _, _⟩ := inducedGens_spec hact himg (letters n) s s1 lab
        (fun _ h => h) hl hc hil hs1
      apply inducedLoop_total hact himg hdef hB f (i + 1) s1 lab1 h1 h2 _ (by omega)
      have : s1.table.len = lab1.length := h1.size
      omega

theorem inducedTable_total (hact : ActOk act n Good)
    (himg : ∀ x g y, Good x → g ∈ letters n → img x g = .ok y → act x g = some y)
    (hdef : ∀ x g, Good x → g ∈ letters n → ∃ y, img x g = .ok y) {start : α} (hstart : Good start)
    {B : Nat} (hB : ∀ (t : Table) (lab : List α), LInv act n Good start t lab → lab.length ≤ B)
    {fuel : Nat} (hfuel : B + 1 ≤ fuel) : ∃ T, inducedTable n img start fuel = .ok T := by
  unfold inducedTable
  have hl0 : LInv act n Good start (Table.new n) [start] := by
    refine ⟨plain_new n, rfl, rfl, rfl, List.nodup_singleton _, ?_, ?_, ?_, ?_, ?_⟩
    · intro y hy; simp only [List.mem_singleton] at hy; subst hy; exact hstart
    · intro y hy; simp only [List.mem_singleton] at hy; subst hy
      exact ⟨[], by simp, rfl⟩
    · intro c j; rw [cell_new]
    · intro c j _; exact cell_new n c j
    · intro c g _ hnn; rw [cell_new] at hnn; omega
  have hc0 : IndCache (⟨Table.new n, [(start, 0)], [(0, start)]⟩ : Induced α) [start] := by
    constructor
    · intro k
      simp only [aLookup, List.mem_singleton]
      by_cases e : (start == k) = true
      · have e' : start = k := by simpa using e
        subst e'
        simp
      · have e' : ¬ k = start := by
          intro e2; subst e2; simp at e
        simp [e, e']
    · intro i
      simp only [aLookup]
      by_cases e : (0 == i) = true
      · have e' : 0 = i := by simpa using e
        subst e'
        simp
      · have e' : ¬ 0 = i := by simpa using e
        simp only [e, Bool.false_eq_true, if_false]
        rw [List.getElem?_eq_none (by simp; omega)]
  obtain ⟨s', hs'⟩ := inducedLoop_total hact himg hdef hB fuel 0 _ _ hl0 hc0 (Nat.zero_le _) (by omega)
  rw [hs']
  simp only
  obtain ⟨lab, hl, hd⟩ := inducedLoop_spec hact himg fuel 0 _ s' _ hl0 hc0 (fun c hc => by omega) hs'
  have hfull := full_of_done hl hd
  have hpos : 0 < s'.table.rows.size := by
    rw [hl.size]; exact (List.getElem?_eq_some_iff.mp hl.pos).1
  obtain ⟨T, hT, _⟩ := compact_plain hl.plain hl.ngens hfull hpos (length_one_of_no_letters hl)
  exact ⟨T, hT⟩

end IndTotal

section CoreTotal
variable {t : Tab} {n : Nat}

/-- all lists of length `k` with entries below `m` -/
def tuples (m : Nat) : Nat → List (List Nat)
  | 0 => [[]]
  | k + 1 => ((List.range m) ×ˢ (tuples m k)).map (fun p => p.1 :: p.2)

theorem length_tuples (m : Nat) : ∀ k, (tuples m k).length = m ^ k
  | 0 => rfl
  | k + 1 => by
    simp only [tuples, List.length_map, List.length_product, List.length_range, length_tuples m k]
    rw [Nat.pow_succ, Nat.mul_comm]

theorem mem_tuples (m : Nat) : ∀ (k : Nat) (es : List Nat), es.length = k → (∀ e ∈ es, e < m) →
    es ∈ tuples m k
  | 0, es, hl, _ => by
    have : es = [] := List.length_eq_zero_iff.mp hl
    subst this; simp [tuples]
  | k + 1, es, hl, hall => by
    cases es with
    | nil => simp at hl
    | cons e r =>
      simp only [tuples, List.mem_map]
      refine ⟨(e, r), List.mem_product.mpr ⟨List.mem_range.mpr (hall e (by simp)), ?_⟩, rfl⟩
      exact mem_tuples m k r (by simpa using hl) (fun e' he' => hall e' (by simp [he']))

theorem coreImg_total (hc : complete t n = true) : ∀ (es : List Nat) (g : Int), TGood t es →
    g ∈ letters n → ∃ r, coreImg (Table.ofView n t) es g = .ok r
  | [], _, _, _ => ⟨[], rfl⟩
  | e :: es, g, hgood, hg => by
    obtain ⟨d, hd⟩ := complete_spec hc (hgood e (by simp)) hg
    obtain ⟨r, hr⟩ := coreImg_total hc es g (fun e' he' => hgood e' (by simp [he'])) hg
    exact ⟨d :: r, by simp only [coreImg, get_ofView hd, hr]⟩

theorem core_labels_le {T : Table} {lab : List (List Nat)}
    (hl : LInv (tupleAct t n) n (TGood t) (List.range t.size) T lab) :
    lab.length ≤ t.size ^ t.size := by
  have hsub : lab ⊆ tuples t.size t.size := by
    intro es hes
    obtain ⟨w, _, hw⟩ := hl.reach es hes
    rw [iterAct_tuple] at hw
    have hlen := (mapOpt_some hw).1
    rw [List.length_range] at hlen
    exact mem_tuples _ _ es hlen (hl.good es hes)
  have := hl.nodup.length_le_of_subset hsub
  rwa [length_tuples] at this

/-- ✔ the model of `core_table` terminates without panic on complete, inverse-consistent tables -/
theorem coreTable_total (hc : complete t n = true) (hi : InvConsistent t n) :
    ∃ T, coreTable (Table.ofView n t) = .ok T := by
  unfold coreTable
  have hn : (Table.ofView n t).nrGens = n := rfl
  have hl : (Table.ofView n t).len = t.size := by simp [Table.len, Table.ofView]
  rw [hn, hl]
  exact inducedTable_total (tupleAct_ok hi)
    (fun x g y _ _ hxy => coreImg_tupleAct hc x g y hxy)
    (fun x g hx hg => coreImg_total hc x g hx hg)
    (fun e he => List.mem_range.mp he)
    (fun _ _ hl => core_labels_le hl) (by omega)

end CoreTotal

end DSymVerif.StabP
