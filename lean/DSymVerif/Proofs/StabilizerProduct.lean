/-
C13: labelled tables.  A table whose rows carry pairwise different labels, row 0 the start
label, and whose entries follow an action on the labels (`SpecC13.labelledBy`) traces
words exactly as the action moves the start label (`labelled_fix`); for the componentwise
action on pairs of rows this is tracing in both factors (`iterAct_pair`), for
arrangements of all rows it is tracing from every row (`iterAct_tuple_range`).
-/
import DSymVerif.Spec.C13
import DSymVerif.Proofs.CosetAction

namespace DSymVerif.StabP
open DSymVerif DSymVerif.SpecC11 DSymVerif.SpecC13 DSymVerif.CosetP

/-- a traced word uses letters of the table only -/
theorem trace_letters {t : Tab} {n : Nat} : ∀ {w : List Int} {c d : Nat},
    traceWord t n c w = some d → ∀ g ∈ w, g ∈ letters n
  | [], _, _, _ => by simp
  | x :: w, c, d, h => by
    simp only [traceWord] at h
    cases he : entry t n c x with
    | none => simp [he] at h
    | some e =>
      simp only [he] at h
      intro g hg
      rcases List.mem_cons.mp hg with rfl | hg
      · exact (entry_some he).2.2
      · exact trace_letters h g hg

section Labelled
variable {α : Type} [BEq α] [LawfulBEq α] {act : α → Int → Option α} {x : Tab} {n : Nat} {lab : List α}

theorem entriesFollow_spec (h : entriesFollow act x n lab = true) (hlen : lab.length = x.size)
    {i : Nat} {li : α} (hi : lab[i]? = some li) {g : Int} (hg : g ∈ letters n) :
    ∃ j lj, entry x n i g = some j ∧ act li g = some lj ∧ lab[j]? = some lj := by
  have hix : i < x.size := by
    have := (List.getElem?_eq_some_iff.mp hi).1
    omega
  unfold entriesFollow rowsOf at h
  rw [List.all_eq_true] at h
  have h1 := h i (List.mem_range.mpr hix)
  rw [List.all_eq_true] at h1
  have h2 := h1 g hg
  simp only [hi] at h2
  cases he : entry x n i g with
  | none => simp [he] at h2
  | some j =>
    simp only [he] at h2
    cases ha : act li g with
    | none => simp [ha] at h2
    | some l' =>
      cases hj : lab[j]? with
      | none => simp [ha, hj] at h2
      | some lj =>
        simp only [ha, hj, beq_iff_eq] at h2
        subst h2
        exact ⟨j, l', rfl, rfl, hj⟩

/-- tracing in a labelled table moves the label by the action -/
theorem iterAct_of_trace (h : entriesFollow act x n lab = true) (hlen : lab.length = x.size) :
    ∀ (w : List Int) (i j : Nat) (li : α), lab[i]? = some li → traceWord x n i w = some j →
      ∃ lj, lab[j]? = some lj ∧ iterAct act li w = some lj
  | [], i, j, li, hi, ht => by
    simp only [traceWord, Option.some.injEq] at ht
    subst ht
    exact ⟨li, hi, rfl⟩
  | g :: w, i, j, li, hi, ht => by
    simp only [traceWord] at ht
    cases he : entry x n i g with
    | none => simp [he] at ht
    | some k =>
      simp only [he] at ht
      obtain ⟨k', lk, he', ha, hk⟩ := entriesFollow_spec h hlen hi (entry_some he).2.2
      rw [he] at he'
      injection he' with he'
      subst he'
      obtain ⟨lj, hj, hit⟩ := iterAct_of_trace h hlen w k j lk hk ht
      exact ⟨lj, hj, by simp [iterAct, ha, hit]⟩

/-- conversely the action on a label is realised by a trace -/
theorem trace_of_iterAct (h : entriesFollow act x n lab = true) (hlen : lab.length = x.size) :
    ∀ (w : List Int), (∀ g ∈ w, g ∈ letters n) → ∀ (i : Nat) (li l : α), lab[i]? = some li →
      iterAct act li w = some l → ∃ j, traceWord x n i w = some j ∧ lab[j]? = some l
  | [], _, i, li, l, hi, ha => by
    simp only [iterAct, Option.some.injEq] at ha
    subst ha
    exact ⟨i, rfl, hi⟩
  | g :: w, hw, i, li, l, hi, ha => by
    obtain ⟨k, lk, he, hact, hk⟩ := entriesFollow_spec h hlen hi (hw g (by simp))
    simp only [iterAct, hact] at ha
    obtain ⟨j, ht, hj⟩ := trace_of_iterAct h hlen w (fun g' hg' => hw g' (by simp [hg'])) k lk l hk ha
    exact ⟨j, by simp [traceWord, he, ht], hj⟩

theorem distinct_inj : ∀ {l : List α}, distinct l = true → ∀ {i j : Nat} {a : α},
    l[i]? = some a → l[j]? = some a → i = j
  | [], _, i, j, a, hi, _ => by simp at hi
  | b :: r, hd, i, j, a, hi, hj => by
    simp only [distinct, Bool.and_eq_true, Bool.not_eq_true', List.contains_eq_mem, decide_eq_false_iff_not] at hd
    cases i with
    | zero =>
      cases j with
      | zero => rfl
      | succ j =>
        simp only [List.getElem?_cons_zero, Option.some.injEq] at hi
        simp only [List.getElem?_cons_succ] at hj
        subst hi
        exact absurd (List.mem_of_getElem? hj) hd.1
    | succ i =>
      cases j with
      | zero =>
        simp only [List.getElem?_cons_zero, Option.some.injEq] at hj
        simp only [List.getElem?_cons_succ] at hi
        subst hj
        exact absurd (List.mem_of_getElem? hi) hd.1
      | succ j =>
        simp only [List.getElem?_cons_succ] at hi hj
        rw [distinct_inj hd.2 hi hj]

theorem labelledBy_spec {start : α} (h : labelledBy act start x n lab = true) :
    lab.length = x.size ∧ lab[0]? = some start ∧ entriesFollow act x n lab = true ∧ distinct lab = true := by
  unfold labelledBy at h
  simp only [Bool.and_eq_true, beq_iff_eq] at h
  obtain ⟨⟨⟨h1, h2⟩, h3⟩, h4⟩ := h
  refine ⟨h1, ?_, h3, h4⟩
  cases h0 : lab[0]? with
  | none => simp [h0] at h2
  | some l => simp only [h0, beq_iff_eq] at h2; rw [h2]

/-- in a labelled table a word fixes row 0 iff it fixes the start label -/
theorem labelled_fix {start : α} (h : labelledBy act start x n lab = true) (w : List Int)
    (hw : ∀ g ∈ w, g ∈ letters n) :
    traceWord x n 0 w = some 0 ↔ iterAct act start w = some start := by
  obtain ⟨hlen, h0, hf, hd⟩ := labelledBy_spec h
  constructor
  · intro ht
    obtain ⟨lj, hj, hit⟩ := iterAct_of_trace hf hlen w 0 0 start h0 ht
    rw [h0] at hj
    injection hj with hj
    rw [hit, hj]
  · intro ha
    obtain ⟨j, ht, hj⟩ := trace_of_iterAct hf hlen w hw 0 start start h0 ha
    rw [distinct_inj hd hj h0] at ht
    exact ht

end Labelled

/-! ### pairs -/

theorem iterAct_pair (ta tb : Tab) (n : Nat) : ∀ (w : List Int) (a b a' b' : Nat),
    iterAct (pairAct ta tb n) (a, b) w = some (a', b') ↔
      traceWord ta n a w = some a' ∧ traceWord tb n b w = some b'
  | [], a, b, a', b' => by simp [iterAct, traceWord]
  | g :: w, a, b, a', b' => by
    simp only [iterAct, traceWord, pairAct]
    cases ha : entry ta n a g with
    | none => simp
    | some a1 =>
      cases hb : entry tb n b g with
      | none => simp
      | some b1 => simpa using iterAct_pair ta tb n w a1 b1 a' b'

/-! ### arrangements -/

theorem mapOpt_some {f : Nat → Option Nat} : ∀ {es es' : List Nat},
    mapOpt f es = some es' → es'.length = es.length ∧ ∀ k (h : k < es.length), f es[k] = es'[k]?
  | [], es', h => by
    simp only [mapOpt, Option.some.injEq] at h
    subst h
    simp
  | e :: es, es', h => by
    simp only [mapOpt] at h
    cases hf : f e with
    | none => simp [hf] at h
    | some d =>
      cases hm : mapOpt f es with
      | none => simp [hf, hm] at h
      | some r =>
        simp only [hf, hm, Option.some.injEq] at h
        subst h
        obtain ⟨hl, hall⟩ := mapOpt_some hm
        refine ⟨by simp [hl], fun k hk => ?_⟩
        cases k with
        | zero => simp [hf]
        | succ k => simpa using hall k (by simpa using hk)

theorem mapOpt_of_forall {f : Nat → Option Nat} : ∀ {es : List Nat},
    (∀ e ∈ es, f e = some e) → mapOpt f es = some es
  | [], _ => rfl
  | e :: es, h => by
    have h1 : mapOpt f es = some es :=
      mapOpt_of_forall (fun e' (he' : e' ∈ es) => h e' (List.mem_cons_of_mem _ he'))
    simp only [mapOpt, h e (by simp), h1]

theorem mapOpt_bind (f : Nat → Option Nat) (g : Nat → Option Nat) : ∀ (es : List Nat),
    (mapOpt f es).bind (mapOpt g) = mapOpt (fun e => (f e).bind g) es
  | [] => by simp [mapOpt]
  | e :: es => by
    have ih := mapOpt_bind f g es
    simp only [mapOpt]
    cases hf : f e with
    | none => simp
    | some d =>
      cases hm : mapOpt f es with
      | none =>
        simp only [Option.bind_none, Option.bind_some]
        rw [hm] at ih
        simp only [Option.bind_none] at ih
        rw [← ih]
        cases g d <;> rfl
      | some r =>
        rw [hm] at ih
        simp only [Option.bind_some] at ih ⊢
        simp only [mapOpt, ih]

theorem traceWord_cons (t : Tab) (n : Nat) (e : Nat) (g : Int) (w : List Int) :
    traceWord t n e (g :: w) = (entry t n e g).bind (fun d => traceWord t n d w) := by
  simp only [traceWord]
  cases entry t n e g <;> rfl

theorem iterAct_tuple (t : Tab) (n : Nat) : ∀ (w : List Int) (es : List Nat),
    iterAct (tupleAct t n) es w = mapOpt (fun e => traceWord t n e w) es
  | [], es => by
    simp only [iterAct, traceWord]
    exact (mapOpt_of_forall (fun _ _ => rfl)).symm
  | g :: w, es => by
    have h2 : (fun e => traceWord t n e (g :: w)) =
        (fun e => (entry t n e g).bind fun d => traceWord t n d w) := by
      funext e; exact traceWord_cons t n e g w
    rw [h2, ← mapOpt_bind]
    simp only [iterAct, tupleAct]
    cases hm : mapOpt (fun e => entry t n e g) es with
    | none => simp
    | some es1 =>
      simp only [Option.bind_some]
      exact iterAct_tuple t n w es1

/-- a word fixes the identity arrangement iff it fixes every row -/
theorem iterAct_tuple_range (t : Tab) (n : Nat) (w : List Int) (m : Nat) :
    iterAct (tupleAct t n) (List.range m) w = some (List.range m) ↔
      ∀ c, c < m → traceWord t n c w = some c := by
  rw [iterAct_tuple]
  constructor
  · intro h c hc
    have := (mapOpt_some h).2 c (by simpa using hc)
    simpa [hc] using this
  · intro h
    exact mapOpt_of_forall (fun e he => h e (List.mem_range.mp he))

theorem allSome_spec {α : Type} : ∀ {l : List (Option α)} {r : List α}, allSome l = some r →
    r.length = l.length ∧ ∀ (j : Nat) (a : α), r[j]? = some a → l[j]? = some (some a)
  | [], r, h => by
    simp only [allSome, Option.some.injEq] at h
    subst h
    simp
  | none :: l, r, h => by simp [allSome] at h
  | some b :: l, r, h => by
    simp only [allSome] at h
    cases hm : allSome l with
    | none => simp [hm] at h
    | some r' =>
      simp only [hm, Option.some.injEq] at h
      subst h
      obtain ⟨hl, hall⟩ := allSome_spec hm
      refine ⟨by simp [hl], fun j a hj => ?_⟩
      cases j with
      | zero => simpa using hj
      | succ j => simpa using hall j a (by simpa using hj)

theorem distinct_nodup {α : Type} [BEq α] [LawfulBEq α] : ∀ {l : List α}, distinct l = true → l.Nodup
  | [], _ => List.nodup_nil
  | a :: r, h => by
    simp only [distinct, Bool.and_eq_true, Bool.not_eq_true', List.contains_eq_mem, decide_eq_false_iff_not] at h
    exact List.nodup_cons.mpr ⟨h.1, distinct_nodup h.2⟩

/-- every label computed by `rowLabels` is reached from the start label by some word -/
theorem rowLabels_reached {α : Type} {act : α → Int → Option α} {start : α} {x : Tab} {n : Nat}
    {lab : List α} (h : rowLabels act start x n = some lab) {l : α} (hl : l ∈ lab) :
    ∃ w, iterAct act start w = some l := by
  obtain ⟨j, hj⟩ := List.getElem?_of_mem hl
  have h2 := (allSome_spec h).2 j l hj
  rw [List.getElem?_map] at h2
  cases ho : (witnesses x n).toList[j]? with
  | none => simp [ho] at h2
  | some o =>
    simp only [ho, Option.map_some, Option.some.injEq] at h2
    cases o with
    | none => simp at h2
    | some w => exact ⟨w, by simpa using h2⟩

theorem labelledTable_spec {α : Type} [BEq α] {act : α → Int → Option α} {start : α} {x : Tab} {n : Nat}
    (h : labelledTable act start x n = true) :
    ∃ lab, rowLabels act start x n = some lab ∧ labelledBy act start x n lab = true := by
  unfold labelledTable at h
  cases hr : rowLabels act start x n with
  | none => simp [hr] at h
  | some lab => exact ⟨lab, rfl, by simpa [hr] using h⟩

theorem fixesAll_iff (t : Tab) (n : Nat) (w : List Int) :
    fixesAll t n w = true ↔ ∀ c, c < t.size → traceWord t n c w = some c := by
  simp [fixesAll, fixesRow, rowsOf]

end DSymVerif.StabP
