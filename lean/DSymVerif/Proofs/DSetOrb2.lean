/-
Helper lemmas for property C02, part 3: the orbits of a chamber under two operations
(`Orb2`, the graph-theoretic definition as an inductive closure), periods of the composite
`op j ∘ op i` and their invariance along such orbits.
-/
import DSymVerif.Proofs.DSetOrbit

namespace DSymVerif.DS

/-- `Orb2 s i j d e`: chamber `e` is reachable from `d` by applying `op i` and `op j` -/
inductive Orb2 (s : DSetData) (i j : Nat) : Nat → Nat → Prop
  | refl (d : Nat) : Orb2 s i j d d
  | stepI {d e : Nat} : Orb2 s i j d e → Orb2 s i j d (s.opU i e)
  | stepJ {d e : Nat} : Orb2 s i j d e → Orb2 s i j d (s.opU j e)

/-- `k` is a period of `x` under `op j ∘ op i` -/
def IsPeriod (s : DSetData) (i j k x : Nat) : Prop := (s.comp i j)^[k] x = x

/-- `k` is the least positive period of `x` under `op j ∘ op i` (the orbit length `r`) -/
def IsLeastPeriod (s : DSetData) (i j x k : Nat) : Prop :=
  1 ≤ k ∧ IsPeriod s i j k x ∧ ∀ t, 1 ≤ t → t < k → ¬ IsPeriod s i j t x

theorem IsLeastPeriod.unique {s : DSetData} {i j x k k' : Nat}
    (h : IsLeastPeriod s i j x k) (h' : IsLeastPeriod s i j x k') : k = k' := by
  rcases Nat.lt_trichotomy k k' with hlt | heq | hgt
  · exact absurd h.2.1 (h'.2.2 k h.1 hlt)
  · exact heq
  · exact absurd h'.2.1 (h.2.2 k' h'.1 hgt)

section
variable {s : DSetData} (h : ValidSet s) {i j : Nat} (hi : i ≤ s.dim) (hj : j ≤ s.dim)
include h hi hj

theorem Orb2.range {d e : Nat} (hd : 1 ≤ d ∧ d ≤ s.size) (ho : Orb2 s i j d e) : 1 ≤ e ∧ e ≤ s.size := by
  induction ho with
  | refl => exact hd
  | stepI _ ih => exact h.range i _ hi ih.1 ih.2
  | stepJ _ ih => exact h.range j _ hj ih.1 ih.2

omit h hi hj in
theorem Orb2.trans {a b c : Nat} (h1 : Orb2 s i j a b) (h2 : Orb2 s i j b c) : Orb2 s i j a c := by
  induction h2 with
  | refl => exact h1
  | stepI _ ih => exact Orb2.stepI ih
  | stepJ _ ih => exact Orb2.stepJ ih

theorem Orb2.symm {d e : Nat} (hd : 1 ≤ d ∧ d ≤ s.size) (ho : Orb2 s i j d e) : Orb2 s i j e d := by
  induction ho with
  | refl => exact Orb2.refl _
  | @stepI e ho' ih =>
    have he := Orb2.range h hi hj hd ho'
    have : Orb2 s i j (s.opU i e) (s.opU i (s.opU i e)) := Orb2.stepI (Orb2.refl _)
    rw [h.invol i e hi he.1 he.2] at this
    exact this.trans ih
  | @stepJ e ho' ih =>
    have he := Orb2.range h hi hj hd ho'
    have : Orb2 s i j (s.opU j e) (s.opU j (s.opU j e)) := Orb2.stepJ (Orb2.refl _)
    rw [h.invol j e hj he.1 he.2] at this
    exact this.trans ih

omit h hi hj in
theorem Orb2.swap {d e : Nat} (ho : Orb2 s i j d e) : Orb2 s j i d e := by
  induction ho with
  | refl => exact Orb2.refl _
  | stepI _ ih => exact Orb2.stepJ ih
  | stepJ _ ih => exact Orb2.stepI ih

theorem comp_inv {x : Nat} (hx : 1 ≤ x ∧ x ≤ s.size) : s.comp j i (s.comp i j x) = x := by
  show s.opU i (s.opU j (s.opU j (s.opU i x))) = x
  have a := h.range i x hi hx.1 hx.2
  rw [h.invol j _ hj a.1 a.2, h.invol i x hi hx.1 hx.2]

theorem iter_inv {x : Nat} (hx : 1 ≤ x ∧ x ≤ s.size) :
    ∀ k, (s.comp j i)^[k] ((s.comp i j)^[k] x) = x
  | 0 => rfl
  | k + 1 => by
    rw [Function.iterate_succ_apply, Function.iterate_succ_apply',
      comp_inv h hi hj (h.comp_range hi hj hx.1 hx.2 k)]
    exact iter_inv hx k

theorem IsPeriod.inv {x k : Nat} (hx : 1 ≤ x ∧ x ≤ s.size) (hp : IsPeriod s i j k x) :
    IsPeriod s j i k x := by
  have := iter_inv h hi hj hx k
  rw [hp] at this; exact this

theorem iter_opI : ∀ (k : Nat) {y : Nat}, 1 ≤ y ∧ y ≤ s.size →
    (s.comp i j)^[k] (s.opU i y) = s.opU i ((s.comp j i)^[k] y)
  | 0, _, _ => rfl
  | k + 1, y, hy => by
    rw [Function.iterate_succ_apply, Function.iterate_succ_apply]
    have hy' : 1 ≤ s.comp j i y ∧ s.comp j i y ≤ s.size := by
      have := h.comp_range hj hi hy.1 hy.2 1; exact this
    rw [← iter_opI k hy']
    congr 1
    show s.opU j (s.opU i (s.opU i y)) = s.opU i (s.opU i (s.opU j y))
    have a := h.range j y hj hy.1 hy.2
    rw [h.invol i y hi hy.1 hy.2, h.invol i _ hi a.1 a.2]

theorem IsPeriod.opI {y k : Nat} (hy : 1 ≤ y ∧ y ≤ s.size) (hp : IsPeriod s i j k y) :
    IsPeriod s i j k (s.opU i y) := by
  unfold IsPeriod
  rw [iter_opI h hi hj k hy, IsPeriod.inv h hi hj hy hp]

omit h hi hj in
theorem IsPeriod.comp {z k : Nat} (hp : IsPeriod s i j k z) : IsPeriod s i j k (s.comp i j z) := by
  unfold IsPeriod at *
  rw [← Function.iterate_succ_apply, Function.iterate_succ_apply', hp]

theorem IsPeriod.opJ {y k : Nat} (hy : 1 ≤ y ∧ y ≤ s.size) (hp : IsPeriod s i j k y) :
    IsPeriod s i j k (s.opU j y) := by
  have := (IsPeriod.opI h hi hj hy hp).comp
  have e : s.comp i j (s.opU i y) = s.opU j y := by
    show s.opU j (s.opU i (s.opU i y)) = _
    rw [h.invol i y hi hy.1 hy.2]
  rw [e] at this; exact this

theorem IsPeriod.orb {d e k : Nat} (hd : 1 ≤ d ∧ d ≤ s.size) (ho : Orb2 s i j d e)
    (hp : IsPeriod s i j k d) : IsPeriod s i j k e := by
  induction ho with
  | refl => exact hp
  | stepI ho' ih => exact IsPeriod.opI h hi hj (Orb2.range h hi hj hd ho') ih
  | stepJ ho' ih => exact IsPeriod.opJ h hi hj (Orb2.range h hi hj hd ho') ih

theorem IsLeastPeriod.orb {d e k : Nat} (hd : 1 ≤ d ∧ d ≤ s.size) (ho : Orb2 s i j d e)
    (hp : IsLeastPeriod s i j d k) : IsLeastPeriod s i j e k := by
  have he := Orb2.range h hi hj hd ho
  refine ⟨hp.1, IsPeriod.orb h hi hj hd ho hp.2.1, ?_⟩
  intro t ht1 ht2 hpe
  exact hp.2.2 t ht1 ht2 (IsPeriod.orb h hi hj he (Orb2.symm h hi hj hd ho) hpe)

theorem IsLeastPeriod.inv {x k : Nat} (hx : 1 ≤ x ∧ x ≤ s.size) (hp : IsLeastPeriod s i j x k) :
    IsLeastPeriod s j i x k :=
  ⟨hp.1, IsPeriod.inv h hi hj hx hp.2.1, fun t ht1 ht2 hpe => hp.2.2 t ht1 ht2 (IsPeriod.inv h hj hi hx hpe)⟩

/-- the generic `r` returns the least period (restatement of `ValidSet.r_generic`) -/
theorem r_generic_least {d : Nat} (hd : 1 ≤ d ∧ d ≤ s.size) :
    ∃ k, k ≤ s.size ∧ IsLeastPeriod s i j d k ∧ s.viewSimple.r i j d = .ok (some k) := by
  obtain ⟨k, a, b, c, _, e, f⟩ := h.r_generic hi hj hd.1 hd.2
  exact ⟨k, b, ⟨a, e, f⟩, c⟩

omit h hi hj in
/-- iterates of the composite stay in the orbit -/
theorem Orb2.iter (d : Nat) : ∀ t, Orb2 s i j d ((s.comp i j)^[t] d)
  | 0 => Orb2.refl d
  | t + 1 => by
    rw [Function.iterate_succ_apply']
    exact Orb2.stepJ (Orb2.stepI (Orb2.iter d t))

end

end DSymVerif.DS
