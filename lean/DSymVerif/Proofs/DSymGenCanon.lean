/-
Lemmas about the model of the D-symbol generator, part 8: the canonicity test selects exactly
one vector per class.  If the orbit maps form a group of permutations of the orbit numbers
(identity, composition, inverses — what the action of the automorphism group of the D-set on
its 2-orbits is), then in every class {vs ∘ m | m a map} exactly one vector passes
`is_canonical`: the lexicographically largest one.   Core Lean only.
-/
import DSymVerif.Proofs.DSymGenNodup

namespace DSymVerif.SymGen
open DSymVerif.DS

/-! ### `lexLt` is a strict total order on vectors of equal length -/

theorem lexLt_trans : ∀ a b c : List Nat, lexLt a b = true → lexLt b c = true → lexLt a c = true := by
  intro a
  induction a with
  | nil =>
    intro b c h1 h2
    cases b with
    | nil => simp [lexLt] at h1
    | cons y ys =>
      cases c with
      | nil => simp [lexLt] at h2
      | cons z zs => simp [lexLt]
  | cons x xs ih =>
    intro b c h1 h2
    cases b with
    | nil => simp [lexLt] at h1
    | cons y ys =>
      cases c with
      | nil => simp [lexLt] at h2
      | cons z zs =>
        simp only [lexLt, Bool.or_eq_true, decide_eq_true_eq, Bool.and_eq_true, beq_iff_eq] at h1 h2 ⊢
        rcases h1 with h1 | ⟨e1, h1⟩
        · rcases h2 with h2 | ⟨e2, _⟩
          · left; omega
          · left; omega
        · rcases h2 with h2 | ⟨e2, h2⟩
          · left; omega
          · right; exact ⟨by omega, ih ys zs h1 h2⟩

theorem lexLt_antisymm : ∀ a b : List Nat, a.length = b.length → lexLt a b = false → lexLt b a = false → a = b := by
  intro a
  induction a with
  | nil =>
    intro b hl _ _
    cases b with
    | nil => rfl
    | cons y ys => simp at hl
  | cons x xs ih =>
    intro b hl h1 h2
    cases b with
    | nil => simp at hl
    | cons y ys =>
      simp only [lexLt, Bool.or_eq_false_iff, decide_eq_false_iff_not, Bool.and_eq_false_iff,
        beq_eq_false_iff_ne, ne_eq] at h1 h2
      have hxy : x = y := by omega
      subst hxy
      have e1 : lexLt xs ys = false := by
        rcases h1.2 with h | h
        · exact absurd rfl h
        · exact h
      have e2 : lexLt ys xs = false := by
        rcases h2.2 with h | h
        · exact absurd rfl h
        · exact h
      rw [ih ys (by simpa using hl) e1 e2]

/-- a non-empty finite family of vectors has a lexicographically largest member -/
theorem exists_lexMax : ∀ (L : List (List Nat)), L ≠ [] →
    ∃ w, w ∈ L ∧ ∀ u, u ∈ L → lexLt w u = false := by
  intro L
  induction L with
  | nil => intro h; exact absurd rfl h
  | cons x t ih =>
    intro _
    by_cases ht : t = []
    · subst ht
      exact ⟨x, by simp, fun u hu => by rw [List.mem_singleton.mp hu]; exact lexLt_irrefl x⟩
    · obtain ⟨w, hw, hmax⟩ := ih ht
      by_cases hlt : lexLt w x = true
      · refine ⟨x, by simp, fun u hu => ?_⟩
        rcases List.mem_cons.mp hu with e | e
        · rw [e]; exact lexLt_irrefl x
        · by_contra hne
          have hxu : lexLt x u = true := by simpa using hne
          have := lexLt_trans w x u hlt hxu
          rw [hmax u e] at this
          cases this
      · refine ⟨w, by simp [hw], fun u hu => ?_⟩
        rcases List.mem_cons.mp hu with e | e
        · rw [e]; simpa using hlt
        · exact hmax u e

/-! ### the action of an orbit map on a vector -/

/-- `vs ∘ m` -/
def act (m vs : List Nat) : List Nat := (List.range vs.length).map fun i => vs.getD (m.getD i 0) 0

theorem act_length (m vs : List Nat) : (act m vs).length = vs.length := by simp [act]

theorem mapO_ok {α β : Type} (f : α → Outcome β) (g : α → β) :
    ∀ l : List α, (∀ a, a ∈ l → f a = .ok (g a)) → mapO f l = .ok (l.map g) := by
  intro l
  induction l with
  | nil => intro _; rfl
  | cons a t ih =>
    intro h
    simp only [mapO, h a (by simp), ih (fun b hb => h b (by simp [hb])), List.map_cons]

/-- on maps whose entries are orbit numbers `permuted` does not panic and is the action -/
theorem permuted_eq_act (m vs : List Nat) (hm : m.length = vs.length)
    (hr : ∀ i, i < vs.length → m.getD i 0 < vs.length) : permuted m vs = .ok (act m vs) := by
  unfold permuted act
  apply mapO_ok
  intro i hi
  have hi' := List.mem_range.mp hi
  rw [getElem?_of_lt m i 0 (by omega)]
  simp only
  rw [getElem?_of_lt vs (m.getD i 0) 0 (hr i hi')]

/-- the orbit maps form a group of permutations of the orbit numbers 0..n-1 -/
structure GroupMaps (n : Nat) (ms : List (List Nat)) : Prop where
  wf : ∀ m, m ∈ ms → m.length = n ∧ ∀ i, i < n → m.getD i 0 < n
  one : ∃ m, m ∈ ms ∧ ∀ vs : List Nat, vs.length = n → act m vs = vs
  mul : ∀ m1, m1 ∈ ms → ∀ m2, m2 ∈ ms → ∃ m3, m3 ∈ ms ∧
    ∀ vs : List Nat, vs.length = n → act m2 (act m1 vs) = act m3 vs
  inv : ∀ m, m ∈ ms → ∃ m', m' ∈ ms ∧ ∀ vs : List Nat, vs.length = n → act m' (act m vs) = vs

theorem canonLoop_iff_act {n : Nat} {ms : List (List Nat)} (hg : GroupMaps n ms) (w : List Nat)
    (hw : w.length = n) :
    canonLoop w ms = .ok true ↔ ∀ m, m ∈ ms → lexLt w (act m w) = false := by
  rw [canonLoop_iff]
  constructor
  · intro h m hm
    obtain ⟨ws, hws, hf⟩ := h m hm
    rw [permuted_eq_act m w (by rw [(hg.wf m hm).1, hw]) (by rw [hw]; exact (hg.wf m hm).2)] at hws
    cases hws
    exact hf
  · intro h m hm
    exact ⟨act m w, permuted_eq_act m w (by rw [(hg.wf m hm).1, hw]) (by rw [hw]; exact (hg.wf m hm).2),
      h m hm⟩

/-- **exactly one canonical vector per class**: if the orbit maps form a group, the class
    {vs ∘ m} of a vector contains exactly one vector accepted by the loop of `is_canonical` -/
theorem canonical_one_per_class {n : Nat} {ms : List (List Nat)} (hg : GroupMaps n ms)
    (vs : List Nat) (hl : vs.length = n) :
    ∃ w, (∃ m, m ∈ ms ∧ w = act m vs) ∧ canonLoop w ms = .ok true ∧
      ∀ w', (∃ m, m ∈ ms ∧ w' = act m vs) → canonLoop w' ms = .ok true → w' = w := by
  obtain ⟨e, he, hone⟩ := hg.one
  have hne : ms.map (fun m => act m vs) ≠ [] := by
    intro h
    have := List.map_eq_nil_iff.mp h
    rw [this] at he
    cases he
  obtain ⟨w, hw, hmax⟩ := exists_lexMax _ hne
  obtain ⟨m0, hm0, rfl⟩ := List.mem_map.mp hw
  have hwl : (act m0 vs).length = n := by rw [act_length, hl]
  refine ⟨act m0 vs, ⟨m0, hm0, rfl⟩, ?_, ?_⟩
  · rw [canonLoop_iff_act hg _ hwl]
    intro m hm
    obtain ⟨m3, hm3, h3⟩ := hg.mul m0 hm0 m hm
    rw [h3 vs hl]
    exact hmax _ (List.mem_map.mpr ⟨m3, hm3, rfl⟩)
  · rintro w' ⟨m1, hm1, rfl⟩ hcan
    have hw'l : (act m1 vs).length = n := by rw [act_length, hl]
    rw [canonLoop_iff_act hg _ hw'l] at hcan
    -- w = w' ∘ m for some m : go back from m1 and forth with m0
    obtain ⟨m1', hm1', hinv⟩ := hg.inv m1 hm1
    obtain ⟨m2, hm2, h2⟩ := hg.mul m1' hm1' m0 hm0
    have hback : act m2 (act m1 vs) = act m0 vs := by
      rw [← h2 (act m1 vs) hw'l, hinv vs hl]
    have h1 : lexLt (act m1 vs) (act m0 vs) = false := by
      rw [← hback]; exact hcan m2 hm2
    have h2' : lexLt (act m0 vs) (act m1 vs) = false := hmax _ (List.mem_map.mpr ⟨m1, hm1, rfl⟩)
    exact lexLt_antisymm _ _ (by rw [hw'l, hwl]) h1 h2'

end DSymVerif.SymGen
