/-
Helper lemmas for property C04, part 10: maps between complete D-sets that commute with the
operations (`SemiConj`): they commute with the composites `op j ∘ op i`, map 2-orbits onto
2-orbits, and the orbit length of the image divides the orbit length of the source
(least period divides every period).
-/
import DSymVerif.Proofs.Covers
import DSymVerif.Proofs.MorphismNumber
import DSymVerif.Proofs.MorphismConn

namespace DSymVerif.Mor
open DSymVerif.DS

/-- the least period divides every period -/
theorem IsLeastPeriod.dvd {s : DSetData} {i j x k t : Nat} (h : IsLeastPeriod s i j x k)
    (ht : IsPeriod s i j t x) : k ∣ t := by
  have key : ∀ q, (s.comp i j)^[q * k] x = x := by
    intro q
    induction q with
    | zero => simp
    | succ q ih =>
      rw [Nat.succ_mul, Function.iterate_add_apply]
      have : (s.comp i j)^[k] x = x := h.2.1
      rw [this, ih]
  have hmod : (s.comp i j)^[t % k] x = x := by
    have e : t = t % k + (t / k) * k := by
      have := Nat.mod_add_div t k
      rw [Nat.mul_comm] at this
      omega
    have ht' : (s.comp i j)^[t] x = x := ht
    rw [e, Function.iterate_add_apply, key] at ht'
    exact ht'
  have hlt : t % k < k := Nat.mod_lt _ h.1
  by_cases h0 : t % k = 0
  · exact Nat.dvd_of_mod_eq_zero h0
  · exact absurd hmod (h.2.2 (t % k) (by omega) hlt)

/-- `π` maps the chambers of `a` to chambers of `b` and commutes with every operation -/
structure SemiConj (a b : DSetData) (π : Nat → Nat) : Prop where
  dim : b.dim = a.dim
  range : ∀ x, 1 ≤ x → x ≤ a.size → 1 ≤ π x ∧ π x ≤ b.size
  op : ∀ i x, i ≤ a.dim → 1 ≤ x → x ≤ a.size → b.opU i (π x) = π (a.opU i x)

namespace SemiConj
variable {a b : DSetData} {π : Nat → Nat}

theorem comp (h : SemiConj a b π) (ha : ValidSet a) {i j : Nat} (hi : i ≤ a.dim) (hj : j ≤ a.dim)
    {x : Nat} (h1 : 1 ≤ x) (h2 : x ≤ a.size) : b.comp i j (π x) = π (a.comp i j x) := by
  unfold DSetData.comp
  have r := ha.range i x hi h1 h2
  rw [h.op i x hi h1 h2, h.op j _ hj r.1 r.2]

theorem iter (h : SemiConj a b π) (ha : ValidSet a) {i j : Nat} (hi : i ≤ a.dim) (hj : j ≤ a.dim)
    {x : Nat} (h1 : 1 ≤ x) (h2 : x ≤ a.size) :
    ∀ t, (b.comp i j)^[t] (π x) = π ((a.comp i j)^[t] x) := by
  intro t
  induction t with
  | zero => rfl
  | succ t ih =>
    rw [Function.iterate_succ_apply', Function.iterate_succ_apply', ih]
    have r := ha.comp_range hi hj h1 h2 t
    exact h.comp ha hi hj r.1 r.2

/-- a period of `x` is a period of `π x` -/
theorem period (h : SemiConj a b π) (ha : ValidSet a) {i j : Nat} (hi : i ≤ a.dim) (hj : j ≤ a.dim)
    {x t : Nat} (h1 : 1 ≤ x) (h2 : x ≤ a.size) (hp : IsPeriod a i j t x) : IsPeriod b i j t (π x) := by
  show (b.comp i j)^[t] (π x) = π x
  rw [h.iter ha hi hj h1 h2 t]
  have : (a.comp i j)^[t] x = x := hp
  rw [this]

/-- the orbit length of the image divides the orbit length of the source -/
theorem least_dvd (h : SemiConj a b π) (ha : ValidSet a) {i j : Nat} (hi : i ≤ a.dim) (hj : j ≤ a.dim)
    {x r r' : Nat} (h1 : 1 ≤ x) (h2 : x ≤ a.size) (hr : IsLeastPeriod a i j x r)
    (hr' : IsLeastPeriod b i j (π x) r') : r' ∣ r :=
  IsLeastPeriod.dvd hr' (h.period ha hi hj h1 h2 hr.2.1)

/-- every chamber of the 2-orbit of `π x` is the image of a chamber of the 2-orbit of `x` -/
theorem orb_lift (h : SemiConj a b π) (ha : ValidSet a) {i j : Nat} (hi : i ≤ a.dim) (hj : j ≤ a.dim)
    {x : Nat} (h1 : 1 ≤ x) (h2 : x ≤ a.size) {k : Nat} (ho : Orb2 b i j (π x) k) :
    ∃ y, Orb2 a i j x y ∧ π y = k := by
  induction ho with
  | refl => exact ⟨x, Orb2.refl x, rfl⟩
  | @stepI e _ ih =>
    obtain ⟨y, hy, rfl⟩ := ih
    have ry := Orb2.range ha hi hj ⟨h1, h2⟩ hy
    exact ⟨a.opU i y, Orb2.stepI hy, (h.op i y hi ry.1 ry.2).symm⟩
  | @stepJ e _ ih =>
    obtain ⟨y, hy, rfl⟩ := ih
    have ry := Orb2.range ha hi hj ⟨h1, h2⟩ hy
    exact ⟨a.opU j y, Orb2.stepJ hy, (h.op j y hj ry.1 ry.2).symm⟩

/-- … and `π` maps 2-orbits into 2-orbits -/
theorem orb_map (h : SemiConj a b π) (ha : ValidSet a) {i j : Nat} (hi : i ≤ a.dim) (hj : j ≤ a.dim)
    {x y : Nat} (h1 : 1 ≤ x) (h2 : x ≤ a.size) (ho : Orb2 a i j x y) : Orb2 b i j (π x) (π y) := by
  induction ho with
  | refl => exact Orb2.refl _
  | @stepI e ho' ih =>
    have re := Orb2.range ha hi hj ⟨h1, h2⟩ ho'
    rw [← h.op i e hi re.1 re.2]
    exact Orb2.stepI ih
  | @stepJ e ho' ih =>
    have re := Orb2.range ha hi hj ⟨h1, h2⟩ ho'
    rw [← h.op j e hj re.1 re.2]
    exact Orb2.stepJ ih

end SemiConj

end DSymVerif.Mor
