/-
Property C05, part 31: exactly which sheet maps make `derived::cover` degree-preserving.

`cover` copies the degree `m` of the base and stores the branching number `v = m / r` (integer
division by the orbit length `r` of the new symbol).  So the degree of the result at a chamber is
`r · ⌊m / r⌋`; it equals `m` iff `r` divides `m`, iff `m` is a period of the chamber under
`op_{i+1} ∘ op_i` of the cover — i.e. iff the holonomy of the sheet map round the 2-orbit of the
base, raised to the branching number of the base, is trivial.  Otherwise the degree drops to
`r · ⌊m / r⌋ < m` (a caller error: compatibility (a), (b) alone does not make the result a
covering of the base D-SYMBOL, only of the base D-set).
-/
import DSymVerif.Proofs.Covers
import DSymVerif.Proofs.CoversMono

namespace DSymVerif.CoversP
open DSymVerif DSymVerif.DS

theorem isPeriod_of_dvd {s : DSetData} {i j x k p : Nat} (hk : IsPeriod s i j k x) (h : k ∣ p) :
    IsPeriod s i j p x := by
  obtain ⟨q, rfl⟩ := h
  unfold IsPeriod
  rw [Function.iterate_mul]
  exact Function.iterate_fixed hk q

/-- **the degree clause of `cover`, as an equivalence** -/
theorem cover_degree_iff (s : DSymData) (hs : ValidTables s) (hsz : 1 ≤ s.size) (hdim : 1 ≤ s.dim)
    {n : Nat} (hn : 1 ≤ n) {σ : Nat → Nat → Nat → Nat} (hσ : SheetCompat s.dset n σ) :
    ∃ c, cover s n σ = .ok c ∧
      (∀ i d, i ≤ s.dim → 1 ≤ d → d ≤ n * s.size → c.dset.opU i d = coverF s.dset σ i d) ∧
      ∀ i d, i < s.dim → 1 ≤ d → d ≤ n * s.size →
        ∃ r m, IsLeastPeriod c.dset i (i + 1) d r ∧
          s.mPartial i (i + 1) (cproj s.size d) = .ok (some m) ∧
          c.vPartial i (i + 1) d = .ok (some (m / r)) ∧
          c.mPartial i (i + 1) d = .ok (some (r * (m / r))) ∧
          (c.mPartial i (i + 1) d = s.mPartial i (i + 1) (cproj s.size d) ↔ r ∣ m) ∧
          (r ∣ m ↔ IsPeriod c.dset i (i + 1) m d) ∧
          (¬ r ∣ m → r * (m / r) < m) := by
  obtain ⟨c, hc, _, _, _, hop, hdeg⟩ := cover_ok s hs hsz hdim hn hσ
  refine ⟨c, hc, hop, ?_⟩
  intro i d hi h1 h2
  obtain ⟨r, hr, _, hvp, hmp⟩ := hdeg i d hi h1 h2
  have hp := cproj_range (d := d) hsz
  have hm := hs.mPartial_adj hi hp.1 hp.2
  have hr1 : 0 < r := hr.1
  refine ⟨r, s.mVal i (cproj s.size d), hr, hm, hvp, hmp, ?_, ?_, ?_⟩
  · rw [hmp, hm]
    constructor
    · intro h
      have h' : r * (s.mVal i (cproj s.size d) / r) = s.mVal i (cproj s.size d) :=
        Option.some.inj (Outcome.ok.inj h)
      exact ⟨_, h'.symm⟩
    · intro h
      rw [Nat.mul_div_cancel' h]
  · exact ⟨fun h => isPeriod_of_dvd hr.2.1 h, fun h => IsLeastPeriod.dvd hr h⟩
  · intro hnd
    have hle := Nat.mul_div_le (s.mVal i (cproj s.size d)) r
    rcases Nat.lt_or_ge (r * (s.mVal i (cproj s.size d) / r)) (s.mVal i (cproj s.size d)) with h | h
    · exact h
    · exact absurd ⟨_, (Nat.le_antisymm hle h).symm⟩ hnd

end DSymVerif.CoversP
