/-
Property C05: the classification of coverings by `covers(ds, k)` needs the connected base — a
kernel-checked counterexample on a base with two components.

`<1.1:4 1:2 4,2 4:3 3>`: two copies of the two-chamber circle with m01 = 3 (group Z3 each; the
library's fundamental group is Z3 * Z3 = ⟨g1, g2 | g1³, g2³⟩).  The model of `covers(ds, 3)` — like
the library — returns five entries: the base itself and four 3-sheeted covers (g1, g2 ↦ a 3-cycle
or the identity, jointly transitive).  The 4th and the 5th (g2 ↦ the same 3-cycle as g1, resp. its
inverse) belong to non-conjugate subgroups of Z3 * Z3, but as coverings of `ds` they are isomorphic:
renumber sheets 1 and 2 over the second component only.
-/
import DSymVerif.Proofs.CoversWitness3
import DSymVerif.Proofs.CoversIso

namespace DSymVerif.C05W
open DSymVerif DSymVerif.DS DSymVerif.Covers DSymVerif.CoversP

/-- decidable form of `CoverIso` -/
def coverIsoB (ds c1 c2 : DSymData) (N : Nat) (φ : Nat → Nat) : Bool :=
  (List.range N).all fun a0 =>
    decide (1 ≤ φ (a0 + 1)) && decide (φ (a0 + 1) ≤ N) &&
    decide (cproj ds.size (φ (a0 + 1)) = cproj ds.size (a0 + 1)) &&
    (List.range (ds.dim + 1)).all (fun i =>
      decide (φ (c1.dset.opU i (a0 + 1)) = c2.dset.opU i (φ (a0 + 1)))) &&
    (List.range N).all (fun b0 => decide (φ (a0 + 1) = φ (b0 + 1) → a0 = b0))

theorem coverIsoB_sound {ds c1 c2 : DSymData} {N : Nat} {φ : Nat → Nat}
    (h : coverIsoB ds c1 c2 N φ = true) : CoverIso ds c1 c2 N φ := by
  unfold coverIsoB at h
  rw [List.all_eq_true] at h
  have key : ∀ d, 1 ≤ d → d ≤ N →
      (1 ≤ φ d ∧ φ d ≤ N) ∧ cproj ds.size (φ d) = cproj ds.size d ∧
      (∀ i, i ≤ ds.dim → φ (c1.dset.opU i d) = c2.dset.opU i (φ d)) ∧
      (∀ b, 1 ≤ b → b ≤ N → φ d = φ b → d = b) := by
    intro d h1 h2
    have hd : d - 1 + 1 = d := by omega
    have := h (d - 1) (List.mem_range.2 (by omega))
    rw [hd] at this
    simp only [Bool.and_eq_true, decide_eq_true_eq, List.all_eq_true, List.mem_range] at this
    obtain ⟨⟨⟨⟨a, b⟩, c⟩, e⟩, f⟩ := this
    refine ⟨⟨a, b⟩, c, fun i hi => e i (by omega), ?_⟩
    intro b' hb1 hb2 heq
    have hb : b' - 1 + 1 = b' := by omega
    have := f (b' - 1) (by omega)
    rw [hb] at this
    have := this heq
    omega
  exact ⟨fun d h1 h2 => (key d h1 h2).1,
    fun a b ha1 ha2 hb1 hb2 he => (key a ha1 ha2).2.2.2 b hb1 hb2 he,
    fun d h1 h2 => (key d h1 h2).2.1,
    fun i d hi h1 h2 => (key d h1 h2).2.2.1 i hi⟩

/-- `<1.1:4 1:2 4,2 4:3 3>` -/
def z3z3 : DSymData :=
  match ofTables 4 1 (fun _ d => if d = 1 then 2 else if d = 2 then 1 else if d = 3 then 4 else 3)
      (fun _ _ => 3) with
  | .ok y => y
  | _ => default

/-- the entries of the model of `covers(z3z3, 3)` -/
def z3z3Covers : List DSymData :=
  match coversAll z3z3 3 with
  | .ok cs => cs
  | _ => []

/-- sheets 1 and 2 exchanged over the second component (chambers 3, 4 of the base) -/
def swapB (d : Nat) : Nat := if d = 7 ∨ d = 8 then d + 4 else if d = 11 ∨ d = 12 then d - 4 else d

theorem z3z3_validSym : ValidSym z3z3 := validSymB_sound (by decide +kernel)

theorem z3z3_base : 1 ≤ z3z3.size ∧ 1 ≤ z3z3.dim ∧ z3z3.view.isConnected = false := by decide +kernel

theorem z3z3_covers_ok : coversAll z3z3 3 = .ok z3z3Covers := by
  have h : okLength (coversAll z3z3 3) = 5 := by decide +kernel
  unfold z3z3Covers
  cases hc : coversAll z3z3 3 with
  | ok cs => rfl
  | err => rw [hc] at h; exact absurd h (by decide)
  | panic => rw [hc] at h; exact absurd h (by decide)

theorem z3z3_covers_facts : z3z3Covers.length = 5 ∧
    (z3z3Covers.getD 3 default).size = 12 ∧ (z3z3Covers.getD 4 default).size = 12 ∧
    coverIsoB z3z3 (z3z3Covers.getD 3 default) (z3z3Covers.getD 4 default) 12 swapB = true := by
  decide +kernel

/-- the 4th and 5th entry of `covers(z3z3, 3)` are isomorphic as coverings of `z3z3` -/
theorem z3z3_entries_isomorphic :
    ¬ z3z3Covers.Pairwise (fun c1 c2 => ∀ φ, ¬ (c2.size = c1.size ∧ CoverIso z3z3 c1 c2 c1.size φ)) := by
  intro hp
  obtain ⟨hlen, hs3, hs4, hiso⟩ := z3z3_covers_facts
  rw [List.pairwise_iff_getElem] at hp
  have h34 := hp 3 4 (by omega) (by omega) (by decide) swapB
  have e3 : z3z3Covers[3]'(by omega) = z3z3Covers.getD 3 default := by
    rw [List.getD_eq_getElem?_getD, List.getElem?_eq_getElem (by omega)]; rfl
  have e4 : z3z3Covers[4]'(by omega) = z3z3Covers.getD 4 default := by
    rw [List.getD_eq_getElem?_getD, List.getElem?_eq_getElem (by omega)]; rfl
  rw [e3, e4] at h34
  apply h34
  refine ⟨by rw [hs3, hs4], ?_⟩
  rw [hs3]
  exact coverIsoB_sound hiso

end DSymVerif.C05W
