/-
Meaning of the matrix model in Mathlib's `Matrix`:
`toMatrix val m : Matrix (Fin nr) (Fin nc) R` for a value map `val : α → R` into a field,
the 2-row operations `rowOp2` (swap, transvection, unimodular gcd step) with their action
and determinant, indexed loop rules, and the semantics of `identity`, `transpose`, `matMul`.
-/
import Mathlib.LinearAlgebra.Matrix.Determinant.Basic
import Mathlib.LinearAlgebra.Matrix.Rank
import Mathlib.LinearAlgebra.Matrix.Block
import Mathlib.LinearAlgebra.Matrix.NonsingularInverse
import DSymVerif.Proofs.Routines

namespace DSymVerif.LA

open DSymVerif Matrix

section rowop
variable {R : Type} [CommRing R] {n m : Nat}

/-- the row operation `row r1 ← c11·row r1 + c12·row r2`, `row r2 ← c21·row r1 + c22·row r2` -/
def rowOp2 (r1 r2 : Fin n) (c11 c12 c21 c22 : R) : Matrix (Fin n) (Fin n) R :=
  ((1 : Matrix (Fin n) (Fin n) R).updateRow r1 (c11 • Pi.single r1 1 + c12 • Pi.single r2 1)).updateRow r2
    (c21 • Pi.single r1 1 + c22 • Pi.single r2 1)

theorem rowOp2_mul_apply (r1 r2 : Fin n) (h : r1 ≠ r2) (c11 c12 c21 c22 : R)
    (X : Matrix (Fin n) (Fin m) R) (i : Fin n) (j : Fin m) :
    (rowOp2 r1 r2 c11 c12 c21 c22 * X) i j =
      if i = r1 then c11 * X r1 j + c12 * X r2 j
      else if i = r2 then c21 * X r1 j + c22 * X r2 j else X i j := by
  unfold rowOp2
  rw [updateRow_mul, updateRow_mul, Matrix.one_mul]
  by_cases h2 : i = r2
  · subst h2
    simp [Ne.symm h, Matrix.add_vecMul, Matrix.smul_vecMul]
  · by_cases h1 : i = r1
    · subst h1
      simp [h, Matrix.add_vecMul, Matrix.smul_vecMul]
    · simp [h1, h2]


theorem det_updateRow_lin (A : Matrix (Fin n) (Fin n) R) (i : Fin n) (a b : R) (u v : Fin n → R) :
    det (A.updateRow i (a • u + b • v)) = a * det (A.updateRow i u) + b * det (A.updateRow i v) := by
  rw [det_updateRow_add, det_updateRow_smul, det_updateRow_smul]

theorem one_row (i : Fin n) : (1 : Matrix (Fin n) (Fin n) R) i = Pi.single i 1 := by
  ext j; simp [Matrix.one_apply, Pi.single_apply, eq_comm]

theorem det_swapRows_one (r1 r2 : Fin n) (h : r1 ≠ r2) :
    det (((1 : Matrix (Fin n) (Fin n) R).updateRow r2 (Pi.single r1 1)).updateRow r1 (Pi.single r2 1)) = -1 := by
  have : ((1 : Matrix (Fin n) (Fin n) R).updateRow r2 (Pi.single r1 1)).updateRow r1 (Pi.single r2 1)
      = (1 : Matrix (Fin n) (Fin n) R).submatrix (Equiv.swap r1 r2) id := by
    ext i j
    by_cases h1 : i = r1
    · subst h1; simp [Matrix.one_apply, Pi.single_apply, eq_comm]
    · by_cases h2 : i = r2
      · subst h2; simp [h1, Matrix.one_apply, Pi.single_apply, eq_comm]
      · rw [submatrix_apply, Equiv.swap_apply_of_ne_of_ne h1 h2, updateRow_ne h1, updateRow_ne h2]; rfl
  rw [this, det_permute, Equiv.Perm.sign_swap h]
  simp

theorem det_rowOp2 (r1 r2 : Fin n) (h : r1 ≠ r2) (c11 c12 c21 c22 : R) :
    (rowOp2 r1 r2 c11 c12 c21 c22).det = c11 * c22 - c12 * c21 := by
  unfold rowOp2
  rw [det_updateRow_lin]
  -- second term: updating row r2 with its own value
  have hB : ((1 : Matrix (Fin n) (Fin n) R).updateRow r1 (c11 • Pi.single r1 1 + c12 • Pi.single r2 1)).updateRow r2
      (Pi.single r2 1) = (1 : Matrix (Fin n) (Fin n) R).updateRow r1 (c11 • Pi.single r1 1 + c12 • Pi.single r2 1) := by
    conv_rhs => rw [← updateRow_eq_self (A := (1 : Matrix (Fin n) (Fin n) R).updateRow r1 (c11 • Pi.single r1 1 + c12 • Pi.single r2 1)) r2]
    congr 1
    rw [updateRow_ne (Ne.symm h), one_row]
  rw [hB, det_updateRow_lin]
  have h11 : det ((1 : Matrix (Fin n) (Fin n) R).updateRow r1 (Pi.single r1 1)) = 1 := by
    rw [← one_row, updateRow_eq_self, det_one]
  have h12 : det ((1 : Matrix (Fin n) (Fin n) R).updateRow r1 (Pi.single r2 1)) = 0 := by
    apply det_zero_of_row_eq h
    rw [updateRow_self, updateRow_ne (Ne.symm h), one_row]
  rw [h11, h12]
  -- first term
  have hA : ((1 : Matrix (Fin n) (Fin n) R).updateRow r1 (c11 • Pi.single r1 1 + c12 • Pi.single r2 1)).updateRow r2
      (Pi.single r1 1) = ((1 : Matrix (Fin n) (Fin n) R).updateRow r2 (Pi.single r1 1)).updateRow r1
        (c11 • Pi.single r1 1 + c12 • Pi.single r2 1) := by
    ext i j
    by_cases h1 : i = r1
    · subst h1; simp [h]
    · by_cases h2 : i = r2
      · subst h2; simp [h1]
      · simp [h1, h2]
  rw [hA, det_updateRow_lin]
  have h21 : det (((1 : Matrix (Fin n) (Fin n) R).updateRow r2 (Pi.single r1 1)).updateRow r1 (Pi.single r1 1)) = 0 := by
    apply det_zero_of_row_eq h
    rw [updateRow_self, updateRow_ne (Ne.symm h), updateRow_self]
  rw [h21, det_swapRows_one r1 r2 h]
  ring

end rowop

section loops
variable {σ : Type}

/-- loop rule with an invariant that depends on the loop index -/
theorem forLoop_idx (f : Nat → σ → Outcome σ) (I : Nat → σ → Prop) :
    ∀ (n k : Nat) (s : σ), I k s →
      (∀ j s, k ≤ j → j < k + n → I j s → ∃ s', f j s = .ok s' ∧ I (j + 1) s') →
      ∃ s', forLoop f n k s = .ok s' ∧ I (k + n) s' := by
  intro n
  induction n with
  | zero => intro k s hs _; exact ⟨s, rfl, hs⟩
  | succ n ih =>
    intro k s hs hstep
    obtain ⟨s1, h1, hI1⟩ := hstep k s (Nat.le_refl _) (by omega) hs
    unfold forLoop
    rw [h1]
    have := ih (k + 1) s1 hI1 (fun j s hj hj' => hstep j s (by omega) (by omega))
    rw [show k + (n + 1) = k + 1 + n by omega]
    exact this

theorem forRange_idx (lo hi : Nat) (hle : lo ≤ hi) (init : σ) (f : Nat → σ → Outcome σ)
    (I : Nat → σ → Prop) (h0 : I lo init)
    (hstep : ∀ j s, lo ≤ j → j < hi → I j s → ∃ s', f j s = .ok s' ∧ I (j + 1) s') :
    ∃ s', forRange lo hi init f = .ok s' ∧ I hi s' := by
  unfold forRange
  have := forLoop_idx f I (hi - lo) lo init h0 (fun j s hj hj' => hstep j s hj (by omega))
  rw [show lo + (hi - lo) = hi by omega] at this
  exact this

end loops

section tomatrix
variable {α : Type} {R : Type} (val : α → R) {nr nc : Nat}

/-- the Mathlib matrix of a model matrix -/
def toMatrix (m : Mat α nr nc) : Matrix (Fin nr) (Fin nc) R :=
  Matrix.of fun i j => val ((m[i.1])[j.1])

@[simp] theorem toMatrix_apply (m : Mat α nr nc) (i : Fin nr) (j : Fin nc) :
    toMatrix val m i j = val ((m[i.1])[j.1]) := rfl

theorem entry_set (m : Mat α nr nc) {i j : Nat} (hi : i < nr) (hj : j < nc) (x : α)
    {i' j' : Nat} (hi' : i' < nr) (hj' : j' < nc) :
    ((Vector.set m i (Vector.set (m[i]) j x hj) hi)[i'])[j'] =
      if i = i' ∧ j = j' then x else (m[i'])[j'] := by
  by_cases hii : i = i'
  · subst hii
    rw [Vector.getElem_set_self]
    by_cases hjj : j = j'
    · subst hjj; simp
    · rw [Vector.getElem_set_ne _ _ hjj]; simp [hjj]
  · rw [Vector.getElem_set_ne _ _ hii]; simp [hii]

theorem entry_swap (m : Mat α nr nc) {i j : Nat} (hi : i < nr) (hj : j < nr)
    {i' j' : Nat} (hi' : i' < nr) (hj' : j' < nc) :
    ((Vector.swap m i j hi hj)[i'])[j'] =
      if i' = i then (m[j])[j'] else if i' = j then (m[i])[j'] else (m[i'])[j'] := by
  rw [Vector.getElem_swap]
  split
  · rfl
  · split <;> rfl

/-- a sum over `Fin m` truncated at `l`, extended by one term -/
theorem sum_lt_succ [Field R] {m : Nat} (f : Fin m → R) (l : Nat) (h : l < m) :
    (∑ x : Fin m, if x.1 < l + 1 then f x else 0) =
      (∑ x : Fin m, if x.1 < l then f x else 0) + f ⟨l, h⟩ := by
  have : f ⟨l, h⟩ = ∑ x : Fin m, if x = ⟨l, h⟩ then f x else 0 := by
    rw [Finset.sum_ite_eq' Finset.univ ⟨l, h⟩ f]; simp
  rw [this, ← Finset.sum_add_distrib]
  apply Finset.sum_congr rfl
  intro x _
  by_cases h1 : x.1 < l
  · have : x ≠ ⟨l, h⟩ := fun e => by rw [e] at h1; simp at h1
    simp [h1, this, Nat.lt_succ_of_lt h1]
  · by_cases h2 : x = ⟨l, h⟩
    · subst h2; simp
    · have : ¬ x.1 < l + 1 := by
        intro h3
        apply h2
        apply Fin.ext
        simp only
        omega
      simp [h1, h2, this]

theorem sum_lt_full [Field R] {m : Nat} (f : Fin m → R) :
    (∑ x : Fin m, if x.1 < m then f x else 0) = ∑ x : Fin m, f x :=
  Finset.sum_congr rfl (fun x _ => by simp [x.2])

end tomatrix

end DSymVerif.LA
