/-
C12 completeness, part 1: scans, joins and the deduction loop of `derived_table` inside a
target table (complete, closed under the expanded relators): deductions are entries of the
target and a relator can never close on two different rows, so the child that defines the
first free slot as the target does exists and is contained in the target.
-/
import DSymVerif.Proofs.LowIndexTotal

namespace DSymVerif.CanonP
open DSymVerif DSymVerif.Cosets DSymVerif.LowIndexP DSymVerif.CosetInvP DSymVerif.CosetPartP

/-- the two halves of a two-sided scan as traces -/
theorem scan_traces {t : Table} {w : List Int} {start head tail gap : Nat} {c : Int}
    (h : scanBothWays t w start = .ok (head, tail, gap, c)) :
    ∃ u v, mtrace t start u = some head ∧ mtrace t start (v.reverse.map (fun x => -x)) = some tail ∧
      (gap = 1 → w = u ++ c :: v) ∧ (gap = 0 → w = u ++ v) := by
  unfold scanBothWays at h
  simp only [] at h
  cases h1 : scan t w start w.length with
  | ok p1 =>
    obtain ⟨hd, i⟩ := p1
    simp only [h1] at h
    cases h2 : scanInverse t w start (w.length - i) with
    | ok p2 =>
      obtain ⟨tl, j⟩ := p2
      simp only [h2, Outcome.ok.injEq, Prod.mk.injEq] at h
      obtain ⟨rfl, rfl, hgap, hc⟩ := h
      unfold scan at h1
      rw [List.take_length] at h1
      obtain ⟨k1, hk1, hi, htr1, _⟩ := scanGo_char t _ w start 0 hd i (by simp) h1
      have hik : i = k1 := by omega
      subst hik
      unfold scanInverse at h2
      obtain ⟨k2, hk2, hj, htr2, _⟩ := scanGo_char t _ _ start 0 tl j (by simp) h2
      have hjk : j = k2 := by omega
      subst hjk
      have hjle : j ≤ w.length - i := by simpa using hk2
      have hL : ((w.reverse.map (fun x => -x)).take (w.length - i)).take j =
          (w.drop (w.length - j)).reverse.map (fun x => -x) := by
        rw [List.take_take, Nat.min_eq_left hjle, ← List.map_take]
        congr 1
        rw [List.reverse_drop]
        have : w.length - (w.length - j) = j := by omega
        rw [this]
      rw [hL] at htr2
      refine ⟨w.take i, w.drop (w.length - j), htr1, htr2, ?_, ?_⟩
      · intro hg1
        have hi' : i < w.length := by omega
        rw [if_pos hi'] at hc
        have hci : w[i] = c := by
          rw [← hc]; simp [List.getD, hi']
        have : w.length - j = i + 1 := by omega
        rw [this, ← hci, ← List.drop_eq_getElem_cons hi', List.take_append_drop]
      · intro hg0
        have : w.length - j = i := by omega
        rw [this, List.take_append_drop]
    | err => rw [h2] at h; cases h
    | panic => rw [h2] at h; cases h
  | err => rw [h1] at h; cases h
  | panic => rw [h1] at h; cases h

/-- the table the search is heading for: complete, closed under all expanded relators,
    standard, canonical, with at most `maxRows` rows -/
structure Target (maxRows n : Nat) (R : List (List Int)) (T : Table) : Prop where
  tcq : TCq T []
  clean : Clean T
  complete : AllComplete T
  closedR : ∀ u ∈ R, ∀ r, r < T.len → mtrace T r u = some r
  gens : T.nrGens = n
  rows : T.len ≤ maxRows
  cs : CS T
  canon : isCanonical T = .ok true

theorem Target.allGens {maxRows n : Nat} {R : List (List Int)} {T : Table} (h : Target maxRows n R T) :
    T.allGens = allGensOf n := by unfold Table.allGens; rw [h.gens]

theorem mtrace_sub {P T : Table} (hs : Sub P T) : ∀ (w : List Int) (r z : Nat), WordOK P w →
    mtrace P r w = some z → mtrace T r w = some z
  | [], r, z, _, h => h
  | g :: w, r, z, hw, h => by
    simp only [mtrace] at h ⊢
    cases hg : P.get r g with
    | ok o =>
      cases o with
      | none => simp [hg] at h
      | some d =>
        simp only [hg] at h
        rw [hs.2.2 r g d (hw g (by simp)) hg]
        exact mtrace_sub hs w d z (fun x hx => hw x (by simp [hx])) h
    | err => simp [hg] at h
    | panic => simp [hg] at h

/-- a two-sided scan in a table contained in the target: the missing letter (gap 1) is an
    entry of the target, and a closed scan (gap 0) cannot meet on two different rows -/
theorem scan_in_target {maxRows n : Nat} {R : List (List Int)} {P T : Table} (tg : Target maxRows n R T)
    (hs : Sub P T) {u : List Int} (hu : u ∈ R) (hw : WordOK P u) {start : Nat} (hl : start < P.len)
    {head tail gap : Nat} {c : Int} (h : scanBothWays P u start = .ok (head, tail, gap, c)) :
    (gap = 1 → T.get head c = .ok (some tail)) ∧ (gap = 0 → head = tail) := by
  obtain ⟨u1, u2, h1, h2, e1, e0⟩ := scan_traces h
  have hcanT : ∀ x, T.canon x = x := canon_clean tg.clean
  have hwT : WordOK T u := fun x hx => by rw [hs.allGens]; exact hw x hx
  have hlT : start < T.len := by have := hs.2.1; omega
  -- in the target
  have hwu2 : ∀ (v : List Int), (∀ x ∈ v, x ∈ u) → WordOK P v := fun v hv x hx => hw x (hv x hx)
  constructor
  · intro hg1
    have hsplit := e1 hg1
    have hu1 : ∀ x ∈ u1, x ∈ u := fun x hx => by rw [hsplit]; exact List.mem_append_left _ hx
    have hu2 : ∀ x ∈ u2, x ∈ u := fun x hx => by
      rw [hsplit]; exact List.mem_append_right _ (List.mem_cons_of_mem _ hx)
    have hcu : c ∈ u := by rw [hsplit]; simp
    have t1 := mtrace_sub hs u1 start head (hwu2 u1 hu1) h1
    have hinvw : WordOK P (u2.reverse.map (fun x => -x)) := by
      intro x hx
      simp only [List.mem_map, List.mem_reverse] at hx
      obtain ⟨y, hy, rfl⟩ := hx
      exact neg_mem_allGensOf (hw y (hu2 y hy))
    have t2 := mtrace_sub hs _ start tail hinvw h2
    -- tail · u2 = start in T
    have hwT2 : WordOK T u2 := fun x hx => hwT x (hu2 x hx)
    have hinvwT : WordOK T (u2.reverse.map (fun x => -x)) := fun x hx => by
      rw [hs.allGens]; exact hinvw x hx
    have hback := (mtrace_reverse tg.tcq _ start tail hinvwT (hcanT start) t2).1
    have hinvinv : (u2.reverse.map (fun x => -x)).reverse.map (fun x => -x) = u2 := by
      simp [List.map_reverse, Function.comp_def]
    rw [hinvinv] at hback
    -- the relator closes at start in T
    have hclose := tg.closedR u hu start hlT
    rw [hsplit, mtrace_append, t1] at hclose
    simp only [Option.bind_some, mtrace] at hclose
    have hheadl : head < T.len := mtrace_lt tg.tcq.shape u1 start head (fun x hx => hwT x (hu1 x hx)) hlT t1
    obtain ⟨x, hx⟩ := (get_some_iff T head c).mpr (tg.complete head hheadl (hcanT head) c (hwT c hcu))
    rw [hx] at hclose
    simp only [] at hclose
    have := mtrace_inj tg.tcq hwT2 (hcanT x) (hcanT tail) hclose hback
    rw [this] at hx
    exact hx
  · intro hg0
    have hsplit := e0 hg0
    have hu1 : ∀ x ∈ u1, x ∈ u := fun x hx => by rw [hsplit]; exact List.mem_append_left _ hx
    have hu2 : ∀ x ∈ u2, x ∈ u := fun x hx => by rw [hsplit]; exact List.mem_append_right _ hx
    have t1 := mtrace_sub hs u1 start head (hwu2 u1 hu1) h1
    have hinvw : WordOK P (u2.reverse.map (fun x => -x)) := by
      intro x hx
      simp only [List.mem_map, List.mem_reverse] at hx
      obtain ⟨y, hy, rfl⟩ := hx
      exact neg_mem_allGensOf (hw y (hu2 y hy))
    have t2 := mtrace_sub hs _ start tail hinvw h2
    have hwT2 : WordOK T u2 := fun x hx => hwT x (hu2 x hx)
    have hinvwT : WordOK T (u2.reverse.map (fun x => -x)) := fun x hx => by
      rw [hs.allGens]; exact hinvw x hx
    have hback := (mtrace_reverse tg.tcq _ start tail hinvwT (hcanT start) t2).1
    have hinvinv : (u2.reverse.map (fun x => -x)).reverse.map (fun x => -x) = u2 := by
      simp [List.map_reverse, Function.comp_def]
    rw [hinvinv] at hback
    have hclose := tg.closedR u hu start hlT
    rw [hsplit, mtrace_append, t1] at hclose
    simp only [Option.bind_some] at hclose
    exact mtrace_inj tg.tcq hwT2 (hcanT head) (hcanT tail) hclose hback

end DSymVerif.CanonP
